/-
Helper lemmas for C12 (model: EdzedModel/OutputAsync.lean).
-/
import EdzedModel.OutputAsync

namespace Edzed.OutputAsync

/-! ### structure of the helpers -/

/-- what `drain` discards and what it finally starts -/
def lastJob (j : Job) : List Job → Job
  | [] => j
  | k :: q => lastJob k q

def discards (s : State) (j : Job) : List Job → State
  | [] => s
  | k :: q => discards (emit s (.canc j)) k q

theorem drain_eq (s : State) (j : Job) (q : List Job) :
    drain s j q = startRun (discards s j q) (lastJob j q) := by
  induction q generalizing s j with
  | nil => rfl
  | cons k q ih => simp [drain, discards, lastJob, ih]

theorem pick_spec {t : Nat} {rs a b : List Run} {r : Run} (h : pick t rs = some (a, r, b)) :
    rs = a ++ r :: b ∧ r.till = t := by
  induction rs generalizing a with
  | nil => simp [pick] at h
  | cons x xs ih =>
    simp only [pick] at h
    split at h
    · next hx => simp at h; obtain ⟨rfl, rfl, rfl⟩ := h; simp [hx]
    · split at h
      · next a' x' b' hp =>
        simp at h; obtain ⟨rfl, rfl, rfl⟩ := h
        have := ih hp; simp [this.1, this.2]
      · simp at h

/-- induction over the primitive transitions: a predicate kept by the controller step, by a firing
    timer, by the passing of time, by an accepted put and by `stop()` holds in every reachable state -/
theorem run_induction (c : Cfg) (P : State → Prop) (h0 : P {})
    (hsettle : ∀ s, P s → P (settle c s))
    (hfire : ∀ s t, P s → P (fire c s t))
    (hnow : ∀ s t, P s → P { s with now := max s.now t })
    (haccept : ∀ s x, P s → s.stopped = false → P (accept s x))
    (hstop : ∀ s, P s → P (doStop c s)) :
    ∀ ops, P (run c ops) := by
  have hadv : ∀ bound fuel s, P s → P (advance c bound fuel s) := by
    intro bound fuel
    induction fuel with
    | zero => intro s h; exact h
    | succ n ih =>
      intro s h
      simp only [advance]
      split
      · split
        · exact ih _ (hfire _ _ h)
        · exact h
      · exact h
  have hadvTo : ∀ bound s, P s → P (advanceTo c bound s) := by
    intro bound s h
    simp only [advanceTo]
    have h2 := hadv bound (measure (settle c s)) _ (hsettle s h)
    cases bound with
    | none => exact h2
    | some b => exact hnow _ _ h2
  have hstep : ∀ s op, P s → P (step c s op) := by
    intro s op h
    cases op with
    | put t pre batch x =>
      have h1 : P (if batch = true then s else advanceTo c (some (t, !pre)) s) := by
        split
        · exact h
        · exact hadvTo _ _ h
      show P (if (if batch = true then s else advanceTo c (some (t, !pre)) s).stopped = true
        then _ else accept _ x)
      generalize (if batch = true then s else advanceTo c (some (t, !pre)) s) = s1 at h1
      by_cases hs : s1.stopped = true
      · simp only [hs, if_true]; exact h1
      · simp only [hs]; exact haccept _ _ h1 (by simpa using hs)
    | stop t pre => exact hstop _ (hadvTo _ _ h)
    | finish => exact hadvTo none _ h
  intro ops
  suffices ∀ s, P s → P (ops.foldl (step c) s) from this _ h0
  induction ops with
  | nil => intro s h; exact h
  | cons op ops ih => intro s h; exact ih _ (hstep s op h)


/-! ### field projections of the helpers -/

@[simp] theorem emit_runs (s : State) (e : Ev) : (emit s e).runs = s.runs := rfl
@[simp] theorem emit_queue (s : State) (e : Ev) : (emit s e).queue = s.queue := rfl
@[simp] theorem emit_output (s : State) (e : Ev) : (emit s e).output = s.output := rfl
@[simp] theorem emit_now (s : State) (e : Ev) : (emit s e).now = s.now := rfl
@[simp] theorem emit_stopped (s : State) (e : Ev) : (emit s e).stopped = s.stopped := rfl
@[simp] theorem emit_sdPending (s : State) (e : Ev) : (emit s e).sdPending = s.sdPending := rfl
@[simp] theorem emit_nacc (s : State) (e : Ev) : (emit s e).nacc = s.nacc := rfl
@[simp] theorem emit_log (s : State) (e : Ev) : (emit s e).log = (s.now, e) :: s.log := rfl

@[simp] theorem discards_runs (s : State) (j : Job) (q : List Job) : (discards s j q).runs = s.runs := by
  induction q generalizing s j <;> simp_all [discards]
@[simp] theorem discards_queue (s : State) (j : Job) (q : List Job) : (discards s j q).queue = s.queue := by
  induction q generalizing s j <;> simp_all [discards]
@[simp] theorem discards_output (s : State) (j : Job) (q : List Job) : (discards s j q).output = s.output := by
  induction q generalizing s j <;> simp_all [discards]
@[simp] theorem discards_now (s : State) (j : Job) (q : List Job) : (discards s j q).now = s.now := by
  induction q generalizing s j <;> simp_all [discards]
@[simp] theorem discards_stopped (s : State) (j : Job) (q : List Job) : (discards s j q).stopped = s.stopped := by
  induction q generalizing s j <;> simp_all [discards]
@[simp] theorem discards_sdPending (s : State) (j : Job) (q : List Job) :
    (discards s j q).sdPending = s.sdPending := by
  induction q generalizing s j <;> simp_all [discards]
@[simp] theorem discards_nacc (s : State) (j : Job) (q : List Job) : (discards s j q).nacc = s.nacc := by
  induction q generalizing s j <;> simp_all [discards]

@[simp] theorem startRun_runs (s : State) (j : Job) :
    (startRun s j).runs = s.runs ++ [⟨j, true, s.now + j.data.dur⟩] := rfl
@[simp] theorem startRun_queue (s : State) (j : Job) : (startRun s j).queue = s.queue := rfl
@[simp] theorem startRun_output (s : State) (j : Job) : (startRun s j).output = s.output + 1 := rfl
@[simp] theorem startRun_now (s : State) (j : Job) : (startRun s j).now = s.now := rfl
@[simp] theorem startRun_stopped (s : State) (j : Job) : (startRun s j).stopped = s.stopped := rfl
@[simp] theorem startRun_sdPending (s : State) (j : Job) : (startRun s j).sdPending = s.sdPending := rfl
@[simp] theorem startRun_nacc (s : State) (j : Job) : (startRun s j).nacc = s.nacc := rfl
@[simp] theorem startRun_log (s : State) (j : Job) :
    (startRun s j).log = (s.now, .start j) :: (s.now, .out (s.output + 1)) :: s.log := rfl

@[simp] theorem countDown_runs (s : State) : (countDown s).runs = s.runs := rfl
@[simp] theorem countDown_queue (s : State) : (countDown s).queue = s.queue := rfl
@[simp] theorem countDown_output (s : State) : (countDown s).output = s.output - 1 := rfl
@[simp] theorem countDown_now (s : State) : (countDown s).now = s.now := rfl
@[simp] theorem countDown_stopped (s : State) : (countDown s).stopped = s.stopped := rfl
@[simp] theorem countDown_sdPending (s : State) : (countDown s).sdPending = s.sdPending := rfl
@[simp] theorem countDown_nacc (s : State) : (countDown s).nacc = s.nacc := rfl
@[simp] theorem countDown_log (s : State) : (countDown s).log = (s.now, .out (s.output - 1)) :: s.log := rfl

@[simp] theorem startAll_queue (s : State) (q : List Job) : (startAll s q).queue = s.queue := by
  induction q generalizing s <;> simp_all [startAll]
@[simp] theorem startAll_now (s : State) (q : List Job) : (startAll s q).now = s.now := by
  induction q generalizing s <;> simp_all [startAll]
@[simp] theorem startAll_stopped (s : State) (q : List Job) : (startAll s q).stopped = s.stopped := by
  induction q generalizing s <;> simp_all [startAll]
@[simp] theorem startAll_sdPending (s : State) (q : List Job) : (startAll s q).sdPending = s.sdPending := by
  induction q generalizing s <;> simp_all [startAll]
@[simp] theorem startAll_nacc (s : State) (q : List Job) : (startAll s q).nacc = s.nacc := by
  induction q generalizing s <;> simp_all [startAll]
theorem startAll_runs (s : State) (q : List Job) :
    (startAll s q).runs = s.runs ++ q.map (fun j => ⟨j, true, s.now + j.data.dur⟩) := by
  induction q generalizing s <;> simp_all [startAll]
theorem startAll_output (s : State) (q : List Job) : (startAll s q).output = s.output + q.length := by
  induction q generalizing s with
  | nil => simp [startAll]
  | cons j q ih => simp [startAll, ih]; omega

/-! ### case analysis of the controller step and of a firing timer -/

theorem settle_cases (c : Cfg) (s : State) (P : State → Prop)
    (h_id : P s)
    (h_wait : c.mode = Mode.wait → ∀ j q, s.runs = [] → s.queue = j :: q →
      P (startRun { s with queue := q } j))
    (h_drain : c.mode = Mode.cancel → ∀ j q, s.runs = [] → s.queue = j :: q →
      P (startRun (discards { s with queue := [] } j q) (lastJob j q)))
    (h_cancel : c.mode = Mode.cancel → ∀ j q r rest, s.queue = j :: q → s.runs = r :: rest →
      r.coro = true → P (cancelCur c s r rest))
    (h_start : c.mode = Mode.start → P (startStopData (startAll { s with queue := [] } s.queue))) :
    P (settle c s) := by
  unfold settle
  split
  · next hm =>
    split
    · next j q hr hq => exact h_wait hm j q hr hq
    · exact h_id
  · next hm =>
    split
    · exact h_id
    · next j q hq =>
      split
      · next hr => rw [drain_eq]; exact h_drain hm j q hr hq
      · next r rest hr =>
        split
        · next hc => exact h_cancel hm j q r rest hq hr hc
        · exact h_id
  · next hm => exact h_start hm

/-- the state in which the coroutine of `r` has just ended -/
def afterCoro (s : State) (t : Nat) (r : Run) : State :=
  emit (emit { s with now := max s.now t } (.done r.job))
    (if r.job.data.fail then .err r.job else .succ r.job)

theorem fire_cases (c : Cfg) (s : State) (t : Nat) (P : State → Prop)
    (h_id : pick t s.runs = none → P s)
    (h_guard : ∀ a r b, s.runs = a ++ r :: b → r.till = t → r.coro = true → 0 < c.guard →
      P { afterCoro s t r with runs := a ++ { r with coro := false, till := max s.now t + c.guard } :: b })
    (h_fin1 : ∀ a r b, s.runs = a ++ r :: b → r.till = t → r.coro = true → c.guard = 0 →
      P (finishRun c (afterCoro s t r) a b))
    (h_fin2 : ∀ a r b, s.runs = a ++ r :: b → r.till = t → r.coro = false →
      P (finishRun c { s with now := max s.now t } a b)) :
    P (fire c s t) := by
  unfold fire
  split
  · next hp => exact h_id hp
  · next a r b hp =>
    obtain ⟨hrs, ht⟩ := pick_spec hp
    split
    · next hc =>
      unfold coroEnd
      by_cases hg : 0 < c.guard
      · simp only [hg, if_true]; exact h_guard a r b hrs ht hc hg
      · simp only [gt_iff_lt, hg, if_false]; exact h_fin1 a r b hrs ht hc (by omega)
    · next hc => exact h_fin2 a r b hrs ht (by simpa using hc)

/-! ### the output counts the active runs; one run at a time outside start mode -/

def CountInv (c : Cfg) (s : State) : Prop :=
  s.output = s.runs.length ∧ (c.mode ≠ Mode.start → s.runs.length ≤ 1)

theorem startStopData_countInv (c : Cfg) (s : State) (hm : c.mode = Mode.start) (h : CountInv c s) :
    CountInv c (startStopData s) := by
  unfold startStopData
  split
  · split
    · simp [CountInv, hm] at *; exact h
    · exact h
  · exact h

theorem settle_countInv (c : Cfg) (s : State) (h : CountInv c s) : CountInv c (settle c s) := by
  obtain ⟨h1, h2⟩ := h
  apply settle_cases
  · exact ⟨h1, h2⟩
  · intro hm j q hr hq; simp [CountInv, h1, hr]
  · intro hm j q hr hq; simp [CountInv, h1, hr]
  · intro hm j q r rest hq hr hc
    simp [CountInv, cancelCur, h1, hr] at *; exact h2
  · intro hm
    apply startStopData_countInv c _ hm
    simp [CountInv, startAll_runs, startAll_output, h1, hm]

theorem finishRun_countInv (c : Cfg) (s : State) (a b : List Run) (r : Run)
    (hrs : s.runs = a ++ r :: b) (h : CountInv c s) : CountInv c (finishRun c s a b) := by
  apply settle_countInv
  obtain ⟨h1, h2⟩ := h
  simp [CountInv, h1, hrs] at *
  intro hm; have := h2 hm; omega

theorem fire_countInv (c : Cfg) (s : State) (t : Nat) (h : CountInv c s) : CountInv c (fire c s t) := by
  apply fire_cases
  · intro _; exact h
  · intro a r b hrs _ _ _
    obtain ⟨h1, h2⟩ := h
    simp [CountInv, afterCoro, h1, hrs] at *; exact h2
  · intro a r b hrs _ _ _
    exact finishRun_countInv c _ a b r (by simpa [afterCoro] using hrs) (by simpa [CountInv, afterCoro] using h)
  · intro a r b hrs _ _
    exact finishRun_countInv c _ a b r (by simpa using hrs) (by simpa [CountInv] using h)

theorem accept_countInv (c : Cfg) (s : State) (x : Item) (h : CountInv c s) : CountInv c (accept s x) := by
  simpa [CountInv, accept] using h

theorem doStop_countInv (c : Cfg) (s : State) (h : CountInv c s) : CountInv c (doStop c s) := by
  unfold doStop
  split
  · exact h
  · split
    · simpa [CountInv] using h
    · split
      · simpa [CountInv] using h
      · simpa [CountInv, accept] using h

theorem run_countInv (c : Cfg) (ops : List Op) : CountInv c (run c ops) :=
  run_induction c (CountInv c) (by simp [CountInv]) (settle_countInv c) (fire_countInv c)
    (fun _ _ h => h) (fun s x h _ => accept_countInv c s x h) (doStop_countInv c) ops


/-! ### termination: every internal step lowers `measure`; `finish` reaches the idle state -/

def runCost (r : Run) : Nat := if r.coro then 2 else 1
def sdCost (o : Option Job) : Nat := if o.isSome then 2 else 0

theorem measure_def (s : State) :
    measure s = 2 * s.queue.length + (s.runs.map runCost).sum + sdCost s.sdPending := rfl

theorem sum_map_const2 (q : List Job) : (q.map (fun j => runCost ⟨j, true, t + j.data.dur⟩)).sum = 2 * q.length := by
  induction q with
  | nil => rfl
  | cons j q ih => simp only [List.map_cons, List.sum_cons, ih, List.length_cons]; simp [runCost]; omega

theorem startStopData_measure (s : State) : measure (startStopData s) ≤ measure s := by
  unfold startStopData
  split
  · next j hj =>
    split
    · simp [measure_def, hj, runCost, sdCost, List.sum_append]; omega
    · exact Nat.le_refl _
  · exact Nat.le_refl _

theorem settle_measure (c : Cfg) (s : State) : measure (settle c s) ≤ measure s := by
  apply settle_cases c s (fun s' => measure s' ≤ measure s)
  · exact Nat.le_refl _
  · intro _ j q hr hq; simp [measure_def, hr, hq, runCost]; omega
  · intro _ j q hr hq; simp [measure_def, hr, hq, runCost]; omega
  · intro _ j q r rest hq hr hc; simp [measure_def, cancelCur, hr, hq, runCost, hc]
  · intro _
    refine Nat.le_trans (startStopData_measure _) ?_
    simp only [measure_def, startAll_runs, List.map_append, List.sum_append, List.map_map, Function.comp_def,
      startAll_queue, startAll_sdPending, sum_map_const2]
    simp; omega

theorem finishRun_measure (c : Cfg) (s : State) (a b : List Run) (r : Run) (hrs : s.runs = a ++ r :: b) :
    measure (finishRun c s a b) < measure s := by
  refine Nat.lt_of_le_of_lt (settle_measure _ _) ?_
  have : 1 ≤ runCost r := by unfold runCost; split <;> omega
  simp [measure_def, hrs, List.sum_append]
  omega

theorem fire_measure (c : Cfg) (s : State) (t : Nat) (h : (pick t s.runs).isSome) :
    measure (fire c s t) < measure s := by
  apply fire_cases c s t (fun s' => measure s' < measure s)
  · intro hp; simp [hp] at h
  · intro a r b hrs _ hc _
    simp [measure_def, afterCoro, hrs, List.sum_append, runCost, hc]
  · intro a r b hrs _ _ _
    exact finishRun_measure c (afterCoro s t r) a b r (by simpa [afterCoro] using hrs)
  · intro a r b hrs _ _
    exact finishRun_measure c { s with now := max s.now t } a b r (by simpa using hrs)

theorem minTill_pick (rs : List Run) (m : Nat) (h : minTill rs = some m) : (pick m rs).isSome := by
  induction rs generalizing m with
  | nil => simp [minTill] at h
  | cons r rs ih =>
    simp only [minTill] at h
    simp only [pick]
    split
    · rfl
    · next hne =>
      split at h
      · simp at h; exact absurd h hne
      · next m' hm' =>
        simp at h
        have : m = m' := by omega
        subst this
        have := ih m hm'
        split <;> simp_all

theorem minTill_none (rs : List Run) (h : minTill rs = none) : rs = [] := by
  cases rs with
  | nil => rfl
  | cons r rs => simp only [minTill] at h; split at h <;> simp at h

theorem measure_zero_runs (s : State) (h : measure s = 0) : s.runs = [] := by
  cases hr : s.runs with
  | nil => rfl
  | cons r rs =>
    have : 1 ≤ runCost r := by unfold runCost; split <;> omega
    simp [measure_def, hr] at h; omega

/-- with enough fuel the unbounded `advance` stops only when no run is left -/
theorem advance_none_runs (c : Cfg) (fuel : Nat) (s : State) (h : measure s ≤ fuel) :
    (advance c none fuel s).runs = [] := by
  induction fuel generalizing s with
  | zero => exact measure_zero_runs s (by omega)
  | succ n ih =>
    simp only [advance]
    split
    · next m hm =>
      simp only [due, if_true]
      apply ih
      have := fire_measure c s m (minTill_pick _ _ hm)
      omega
    · next hm => exact minTill_none _ hm


/-! ### after the controller has run nothing startable is left waiting -/

def Quiet (c : Cfg) (s : State) : Prop :=
  (c.mode = Mode.wait → s.runs = [] → s.queue = []) ∧
  (c.mode = Mode.cancel → (s.runs = [] → s.queue = []) ∧
      (∀ r rest, s.runs = r :: rest → r.coro = true → s.queue = [])) ∧
  (c.mode = Mode.start → s.queue = [] ∧ (s.sdPending.isSome → s.stopped = true → s.runs ≠ []))

theorem startStopData_quiet (c : Cfg) (s : State) (hm : c.mode = Mode.start) (hq : s.queue = []) :
    Quiet c (startStopData s) := by
  refine ⟨by simp [hm], by simp [hm], fun _ => ?_⟩
  unfold startStopData
  split
  · next j hj =>
    split
    · simp [hq]
    · next hc =>
      refine ⟨hq, fun _ hst hr => ?_⟩
      simp [hst, hr] at hc
  · next hn => simp [hn, hq]

theorem settle_quiet (c : Cfg) (s : State) : Quiet c (settle c s) := by
  unfold settle
  split
  · next hm =>
    split
    · simp [Quiet, hm]
    · next hno =>
      refine ⟨fun _ hr => ?_, by simp [hm], by simp [hm]⟩
      cases hq : s.queue with
      | nil => rfl
      | cons j q => exact absurd hq (hno j q hr)
  · next hm =>
    split
    · next hq => simp [Quiet, hm, hq]
    · next j q hq =>
      split
      · simp [Quiet, hm, drain_eq]
      · next r rest hr =>
        split
        · simp [Quiet, hm, cancelCur]
        · next hc => simp [Quiet, hm, hr]; intro h; exact absurd h hc
  · next hm => exact startStopData_quiet c _ hm (by simp)

theorem fire_quiet (c : Cfg) (s : State) (t : Nat) (h : Quiet c s) : Quiet c (fire c s t) := by
  apply fire_cases
  · intro _; exact h
  · intro a r b hrs _ _ _
    obtain ⟨h1, h2, h3⟩ := h
    refine ⟨fun _ hr => by simp at hr, fun hm => ⟨fun hr => by simp at hr, ?_⟩, fun hm => ?_⟩
    · intro r0 rest hr0 hc0
      cases a with
      | nil => simp at hr0; rw [← hr0.1] at hc0; simp at hc0
      | cons x a' =>
        simp at hr0
        exact (h2 hm).2 x (a' ++ r :: b) (by simp [hrs]) (by rw [hr0.1]; exact hc0)
    · exact ⟨by simpa [afterCoro] using (h3 hm).1, fun _ _ => by simp⟩
  · intro a r b _ _ _ _; exact settle_quiet _ _
  · intro a r b _ _ _; exact settle_quiet _ _

theorem advance_quiet (c : Cfg) (bound : Option (Nat × Bool)) (fuel : Nat) (s : State) (h : Quiet c s) :
    Quiet c (advance c bound fuel s) := by
  induction fuel generalizing s with
  | zero => exact h
  | succ n ih =>
    simp only [advance]
    split
    · split
      · exact ih _ (fire_quiet c s _ h)
      · exact h
    · exact h

/-! ### stop_data waits in `sdPending` only in start mode and only after `stop()` -/

def SdInv (c : Cfg) (s : State) : Prop :=
  (c.mode ≠ Mode.start → s.sdPending = none) ∧ (s.sdPending.isSome → s.stopped = true)

theorem startStopData_sdInv (c : Cfg) (s : State) (h : SdInv c s) : SdInv c (startStopData s) := by
  unfold startStopData
  split
  · split
    · simp [SdInv]
    · exact h
  · exact h

theorem settle_sdInv (c : Cfg) (s : State) (h : SdInv c s) : SdInv c (settle c s) := by
  apply settle_cases
  · exact h
  · intros; simpa [SdInv] using h
  · intros; simpa [SdInv] using h
  · intros; simpa [SdInv, cancelCur] using h
  · intro _; apply startStopData_sdInv; simpa [SdInv] using h

theorem fire_sdInv (c : Cfg) (s : State) (t : Nat) (h : SdInv c s) : SdInv c (fire c s t) := by
  apply fire_cases
  · intro _; exact h
  · intros; simpa [SdInv, afterCoro] using h
  · intros; apply settle_sdInv; simpa [SdInv, afterCoro] using h
  · intros; apply settle_sdInv; simpa [SdInv] using h

theorem doStop_sdInv (c : Cfg) (s : State) (h : SdInv c s) : SdInv c (doStop c s) := by
  unfold doStop
  split
  · exact h
  · split
    · simp [SdInv] at *; exact h.1
    · split
      · next hm => simp [SdInv, hm]
      · simp [SdInv, accept] at *; exact h.1

theorem run_sdInv (c : Cfg) (ops : List Op) : SdInv c (run c ops) :=
  run_induction c (SdInv c) (by simp [SdInv]) (settle_sdInv c) (fire_sdInv c)
    (fun _ _ h => h) (fun s x h _ => by simpa [SdInv, accept] using h) (doStop_sdInv c) ops

theorem run_snoc (c : Cfg) (ops : List Op) (op : Op) : run c (ops ++ [op]) = step c (run c ops) op := by
  simp [run, List.foldl_append]

/-- `finish` reaches the idle state -/
theorem finish_idle (c : Cfg) (ops : List Op) :
    let s := step c (run c ops) .finish
    s.runs = [] ∧ s.queue = [] ∧ s.sdPending = none ∧ s.output = 0 := by
  intro s
  have hruns : s.runs = [] := advance_none_runs c _ _ (Nat.le_refl _)
  have hq : Quiet c s := advance_quiet c none _ _ (settle_quiet c _)
  have hsd : SdInv c s := by have := run_sdInv c (ops ++ [.finish]); rwa [run_snoc] at this
  have hcnt : CountInv c s := by have := run_countInv c (ops ++ [.finish]); rwa [run_snoc] at this
  obtain ⟨q1, q2, q3⟩ := hq
  refine ⟨hruns, ?_, ?_, by rw [hcnt.1, hruns]; rfl⟩
  · cases hm : c.mode with
    | wait => exact q1 hm hruns
    | cancel => exact (q2 hm).1 hruns
    | start => exact (q3 hm).1
  · cases hm : c.mode with
    | wait => exact hsd.1 (by simp [hm])
    | cancel => exact hsd.1 (by simp [hm])
    | start =>
      cases hp : s.sdPending with
      | none => rfl
      | some j => exact absurd hruns ((q3 hm).2 (by simp [hp]) (hsd.2 (by simp [hp])))


/-! ### every accepted put is pending or has exactly one result -/

def evPut : Ev → Option Job
  | .put j => some j
  | _ => none

def evRes : Ev → Option Job
  | .succ j => some j
  | .err j => some j
  | .canc j => some j
  | _ => none

def putJobs (log : List (Nat × Ev)) : List Job := log.filterMap (fun e => evPut e.2)
def resJobs (log : List (Nat × Ev)) : List Job := log.filterMap (fun e => evRes e.2)

/-- accepted and still owed a result: queued, or its coroutine is running, or stop_data waiting in stop_async -/
def pendJobs (s : State) : List Job :=
  s.queue ++ ((s.runs.filter (·.coro)).map (·.job) ++ s.sdPending.toList)

def Balanced (s : State) : Prop :=
  ∀ x, (putJobs s.log).count x = (resJobs s.log).count x + (pendJobs s).count x

@[simp] theorem putJobs_cons (t : Nat) (e : Ev) (l : List (Nat × Ev)) :
    putJobs ((t, e) :: l) = (evPut e).toList ++ putJobs l := by
  simp only [putJobs, List.filterMap_cons]; cases evPut e <;> simp
@[simp] theorem resJobs_cons (t : Nat) (e : Ev) (l : List (Nat × Ev)) :
    resJobs ((t, e) :: l) = (evRes e).toList ++ resJobs l := by
  simp only [resJobs, List.filterMap_cons]; cases evRes e <;> simp

theorem discards_put (s : State) (j : Job) (q : List Job) :
    putJobs (discards s j q).log = putJobs s.log := by
  induction q generalizing s j with
  | nil => rfl
  | cons k q ih => simp [discards, ih, evPut]

theorem discards_res (s : State) (j : Job) (q : List Job) (x : Job) :
    (resJobs (discards s j q).log).count x + [lastJob j q].count x
      = (resJobs s.log).count x + (j :: q).count x := by
  induction q generalizing s j with
  | nil => simp [discards, lastJob]
  | cons k q ih =>
    have := ih (emit s (.canc j)) k
    simp [discards, lastJob, evRes, List.count_cons] at this ⊢
    omega

theorem startStopData_balanced (s : State) (h : Balanced s) : Balanced (startStopData s) := by
  unfold startStopData
  split
  · next j hj =>
    split
    · intro x; have := h x
      simp [pendJobs, hj, evPut, evRes, List.filter_append, List.count_cons] at this ⊢
      omega
    · exact h
  · exact h

theorem startAll_balanced (s : State) (q : List Job) (hq : s.queue = [])
    (h : ∀ x, (putJobs s.log).count x = (resJobs s.log).count x + (pendJobs s).count x + q.count x) :
    Balanced (startAll s q) := by
  induction q generalizing s with
  | nil => intro x; simpa [startAll] using h x
  | cons j q ih =>
    apply ih
    · simpa using hq
    · intro x; have := h x
      simp [pendJobs, hq, evPut, evRes, List.filter_append, List.count_cons] at this ⊢
      omega

theorem settle_balanced (c : Cfg) (s : State) (h : Balanced s) : Balanced (settle c s) := by
  apply settle_cases
  · exact h
  · intro _ j q hr hq x; have := h x
    simp [pendJobs, hr, hq, evPut, evRes, List.count_cons] at this ⊢
    omega
  · intro _ j q hr hq x; have := h x
    have hd := discards_res { s with queue := [] } j q x
    simp [pendJobs, hr, hq, evPut, evRes, List.count_cons, discards_put] at this hd ⊢
    omega
  · intro _ j q r rest hq hr hc x; have := h x
    simp [pendJobs, cancelCur, hr, hq, hc, evPut, evRes, List.count_cons] at this ⊢
    omega
  · intro _
    apply startStopData_balanced
    apply startAll_balanced _ _ rfl
    intro x; have := h x
    simp [pendJobs, List.count_append] at this ⊢
    omega

theorem finishRun_balanced (c : Cfg) (s : State) (a b : List Run) (r : Run)
    (hrs : s.runs = a ++ r :: b) (hc : r.coro = false) (h : Balanced s) :
    Balanced (finishRun c s a b) := by
  apply settle_balanced
  intro x; have := h x
  simp [pendJobs, hrs, hc, evPut, evRes, List.filter_append] at this ⊢
  omega

theorem fire_balanced (c : Cfg) (s : State) (t : Nat) (h : Balanced s) : Balanced (fire c s t) := by
  apply fire_cases
  · intro _; exact h
  · intro a r b hrs _ hc _ x; have := h x
    cases hf : r.job.data.fail <;>
    · simp [pendJobs, afterCoro, hrs, hc, hf, evPut, evRes, List.filter_append, List.count_cons] at this ⊢
      omega
  · intro a r b hrs _ hc _
    apply settle_balanced
    intro x; have := h x
    cases hf : r.job.data.fail <;>
    · simp [pendJobs, afterCoro, hrs, hc, hf, evPut, evRes, List.filter_append, List.count_cons] at this ⊢
      omega
  · intro a r b hrs _ hc
    exact finishRun_balanced c _ a b r (by simpa using hrs) hc (by simpa [Balanced, pendJobs] using h)

theorem accept_balanced (s : State) (x : Item) (h : Balanced s) : Balanced (accept s x) := by
  intro y; have := h y
  simp [pendJobs, accept, evPut, evRes, List.count_cons] at this ⊢
  omega

theorem doStop_balanced (c : Cfg) (s : State) (h : Balanced s) (hsd : SdInv c s) (hst : s.stopped = false) :
    Balanced (doStop c s) := by
  unfold doStop
  rw [if_neg (by simp [hst])]
  split
  · simpa [Balanced, pendJobs] using h
  · next d _ =>
    split
    · have hnone : s.sdPending = none := by
        cases hp : s.sdPending with
        | none => rfl
        | some j => have := hsd.2 (by simp [hp]); simp [hst] at this
      intro y; have := h y
      simp [pendJobs, evPut, evRes, hnone, List.count_cons] at this ⊢
      omega
    · have := accept_balanced s d h
      simpa [Balanced, pendJobs] using this


theorem run_balanced (c : Cfg) (ops : List Op) : Balanced (run c ops) := by
  have := run_induction c (fun s => Balanced s ∧ SdInv c s) ⟨by simp [Balanced, putJobs, resJobs, pendJobs], by simp [SdInv]⟩
    (fun s h => ⟨settle_balanced c s h.1, settle_sdInv c s h.2⟩)
    (fun s t h => ⟨fire_balanced c s t h.1, fire_sdInv c s t h.2⟩)
    (fun _ _ h => h)
    (fun s x h _ => ⟨accept_balanced s x h.1, by simpa [SdInv, accept] using h.2⟩)
    (fun s h => by
      refine ⟨?_, doStop_sdInv c s h.2⟩
      cases hst : s.stopped with
      | true => simp [doStop, hst]; exact h.1
      | false => exact doStop_balanced c s h.1 h.2 hst) ops
  exact this.1

/-! ### the controller and the timers accept nothing: `put` markers and `nacc` change only in accept/stop -/

theorem discards_log_put (s : State) (j : Job) (q : List Job) : putJobs (discards s j q).log = putJobs s.log :=
  discards_put s j q

theorem startAll_put (s : State) (q : List Job) : putJobs (startAll s q).log = putJobs s.log := by
  induction q generalizing s with
  | nil => rfl
  | cons j q ih => simp [startAll, ih, evPut]

theorem settle_put (c : Cfg) (s : State) :
    putJobs (settle c s).log = putJobs s.log ∧ (settle c s).nacc = s.nacc := by
  apply settle_cases c s (fun s' => putJobs s'.log = putJobs s.log ∧ s'.nacc = s.nacc)
  · exact ⟨rfl, rfl⟩
  · intros; simp [evPut]
  · intros; simp [evPut, discards_put]
  · intros; simp [cancelCur, evPut]
  · intro _
    unfold startStopData
    split
    · split
      · simp [evPut, startAll_put]
      · simp [startAll_put]
    · simp [startAll_put]

theorem fire_put (c : Cfg) (s : State) (t : Nat) :
    putJobs (fire c s t).log = putJobs s.log ∧ (fire c s t).nacc = s.nacc := by
  apply fire_cases c s t (fun s' => putJobs s'.log = putJobs s.log ∧ s'.nacc = s.nacc)
  · intro _; exact ⟨rfl, rfl⟩
  · intro a r b _ _ _ _; cases hf : r.job.data.fail <;> simp [afterCoro, evPut, hf]
  · intro a r b _ _ _ _
    have := settle_put c (countDown { afterCoro s t r with runs := a ++ b })
    unfold finishRun
    rw [this.1, this.2]
    cases hf : r.job.data.fail <;> simp [afterCoro, evPut, hf]
  · intro a r b _ _ _
    have := settle_put c (countDown { s with now := max s.now t, runs := a ++ b })
    unfold finishRun
    rw [this.1, this.2]
    simp [evPut]

/-- accepted puts are numbered consecutively: each `put` marker occurs once, with a number below `nacc` -/
def UniqInv (s : State) : Prop :=
  (∀ x ∈ putJobs s.log, x.seq < s.nacc) ∧ ∀ x, (putJobs s.log).count x ≤ 1

theorem uniq_add (s s' : State) (d : Item) (h : UniqInv s)
    (hp : putJobs s'.log = ⟨s.nacc, d⟩ :: putJobs s.log) (hn : s'.nacc = s.nacc + 1) : UniqInv s' := by
  obtain ⟨h1, h2⟩ := h
  refine ⟨?_, ?_⟩
  · intro x hx; rw [hp] at hx; rw [hn]
    cases hx with
    | head => simp
    | tail _ hx => have := h1 x hx; omega
  · intro x; rw [hp, List.count_cons]
    split
    · next heq =>
      have : (putJobs s.log).count x = 0 := by
        apply List.count_eq_zero_of_not_mem
        intro hx; have := h1 x hx
        have hx2 : x = ⟨s.nacc, d⟩ := by have := eq_of_beq heq; exact this.symm
        rw [hx2] at this; simp at this
      omega
    · exact h2 x

theorem run_uniq (c : Cfg) (ops : List Op) : UniqInv (run c ops) := by
  apply run_induction c UniqInv
  · simp [UniqInv, putJobs]
  · intro s h; have := settle_put c s; simpa [UniqInv, this.1, this.2] using h
  · intro s t h; have := fire_put c s t; simpa [UniqInv, this.1, this.2] using h
  · intro s t h; exact h
  · intro s x h _; exact uniq_add s _ x h (by simp [accept, evPut]) rfl
  · intro s h
    unfold doStop
    split
    · exact h
    · split
      · exact h
      · next d _ =>
        split
        · exact uniq_add s _ d h (by simp [evPut]) rfl
        · exact uniq_add s _ d h (by simp [accept, evPut]) rfl

theorem mem_putJobs {log : List (Nat × Ev)} {t : Nat} {j : Job} (h : (t, Ev.put j) ∈ log) : j ∈ putJobs log := by
  simp only [putJobs, List.mem_filterMap]
  exact ⟨(t, .put j), h, rfl⟩


/-! ### wait mode: runs start in arrival order -/

def evStart : Ev → Option Job
  | .start j => some j
  | _ => none

def startJobs (log : List (Nat × Ev)) : List Job := log.filterMap (fun e => evStart e.2)

@[simp] theorem startJobs_cons (t : Nat) (e : Ev) (l : List (Nat × Ev)) :
    startJobs ((t, e) :: l) = (evStart e).toList ++ startJobs l := by
  simp only [startJobs, List.filterMap_cons]; cases evStart e <;> simp

/-- newest first: the puts are the queued ones followed by the started ones -/
def Fifo (c : Cfg) (s : State) : Prop :=
  c.mode = Mode.wait → putJobs s.log = s.queue.reverse ++ startJobs s.log

theorem settle_fifo (c : Cfg) (s : State) (h : Fifo c s) : Fifo c (settle c s) := by
  apply settle_cases
  · exact h
  · intro hm j q hr hq _; have := h hm
    simp [hq, evPut, evStart] at this ⊢; exact this
  · intro hm _ _ _ _ hw; rw [hm] at hw; cases hw
  · intro hm _ _ _ _ _ _ _ hw; rw [hm] at hw; cases hw
  · intro hm hw; rw [hm] at hw; cases hw

theorem fire_fifo (c : Cfg) (s : State) (t : Nat) (h : Fifo c s) : Fifo c (fire c s t) := by
  apply fire_cases
  · intro _; exact h
  · intro a r b _ _ _ _ hm; have := h hm
    cases hf : r.job.data.fail <;> simpa [afterCoro, evPut, evStart, hf] using this
  · intro a r b _ _ _ _
    apply settle_fifo
    intro hm; have := h hm
    cases hf : r.job.data.fail <;> simpa [afterCoro, evPut, evStart, hf] using this
  · intro a r b _ _ _
    apply settle_fifo
    intro hm; have := h hm
    simpa [evPut, evStart] using this

theorem run_fifo (c : Cfg) (ops : List Op) : Fifo c (run c ops) := by
  apply run_induction c (Fifo c)
  · intro _; rfl
  · exact settle_fifo c
  · exact fire_fifo c
  · intro s t h; exact h
  · intro s x h _ hm; have := h hm; simp [accept, evPut, evStart, this]
  · intro s h hm
    have hne : c.mode ≠ Mode.start := by rw [hm]; simp
    unfold doStop
    split
    · exact h hm
    · split
      · exact h hm
      · have := h hm; simp [hne, accept, evPut, evStart, this]


/-! ### cancel mode: whatever is cancelled (run or queued item) has a newer accepted put before it -/

def evCancel : Ev → Option Job
  | .canc j => some j
  | .cancelled j => some j
  | _ => none

/-- every cancellation in the log is preceded (in time) by the arrival of a newer put -/
def CancOK (log : List (Nat × Ev)) : Prop :=
  ∀ t e j, (t, e) ∈ log → evCancel e = some j →
    ∃ k t', j.seq < k.seq ∧ t' ≤ t ∧ (t', Ev.put k) ∈ log

theorem cancOK_cons {log : List (Nat × Ev)} {t : Nat} {e : Ev} (h : CancOK log)
    (hnew : ∀ j, evCancel e = some j → ∃ k t', j.seq < k.seq ∧ t' ≤ t ∧ (t', Ev.put k) ∈ log) :
    CancOK ((t, e) :: log) := by
  intro t1 e1 j hmem hj
  cases hmem with
  | head =>
    obtain ⟨k, t', h1, h2, h3⟩ := hnew j hj
    exact ⟨k, t', h1, h2, List.mem_cons_of_mem _ h3⟩
  | tail _ hmem =>
    obtain ⟨k, t', h1, h2, h3⟩ := h t1 e1 j hmem hj
    exact ⟨k, t', h1, h2, List.mem_cons_of_mem _ h3⟩

theorem cancOK_cons_other {log : List (Nat × Ev)} {t : Nat} {e : Ev} (h : CancOK log)
    (he : evCancel e = none) : CancOK ((t, e) :: log) :=
  cancOK_cons h (fun j hj => by rw [he] at hj; cases hj)

/-- the queue holds accepted puts in arrival order, all newer than the active runs -/
def QInv (s : State) : Prop :=
  (∀ k ∈ s.queue, ∃ t', t' ≤ s.now ∧ (t', Ev.put k) ∈ s.log) ∧
  s.queue.Pairwise (fun a b => a.seq < b.seq) ∧
  (∀ r ∈ s.runs, ∀ k ∈ s.queue, r.job.seq < k.seq) ∧
  (∀ k ∈ s.queue, k.seq < s.nacc) ∧ (∀ r ∈ s.runs, r.job.seq < s.nacc)

def CancInv (s : State) : Prop :=
  QInv s ∧ (∀ j, s.sdPending = some j → j.seq < s.nacc) ∧ CancOK s.log

theorem discards_cancOK (s : State) (j : Job) (q : List Job)
    (hput : ∀ k ∈ j :: q, ∃ t', t' ≤ s.now ∧ (t', Ev.put k) ∈ s.log)
    (hpw : (j :: q).Pairwise (fun a b => a.seq < b.seq)) (hc : CancOK s.log) :
    CancOK (discards s j q).log := by
  induction q generalizing s j with
  | nil => exact hc
  | cons k q ih =>
    simp only [discards]
    apply ih
    · intro k' hk'
      obtain ⟨t', h1, h2⟩ := hput k' (List.mem_cons_of_mem _ hk')
      exact ⟨t', h1, List.mem_cons_of_mem _ h2⟩
    · exact (List.pairwise_cons.mp hpw).2
    · apply cancOK_cons hc
      intro j' hj'
      simp [evCancel] at hj'; subst hj'
      obtain ⟨t', h1, h2⟩ := hput k (by simp)
      exact ⟨k, t', (List.pairwise_cons.mp hpw).1 k (by simp), h1, h2⟩

theorem startAll_cancOK (s : State) (q : List Job) (h : CancOK s.log) : CancOK (startAll s q).log := by
  induction q generalizing s with
  | nil => exact h
  | cons j q ih =>
    apply ih
    simp only [startRun_log]
    exact cancOK_cons_other (cancOK_cons_other h rfl) rfl

theorem startStopData_cancInv (s : State) (hq : s.queue = []) (hn : ∀ r ∈ s.runs, r.job.seq < s.nacc)
    (hsd : ∀ j, s.sdPending = some j → j.seq < s.nacc) (hc : CancOK s.log) :
    CancInv (startStopData s) := by
  unfold startStopData
  split
  · next j hj =>
    split
    · refine ⟨⟨by simp [hq], by simp [hq], by simp [hq], by simp [hq], ?_⟩, by simp, ?_⟩
      · intro r hr; simp at hr
        rcases hr with hr | hr
        · exact hn r hr
        · rw [hr]; exact hsd j hj
      · simp only [startRun_log]
        exact cancOK_cons_other (cancOK_cons_other hc rfl) rfl
    · exact ⟨⟨by simp [hq], by simp [hq], by simp [hq], by simp [hq], hn⟩, hsd, hc⟩
  · exact ⟨⟨by simp [hq], by simp [hq], by simp [hq], by simp [hq], hn⟩, hsd, hc⟩


theorem qInv_mono {s s' : State} (hq : s'.queue = s.queue)
    (hr : ∀ r' ∈ s'.runs, ∃ r ∈ s.runs, r'.job = r.job) (hn : s.nacc ≤ s'.nacc) (hnow : s.now ≤ s'.now)
    (hlog : ∀ e ∈ s.log, e ∈ s'.log) (h : QInv s) : QInv s' := by
  obtain ⟨h1, h2, h3, h4, h5⟩ := h
  refine ⟨?_, by rw [hq]; exact h2, ?_, ?_, ?_⟩
  · intro k hk; rw [hq] at hk
    obtain ⟨t', ht, hm⟩ := h1 k hk
    exact ⟨t', by omega, hlog _ hm⟩
  · intro r' hr' k hk; rw [hq] at hk
    obtain ⟨r, hrm, hj⟩ := hr r' hr'
    rw [hj]; exact h3 r hrm k hk
  · intro k hk; rw [hq] at hk; have := h4 k hk; omega
  · intro r' hr'
    obtain ⟨r, hrm, hj⟩ := hr r' hr'
    rw [hj]; have := h5 r hrm; omega

theorem lastJob_mem (j : Job) (q : List Job) : lastJob j q ∈ j :: q := by
  induction q generalizing j with
  | nil => simp [lastJob]
  | cons k q ih => simp only [lastJob]; exact List.mem_cons_of_mem _ (ih k)

theorem discards_log_mem (s : State) (j : Job) (q : List Job) : ∀ e ∈ s.log, e ∈ (discards s j q).log := by
  induction q generalizing s j with
  | nil => intro e h; exact h
  | cons k q ih => intro e h; exact ih _ _ e (List.mem_cons_of_mem _ h)

theorem settle_cancInv (c : Cfg) (s : State) (h : CancInv s) : CancInv (settle c s) := by
  obtain ⟨hQ, hsd, hc⟩ := h
  have ⟨h1, h2, h3, h4, h5⟩ := hQ
  apply settle_cases
  · exact ⟨hQ, hsd, hc⟩
  · intro _ j q hr hq
    rw [hq] at h1 h2 h4
    refine ⟨⟨?_, ?_, ?_, ?_, ?_⟩, hsd, ?_⟩
    · intro k hk
      obtain ⟨t', ht, hm⟩ := h1 k (List.mem_cons_of_mem _ hk)
      exact ⟨t', ht, by simp [hm]⟩
    · exact (List.pairwise_cons.mp h2).2
    · intro r hrm k hk
      simp [hr] at hrm; rw [hrm]
      exact (List.pairwise_cons.mp h2).1 k hk
    · intro k hk; exact h4 k (List.mem_cons_of_mem _ hk)
    · intro r hrm; simp [hr] at hrm; rw [hrm]; exact h4 j (by simp)
    · simp only [startRun_log]
      exact cancOK_cons_other (cancOK_cons_other hc rfl) rfl
  · intro _ j q hr hq
    rw [hq] at h1 h2 h4
    refine ⟨⟨by simp, by simp, by simp, by simp, ?_⟩, by simpa using hsd, ?_⟩
    · intro r hrm; simp [hr] at hrm; rw [hrm]
      simpa using h4 _ (lastJob_mem j q)
    · simp only [startRun_log]
      refine cancOK_cons_other (cancOK_cons_other ?_ rfl) rfl
      exact discards_cancOK _ j q h1 h2 hc
  · intro _ j q r rest hq hr hcoro
    refine ⟨?_, hsd, ?_⟩
    · refine qInv_mono (s := s) (s' := cancelCur c s r rest) (by simp [cancelCur]) ?_
        (by simp [cancelCur]) (by simp [cancelCur]) ?_ hQ
      · intro r' hr'
        simp [cancelCur] at hr'
        rcases hr' with hr' | hr'
        · exact ⟨r, by simp [hr], by rw [hr']⟩
        · exact ⟨r', by simp [hr, hr'], rfl⟩
      · intro e he; simp [cancelCur, he]
    · have hjq : j ∈ s.queue := by simp [hq]
      obtain ⟨t', ht, hm⟩ := h1 j hjq
      have hlt : r.job.seq < j.seq := h3 r (by simp [hr]) j hjq
      simp only [cancelCur, emit_log]
      apply cancOK_cons (cancOK_cons hc _)
      · intro j' hj'; simp [evCancel] at hj'; subst hj'
        exact ⟨j, t', hlt, ht, List.mem_cons_of_mem _ hm⟩
      · intro j' hj'; simp [evCancel] at hj'; subst hj'
        exact ⟨j, t', hlt, ht, hm⟩
  · intro _
    apply startStopData_cancInv
    · simp
    · intro r hrm
      simp [startAll_runs] at hrm
      rcases hrm with hrm | ⟨k, hk, hrk⟩
      · simpa using h5 r hrm
      · rw [← hrk]; simpa using h4 k hk
    · simpa using hsd
    · exact startAll_cancOK _ _ hc


theorem afterCoro_cancOK (s : State) (t : Nat) (r : Run) (h : CancOK s.log) : CancOK (afterCoro s t r).log := by
  simp only [afterCoro, emit_log]
  refine cancOK_cons_other (cancOK_cons_other h rfl) ?_
  cases r.job.data.fail <;> rfl

theorem fire_cancInv (c : Cfg) (s : State) (t : Nat) (h : CancInv s) : CancInv (fire c s t) := by
  obtain ⟨hQ, hsd, hc⟩ := h
  apply fire_cases
  · intro _; exact ⟨hQ, hsd, hc⟩
  · intro a r b hrs _ _ _
    refine ⟨?_, by simpa [afterCoro] using hsd, by simpa using afterCoro_cancOK s t r hc⟩
    refine qInv_mono (s := s) (by simp [afterCoro]) ?_ (by simp [afterCoro]) (by simp [afterCoro]; omega) ?_ hQ
    · intro r' hr'
      simp at hr'
      rcases hr' with hr' | hr' | hr'
      · exact ⟨r', by simp [hrs, hr'], rfl⟩
      · exact ⟨r, by simp [hrs], by rw [hr']⟩
      · exact ⟨r', by simp [hrs, hr'], rfl⟩
    · intro e he; simp [afterCoro, he]
  · intro a r b hrs _ _ _
    apply settle_cancInv
    refine ⟨?_, by simpa [afterCoro] using hsd, ?_⟩
    · refine qInv_mono (s := s) (by simp [afterCoro]) ?_ (by simp [afterCoro]) (by simp [afterCoro]; omega) ?_ hQ
      · intro r' hr'
        simp at hr'
        rcases hr' with hr' | hr'
        · exact ⟨r', by simp [hrs, hr'], rfl⟩
        · exact ⟨r', by simp [hrs, hr'], rfl⟩
      · intro e he; simp [afterCoro, he]
    · simp only [countDown_log]
      exact cancOK_cons_other (by simpa using afterCoro_cancOK s t r hc) rfl
  · intro a r b hrs _ _
    apply settle_cancInv
    refine ⟨?_, by simpa using hsd, ?_⟩
    · refine qInv_mono (s := s) (by simp) ?_ (by simp) (by simp; omega) ?_ hQ
      · intro r' hr'
        simp at hr'
        rcases hr' with hr' | hr'
        · exact ⟨r', by simp [hrs, hr'], rfl⟩
        · exact ⟨r', by simp [hrs, hr'], rfl⟩
      · intro e he; simp [he]
    · simp only [countDown_log]
      exact cancOK_cons_other hc rfl

theorem accept_cancInv (s : State) (x : Item) (h : CancInv s) : CancInv (accept s x) := by
  obtain ⟨⟨h1, h2, h3, h4, h5⟩, hsd, hc⟩ := h
  refine ⟨⟨?_, ?_, ?_, ?_, ?_⟩, ?_, ?_⟩
  · intro k hk
    simp [accept] at hk
    rcases hk with hk | hk
    · obtain ⟨t', ht, hm⟩ := h1 k hk
      exact ⟨t', by simpa [accept] using ht, by simp [accept, hm]⟩
    · exact ⟨s.now, by simp [accept], by simp [accept, hk]⟩
  · simp only [accept, emit_queue, List.pairwise_append]
    refine ⟨h2, by simp, ?_⟩
    intro a ha b hb; simp at hb; rw [hb]; exact h4 a ha
  · intro r hr k hk
    simp [accept] at hr hk
    rcases hk with hk | hk
    · exact h3 r hr k hk
    · rw [hk]; exact h5 r hr
  · intro k hk
    simp [accept] at hk ⊢
    rcases hk with hk | hk
    · have := h4 k hk; omega
    · rw [hk]; simp
  · intro r hr; simp [accept] at hr ⊢; have := h5 r hr; omega
  · intro j hj; simp [accept] at hj ⊢; have := hsd j hj; omega
  · simp only [accept, emit_log]; exact cancOK_cons_other hc rfl

theorem doStop_cancInv (c : Cfg) (s : State) (h : CancInv s) : CancInv (doStop c s) := by
  unfold doStop
  split
  · exact h
  · split
    · exact h
    · next d _ =>
      split
      · obtain ⟨hQ, hsd, hc⟩ := h
        refine ⟨?_, by simp, ?_⟩
        · exact qInv_mono (s := s) (by simp) (fun r' hr' => ⟨r', by simpa using hr', rfl⟩) (by simp) (by simp)
            (fun e he => by simp [he]) hQ
        · simp only [emit_log]; exact cancOK_cons_other hc rfl
      · exact accept_cancInv s d h

theorem run_cancInv (c : Cfg) (ops : List Op) : CancInv (run c ops) := by
  apply run_induction c CancInv
  · exact ⟨⟨by simp, by simp, by simp, by simp, by simp⟩, by simp, by intro t e j h; simp at h⟩
  · exact settle_cancInv c
  · exact fire_cancInv c
  · intro s t ⟨hQ, hsd, hc⟩
    exact ⟨qInv_mono (s := s) rfl (fun r' hr' => ⟨r', hr', rfl⟩) (Nat.le_refl _) (Nat.le_max_left _ _)
      (fun e he => he) hQ, hsd, hc⟩
  · intro s x h _; exact accept_cancInv s x h
  · exact doStop_cancInv c

end Edzed.OutputAsync
