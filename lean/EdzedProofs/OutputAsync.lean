/-
Helper lemmas for C12 (model: EdzedModel/OutputAsync.lean).
-/
import EdzedModel.OutputAsync

namespace Edzed.OutputAsync

/-! ### structure of the helpers -/

/-- what `drain` discards and what it finally starts -/
def lastJob (j : Job) : List Job → Job
  | [] => j
  | k :: q => lastJob k q

def discards (s : State) (j : Job) : List Job → State
  | [] => s
  | k :: q => discards (emit s (.canc j)) k q

theorem drain_eq (s : State) (j : Job) (q : List Job) :
    drain s j q = startRun (discards s j q) (lastJob j q) := by
  induction q generalizing s j with
  | nil => rfl
  | cons k q ih => simp [drain, discards, lastJob, ih]

theorem pick_spec {t : Nat} {rs a b : List Run} {r : Run} (h : pick t rs = some (a, r, b)) :
    rs = a ++ r :: b ∧ r.till = t := by
  induction rs generalizing a with
  | nil => simp [pick] at h
  | cons x xs ih =>
    simp only [pick] at h
    split at h
    · next hx => simp at h; obtain ⟨rfl, rfl, rfl⟩ := h; simp [hx]
    · split at h
      · next a' x' b' hp =>
        simp at h; obtain ⟨rfl, rfl, rfl⟩ := h
        have := ih hp; simp [this.1, this.2]
      · simp at h

/-- induction over the primitive transitions: a predicate kept by the controller step, by a firing
    timer, by the passing of time, by an accepted put and by `stop()` holds in every reachable state -/
theorem run_induction (c : Cfg) (P : State → Prop) (h0 : P {})
    (hsettle : ∀ s, P s → P (settle c s))
    (hfire : ∀ s t, P s → P (fire c s t))
    (hnow : ∀ s t, P s → P { s with now := max s.now t })
    (haccept : ∀ s x, P s → s.stopped = false → P (accept s x))
    (hstop : ∀ s, P s → P (doStop c s)) :
    ∀ ops, P (run c ops) := by
  have hadv : ∀ bound fuel s, P s → P (advance c bound fuel s) := by
    intro bound fuel
    induction fuel with
    | zero => intro s h; exact h
    | succ n ih =>
      intro s h
      simp only [advance]
      split
      · split
        · exact ih _ (hfire _ _ h)
        · exact h
      · exact h
  have hadvTo : ∀ bound s, P s → P (advanceTo c bound s) := by
    intro bound s h
    simp only [advanceTo]
    have h2 := hadv bound (measure (settle c s)) _ (hsettle s h)
    cases bound with
    | none => exact h2
    | some b => exact hnow _ _ h2
  have hstep : ∀ s op, P s → P (step c s op) := by
    intro s op h
    cases op with
    | put t pre batch x =>
      have h1 : P (if batch = true then s else advanceTo c (some (t, !pre)) s) := by
        split
        · exact h
        · exact hadvTo _ _ h
      show P (if (if batch = true then s else advanceTo c (some (t, !pre)) s).stopped = true
        then _ else accept _ x)
      generalize (if batch = true then s else advanceTo c (some (t, !pre)) s) = s1 at h1
      by_cases hs : s1.stopped = true
      · simp only [hs, if_true]; exact h1
      · simp only [hs]; exact haccept _ _ h1 (by simpa using hs)
    | stop t pre => exact hstop _ (hadvTo _ _ h)
    | finish => exact hadvTo none _ h
  intro ops
  suffices ∀ s, P s → P (ops.foldl (step c) s) from this _ h0
  induction ops with
  | nil => intro s h; exact h
  | cons op ops ih => intro s h; exact ih _ (hstep s op h)


/-! ### field projections of the helpers -/

@[simp] theorem emit_runs (s : State) (e : Ev) : (emit s e).runs = s.runs := rfl
@[simp] theorem emit_queue (s : State) (e : Ev) : (emit s e).queue = s.queue := rfl
@[simp] theorem emit_output (s : State) (e : Ev) : (emit s e).output = s.output := rfl
@[simp] theorem emit_now (s : State) (e : Ev) : (emit s e).now = s.now := rfl
@[simp] theorem emit_stopped (s : State) (e : Ev) : (emit s e).stopped = s.stopped := rfl
@[simp] theorem emit_sdPending (s : State) (e : Ev) : (emit s e).sdPending = s.sdPending := rfl
@[simp] theorem emit_nacc (s : State) (e : Ev) : (emit s e).nacc = s.nacc := rfl
@[simp] theorem emit_log (s : State) (e : Ev) : (emit s e).log = (s.now, e) :: s.log := rfl

@[simp] theorem discards_runs (s : State) (j : Job) (q : List Job) : (discards s j q).runs = s.runs := by
  induction q generalizing s j <;> simp_all [discards]
@[simp] theorem discards_queue (s : State) (j : Job) (q : List Job) : (discards s j q).queue = s.queue := by
  induction q generalizing s j <;> simp_all [discards]
@[simp] theorem discards_output (s : State) (j : Job) (q : List Job) : (discards s j q).output = s.output := by
  induction q generalizing s j <;> simp_all [discards]
@[simp] theorem discards_now (s : State) (j : Job) (q : List Job) : (discards s j q).now = s.now := by
  induction q generalizing s j <;> simp_all [discards]
@[simp] theorem discards_stopped (s : State) (j : Job) (q : List Job) : (discards s j q).stopped = s.stopped := by
  induction q generalizing s j <;> simp_all [discards]
@[simp] theorem discards_sdPending (s : State) (j : Job) (q : List Job) :
    (discards s j q).sdPending = s.sdPending := by
  induction q generalizing s j <;> simp_all [discards]
@[simp] theorem discards_nacc (s : State) (j : Job) (q : List Job) : (discards s j q).nacc = s.nacc := by
  induction q generalizing s j <;> simp_all [discards]

@[simp] theorem startRun_runs (s : State) (j : Job) :
    (startRun s j).runs = s.runs ++ [⟨j, true, s.now + j.data.dur⟩] := rfl
@[simp] theorem startRun_queue (s : State) (j : Job) : (startRun s j).queue = s.queue := rfl
@[simp] theorem startRun_output (s : State) (j : Job) : (startRun s j).output = s.output + 1 := rfl
@[simp] theorem startRun_now (s : State) (j : Job) : (startRun s j).now = s.now := rfl
@[simp] theorem startRun_stopped (s : State) (j : Job) : (startRun s j).stopped = s.stopped := rfl
@[simp] theorem startRun_sdPending (s : State) (j : Job) : (startRun s j).sdPending = s.sdPending := rfl
@[simp] theorem startRun_nacc (s : State) (j : Job) : (startRun s j).nacc = s.nacc := rfl
@[simp] theorem startRun_log (s : State) (j : Job) :
    (startRun s j).log = (s.now, .start j) :: (s.now, .out (s.output + 1)) :: s.log := rfl

@[simp] theorem countDown_runs (s : State) : (countDown s).runs = s.runs := rfl
@[simp] theorem countDown_queue (s : State) : (countDown s).queue = s.queue := rfl
@[simp] theorem countDown_output (s : State) : (countDown s).output = s.output - 1 := rfl
@[simp] theorem countDown_now (s : State) : (countDown s).now = s.now := rfl
@[simp] theorem countDown_stopped (s : State) : (countDown s).stopped = s.stopped := rfl
@[simp] theorem countDown_sdPending (s : State) : (countDown s).sdPending = s.sdPending := rfl
@[simp] theorem countDown_nacc (s : State) : (countDown s).nacc = s.nacc := rfl
@[simp] theorem countDown_log (s : State) : (countDown s).log = (s.now, .out (s.output - 1)) :: s.log := rfl

@[simp] theorem startAll_queue (s : State) (q : List Job) : (startAll s q).queue = s.queue := by
  induction q generalizing s <;> simp_all [startAll]
@[simp] theorem startAll_now (s : State) (q : List Job) : (startAll s q).now = s.now := by
  induction q generalizing s <;> simp_all [startAll]
@[simp] theorem startAll_stopped (s : State) (q : List Job) : (startAll s q).stopped = s.stopped := by
  induction q generalizing s <;> simp_all [startAll]
@[simp] theorem startAll_sdPending (s : State) (q : List Job) : (startAll s q).sdPending = s.sdPending := by
  induction q generalizing s <;> simp_all [startAll]
@[simp] theorem startAll_nacc (s : State) (q : List Job) : (startAll s q).nacc = s.nacc := by
  induction q generalizing s <;> simp_all [startAll]
theorem startAll_runs (s : State) (q : List Job) :
    (startAll s q).runs = s.runs ++ q.map (fun j => ⟨j, true, s.now + j.data.dur⟩) := by
  induction q generalizing s <;> simp_all [startAll]
theorem startAll_output (s : State) (q : List Job) : (startAll s q).output = s.output + q.length := by
  induction q generalizing s with
  | nil => simp [startAll]
  | cons j q ih => simp [startAll, ih]; omega

/-! ### case analysis of the controller step and of a firing timer -/

theorem settle_cases (c : Cfg) (s : State) (P : State → Prop)
    (h_id : P s)
    (h_wait : c.mode = Mode.wait → ∀ j q, s.runs = [] → s.queue = j :: q →
      P (startRun { s with queue := q } j))
    (h_drain : c.mode = Mode.cancel → ∀ j q, s.runs = [] → s.queue = j :: q →
      P (startRun (discards { s with queue := [] } j q) (lastJob j q)))
    (h_cancel : c.mode = Mode.cancel → ∀ j q r rest, s.queue = j :: q → s.runs = r :: rest →
      r.coro = true → P (cancelCur c s r rest))
    (h_start : c.mode = Mode.start → P (startStopData (startAll { s with queue := [] } s.queue))) :
    P (settle c s) := by
  unfold settle
  split
  · next hm =>
    split
    · next j q hr hq => exact h_wait hm j q hr hq
    · exact h_id
  · next hm =>
    split
    · exact h_id
    · next j q hq =>
      split
      · next hr => rw [drain_eq]; exact h_drain hm j q hr hq
      · next r rest hr =>
        split
        · next hc => exact h_cancel hm j q r rest hq hr hc
        · exact h_id
  · next hm => exact h_start hm

/-- the state in which the coroutine of `r` has just ended -/
def afterCoro (s : State) (t : Nat) (r : Run) : State :=
  emit (emit { s with now := max s.now t } (.done r.job))
    (if r.job.data.fail then .err r.job else .succ r.job)

theorem fire_cases (c : Cfg) (s : State) (t : Nat) (P : State → Prop)
    (h_id : pick t s.runs = none → P s)
    (h_guard : ∀ a r b, s.runs = a ++ r :: b → r.till = t → r.coro = true → 0 < c.guard →
      P { afterCoro s t r with runs := a ++ { r with coro := false, till := max s.now t + c.guard } :: b })
    (h_fin1 : ∀ a r b, s.runs = a ++ r :: b → r.till = t → r.coro = true → c.guard = 0 →
      P (finishRun c (afterCoro s t r) a b))
    (h_fin2 : ∀ a r b, s.runs = a ++ r :: b → r.till = t → r.coro = false →
      P (finishRun c { s with now := max s.now t } a b)) :
    P (fire c s t) := by
  unfold fire
  split
  · next hp => exact h_id hp
  · next a r b hp =>
    obtain ⟨hrs, ht⟩ := pick_spec hp
    split
    · next hc =>
      unfold coroEnd
      by_cases hg : 0 < c.guard
      · simp only [hg, if_true]; exact h_guard a r b hrs ht hc hg
      · simp only [gt_iff_lt, hg, if_false]; exact h_fin1 a r b hrs ht hc (by omega)
    · next hc => exact h_fin2 a r b hrs ht (by simpa using hc)

/-! ### the output counts the active runs; one run at a time outside start mode -/

def CountInv (c : Cfg) (s : State) : Prop :=
  s.output = s.runs.length ∧ (c.mode ≠ Mode.start → s.runs.length ≤ 1)

theorem startStopData_countInv (c : Cfg) (s : State) (hm : c.mode = Mode.start) (h : CountInv c s) :
    CountInv c (startStopData s) := by
  unfold startStopData
  split
  · split
    · simp [CountInv, hm] at *; exact h
    · exact h
  · exact h

theorem settle_countInv (c : Cfg) (s : State) (h : CountInv c s) : CountInv c (settle c s) := by
  obtain ⟨h1, h2⟩ := h
  apply settle_cases
  · exact ⟨h1, h2⟩
  · intro hm j q hr hq; simp [CountInv, h1, hr]
  · intro hm j q hr hq; simp [CountInv, h1, hr]
  · intro hm j q r rest hq hr hc
    simp [CountInv, cancelCur, h1, hr] at *; exact h2
  · intro hm
    apply startStopData_countInv c _ hm
    simp [CountInv, startAll_runs, startAll_output, h1, hm]

theorem finishRun_countInv (c : Cfg) (s : State) (a b : List Run) (r : Run)
    (hrs : s.runs = a ++ r :: b) (h : CountInv c s) : CountInv c (finishRun c s a b) := by
  apply settle_countInv
  obtain ⟨h1, h2⟩ := h
  simp [CountInv, h1, hrs] at *
  intro hm; have := h2 hm; omega

theorem fire_countInv (c : Cfg) (s : State) (t : Nat) (h : CountInv c s) : CountInv c (fire c s t) := by
  apply fire_cases
  · intro _; exact h
  · intro a r b hrs _ _ _
    obtain ⟨h1, h2⟩ := h
    simp [CountInv, afterCoro, h1, hrs] at *; exact h2
  · intro a r b hrs _ _ _
    exact finishRun_countInv c _ a b r (by simpa [afterCoro] using hrs) (by simpa [CountInv, afterCoro] using h)
  · intro a r b hrs _ _
    exact finishRun_countInv c _ a b r (by simpa using hrs) (by simpa [CountInv] using h)

theorem accept_countInv (c : Cfg) (s : State) (x : Item) (h : CountInv c s) : CountInv c (accept s x) := by
  simpa [CountInv, accept] using h

theorem doStop_countInv (c : Cfg) (s : State) (h : CountInv c s) : CountInv c (doStop c s) := by
  unfold doStop
  split
  · exact h
  · split
    · simpa [CountInv] using h
    · split
      · simpa [CountInv] using h
      · simpa [CountInv, accept] using h

theorem run_countInv (c : Cfg) (ops : List Op) : CountInv c (run c ops) :=
  run_induction c (CountInv c) (by simp [CountInv]) (settle_countInv c) (fire_countInv c)
    (fun _ _ h => h) (fun s x h _ => accept_countInv c s x h) (doStop_countInv c) ops


/-! ### termination: every internal step lowers `measure`; `finish` reaches the idle state -/

def runCost (r : Run) : Nat := if r.coro then 2 else 1
def sdCost (o : Option Job) : Nat := if o.isSome then 2 else 0

theorem measure_def (s : State) :
    measure s = 2 * s.queue.length + (s.runs.map runCost).sum + sdCost s.sdPending := rfl

theorem sum_map_const2 (q : List Job) : (q.map (fun j => runCost ⟨j, true, t + j.data.dur⟩)).sum = 2 * q.length := by
  induction q with
  | nil => rfl
  | cons j q ih => simp only [List.map_cons, List.sum_cons, ih, List.length_cons]; simp [runCost]; omega

theorem startStopData_measure (s : State) : measure (startStopData s) ≤ measure s := by
  unfold startStopData
  split
  · next j hj =>
    split
    · simp [measure_def, hj, runCost, sdCost, List.sum_append]; omega
    · exact Nat.le_refl _
  · exact Nat.le_refl _

theorem settle_measure (c : Cfg) (s : State) : measure (settle c s) ≤ measure s := by
  apply settle_cases c s (fun s' => measure s' ≤ measure s)
  · exact Nat.le_refl _
  · intro _ j q hr hq; simp [measure_def, hr, hq, runCost]; omega
  · intro _ j q hr hq; simp [measure_def, hr, hq, runCost]; omega
  · intro _ j q r rest hq hr hc; simp [measure_def, cancelCur, hr, hq, runCost, hc]
  · intro _
    refine Nat.le_trans (startStopData_measure _) ?_
    simp only [measure_def, startAll_runs, List.map_append, List.sum_append, List.map_map, Function.comp_def,
      startAll_queue, startAll_sdPending, sum_map_const2]
    simp; omega

theorem finishRun_measure (c : Cfg) (s : State) (a b : List Run) (r : Run) (hrs : s.runs = a ++ r :: b) :
    measure (finishRun c s a b) < measure s := by
  refine Nat.lt_of_le_of_lt (settle_measure _ _) ?_
  have : 1 ≤ runCost r := by unfold runCost; split <;> omega
  simp [measure_def, hrs, List.sum_append]
  omega

theorem fire_measure (c : Cfg) (s : State) (t : Nat) (h : (pick t s.runs).isSome) :
    measure (fire c s t) < measure s := by
  apply fire_cases c s t (fun s' => measure s' < measure s)
  · intro hp; simp [hp] at h
  · intro a r b hrs _ hc _
    simp [measure_def, afterCoro, hrs, List.sum_append, runCost, hc]
  · intro a r b hrs _ _ _
    exact finishRun_measure c (afterCoro s t r) a b r (by simpa [afterCoro] using hrs)
  · intro a r b hrs _ _
    exact finishRun_measure c { s with now := max s.now t } a b r (by simpa using hrs)

theorem minTill_pick (rs : List Run) (m : Nat) (h : minTill rs = some m) : (pick m rs).isSome := by
  induction rs generalizing m with
  | nil => simp [minTill] at h
  | cons r rs ih =>
    simp only [minTill] at h
    simp only [pick]
    split
    · rfl
    · next hne =>
      split at h
      · simp at h; exact absurd h hne
      · next m' hm' =>
        simp at h
        have : m = m' := by omega
        subst this
        have := ih m hm'
        split <;> simp_all

theorem minTill_none (rs : List Run) (h : minTill rs = none) : rs = [] := by
  cases rs with
  | nil => rfl
  | cons r rs => simp only [minTill] at h; split at h <;> simp at h

theorem measure_zero_runs (s : State) (h : measure s = 0) : s.runs = [] := by
  cases hr : s.runs with
  | nil => rfl
  | cons r rs =>
    have : 1 ≤ runCost r := by unfold runCost; split <;> omega
    simp [measure_def, hr] at h; omega

/-- with enough fuel the unbounded `advance` stops only when no run is left -/
theorem advance_none_runs (c : Cfg) (fuel : Nat) (s : State) (h : measure s ≤ fuel) :
    (advance c none fuel s).runs = [] := by
  induction fuel generalizing s with
  | zero => exact measure_zero_runs s (by omega)
  | succ n ih =>
    simp only [advance]
    split
    · next m hm =>
      simp only [due, if_true]
      apply ih
      have := fire_measure c s m (minTill_pick _ _ hm)
      omega
    · next hm => exact minTill_none _ hm


/-! ### after the controller has run nothing startable is left waiting -/

def Quiet (c : Cfg) (s : State) : Prop :=
  (c.mode = Mode.wait → s.runs = [] → s.queue = []) ∧
  (c.mode = Mode.cancel → (s.runs = [] → s.queue = []) ∧
      (∀ r rest, s.runs = r :: rest → r.coro = true → s.queue = [])) ∧
  (c.mode = Mode.start → s.queue = [] ∧ (s.sdPending.isSome → s.stopped = true → s.runs ≠ []))

theorem startStopData_quiet (c : Cfg) (s : State) (hm : c.mode = Mode.start) (hq : s.queue = []) :
    Quiet c (startStopData s) := by
  refine ⟨by simp [hm], by simp [hm], fun _ => ?_⟩
  unfold startStopData
  split
  · next j hj =>
    split
    · simp [hq]
    · next hc =>
      refine ⟨hq, fun _ hst hr => ?_⟩
      simp [hst, hr] at hc
  · next hn => simp [hn, hq]

theorem settle_quiet (c : Cfg) (s : State) : Quiet c (settle c s) := by
  unfold settle
  split
  · next hm =>
    split
    · simp [Quiet, hm]
    · next hno =>
      refine ⟨fun _ hr => ?_, by simp [hm], by simp [hm]⟩
      cases hq : s.queue with
      | nil => rfl
      | cons j q => exact absurd hq (hno j q hr)
  · next hm =>
    split
    · next hq => simp [Quiet, hm, hq]
    · next j q hq =>
      split
      · simp [Quiet, hm, drain_eq]
      · next r rest hr =>
        split
        · simp [Quiet, hm, cancelCur]
        · next hc => simp [Quiet, hm, hr]; intro h; exact absurd h hc
  · next hm => exact startStopData_quiet c _ hm (by simp)

theorem fire_quiet (c : Cfg) (s : State) (t : Nat) (h : Quiet c s) : Quiet c (fire c s t) := by
  apply fire_cases
  · intro _; exact h
  · intro a r b hrs _ _ _
    obtain ⟨h1, h2, h3⟩ := h
    refine ⟨fun _ hr => by simp at hr, fun hm => ⟨fun hr => by simp at hr, ?_⟩, fun hm => ?_⟩
    · intro r0 rest hr0 hc0
      cases a with
      | nil => simp at hr0; rw [← hr0.1] at hc0; simp at hc0
      | cons x a' =>
        simp at hr0
        exact (h2 hm).2 x (a' ++ r :: b) (by simp [hrs]) (by rw [hr0.1]; exact hc0)
    · exact ⟨by simpa [afterCoro] using (h3 hm).1, fun _ _ => by simp⟩
  · intro a r b _ _ _ _; exact settle_quiet _ _
  · intro a r b _ _ _; exact settle_quiet _ _

theorem advance_quiet (c : Cfg) (bound : Option (Nat × Bool)) (fuel : Nat) (s : State) (h : Quiet c s) :
    Quiet c (advance c bound fuel s) := by
  induction fuel generalizing s with
  | zero => exact h
  | succ n ih =>
    simp only [advance]
    split
    · split
      · exact ih _ (fire_quiet c s _ h)
      · exact h
    · exact h

/-! ### stop_data waits in `sdPending` only in start mode and only after `stop()` -/

def SdInv (c : Cfg) (s : State) : Prop :=
  (c.mode ≠ Mode.start → s.sdPending = none) ∧ (s.sdPending.isSome → s.stopped = true)

theorem startStopData_sdInv (c : Cfg) (s : State) (h : SdInv c s) : SdInv c (startStopData s) := by
  unfold startStopData
  split
  · split
    · simp [SdInv]
    · exact h
  · exact h

theorem settle_sdInv (c : Cfg) (s : State) (h : SdInv c s) : SdInv c (settle c s) := by
  apply settle_cases
  · exact h
  · intros; simpa [SdInv] using h
  · intros; simpa [SdInv] using h
  · intros; simpa [SdInv, cancelCur] using h
  · intro _; apply startStopData_sdInv; simpa [SdInv] using h

theorem fire_sdInv (c : Cfg) (s : State) (t : Nat) (h : SdInv c s) : SdInv c (fire c s t) := by
  apply fire_cases
  · intro _; exact h
  · intros; simpa [SdInv, afterCoro] using h
  · intros; apply settle_sdInv; simpa [SdInv, afterCoro] using h
  · intros; apply settle_sdInv; simpa [SdInv] using h

theorem doStop_sdInv (c : Cfg) (s : State) (h : SdInv c s) : SdInv c (doStop c s) := by
  unfold doStop
  split
  · exact h
  · split
    · simp [SdInv] at *; exact h.1
    · split
      · next hm => simp [SdInv, hm]
      · simp [SdInv, accept] at *; exact h.1

theorem run_sdInv (c : Cfg) (ops : List Op) : SdInv c (run c ops) :=
  run_induction c (SdInv c) (by simp [SdInv]) (settle_sdInv c) (fire_sdInv c)
    (fun _ _ h => h) (fun s x h _ => by simpa [SdInv, accept] using h) (doStop_sdInv c) ops

theorem run_snoc (c : Cfg) (ops : List Op) (op : Op) : run c (ops ++ [op]) = step c (run c ops) op := by
  simp [run, List.foldl_append]

/-- `finish` reaches the idle state -/
theorem finish_idle (c : Cfg) (ops : List Op) :
    let s := step c (run c ops) .finish
    s.runs = [] ∧ s.queue = [] ∧ s.sdPending = none ∧ s.output = 0 := by
  intro s
  have hruns : s.runs = [] := advance_none_runs c _ _ (Nat.le_refl _)
  have hq : Quiet c s := advance_quiet c none _ _ (settle_quiet c _)
  have hsd : SdInv c s := by have := run_sdInv c (ops ++ [.finish]); rwa [run_snoc] at this
  have hcnt : CountInv c s := by have := run_countInv c (ops ++ [.finish]); rwa [run_snoc] at this
  obtain ⟨q1, q2, q3⟩ := hq
  refine ⟨hruns, ?_, ?_, by rw [hcnt.1, hruns]; rfl⟩
  · cases hm : c.mode with
    | wait => exact q1 hm hruns
    | cancel => exact (q2 hm).1 hruns
    | start => exact (q3 hm).1
  · cases hm : c.mode with
    | wait => exact hsd.1 (by simp [hm])
    | cancel => exact hsd.1 (by simp [hm])
    | start =>
      cases hp : s.sdPending with
      | none => rfl
      | some j => exact absurd hruns ((q3 hm).2 (by simp [hp]) (hsd.2 (by simp [hp])))

end Edzed.OutputAsync
