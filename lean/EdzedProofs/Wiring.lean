/-
Helper lemmas for C15 (model: EdzedModel/Wiring.lean).
-/
import EdzedModel.Wiring

namespace Edzed.Wiring

/-! ### small facts -/

theorem mem_addSet {l : List String} {x y : String} : y ∈ addSet l x ↔ y ∈ l ∨ y = x := by
  unfold addSet
  split
  · next h => constructor
              · intro hy; exact Or.inl hy
              · intro hy; cases hy with
                | inl h1 => exact h1
                | inr h1 => exact h1 ▸ h
  · simp

theorem upd_same {α : Type} (f : String → α) (k : String) (v : α) : upd f k v k = v := by
  simp [upd]

theorem upd_other {α : Type} (f : String → α) (k x : String) (v : α) (h : x ≠ k) :
    upd f k v x = f x := by
  simp [upd, h]

/-- the resolution the documentation promises: a block object stays, a name becomes the block
    of that name, a Const stays, a plain value is wrapped into a Const -/
def Ref.target : Ref → Ref
  | .obj _ n => .obj false n
  | .name s => .obj false s
  | .const v => .const v
  | .val (.atom (.str s)) => .obj false s
  | .val v => .const v

def Ref.resolved : Ref → Bool
  | .obj false _ => true
  | .const _ => true
  | _ => false

/-- references that can never be accepted: a block of another circuit, UNDEF -/
def Ref.okShape : Ref → Bool
  | .obj true _ => false
  | .val .undef => false
  | _ => true

theorem target_resolved (r : Ref) : r.target.resolved = true := by
  unfold Ref.target; split <;> rfl

theorem target_of_resolved (r : Ref) (h : r.resolved = true) : r.target = r := by
  unfold Ref.resolved at h
  split at h <;> first | rfl | cases h

/-! ### the invariant of the connection data -/

structure Inv (c : Circ) : Prop where
  sym : ∀ a b, b ∈ c.oconn a ↔ a ∈ c.iconn b
  sub : ∀ a b, a ∈ c.iconn b → ∃ f, Ref.obj f a ∈ allRefs (c.inputs b)

theorem inv_empty : Inv {} := ⟨fun _ _ => by simp, fun _ _ h => by simp at h⟩

/-- what every step of the construction / finalisation keeps -/
structure Ext (c c' : Circ) : Prop where
  kind : ∀ x k, c.kind x = some k → c'.kind x = some k
  inputs : ∀ x, (c.kind x).isSome → c'.inputs x = c.inputs x
  inv : Inv c → Inv c'
  fin : c'.finalized = c.finalized
  stopped : c'.stopped = c.stopped

theorem Ext.refl (c : Circ) : Ext c c := ⟨fun _ _ h => h, fun _ _ => rfl, id, rfl, rfl⟩

theorem Ext.trans {a b c : Circ} (h1 : Ext a b) (h2 : Ext b c) : Ext a c where
  kind := fun x k h => h2.kind x k (h1.kind x k h)
  inputs := fun x h => by
    obtain ⟨k, hk⟩ := Option.isSome_iff_exists.mp h
    have : (b.kind x).isSome := by rw [h1.kind x k hk]; rfl
    rw [h2.inputs x this, h1.inputs x h]
  inv := fun h => h2.inv (h1.inv h)
  fin := by rw [h2.fin, h1.fin]
  stopped := by rw [h2.stopped, h1.stopped]

theorem addBlock_ok {c c' : Circ} {n : String} {k : BKind} {r : Bool}
    (h : addBlock c n k r = .ok c') :
    c.kind n = none ∧ c.finalized = false ∧ c.stopped = false ∧
    c' = { c with order := c.order ++ [n], kind := upd c.kind n (some k) } := by
  unfold addBlock checkNotFinalized at h
  split at h
  · cases h
  split at h
  · cases h
  split at h
  · cases h
  · next _ _ hx =>
    split at h
    · cases h
    · next hk =>
      cases h
      refine ⟨by simpa using hk, ?_, ?_, rfl⟩
      · split at hx
        · cases hx
        · split at hx
          · cases hx
          · next h2 => simpa using h2
      · split at hx
        · cases hx
        · next h1 => simpa using h1

theorem addBlock_ext {c c' : Circ} {n : String} {k : BKind} {r : Bool}
    (h : addBlock c n k r = .ok c') : Ext c c' := by
  obtain ⟨hn, _, _, rfl⟩ := addBlock_ok h
  refine ⟨?_, fun _ _ => rfl, fun hi => ⟨hi.sym, hi.sub⟩, rfl, rfl⟩
  intro x k' hx
  have : x ≠ n := by intro e; rw [e, hn] at hx; cases hx
  simp [upd, this, hx]

theorem connect_ok {c c' : Circ} {b : String} {pos : List Ref} {named : Inputs}
    (h : connect c b pos named = .ok c') :
    (∃ cls, c.kind b = some (.c cls)) ∧ c.finalized = false ∧ c.stopped = false ∧ c.inputs b = [] ∧
    (pos.any Ref.isMultiple = false) ∧
    c' = { c with inputs := upd c.inputs b (connectInputs pos named) } := by
  unfold connect checkNotFinalized at h
  split at h
  · next cls hk =>
    split at h
    · cases h
    · next _ _ hx =>
      split at h
      · cases h
      · next hin =>
        split at h
        · cases h
        split at h
        · cases h
        split at h
        · cases h
        · next hm =>
          cases h
          refine ⟨⟨cls, hk⟩, ?_, ?_, by simpa using hin, by simpa using hm, rfl⟩
          · split at hx
            · cases hx
            · split at hx
              · cases hx
              · next h2 => simpa using h2
          · split at hx
            · cases hx
            · next h1 => simpa using h1
  · cases h

/-- `connect` keeps the invariant: the block had no inputs, hence no connections -/
theorem connect_inv {c c' : Circ} {b : String} {pos : List Ref} {named : Inputs}
    (h : connect c b pos named = .ok c') (hi : Inv c) : Inv c' := by
  obtain ⟨_, _, _, hin, _, rfl⟩ := connect_ok h
  refine ⟨hi.sym, ?_⟩
  intro a b' ha
  by_cases e : b' = b
  · subst e
    obtain ⟨f, hf⟩ := hi.sub a b' ha
    rw [hin] at hf
    simp [allRefs] at hf
  · obtain ⟨f, hf⟩ := hi.sub a b' ha
    exact ⟨f, by simpa [upd, e] using hf⟩

/-! ### `_validate_blk` -/

theorem findblock_ok {c c' : Circ} {s : String} {r' : Ref} (h : findblock c s = .ok (c', r')) :
    c' = c ∧ r' = .obj false s ∧ (c.kind s).isSome := by
  unfold findblock at h
  split at h
  · next hk => cases h; exact ⟨rfl, rfl, hk⟩
  · cases h

theorem validateName_ext {c c' : Circ} {s : String} {r' : Ref}
    (h : validateName c s = .ok (c', r')) : Ext c c' := by
  unfold validateName at h
  split at h
  · split at h
    · split at h
      · cases h
      · next c1 h1 => cases h; exact addBlock_ext h1
    · split at h
      · split at h
        · cases h
        · next c1 h1 =>
          split at h
          · cases h
          · next c2 h2 =>
            cases h
            obtain ⟨hn, _, _, e0⟩ := addBlock_ok h1
            obtain ⟨_, _, _, hin, _, e⟩ := connect_ok h2
            have e1 := addBlock_ext h1
            refine ⟨?_, ?_, fun hi => connect_inv h2 (e1.inv hi), ?_, ?_⟩
            · intro x k hx; rw [e]; exact e1.kind x k hx
            · intro x hx
              have : x ≠ s := by intro ex; rw [ex, hn] at hx; cases hx
              rw [e, e0]; simp [upd, this]
            · rw [e]; exact e1.fin
            · rw [e]; exact e1.stopped
      · obtain ⟨rfl, _, _⟩ := findblock_ok h; exact Ext.refl _
  · obtain ⟨rfl, _, _⟩ := findblock_ok h; exact Ext.refl _

theorem notTarget_noUnderscore {s t : String} (h : notTarget? s = some t) :
    startsUnderscore t = false := by
  unfold notTarget? at h
  split at h
  · next rest _ =>
    split at h
    · cases h
    · next hr =>
      cases h
      unfold startsUnderscore
      cases rest with
      | nil => simp
      | cons a r =>
        simp only [String.toList_ofList]
  · cases h

/-- a block nobody has touched since the simulator created it as an inverter -/
def Fresh (c : Circ) (x : String) : Prop :=
  ∃ t, c.inputs x = [("_", .group [.name t])] ∧ startsUnderscore t = false

/-- effect of a successful name lookup -/
structure NameRes (c : Circ) (s : String) (c' : Circ) : Prop where
  kind : (c'.kind s).isSome
  iconn : c'.iconn = c.iconn
  oconn : c'.oconn = c.oconn
  slots : c'.slots = c.slots
  created : c' = c ∨ (c.kind s = none ∧ startsUnderscore s = true ∧ c'.order = c.order ++ [s] ∧
      (∀ x, x ≠ s → c'.kind x = c.kind x) ∧
      ((c'.kind s = some .s ∧ c'.inputs = c.inputs) ∨
       (c'.kind s = some (.c .not) ∧ ∃ t, notTarget? s = some t ∧
          c'.inputs = upd c.inputs s [("_", .group [.name t])])))

theorem validateName_spec {c c' : Circ} {s : String} {r' : Ref}
    (h : validateName c s = .ok (c', r')) : r' = .obj false s ∧ NameRes c s c' := by
  unfold validateName at h
  split at h
  · next hc =>
    have hu : startsUnderscore s = true := by
      cases hs : startsUnderscore s <;> simp [hs] at hc ⊢
    split at h
    · split at h
      · cases h
      · next c1 h1 =>
        cases h
        obtain ⟨hn, _, _, rfl⟩ := addBlock_ok h1
        refine ⟨rfl, by simp [upd], rfl, rfl, rfl, Or.inr ⟨hn, hu, rfl, ?_, Or.inl ⟨by simp [upd], rfl⟩⟩⟩
        intro x hx; simp [upd, hx]
    · split at h
      · next t ht =>
        split at h
        · cases h
        · next c1 h1 =>
          split at h
          · cases h
          · next c2 h2 =>
            cases h
            obtain ⟨hn, _, _, rfl⟩ := addBlock_ok h1
            obtain ⟨_, _, _, _, _, rfl⟩ := connect_ok h2
            refine ⟨rfl, by simp [upd], rfl, rfl, rfl,
              Or.inr ⟨hn, hu, rfl, ?_, Or.inr ⟨by simp [upd], t, ht, ?_⟩⟩⟩
            · intro x hx; simp [upd, hx]
            · simp [connectInputs]
      · obtain ⟨rfl, rfl, hk⟩ := findblock_ok h
        exact ⟨rfl, hk, rfl, rfl, rfl, Or.inl rfl⟩
  · obtain ⟨rfl, rfl, hk⟩ := findblock_ok h
    exact ⟨rfl, hk, rfl, rfl, rfl, Or.inl rfl⟩

/-- a name that does not start with an underscore never creates anything -/
theorem validateName_quiet {c c' : Circ} {s : String} {r' : Ref}
    (h : validateName c s = .ok (c', r')) (hs : startsUnderscore s = false) : c' = c := by
  unfold validateName at h
  simp [hs] at h
  exact (findblock_ok h).1

/-! ### monotone growth of the circuit during finalisation -/

/-- every block is in the ordered list of blocks -/
def WF (c : Circ) : Prop := ∀ x, (c.kind x).isSome → x ∈ c.order

/-- `P` = the blocks whose `inputs` may have been rewritten -/
structure Grow (P : String → Prop) (c c' : Circ) : Prop where
  kind : ∀ x k, c.kind x = some k → c'.kind x = some k
  inputs : ∀ x, ¬ P x → (c.kind x).isSome → c'.inputs x = c.inputs x
  inv : Inv c → Inv c'
  fin : c'.finalized = c.finalized
  slots : c'.slots = c.slots
  iconnMono : ∀ a b, a ∈ c.iconn b → a ∈ c'.iconn b
  newFresh : ∀ x, c.kind x = none →
    c'.kind x = none ∨ c'.kind x = some .s ∨ (c'.kind x = some (.c .not) ∧ Fresh c' x)
  wf : WF c → WF c'

theorem Grow.refl (P : String → Prop) (c : Circ) : Grow P c c :=
  ⟨fun _ _ h => h, fun _ _ _ => rfl, id, rfl, rfl, fun _ _ h => h, fun _ h => Or.inl h, id⟩

theorem Grow.mono {P Q : String → Prop} {c c' : Circ} (h : Grow P c c') (hpq : ∀ x, P x → Q x) :
    Grow Q c c' :=
  ⟨h.kind, fun x hx hk => h.inputs x (fun hp => hx (hpq x hp)) hk, h.inv, h.fin, h.slots,
   h.iconnMono, h.newFresh, h.wf⟩

theorem isSome_of_kind {c : Circ} {x : String} {k : BKind} (h : c.kind x = some k) :
    (c.kind x).isSome := by rw [h]; rfl

theorem Grow.trans {P : String → Prop} {a b c : Circ} (h1 : Grow P a b) (h2 : Grow P b c)
    (hP : ∀ x, P x → (a.kind x).isSome) : Grow P a c where
  kind := fun x k h => h2.kind x k (h1.kind x k h)
  inputs := fun x hx h => by
    obtain ⟨k, hk⟩ := Option.isSome_iff_exists.mp h
    rw [h2.inputs x hx (isSome_of_kind (h1.kind x k hk)), h1.inputs x hx h]
  inv := fun h => h2.inv (h1.inv h)
  fin := by rw [h2.fin, h1.fin]
  slots := by rw [h2.slots, h1.slots]
  iconnMono := fun x y h => h2.iconnMono x y (h1.iconnMono x y h)
  newFresh := fun x hx => by
    rcases h1.newFresh x hx with h | h | ⟨h, t, ht, hu⟩
    · exact h2.newFresh x h
    · exact Or.inr (Or.inl (h2.kind x _ h))
    · refine Or.inr (Or.inr ⟨h2.kind x _ h, t, ?_, hu⟩)
      have hnp : ¬ P x := fun hp => by have := hP x hp; rw [hx] at this; cases this
      rw [h2.inputs x hnp (isSome_of_kind h), ht]
  wf := fun h => h2.wf (h1.wf h)

/-- references whose validation cannot create a block -/
def Ref.quiet : Ref → Bool
  | .obj false _ => true
  | .const _ => true
  | .name t => !startsUnderscore t
  | _ => false

theorem nameRes_grow {c c' : Circ} {s : String} (hn : NameRes c s c') (he : Ext c c') :
    Grow (fun _ => False) c c' where
  kind := he.kind
  inputs := fun x _ h => he.inputs x h
  inv := he.inv
  fin := he.fin
  slots := hn.slots
  iconnMono := fun a b h => by rw [hn.iconn]; exact h
  newFresh := fun x hx => by
    rcases hn.created with rfl | ⟨_, _, _, hk, hc⟩
    · exact Or.inl hx
    · by_cases e : x = s
      · subst e
        rcases hc with ⟨h1, _⟩ | ⟨h1, t, ht, hi⟩
        · exact Or.inr (Or.inl h1)
        · exact Or.inr (Or.inr ⟨h1, t, by rw [hi]; simp [upd], notTarget_noUnderscore ht⟩)
      · exact Or.inl (by rw [hk x e]; exact hx)
  wf := fun hw x hx => by
    rcases hn.created with rfl | ⟨_, _, ho, hk, _⟩
    · exact hw x hx
    · rw [ho]
      by_cases e : x = s
      · simp [e]
      · rw [hk x e] at hx; exact List.mem_append.mpr (Or.inl (hw x hx))

/-- what a successful `_validate_blk` did -/
structure VB (c : Circ) (r : Ref) (c' : Circ) (r' : Ref) : Prop where
  target : r' = r.target
  shape : r.okShape = true
  exists_ : ∀ n, r' = .obj false n → (c'.kind n).isSome
  grow : Grow (fun _ => False) c c'
  quiet : r.quiet = true → c' = c

theorem validateName_vb {c c' : Circ} {s : String} {r' : Ref}
    (h : validateName c s = .ok (c', r')) :
    r' = .obj false s ∧ (c'.kind s).isSome ∧ Grow (fun _ => False) c c' ∧
    (startsUnderscore s = false → c' = c) := by
  obtain ⟨e, hn⟩ := validateName_spec h
  exact ⟨e, hn.kind, nameRes_grow hn (validateName_ext h), validateName_quiet h⟩

theorem validateBlk_vb {c c' : Circ} {r r' : Ref} (h : validateBlk c r = .ok (c', r')) :
    VB c r c' r' := by
  cases r with
  | const v =>
    simp [validateBlk] at h; obtain ⟨rfl, rfl⟩ := h
    exact ⟨rfl, rfl, (fun _ hn => by cases hn), Grow.refl _ _, fun _ => rfl⟩
  | name s =>
    simp only [validateBlk] at h
    obtain ⟨e, hk, hg, hq⟩ := validateName_vb h
    refine ⟨e, rfl, fun n hn => ?_, hg, fun hqq => hq (by simpa [Ref.quiet] using hqq)⟩
    rw [e] at hn; cases hn; exact hk
  | obj f n =>
    simp only [validateBlk] at h
    split at h
    · cases h
    · next hc =>
      cases h
      have hf : f = false := by cases f <;> simp_all
      have hk : (c.kind n).isSome := by cases hh : (c.kind n).isSome <;> simp_all
      subst hf
      exact ⟨rfl, rfl, (fun m hm => by cases hm; exact hk), Grow.refl _ _, fun _ => rfl⟩
  | val v =>
    cases v with
    | undef => simp [validateBlk] at h
    | tup l =>
      simp [validateBlk] at h; obtain ⟨rfl, rfl⟩ := h
      exact ⟨rfl, rfl, (fun _ hn => by cases hn), Grow.refl _ _, fun hq => by cases hq⟩
    | lst l =>
      simp [validateBlk] at h; obtain ⟨rfl, rfl⟩ := h
      exact ⟨rfl, rfl, (fun _ hn => by cases hn), Grow.refl _ _, fun hq => by cases hq⟩
    | atom a =>
      cases a with
      | str s =>
        simp only [validateBlk] at h
        obtain ⟨e, hk, hg, _⟩ := validateName_vb h
        refine ⟨e, rfl, fun n hn => ?_, hg, fun hq => by cases hq⟩
        rw [e] at hn; cases hn; exact hk
      | none =>
        simp [validateBlk] at h; obtain ⟨rfl, rfl⟩ := h
        exact ⟨rfl, rfl, (fun _ hn => by cases hn), Grow.refl _ _, fun hq => by cases hq⟩
      | num q k =>
        simp [validateBlk] at h; obtain ⟨rfl, rfl⟩ := h
        exact ⟨rfl, rfl, (fun _ hn => by cases hn), Grow.refl _ _, fun hq => by cases hq⟩

/-! ### lists of references, one input -/

abbrev NoP : String → Prop := fun _ => False

theorem Grow.trans0 {a b c : Circ} (h1 : Grow NoP a b) (h2 : Grow NoP b c) : Grow NoP a c :=
  Grow.trans h1 h2 (fun _ hf => hf.elim)

structure VL (c : Circ) (rs : List Ref) (c' : Circ) (res : Except Err (List Ref)) : Prop where
  grow : Grow NoP c c'
  ok : ∀ rs', res = .ok rs' → rs' = rs.map Ref.target ∧ (∀ r ∈ rs, r.okShape = true) ∧
        (∀ n, Ref.obj false n ∈ rs' → (c'.kind n).isSome)
  quiet : (∀ r ∈ rs, r.quiet = true) → c' = c

theorem validateList_vl (rs : List Ref) : ∀ (c c' : Circ) (res : Except Err (List Ref)),
    validateList c rs = (c', res) → VL c rs c' res := by
  induction rs with
  | nil =>
    intro c c' res h
    simp [validateList] at h; obtain ⟨rfl, rfl⟩ := h
    exact ⟨Grow.refl _ _, (fun rs' h => by cases h; simp), fun _ => rfl⟩
  | cons r rs ih =>
    intro c c' res h
    unfold validateList at h
    split at h
    · next e he =>
      cases h
      exact ⟨Grow.refl _ _, (fun rs' h => by cases h), fun hq => rfl⟩
    · next c1 r' hv =>
      have vb := validateBlk_vb hv
      split at h
      · next c2 e h2 =>
        cases h
        have vl := ih c1 _ _ h2
        refine ⟨vb.grow.trans0 vl.grow, (fun rs' h => by cases h), fun hq => ?_⟩
        have e1 := vb.quiet (hq r (by simp)); subst e1
        exact vl.quiet (fun x hx => hq x (by simp [hx]))
      · next c2 rs' h2 =>
        cases h
        have vl := ih c1 _ _ h2
        obtain ⟨e1, e2, e3⟩ := vl.ok rs' rfl
        refine ⟨vb.grow.trans0 vl.grow, fun rs'' h => ?_, fun hq => ?_⟩
        · cases h
          refine ⟨by rw [vb.target, e1]; rfl, ?_, ?_⟩
          · intro x hx
            rcases List.mem_cons.mp hx with rfl | hx
            · exact vb.shape
            · exact e2 x hx
          · intro n hn
            rcases List.mem_cons.mp hn with hn | hn
            · obtain ⟨k, hk⟩ := Option.isSome_iff_exists.mp (vb.exists_ n hn.symm)
              exact isSome_of_kind (vl.grow.kind n k hk)
            · exact e3 n hn
        · have e1 := vb.quiet (hq r (by simp)); subst e1
          exact vl.quiet (fun x hx => hq x (by simp [hx]))

def Inp.mapT : Inp → Inp
  | .single r => .single r.target
  | .group rs => .group (rs.map Ref.target)

def mapI (l : Inputs) : Inputs := l.map fun p => (p.1, p.2.mapT)

theorem Inp.mapT_refs (i : Inp) : i.mapT.refs = i.refs.map Ref.target := by
  cases i <;> rfl

theorem Inp.mapT_sigVal (i : Inp) : i.mapT.sigVal = i.sigVal := by
  cases i <;> simp [Inp.mapT, Inp.sigVal]

structure RI (c : Circ) (i : Inp) (c' : Circ) (res : Except Err Inp) : Prop where
  grow : Grow NoP c c'
  ok : ∀ i', res = .ok i' → i' = i.mapT ∧ (∀ r ∈ i.refs, r.okShape = true) ∧
        (∀ n, Ref.obj false n ∈ i'.refs → (c'.kind n).isSome)
  quiet : (∀ r ∈ i.refs, r.quiet = true) → c' = c

theorem resolveInput_ri {c c' : Circ} {i : Inp} {res : Except Err Inp}
    (h : resolveInput c i = (c', res)) : RI c i c' res := by
  cases i with
  | single r =>
    simp only [resolveInput] at h
    split at h
    · cases h; exact ⟨Grow.refl _ _, (fun _ h => by cases h), fun _ => rfl⟩
    · next c1 r' hv =>
      cases h
      have vb := validateBlk_vb hv
      refine ⟨vb.grow, fun i' h => ?_, fun hq => vb.quiet (hq r (by simp [Inp.refs]))⟩
      cases h
      refine ⟨by rw [vb.target]; rfl, ?_, ?_⟩
      · intro x hx; simp [Inp.refs] at hx; subst hx; exact vb.shape
      · intro n hn; simp [Inp.refs] at hn; exact vb.exists_ n hn.symm
  | group rs =>
    simp only [resolveInput] at h
    split at h
    · next c1 e h1 =>
      cases h
      have vl := validateList_vl rs _ _ _ h1
      exact ⟨vl.grow, (fun _ h => by cases h), vl.quiet⟩
    · next c1 rs' h1 =>
      cases h
      have vl := validateList_vl rs _ _ _ h1
      obtain ⟨e1, e2, e3⟩ := vl.ok rs' rfl
      refine ⟨vl.grow, fun i' h => ?_, vl.quiet⟩
      cases h
      exact ⟨by rw [e1]; rfl, e2, e3⟩

/-! ### one block -/

theorem allRefs_append (l1 l2 : Inputs) : allRefs (l1 ++ l2) = allRefs l1 ++ allRefs l2 := by
  simp [allRefs]

theorem allRefs_cons (k : String) (i : Inp) (l : Inputs) : allRefs ((k, i) :: l) = i.refs ++ allRefs l := by
  simp [allRefs]

theorem inv_rewrite {c1 : Circ} {b k : String} {i : Inp} {done rest : Inputs}
    (hin : c1.inputs b = done ++ (k, i) :: rest) (hi : Inv c1) :
    Inv { c1 with inputs := upd c1.inputs b (done ++ (k, i.mapT) :: rest) } := by
  refine ⟨hi.sym, ?_⟩
  intro a b' ha
  obtain ⟨f, hf⟩ := hi.sub a b' ha
  by_cases e : b' = b
  · subst e
    rw [hin, allRefs_append, allRefs_cons] at hf
    simp only [upd_same, allRefs_append, allRefs_cons, Inp.mapT_refs]
    rcases List.mem_append.mp hf with h | h
    · exact ⟨f, List.mem_append.mpr (Or.inl h)⟩
    · rcases List.mem_append.mp h with h | h
      · exact ⟨false, List.mem_append.mpr (Or.inr (List.mem_append.mpr (Or.inl
          (List.mem_map.mpr ⟨_, h, rfl⟩))))⟩
      · exact ⟨f, List.mem_append.mpr (Or.inr (List.mem_append.mpr (Or.inr h)))⟩
  · exact ⟨f, by simpa [upd, e] using hf⟩

structure RIt (c : Circ) (b : String) (done todo : Inputs) (c' : Circ) (e : Option Err) : Prop where
  grow : Grow (· = b) c c'
  ok : e = none → c'.inputs b = done ++ mapI todo ∧ (∀ r ∈ allRefs todo, r.okShape = true) ∧
        (∀ n, Ref.obj false n ∈ allRefs (mapI todo) → (c'.kind n).isSome)
  quiet : (∀ r ∈ allRefs todo, r.quiet = true) → c'.kind = c.kind ∧ c'.order = c.order

theorem resolveItems_rit (b : String) (todo : Inputs) : ∀ (c : Circ) (done : Inputs) (c' : Circ)
    (e : Option Err), (c.kind b).isSome → c.inputs b = done ++ todo →
    resolveItems c b done todo = (c', e) → RIt c b done todo c' e := by
  induction todo with
  | nil =>
    intro c done c' e _ hin h
    simp [resolveItems] at h; obtain ⟨rfl, rfl⟩ := h
    exact ⟨Grow.refl _ _, (fun _ => ⟨by simpa [mapI] using hin, by simp [allRefs], by simp [allRefs, mapI]⟩),
      fun _ => ⟨rfl, rfl⟩⟩
  | cons p rest ih =>
    obtain ⟨k, i⟩ := p
    intro c done c' e hb hin h
    unfold resolveItems at h
    split at h
    · next c1 e1 h1 =>
      cases h
      have ri := resolveInput_ri h1
      refine ⟨ri.grow.mono (fun _ hf => hf.elim), (fun h => by cases h), fun hq => ?_⟩
      have := ri.quiet (fun r hr => hq r (by rw [allRefs_cons]; exact List.mem_append.mpr (Or.inl hr)))
      subst this; exact ⟨rfl, rfl⟩
    · next c1 i' h1 =>
      have ri := resolveInput_ri h1
      obtain ⟨ei, es, ex⟩ := ri.ok i' rfl
      subst ei
      have hin1 : c1.inputs b = done ++ (k, i) :: rest := by
        rw [ri.grow.inputs b (fun hf => hf) hb]; exact hin
      obtain ⟨kb, hkb⟩ := Option.isSome_iff_exists.mp hb
      have hb1 : (c1.kind b).isSome := isSome_of_kind (ri.grow.kind b kb hkb)
      have g12 : Grow (· = b) c1
          { c1 with inputs := upd c1.inputs b (done ++ (k, i.mapT) :: rest) } :=
        ⟨fun _ _ h => h, fun x hx _ => by simp [upd, hx], inv_rewrite hin1, rfl, rfl,
         fun _ _ h => h, fun _ h => Or.inl h, id⟩
      have r2 := ih { c1 with inputs := upd c1.inputs b (done ++ (k, i.mapT) :: rest) }
        (done ++ [(k, i.mapT)]) c' e hb1 (by simp [upd]) h
      have gall : Grow (· = b) c c' :=
        Grow.trans (ri.grow.mono (fun _ hf => hf.elim))
          (Grow.trans g12 r2.grow (fun x hx => by subst hx; exact hb1))
          (fun x hx => by subst hx; exact hb)
      refine ⟨gall, fun he => ?_, fun hq => ?_⟩
      · obtain ⟨a1, a2, a3⟩ := r2.ok he
        refine ⟨by rw [a1]; simp [mapI], ?_, ?_⟩
        · intro r hr
          rw [allRefs_cons] at hr
          rcases List.mem_append.mp hr with hr | hr
          · exact es r hr
          · exact a2 r hr
        · intro n hn
          have : mapI ((k, i) :: rest) = (k, i.mapT) :: mapI rest := by simp [mapI]
          rw [this, allRefs_cons] at hn
          rcases List.mem_append.mp hn with hn | hn
          · obtain ⟨kn, hkn⟩ := Option.isSome_iff_exists.mp (ex n hn)
            exact isSome_of_kind (r2.grow.kind n kn (g12.kind n kn hkn))
          · exact a3 n hn
      · have e1 := ri.quiet (fun r hr => hq r (by rw [allRefs_cons]; exact List.mem_append.mpr (Or.inl hr)))
        subst e1
        obtain ⟨q1, q2⟩ := r2.quiet (fun r hr => hq r (by rw [allRefs_cons]; exact List.mem_append.mpr (Or.inr hr)))
        exact ⟨q1, q2⟩

theorem connectAll_spec (refs : List Ref) : ∀ (c : Circ) (b : String),
    (connectAll c b refs).inputs = c.inputs ∧ (connectAll c b refs).kind = c.kind ∧
    (connectAll c b refs).order = c.order ∧ (connectAll c b refs).finalized = c.finalized ∧
    (connectAll c b refs).slots = c.slots ∧
    (∀ x y, x ∈ (connectAll c b refs).iconn y ↔ x ∈ c.iconn y ∨ (y = b ∧ ∃ f, Ref.obj f x ∈ refs)) ∧
    (∀ a y, y ∈ (connectAll c b refs).oconn a ↔ y ∈ c.oconn a ∨ (y = b ∧ ∃ f, Ref.obj f a ∈ refs)) := by
  induction refs with
  | nil => intro c b; simp [connectAll]
  | cons r rest ih =>
    intro c b
    cases r with
    | obj f0 a0 =>
      simp only [connectAll]
      obtain ⟨h1, h2, h3, h4, h5, h6, h7⟩ := ih
        { c with iconn := upd c.iconn b (addSet (c.iconn b) a0),
                 oconn := upd c.oconn a0 (addSet (c.oconn a0) b) } b
      refine ⟨h1, h2, h3, h4, h5, ?_, ?_⟩
      · intro x y
        rw [h6 x y]
        by_cases e : y = b
        · subst e; simp only [upd_same, mem_addSet, List.mem_cons, Ref.obj.injEq, true_and]
          constructor
          · rintro ((h | h) | ⟨f, h⟩)
            · exact Or.inl h
            · exact Or.inr ⟨f0, Or.inl ⟨rfl, h⟩⟩
            · exact Or.inr ⟨f, Or.inr h⟩
          · rintro (h | ⟨f, ⟨_, h⟩ | h⟩)
            · exact Or.inl (Or.inl h)
            · exact Or.inl (Or.inr h)
            · exact Or.inr ⟨f, h⟩
        · simp [upd, e]
      · intro a y
        rw [h7 a y]
        by_cases e : a = a0
        · subst e; simp only [upd_same, mem_addSet, List.mem_cons, Ref.obj.injEq]
          constructor
          · rintro ((h | h) | ⟨hy, f, h⟩)
            · exact Or.inl h
            · exact Or.inr ⟨h, f0, Or.inl ⟨rfl, trivial⟩⟩
            · exact Or.inr ⟨hy, f, Or.inr h⟩
          · rintro (h | ⟨hy, f, ⟨_, _⟩ | h⟩)
            · exact Or.inl (Or.inl h)
            · exact Or.inl (Or.inr hy)
            · exact Or.inr ⟨hy, f, h⟩
        · simp only [upd_other _ _ _ _ e, List.mem_cons, Ref.obj.injEq]
          constructor
          · rintro (h | ⟨hy, f, h⟩)
            · exact Or.inl h
            · exact Or.inr ⟨hy, f, Or.inr h⟩
          · rintro (h | ⟨hy, f, ⟨_, h⟩ | h⟩)
            · exact Or.inl h
            · exact absurd h e
            · exact Or.inr ⟨hy, f, h⟩
    | name s => simpa [connectAll] using ih c b
    | const v => simpa [connectAll] using ih c b
    | val v => simpa [connectAll] using ih c b

/-! ### `_finalize` -/

theorem allRefs_mapI (l : Inputs) : allRefs (mapI l) = (allRefs l).map Ref.target := by
  induction l with
  | nil => rfl
  | cons p l ih =>
    obtain ⟨k, i⟩ := p
    have : mapI ((k, i) :: l) = (k, i.mapT) :: mapI l := by simp [mapI]
    rw [this, allRefs_cons, allRefs_cons, ih, Inp.mapT_refs, List.map_append]

/-- all inputs of `b` are resolved, point to existing blocks and are registered as connections -/
def Done (c : Circ) (b : String) : Prop :=
  ∀ r ∈ allRefs (c.inputs b), r.resolved = true ∧
    ∀ a, r = .obj false a → a ∈ c.iconn b ∧ (c.kind a).isSome

theorem resolved_quiet {r : Ref} (h : r.resolved = true) : r.quiet = true := by
  unfold Ref.resolved at h
  split at h <;> first | rfl | cases h

theorem Done.stable {P : String → Prop} {c c' : Circ} {b : String} (hd : Done c b)
    (hg : Grow P c c') (hb : (c.kind b).isSome) (hp : ¬ P b) : Done c' b := by
  intro r hr
  rw [hg.inputs b hp hb] at hr
  obtain ⟨h1, h2⟩ := hd r hr
  refine ⟨h1, fun a ha => ?_⟩
  obtain ⟨h3, h4⟩ := h2 a ha
  obtain ⟨k, hk⟩ := Option.isSome_iff_exists.mp h4
  exact ⟨hg.iconnMono a b h3, isSome_of_kind (hg.kind a k hk)⟩

structure FB (c : Circ) (b : String) (c' : Circ) (e : Option Err) : Prop where
  grow : Grow (· = b) c c'
  ok : e = none → c'.inputs b = mapI (c.inputs b) ∧
        (∀ r ∈ allRefs (c.inputs b), r.okShape = true) ∧ Done c' b
  quiet : (∀ r ∈ allRefs (c.inputs b), r.quiet = true) → c'.kind = c.kind

theorem finalizeBlk_fb {c c' : Circ} {b : String} {e : Option Err} (hb : (c.kind b).isSome)
    (h : finalizeBlk c b = (c', e)) : FB c b c' e := by
  unfold finalizeBlk at h
  split at h
  · next c1 e1 h1 =>
    cases h
    have rit := resolveItems_rit b _ c [] _ _ hb (by simp) h1
    exact ⟨rit.grow, (fun h => by cases h), fun hq => (rit.quiet hq).1⟩
  · next c1 h1 =>
    cases h
    have rit := resolveItems_rit b _ c [] _ _ hb (by simp) h1
    obtain ⟨a1, a2, a3⟩ := rit.ok rfl
    obtain ⟨s1, s2, s3, s4, s5, s6, s7⟩ := connectAll_spec (allRefs (c1.inputs b)) c1 b
    have g2 : Grow (· = b) c1 (connectAll c1 b (allRefs (c1.inputs b))) := by
      refine ⟨fun x k h => by rw [s2]; exact h, fun x _ _ => by rw [s1], fun hi => ⟨?_, ?_⟩, s4, s5,
        fun a y h => (s6 a y).mpr (Or.inl h), fun x h => Or.inl (by rw [s2]; exact h),
        fun hw x hx => by rw [s3]; rw [s2] at hx; exact hw x hx⟩
      · intro a y
        rw [s6, s7, hi.sym]
      · intro a y hy
        rcases (s6 a y).mp hy with h | ⟨rfl, f, hf⟩
        · rw [s1]; exact hi.sub a y h
        · rw [s1]; exact ⟨f, hf⟩
    obtain ⟨kb, hkb⟩ := Option.isSome_iff_exists.mp hb
    have hb1 : (c1.kind b).isSome := isSome_of_kind (rit.grow.kind b kb hkb)
    refine ⟨Grow.trans rit.grow g2 (fun x hx => by subst hx; exact hb), fun _ => ⟨?_, a2, ?_⟩,
      fun hq => by rw [s2]; exact (rit.quiet hq).1⟩
    · rw [s1, a1]; simp
    · intro r hr
      rw [s1, a1, List.nil_append, allRefs_mapI] at hr
      obtain ⟨r0, _, rfl⟩ := List.mem_map.mp hr
      refine ⟨target_resolved r0, fun a ha => ⟨?_, ?_⟩⟩
      · refine (s6 a b).mpr (Or.inr ⟨rfl, false, ?_⟩)
        rw [a1, List.nil_append, allRefs_mapI, ← ha]; exact hr
      · rw [s2]; exact a3 a (by rw [allRefs_mapI, ← ha]; exact hr)

structure FP (L : List String) (c c' : Circ) (e : Option Err) : Prop where
  grow : Grow (· ∈ L) c c'
  ok : e = none → ∀ b ∈ L, Done c' b
  quiet : (∀ b ∈ L, ∀ r ∈ allRefs (c.inputs b), r.quiet = true) → c'.kind = c.kind

theorem finalizePass_fp (L : List String) : ∀ (c c' : Circ) (e : Option Err),
    (∀ b ∈ L, (c.kind b).isSome) → finalizePass c L = (c', e) → FP L c c' e := by
  induction L with
  | nil =>
    intro c c' e _ h
    simp [finalizePass] at h; obtain ⟨rfl, rfl⟩ := h
    exact ⟨Grow.refl _ _, (fun _ b hb => by cases hb), fun _ => rfl⟩
  | cons b rest ih =>
    intro c c' e hL h
    have hb := hL b (by simp)
    unfold finalizePass at h
    split at h
    · next c1 e1 h1 =>
      cases h
      have fb := finalizeBlk_fb hb h1
      exact ⟨fb.grow.mono (fun x hx => by simp [hx]), (fun h => by cases h),
        fun hq => fb.quiet (hq b (by simp))⟩
    · next c1 h1 =>
      have fb := finalizeBlk_fb hb h1
      obtain ⟨f1, _, f3⟩ := fb.ok rfl
      have hL1 : ∀ x ∈ rest, (c1.kind x).isSome := fun x hx => by
        obtain ⟨k, hk⟩ := Option.isSome_iff_exists.mp (hL x (by simp [hx]))
        exact isSome_of_kind (fb.grow.kind x k hk)
      have fp := ih c1 c' e hL1 h
      obtain ⟨kb, hkb⟩ := Option.isSome_iff_exists.mp hb
      have hb1 : (c1.kind b).isSome := isSome_of_kind (fb.grow.kind b kb hkb)
      refine ⟨Grow.trans (fb.grow.mono (fun x hx => by simp [hx]))
          (fp.grow.mono (fun x hx => by simp [hx])) hL, fun he x hx => ?_, fun hq => ?_⟩
      · rcases List.mem_cons.mp hx with rfl | hx
        · by_cases hr : x ∈ rest
          · exact fp.ok he x hr
          · exact f3.stable fp.grow hb1 hr
        · exact fp.ok he x hx
      · have q1 := fb.quiet (hq b (by simp))
        have q2 := fp.quiet (fun x hx r hr => by
          by_cases exb : x = b
          · subst exb
            rw [f1, allRefs_mapI] at hr
            obtain ⟨r0, _, rfl⟩ := List.mem_map.mp hr
            exact resolved_quiet (target_resolved r0)
          · rw [fb.grow.inputs x exb (hL x (by simp [hx]))] at hr
            exact hq x (by simp [hx]) r hr)
        rw [q2, q1]

theorem mem_cblockNames {c : Circ} {x : String} :
    x ∈ cblockNames c ↔ x ∈ c.order ∧ ∃ cls, c.kind x = some (.c cls) := by
  unfold cblockNames
  rw [List.mem_filter]
  constructor
  · rintro ⟨h1, h2⟩
    refine ⟨h1, ?_⟩
    split at h2
    · next cls hk => exact ⟨cls, hk⟩
    · cases h2
  · rintro ⟨h1, cls, hk⟩
    exact ⟨h1, by rw [hk]⟩

theorem mem_notNames {c : Circ} {x : String} :
    x ∈ notNames c ↔ x ∈ c.order ∧ c.kind x = some (.c .not) := by
  unfold notNames
  rw [List.mem_filter]
  simp

/-- placeholder for "x was created by the simulator" (kept abstract: see `newFresh`) -/
def startsUnderscoreNew (c w : Circ) (x : String) : Prop :=
  c.kind x = none ∧ (w.kind x = some .s ∨ w.kind x = some (.c .not))

/-- result of `_finalize` -/
structure FC (c w : Circ) : Prop where
  kind : ∀ x k, c.kind x = some k → w.kind x = some k
  inv : Inv c → Inv w
  fin : w.finalized = c.finalized
  slots : w.slots = c.slots
  wf : WF w
  /-- every block of `w` existed before or is an automatic block -/
  origin : ∀ x, (w.kind x).isSome → (c.kind x).isSome ∨ startsUnderscoreNew c w x
  done : ∀ b cls, w.kind b = some (.c cls) → Done w b

theorem finalizeCore_fc {c w : Circ} (hw : WF c) (h : finalizeCore c = (w, none)) : FC c w := by
  unfold finalizeCore at h
  split at h
  · cases h
  · next c1 h1 =>
    have hL1 : ∀ b ∈ cblockNames c, (c.kind b).isSome := fun b hb => by
      obtain ⟨_, cls, hk⟩ := mem_cblockNames.mp hb; exact isSome_of_kind hk
    have p1 := finalizePass_fp _ c c1 none hL1 h1
    have hw1 : WF c1 := p1.grow.wf hw
    have hL2 : ∀ b ∈ notNames c1, (c1.kind b).isSome := fun b hb =>
      isSome_of_kind (mem_notNames.mp hb).2
    have p2 := finalizePass_fp _ c1 w none hL2 h
    have d1 := p1.ok rfl
    -- the second pass creates nothing
    have hq : ∀ b ∈ notNames c1, ∀ r ∈ allRefs (c1.inputs b), r.quiet = true := by
      intro b hb r hr
      obtain ⟨_, hk1⟩ := mem_notNames.mp hb
      cases hk : c.kind b with
      | some k =>
        have hk' := p1.grow.kind b k hk
        rw [hk1] at hk'; cases hk'
        have : b ∈ cblockNames c := mem_cblockNames.mpr ⟨hw b (isSome_of_kind hk), _, hk⟩
        exact resolved_quiet (d1 b this r hr).1
      | none =>
        rcases p1.grow.newFresh b hk with h0 | h0 | ⟨_, t, ht, hu⟩
        · rw [hk1] at h0; cases h0
        · rw [hk1] at h0; cases h0
        · rw [ht] at hr
          simp [allRefs, Inp.refs] at hr
          subst hr
          simp [Ref.quiet, hu]
    have hk2 := p2.quiet hq
    refine ⟨fun x k hk => p2.grow.kind x k (p1.grow.kind x k hk), fun hi => p2.grow.inv (p1.grow.inv hi),
      by rw [p2.grow.fin, p1.grow.fin], by rw [p2.grow.slots, p1.grow.slots], p2.grow.wf hw1, ?_, ?_⟩
    · intro x hx
      cases hk : c.kind x with
      | some k => exact Or.inl rfl
      | none =>
        refine Or.inr ⟨hk, ?_⟩
        rw [hk2] at hx ⊢
        rcases p1.grow.newFresh x hk with h0 | h0 | ⟨h0, _⟩
        · rw [h0] at hx; cases hx
        · exact Or.inl h0
        · exact Or.inr h0
    · intro b cls hb
      have hb1 : c1.kind b = some (.c cls) := by rw [← hk2]; exact hb
      by_cases h2 : b ∈ notNames c1
      · exact p2.ok rfl b h2
      · cases hk : c.kind b with
        | some k =>
          have hk' := p1.grow.kind b k hk
          rw [hb1] at hk'; cases hk'
          have : b ∈ cblockNames c := mem_cblockNames.mpr ⟨hw b (isSome_of_kind hk), _, hk⟩
          exact (d1 b this).stable p2.grow (isSome_of_kind hb1) h2
        | none =>
          rcases p1.grow.newFresh b hk with h0 | h0 | ⟨h0, _⟩
          · rw [hb1] at h0; cases h0
          · rw [hb1] at h0; cases h0
          · exact absurd (mem_notNames.mpr ⟨hw1 b (isSome_of_kind hb1), h0⟩) h2

/-- `_finalize` keeps the invariants also when it fails half-way -/
theorem finalizeCore_keeps {c w : Circ} {e : Option Err} (hw : WF c) (h : finalizeCore c = (w, e)) :
    (Inv c → Inv w) ∧ WF w ∧ w.finalized = c.finalized := by
  unfold finalizeCore at h
  have hL1 : ∀ b ∈ cblockNames c, (c.kind b).isSome := fun b hb => by
    obtain ⟨_, cls, hk⟩ := mem_cblockNames.mp hb; exact isSome_of_kind hk
  split at h
  · next c1 e1 h1 =>
    cases h
    have p1 := finalizePass_fp _ c _ _ hL1 h1
    exact ⟨p1.grow.inv, p1.grow.wf hw, p1.grow.fin⟩
  · next c1 h1 =>
    have p1 := finalizePass_fp _ c c1 none hL1 h1
    have hL2 : ∀ b ∈ notNames c1, (c1.kind b).isSome := fun b hb =>
      isSome_of_kind (mem_notNames.mp hb).2
    have p2 := finalizePass_fp _ c1 w e hL2 h
    exact ⟨fun hi => p2.grow.inv (p1.grow.inv hi), p2.grow.wf (p1.grow.wf hw),
      by rw [p2.grow.fin, p1.grow.fin]⟩

/-! ### resolver -/

def Slot.res (sl : Slot) : Slot :=
  match sl.ref with
  | .name s => { sl with ref := .obj s }
  | .obj _ => sl

structure RS (c c' : Circ) : Prop where
  kind : ∀ x k, c.kind x = some k → c'.kind x = some k
  inv : Inv c → Inv c'
  wf : WF c → WF c'
  fin : c'.finalized = c.finalized

theorem RS.ofGrow {P : String → Prop} {c c' : Circ} (g : Grow P c c') : RS c c' :=
  ⟨g.kind, g.inv, g.wf, g.fin⟩

theorem RS.trans {a b c : Circ} (h1 : RS a b) (h2 : RS b c) : RS a c :=
  ⟨fun x k h => h2.kind x k (h1.kind x k h), fun h => h2.inv (h1.inv h), fun h => h2.wf (h1.wf h),
   by rw [h2.fin, h1.fin]⟩

theorem RS.setSlots (c : Circ) (l : List Slot) : RS c { c with slots := l } :=
  ⟨fun _ _ h => h, fun hi => ⟨hi.sym, hi.sub⟩, fun h => h, rfl⟩

theorem resolveSlots_rs (todo : List Slot) : ∀ (c : Circ) (done : List Slot) (c' : Circ)
    (e : Option Err), resolveSlots c done todo = (c', e) →
    RS c c' ∧ (e = none → c'.slots = done ++ todo.map Slot.res ∧
      ∀ sl ∈ todo, ∀ s, sl.ref = .name s →
        ∃ k, c'.kind s = some k ∧ (sl.needS = true → k = .s)) := by
  induction todo with
  | nil =>
    intro c done c' e h
    simp [resolveSlots] at h; obtain ⟨rfl, rfl⟩ := h
    exact ⟨RS.setSlots _ _, fun _ => ⟨by simp, fun _ h => by cases h⟩⟩
  | cons sl rest ih =>
    intro c done c' e h
    unfold resolveSlots at h
    split at h
    · next n hn =>
      obtain ⟨r1, r2⟩ := ih _ _ _ _ h
      refine ⟨r1, fun he => ?_⟩
      obtain ⟨a1, a2⟩ := r2 he
      refine ⟨?_, ?_⟩
      · rw [a1]; simp [Slot.res, hn]
      · intro x hx s hs
        rcases List.mem_cons.mp hx with rfl | hx
        · rw [hn] at hs; cases hs
        · exact a2 x hx s hs
    · next s hs =>
      split at h
      · cases h
        exact ⟨RS.setSlots _ _, fun he => by cases he⟩
      · next c1 r' hv =>
        have vb := validateBlk_vb hv
        split at h
        · cases h
          exact ⟨(RS.ofGrow vb.grow).trans (RS.setSlots _ _), fun he => by cases he⟩
        · next hc =>
          obtain ⟨r1, r2⟩ := ih _ _ _ _ h
          refine ⟨(RS.ofGrow vb.grow).trans r1, fun he => ?_⟩
          obtain ⟨a1, a2⟩ := r2 he
          refine ⟨?_, ?_⟩
          · rw [a1]; simp [Slot.res, hs]
          · intro x hx t ht
            rcases List.mem_cons.mp hx with rfl | hx
            · rw [hs] at ht; cases ht
              obtain ⟨k, hk⟩ := Option.isSome_iff_exists.mp (vb.exists_ s vb.target)
              refine ⟨k, r1.kind s k hk, fun hn => ?_⟩
              rw [hk] at hc
              simp [hn] at hc
              exact hc
            · exact a2 x hx t ht

/-! ### states reachable through the API -/

def AllDone (c : Circ) : Prop := ∀ b cls, c.kind b = some (.c cls) → Done c b

structure Good (c : Circ) : Prop where
  inv : Inv c
  wf : WF c
  done : c.finalized = true → AllDone c

theorem good_empty : Good {} :=
  ⟨inv_empty, fun x h => by simp at h, fun h => by cases h⟩

theorem addBlock_good {c c' : Circ} {n : String} {k : BKind} {r : Bool}
    (h : addBlock c n k r = .ok c') (g : Good c) : Good c' := by
  have e := addBlock_ext h
  obtain ⟨_, hf, _, rfl⟩ := addBlock_ok h
  refine ⟨e.inv g.inv, ?_, fun h => by simp [hf] at h⟩
  intro x hx
  by_cases ex : x = n
  · simp [ex]
  · simp only [upd, ex, if_false] at hx
    exact List.mem_append.mpr (Or.inl (g.wf x hx))

theorem connect_good {c c' : Circ} {b : String} {pos : List Ref} {named : Inputs}
    (h : connect c b pos named = .ok c') (g : Good c) : Good c' := by
  have hi := connect_inv h g.inv
  obtain ⟨_, hf, _, _, _, rfl⟩ := connect_ok h
  exact ⟨hi, g.wf, fun h => by simp [hf] at h⟩

theorem register_ok {c c' : Circ} {r : SRef} {n : Bool} (h : register c r n = .ok c') :
    c' = { c with slots := c.slots ++ [⟨r, n⟩] } := by
  unfold register at h
  split at h
  · cases h; rfl
  · split at h
    · cases h
    · split at h
      · cases h
      · cases h; rfl

theorem register_good {c c' : Circ} {r : SRef} {n : Bool} (h : register c r n = .ok c')
    (g : Good c) : Good c' := by
  rw [register_ok h]
  exact ⟨⟨g.inv.sym, g.inv.sub⟩, g.wf, g.done⟩

theorem setStorage_good {c c' : Circ} {d : Option Nat} (h : setStorage c d = .ok c')
    (g : Good c) : Good c' := by
  unfold setStorage at h
  split at h
  · cases h
  · cases h; exact ⟨⟨g.inv.sym, g.inv.sub⟩, g.wf, g.done⟩

theorem finalize_good {c : Circ} (g : Good c) :
    Good (finalize c).1 ∧ ((finalize c).2 = none → (finalize c).1.finalized = true) := by
  unfold finalize
  split
  · next hf => exact ⟨g, fun _ => hf⟩
  · next hf =>
    have hf : c.finalized = false := by simpa using hf
    split
    · next c1 e1 h1 =>
      obtain ⟨rs, _⟩ := resolveSlots_rs _ _ _ _ _ h1
      exact ⟨⟨rs.inv g.inv, rs.wf g.wf, fun h => by rw [rs.fin, hf] at h; cases h⟩, fun h => by cases h⟩
    · next c1 h1 =>
      obtain ⟨rs, _⟩ := resolveSlots_rs _ _ _ _ _ h1
      split
      · next c2 e2 h2 =>
        obtain ⟨k1, k2, k3⟩ := finalizeCore_keeps (rs.wf g.wf) h2
        exact ⟨⟨k1 (rs.inv g.inv), k2, fun h => by rw [k3, rs.fin, hf] at h; cases h⟩,
          fun h => by cases h⟩
      · next c2 h2 =>
        have fc := finalizeCore_fc (rs.wf g.wf) h2
        have hi := fc.inv (rs.inv g.inv)
        exact ⟨⟨⟨hi.sym, hi.sub⟩, fc.wf, fun _ b cls hk => fc.done b cls hk⟩, fun _ => rfl⟩

theorem confName_of_resolved (r : Ref) (h : r.resolved = true) : ∃ n, r.confName = some n := by
  cases r with
  | obj f a => exact ⟨a, rfl⟩
  | const v => exact ⟨_, rfl⟩
  | name s => cases h
  | val v => cases h

theorem mapM_confName (rs : List Ref) (h : ∀ r ∈ rs, r.resolved = true) :
    ∃ ns, rs.mapM Ref.confName = some ns := by
  induction rs with
  | nil => exact ⟨[], rfl⟩
  | cons r rs ih =>
    obtain ⟨n, hn⟩ := confName_of_resolved r (h r (by simp))
    obtain ⟨ns, hns⟩ := ih (fun r hr => h r (by simp [hr]))
    exact ⟨n :: ns, by simp [List.mapM_cons, hn, hns]⟩

/-! ### `check_signature` -/

/-- the documented rule: a single input matches only `None`; a group of `k` inputs (0 included)
    matches the size `k` and every range that contains `k`; nothing matches a malformed expectation -/
def Expect.accepts : Expect → Option Nat → Prop
  | .single, v => v = none
  | .exact n, v => v = some n
  | .range lo hi, v => ∃ k, v = some k ∧ (∀ l, lo = some l → l ≤ k) ∧ (∀ h, hi = some h → k ≤ h)
  | .malformed, _ => False

theorem valueDiff_false_iff (e : Expect) (v : Option Nat) : valueDiff e v = false ↔ e.accepts v := by
  cases e with
  | single => cases v <;> simp [valueDiff, Expect.accepts]
  | exact n =>
    cases v with
    | none => simp [valueDiff, Expect.accepts]
    | some k => simp [valueDiff, Expect.accepts]
  | malformed => cases v <;> simp [valueDiff, Expect.accepts]
  | range lo hi =>
    cases v with
    | none => simp [valueDiff, Expect.accepts]
    | some k =>
      cases lo <;> cases hi <;> simp [valueDiff, Expect.accepts] <;> omega

theorem sigEq_sound {bsig : List (String × Option Nat)} {esig : List (String × Expect)}
    (h : sigEq bsig esig = true) :
    sameKeys bsig esig = true ∧ ∀ p ∈ esig, ∃ v, bsig.lookup p.1 = some v ∧ p.2.accepts v := by
  unfold sigEq at h
  simp only [Bool.and_eq_true, List.all_eq_true] at h
  obtain ⟨hl, ha⟩ := h
  have key : ∀ p ∈ esig, ∃ v, bsig.lookup p.1 = some v ∧ p.2.accepts v := by
    intro p hp
    have := ha p hp
    split at this
    · next h1 h2 => exact ⟨none, h2, by rw [h1]; rfl⟩
    · next n k h1 h2 =>
      refine ⟨some k, h2, ?_⟩
      rw [h1]; simp only [Expect.accepts]
      have : k = n := by simpa using this
      rw [this]
    · cases this
  refine ⟨?_, key⟩
  unfold sameKeys
  simp only [Bool.and_eq_true, List.all_eq_true]
  refine ⟨hl, fun p hp => ?_⟩
  obtain ⟨v, hv, _⟩ := key p hp
  rw [hv]; rfl

/-! ### references that can never be accepted make the whole finalisation fail -/

theorem finalizePass_shapes (L : List String) : ∀ (c c' : Circ),
    (∀ b ∈ L, (c.kind b).isSome) → finalizePass c L = (c', none) →
    ∀ b ∈ L, ∀ r ∈ allRefs (c.inputs b), r.okShape = true := by
  induction L with
  | nil => intro c c' _ _ b hb; cases hb
  | cons b rest ih =>
    intro c c' hL h
    have hb := hL b (by simp)
    unfold finalizePass at h
    split at h
    · cases h
    · next c1 h1 =>
      have fb := finalizeBlk_fb hb h1
      obtain ⟨_, f2, _⟩ := fb.ok rfl
      have hL1 : ∀ x ∈ rest, (c1.kind x).isSome := fun x hx => by
        obtain ⟨k, hk⟩ := Option.isSome_iff_exists.mp (hL x (by simp [hx]))
        exact isSome_of_kind (fb.grow.kind x k hk)
      have ih' := ih c1 c' hL1 h
      intro x hx r hr
      by_cases exb : x = b
      · subst exb; exact f2 r hr
      · rcases List.mem_cons.mp hx with e | hx
        · exact absurd e exb
        · rw [← fb.grow.inputs x exb (hL x (by simp [hx]))] at hr
          exact ih' x hx r hr

theorem finalizeCore_shapes {c w : Circ} (hw : WF c) (h : finalizeCore c = (w, none)) :
    ∀ b cls, c.kind b = some (.c cls) → ∀ r ∈ allRefs (c.inputs b), r.okShape = true := by
  unfold finalizeCore at h
  split at h
  · cases h
  · next c1 h1 =>
    have hL1 : ∀ b ∈ cblockNames c, (c.kind b).isSome := fun b hb => by
      obtain ⟨_, cls, hk⟩ := mem_cblockNames.mp hb; exact isSome_of_kind hk
    intro b cls hk
    exact finalizePass_shapes _ c c1 hL1 h1 b
      (mem_cblockNames.mpr ⟨hw b (isSome_of_kind hk), cls, hk⟩)

theorem resolveSlots_inputs (todo : List Slot) : ∀ (c : Circ) (done : List Slot) (c' : Circ)
    (e : Option Err), resolveSlots c done todo = (c', e) →
    ∀ x, (c.kind x).isSome → c'.inputs x = c.inputs x := by
  induction todo with
  | nil =>
    intro c done c' e h
    simp [resolveSlots] at h; obtain ⟨rfl, rfl⟩ := h
    intro x _; rfl
  | cons sl rest ih =>
    intro c done c' e h
    unfold resolveSlots at h
    split at h
    · exact ih _ _ _ _ h
    · split at h
      · cases h; intro x _; rfl
      · next c1 r' hv =>
        have vb := validateBlk_vb hv
        have step : ∀ x, (c.kind x).isSome → c1.inputs x = c.inputs x :=
          fun x hx => vb.grow.inputs x (fun hf => hf) hx
        split at h
        · cases h; exact step
        · intro x hx
          obtain ⟨k, hk⟩ := Option.isSome_iff_exists.mp hx
          rw [ih _ _ _ _ h x (isSome_of_kind (vb.grow.kind x k hk)), step x hx]

end Edzed.Wiring
