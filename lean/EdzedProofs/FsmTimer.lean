/-
Helper lemmas for C04 (timed FSM states): frame lemmas of the timer-free parts of `_ctx_event`,
the invariant `Inv` and its preservation by every operation.
-/
import EdzedModel.FsmTimer

namespace Edzed.FsmTimer

/-- the `fire` entries of a log: (time, handle, epoch at delivery) -/
def fires : List (Nat × Entry) → List (Nat × Handle × Nat)
  | [] => []
  | (t, .fire h ep _) :: l => (t, h, ep) :: fires l
  | _ :: l => fires l

theorem fires_append (a b : List (Nat × Entry)) : fires (a ++ b) = fires a ++ fires b := by
  induction a with
  | nil => rfl
  | cons x l ih =>
    obtain ⟨t, e⟩ := x
    cases e <;> simp [fires, ih]

def Entry.isFire : Entry → Bool
  | .fire .. => true
  | _ => false

/-- `s'` differs from `s` only in fields the timers do not depend on, and no timed event was
    delivered in between -/
structure Frame (s s' : St) : Prop where
  timers : s'.timers = s.timers
  active : s'.active = s.active
  epoch : s'.epoch = s.epoch
  now : s'.now = s.now
  stopped : s'.stopped = s.stopped
  nextId : s'.nextId = s.nextId
  state : s'.state = s.state
  fires : fires s'.log = fires s.log

theorem Frame.refl (s : St) : Frame s s := ⟨rfl, rfl, rfl, rfl, rfl, rfl, rfl, rfl⟩

theorem Frame.trans {a b c : St} (h1 : Frame a b) (h2 : Frame b c) : Frame a c :=
  ⟨h2.timers.trans h1.timers, h2.active.trans h1.active, h2.epoch.trans h1.epoch,
   h2.now.trans h1.now, h2.stopped.trans h1.stopped, h2.nextId.trans h1.nextId,
   h2.state.trans h1.state, h2.fires.trans h1.fires⟩

theorem frame_emit (s : St) (e : Entry) (h : e.isFire = false) : Frame s (s.emit e) := by
  refine ⟨rfl, rfl, rfl, rfl, rfl, rfl, rfl, ?_⟩
  simp only [St.emit, fires_append]
  cases e <;> simp_all [fires, Entry.isFire]

theorem frame_fail (s : St) (k : ErrKind) : Frame s (s.fail k) := by
  unfold St.fail; split <;> exact ⟨rfl, rfl, rfl, rfl, rfl, rfl, rfl, rfl⟩

theorem frame_evalCond (s : St) (d : EvData) (c : Cond) (s' : St) (b : Bool)
    (h : evalCond s d c = some (s', b)) : Frame s s' := by
  cases c <;> simp only [evalCond] at h
  · cases h; exact Frame.refl _
  · cases h; exact Frame.refl _
  · cases h; exact Frame.refl _
  · split at h
    · cases h; exact ⟨rfl, rfl, rfl, rfl, rfl, rfl, rfl, rfl⟩
    · cases h

theorem frame_evalConds (d : EvData) (cs : List Cond) : ∀ (s s' : St) (b : Bool),
    evalConds s d cs = some (s', b) → Frame s s' := by
  induction cs with
  | nil => intro s s' b h; simp only [evalConds] at h; cases h; exact Frame.refl _
  | cons c cs ih =>
    intro s s' b h
    simp only [evalConds] at h
    split at h
    · cases h
    · next s1 b1 h1 =>
      split at h
      · cases h
      · next s2 b2 h2 =>
        cases h
        exact (frame_evalCond s d c s1 b1 h1).trans (ih s1 _ b2 h2)

theorem frame_resolve (c : Cfg) (s : St) (e : TEvent) (d : EvData) :
    Frame s (resolve c s e d).1 := by
  unfold resolve
  split
  · split <;> exact Frame.refl _
  · split
    · exact Frame.refl _
    · split
      · exact Frame.refl _
      · split
        · exact frame_emit _ _ rfl
        · split
          · exact Frame.refl _
          · split
            · exact Frame.refl _
            · next s' ok h =>
              split <;> exact frame_evalConds _ _ _ _ _ h

theorem frame_setCtx (s : St) (d : EvData) : Frame s (setCtx s d) :=
  ⟨rfl, rfl, rfl, rfl, rfl, rfl, rfl, rfl⟩

theorem frame_post (c : Cfg) (s : St) (e : TEvent) (d : EvData) : Frame s (post c s e d).1 := by
  have h := (frame_setCtx s d).trans (frame_resolve c (setCtx s d) e d)
  unfold post
  split
  · next s1 q heq =>
    rw [heq] at h
    split
    · exact h.trans (frame_fail _ _)
    · exact h.trans ⟨rfl, rfl, rfl, rfl, rfl, rfl, rfl, rfl⟩
  · next s1 heq => rw [heq] at h; exact h
  · next s1 heq => rw [heq] at h; exact h.trans (frame_fail _ _)
  · next s1 k heq => rw [heq] at h; exact h.trans (frame_fail _ _)

theorem frame_eventRec (c : Cfg) (s : St) (e : TEvent) (d : EvData) :
    Frame s (eventRec c s e d).1 :=
  (frame_post c s e d).trans ⟨rfl, rfl, rfl, rfl, rfl, rfl, rfl, rfl⟩

theorem frame_runEnter (c : Cfg) (s : St) (q : String) : Frame s (runEnter c s q) := by
  unfold runEnter
  have h := frame_emit s (.enter q s.ctx) rfl
  split
  · exact h
  · exact h.trans (frame_eventRec _ _ _ _)

theorem frame_setOut (s : St) (v : Val) : Frame s (setOut s v) := by
  unfold setOut
  split
  · exact Frame.refl _
  · exact Frame.trans (b := { s with out := v }) ⟨rfl, rfl, rfl, rfl, rfl, rfl, rfl, rfl⟩
      (frame_emit _ _ rfl)

theorem frame_sendOnEnter (s : St) : Frame s (sendOnEnter s) := by
  unfold sendOnEnter
  split
  · exact frame_emit _ _ rfl
  · exact Frame.refl _

theorem frame_finish (c : Cfg) (s : St) : Frame s (finish c s) := by
  unfold finish
  split
  · exact frame_fail _ _
  · exact (frame_setOut _ _).trans (frame_sendOnEnter _)

/-! ### timers -/

/-- no pending timer and nothing remembered as active -/
def Idle (s : St) : Prop := live s = [] ∧ s.active = none

theorem idle_of_frame {s s' : St} (f : Frame s s') (h : Idle s) : Idle s' := by
  unfold Idle live at *
  rw [f.timers, f.active]; exact h

theorem fail_failed (s : St) (k : ErrKind) : (s.fail k).failed ≠ none := by
  unfold St.fail; split
  · next h => simp [h]
  · simp

theorem fail_out (s : St) (k : ErrKind) : (s.fail k).out = s.out := by
  unfold St.fail; split <;> rfl

/-- what `enterLoop` guarantees when it starts without a pending timer -/
structure EL (c : Cfg) (s s' : St) : Prop where
  fires : fires s'.log = fires s.log
  now : s'.now = s.now
  stopped : s'.stopped = s.stopped
  epoch : s.epoch ≤ s'.epoch
  timer : Idle s' ∨ ∃ h, live s' = [h] ∧ s'.active = some h.id ∧ h.epoch = s'.epoch ∧
    s.epoch < s'.epoch ∧ s'.now < h.when ∧ s'.stopped = false ∧
    ∃ q dflt, s'.state = some q ∧ c.tbl.timedOf q = some (h.ev, dflt)
  entered : s'.failed = none → s.epoch < s'.epoch

theorem EL.of_frame_idle {c : Cfg} {s s' : St} (f : Frame s s') (hi : Idle s)
    (hinit : s'.failed ≠ none) : EL c s s' :=
  ⟨f.fires, f.now, f.stopped, Nat.le_of_eq f.epoch.symm, .inl (idle_of_frame f hi),
   fun h => absurd h hinit⟩

theorem live_setTimer (s : St) (d : Nat) (ev : TEvent) (hs : s.stopped = false) (hi : live s = []) :
    live (setTimer s d ev) = [{ id := s.nextId, when := s.now + d, ev := ev, epoch := s.epoch }] := by
  unfold live at *
  simp [setTimer, hs, St.emit, List.filter_append, hi]

theorem setTimer_stopped (s : St) (d : Nat) (ev : TEvent) (hs : s.stopped = true) :
    setTimer s d ev = s := by simp [setTimer, hs]

theorem setTimer_fields (s : St) (d : Nat) (ev : TEvent) :
    (setTimer s d ev).now = s.now ∧ (setTimer s d ev).stopped = s.stopped ∧
    (setTimer s d ev).epoch = s.epoch ∧ (setTimer s d ev).state = s.state ∧
    (setTimer s d ev).next = s.next ∧ (setTimer s d ev).failed = s.failed ∧
    (setTimer s d ev).out = s.out ∧
    fires (setTimer s d ev).log = fires s.log := by
  unfold setTimer
  split
  · simp
  · simp [St.emit, fires_append, fires]

theorem setTimer_active (s : St) (d : Nat) (ev : TEvent) (hs : s.stopped = false) :
    (setTimer s d ev).active = some s.nextId := by simp [setTimer, hs, St.emit]

/-- the timer started for the state just entered -/
def Armed (c : Cfg) (s' : St) : Prop :=
  ∃ h, live s' = [h] ∧ s'.active = some h.id ∧ h.epoch = s'.epoch ∧ s'.now < h.when ∧
    s'.stopped = false ∧ ∃ q dflt, s'.state = some q ∧ c.tbl.timedOf q = some (h.ev, dflt)

theorem armed_of_frame {c : Cfg} {s s' : St} (f : Frame s s') (h : Armed c s) : Armed c s' := by
  unfold Armed live at *
  rw [f.timers, f.active, f.epoch, f.now, f.stopped, f.state]; exact h

/-- what one round guarantees when it starts without a pending timer -/
structure ES (c : Cfg) (s s' : St) : Prop where
  fires : fires s'.log = fires s.log
  now : s'.now = s.now
  stopped : s'.stopped = s.stopped
  epoch : s'.epoch = s.epoch + 1
  timer : Idle s' ∨ (Armed c s' ∧ s'.next = none)

theorem startTimer_spec (c : Cfg) (s : St) (q : String) (tev : TEvent) (item : Dur) :
    Frame s (startTimer c s q tev item) ∨
    (s.stopped = false ∧ ∃ n, 0 < n ∧ startTimer c s q tev item = setTimer s n tev) := by
  unfold startTimer
  split
  · exact .inl (frame_fail _ _)
  · exact .inl (frame_fail _ _)
  · exact .inl (Frame.refl _)
  · next d _ =>
    split
    · exact .inl (frame_eventRec _ _ _ _)
    · next hd =>
      cases hs : s.stopped
      · exact .inr ⟨rfl, d.toNat, by omega, rfl⟩
      · rw [setTimer_stopped _ _ _ hs]; exact .inl (Frame.refl _)

theorem enterState_ES (c : Cfg) (s : St) (d : EvData) (q : String) (hi : Idle s) :
    ES c s (enterState c s d q) := by
  unfold enterState
  have f1 := frame_runEnter c (s.enter q) q
  generalize runEnter c (s.enter q) q = s1 at f1
  have hi1 : Idle s1 := idle_of_frame f1 hi
  have base : ES c s s1 := ⟨f1.fires, f1.now, f1.stopped, f1.epoch, .inl hi1⟩
  dsimp only
  split
  · exact base
  · next hn =>
    simp only [Bool.or_eq_true, not_or, Bool.not_eq_true, Option.isSome_eq_false_iff,
      Option.isNone_iff_eq_none] at hn
    split
    · exact base
    · next tev dflt ht =>
      rcases startTimer_spec c s1 q tev d.dur with f2 | ⟨hs, n, hn0, heq⟩
      · exact ⟨f2.fires.trans f1.fires, f2.now.trans f1.now, f2.stopped.trans f1.stopped,
          f2.epoch.trans f1.epoch, .inl (idle_of_frame f2 hi1)⟩
      · rw [heq]
        have hf := setTimer_fields s1 n tev
        refine ⟨hf.2.2.2.2.2.2.2.trans f1.fires, hf.1.trans f1.now, hf.2.1.trans f1.stopped,
          hf.2.2.1.trans f1.epoch, .inr ⟨⟨_, live_setTimer s1 n tev hs hi1.1, ?_, ?_, ?_, ?_, q, dflt, ?_, ht⟩, ?_⟩⟩
        · exact setTimer_active s1 n tev hs
        · exact hf.2.2.1.symm
        · rw [hf.1]; show s1.now < s1.now + n; omega
        · rw [hf.2.1]; exact hs
        · rw [hf.2.2.2.1, f1.state]; rfl
        · rw [hf.2.2.2.2.1]; exact hn.2

theorem frame_exitCur (s : St) : Frame s (exitCur s) := by
  unfold exitCur; split
  · exact frame_emit _ _ rfl
  · exact Frame.refl _

theorem frame_popNext (s : St) (d : EvData) (q : String) : Frame s (popNext s d q).1 := by
  unfold popNext; split
  · exact Frame.trans (b := setCtx (s.setNextEv none) _) ⟨rfl, rfl, rfl, rfl, rfl, rfl, rfl, rfl⟩
      (frame_exitCur _)
  · exact Frame.refl _

theorem enterLoop_EL (c : Cfg) : ∀ (fuel : Nat) (s : St) (d : EvData)
    (q : String), Idle s → EL c s (enterLoop c fuel s d q) := by
  intro fuel
  induction fuel with
  | zero =>
    intro s d q hi
    unfold enterLoop
    exact EL.of_frame_idle (frame_fail _ _) hi (fail_failed _ _)
  | succ n ih =>
    intro s d q hi
    unfold enterLoop
    dsimp only
    have f0 := frame_popNext s d q
    generalize popNext s d q = r at f0 ⊢
    have es := enterState_ES c r.1 r.2.1 r.2.2 (idle_of_frame f0 hi)
    generalize enterState c r.1 r.2.1 r.2.2 = s2 at es ⊢
    have hfires : fires s2.log = fires s.log := es.fires.trans f0.fires
    have hnow : s2.now = s.now := es.now.trans f0.now
    have hstop : s2.stopped = s.stopped := es.stopped.trans f0.stopped
    have hep : s2.epoch = s.epoch + 1 := by rw [es.epoch, f0.epoch]
    split
    · next hf =>
      refine ⟨hfires, hnow, hstop, by omega, ?_, ?_⟩
      · rcases es.timer with h | ⟨⟨h, hl, ha, he, hw, hs, hq⟩, _⟩
        · exact .inl h
        · exact .inr ⟨h, hl, ha, he, by omega, hw, hs, hq⟩
      · intro h; rw [h] at hf; simp at hf
    · split
      · next hnext =>
        have hi2 : Idle s2 := by
          rcases es.timer with h | ⟨_, hnn⟩
          · exact h
          · rw [hnn] at hnext; simp at hnext
        have r' := ih s2 r.2.1 r.2.2 hi2
        refine ⟨r'.fires.trans hfires, r'.now.trans hnow, r'.stopped.trans hstop, ?_, ?_, ?_⟩
        · have := r'.epoch; omega
        · rcases r'.timer with h | ⟨h, hl, ha, he, hlt, hw, hs, hq⟩
          · exact .inl h
          · exact .inr ⟨h, hl, ha, he, by omega, hw, hs, hq⟩
        · intro hfn; have := r'.entered hfn; omega
      · have ff := frame_finish c s2
        refine ⟨ff.fires.trans hfires, ff.now.trans hnow, ff.stopped.trans hstop, ?_, ?_, ?_⟩
        · rw [ff.epoch]; omega
        · rcases es.timer with h | ⟨ha, _⟩
          · exact .inl (idle_of_frame ff h)
          · obtain ⟨h, hl, hact, he, hw, hs, hq⟩ := armed_of_frame ff ha
            exact .inr ⟨h, hl, hact, he, by rw [ff.epoch]; omega, hw, hs, hq⟩
        · intro _; rw [ff.epoch]; omega

/-! ### the invariant -/

/-- the pending timer belongs to the current visit of the current (timed) state -/
def Pending (c : Cfg) (s : St) : Prop :=
  ∃ h, live s = [h] ∧ s.active = some h.id ∧ h.epoch = s.epoch ∧ (s.failed = none → s.now ≤ h.when) ∧
    s.stopped = false ∧ ∃ q dflt, s.state = some q ∧ c.tbl.timedOf q = some (h.ev, dflt)

structure Inv (c : Cfg) (s : St) : Prop where
  timer : Idle s ∨ Pending c s
  undef : s.out.isUndef = true → s.failed = none → Idle s
  logOk : ∀ x ∈ fires s.log, x.2.1.epoch = x.2.2 ∧ x.1 = x.2.1.when ∧ x.2.2 ≤ s.epoch
  below : live s ≠ [] → ∀ x ∈ fires s.log, x.2.2 < s.epoch
  nodup : ((fires s.log).map (·.2.2)).Nodup

theorem inv_init (c : Cfg) : Inv c {} :=
  ⟨.inl ⟨rfl, rfl⟩, fun _ _ => ⟨rfl, rfl⟩, by simp [fires], by simp [fires], by simp [fires]⟩

theorem inv_of_frame {c : Cfg} {s s' : St} (f : Frame s s') (ho : s'.out = s.out)
    (hf : s'.failed = none → s.failed = none) (i : Inv c s) : Inv c s' := by
  have hl : live s' = live s := by unfold live; rw [f.timers]
  refine ⟨?_, ?_, ?_, ?_, ?_⟩
  · rcases i.timer with h | h
    · exact .inl (idle_of_frame f h)
    · right
      obtain ⟨h, h1, h2, h3, h4, h5, h6⟩ := h
      refine ⟨h, by rw [hl]; exact h1, by rw [f.active]; exact h2, by rw [f.epoch]; exact h3,
        fun hn => by rw [f.now]; exact h4 (hf hn), by rw [f.stopped]; exact h5, by rw [f.state]; exact h6⟩
  · intro h1 h2; exact idle_of_frame f (i.undef (ho ▸ h1) (hf h2))
  · rw [f.fires, f.epoch]; exact i.logOk
  · rw [hl, f.fires, f.epoch]; exact i.below
  · rw [f.fires]; exact i.nodup

theorem evalCond_keeps (s : St) (d : EvData) (c : Cond) (s' : St) (b : Bool)
    (h : evalCond s d c = some (s', b)) : s'.out = s.out ∧ s'.failed = s.failed := by
  cases c <;> simp only [evalCond] at h
  · cases h; exact ⟨rfl, rfl⟩
  · cases h; exact ⟨rfl, rfl⟩
  · cases h; exact ⟨rfl, rfl⟩
  · split at h
    · cases h; exact ⟨rfl, rfl⟩
    · cases h

theorem evalConds_keeps (d : EvData) (cs : List Cond) : ∀ (s s' : St) (b : Bool),
    evalConds s d cs = some (s', b) → s'.out = s.out ∧ s'.failed = s.failed := by
  induction cs with
  | nil => intro s s' b h; simp only [evalConds] at h; cases h; exact ⟨rfl, rfl⟩
  | cons c cs ih =>
    intro s s' b h
    simp only [evalConds] at h
    split at h
    · cases h
    · next s1 b1 h1 =>
      split at h
      · cases h
      · next s2 b2 h2 =>
        cases h
        have a := evalCond_keeps s d c s1 b1 h1
        have b := ih s1 _ b2 h2
        exact ⟨b.1.trans a.1, b.2.trans a.2⟩

theorem resolve_keeps (c : Cfg) (s : St) (e : TEvent) (d : EvData) :
    (resolve c s e d).1.out = s.out ∧ (resolve c s e d).1.failed = s.failed := by
  unfold resolve
  split
  · split <;> exact ⟨rfl, rfl⟩
  · split
    · exact ⟨rfl, rfl⟩
    · split
      · exact ⟨rfl, rfl⟩
      · split
        · exact ⟨rfl, rfl⟩
        · split
          · exact ⟨rfl, rfl⟩
          · split
            · exact ⟨rfl, rfl⟩
            · next s' ok h =>
              split <;> exact evalConds_keeps _ _ _ _ _ h

/-- `_stop_timer` under the invariant: nothing is pending afterwards -/
theorem stopTimer_spec {c : Cfg} {s : St} (ht : Idle s ∨ Pending c s) :
    Idle (stopTimer s) ∧ fires (stopTimer s).log = fires s.log ∧ (stopTimer s).now = s.now ∧
    (stopTimer s).epoch = s.epoch ∧ (stopTimer s).stopped = s.stopped ∧
    (stopTimer s).state = s.state ∧ (stopTimer s).out = s.out ∧ (stopTimer s).failed = s.failed := by
  unfold stopTimer
  rcases ht with ⟨hl, ha⟩ | ⟨h, hl, ha, _⟩
  · rw [ha]; exact ⟨⟨hl, ha⟩, rfl, rfl, rfl, rfl, rfl, rfl, rfl⟩
  · rw [ha]
    dsimp only
    have key : live { s with active := none, timers := (s.timers.map
        (fun x => if x.id == h.id then { x with cancelled := true } else x)) } = [] := by
      unfold live at *
      simp only [List.filter_eq_nil_iff, List.mem_map, forall_exists_index, and_imp]
      intro y x hx hy
      subst hy
      by_cases hxc : x.cancelled = true
      · split <;> simp [hxc]
      · have hm : x ∈ List.filter (fun h => !h.cancelled) s.timers := by
          simp [List.mem_filter, hx, hxc]
        rw [hl] at hm
        simp only [List.mem_singleton] at hm
        subst hm
        simp
    split
    · refine ⟨⟨?_, rfl⟩, ?_, rfl, rfl, rfl, rfl, rfl, rfl⟩
      · exact key
      · simp [St.emit, fires_append, fires]
    · exact ⟨⟨key, rfl⟩, rfl, rfl, rfl, rfl, rfl, rfl, rfl⟩

theorem leave_spec {c : Cfg} {s : St} (i : Inv c s) (hf : s.failed = none) :
    Idle (leave s) ∧ fires (leave s).log = fires s.log ∧ (leave s).now = s.now ∧
    (leave s).epoch = s.epoch ∧ (leave s).stopped = s.stopped := by
  unfold leave
  split
  · next hu => exact ⟨i.undef hu hf, rfl, rfl, rfl, rfl⟩
  · split
    · next cur hc =>
      have f : Frame s ((s.emit (.exit cur s.ctx)).emit (.onExit cur)) :=
        (frame_emit _ _ rfl).trans (frame_emit _ _ rfl)
      have i2 : Inv c ((s.emit (.exit cur s.ctx)).emit (.onExit cur)) := inv_of_frame f rfl (fun h => h) i
      have sp := stopTimer_spec i2.timer
      exact ⟨sp.1, sp.2.1.trans f.fires, sp.2.2.1.trans f.now, sp.2.2.2.1.trans f.epoch,
        sp.2.2.2.2.1.trans f.stopped⟩
    · next hn =>
      refine ⟨?_, rfl, rfl, rfl, rfl⟩
      rcases i.timer with h | ⟨_, _, _, _, _, _, q, _, hq, _⟩
      · exact h
      · rw [hq] at hn; cases hn

theorem pending_of_armed {c : Cfg} {s : St} (h : Armed c s) : Pending c s := by
  obtain ⟨h, hl, ha, he, hw, hs, hq⟩ := h
  exact ⟨h, hl, ha, he, fun _ => Nat.le_of_lt hw, hs, hq⟩

/-- the invariant without its clause about an undefined output -/
structure InvW (c : Cfg) (s : St) : Prop where
  timer : Idle s ∨ Pending c s
  logOk : ∀ x ∈ fires s.log, x.2.1.epoch = x.2.2 ∧ x.1 = x.2.1.when ∧ x.2.2 ≤ s.epoch
  below : live s ≠ [] → ∀ x ∈ fires s.log, x.2.2 < s.epoch
  nodup : ((fires s.log).map (·.2.2)).Nodup

theorem Inv.toW {c : Cfg} {s : St} (i : Inv c s) : InvW c s := ⟨i.timer, i.logOk, i.below, i.nodup⟩

theorem InvW.toInv {c : Cfg} {s : St} (w : InvW c s)
    (hu : s.out.isUndef = true → s.failed = none → Idle s) : Inv c s :=
  ⟨w.timer, hu, w.logOk, w.below, w.nodup⟩

theorem invW_fail {c : Cfg} {s : St} (w : InvW c s) (k : ErrKind) : InvW c (s.fail k) := by
  have f := frame_fail s k
  have hl : live (s.fail k) = live s := by unfold live; rw [f.timers]
  refine ⟨?_, ?_, ?_, ?_⟩
  · rcases w.timer with h | ⟨h, h1, h2, h3, _, h5, h6⟩
    · exact .inl (idle_of_frame f h)
    · exact .inr ⟨h, by rw [hl]; exact h1, by rw [f.active]; exact h2, by rw [f.epoch]; exact h3,
        fun hn => absurd hn (fail_failed _ _), by rw [f.stopped]; exact h5, by rw [f.state]; exact h6⟩
  · rw [f.fires, f.epoch]; exact w.logOk
  · rw [hl, f.fires, f.epoch]; exact w.below
  · rw [f.fires]; exact w.nodup

/-- the state after an executed transition -/
theorem invW_of_EL {c : Cfg} {s0 s s' : St} (i : Inv c s0) (hfires : fires s.log = fires s0.log)
    (hep : s.epoch = s0.epoch) (el : EL c s s') : InvW c s' := by
  refine ⟨?_, ?_, ?_, ?_⟩
  · rcases el.timer with h | ⟨h, hl, ha, he, _, hw, hs, hq⟩
    · exact .inl h
    · exact .inr ⟨h, hl, ha, he, fun _ => Nat.le_of_lt hw, hs, hq⟩
  · rw [el.fires, hfires]
    intro x hx
    have := i.logOk x hx
    have := el.epoch
    exact ⟨by omega, by omega, by omega⟩
  · intro hne
    rw [el.fires, hfires]
    intro x hx
    have h1 := (i.logOk x hx).2.2
    rcases el.timer with ⟨hl, _⟩ | ⟨h, _, _, _, hlt, _⟩
    · exact absurd hl hne
    · omega
  · rw [el.fires, hfires]; exact i.nodup

/-- what `_ctx_event` (from outside) does -/
theorem ctxEvent_spec {c : Cfg} {s : St} (i : Inv c s) (hf : s.failed = none) (e : TEvent) (d : EvData) :
    InvW c (ctxEvent c s e d).1 ∧
    fires (ctxEvent c s e d).1.log = fires s.log ∧ (ctxEvent c s e d).1.now = s.now ∧
    (ctxEvent c s e d).1.stopped = s.stopped ∧ s.epoch ≤ (ctxEvent c s e d).1.epoch ∧
    ((ctxEvent c s e d).2 = .ret true → s.epoch < (ctxEvent c s e d).1.epoch) ∧
    ((ctxEvent c s e d).2 = .ret false → Frame s (ctxEvent c s e d).1) ∧
    ((ctxEvent c s e d).2 = .ret true ∨ (ctxEvent c s e d).1.failed ≠ none ∨
      ((ctxEvent c s e d).1.out = s.out ∧ (ctxEvent c s e d).1.failed = s.failed ∧
        Frame s (ctxEvent c s e d).1)) := by
  unfold ctxEvent
  have fr := (frame_setCtx s d).trans (frame_resolve c (setCtx s d) e d)
  have kp := resolve_keeps c (setCtx s d) e d
  have ko : (resolve c (setCtx s d) e d).1.out = s.out := kp.1
  have kf : (resolve c (setCtx s d) e d).1.failed = s.failed := kp.2
  have i1 : Inv c (resolve c (setCtx s d) e d).1 :=
    inv_of_frame fr ko (fun h => by rw [kf] at h; exact h) i
  have hf1 : (resolve c (setCtx s d) e d).1.failed = none := by rw [kf]; exact hf
  split
  · next s1 heq =>
    rw [heq] at fr i1 ko kf
    exact ⟨i1.toW, fr.fires, fr.now, fr.stopped, Nat.le_of_eq fr.epoch.symm, by simp, by simp,
      .inr (.inr ⟨ko, kf, fr⟩)⟩
  · next s1 k heq =>
    rw [heq] at fr i1
    have f2 := fr.trans (frame_fail s1 k)
    exact ⟨invW_fail i1.toW k, f2.fires, f2.now, f2.stopped, Nat.le_of_eq f2.epoch.symm, by simp, by simp,
      .inr (.inl (fail_failed _ _))⟩
  · next s1 heq =>
    rw [heq] at fr i1 ko kf
    exact ⟨i1.toW, fr.fires, fr.now, fr.stopped, Nat.le_of_eq fr.epoch.symm, by simp, fun _ => fr,
      .inr (.inr ⟨ko, kf, fr⟩)⟩
  · next s1 q heq =>
    rw [heq] at i1 hf1 fr
    have lv := leave_spec i1 hf1
    have el := enterLoop_EL c c.tbl.chainLimit (leave s1) d q lv.1
    have w2 := invW_of_EL i1 lv.2.1 lv.2.2.2.1 el
    dsimp only
    have h1 : fires (enterLoop c c.tbl.chainLimit (leave s1) d q).log = fires s.log :=
      el.fires.trans (lv.2.1.trans fr.fires)
    have h2 : (enterLoop c c.tbl.chainLimit (leave s1) d q).now = s.now :=
      el.now.trans (lv.2.2.1.trans fr.now)
    have h3 : (enterLoop c c.tbl.chainLimit (leave s1) d q).stopped = s.stopped :=
      el.stopped.trans (lv.2.2.2.2.trans fr.stopped)
    have h4 : s.epoch ≤ (enterLoop c c.tbl.chainLimit (leave s1) d q).epoch := by
      have := el.epoch; rw [lv.2.2.2.1, fr.epoch] at this; exact this
    split
    · next k hk => exact ⟨w2, h1, h2, h3, h4, by simp, by simp, .inr (.inl (by rw [hk]; simp))⟩
    · next hnf =>
      refine ⟨w2, h1, h2, h3, h4, fun _ => ?_, by simp, .inl rfl⟩
      have := el.entered hnf; rw [lv.2.2.2.1, fr.epoch] at this; exact this

theorem deliver_eq (c : Cfg) (s : St) (e : TEvent) (d : EvData) :
    (deliver c s e d = ctxEvent c s e d ∧
      ((ctxEvent c s e d).2 = .ret true → (ctxEvent c s e d).1.out.isUndef = false)) ∨
    ((ctxEvent c s e d).2 = .ret true ∧ (ctxEvent c s e d).1.out.isUndef = true ∧
      deliver c s e d = ((ctxEvent c s e d).1.fail .circuitError, .err .circuitError)) := by
  unfold deliver
  generalize ctxEvent c s e d = r
  obtain ⟨s2, res⟩ := r
  cases res with
  | ret b =>
    cases b with
    | true =>
      by_cases hu : s2.out.isUndef = true
      · exact .inr ⟨rfl, hu, by simp [hu]⟩
      · left; simp only [hu]; exact ⟨by simp, fun _ => by simp⟩
    | false => exact .inl ⟨rfl, by simp⟩
  | unknown => exact .inl ⟨rfl, by simp⟩
  | err k => exact .inl ⟨rfl, by simp⟩
  | aborted => exact .inl ⟨rfl, by simp⟩

theorem inv_deliver {c : Cfg} {s : St} (i : Inv c s) (hf : s.failed = none) (e : TEvent) (d : EvData) :
    Inv c (deliver c s e d).1 := by
  have sp := ctxEvent_spec i hf e d
  rcases deliver_eq c s e d with ⟨heq, hdef⟩ | ⟨_, _, heq⟩
  · rw [heq]
    refine sp.1.toInv ?_
    intro hu hfn
    rcases sp.2.2.2.2.2.2.2 with h | h | ⟨ho, hfl, fr⟩
    · rw [hdef h] at hu; cases hu
    · exact absurd hfn h
    · exact idle_of_frame fr (i.undef (ho ▸ hu) (hfl ▸ hfn))
  · rw [heq]
    exact (invW_fail sp.1 _).toInv (fun _ h => absurd h (fail_failed _ _))

theorem live_popTimer (s : St) (h : Handle) (hl : live s = [h]) : live (popTimer s h) = [] := by
  unfold live popTimer at *
  simp only []
  rw [List.filter_filter]
  have : (List.filter (fun a => (!a.cancelled && a.id != h.id)) s.timers) =
      List.filter (fun a => a.id != h.id) (List.filter (fun a => !a.cancelled) s.timers) := by
    rw [List.filter_filter]
    congr 1; funext a; exact Bool.and_comm _ _
  rw [this, hl]
  simp

theorem inv_popTimer {c : Cfg} {s : St} (i : Inv c s) (hf : s.failed = none) (h : Handle)
    (hm : h ∈ live s) : Inv c (popTimer s h) ∧ Idle (popTimer s h) := by
  rcases i.timer with ⟨hl, _⟩ | ⟨h', hl, ha, he, hw, hs, hq⟩
  · rw [hl] at hm; cases hm
  · rw [hl] at hm
    simp only [List.mem_singleton] at hm
    subst hm
    have hidle := live_popTimer s h hl
    have hnow : (if s.now < h.when then h.when else s.now) = h.when := by
      have := hw hf
      split <;> omega
    have hbelow := i.below (by rw [hl]; simp)
    refine ⟨⟨.inl ⟨hidle, rfl⟩, fun _ _ => ⟨hidle, rfl⟩, ?_, ?_, ?_⟩, ⟨hidle, rfl⟩⟩
    · simp only [popTimer, fires_append, fires, List.mem_append, List.mem_singleton]
      intro x hx
      rcases hx with hx | hx
      · exact i.logOk x hx
      · subst hx; exact ⟨he, hnow, Nat.le_refl _⟩
    · intro hne; exact absurd hidle hne
    · simp only [popTimer, fires_append, fires, List.map_append, List.map_cons, List.map_nil]
      rw [List.nodup_append]
      refine ⟨i.nodup, by simp, ?_⟩
      intro a ha b hb
      simp only [List.mem_singleton] at hb
      subst hb
      simp only [List.mem_map] at ha
      obtain ⟨x, hx, rfl⟩ := ha
      have := hbelow x hx
      omega

theorem inv_fire {c : Cfg} {s : St} (i : Inv c s) (hf : s.failed = none) (h : Handle)
    (hm : h ∈ live s) : Inv c (fire c s h) :=
  inv_deliver (inv_popTimer i hf h hm).1 hf _ _

/-! ### the clock -/

theorem earliest_mem : ∀ (l : List Handle) (h : Handle), earliest l = some h → h ∈ l := by
  intro l
  induction l with
  | nil => intro h hh; simp [earliest] at hh
  | cons x xs ih =>
    intro h hh
    simp only [earliest] at hh
    split at hh
    · cases hh; simp
    · next b hb =>
      split at hh
      · cases hh; exact List.mem_cons_of_mem _ (ih _ hb)
      · cases hh; simp

theorem earliest_none : ∀ (l : List Handle), earliest l = none → l = [] := by
  intro l
  cases l with
  | nil => intro _; rfl
  | cons x xs =>
    intro h
    simp only [earliest] at h
    split at h
    · cases h
    · split at h <;> cases h

theorem nextDue_mem (s : St) (t : Nat) (strict : Bool) (h : Handle) (hd : nextDue s t strict = some h) :
    h ∈ live s ∧ isDue t strict h = true := by
  unfold nextDue at hd
  have := earliest_mem _ _ hd
  simpa [List.mem_filter] using this

theorem nextDue_none (s : St) (t : Nat) (strict : Bool) (hd : nextDue s t strict = none) :
    ∀ h ∈ live s, isDue t strict h = false := by
  unfold nextDue at hd
  have := earliest_none _ hd
  intro h hm
  rw [List.filter_eq_nil_iff] at this
  simpa using this h hm

theorem inv_setNow {c : Cfg} {s : St} (i : Inv c s) (t : Nat)
    (hd : ∀ h ∈ live s, t ≤ h.when) : Inv c { s with now := if s.now < t then t else s.now } := by
  refine ⟨?_, i.undef, i.logOk, i.below, i.nodup⟩
  rcases i.timer with h | ⟨h, hl, ha, he, hw, hs, hq⟩
  · exact .inl h
  · refine .inr ⟨h, hl, ha, he, ?_, hs, hq⟩
    intro hf
    have := hd h (by rw [hl]; simp)
    have := hw hf
    show (if s.now < t then t else s.now) ≤ h.when
    split <;> omega

theorem inv_advanceAux (c : Cfg) (t : Nat) (strict : Bool) : ∀ (fuel : Nat) (s : St),
    Inv c s → Inv c (advanceAux c fuel s t strict) := by
  intro fuel
  induction fuel with
  | zero =>
    intro s i
    unfold advanceAux
    exact inv_of_frame (frame_fail _ _) (fail_out _ _) (fun h => absurd h (fail_failed _ _)) i
  | succ n ih =>
    intro s i
    unfold advanceAux
    split
    · exact i
    · next hf =>
      have hf' : s.failed = none := by
        cases h : s.failed with
        | none => rfl
        | some k => rw [h] at hf; simp at hf
      split
      · next hd =>
        apply inv_setNow i
        intro h hm
        have := nextDue_none s t strict hd h hm
        unfold isDue at this
        split at this
        · have := of_decide_eq_false this; omega
        · have := of_decide_eq_false this; omega
      · next h hd =>
        exact ih _ (inv_fire i hf' h (nextDue_mem s t strict h hd).1)

theorem inv_advance {c : Cfg} {s : St} (i : Inv c s) (t : Nat) (strict : Bool) :
    Inv c (advance c s t strict) := inv_advanceAux c t strict _ s i

theorem inv_stop {c : Cfg} {s : St} (i : Inv c s) : Inv c (stop s) ∧ Idle (stop s) := by
  have sp := stopTimer_spec i.timer
  have hidle : Idle (stop s) := sp.1
  have hlive : live (stop s) = [] := hidle.1
  refine ⟨⟨.inl hidle, fun _ _ => hidle, ?_, ?_, ?_⟩, hidle⟩
  · show ∀ x ∈ fires (stopTimer s).log, _ ∧ _ ∧ x.2.2 ≤ (stopTimer s).epoch
    rw [sp.2.1, sp.2.2.2.1]; exact i.logOk
  · intro hne; exact absurd hlive hne
  · show ((fires (stopTimer s).log).map (·.2.2)).Nodup
    rw [sp.2.1]; exact i.nodup

theorem isSome_false_none {α : Type} {o : Option α} (h : ¬ o.isSome = true) : o = none := by
  cases o with
  | none => rfl
  | some _ => simp at h

/-! ### `_restore_state` -/

theorem invW_of_frame {c : Cfg} {s s' : St} (f : Frame s s')
    (hf : s'.failed = none → s.failed = none) (w : InvW c s) : InvW c s' := by
  have hl : live s' = live s := by unfold live; rw [f.timers]
  refine ⟨?_, ?_, ?_, ?_⟩
  · rcases w.timer with h | h
    · exact .inl (idle_of_frame f h)
    · right
      obtain ⟨h, h1, h2, h3, h4, h5, h6⟩ := h
      refine ⟨h, by rw [hl]; exact h1, by rw [f.active]; exact h2, by rw [f.epoch]; exact h3,
        fun hn => by rw [f.now]; exact h4 (hf hn), by rw [f.stopped]; exact h5, by rw [f.state]; exact h6⟩
  · rw [f.fires, f.epoch]; exact w.logOk
  · rw [hl, f.fires, f.epoch]; exact w.below
  · rw [f.fires]; exact w.nodup

theorem setOut_defined (s : St) (v : Val) (hu : s.out.isUndef = true) (hv : v.isUndef = false) :
    (setOut s v).out = v ∧ (setOut s v).failed = s.failed ∧ (setOut s v).next = s.next := by
  have hp : s.out.pyEq v = false := by
    cases ho : s.out <;> simp [ho, Val.isUndef] at hu
    cases v <;> simp [Val.isUndef] at hv <;> rfl
  simp [setOut, hv, hp, St.emit]

/-- the end of `_restore_state` on a block without timer whose past visits are all older than the current one:
    a timer exists afterwards only together with an output -/
theorem restoreTail_spec {c : Cfg} {s : St} (w : InvW c s) (hi : Idle s) (hu : s.out.isUndef = true)
    (hlog : ∀ x ∈ fires s.log, x.2.2 < s.epoch) (arm : Option (Nat × TEvent)) (m : CalcMode)
    (harm : ∀ d ev, arm = some (d, ev) → ∃ q dflt, s.state = some q ∧ c.tbl.timedOf q = some (ev, dflt)) :
    Inv c (restoreTail c s arm m).1 ∧ (restoreTail c s arm m).1.stopped = s.stopped ∧
    fires (restoreTail c s arm m).1.log = fires s.log ∧ (restoreTail c s arm m).1.failed = s.failed ∧
    (restoreTail c s arm m).1.next = s.next ∧ (restoreTail c s arm m).1.state = s.state ∧
    (restoreTail c s arm m).1.now = s.now ∧
    ((restoreTail c s arm m).1.out.isUndef = true → (restoreTail c s arm m).1 = s) := by
  have base : Inv c s := w.toInv (fun _ _ => hi)
  unfold restoreTail
  split
  · exact ⟨base, rfl, rfl, rfl, rfl, rfl, rfl, fun _ => rfl⟩
  · next v _ =>
    split
    · exact ⟨base, rfl, rfl, rfl, rfl, rfl, rfl, fun _ => rfl⟩
    · next hv =>
      have hv' : v.isUndef = false := by simpa using hv
      dsimp only
      -- the state with the timer started
      have key : ∀ s2 : St, InvW c s2 → s2.out = s.out → s2.stopped = s.stopped → fires s2.log = fires s.log →
          s2.failed = s.failed → s2.next = s.next → s2.state = s.state → s2.now = s.now →
          Inv c (setOut s2 v) ∧ (setOut s2 v).stopped = s.stopped ∧ fires (setOut s2 v).log = fires s.log ∧
          (setOut s2 v).failed = s.failed ∧ (setOut s2 v).next = s.next ∧ (setOut s2 v).state = s.state ∧
          (setOut s2 v).now = s.now ∧ ((setOut s2 v).out.isUndef = true → setOut s2 v = s) := by
        intro s2 w2 ho hst hfi hfa hnx hsta hnow
        have f := frame_setOut s2 v
        have so := setOut_defined s2 v (by rw [ho]; exact hu) hv'
        have hdef : (setOut s2 v).out.isUndef = false := by rw [so.1]; exact hv'
        refine ⟨(invW_of_frame f (fun h => by rw [← so.2.1]; exact h) w2).toInv
            (fun h => by rw [hdef] at h; cases h), f.stopped.trans hst, f.fires.trans hfi, so.2.1.trans hfa,
          so.2.2.trans hnx, f.state.trans hsta, f.now.trans hnow, fun h => by rw [hdef] at h; cases h⟩
      cases arm with
      | none => exact key s w rfl rfl rfl rfl rfl rfl rfl
      | some de =>
        obtain ⟨d, ev⟩ := de
        dsimp only
        rcases Bool.eq_false_or_eq_true s.stopped with hs | hs
        · rw [setTimer_stopped _ _ _ hs]; exact key s w rfl rfl rfl rfl rfl rfl rfl
        · have sf := setTimer_fields s d ev
          have sl := live_setTimer s d ev hs hi.1
          have sa := setTimer_active s d ev hs
          obtain ⟨q, dflt, hq, ht⟩ := harm d ev rfl
          refine key (setTimer s d ev) ⟨.inr ⟨_, sl, sa, sf.2.2.1.symm, fun _ => ?_, sf.2.1.trans hs, q, dflt,
              sf.2.2.2.1.trans hq, ht⟩, ?_, ?_, ?_⟩ sf.2.2.2.2.2.2.1 sf.2.1 sf.2.2.2.2.2.2.2
            sf.2.2.2.2.2.1 sf.2.2.2.2.1 sf.2.2.2.1 sf.1
          · rw [sf.1]; show s.now ≤ s.now + d; omega
          · rw [sf.2.2.2.2.2.2.2, sf.2.2.1]; exact w.logOk
          · intro _; rw [sf.2.2.2.2.2.2.2, sf.2.2.1]; exact hlog
          · rw [sf.2.2.2.2.2.2.2]; exact w.nodup

/-- `_restore_state` on a block that is not initialised -/
theorem restore_spec {c : Cfg} {s : St} (i : Inv c s) (hf : s.failed = none) (hu : s.out.isUndef = true)
    (q : String) (exp : Option Nat) (sd : Option Val) (m : CalcMode) :
    Inv c (restore c s q exp sd m).1 ∧ (restore c s q exp sd m).1.stopped = s.stopped ∧
    fires (restore c s q exp sd m).1.log = fires s.log ∧ (restore c s q exp sd m).1.failed = none ∧
    (restore c s q exp sd m).1.next = s.next ∧ (restore c s q exp sd m).1.now = s.now ∧
    ((restore c s q exp sd m).1.out.isUndef = false → (restore c s q exp sd m).1.state = some q) ∧
    ((restore c s q exp sd m).1.out.isUndef = true → Idle (restore c s q exp sd m).1) := by
  have hi : Idle s := i.undef hu hf
  have same : Inv c s ∧ s.stopped = s.stopped ∧ fires s.log = fires s.log ∧ s.failed = none ∧ s.next = s.next ∧
      s.now = s.now ∧ (s.out.isUndef = false → s.state = some q) ∧ (s.out.isUndef = true → Idle s) := by
    refine ⟨i, rfl, rfl, hf, rfl, rfl, ?_, fun _ => hi⟩
    intro h; rw [hu] at h; cases h
  -- the block with `_state` and `sdata` assigned
  have w1 : InvW c ((s.enter q).setInput sd) := by
    refine ⟨.inl hi, ?_, ?_, i.nodup⟩
    · intro x hx
      have := i.logOk x hx
      exact ⟨this.1, this.2.1, Nat.le_succ_of_le this.2.2⟩
    · intro hl; exact absurd hi.1 hl
  have hlog1 : ∀ x ∈ fires ((s.enter q).setInput sd).log,
      x.2.2 < ((s.enter q).setInput sd).epoch := by
    intro x hx
    exact Nat.lt_succ_of_le (i.logOk x hx).2.2
  have tail : ∀ arm : Option (Nat × TEvent),
      (∀ d ev, arm = some (d, ev) → ∃ dflt, c.tbl.timedOf q = some (ev, dflt)) →
      Inv c (restoreTail c ((s.enter q).setInput sd) arm m).1 ∧
      (restoreTail c ((s.enter q).setInput sd) arm m).1.stopped = s.stopped ∧
      fires (restoreTail c ((s.enter q).setInput sd) arm m).1.log = fires s.log ∧
      (restoreTail c ((s.enter q).setInput sd) arm m).1.failed = none ∧
      (restoreTail c ((s.enter q).setInput sd) arm m).1.next = s.next ∧
      (restoreTail c ((s.enter q).setInput sd) arm m).1.now = s.now ∧
      ((restoreTail c ((s.enter q).setInput sd) arm m).1.out.isUndef = false →
        (restoreTail c ((s.enter q).setInput sd) arm m).1.state = some q) ∧
      ((restoreTail c ((s.enter q).setInput sd) arm m).1.out.isUndef = true →
        Idle (restoreTail c ((s.enter q).setInput sd) arm m).1) := by
    intro arm harm
    have sp := restoreTail_spec w1 hi hu hlog1 arm m
      (fun d ev h => by obtain ⟨dflt, hd⟩ := harm d ev h; exact ⟨q, dflt, rfl, hd⟩)
    exact ⟨sp.1, sp.2.1, sp.2.2.1, sp.2.2.2.1.trans hf, sp.2.2.2.2.1, sp.2.2.2.2.2.2.1,
      fun _ => sp.2.2.2.2.2.1, fun h => sp.1.undef h (sp.2.2.2.1.trans hf)⟩
  unfold restore
  split
  · exact same
  · split
    · exact tail none (fun _ _ h => by cases h)
    · next t =>
      split
      · exact same
      · split
        · exact same
        · next ev dflt ht =>
          exact tail (some (t - s.now, ev)) (fun d e h => by cases h; exact ⟨dflt, ht⟩)

theorem inv_step {c : Cfg} {s : St} (i : Inv c s) (op : Op) : Inv c (step c s op).1 := by
  cases op with
  | stop => exact (inv_stop i).1
  | restore q exp sd m =>
    simp only [step]
    split
    · exact i
    · next h =>
      simp only [Bool.or_eq_true, Bool.not_eq_true', not_or, Bool.not_eq_false] at h
      exact (restore_spec i (isSome_false_none h.1) h.2 q exp sd m).1
  | advance t =>
    simp only [step]
    split
    · next hfl =>
      refine ⟨?_, i.undef, i.logOk, i.below, i.nodup⟩
      rcases i.timer with h | ⟨h, hl, ha, he, hw, hs, hq⟩
      · exact .inl h
      · refine .inr ⟨h, hl, ha, he, ?_, hs, hq⟩
        intro hn
        have : s.failed = none := hn
        rw [this] at hfl; simp at hfl
    · exact inv_advance i t false
  | gate b =>
    show Inv c { s with gate := b }
    exact inv_of_frame (s := s) ⟨rfl, rfl, rfl, rfl, rfl, rfl, rfl, rfl⟩ rfl (fun h => h) i
  | init =>
    simp only [step]
    split
    · exact i
    · next hf =>
      unfold initOp
      exact inv_deliver (s := { s with input := c.initInput })
        (inv_of_frame (s := s) ⟨rfl, rfl, rfl, rfl, rfl, rfl, rfl, rfl⟩ rfl (fun h => h) i)
        (isSome_false_none hf) _ _
  | ev t pl e d =>
    simp only [step]
    split
    · exact i
    · have i1 := inv_advance i t (pl == .before)
      split
      · exact i1
      · next hf => exact inv_deliver i1 (isSome_false_none hf) _ _

/-- what one delivered event does to the clock-related fields -/
theorem deliver_spec {c : Cfg} {s : St} (i : Inv c s) (hf : s.failed = none) (e : TEvent) (d : EvData) :
    fires (deliver c s e d).1.log = fires s.log ∧ (deliver c s e d).1.now = s.now ∧
    (deliver c s e d).1.stopped = s.stopped ∧ s.epoch ≤ (deliver c s e d).1.epoch ∧
    ((deliver c s e d).2 = .ret true → s.epoch < (deliver c s e d).1.epoch) ∧
    ((deliver c s e d).2 = .ret false → Frame s (deliver c s e d).1) := by
  have sp := ctxEvent_spec i hf e d
  rcases deliver_eq c s e d with ⟨heq, _⟩ | ⟨_, _, heq⟩
  · rw [heq]; exact ⟨sp.2.1, sp.2.2.1, sp.2.2.2.1, sp.2.2.2.2.1, sp.2.2.2.2.2.1, sp.2.2.2.2.2.2.1⟩
  · rw [heq]
    have f := frame_fail (ctxEvent c s e d).1 .circuitError
    exact ⟨f.fires.trans sp.2.1, f.now.trans sp.2.2.1, f.stopped.trans sp.2.2.2.1,
      by rw [f.epoch]; exact sp.2.2.2.2.1, by simp, by simp⟩

theorem idle_of_stopped {c : Cfg} {s : St} (i : Inv c s) (hs : s.stopped = true) : Idle s := by
  rcases i.timer with h | ⟨_, _, _, _, _, hst, _⟩
  · exact h
  · rw [hs] at hst; cases hst

theorem advanceAux_idle (c : Cfg) (t : Nat) (strict : Bool) (fuel : Nat) (s : St) (hi : Idle s) :
    fires (advanceAux c fuel s t strict).log = fires s.log ∧
    (advanceAux c fuel s t strict).stopped = s.stopped := by
  cases fuel with
  | zero => unfold advanceAux; exact ⟨(frame_fail _ _).fires, (frame_fail _ _).stopped⟩
  | succ n =>
    unfold advanceAux
    split
    · exact ⟨rfl, rfl⟩
    · have : nextDue s t strict = none := by unfold nextDue; rw [hi.1]; rfl
      rw [this]; exact ⟨rfl, rfl⟩

/-- after `stop()` no operation delivers a timed event -/
theorem step_stopped {c : Cfg} {s : St} (i : Inv c s) (hs : s.stopped = true) (op : Op) :
    (step c s op).1.stopped = true ∧ fires (step c s op).1.log = fires s.log := by
  have hi := idle_of_stopped i hs
  cases op with
  | stop => exact ⟨rfl, (stopTimer_spec i.timer).2.1⟩
  | restore q exp sd m =>
    simp only [step]
    split
    · exact ⟨hs, rfl⟩
    · next h =>
      simp only [Bool.or_eq_true, Bool.not_eq_true', not_or, Bool.not_eq_false] at h
      have sp := restore_spec i (isSome_false_none h.1) h.2 q exp sd m
      exact ⟨sp.2.1.trans hs, sp.2.2.1⟩
  | gate b => exact ⟨hs, rfl⟩
  | advance t =>
    simp only [step]
    split
    · exact ⟨hs, rfl⟩
    · have := advanceAux_idle c t false ((t - s.now) + s.timers.length + 2) s hi
      exact ⟨this.2.trans hs, this.1⟩
  | init =>
    simp only [step]
    split
    · exact ⟨hs, rfl⟩
    · next hf =>
      unfold initOp
      have sp := deliver_spec (s := { s with input := c.initInput })
        (inv_of_frame (s := s) ⟨rfl, rfl, rfl, rfl, rfl, rfl, rfl, rfl⟩ rfl (fun h => h) i)
        (isSome_false_none hf) (.goto c.initState) {}
      exact ⟨sp.2.2.1.trans hs, sp.1⟩
  | ev t pl e d =>
    simp only [step]
    split
    · exact ⟨hs, rfl⟩
    · have a := advanceAux_idle c t (pl == .before) ((t - s.now) + s.timers.length + 2) s hi
      have i1 := inv_advance i t (pl == .before)
      split
      · exact ⟨a.2.trans hs, a.1⟩
      · next hf =>
        have sp := deliver_spec i1 (isSome_false_none hf) e d
        exact ⟨sp.2.2.1.trans (a.2.trans hs), sp.1.trans a.1⟩

theorem run_stopped (c : Cfg) : ∀ (ops : List Op) (s : St), Inv c s → s.stopped = true →
    (run c s ops).stopped = true ∧ fires (run c s ops).log = fires s.log := by
  intro ops
  induction ops with
  | nil => intro s _ hs; exact ⟨hs, rfl⟩
  | cons op ops ih =>
    intro s i hs
    have st := step_stopped i hs op
    have r := ih _ (inv_step i op) st.1
    exact ⟨r.1, r.2.trans st.2⟩

/-! ### get_state, rejected timed events, liveness -/

theorem getState_some {c : Cfg} {s : St} (i : Inv c s) (q : String) (w : Nat)
    (h : getState s = some (q, some w)) : ∃ hd, live s = [hd] ∧ hd.when = w ∧ s.active = some hd.id := by
  unfold getState at h
  split at h
  · cases h
  · next q' hq =>
    simp only [Option.some.injEq, Prod.mk.injEq] at h
    obtain ⟨_, h⟩ := h
    split at h
    · cases h
    · next id ha =>
      unfold liveHandle at h
      cases hx : s.timers.find? (fun h => h.id == id && !h.cancelled) with
      | none => rw [hx] at h; cases h
      | some x =>
        rw [hx] at h
        simp only [Option.map_some, Option.some.injEq] at h
        have hmem : x ∈ s.timers := List.mem_of_find?_eq_some hx
        have hp := List.find?_some hx
        have hc : x.cancelled = false := by
          simp only [Bool.and_eq_true, Bool.not_eq_true'] at hp; exact hp.2
        have hlive : x ∈ live s := by
          unfold live; simp [List.mem_filter, hmem, hc]
        rcases i.timer with ⟨hl, _⟩ | ⟨hd, hl, hact, _⟩
        · rw [hl] at hlive; cases hlive
        · rw [hl] at hlive
          simp only [List.mem_singleton] at hlive
          subst hlive
          exact ⟨x, hl, h, hact⟩

theorem getState_idle {s : St} (hi : Idle s) (q : String) (hq : s.state = some q) :
    getState s = some (q, none) := by
  unfold getState
  rw [hq, hi.2]

theorem fire_rejected {c : Cfg} {s : St} (i : Inv c s) (hf : s.failed = none) (h : Handle)
    (hm : h ∈ live s) (hr : (deliver c (popTimer s h) h.ev {}).2 = .ret false) :
    Idle (fire c s h) ∧ (fire c s h).state = s.state ∧ (fire c s h).epoch = s.epoch := by
  have ip := inv_popTimer i hf h hm
  have sp := deliver_spec ip.1 hf h.ev {}
  have fr := sp.2.2.2.2.2 hr
  exact ⟨idle_of_frame fr ip.2, fr.state, fr.epoch⟩

theorem deliver_accepted {c : Cfg} {s : St} (i : Inv c s) (hf : s.failed = none) (e : TEvent)
    (d : EvData) (h : Handle) (hm : h ∈ live s) (hr : (deliver c s e d).2 = .ret true) :
    h ∉ live (deliver c s e d).1 ∧ ∀ h' ∈ live (deliver c s e d).1, h.epoch < h'.epoch := by
  have sp := deliver_spec i hf e d
  have i2 := inv_deliver i hf e d
  have hep : h.epoch = s.epoch := by
    rcases i.timer with ⟨hl, _⟩ | ⟨h0, hl, _, he, _⟩
    · rw [hl] at hm; cases hm
    · rw [hl] at hm; simp only [List.mem_singleton] at hm; subst hm; exact he
  have key : ∀ h' ∈ live (deliver c s e d).1, h.epoch < h'.epoch := by
    intro h' hm'
    rcases i2.timer with ⟨hl, _⟩ | ⟨h0, hl, _, he, _⟩
    · rw [hl] at hm'; cases hm'
    · rw [hl] at hm'; simp only [List.mem_singleton] at hm'; subst hm'
      have := sp.2.2.2.2.1 hr
      omega
  exact ⟨fun hin => Nat.lt_irrefl _ (key h hin), key⟩

theorem fires_popTimer (s : St) (h : Handle) :
    fires (popTimer s h).log =
      fires s.log ++ [(if s.now < h.when then h.when else s.now, h, s.epoch)] := by
  simp [popTimer, fires_append, fires]

theorem fires_fire {c : Cfg} {s : St} (i : Inv c s) (hf : s.failed = none) (h : Handle)
    (hm : h ∈ live s) :
    fires (fire c s h).log = fires s.log ++ [(h.when, h, s.epoch)] := by
  have ip := inv_popTimer i hf h hm
  have sp := deliver_spec ip.1 hf h.ev {}
  unfold fire
  rw [sp.1, fires_popTimer]
  have hw : s.now ≤ h.when := by
    rcases i.timer with ⟨hl, _⟩ | ⟨h0, hl, _, _, hw, _⟩
    · rw [hl] at hm; cases hm
    · rw [hl] at hm; simp only [List.mem_singleton] at hm; subst hm; exact hw hf
  have : (if s.now < h.when then h.when else s.now) = h.when := by split <;> omega
  rw [this]

theorem fires_mono_advanceAux (c : Cfg) (t : Nat) (strict : Bool) : ∀ (fuel : Nat) (s : St),
    Inv c s → ∀ x ∈ fires s.log, x ∈ fires (advanceAux c fuel s t strict).log := by
  intro fuel
  induction fuel with
  | zero => intro s _ x hx; unfold advanceAux; rw [(frame_fail _ _).fires]; exact hx
  | succ n ih =>
    intro s i x hx
    unfold advanceAux
    split
    · exact hx
    · next hf =>
      split
      · exact hx
      · next h hd =>
        have hm := (nextDue_mem s t strict h hd).1
        have hf' := isSome_false_none hf
        apply ih _ (inv_fire i hf' h hm)
        rw [fires_fire i hf' h hm]
        exact List.mem_append_left _ hx

/-- the pending timer fires, at its time, when the clock passes it -/
theorem advance_fires {c : Cfg} {s : St} (i : Inv c s) (hf : s.failed = none) (h : Handle)
    (hl : live s = [h]) (t : Nat) (strict : Bool) (hd : isDue t strict h = true) :
    (h.when, h, s.epoch) ∈ fires (advance c s t strict).log := by
  unfold advance
  show _ ∈ fires (advanceAux c (((t - s.now) + s.timers.length + 1) + 1) s t strict).log
  unfold advanceAux
  have hnd : nextDue s t strict = some h := by
    unfold nextDue; rw [hl]; simp [hd, earliest]
  have hm : h ∈ live s := by rw [hl]; simp
  rw [hf, hnd]
  simp only [Option.isSome_none, Bool.false_eq_true, ↓reduceIte]
  apply fires_mono_advanceAux c t strict _ _ (inv_fire i hf h hm)
  rw [fires_fire i hf h hm]
  simp

theorem inv_run (c : Cfg) : ∀ (ops : List Op) (s : St), Inv c s → Inv c (run c s ops) := by
  intro ops
  induction ops with
  | nil => intro s i; exact i
  | cons op ops ih => intro s i; exact ih _ (inv_step i op)

/-! ### what `_ctx_event` may assume about the block (used by the tie to the translated source) -/

/-- between events of a running simulation: no chained event is pending, and an initialised
    block has a state -/
def Quiet (s : St) : Prop :=
  s.failed = none → (s.next = none ∧ (s.out.isUndef = false → s.state ≠ none))

theorem evalCond_fields (s : St) (d : EvData) (cd : Cond) (s' : St) (b : Bool)
    (h : evalCond s d cd = some (s', b)) : s'.next = s.next ∧ s'.state = s.state := by
  cases cd <;> simp only [evalCond] at h
  · cases h; exact ⟨rfl, rfl⟩
  · cases h; exact ⟨rfl, rfl⟩
  · cases h; exact ⟨rfl, rfl⟩
  · split at h
    · cases h; exact ⟨rfl, rfl⟩
    · cases h

theorem evalConds_fields (d : EvData) (cs : List Cond) : ∀ (s s' : St) (b : Bool),
    evalConds s d cs = some (s', b) → s'.next = s.next ∧ s'.state = s.state := by
  induction cs with
  | nil => intro s s' b h; simp only [evalConds] at h; cases h; exact ⟨rfl, rfl⟩
  | cons cd cs ih =>
    intro s s' b h
    simp only [evalConds] at h
    split at h
    · cases h
    · next s1 b1 h1 =>
      split at h
      · cases h
      · next s2 b2 h2 =>
        cases h
        have a := evalCond_fields s d cd s1 b1 h1
        have b := ih s1 _ b2 h2
        exact ⟨b.1.trans a.1, b.2.trans a.2⟩

theorem resolve_next (c : Cfg) (s : St) (e : TEvent) (d : EvData) :
    (resolve c s e d).1.next = s.next := by
  unfold resolve
  split
  · split <;> rfl
  · split
    · rfl
    · split
      · rfl
      · split
        · rfl
        · split
          · rfl
          · split
            · rfl
            · next s' ok h => split <;> exact (evalConds_fields _ _ _ _ _ h).1

theorem stopTimer_fields (s : St) : (stopTimer s).failed = s.failed ∧ (stopTimer s).next = s.next ∧
    (stopTimer s).out = s.out ∧ (stopTimer s).state = s.state := by
  unfold stopTimer
  split
  · exact ⟨rfl, rfl, rfl, rfl⟩
  · dsimp only; split <;> exact ⟨rfl, rfl, rfl, rfl⟩

theorem leave_fields (s : St) : (leave s).failed = s.failed ∧ (leave s).next = s.next := by
  unfold leave
  split
  · exact ⟨rfl, rfl⟩
  · split
    · exact ⟨(stopTimer_fields _).1, (stopTimer_fields _).2.1⟩
    · exact ⟨rfl, rfl⟩

theorem fail_fields (s : St) (k : ErrKind) : (s.fail k).next = s.next ∧ (s.fail k).state = s.state := by
  unfold St.fail; split <;> exact ⟨rfl, rfl⟩

theorem finish_next (c : Cfg) (s : St) : (finish c s).next = s.next := by
  unfold finish
  split
  · exact (fail_fields _ _).1
  · unfold sendOnEnter setOut
    split <;> split <;> rfl

theorem enterState_state (c : Cfg) (s : St) (d : EvData) (q : String) :
    (enterState c s d q).state = some q := by
  unfold enterState
  have f1 := frame_runEnter c (s.enter q) q
  dsimp only
  split
  · exact f1.state
  · split
    · exact f1.state
    · next tev dflt _ =>
      rcases startTimer_spec c (runEnter c (s.enter q) q) q tev d.dur with f2 | ⟨_, n, _, heq⟩
      · exact f2.state.trans f1.state
      · rw [heq, (setTimer_fields _ n tev).2.2.2.1]; exact f1.state

theorem enterLoop_quiet (c : Cfg) : ∀ (fuel : Nat) (s : St) (d : EvData) (q : String),
    (enterLoop c fuel s d q).failed = none →
    (enterLoop c fuel s d q).next = none ∧ (enterLoop c fuel s d q).state ≠ none := by
  intro fuel
  induction fuel with
  | zero => intro s d q h; unfold enterLoop at h; exact absurd h (fail_failed _ _)
  | succ n ih =>
    intro s d q
    unfold enterLoop
    dsimp only
    generalize popNext s d q = r
    have hst := enterState_state c r.1 r.2.1 r.2.2
    generalize enterState c r.1 r.2.1 r.2.2 = s2 at hst
    split
    · next hf => intro h; rw [h] at hf; simp at hf
    · split
      · exact ih _ _ _
      · next hn =>
        intro _
        refine ⟨?_, ?_⟩
        · rw [finish_next]; cases h : s2.next with
          | none => rfl
          | some x => rw [h] at hn; simp at hn
        · rw [(frame_finish c s2).state, hst]; simp

theorem quiet_ctxEvent {c : Cfg} {s : St} (hq : Quiet s) (hf : s.failed = none) (e : TEvent) (d : EvData) :
    Quiet (ctxEvent c s e d).1 := by
  have hs := hq hf
  unfold ctxEvent
  have fr := (frame_setCtx s d).trans (frame_resolve c (setCtx s d) e d)
  have kp := resolve_keeps c (setCtx s d) e d
  have kn := resolve_next c (setCtx s d) e d
  have base : Quiet (resolve c (setCtx s d) e d).1 := by
    intro _
    refine ⟨kn.trans hs.1, ?_⟩
    rw [kp.1, fr.state]; exact hs.2
  split
  · next s1 heq => rw [heq] at base; exact base
  · next s1 k heq => intro h; exact absurd h (fail_failed _ _)
  · next s1 heq => rw [heq] at base; exact base
  · next s1 q heq =>
    dsimp only
    split
    · next k hk => intro h; rw [hk] at h; cases h
    · next hnf =>
      intro _
      have := enterLoop_quiet c c.tbl.chainLimit (leave s1) d q hnf
      exact ⟨this.1, fun _ => this.2⟩

theorem quiet_deliver {c : Cfg} {s : St} (hq : Quiet s) (hf : s.failed = none) (e : TEvent) (d : EvData) :
    Quiet (deliver c s e d).1 := by
  rcases deliver_eq c s e d with ⟨heq, _⟩ | ⟨_, _, heq⟩
  · rw [heq]; exact quiet_ctxEvent hq hf e d
  · rw [heq]; intro h; exact absurd h (fail_failed _ _)

theorem quiet_advanceAux (c : Cfg) (t : Nat) (strict : Bool) : ∀ (fuel : Nat) (s : St),
    Quiet s → Quiet (advanceAux c fuel s t strict) := by
  intro fuel
  induction fuel with
  | zero => intro s _; unfold advanceAux; intro h; exact absurd h (fail_failed _ _)
  | succ n ih =>
    intro s hq
    unfold advanceAux
    split
    · exact hq
    · next hf =>
      split
      · exact hq
      · next h _ =>
        apply ih
        unfold fire
        exact quiet_deliver (s := popTimer s h) hq (isSome_false_none hf) _ _

theorem setOut_fields (s : St) (v : Val) : (setOut s v).failed = s.failed ∧ (setOut s v).next = s.next ∧
    (setOut s v).state = s.state := by
  unfold setOut; split <;> exact ⟨rfl, rfl, rfl⟩

theorem restore_fields (c : Cfg) (s : St) (q : String) (exp : Option Nat) (sd : Option Val) (m : CalcMode) :
    (restore c s q exp sd m).1.next = s.next ∧ (restore c s q exp sd m).1.failed = s.failed ∧
    ((restore c s q exp sd m).1 = s ∨ (restore c s q exp sd m).1.state = some q) := by
  have tail : ∀ arm, (restoreTail c ((s.enter q).setInput sd) arm m).1.next = s.next ∧
      (restoreTail c ((s.enter q).setInput sd) arm m).1.failed = s.failed ∧
      (restoreTail c ((s.enter q).setInput sd) arm m).1.state = some q := by
    intro arm
    unfold restoreTail
    split
    · exact ⟨rfl, rfl, rfl⟩
    · split
      · exact ⟨rfl, rfl, rfl⟩
      · dsimp only
        cases arm with
        | none => have f := setOut_fields ((s.enter q).setInput sd) ‹Val›; exact ⟨f.2.1, f.1, f.2.2⟩
        | some de =>
          have f := setOut_fields (setTimer ((s.enter q).setInput sd) de.1 de.2) ‹Val›
          have g := setTimer_fields ((s.enter q).setInput sd) de.1 de.2
          exact ⟨f.2.1.trans g.2.2.2.2.1, f.1.trans g.2.2.2.2.2.1, f.2.2.trans g.2.2.2.1⟩
  unfold restore
  split
  · exact ⟨rfl, rfl, .inl rfl⟩
  · split
    · have t := tail none; exact ⟨t.1, t.2.1, .inr t.2.2⟩
    · next t' =>
      split
      · exact ⟨rfl, rfl, .inl rfl⟩
      · split
        · exact ⟨rfl, rfl, .inl rfl⟩
        · next ev _ _ => have t := tail (some (t' - s.now, ev)); exact ⟨t.1, t.2.1, .inr t.2.2⟩

/-- the output after `_restore_state` on a block that is not initialised: still UNDEF, or what `calc_output()`
    returned for the restored state -/
theorem restore_out (c : Cfg) (s : St) (q : String) (exp : Option Nat) (sd : Option Val) (m : CalcMode)
    (hu : s.out.isUndef = true) :
    (restore c s q exp sd m).1.out.isUndef = true ∨
    ((restore c s q exp sd m).1.state = some q ∧
      calcFor c ((s.enter q).setInput sd) m = some (restore c s q exp sd m).1.out) := by
  have tail : ∀ arm, (restoreTail c ((s.enter q).setInput sd) arm m).1.out.isUndef = true ∨
      ((restoreTail c ((s.enter q).setInput sd) arm m).1.state = some q ∧
        calcFor c ((s.enter q).setInput sd) m
          = some (restoreTail c ((s.enter q).setInput sd) arm m).1.out) := by
    intro arm
    unfold restoreTail
    split
    · exact .inl hu
    · next v hc =>
      split
      · exact .inl hu
      · next hv =>
        have hv' : v.isUndef = false := by simpa using hv
        right
        dsimp only
        cases arm with
        | none =>
          have so := setOut_defined ((s.enter q).setInput sd) v hu hv'
          exact ⟨(setOut_fields _ _).2.2, by rw [so.1]; exact hc⟩
        | some de =>
          have g := setTimer_fields ((s.enter q).setInput sd) de.1 de.2
          have so := setOut_defined (setTimer ((s.enter q).setInput sd) de.1 de.2) v
            (by rw [g.2.2.2.2.2.2.1]; exact hu) hv'
          exact ⟨(setOut_fields _ _).2.2.trans g.2.2.2.1, by rw [so.1]; exact hc⟩
  unfold restore
  split
  · exact .inl hu
  · split
    · exact tail none
    · next t' =>
      split
      · exact .inl hu
      · split
        · exact .inl hu
        · next ev _ _ => exact tail (some (t' - s.now, ev))

theorem quiet_restore {c : Cfg} {s : St} (hq : Quiet s) (q : String) (exp : Option Nat) (sd : Option Val)
    (m : CalcMode) : Quiet (step c s (.restore q exp sd m)).1 := by
  simp only [step]
  split
  · exact hq
  · have f := restore_fields c s q exp sd m
    intro h
    have h' : s.failed = none := f.2.1 ▸ h
    refine ⟨f.1.trans (hq h').1, ?_⟩
    rcases f.2.2 with e | e
    · rw [e]; exact (hq h').2
    · intro _; rw [e]; simp

theorem quiet_step {c : Cfg} {s : St} (hq : Quiet s) (op : Op) : Quiet (step c s op).1 := by
  cases op with
  | stop =>
    show Quiet { stopTimer s with stopped := true }
    have f := stopTimer_fields s
    intro h
    have h' : s.failed = none := f.1 ▸ h
    have := hq h'
    refine ⟨f.2.1.trans this.1, ?_⟩
    show (stopTimer s).out.isUndef = false → (stopTimer s).state ≠ none
    rw [f.2.2.1, f.2.2.2]; exact this.2
  | restore q exp sd m => exact quiet_restore hq q exp sd m
  | advance t =>
    simp only [step]
    split
    · exact hq
    · exact quiet_advanceAux c t false _ s hq
  | gate b => exact hq
  | init =>
    simp only [step]
    split
    · exact hq
    · next hf =>
      unfold initOp
      exact quiet_deliver (s := { s with input := c.initInput }) hq (isSome_false_none hf) _ _
  | ev t pl e d =>
    simp only [step]
    split
    · exact hq
    · have q1 := quiet_advanceAux c t (pl == .before) ((t - s.now) + s.timers.length + 2) s hq
      split
      · exact q1
      · next hf => exact quiet_deliver q1 (isSome_false_none hf) _ _

theorem quiet_run (c : Cfg) : ∀ (ops : List Op) (s : St), Quiet s → Quiet (run c s ops) := by
  intro ops
  induction ops with
  | nil => intro s h; exact h
  | cons op ops ih => intro s h; exact ih _ (quiet_step h op)

/-! ### the behaviour of `_restore_state` BEFORE the repair (kept for the record, not part of the model)

Until the fix "restore: start the timer only when the state was really restored" `_restore_state` called
`_set_timer(remaining, timed_event)` as soon as the saved state was found valid and not expired, BEFORE
`self._state = state`, `self.sdata = sdata` and `calc_output()`.  When `calc_output()` then raised (the error is
suppressed by `init_from_persistent_data`) or returned UNDEF, the block stayed uninitialised WITH `_active_timer`
set.  The initialisation that follows, `init_from_value(initdef)` = `Goto(initdef)`, runs `_ctx_event`, which skips
`_stop_timer()` for a block that is not initialised; a timed target state then overwrites `_active_timer` and the
first handle is orphaned: nobody can cancel it, it fires later into whatever state the FSM is in, and it survives
`stop()`.  `restoreOld` is that old program, hand-written; EdzedProps/C04.lean shows on a concrete Timer that with it
`restore_then_goto_has_one_live_timer` is false (two live handles). -/

/-- PRE-FIX `_restore_state`: the timer is armed before the state is assigned and before `calc_output()` -/
def restoreOld (c : Cfg) (s : St) (q : String) (exp : Option Nat) (sd : Option Val) (m : CalcMode) : St × Res :=
  if !c.tbl.states.contains q then (s, .err .valueError)
  else
    let body (s0 : St) : St × Res :=
      let s1 := (s0.enter q).setInput sd
      match calcFor c s1 m with
      | none => (s1, .err .keyError)
      | some v => if v.isUndef then (s1, .ret true) else (setOut s1 v, .ret true)
    match exp with
    | none => body s
    | some t =>
      if t ≤ s.now then (s, .ret true)
      else match c.tbl.timedOf q with
        | none => (s, .err .circuitError)
        | some (ev, _) => body (setTimer s (t - s.now) ev)

end Edzed.FsmTimer
