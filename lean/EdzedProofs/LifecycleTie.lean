/-
Tie by translation for C08: the primitives of the translated programs of
Gen/TranslatedLifecycle.lean (`Circuit._run_tasks`, `_stop_sblocks`, `_init_sblocks_async`,
`run_forever`) instantiated with the operations of the model EdzedModel/Lifecycle.lean, and the
lemmas for the theorems `Edzed.TrTie.translated_lifecycle_…` of EdzedProps/C08.lean.
-/
import EdzedModel.Lifecycle
import EdzedModel.Gen.TranslatedLifecycle
import EdzedProofs.Lifecycle

namespace Edzed.LifecycleTie
open Edzed.Lifecycle Edzed.Gen.TrD Edzed.Gen

/-- the exceptions the skeleton distinguishes -/
inductive TExc where
  | cancelled      -- asyncio.CancelledError (a BaseException)
  | timeout        -- asyncio.TimeoutError (an Exception)
  | failure        -- any other Exception
  deriving DecidableEq, Repr

/-- `except Class` catches … -/
def excIs : TExc → String → Bool
  | .cancelled, c => c == "asyncio.CancelledError"
  | .timeout, c => c == "asyncio.TimeoutError" || c == "Exception"
  | .failure, c => c == "Exception"

/-! ### evaluation of the monad's combinators on a state -/
section
variable {σ ε ρ α β : Type}
theorem bind_apply (m : M σ ε ρ α) (k : α → M σ ε ρ β) (s : σ) :
    M.bind m k s = match m s with
      | (s1, .next a) => k a s1
      | (s1, .ret r) => (s1, .ret r)
      | (s1, .raise e) => (s1, .raise e)
      | (s1, .diverged) => (s1, .diverged) := rfl
theorem pure_apply (a : α) (s : σ) : (M.pure a : M σ ε ρ α) s = (s, .next a) := rfl
theorem raise_apply (e : ε) (s : σ) : (M.raise e : M σ ε ρ α) s = (s, .raise e) := rfl
theorem get_apply (s : σ) : (M.get : M σ ε ρ σ) s = (s, .next s) := rfl
theorem tryExcept_apply (body : M σ ε ρ α) (h : ε → M σ ε ρ α) (s : σ) :
    M.tryExcept body h s = match body s with
      | (s1, .raise e) => h e s1
      | p => p := rfl
theorem ite_apply' (c : Prop) [Decidable c] (f g : σ → β) (s : σ) :
    (if c then f else g) s = if c then f s else g s := by split <;> rfl
end

@[simp] theorem excIs_cc : excIs .cancelled "asyncio.CancelledError" = true := by decide
@[simp] theorem excIs_ct : excIs .cancelled "asyncio.TimeoutError" = false := by decide
@[simp] theorem excIs_ce : excIs .cancelled "Exception" = false := by decide
@[simp] theorem excIs_tc : excIs .timeout "asyncio.CancelledError" = false := by decide
@[simp] theorem excIs_tt : excIs .timeout "asyncio.TimeoutError" = true := by decide
@[simp] theorem excIs_te : excIs .timeout "Exception" = true := by decide
@[simp] theorem excIs_fc : excIs .failure "asyncio.CancelledError" = false := by decide
@[simp] theorem excIs_ft : excIs .failure "asyncio.TimeoutError" = false := by decide
@[simp] theorem excIs_fe : excIs .failure "Exception" = true := by decide

/-! ### `_run_tasks` -/

/-- state of the tasks: the clock (time since the tasks were created) and the tasks that do not
    end by themselves (cancelled by a time-out / by the cancellation of `_run_tasks`): their fate, which
    is reached at the instant `time` (a task that was cancelled needs `cdur` to finish) -/
structure RtState where
  now : Nat
  forced : Nat → Option JobEnd

def RtState.force (s : RtState) (t : Nat) (e : JobEnd) : RtState :=
  ⟨t, fun x => if x = e.k then some e else s.forced x⟩

/-- the task has ended or is being cancelled -/
def settled (s : RtState) (j : Job) : Bool := (s.forced j.k).isSome || j.doneBy s.now

/-- `task.done()`: a cancelled task is done when it has finished (`time`); `.pending` = it was seen
    still running by the bounded wait -/
def isDone (s : RtState) (j : Job) : Bool :=
  match s.forced j.k with
  | some e => decide (e.time ≤ s.now) && e.res != .pending
  | none => j.doneBy s.now

/-- what became of a task -/
def fateOf (s : RtState) (j : Job) : JobEnd :=
  match s.forced j.k with
  | some e => e
  | none => ⟨j.k, j.dur.getD s.now, j.fin⟩

/-- `await asyncio.wait_for(task, seconds)` on a task that is not done: returns when the task ends
    or cancels it at the deadline (`seconds ≤ 0`: at once) and raises TimeoutError; re-raises the
    task's exception; if the awaiting task is cancelled first (at `l`), the awaited one is cancelled
    with it and the CancelledError arrives when that task has finished (`l + cdur`) -/
def waitFor (limit : Option Nat) (j : Job) (seconds : Int) : M RtState TExc Unit Unit := fun s =>
  let deadline := s.now + seconds.toNat
  let w : Nat × Res := match j.dur with
    | some d => if d < deadline then (d, j.fin) else (deadline, .timeout)
    | none => (deadline, .timeout)
  match cancelledBefore limit w.1 with
  | some l => (s.force (l + j.cdur) ⟨j.k, l + j.cdur, .cancelled⟩, .raise .cancelled)
  | none =>
    match w.2 with
    | .timeout => (s.force w.1 ⟨j.k, w.1, .timeout⟩, .raise .timeout)
    | .err => (⟨w.1, s.forced⟩, .raise .failure)
    | _ => (⟨w.1, s.forced⟩, .next ())

/-- the instant a task is over, seen from a wait that gives up at `B` -/
def endBy (s : RtState) (B : Nat) (j : Job) : Nat :=
  min B (match s.forced j.k with
    | some e => e.time
    | none => j.dur.getD B)

/-- `await asyncio.wait(tasks, timeout=seconds)`: returns when the last of the tasks is over or at the
    bound `B = now + seconds`, whichever comes first; a task that is still being cancelled then is
    `.pending` -/
def waitAll (tasks : List Job) (seconds : Int) : M RtState TExc Unit Unit := fun s =>
  let B := s.now + seconds.toNat
  let t := tasks.foldl (fun m j => max m (endBy s B j)) s.now
  (⟨t, fun k => (s.forced k).map fun e => if e.time ≤ t then e else ⟨e.k, t, .pending⟩⟩, .next ())

/-- the primitives of `_run_tasks` as the model understands them; `limit` = the instant at which
    the task that runs `_run_tasks` is cancelled -/
@[reducible] def rtPrims (limit : Option Nat) : TrL.RunTasksPrims RtState TExc Nat Job where
  excIs := excIs
  sortDesc := sortJobs
  timeoutOf j := (j.timeout : Int)
  getTime := fun s => (s, .next (s.now : Int))
  taskDone s j := isDone s j
  waitFor := waitFor limit
  cancelTask j := fun s =>
    -- no effect on a task that has ended or is being cancelled; otherwise the task ends `cdur` later
    if settled s j then (s, .next ())
    else (⟨s.now, fun x => if x = j.k then some ⟨j.k, s.now + j.cdur, .cancelled⟩ else s.forced x⟩, .next ())
  headTimeout l := (deadline l : Int)
  waitAll := waitAll
  taskCancelled s j :=
    match s.forced j.k with
    | some e => decide (e.time ≤ s.now) && e.res != .pending
    | none => false
  taskException j := fun s =>
    match s.forced j.k with
    | some _ =>
      if isDone s j then (s, .raise .cancelled)   -- `exception()` of a cancelled task raises CancelledError
      else (s, .raise .failure)                   -- … of a task that is not done: InvalidStateError
    | none =>
      if j.doneBy s.now then (s, .next (if j.ok then none else some .failure))
      else (s, .raise .failure)

@[simp] theorem rt_excIs (limit : Option Nat) : (rtPrims limit).excIs = excIs := rfl
@[simp] theorem rt_sortDesc (limit : Option Nat) : (rtPrims limit).sortDesc = sortJobs := rfl
@[simp] theorem rt_timeoutOf (limit : Option Nat) (j : Job) : (rtPrims limit).timeoutOf j = (j.timeout : Int) := rfl
@[simp] theorem rt_getTime (limit : Option Nat) (s : RtState) :
    (rtPrims limit).getTime s = (s, .next (s.now : Int)) := rfl
@[simp] theorem rt_taskDone (limit : Option Nat) (s : RtState) (j : Job) :
    (rtPrims limit).taskDone s j = isDone s j := rfl
@[simp] theorem rt_waitFor (limit : Option Nat) : (rtPrims limit).waitFor = waitFor limit := rfl
@[simp] theorem rt_cancelTask (limit : Option Nat) (j : Job) (s : RtState) :
    (rtPrims limit).cancelTask j s =
      if settled s j then (s, .next ())
      else (⟨s.now, fun x => if x = j.k then some ⟨j.k, s.now + j.cdur, .cancelled⟩ else s.forced x⟩, .next ()) := rfl
@[simp] theorem rt_headTimeout (limit : Option Nat) (l : List Job) :
    (rtPrims limit).headTimeout l = (deadline l : Int) := rfl
@[simp] theorem rt_waitAll (limit : Option Nat) : (rtPrims limit).waitAll = waitAll := rfl
@[simp] theorem rt_taskCancelled (limit : Option Nat) (s : RtState) (j : Job) :
    (rtPrims limit).taskCancelled s j = (match s.forced j.k with
      | some e => decide (e.time ≤ s.now) && e.res != .pending
      | none => false) := rfl
@[simp] theorem rt_taskException (limit : Option Nat) (j : Job) (s : RtState) :
    (rtPrims limit).taskException j s = (match s.forced j.k with
      | some _ => if isDone s j then (s, .raise .cancelled) else (s, .raise .failure)
      | none =>
        if j.doneBy s.now then (s, .next (if j.ok then none else some .failure))
        else (s, .raise .failure)) := rfl

theorem doneBy_mono (j : Job) {a b : Nat} (h : a ≤ b) (hd : j.doneBy a = true) : j.doneBy b = true := by
  unfold Job.doneBy at *
  cases hj : j.dur with
  | none => simp [hj] at hd
  | some d => simp [hj] at hd ⊢; omega

theorem doneBy_dur (j : Job) {a : Nat} (hd : j.doneBy a = true) : ∃ d, j.dur = some d ∧ d ≤ a := by
  unfold Job.doneBy at hd
  cases h : j.dur with
  | none => simp [h] at hd
  | some d => simp [h] at hd; exact ⟨d, rfl, hd⟩

/-- the loop of the `except CancelledError:` branch: every task that has not ended is cancelled now
    (and will need `cdur` to finish) -/
theorem cancel_spec (limit : Option Nat) : ∀ (l : List Job) (s : RtState), (l.map (·.k)).Nodup →
    ∃ s', TrL.runTasks_for2 (rtPrims limit) l s = (s', .next ()) ∧ s'.now = s.now ∧
      (∀ k, k ∉ l.map (·.k) → s'.forced k = s.forced k) ∧
      (∀ j ∈ l, s'.forced j.k =
        if settled s j then s.forced j.k else some ⟨j.k, s.now + j.cdur, .cancelled⟩) := by
  intro l
  induction l with
  | nil => intro s _; exact ⟨s, rfl, rfl, fun _ _ => rfl, by simp⟩
  | cons j js ih =>
    intro s hnd
    simp only [List.map_cons, List.nodup_cons] at hnd
    unfold TrL.runTasks_for2
    by_cases hd : settled s j = true
    · obtain ⟨s', h1, h2, h3, h4⟩ := ih s hnd.2
      refine ⟨s', ?_, h2, ?_, ?_⟩
      · simp [M.bind, hd, h1]
      · intro k hk
        simp only [List.map_cons, List.mem_cons, not_or] at hk
        exact h3 k hk.2
      · intro j' hj'
        simp only [List.mem_cons] at hj'
        rcases hj' with rfl | hj'
        · rw [h3 _ hnd.1]; simp [hd]
        · exact h4 j' hj'
    · have hd' : settled s j = false := by simpa using hd
      obtain ⟨s', h1, h2, h3, h4⟩ :=
        ih ⟨s.now, fun x => if x = j.k then some ⟨j.k, s.now + j.cdur, .cancelled⟩ else s.forced x⟩ hnd.2
      refine ⟨s', ?_, by simpa using h2, ?_, ?_⟩
      · simp [M.bind, hd', h1]
      · intro k hk
        simp only [List.map_cons, List.mem_cons, not_or] at hk
        rw [h3 k hk.2]
        simp [hk.1]
      · intro j' hj'
        simp only [List.mem_cons] at hj'
        rcases hj' with rfl | hj'
        · rw [h3 _ hnd.1]; simp [hd']
        · have hne : j'.k ≠ j.k := by
            intro h; exact hnd.1 (h ▸ List.mem_map.2 ⟨j', hj', rfl⟩)
          rw [h4 j' hj']
          simp [settled, hne]

/-- the remaining-time expression of `_run_tasks`, `timeout - get_time() + start_time` with the tasks
    created at instant 0, gives the model's deadline `max now timeout` -/
theorem waitFor_wake (limit : Option Nat) (j : Job) (s : RtState) :
    waitFor limit j (((j.timeout : Int) - (s.now : Int)) + 0) s =
      match cancelledBefore limit (j.wake s.now).1 with
      | some l => (s.force (l + j.cdur) ⟨j.k, l + j.cdur, .cancelled⟩, .raise .cancelled)
      | none =>
        match (j.wake s.now).2 with
        | .timeout => (s.force (j.wake s.now).1 ⟨j.k, (j.wake s.now).1, .timeout⟩, .raise .timeout)
        | .err => (⟨(j.wake s.now).1, s.forced⟩, .raise .failure)
        | _ => (⟨(j.wake s.now).1, s.forced⟩, .next ()) := by
  have hdl : s.now + (((j.timeout : Int) - (s.now : Int)) + 0).toNat = max s.now j.timeout := by omega
  unfold waitFor Job.wake
  simp only [hdl]
  cases j.dur <;> rfl

theorem cancelledBefore_some {limit : Option Nat} {w l : Nat} (h : cancelledBefore limit w = some l) :
    limit = some l ∧ l < w := by
  unfold cancelledBefore at h
  cases limit with
  | none => simp at h
  | some x =>
    simp only at h
    split at h
    · simp only [Option.some.injEq] at h; subst h; exact ⟨rfl, by assumption⟩
    · simp at h

theorem cancelledBefore_none {limit : Option Nat} {w : Nat} (h : cancelledBefore limit w = none) :
    ∀ l, limit = some l → w ≤ l := by
  intro l hl
  subst hl
  unfold cancelledBefore at h
  simp only at h
  split at h
  · simp at h
  · omega

theorem wake_ge (j : Job) (now : Nat) (hnd : j.doneBy now = false) : now ≤ (j.wake now).1 := by
  unfold Job.wake
  unfold Job.doneBy at hnd
  cases hj : j.dur with
  | none => simp; omega
  | some d =>
    simp [hj] at hnd
    simp only
    split
    · simp; omega
    · simp; omega

theorem wake_res (j : Job) (now : Nat) :
    (j.wake now).2 = .timeout ∨ (j.dur = some (j.wake now).1 ∧ (j.wake now).2 = j.fin) := by
  unfold Job.wake
  cases hj : j.dur with
  | none => simp
  | some d =>
    simp only
    split
    · right; simp
    · left; rfl

theorem fin_cases (j : Job) : (j.fin = .ok ∧ j.ok = true) ∨ (j.fin = .err ∧ j.ok = false) := by
  unfold Job.fin; cases j.ok <;> simp

theorem waitFor_wake' (limit : Option Nat) (j : Job) (s : RtState) :
    waitFor limit j ((j.timeout : Int) - (s.now : Int)) s =
      match cancelledBefore limit (j.wake s.now).1 with
      | some l => (s.force (l + j.cdur) ⟨j.k, l + j.cdur, .cancelled⟩, .raise .cancelled)
      | none =>
        match (j.wake s.now).2 with
        | .timeout => (s.force (j.wake s.now).1 ⟨j.k, (j.wake s.now).1, .timeout⟩, .raise .timeout)
        | .err => (⟨(j.wake s.now).1, s.forced⟩, .raise .failure)
        | _ => (⟨(j.wake s.now).1, s.forced⟩, .next ()) := by
  have := waitFor_wake limit j s
  simpa using this

structure Inv (limit : Option Nat) (pre : List Job) (s : RtState) : Prop where
  forcedIn : ∀ k e, s.forced k = some e → k ∈ pre.map (·.k)
  preDone : ∀ j ∈ pre, isDone s j = true
  lim : ∀ l, limit = some l → s.now ≤ l

theorem isDone_forced {s : RtState} {j : Job} {e : JobEnd} (hf : s.forced j.k = some e)
    (hd : isDone s j = true) : e.time ≤ s.now := by
  simp only [isDone, hf, Bool.and_eq_true, decide_eq_true_eq] at hd
  exact hd.1

theorem isDone_mono {s s' : RtState} {j : Job} (hd : isDone s j = true) (hnow : s.now ≤ s'.now)
    (hf : s'.forced j.k = s.forced j.k) : isDone s' j = true := by
  unfold isDone at hd ⊢
  rw [hf]
  cases h : s.forced j.k with
  | some e =>
    simp only [h, Bool.and_eq_true, decide_eq_true_eq] at hd ⊢
    exact ⟨by omega, hd.2⟩
  | none =>
    simp only [h] at hd ⊢
    exact doneBy_mono j hnow hd

theorem fate_stable (s s' : RtState) (j : Job) (hd : isDone s j = true)
    (hf : s'.forced j.k = s.forced j.k) : fateOf s' j = fateOf s j := by
  unfold fateOf
  rw [hf]
  cases h : s.forced j.k with
  | some e => rfl
  | none =>
    simp only [isDone, h] at hd
    obtain ⟨d, hd1, _⟩ := doneBy_dur j hd
    simp [hd1]

theorem Inv.snoc {limit : Option Nat} {pre : List Job} {s s' : RtState} {j : Job} (h : Inv limit pre s)
    (hnotin : j.k ∉ pre.map (·.k))
    (hnow : s.now ≤ s'.now) (hlim : ∀ l, limit = some l → s'.now ≤ l)
    (hf : ∀ k, k ≠ j.k → s'.forced k = s.forced k)
    (hj : isDone s' j = true) : Inv limit (pre ++ [j]) s' := by
  refine ⟨?_, ?_, hlim⟩
  · intro k e hk
    by_cases hkj : k = j.k
    · simp [hkj]
    · rw [hf k hkj] at hk
      have := h.forcedIn k e hk
      simp only [List.map_append, List.mem_append]
      exact .inl this
  · intro p hp
    simp only [List.mem_append, List.mem_singleton] at hp
    rcases hp with hp | rfl
    · have hd := h.preDone p hp
      have hpk : p.k ≠ j.k := fun hh => hnotin (hh ▸ List.mem_map.2 ⟨p, hp, rfl⟩)
      exact isDone_mono hd hnow (hf _ hpk)
    · exact hj

theorem pre_fates {limit : Option Nat} {pre : List Job} {s s' : RtState} (h : Inv limit pre s)
    (hf : ∀ p ∈ pre, s'.forced p.k = s.forced p.k) : pre.map (fateOf s') = pre.map (fateOf s) := by
  apply List.map_congr_left
  intro p hp
  exact fate_stable s s' p (h.preDone p hp) (hf p hp)

theorem foldl_max_ge {α : Type} (f : α → Nat) (xs : List α) (a : Nat) :
    a ≤ xs.foldl (fun m x => max m (f x)) a := by
  induction xs generalizing a with
  | nil => exact Nat.le_refl _
  | cons x xs ih => exact Nat.le_trans (Nat.le_max_left _ _) (ih _)

theorem foldl_max_mem {α : Type} (f : α → Nat) (xs : List α) (a : Nat) :
    ∀ x ∈ xs, f x ≤ xs.foldl (fun m x => max m (f x)) a := by
  induction xs generalizing a with
  | nil => intro x hx; cases hx
  | cons y ys ih =>
    intro x hx
    simp only [List.mem_cons] at hx
    rcases hx with rfl | hx
    · exact Nat.le_trans (Nat.le_max_right _ _) (foldl_max_ge f ys _)
    · exact ih _ x hx

theorem foldl_max_le {α : Type} (f : α → Nat) (xs : List α) (a B : Nat) (ha : a ≤ B)
    (h : ∀ x ∈ xs, f x ≤ B) : xs.foldl (fun m x => max m (f x)) a ≤ B := by
  induction xs generalizing a with
  | nil => exact ha
  | cons y ys ih =>
    exact ih _ (Nat.max_le.2 ⟨ha, h y (by simp)⟩) (fun x hx => h x (by simp [hx]))

theorem foldl_max_absorb {α : Type} (f : α → Nat) (xs : List α) (a : Nat) (h : ∀ x ∈ xs, f x ≤ a) :
    xs.foldl (fun m x => max m (f x)) a = a :=
  Nat.le_antisymm (foldl_max_le f xs a a (Nat.le_refl _) h) (foldl_max_ge f xs a)

theorem foldl_max_congr {α : Type} (f g : α → Nat) (xs : List α) (a : Nat) (h : ∀ x ∈ xs, f x = g x) :
    xs.foldl (fun m x => max m (f x)) a = xs.foldl (fun m x => max m (g x)) a := by
  induction xs generalizing a with
  | nil => rfl
  | cons y ys ih =>
    simp only [List.foldl_cons, h y (by simp)]
    exact ih _ (fun x hx => h x (by simp [hx]))

theorem lastEnd_map {α : Type} (F : α → JobEnd) (xs : List α) (a : Nat) :
    lastEnd a (xs.map F) = xs.foldl (fun m x => max m (F x).time) a := by
  unfold lastEnd; rw [List.foldl_map]

theorem atCancel_time (L T : Nat) (x : Job) :
    (Job.atCancel L T x).time =
      if x.doneBy L then x.dur.getD L else min (max L T) (L + x.cdur) := by
  unfold Job.atCancel Job.cancelEnd Job.doneBy
  cases hx : x.dur with
  | none => simp only [Bool.false_eq_true, if_false]; split <;> simp only <;> omega
  | some d =>
    by_cases hd : d ≤ L
    · simp [hd]
    · simp only [hd, if_false, decide_false, Bool.false_eq_true]; split <;> simp only <;> omega

/-- the bounded wait of the `except CancelledError:` branch, on the state the cancel loop leaves -/
theorem waitAll_spec (all pre js : List Job) (j : Job) (s s2 : RtState) (L : Nat)
    (hall : all = pre ++ j :: js) (hnow : s2.now = L) (hsL : s.now ≤ L)
    (hpre : ∀ x ∈ pre, s2.forced x.k = s.forced x.k ∧ isDone s x = true)
    (hj : s2.forced j.k = some ⟨j.k, L, .cancelled⟩)
    (hjs : ∀ x ∈ js, s2.forced x.k = if x.doneBy L then none else some ⟨x.k, L + x.cdur, .cancelled⟩) :
    (waitAll all (((deadline all : Nat) : Int) - (L : Int)) s2).2 = .next () ∧
    (waitAll all (((deadline all : Nat) : Int) - (L : Int)) s2).1.now =
      lastEnd L (js.map (Job.atCancel L (deadline all))) ∧
    (j :: js).map (fateOf (waitAll all (((deadline all : Nat) : Int) - (L : Int)) s2).1) =
      ⟨j.k, L, .cancelled⟩ :: js.map (Job.atCancel L (deadline all)) ∧
    pre.map (fateOf (waitAll all (((deadline all : Nat) : Int) - (L : Int)) s2).1) =
      pre.map (fateOf s) := by
  have hB : s2.now + (((deadline all : Nat) : Int) - (L : Int)).toNat = max L (deadline all) := by
    rw [hnow]; omega
  generalize deadline all = T at hB ⊢
  -- the ends seen by the wait
  have epre : ∀ x ∈ pre, endBy s2 (max L T) x ≤ L := by
    intro x hx
    obtain ⟨h1, h2⟩ := hpre x hx
    unfold endBy
    rw [h1]
    cases hf : s.forced x.k with
    | some e => have := isDone_forced hf h2; simp only; omega
    | none =>
      simp only [isDone, hf] at h2
      obtain ⟨d, hd1, hd2⟩ := doneBy_dur x h2
      simp only [hd1, Option.getD_some]; omega
  have ej : endBy s2 (max L T) j ≤ L := by unfold endBy; rw [hj]; simp only; omega
  have ejs : ∀ x ∈ js, endBy s2 (max L T) x = (Job.atCancel L T x).time := by
    intro x hx
    rw [atCancel_time]
    unfold endBy
    rw [hjs x hx]
    by_cases hd : x.doneBy L = true
    · obtain ⟨d, hd1, hd2⟩ := doneBy_dur x hd
      simp only [hd, if_true, hd1, Option.getD_some]; omega
    · simp only [hd, if_false, Bool.false_eq_true]
  have ht : all.foldl (fun m x => max m (endBy s2 (max L T) x)) s2.now =
      lastEnd L (js.map (Job.atCancel L T)) := by
    rw [hall, List.foldl_append, List.foldl_cons, hnow, foldl_max_absorb _ pre L epre,
      Nat.max_eq_left ej, lastEnd_map]
    exact foldl_max_congr _ _ js L ejs
  have hwa : waitAll all ((T : Int) - (L : Int)) s2 =
      (⟨lastEnd L (js.map (Job.atCancel L T)),
        fun k => (s2.forced k).map fun e =>
          if e.time ≤ lastEnd L (js.map (Job.atCancel L T)) then e
          else ⟨e.k, lastEnd L (js.map (Job.atCancel L T)), .pending⟩⟩, .next ()) := by
    unfold waitAll
    simp only [hB, ht]
  rw [hwa]
  generalize htt : lastEnd L (js.map (Job.atCancel L T)) = t
  have htL : L ≤ t := by rw [← htt, lastEnd_map]; exact foldl_max_ge _ _ _
  have htB : t ≤ max L T := by
    rw [← htt, lastEnd_map]
    apply foldl_max_le _ _ _ _ (Nat.le_max_left _ _)
    intro x hx
    rw [← ejs x hx]; unfold endBy; exact Nat.min_le_left _ _
  have htx : ∀ x ∈ js, (Job.atCancel L T x).time ≤ t := by
    intro x hx
    rw [← htt, lastEnd_map]
    exact foldl_max_mem (fun x => (Job.atCancel L T x).time) js L x hx
  refine ⟨rfl, rfl, ?_, ?_⟩
  · simp only [List.map_cons]
    congr 1
    · simp [fateOf, hj, htL]
    · apply List.map_congr_left
      intro x hx
      have h1 := htx x hx
      rw [atCancel_time] at h1
      unfold fateOf
      simp only [hjs x hx]
      unfold Job.atCancel Job.cancelEnd
      by_cases hd : x.doneBy L = true
      · obtain ⟨d, hd1, hd2⟩ := doneBy_dur x hd
        simp [hd, hd1, hd2]
      · have hd' : x.doneBy L = false := by simpa using hd
        simp only [hd', Bool.false_eq_true, if_false] at h1
        have hnd : ∀ d, x.dur = some d → ¬ d ≤ L := by
          intro d hd1 hd2
          simp [Job.doneBy, hd1, hd2] at hd'
        simp only [hd', Bool.false_eq_true, if_false, Option.map_some]
        by_cases hc : L + x.cdur ≤ max L T
        · have : L + x.cdur ≤ t := by omega
          cases hx' : x.dur with
          | none => simp [this, hc]
          | some d => simp [this, hc, hnd d hx']
        · have h2 : ¬ L + x.cdur ≤ t := by omega
          have h3 : t = max L T := by omega
          cases hx' : x.dur with
          | none => simp [h2, hc, h3]
          | some d => simp [h2, hc, hnd d hx', h3]
  · apply List.map_congr_left
    intro x hx
    obtain ⟨h1, h2⟩ := hpre x hx
    apply fate_stable s _ x h2
    simp only [h1]
    cases hf : s.forced x.k with
    | none => rfl
    | some e =>
      have := isDone_forced hf h2
      have : e.time ≤ t := by omega
      simp [this]

/-- the loop of `_run_tasks` computes `awaitJobs`: the fate of every task, the instant the loop
    ends, and whether it ends by the CancelledError (re-raised) -/
theorem loop_spec (limit : Option Nat) (all : List Job) (hnd : (all.map (·.k)).Nodup) :
    ∀ (rest pre : List Job) (s : RtState) (errcnt : Int), all = pre ++ rest → Inv limit pre s →
      ∃ s' o, TrL.runTasks_for1 (rtPrims limit) all () 0 rest errcnt s = (s', o) ∧
        s'.now = (awaitJobs limit (deadline all) s.now rest).2.1 ∧
        rest.map (fateOf s') = (awaitJobs limit (deadline all) s.now rest).1 ∧
        pre.map (fateOf s') = pre.map (fateOf s) ∧
        ((awaitJobs limit (deadline all) s.now rest).2.2 = true → o = .raise .cancelled) ∧
        ((awaitJobs limit (deadline all) s.now rest).2.2 = false → ∃ n, o = .next n) := by
  intro rest
  induction rest with
  | nil =>
    intro pre s errcnt _ _
    exact ⟨s, .next errcnt, rfl, rfl, rfl, rfl, by simp [awaitJobs], fun _ => ⟨errcnt, rfl⟩⟩
  | cons j js ih =>
    intro pre s errcnt hall hinv
    have hks : all.map (·.k) = pre.map (·.k) ++ j.k :: js.map (·.k) := by rw [hall]; simp
    have hnotin : j.k ∉ pre.map (·.k) := by
      rw [hks] at hnd
      have := (List.nodup_append.1 hnd).2.2
      intro hmem
      exact this _ hmem _ (by simp) rfl
    have hfnone : s.forced j.k = none := by
      cases h : s.forced j.k with
      | none => rfl
      | some e => exact absurd (hinv.forcedIn _ _ h) hnotin
    have hall' : all = (pre ++ [j]) ++ js := by rw [hall]; simp
    unfold TrL.runTasks_for1 awaitJobs
    by_cases hdone : j.doneBy s.now = true
    · -- the task is done already
      have hinv' : Inv limit (pre ++ [j]) s :=
        hinv.snoc hnotin (Nat.le_refl _) hinv.lim (fun _ _ => rfl) (by simp [isDone, hfnone, hdone])
      simp only [hdone, if_true]
      have key : ∀ e : Int, ∃ s' o, TrL.runTasks_for1 (rtPrims limit) all () 0 js e s = (s', o) ∧
          s'.now = (awaitJobs limit (deadline all) s.now js).2.1 ∧
          (j :: js).map (fateOf s') = ⟨j.k, j.dur.getD s.now, j.fin⟩ :: (awaitJobs limit (deadline all) s.now js).1 ∧
          pre.map (fateOf s') = pre.map (fateOf s) ∧
          ((awaitJobs limit (deadline all) s.now js).2.2 = true → o = .raise .cancelled) ∧
          ((awaitJobs limit (deadline all) s.now js).2.2 = false → ∃ n, o = .next n) := by
        intro e
        obtain ⟨s', o, h1, h2, h3, h4, h5, h6⟩ := ih (pre ++ [j]) s e hall' hinv'
        simp only [List.map_append, List.map_cons, List.map_nil, List.append_cancel_right_eq] at h4
        refine ⟨s', o, h1, h2, ?_, ?_, h5, h6⟩
        · simp only [List.map_cons, h3]
          congr 1
          have := (List.append_inj h4 (by simp)).2
          simp only [List.cons.injEq, and_true] at this
          rw [this]; simp [fateOf, hfnone]
        · exact (List.append_inj h4 (by simp)).1
      simp only [M.bind, M.get, M.pure, rt_taskDone, isDone, hfnone, hdone, rt_taskCancelled,
        rt_taskException, Option.isSome_none, Bool.false_or, Bool.not_true, Bool.false_eq_true, if_false,
        Bool.not_false, if_true]
      cases j.ok with
      | true => simpa using key errcnt
      | false => simpa using key (errcnt + 1)
    · -- the task is awaited
      have hdone' : j.doneBy s.now = false := by simpa using hdone
      have hisd : isDone s j = false := by simp [isDone, hfnone, hdone']
      have hge := wake_ge j s.now hdone'
      simp only [hdone', Bool.false_eq_true, if_false]
      simp only [bind_apply, get_apply, pure_apply, raise_apply, tryExcept_apply, ite_apply', hisd,
        Bool.not_false, if_true, Int.add_zero, waitFor_wake']
      cases hcb : cancelledBefore limit (j.wake s.now).1 with
      | some l =>
        -- cancelled while waiting: the other tasks are cancelled, the CancelledError goes on
        obtain ⟨hl1, hl2⟩ := cancelledBefore_some hcb
        have hsl : s.now ≤ l := hinv.lim l hl1
        have hsL : s.now ≤ l + j.cdur := by omega
        obtain ⟨s2, c1, c2, c3, c4⟩ :=
          cancel_spec limit all (s.force (l + j.cdur) ⟨j.k, l + j.cdur, .cancelled⟩) hnd
        have hmem : ∀ x, x ∈ all ↔ x ∈ pre ∨ x = j ∨ x ∈ js := by
          intro x; rw [hall]; simp
        have hkne : ∀ x ∈ pre, x.k ≠ j.k := fun x hx hh => hnotin (hh ▸ List.mem_map.2 ⟨x, hx, rfl⟩)
        have hjs : ∀ x ∈ js, x.k ≠ j.k ∧ x.k ∉ pre.map (·.k) := by
          intro x hx
          rw [hks] at hnd
          obtain ⟨_, h2, h3⟩ := List.nodup_append.1 hnd
          simp only [List.nodup_cons] at h2
          refine ⟨fun hh => h2.1 (hh ▸ List.mem_map.2 ⟨x, hx, rfl⟩), fun hh => ?_⟩
          exact h3 _ hh _ (by simp [List.mem_map]; exact .inr ⟨x, hx, rfl⟩) rfl
        have c2' : s2.now = l + j.cdur := by simpa [RtState.force] using c2
        have w := waitAll_spec all pre js j s s2 (l + j.cdur) hall c2' hsL
          (by
            intro x hx
            have hd := hinv.preDone x hx
            refine ⟨?_, hd⟩
            rw [c4 x ((hmem x).2 (.inl hx))]
            have hst : settled (s.force (l + j.cdur) ⟨j.k, l + j.cdur, .cancelled⟩) x = true := by
              simp only [settled, RtState.force, hkne x hx, if_false, Bool.or_eq_true]
              cases hf : s.forced x.k with
              | some e => simp
              | none =>
                simp only [isDone, hf] at hd
                exact .inr (doneBy_mono x hsL hd)
            rw [hst]; simp [RtState.force, hkne x hx])
          (by
            rw [c4 j ((hmem j).2 (.inr (.inl rfl)))]
            simp [settled, RtState.force])
          (by
            intro x hx
            obtain ⟨hx1, hx2⟩ := hjs x hx
            have hxf : s.forced x.k = none := by
              cases h : s.forced x.k with
              | none => rfl
              | some e => exact absurd (hinv.forcedIn _ _ h) hx2
            rw [c4 x ((hmem x).2 (.inr (.inr hx)))]
            simp only [settled, RtState.force, hx1, if_false, hxf, Option.isSome_none, Bool.false_or])
        obtain ⟨w0, w1, w2, w3⟩ := w
        refine ⟨(waitAll all (((deadline all : Nat) : Int) - ((l + j.cdur : Nat) : Int)) s2).1,
          .raise .cancelled, ?_, w1, w2, w3, fun _ => rfl, ?_⟩
        · simp only [excIs_cc, if_true, bind_apply, c1, rt_getTime, rt_waitAll, rt_headTimeout, c2',
            raise_apply, List.map_id']
          generalize waitAll all (((deadline all : Nat) : Int) - ((l + j.cdur : Nat) : Int)) s2 = r at w0 ⊢
          obtain ⟨r1, r2⟩ := r
          simp only at w0
          subst w0
          rfl
        · simp
      | none =>
        have hlim' : ∀ l, limit = some l → (j.wake s.now).1 ≤ l := cancelledBefore_none hcb
        simp only []
        rcases wake_res j s.now with hto | ⟨hdur, hfin⟩
        · -- time-out: the task is cancelled, TimeoutError is counted
          have hinv' : Inv limit (pre ++ [j]) (s.force (j.wake s.now).1 ⟨j.k, (j.wake s.now).1, .timeout⟩) :=
            hinv.snoc hnotin hge hlim' (fun k hk => by simp [RtState.force, hk]) (by simp [isDone, RtState.force])
          obtain ⟨s', o, h1, h2, h3, h4, h5, h6⟩ := ih (pre ++ [j]) _ (errcnt + 1) hall' hinv'
          simp only [List.map_append, List.map_cons, List.map_nil] at h4
          have h4a := (List.append_inj h4 (by simp)).1
          have h4b := (List.append_inj h4 (by simp)).2
          simp only [List.cons.injEq, and_true] at h4b
          refine ⟨s', o, ?_, ?_, ?_, ?_, ?_, ?_⟩
          · simpa [hto, RtState.force] using h1
          · simpa [RtState.force] using h2
          · simp only [List.map_cons, hto]
            rw [h4b]
            simp only [RtState.force] at h3
            simp [fateOf, RtState.force, h3]
          · rw [h4a]
            apply pre_fates hinv
            intro x hx
            have : x.k ≠ j.k := fun hh => hnotin (hh ▸ List.mem_map.2 ⟨x, hx, rfl⟩)
            simp [RtState.force, this]
          · simpa [RtState.force] using h5
          · simpa [RtState.force] using h6
        · -- the task ended by itself (returned or raised)
          have hdb : j.doneBy (j.wake s.now).1 = true := by simp [Job.doneBy, hdur]
          have hinv' : Inv limit (pre ++ [j]) ⟨(j.wake s.now).1, s.forced⟩ :=
            hinv.snoc hnotin hge hlim' (fun _ _ => rfl) (by simp [isDone, hfnone, hdb])
          have key : ∀ e : Int, ∃ s' o,
              TrL.runTasks_for1 (rtPrims limit) all () 0 js e ⟨(j.wake s.now).1, s.forced⟩ = (s', o) ∧
              s'.now = (awaitJobs limit (deadline all) (j.wake s.now).1 js).2.1 ∧
              (j :: js).map (fateOf s') = ⟨j.k, (j.wake s.now).1, (j.wake s.now).2⟩ :: (awaitJobs limit (deadline all) (j.wake s.now).1 js).1 ∧
              pre.map (fateOf s') = pre.map (fateOf s) ∧
              ((awaitJobs limit (deadline all) (j.wake s.now).1 js).2.2 = true → o = .raise .cancelled) ∧
              ((awaitJobs limit (deadline all) (j.wake s.now).1 js).2.2 = false → ∃ n, o = .next n) := by
            intro e
            obtain ⟨s', o, h1, h2, h3, h4, h5, h6⟩ := ih (pre ++ [j]) _ e hall' hinv'
            simp only [List.map_append, List.map_cons, List.map_nil] at h4
            have h4a := (List.append_inj h4 (by simp)).1
            have h4b := (List.append_inj h4 (by simp)).2
            simp only [List.cons.injEq, and_true] at h4b
            refine ⟨s', o, h1, h2, ?_, ?_, h5, h6⟩
            · simp only [List.map_cons, h3]
              rw [h4b]
              simp [fateOf, hfnone, hdur, hfin]
            · rw [h4a]
              exact pre_fates hinv (fun _ _ => rfl)
          rcases fin_cases j with ⟨hf1, hok⟩ | ⟨hf1, hok⟩
          · have key' := key errcnt
            rw [hfin, hf1] at key' ⊢
            simpa [hfnone, hok, hdb] using key'
          · have key' := key (errcnt + 1)
            rw [hfin, hf1] at key' ⊢
            simpa [hfnone, hok, hdb] using key'

/-- the whole of `_run_tasks` on freshly created tasks -/
theorem runTasks_spec (limit : Option Nat) (js : List Job) (hnd : (js.map (·.k)).Nodup) :
    ∃ s' o, TrL.runTasks (rtPrims limit) js ⟨0, fun _ => none⟩ = (s', o) ∧
      s'.now = (runTasks limit js).2.1 ∧
      (sortJobs js).map (fateOf s') = (runTasks limit js).1 ∧
      ((runTasks limit js).2.2 = true → o = .raise .cancelled) ∧
      ((runTasks limit js).2.2 = false → o = .next ()) := by
  have hnd' : ((sortJobs js).map (·.k)).Nodup :=
    (((sortJobs_perm js).map (·.k)).nodup_iff).2 hnd
  have hinv : Inv limit [] ⟨0, fun _ => none⟩ :=
    ⟨by intro k e h; simp at h, by simp, by intro l _; exact Nat.zero_le l⟩
  obtain ⟨s', o, h1, h2, h3, _, h5, h6⟩ :=
    loop_spec limit (sortJobs js) hnd' (sortJobs js) [] ⟨0, fun _ => none⟩ 0 (by simp) hinv
  unfold TrL.runTasks
  simp only [bind_apply, Int.natCast_zero, h1]
  cases hc : (runTasks limit js).2.2 with
  | true =>
    have ho := h5 hc
    subst ho
    exact ⟨s', _, rfl, h2, h3, fun _ => rfl, by simp⟩
  | false =>
    obtain ⟨n, ho⟩ := h6 hc
    subst ho
    refine ⟨s', .next (), ?_, h2, h3, by simp, fun _ => rfl⟩
    simp only []
    split <;> rfl

/-! ### `_stop_sblocks` -/

structure SbState where
  trace : List Ev
  cs : CState
  dur : Nat

/-- what awaiting `_run_tasks("stop", jobs)` means in the model: the first steps of the stop_async
    tasks, then their ends in the order of time (`awaitJobs`), and the time it takes -/
def asyncSegs (bs : List Blk) (failed inited : List Nat) (jobs : List Job) : List Ev × Nat :=
  let sabs := (jobs.map (·.k)).flatMap fun k =>
    if immediate bs failed inited k then [Ev.sab k, Ev.sae k (stopJob bs failed inited k).fin]
    else [Ev.sab k]
  let r := runTasks none jobs
  let saes := (sortEnds (r.1.filter fun e => !immediate bs failed inited e.k)).map
    fun e => Ev.sae e.k (seenRes bs e)
  (sabs ++ saes, r.2.1)

/-- the primitives of `_stop_sblocks` as the model understands them; `en` = the order in which a
    set is iterated, `oa` = the enumeration of the asynchronous set (for the control tasks that run
    while `_stop_sblocks` yields) -/
@[reducible] def sbPrims (bs : List Blk) (failed inited : List Nat) (en : List Nat → List Nat) (oa : List Nat) :
    TrL.StopPrims SbState TExc Nat Job where
  excIs := excIs
  enum := en
  isAddonAsync k := (blk bs k).kind == .async || (blk bs k).kind == .ainit || (blk bs k).kind == .aplain
    || (blk bs k).kind == .outa
  hasStopAsync k := (blk bs k).kind == .async || (blk bs k).kind == .outa || (blk bs k).kind == .aplain
  stopTimeout k := ((blk bs k).stopTimeout : Int)
  notIn l k := !l.contains k
  stop k := fun s =>
    (if (blk bs k).asyncStop then
        { s with trace := s.trace ++ [Ev.stop k], cs := { s.cs with stopped := s.cs.stopped ++ [k] } }
      else { s with trace := s.trace ++ (stopSync bs s.cs k).2, cs := (stopSync bs s.cs k).1 },
     if (blk bs k).fStop then .raise .failure else .next ())
  sleep0 := fun s =>
    ({ s with trace := s.trace ++ (oa.filter (outaDelivers bs inited)).map (Ev.out · true) }, .next ())
  stopTask k := stopJob bs failed inited k
  runTasksStop jobs := fun s =>
    ({ s with trace := s.trace ++ (asyncSegs bs failed inited jobs).1, dur := (asyncSegs bs failed inited jobs).2 },
     .next ())

section
variable (bs : List Blk) (failed inited : List Nat) (en : List Nat → List Nat) (oa : List Nat)

theorem sb_for1 : ∀ (l : List Nat) (s : SbState), (∀ k ∈ l, (blk bs k).asyncStop = true) →
    TrL.stopSblocks_for1 (sbPrims bs failed inited en oa) l s =
      ({ s with trace := s.trace ++ l.map Ev.stop, cs := { s.cs with stopped := s.cs.stopped ++ l } }, .next ()) := by
  intro l
  induction l with
  | nil => intro s _; simp [TrL.stopSblocks_for1, pure_apply]
  | cons k ks ih =>
    intro s h
    have hk : (blk bs k).asyncStop = true := h k (by simp)
    unfold TrL.stopSblocks_for1
    simp only [bind_apply, tryExcept_apply, pure_apply, hk, if_true]
    cases (blk bs k).fStop with
    | true =>
      simp only [if_true, excIs_fe, pure_apply]
      rw [ih _ (fun x hx => h x (by simp [hx]))]
      simp
    | false =>
      simp only [Bool.false_eq_true, if_false]
      rw [ih _ (fun x hx => h x (by simp [hx]))]
      simp

theorem sb_for2 : ∀ (l : List Nat) (s : SbState), (∀ k ∈ l, (blk bs k).asyncStop = false) →
    TrL.stopSblocks_for2 (sbPrims bs failed inited en oa) l s =
      (⟨s.trace ++ (stopSyncAll bs s.cs l).2, (stopSyncAll bs s.cs l).1, s.dur⟩, .next ()) := by
  intro l
  induction l with
  | nil => intro s _; simp [TrL.stopSblocks_for2, pure_apply, stopSyncAll]
  | cons k ks ih =>
    intro s h
    have hk : (blk bs k).asyncStop = false := h k (by simp)
    unfold TrL.stopSblocks_for2
    simp only [bind_apply, tryExcept_apply, pure_apply, hk, Bool.false_eq_true, if_false]
    cases (blk bs k).fStop with
    | true =>
      simp only [if_true, excIs_fe, pure_apply]
      rw [ih _ (fun x hx => h x (by simp [hx]))]
      simp [stopSyncAll]
    | false =>
      simp only [Bool.false_eq_true, if_false]
      rw [ih _ (fun x hx => h x (by simp [hx]))]
      simp [stopSyncAll]

end

/-- the set comprehension of `_stop_sblocks` is the model's asynchronous set … -/
theorem async_filter_eq (bs : List Blk) (started : List Nat) :
    List.filter (fun k => ((blk bs k).kind == .async || (blk bs k).kind == .outa || (blk bs k).kind == .aplain) &&
        decide (((blk bs k).stopTimeout : Int) > (0 : Int)))
      (List.filter (fun k => (blk bs k).kind == .async || (blk bs k).kind == .ainit || (blk bs k).kind == .aplain
        || (blk bs k).kind == .outa) started) = setA bs started := by
  rw [List.filter_filter, setA]
  apply List.filter_congr
  intro k _
  simp only [Blk.asyncStop]
  cases (blk bs k).kind <;> simp

/-- … and `blocks.difference(async_blocks)` the synchronous one -/
theorem sync_filter_eq (bs : List Blk) (started : List Nat) :
    List.filter (fun k => !(setA bs started).contains k) started = setS bs started := by
  rw [setS]
  apply List.filter_congr
  intro k hk
  simp [setA, hk]

theorem asyncSegs_eq (bs : List Blk) (failed inited oa : List Nat) :
    asyncSegs bs failed inited (oa.map (stopJob bs failed inited)) =
      ((oa.flatMap fun k =>
          if immediate bs failed inited k then [Ev.sab k, Ev.sae k (stopJob bs failed inited k).fin]
          else [Ev.sab k]) ++
        (sortEnds ((runTasks none (oa.map (stopJob bs failed inited))).1.filter
          fun e => !immediate bs failed inited e.k)).map fun e => Ev.sae e.k (seenRes bs e),
       (runTasks none (oa.map (stopJob bs failed inited))).2.1) := by
  unfold asyncSegs
  simp only [List.map_map, Function.comp_def, stopJob_k, List.map_id']

/-- the translated `_stop_sblocks`, run on the set `started` with the model's primitives, IS the
    model's `stopSblocks` for the orders in which the two sets are iterated -/
theorem stopSblocks_spec (bs : List Blk) (failed inited started timers0 : List Nat)
    (en : List Nat → List Nat) (hen : ∀ l, (en l).Perm l) :
    TrL.stopSblocks (sbPrims bs failed inited en (en (setA bs started))) started
        ⟨[], { timers := timers0, stopped := [], started := started }, 0⟩ =
      (⟨(Lifecycle.stopSblocks bs failed inited started timers0 (en (setA bs started)) (en (setS bs started))).trace,
        (Lifecycle.stopSblocks bs failed inited started timers0 (en (setA bs started)) (en (setS bs started))).st,
        (Lifecycle.stopSblocks bs failed inited started timers0 (en (setA bs started)) (en (setS bs started))).dur⟩,
       .next ()) := by
  have hA : ∀ k ∈ en (setA bs started), (blk bs k).asyncStop = true := by
    intro k hk
    have := ((hen _).mem_iff).1 hk
    simp only [setA, List.mem_filter] at this
    exact this.2
  have hS : ∀ k ∈ en (setS bs started), (blk bs k).asyncStop = false := by
    intro k hk
    have := ((hen _).mem_iff).1 hk
    simp only [setS, List.mem_filter, Bool.not_eq_true'] at this
    exact this.2
  unfold TrL.stopSblocks
  simp only [async_filter_eq, sync_filter_eq]
  by_cases hemp : setA bs started = []
  · have hoa : en [] = [] := List.Perm.eq_nil (hen [])
    simp only [hemp, List.isEmpty_nil, Bool.not_true, Bool.false_eq_true, if_false, bind_apply, pure_apply]
    rw [sb_for2 _ _ _ _ _ _ _ hS]
    simp [Lifecycle.stopSblocks, hoa, hemp, runTasks, awaitJobs, sortJobs, sortEnds]
  · have hne : (setA bs started).isEmpty = false := by
      cases h : setA bs started with
      | nil => exact absurd h hemp
      | cons _ _ => rfl
    simp only [hne, Bool.not_false, if_true, bind_apply, pure_apply]
    rw [sb_for1 _ _ _ _ _ _ _ hA]
    simp only [asyncSegs_eq]
    rw [sb_for2 _ _ _ _ _ _ _ hS]
    simp [Lifecycle.stopSblocks]

/-! ### `run_forever` -/

/-- where the try block of run_forever is left, by the model's plan -/
theorem plan_phase_cases (c : Cfg) :
    ((startLoop 0 c.blocks).2.2 = true ∧ (plan c).phase = .startFailed ∧ (plan c).isError = true) ∨
    ((startLoop 0 c.blocks).2.2 = false ∧ (plan c).phase = .afterStart) ∨
    ((startLoop 0 c.blocks).2.2 = false ∧ (plan c).phase = .asyncInit) ∨
    ((startLoop 0 c.blocks).2.2 = false ∧ (plan c).phase = .initFailed ∧ (plan c).isError = true) ∨
    ((startLoop 0 c.blocks).2.2 = false ∧ (plan c).phase = .evalFailed ∧ (plan c).isError = true) ∨
    ((startLoop 0 c.blocks).2.2 = false ∧ (plan c).phase = .running) := by
  obtain ⟨a, b, d, e, x, h1, h2⟩ : ∃ a b d e x,
      (plan c).phase = phaseOf (startLoop 0 c.blocks).2.2 a b d e ∧
      (plan c).isError = (match (plan c).phase with
        | .startFailed | .initFailed | .evalFailed => true
        | _ => x) := ⟨_, _, _, _, _, rfl, rfl⟩
  rw [h2, h1]
  cases (startLoop 0 c.blocks).2.2 <;> cases a <;> cases b <;> cases d <;> cases e <;> simp [phaseOf]

/-- `except Class` for the two kinds of errors the model distinguishes -/
def errIs : Err → String → Bool
  | .cancelled, c => c == "asyncio.CancelledError"
  | .failure, c => c == "Exception"

@[simp] theorem errIs_cc : errIs .cancelled "asyncio.CancelledError" = true := by decide
@[simp] theorem errIs_ce : errIs .cancelled "Exception" = false := by decide
@[simp] theorem errIs_fc : errIs .failure "asyncio.CancelledError" = false := by decide
@[simp] theorem errIs_fe : errIs .failure "Exception" = true := by decide

structure RfState where
  simtask : Bool := false            -- `self._simtask is not None`
  error : Option Err := none         -- `self._error`
  started : List Nat := []           -- the local `started_blocks`
  startOk : Bool := false            -- the local `start_ok`
  trace : List Ev := []
  storage : List Nat := []
  timers : List Nat := []
  endTime : Nat := 0
  pending : Bool := false            -- a cancellation of the simulation task is still to be delivered

/-- `Circuit.abort(exc)` by whoever terminates the simulation: recorded only if nothing was recorded -/
def abortBy (p : Plan) (s : RfState) : RfState :=
  { s with error := match s.error with
      | some e => some e
      | none => some (if p.isError then .failure else .cancelled) }

/-- the primitives of `run_forever`: WHERE the try block is left is read off the model's plan
    (`(plan c).phase`); what follows from it is the translated skeleton's business -/
@[reducible] def rfPrims (c : Cfg) : TrL.RunForeverPrims RfState Err Nat where
  mkExc _ _ := .failure
  excIs := errIs
  enum := id
  simtaskSet s := s.simtask
  simtaskDone _ := false
  testEager := M.pure ()
  setSimtask := fun s => ({ s with simtask := true }, .next ())
  getStartedBlocks := fun s => (s, .next s.started)
  setStartedBlocks l := fun s => ({ s with started := l }, .next ())
  addStartedBlocks k := fun s => ({ s with started := s.started ++ [k] }, .next ())
  getStartOk := fun s => (s, .next s.startOk)
  setStartOk b := fun s => ({ s with startOk := b }, .next ())
  getError s := s.error
  setError e := fun s => ({ s with error := some e }, .next ())
  errIsCancelled s := s.error == some .cancelled
  noBlocks _ := c.blocks.isEmpty
  newQueue := M.pure ()
  newInitDone := M.pure ()
  checkPersistentData := M.pure ()
  resolve := M.pure ()
  finalize := M.pure ()
  allBlocks := List.range c.blocks.length
  start k := fun s =>
    if (blk c.blocks k).fStart then ({ s with trace := s.trace ++ [Ev.start k] }, .raise .failure)
    else ({ s with trace := s.trace ++ [Ev.start k, Ev.started k] }, .next ())
  sleep0 := fun s =>
    if s.error.isNone then
      -- the yield after the start loop
      if (plan c).phase == .afterStart then (abortBy (plan c) s, .raise .cancelled) else (s, .next ())
    else
      -- the yield that delivers a pending cancellation
      if s.pending then ({ s with pending := false }, .raise .cancelled) else (s, .next ())
  initSync1 := M.pure ()
  initAsync := fun s =>
    if (plan c).phase == .asyncInit then (abortBy (plan c) s, .raise .cancelled) else (s, .next ())
  initSync2 := fun s =>
    if (plan c).phase == .initFailed then (s, .raise .failure)
    else ({ s with storage := storageAtStop c.blocks (plan c) }, .next ())   -- the states are saved after the initialisation
  initDoneSet := M.pure ()
  simulate := fun s =>
    if (plan c).phase == .evalFailed then (s, .raise .failure)
    else if (plan c).pendingCancel then
      -- abort() called inside the simulation task, then an exception: the cancellation stays pending
      ({ abortBy (plan c) { s with trace := s.trace ++ (plan c).puts } with pending := true }, .raise .failure)
    else (abortBy (plan c) { s with trace := s.trace ++ (plan c).puts }, .raise .cancelled)
  storageSet _ := true
  isPersistence _ := true
  saveState k := fun s =>
    ({ s with storage := (saveOneF c.storageFault c.blocks (consumePending (plan c)) s.storage k).1 },
     if (saveOneF c.storageFault c.blocks (consumePending (plan c)) s.storage k).2 then .raise .failure else .next ())
  stampStopTime := fun s => (s, if c.storageFault = .none then .next () else .raise .failure)
  stopSblocks blocks := fun s =>
    if s.pending && !c.oa.isEmpty then
      ({ s with trace := s.trace ++ c.oa.map Ev.stop, timers := (plan c).timers, endTime := (plan c).termTime },
       .raise .cancelled)
    else
      ({ s with
          trace := s.trace ++ (Lifecycle.stopSblocks c.blocks (plan c).failed (plan c).inited blocks
            (plan c).timers c.oa c.os).trace
          timers := (Lifecycle.stopSblocks c.blocks (plan c).failed (plan c).inited blocks
            (plan c).timers c.oa c.os).st.timers
          endTime := (plan c).termTime + (Lifecycle.stopSblocks c.blocks (plan c).failed (plan c).inited blocks
            (plan c).timers c.oa c.os).dur },
       .next ())

/-- the state in which run_forever is entered -/
def rfInit (c : Cfg) : RfState :=
  { error := if c.cause.before then some (if c.cause.kind.isError then .failure else .cancelled) else none
    storage := storage0 c.blocks }

theorem drop_cons_getD {α : Type} (l : List α) (d : α) : ∀ (i : Nat) (b : α) (rest : List α),
    l.drop i = b :: rest → l.getD i d = b ∧ l.drop (i + 1) = rest := by
  induction l with
  | nil => intro i b rest h; simp at h
  | cons a as ih =>
    intro i b rest h
    cases i with
    | zero => simp at h; simp [h.1, h.2]
    | succ i => simpa using ih i b rest (by simpa using h)

/-- the start loop of run_forever is the model's `startLoop` -/
theorem rf_startLoop (c : Cfg) : ∀ (l : List Blk) (i : Nat) (s : RfState), c.blocks.drop i = l →
    TrL.runForever_for1 (rfPrims c) (List.range' i l.length) s =
      ({ s with trace := s.trace ++ (startLoop i l).1, started := s.started ++ (startLoop i l).2.1 },
       if (startLoop i l).2.2 then .raise .failure else .next ()) := by
  intro l
  induction l with
  | nil => intro i s _; simp [TrL.runForever_for1, pure_apply, startLoop]
  | cons b rest ih =>
    intro i s h
    obtain ⟨hb, hrest⟩ := drop_cons_getD c.blocks {} i b rest h
    have hb' : blk c.blocks i = b := hb
    simp only [List.length_cons, List.range'_succ]
    unfold TrL.runForever_for1 startLoop
    simp only [bind_apply, hb']
    cases b.fStart with
    | true => simp
    | false =>
      simp only [Bool.false_eq_true, if_false]
      rw [ih (i + 1) _ hrest]
      simp

theorem rf_saveLoop (c : Cfg) : ∀ (l : List Nat) (s : RfState),
    TrL.runForever_for2 (rfPrims c) l s =
      ({ s with storage := (saveAllF c.storageFault c.blocks (consumePending (plan c)) l s.storage).1 },
       if (saveAllF c.storageFault c.blocks (consumePending (plan c)) l s.storage).2 then .raise .failure
       else .next ()) := by
  intro l
  induction l with
  | nil => intro s; simp [TrL.runForever_for2, pure_apply, saveAllF]
  | cons k ks ih =>
    intro s
    unfold TrL.runForever_for2 saveAllF
    simp only [bind_apply]
    cases h : (saveOneF c.storageFault c.blocks (consumePending (plan c)) s.storage k).2 with
    | true => simp
    | false => simp [ih]

theorem startLoop_all : ∀ (l : List Blk) (i : Nat), (startLoop i l).2.2 = false →
    (startLoop i l).2.1 = List.range' i l.length := by
  intro l
  induction l with
  | nil => intro i _; simp [startLoop]
  | cons b rest ih =>
    intro i h
    unfold startLoop at h ⊢
    cases hb : b.fStart with
    | true => simp [hb] at h
    | false =>
      simp only [hb, Bool.false_eq_true, if_false] at h ⊢
      simp [ih (i + 1) h, List.range'_succ]

theorem plan_puts_eq (c : Cfg) :
    (plan c).puts = (putBlocksOf c.blocks (plan c).started (plan c).phase).flatMap
      (fun k => Ev.out k false :: chain c.blocks k) := rfl

theorem plan_termTime (c : Cfg) : ∃ x y, (plan c).termTime = (match (plan c).phase with
    | .startFailed | .afterStart | .notStarted => 0
    | .running => x
    | .asyncInit | .initFailed | .evalFailed => y) := ⟨_, _, rfl⟩

theorem plan_timers_nil (c : Cfg) (h : (plan c).started = []) : (plan c).timers = [] := by
  obtain ⟨pass1, pass2, ph, hpt⟩ := plan_timers c
  rw [hpt, h]
  simp [initTimers, putBlocksOf, armAll]

@[simp] theorem consumePending_phase (p : Plan) : (consumePending p).phase = p.phase := rfl
@[simp] theorem consumePending_started (p : Plan) : (consumePending p).started = p.started := rfl

@[simp] theorem filter_const_true {α : Type} (l : List α) : List.filter (fun _ => true) l = l := by
  induction l with
  | nil => rfl
  | cons a as ih => simp [ih]

/-- `len(x) > 0` is `bool(x)` -/
@[simp] theorem decide_len_pos {α : Type} (l : List α) : decide (((l.length : Nat) : Int) > 0) = !l.isEmpty := by
  cases l <;> simp

theorem run_more (c : Cfg) (r : Result) (h : runForever c = some r) (hb : c.cause.before = false) :
    r.startOk = ((plan c).phase != .startFailed && (plan c).phase != .afterStart) ∧
    r.error = some (if (plan c).isError then .failure else .cancelled) ∧
    r.storage = saveStep c.storageFault c.blocks (consumePending (plan c))
      (storageAtStop c.blocks (consumePending (plan c))) := by
  unfold runForever at h
  simp only [hb, Bool.false_eq_true, if_false] at h
  unfold finish at h
  simp only [consumePending, second_any_false, Bool.or_false, Bool.false_and, Bool.false_eq_true, if_false] at h
  split at h
  · simp at h
  · simp only [Option.some.injEq] at h
    subst h
    exact ⟨rfl, rfl, rfl⟩

theorem saveStep_eq (f : SFault) (bs : List Blk) (p : Plan) (st : List Nat) :
    saveStep f bs p st = if (p.phase != .startFailed && p.phase != .afterStart) then (saveAllF f bs p p.started st).1 else st := rfl

theorem storageAtStop_eq (bs : List Blk) (p : Plan) :
    storageAtStop bs (consumePending p) = storageAtStop bs p := rfl

/-- the translated `run_forever`, with the try block left where the model's plan says, does what the
    model's `runForever` does: same events, same started set, `start_ok`, recorded error, storage,
    pending timers, end time; it ends by raising the recorded error, with no cancellation pending -/
theorem runForever_spec (c : Cfg) (r : Result) (h : runForever c = some r) (hne : c.blocks.isEmpty = false) :
    ∃ s' e, TrL.runForever (rfPrims c) (rfInit c) = (s', .raise e) ∧ r.error = some e ∧ s'.error = some e ∧
      s'.trace = r.trace ∧ s'.started = r.started ∧ s'.startOk = r.startOk ∧ s'.storage = r.storage ∧
      s'.timers = r.timers ∧ s'.endTime = r.endTime ∧ s'.pending = false := by
  cases hb : c.cause.before with
  | true =>
    unfold runForever at h
    simp only [hb, if_true, Option.some.injEq] at h
    subst h
    unfold TrL.runForever
    cases hk : c.cause.kind.isError <;>
      (simp [rfInit, hb, hk, bind_apply, get_apply, pure_apply, raise_apply, tryExcept_apply]
       exact ⟨_, _, ⟨rfl, rfl⟩, rfl, rfl, rfl, rfl, rfl, rfl, rfl, rfl, rfl⟩)
  | false =>
    obtain ⟨hso, herr, hsto⟩ := run_more c r h hb
    have sp := run_spec c r h hb
    have hrange : List.range c.blocks.length = List.range' 0 c.blocks.length := List.range_eq_range'
    have hsl := fun s => rf_startLoop c c.blocks 0 s (by simp)
    have hpc : (plan c).pendingCancel = true → (plan c).phase = .running := by
      intro hp
      have : (plan c).pendingCancel = ((plan c).phase == .running && _ && _ && _) := rfl
      rw [this] at hp
      simp only [Bool.and_eq_true, beq_iff_eq] at hp
      exact hp.1.1.1
    obtain ⟨tx, ty, htt⟩ := plan_termTime c
    have hall : (startLoop 0 c.blocks).2.2 = false → (startLoop 0 c.blocks).2.1 ≠ [] := by
      intro hf
      rw [startLoop_all _ _ hf]
      cases hbl : c.blocks with
      | nil => simp [hbl] at hne
      | cons _ _ => simp [List.range'_succ]
    unfold TrL.runForever
    rcases plan_phase_cases c with ⟨hsf, hph, hie⟩ | ⟨hsf, hph⟩ | ⟨hsf, hph⟩ | ⟨hsf, hph, hie⟩ | ⟨hsf, hph, hie⟩ | ⟨hsf, hph⟩
    · -- a start() raised
      have hputs : (plan c).puts = [] := by rw [plan_puts_eq, hph]; simp [putBlocksOf]
      have htt' : (plan c).termTime = 0 := by rw [htt, hph]
      have hsas : storageAtStop c.blocks (plan c) = storage0 c.blocks := by simp [storageAtStop, hph]
      by_cases hst : (startLoop 0 c.blocks).2.1 = []
      · have hst' : (plan c).started = [] := hst
        have hoa : c.oa = [] := by
          have := sp.permA; rw [hst'] at this; exact List.Perm.eq_nil (by simpa [setA] using this)
        have hos : c.os = [] := by
          have := sp.permS; rw [hst'] at this; exact List.Perm.eq_nil (by simpa [setS] using this)
        simp [rfInit, hb, hne, bind_apply, get_apply, pure_apply, raise_apply, tryExcept_apply, ite_apply',
          hrange, hsl, hsf, hph, sp.trace, sp.started, sp.timers, sp.endTime, hso, herr, hsto,
          plan_startEvs, plan_started, saveStep_eq, storageAtStop_eq, abortBy, rf_saveLoop, hputs, htt', hie, hst, hsas, hoa, hos, plan_timers_nil c hst',
          Lifecycle.stopSblocks, runTasks, awaitJobs, sortJobs, sortEnds, stopSyncAll]
        exact ⟨_, _, ⟨rfl, rfl⟩, rfl, rfl, rfl, rfl, rfl, rfl, rfl, rfl, rfl⟩
      · simp [rfInit, hb, hne, bind_apply, get_apply, pure_apply, raise_apply, tryExcept_apply, ite_apply',
          hrange, hsl, hsf, hph, sp.trace, sp.started, sp.timers, sp.endTime, hso, herr, hsto,
          plan_startEvs, plan_started, saveStep_eq, storageAtStop_eq, abortBy, rf_saveLoop, hputs, htt', hie, hst, hsas]
        exact ⟨_, _, ⟨rfl, rfl⟩, rfl, rfl, rfl, rfl, rfl, rfl, rfl, rfl, rfl⟩
    · -- the request arrives while run_forever yields after the start loop
      have hputs : (plan c).puts = [] := by rw [plan_puts_eq, hph]; simp [putBlocksOf]
      have htt' : (plan c).termTime = 0 := by rw [htt, hph]
      have hsas : storageAtStop c.blocks (plan c) = storage0 c.blocks := by simp [storageAtStop, hph]
      cases hie : (plan c).isError <;>
        (simp [rfInit, hb, hne, bind_apply, get_apply, pure_apply, raise_apply, tryExcept_apply, ite_apply',
          hrange, hsl, hsf, hph, sp.trace, sp.started, sp.timers, sp.endTime, hso, herr, hsto,
          plan_startEvs, plan_started, saveStep_eq, storageAtStop_eq, abortBy, rf_saveLoop, hputs, htt', hall hsf, hsas, hie]
         first
           | exact ⟨_, _, ⟨rfl, rfl⟩, rfl, rfl, rfl, rfl, rfl, rfl, rfl, rfl, rfl⟩
           | exact ⟨_, _, ⟨rfl, rfl⟩, rfl, rfl, rfl, rfl, by decide, rfl, rfl, rfl, rfl⟩)
    · -- … during the asynchronous initialisation
      have hputs : (plan c).puts = [] := by rw [plan_puts_eq, hph]; simp [putBlocksOf]
      have htt' : (plan c).termTime = ty := by rw [htt, hph]
      have hsas : storageAtStop c.blocks (plan c) = storage0 c.blocks := by simp [storageAtStop, hph]
      have hab_or := fun (st : List Nat) => Bool.eq_false_or_eq_true
        (saveAllF c.storageFault c.blocks (consumePending (plan c)) (startLoop 0 c.blocks).2.1 st).2
      cases hsn : c.storageFault <;>
      rcases hab_or (storage0 c.blocks) with hab | hab <;>
      (try rw [hsn] at hab) <;>
      cases hie : (plan c).isError <;>
        (simp [rfInit, hb, hne, bind_apply, get_apply, pure_apply, raise_apply, tryExcept_apply, ite_apply',
          hrange, hsl, hsf, hph, sp.trace, sp.started, sp.timers, sp.endTime, hso, herr, hsto,
          plan_startEvs, plan_started, saveStep_eq, storageAtStop_eq, abortBy, rf_saveLoop, hputs, htt', hall hsf, hsas, hie, hab, hsn]
         first
           | exact ⟨_, _, ⟨rfl, rfl⟩, rfl, rfl, rfl, rfl, rfl, rfl, rfl, rfl, rfl⟩
           | exact ⟨_, _, ⟨rfl, rfl⟩, rfl, rfl, rfl, rfl, by decide, rfl, rfl, rfl, rfl⟩)
    · -- the second initialisation pass fails
      have hputs : (plan c).puts = [] := by rw [plan_puts_eq, hph]; simp [putBlocksOf]
      have htt' : (plan c).termTime = ty := by rw [htt, hph]
      have hsas : storageAtStop c.blocks (plan c) = storage0 c.blocks := by simp [storageAtStop, hph]
      have hab_or := fun (st : List Nat) => Bool.eq_false_or_eq_true
        (saveAllF c.storageFault c.blocks (consumePending (plan c)) (startLoop 0 c.blocks).2.1 st).2
      cases hsn : c.storageFault <;>
      rcases hab_or (storage0 c.blocks) with hab | hab <;>
      (try rw [hsn] at hab) <;>
      
        (simp [rfInit, hb, hne, bind_apply, get_apply, pure_apply, raise_apply, tryExcept_apply, ite_apply',
          hrange, hsl, hsf, hph, sp.trace, sp.started, sp.timers, sp.endTime, hso, herr, hsto,
          plan_startEvs, plan_started, saveStep_eq, storageAtStop_eq, abortBy, rf_saveLoop, hputs, htt', hall hsf, hsas, hie, hab, hsn]
         first
           | exact ⟨_, _, ⟨rfl, rfl⟩, rfl, rfl, rfl, rfl, rfl, rfl, rfl, rfl, rfl⟩
           | exact ⟨_, _, ⟨rfl, rfl⟩, rfl, rfl, rfl, rfl, by decide, rfl, rfl, rfl, rfl⟩)
    · -- the first evaluation fails
      have hputs : (plan c).puts = [] := by rw [plan_puts_eq, hph]; simp [putBlocksOf]
      have htt' : (plan c).termTime = ty := by rw [htt, hph]
      have hab_or := fun (st : List Nat) => Bool.eq_false_or_eq_true
        (saveAllF c.storageFault c.blocks (consumePending (plan c)) (startLoop 0 c.blocks).2.1 st).2
      cases hsn : c.storageFault <;>
      rcases hab_or (storageAtStop c.blocks (plan c)) with hab | hab <;>
      (try rw [hsn] at hab) <;>
      
        (simp [rfInit, hb, hne, bind_apply, get_apply, pure_apply, raise_apply, tryExcept_apply, ite_apply',
          hrange, hsl, hsf, hph, sp.trace, sp.started, sp.timers, sp.endTime, hso, herr, hsto,
          plan_startEvs, plan_started, saveStep_eq, storageAtStop_eq, abortBy, rf_saveLoop, hputs, htt', hall hsf, hie, hab, hsn]
         first
           | exact ⟨_, _, ⟨rfl, rfl⟩, rfl, rfl, rfl, rfl, rfl, rfl, rfl, rfl, rfl⟩
           | exact ⟨_, _, ⟨rfl, rfl⟩, rfl, rfl, rfl, rfl, by decide, rfl, rfl, rfl, rfl⟩)
    · -- the circuit runs until the request (possibly made inside the simulation task, with an exception after it)
      have hputs : (plan c).puts = (plan c).puts := rfl
      have htt' : (plan c).termTime = tx := by rw [htt, hph]
      have hab_or := fun (st : List Nat) => Bool.eq_false_or_eq_true
        (saveAllF c.storageFault c.blocks (consumePending (plan c)) (startLoop 0 c.blocks).2.1 st).2
      cases hsn : c.storageFault <;>
      rcases hab_or (storageAtStop c.blocks (plan c)) with hab | hab <;>
      (try rw [hsn] at hab) <;>
      cases hie : (plan c).isError <;> cases hpe : (plan c).pendingCancel <;>
        (simp [rfInit, hb, hne, bind_apply, get_apply, pure_apply, raise_apply, tryExcept_apply, ite_apply',
          hrange, hsl, hsf, hph, sp.trace, sp.started, sp.timers, sp.endTime, hso, herr, hsto,
          plan_startEvs, plan_started, saveStep_eq, storageAtStop_eq, abortBy, rf_saveLoop, hputs, htt', hall hsf, hie, hpe, hab, hsn]
         first
           | exact ⟨_, _, ⟨rfl, rfl⟩, rfl, rfl, rfl, rfl, rfl, rfl, rfl, rfl, rfl⟩
           | exact ⟨_, _, ⟨rfl, rfl⟩, rfl, rfl, rfl, rfl, by decide, rfl, rfl, rfl, rfl⟩)

/-! #### primitives of run_forever that the model never lets fail

In reality `_test_eager_tasks`, `asyncio.Queue()`, `asyncio.Event()`, `_check_persistent_data`,
`_resolver.resolve`, `finalize` and the write of the stop time into the storage CAN raise.  Their
position relative to the `try:` of run_forever matters, so the tie also says what the translated
skeleton does when one of them fails. -/

inductive RfFault where
  | testEager | newQueue | newInitDone | checkPersistentData | resolve | finalize
  deriving DecidableEq, Repr

def failIf (b : Bool) : M RfState Err Unit Unit := fun s => if b then (s, .raise .failure) else (s, .next ())

@[reducible] def rfPrimsF (c : Cfg) (f : RfFault) : TrL.RunForeverPrims RfState Err Nat :=
  { rfPrims c with
    testEager := failIf (decide (f = .testEager))
    newQueue := failIf (decide (f = .newQueue))
    newInitDone := failIf (decide (f = .newInitDone))
    checkPersistentData := failIf (decide (f = .checkPersistentData))
    resolve := failIf (decide (f = .resolve))
    finalize := failIf (decide (f = .finalize)) }

theorem failIf_true (s : RfState) : failIf true s = (s, .raise .failure) := rfl
theorem failIf_false (s : RfState) : failIf false s = (s, .next ()) := rfl

theorem rfF_startLoop (c : Cfg) (f : RfFault) (l : List Nat) (s : RfState) :
    TrL.runForever_for1 (rfPrimsF c f) l s = TrL.runForever_for1 (rfPrims c) l s := by
  induction l generalizing s with
  | nil => rfl
  | cons k ks ih =>
    unfold TrL.runForever_for1
    simp only [bind_apply]
    cases (blk c.blocks k).fStart <;> simp [ih]

theorem rfF_saveLoop (c : Cfg) (f : RfFault) (l : List Nat) (s : RfState) :
    TrL.runForever_for2 (rfPrimsF c f) l s = TrL.runForever_for2 (rfPrims c) l s := by
  induction l generalizing s with
  | nil => rfl
  | cons k ks ih =>
    unfold TrL.runForever_for2
    simp only [bind_apply, ih]

/-- a failure of one of the set-up steps inside the `try:` (queue, event, persistent data check,
    name resolution, finalisation) is recorded as the error of the simulation and raised; nothing
    was started, nothing is stopped, the storage is untouched -/
theorem prestart_failure_spec (c : Cfg) (f : RfFault) (hb : c.cause.before = false)
    (hne : c.blocks.isEmpty = false)
    (hf : f = .newQueue ∨ f = .newInitDone ∨ f = .checkPersistentData ∨ f = .resolve ∨ f = .finalize) :
    ∃ s', TrL.runForever (rfPrimsF c f) (rfInit c) = (s', .raise .failure) ∧ s'.error = some .failure ∧
      s'.simtask = true ∧ s'.started = [] ∧ s'.trace = [] ∧ s'.storage = storage0 c.blocks ∧ s'.startOk = false := by
  unfold TrL.runForever
  rcases hf with rfl | rfl | rfl | rfl | rfl <;>
    simp [rfInit, hb, hne, bind_apply, get_apply, pure_apply, raise_apply, tryExcept_apply, ite_apply',
      failIf_true, failIf_false]

/-- a failure of the eager-task test (before the `try:`, before `_simtask` is set) escapes and
    leaves the circuit untouched -/
theorem eager_failure_spec (c : Cfg) (s : RfState) (hs : s.simtask = false) :
    TrL.runForever (rfPrimsF c .testEager) s = (s, .raise .failure) := by
  unfold TrL.runForever
  simp [hs, bind_apply, get_apply, failIf_true]

/-! ### `_init_sblocks_async` -/

structure IaState where
  jobs : Option (List Job) := none      -- what was handed to `_run_tasks("async init", …)`

def initJobOf (bs : List Blk) (k : Nat) : Job :=
  ⟨k, some (blk bs k).initDur, (blk bs k).initTimeout, !(blk bs k).fInitAsync, (blk bs k).initCancelDur⟩

@[reducible] def iaPrims (bs : List Blk) : TrL.InitAsyncPrims IaState TExc Nat Job where
  asyncBlocks := (List.range bs.length).filter fun k =>
    (blk bs k).kind == .async || (blk bs k).kind == .ainit || (blk bs k).kind == .aplain || (blk bs k).kind == .outa
  isInitialized _ k := (blk bs k).restoredOk       -- after the first synchronous pass: restored or nothing
  hasInitAsync k := ((blk bs k).kind == .async || (blk bs k).kind == .ainit) && (blk bs k).hasInitAsync
  initTimeout k := ((blk bs k).initTimeout : Int)
  initTask k := initJobOf bs k
  runTasksInit jobs := fun _ => (⟨some jobs⟩, .next ())

theorem initJobs_suffix (bs : List Blk) : ∀ (l : List Blk) (i : Nat), bs.drop i = l →
    ((l.zipIdx i).map (fun p => (p.2, p.1))).filterMap (fun (k, b) =>
        if b.wantsInitAsync then some (⟨k, some b.initDur, b.initTimeout, !b.fInitAsync, b.initCancelDur⟩ : Job) else none) =
      ((List.range' i l.length).filter fun k => (blk bs k).wantsInitAsync).map (initJobOf bs) := by
  intro l
  induction l with
  | nil => intro i _; simp
  | cons b rest ih =>
    intro i h
    obtain ⟨hb, hrest⟩ := drop_cons_getD bs {} i b rest h
    have hb' : blk bs i = b := hb
    simp only [List.zipIdx_cons, List.map_cons, List.length_cons, List.range'_succ, List.filterMap_cons,
      List.filter_cons, hb']
    rw [ih (i + 1) hrest]
    cases b.wantsInitAsync with
    | true => simp [initJobOf, hb']
    | false => simp

theorem initJobs_eq (bs : List Blk) :
    initJobs bs = ((List.range bs.length).filter fun k => (blk bs k).wantsInitAsync).map (initJobOf bs) := by
  have := initJobs_suffix bs bs 0 (by simp)
  rw [List.range_eq_range']
  simpa [initJobs, Lifecycle.enum] using this

/-- the translated `_init_sblocks_async` hands exactly the model's `initJobs` to `_run_tasks`
    (in creation order), and does not call it when there is none -/
theorem initSblocksAsync_spec (bs : List Blk) :
    TrL.initSblocksAsync (iaPrims bs) {} =
      (⟨if (initJobs bs).isEmpty then none else some (initJobs bs)⟩, .next ()) := by
  have hfilter : List.filter (fun k => (!(blk bs k).restoredOk) &&
        (((blk bs k).kind == .async || (blk bs k).kind == .ainit) && (blk bs k).hasInitAsync) &&
        decide (((blk bs k).initTimeout : Int) > 0))
      (List.filter (fun k => (blk bs k).kind == .async || (blk bs k).kind == .ainit || (blk bs k).kind == .aplain
        || (blk bs k).kind == .outa) (List.range bs.length)) =
      List.filter (fun k => (blk bs k).wantsInitAsync) (List.range bs.length) := by
    rw [List.filter_filter]
    apply List.filter_congr
    intro k _
    simp only [Blk.wantsInitAsync]
    cases (blk bs k).kind <;> cases (blk bs k).hasInitAsync <;> cases (blk bs k).restoredOk <;> simp
  unfold TrL.initSblocksAsync
  simp only [bind_apply, get_apply, hfilter, ← initJobs_eq]
  cases h : (initJobs bs).isEmpty <;> simp [bind_apply, pure_apply]

end Edzed.LifecycleTie
