/-
C13: date-time notations whose parts (year, month, day, time of day) come in any order, the dashed
`YYYY-MM-DD` / `YYYY-mon-DD` forms before or after the time, and the time of day in any of the
traditional (colon) notations.  The time text is abstract (`TimeText`): whatever `_RE_TIME` matches as a
whole and `convert_time_str` accepts.  Core Lean only.
-/
import EdzedModel.Interval
import EdzedProofs.Interval
import EdzedProofs.IntervalText
import EdzedProofs.IntervalString
import EdzedProofs.IntervalNotations

namespace Edzed.Interval

/-! ### leftmost search: skipping a prefix on which the matcher fails -/

theorem searchGo_skip (m : List Char → Option Match) (A R pre : List Char)
    (hfail : ∀ A1 a A2, A = A1 ++ a :: A2 → m (a :: A2 ++ R) = none) :
    searchGo m pre (A ++ R) = searchGo m (A.reverse ++ pre) R := by
  induction A generalizing pre with
  | nil => rfl
  | cons a A' ih =>
    have h0 := hfail [] a A' rfl
    simp only [List.cons_append] at h0 ⊢
    simp only [searchGo, h0]
    rw [ih (a :: pre) (fun A1 b A2 h => hfail (a :: A1) b A2 (by simp [h]))]
    simp

theorem searchGo_hit (m : List Char → Option Match) (pre : List Char) (c : Char) (cs : List Char) (mt : Match)
    (h : m (c :: cs) = some mt) :
    searchGo m pre (c :: cs) = some (removeMatch pre ((c :: cs).drop mt.len), mt.groups) := by
  simp only [searchGo, h]

theorem hourColon_nondigit {a : Char} (h : isDigit a = false) (r : List Char) : hourColon (a :: r) = none := by
  match r with
  | [] => rfl
  | [b] => simp [hourColon, h]
  | b :: c :: r => simp [hourColon, h]

theorem hourColon_nocolon (a b c : Char) (r : List Char) (hb : (b == ':') = false) (hc : (c == ':') = false) :
    hourColon (a :: b :: c :: r) = none := by simp [hourColon, hb, hc]

/-- a text that `_RE_TIME` matches as a whole when the end of the string or a blank follows; it starts with
    a digit, is ASCII, has no surrounding whitespace and no capital `T` -/
structure TimeText (tt : List Char) : Prop where
  first : ∃ c r, tt = c :: r ∧ isDigit c = true
  ascii : asciiOk tt = true
  trimmed : trimmedB tt = true
  noT : 'T' ∉ tt
  whole : ∀ B, (B = [] ∨ ∃ r, B = ' ' :: r) → reTime (tt ++ B) = some ⟨tt.length, [tt]⟩

/-- `_RE_TIME.search` finds the time text behind any prefix without a colon that ends with a blank,
    and `_match_pattern` removes it -/
theorem search_reTime (A tt B : List Char) (hA : A = [] ∨ ∃ A0, A = A0 ++ [' '] ∧ ':' ∉ A0)
    (ht : TimeText tt) (hB : B = [] ∨ ∃ r, B = ' ' :: r) :
    search reTime (A ++ (tt ++ B)) = some (removeMatch A.reverse B, [tt]) := by
  obtain ⟨c, r, rfl, hc⟩ := ht.first
  have hfail : ∀ A1 a A2, A = A1 ++ a :: A2 → reTime (a :: A2 ++ (c :: r ++ B)) = none := by
    intro A1 a A2 h
    rcases hA with rfl | ⟨A0, rfl, hno⟩
    · simp at h
    · have hmem : ∀ x ∈ A1 ++ a :: A2, (x == ':') = false := by
        intro x hx
        rw [← h] at hx
        simp only [List.mem_append, List.mem_singleton] at hx
        rcases hx with hx | rfl
        · simp only [beq_eq_false_iff_ne, ne_eq]; intro e; exact hno (e ▸ hx)
        · decide
      have hlast := congrArg List.getLast? h
      suffices hq : hourColon (a :: A2 ++ (c :: r ++ B)) = none by unfold reTime; rw [hq]
      match A2, hmem, hlast with
      | [], _, hlast =>
        simp at hlast
        subst hlast
        exact hourColon_nondigit (by decide) _
      | [b], _, hlast =>
        simp at hlast
        subst hlast
        simp [hourColon]
      | b :: c' :: A3, hmem, _ =>
        exact hourColon_nocolon _ _ _ _ (hmem b (by simp)) (hmem c' (by simp))
  unfold search
  rw [searchGo_skip reTime A (c :: r ++ B) [] hfail]
  have hw := ht.whole B hB
  simp only [List.cons_append] at hw ⊢
  rw [searchGo_hit _ _ _ _ _ hw]
  have : List.drop (c :: r).length (c :: (r ++ B)) = B := by
    rw [← List.cons_append]; exact List.drop_left
  simp only [List.append_nil, this]

/-- what `_convert_str(..., with_time=True)` does once the time has been taken out -/
def afterTime (s : List Char) (tm : Ep) : Res Ep :=
  let ymd : Res (List Char × Nat × Option (Nat × Nat)) :=
    match search reYMD s with
    | some (s, [y, mo, d]) =>
      if mo.all isDigit then .ok (s, numOf y, some (numOf mo, numOf d))
      else (match nameToMonth mo with
            | some m => .ok (s, numOf y, some (m, numOf d))
            | none => .err .value)
    | some _ => .unsupported
    | none =>
      match search reYear s with
      | some (s, [y]) => .ok (s, numOf y, none)
      | _ => .err .value
  ymd.bind fun (s, y, md) =>
    let md' : Res (List Char × Nat × Nat) :=
      match md with
      | some (mo, d) => .ok (s, mo, d)
      | none => monthDay s
    md'.bind fun (rest, mo, d) =>
      if (strip rest).isEmpty then .ok ([y, mo, d] ++ tm) else .err .value

theorem dateTimeRaw_eq (s : List Char) :
    dateTimeRaw s = match search reTime s with
      | some (s, [t]) => (convertTimeStr t).bind fun tm => afterTime s tm
      | _ => .err .value := by
  rfl

theorem dateTimeRaw_time (A tt B : List Char) (tm : Ep) (hA : A = [] ∨ ∃ A0, A = A0 ++ [' '] ∧ ':' ∉ A0)
    (ht : TimeText tt) (hB : B = [] ∨ ∃ r, B = ' ' :: r) (hc : convertStr .time tt = .ok tm) :
    dateTimeRaw (A ++ (tt ++ B)) = afterTime (removeMatch A.reverse B) tm := by
  have hc' : convertTimeStr tt = .ok tm := by
    simpa [convertStr, ht.ascii] using hc
  rw [dateTimeRaw_eq, search_reTime A tt B hA ht hB]
  simp only [hc', Res.bind_ok]

/-! ### all orders of a list of parts -/

def insertAll {α : Type} (x : α) : List α → List (List α)
  | [] => [[x]]
  | y :: ys => (x :: y :: ys) :: (insertAll x ys).map (y :: ·)

/-- all permutations of a list (each element inserted at every position of every permutation of the rest) -/
def perms {α : Type} : List α → List (List α)
  | [] => [[]]
  | x :: xs => (perms xs).flatMap (insertAll x)

theorem mem_insertAll {α : Type} {x : α} {l ts : List α} (h : ts ∈ insertAll x l) :
    ∃ pre post, l = pre ++ post ∧ ts = pre ++ x :: post := by
  induction l generalizing ts with
  | nil =>
    simp only [insertAll, List.mem_singleton] at h
    exact ⟨[], [], rfl, by simp [h]⟩
  | cons y ys ih =>
    simp only [insertAll, List.mem_cons, List.mem_map] at h
    rcases h with rfl | ⟨t', ht', rfl⟩
    · exact ⟨[], y :: ys, rfl, rfl⟩
    · obtain ⟨pre, post, h1, h2⟩ := ih ht'
      exact ⟨y :: pre, post, by simp [h1], by simp [h2]⟩

theorem joinSp_cons_ne (a : List Char) {l : List (List Char)} (h : l ≠ []) :
    joinSp (a :: l) = a ++ ' ' :: joinSp l := by
  cases l with
  | nil => exact absurd rfl h
  | cons b rest => rfl

/-- a blank-separated text, split at one of its parts -/
theorem joinSp_split (pre post : List (List Char)) (x : List Char) :
    joinSp (pre ++ x :: post) =
      (if pre = [] then [] else joinSp pre ++ [' ']) ++ (x ++ (if post = [] then [] else ' ' :: joinSp post)) := by
  induction pre with
  | nil =>
    cases post with
    | nil => simp [joinSp]
    | cons p ps => simp [joinSp_cons_ne]
  | cons p ps ih =>
    rw [List.cons_append, joinSp_cons_ne p (by simp), ih]
    cases ps with
    | nil => simp [joinSp]
    | cons q qs => simp [joinSp_cons_ne]

theorem not_mem_joinSp {x : Char} (hx : x ≠ ' ') (l : List (List Char)) (h : ∀ t ∈ l, x ∉ t) : x ∉ joinSp l := by
  induction l with
  | nil => simp [joinSp]
  | cons a rest ih =>
    cases rest with
    | nil => simpa [joinSp] using h a (by simp)
    | cons b r =>
      rw [joinSp_cons_ne a (by simp)]
      simp only [List.mem_append, List.mem_cons, not_or]
      exact ⟨h a (by simp), hx, ih (fun t ht => h t (by simp [ht]))⟩

theorem asciiOk_joinSp (l : List (List Char)) (h : ∀ t ∈ l, asciiOk t = true) : asciiOk (joinSp l) = true := by
  induction l with
  | nil => rfl
  | cons a rest ih =>
    cases rest with
    | nil => simpa [joinSp] using h a (by simp)
    | cons b r =>
      rw [joinSp_cons_ne a (by simp), asciiOk_append, asciiOk_cons, h a (by simp),
        ih (fun t ht => h t (by simp [ht]))]
      rfl

theorem trimmedB_iff (s : List Char) :
    trimmedB s = true ↔ (s.head?.map isSpace = some false ∧ s.getLast?.map isSpace = some false) := by
  unfold trimmedB
  cases h1 : s.head? <;> cases h2 : s.getLast? <;> simp

theorem trimmedB_joinSp (l : List (List Char)) (hl : l ≠ []) (h : ∀ t ∈ l, trimmedB t = true) :
    trimmedB (joinSp l) = true := by
  induction l with
  | nil => exact absurd rfl hl
  | cons a rest ih =>
    cases rest with
    | nil => simpa [joinSp] using h a (by simp)
    | cons b r =>
      have ha := (trimmedB_iff a).1 (h a (by simp))
      have hr := (trimmedB_iff _).1 (ih (by simp) (fun t ht => h t (by simp [ht])))
      rw [joinSp_cons_ne a (by simp), trimmedB_iff]
      generalize joinSp (b :: r) = R at hr ⊢
      cases a with
      | nil => simp at ha
      | cons x a' =>
        cases R with
        | nil => simp at hr
        | cons y R' =>
          refine ⟨by simpa using ha.1, ?_⟩
          rw [List.getLast?_append, List.getLast?_cons_cons]
          cases hq : (y :: R').getLast? with
          | none => simp at hq
          | some z => rw [hq] at hr; simpa using hr.2

/-! ### year, month name, day and time of day in any order -/

theorem perms3 {α : Type} (x y z : α) :
    perms [x, y, z] = [[x, y, z], [y, x, z], [y, z, x], [x, z, y], [z, x, y], [z, y, x]] := rfl

theorem perms4_mem {α : Type} {t x y z : α} {ts : List α} (h : ts ∈ perms [t, x, y, z]) :
    ∃ three ∈ perms [x, y, z], ∃ pre post, three = pre ++ post ∧ ts = pre ++ t :: post := by
  have : perms [t, x, y, z] = (perms [x, y, z]).flatMap (insertAll t) := rfl
  rw [this, List.mem_flatMap] at h
  obtain ⟨three, h3, hi⟩ := h
  obtain ⟨pre, post, h1, h2⟩ := mem_insertAll hi
  exact ⟨three, h3, pre, post, h1, h2⟩

theorem split3 {α : Type} {x y z : α} {pre post : List α} (h : [x, y, z] = pre ++ post) :
    (pre = [] ∧ post = [x, y, z]) ∨ (pre = [x] ∧ post = [y, z]) ∨ (pre = [x, y] ∧ post = [z]) ∨
    (pre = [x, y, z] ∧ post = []) := by
  match pre, h with
  | [], h => simp at h; simp [h]
  | [p], h => simp at h; simp [h]
  | [p, q], h => simp at h; simp [h]
  | [p, q, r], h => simp at h; simp [h]
  | p :: q :: r :: u :: v, h => simp at h

@[simp] theorem colon_ne_digitChar (n : Nat) : ¬ ':' = digitChar n := by
  have := digitChar_ne_colon n
  simp only [beq_eq_false_iff_ne, ne_eq] at this
  exact fun h => this h.symm

open Lean.Parser.Tactic in
local macro "osimp" "[" ts:simpLemma,* "]" : tactic =>
  `(tactic| simp [afterTime, joinSp, search, searchGo, removeMatch, reYMD, reYear, take4digits, take2digits, monthDay,
      reIsoDM, reMonth, reDay, periodNext, digits12, numOf, strip, pad4, pad2, $ts,*])

/-- the day of the month written with one digit (days 1..9) or with two digits -/
def dayTokens (d : Nat) : List (List Char) := [natStr d, pad 2 d]

theorem any_order_core (a b c : Char) (ha : isAlpha a = true) (hb : isAlpha b = true) (hc : isAlpha c = true)
    {y mo d : Nat} {tm : Ep} {tt : List Char} (ht : TimeText tt) (hct : convertStr .time tt = .ok tm)
    (hv : validDateTime ([y, mo, d] ++ tm) = true) (hm : nameToMonth [a, b, c] = some mo)
    (dtok : List Char) (hd : dtok ∈ dayTokens d) :
    ∀ ts ∈ perms [tt, pad 4 y, [a, b, c], dtok], dateTimeRaw (joinSp ts) = .ok ([y, mo, d] ++ tm) := by
  intro ts hts
  have htm := convertStr_valid hct
  obtain ⟨hh, mi, s, us, rfl, -⟩ := validTime_shape htm
  obtain ⟨_, _, _, _, _, _, _, he, h1, h2, h3, h4, h5, h6, -⟩ := validDateTime_shape hv
  simp only [List.cons_append, List.nil_append, List.cons.injEq, and_true] at he
  obtain ⟨rfl, rfl, rfl, rfl, rfl, rfl, rfl⟩ := he
  obtain ⟨a1, -, -, a4, a5, -⟩ := isAlpha_props ha
  obtain ⟨b1, -, -, b4, b5, -⟩ := isAlpha_props hb
  obtain ⟨c1, -, -, c4, c5, -⟩ := isAlpha_props hc
  have ey : 10 * (10 * (10 * (y / 1000 % 10) + y / 100 % 10) + y / 10 % 10) + y % 10 = y := by omega
  have ed := two_digits d (by omega)
  -- the two shapes of the day token
  have hshape : (d < 10 ∧ dtok = [digitChar d]) ∨ dtok = [digitChar (d / 10), digitChar d] := by
    simp only [dayTokens, List.mem_cons, List.not_mem_nil, or_false] at hd
    rcases hd with rfl | rfl
    · by_cases h10 : d < 10
      · exact Or.inl ⟨h10, natStr_lt10 h10⟩
      · exact Or.inr (natStr_ge10 (Nat.le_of_not_lt h10) (by omega))
    · exact Or.inr (pad2 d)
  -- where the time stands
  obtain ⟨three, h3mem, pre, post, hsplit, rfl⟩ := perms4_mem hts
  rw [perms3] at h3mem
  simp only [List.mem_cons, List.not_mem_nil, or_false] at h3mem
  have hnc : ∀ t ∈ pre, ':' ∉ t := by
    intro t htp
    have : t ∈ three := by rw [hsplit]; simp [htp]
    have hY : ':' ∉ pad 4 y := by simp [pad4]
    have hM : ':' ∉ [a, b, c] := by
      simp only [List.mem_cons, List.not_mem_nil, or_false, not_or]
      simp only [beq_eq_false_iff_ne, ne_eq] at a4 b4 c4
      exact ⟨fun e => a4 e.symm, fun e => b4 e.symm, fun e => c4 e.symm⟩
    have hD : ':' ∉ dtok := by
      rcases hshape with ⟨-, rfl⟩ | rfl <;> simp
    rcases h3mem with rfl | rfl | rfl | rfl | rfl | rfl <;>
      (simp only [List.mem_cons, List.not_mem_nil, or_false] at this; rcases this with rfl | rfl | rfl <;> assumption)
  have hA : (if pre = [] then [] else joinSp pre ++ [' ']) = [] ∨
      ∃ A0, (if pre = [] then [] else joinSp pre ++ [' ']) = A0 ++ [' '] ∧ ':' ∉ A0 := by
    by_cases hp : pre = []
    · simp [hp]
    · right; exact ⟨joinSp pre, by simp [hp], not_mem_joinSp (by decide) pre hnc⟩
  have hB : (if post = [] then [] else ' ' :: joinSp post) = [] ∨
      ∃ r, (if post = [] then [] else ' ' :: joinSp post) = ' ' :: r := by
    by_cases hp : post = []
    · simp [hp]
    · right; exact ⟨joinSp post, by simp [hp]⟩
  rw [joinSp_split, dateTimeRaw_time _ _ _ _ hA ht hB hct]
  clear hA hB hnc hts hd
  rcases h3mem with rfl | rfl | rfl | rfl | rfl | rfl <;>
    rcases split3 hsplit with ⟨rfl, rfl⟩ | ⟨rfl, rfl⟩ | ⟨rfl, rfl⟩ | ⟨rfl, rfl⟩ <;>
    rcases hshape with ⟨hlt, rfl⟩ | rfl
  all_goals first
    | (have dd : d % 10 = d := by omega
       osimp [ey, dd, a1, a5, b1, b5, c1, c5, ha, hb, hc, hm])
    | osimp [ey, ed, a1, a5, b1, b5, c1, c5, ha, hb, hc, hm]

/-! ### from `dateTimeRaw` to `convertStr` -/

theorem mem_perms {α : Type} {l ts : List α} (h : ts ∈ perms l) : (∀ t ∈ ts, t ∈ l) ∧ (l ≠ [] → ts ≠ []) := by
  induction l generalizing ts with
  | nil => simp only [perms, List.mem_singleton] at h; subst h; simp
  | cons x xs ih =>
    simp only [perms, List.mem_flatMap] at h
    obtain ⟨p, hp, hi⟩ := h
    obtain ⟨pre, post, h1, rfl⟩ := mem_insertAll hi
    refine ⟨?_, fun _ => by simp⟩
    intro t ht
    simp only [List.mem_append, List.mem_cons] at ht
    have := (ih hp).1
    rcases ht with ht | rfl | ht
    · exact List.mem_cons_of_mem _ (this t (by rw [h1]; simp [ht]))
    · simp
    · exact List.mem_cons_of_mem _ (this t (by rw [h1]; simp [ht]))

theorem convertStr_datetime_of_raw {s : List Char} {e : Ep} (ha : asciiOk s = true) (ht : trimmedB s = true)
    (hT : 'T' ∉ s) (hr : dateTimeRaw s = .ok e) (hv : validDateTime e = true) :
    convertStr .datetime s = .ok e := by
  apply convertStr_datetime_of_stripped ha ht
  simp [convertDateTimeStripped, hT, convertDateTimeCore, hr, checkEp, validEp, hv]

/-- a blank-separated text of clean parts (ASCII, no surrounding whitespace, no capital `T`) -/
theorem convertStr_datetime_joinSp {ts : List (List Char)} {e : Ep} (hne : ts ≠ [])
    (hp : ∀ t ∈ ts, asciiOk t = true ∧ trimmedB t = true ∧ 'T' ∉ t)
    (hr : dateTimeRaw (joinSp ts) = .ok e) (hv : validDateTime e = true) :
    convertStr .datetime (joinSp ts) = .ok e :=
  convertStr_datetime_of_raw (asciiOk_joinSp ts fun t ht => (hp t ht).1)
    (trimmedB_joinSp ts hne fun t ht => (hp t ht).2.1)
    (not_mem_joinSp (by decide) ts fun t ht => (hp t ht).2.2) hr hv

theorem year_token_clean (y : Nat) : asciiOk (pad 4 y) = true ∧ trimmedB (pad 4 y) = true ∧ 'T' ∉ pad 4 y := by
  simp [pad4, asciiOk, trimmedB]

theorem month_token_clean (a b c : Char) (ha : isAlpha a = true) (hb : isAlpha b = true) (hc : isAlpha c = true)
    (hT : a ≠ 'T' ∧ b ≠ 'T' ∧ c ≠ 'T') :
    asciiOk [a, b, c] = true ∧ trimmedB [a, b, c] = true ∧ 'T' ∉ [a, b, c] := by
  obtain ⟨-, a2, a3, -⟩ := isAlpha_props ha
  obtain ⟨-, -, b3, -⟩ := isAlpha_props hb
  obtain ⟨-, c2, c3, -⟩ := isAlpha_props hc
  simp [asciiOk, trimmedB, a2, a3, b3, c2, c3, hT.1.symm, hT.2.1.symm, hT.2.2.symm]

theorem day_token_clean {d : Nat} (hd : d < 100) {t : List Char} (h : t ∈ dayTokens d) :
    asciiOk t = true ∧ trimmedB t = true ∧ 'T' ∉ t := by
  simp only [dayTokens, List.mem_cons, List.not_mem_nil, or_false] at h
  rcases h with rfl | rfl
  · by_cases c : d < 10
    · simp [natStr_lt10 c, asciiOk, trimmedB]
    · simp [natStr_ge10 (Nat.le_of_not_lt c) hd, asciiOk, trimmedB]
  · simp [pad2, asciiOk, trimmedB]

/-- year (four digits), month name of three letters, day of the month (one or two digits) and the time of day,
    separated by single blanks, in ANY of the 24 orders -/
theorem datetime_any_order (a b c : Char) (ha : isAlpha a = true) (hb : isAlpha b = true) (hc : isAlpha c = true)
    (hT : a ≠ 'T' ∧ b ≠ 'T' ∧ c ≠ 'T')
    {y mo d : Nat} {tm : Ep} {tt : List Char} (ht : TimeText tt) (hct : convertStr .time tt = .ok tm)
    (hv : validDateTime ([y, mo, d] ++ tm) = true) (hm : nameToMonth [a, b, c] = some mo)
    (dtok : List Char) (hd : dtok ∈ dayTokens d) :
    ∀ ts ∈ perms [tt, pad 4 y, [a, b, c], dtok], convertStr .datetime (joinSp ts) = .ok ([y, mo, d] ++ tm) := by
  intro ts hts
  have hd100 : d < 100 := by
    obtain ⟨_, _, d', _, _, _, _, he, -, -, -, -, -, h6, -⟩ := validDateTime_shape hv
    have : d = d' := by
      have := congrArg (fun l => l.getD 2 0) he
      simpa using this
    omega
  obtain ⟨hmem, hne⟩ := mem_perms hts
  refine convertStr_datetime_joinSp (hne (by simp)) ?_ (any_order_core a b c ha hb hc ht hct hv hm dtok hd ts hts) hv
  intro t htm
  have := hmem t htm
  simp only [List.mem_cons, List.not_mem_nil, or_false] at this
  rcases this with rfl | rfl | rfl | rfl
  · exact ⟨ht.ascii, ht.trimmed, ht.noT⟩
  · exact year_token_clean y
  · exact month_token_clean a b c ha hb hc hT
  · exact day_token_clean hd100 hd

end Edzed.Interval
