/-
String-level lemmas for C13: splitting by delimiters and separators, whitespace padding of the
canonical endpoint renderings.  Core Lean only.
-/
import EdzedModel.Interval
import EdzedProofs.Interval
import EdzedProofs.IntervalText
import EdzedProofs.IntervalTables

namespace Edzed.Interval

/-! ### `split` -/

theorem isPrefixOf_single (c x : Char) (t : List Char) : [c].isPrefixOf (x :: t) = (c == x) := by
  simp [List.isPrefixOf]

/-- a piece free of the one-character separator is split off unchanged -/
theorem splitGo_single (c : Char) (a b cur : List Char) (h : c ∉ a) :
    splitGo [c] (a ++ c :: b) 0 cur = (cur.reverse ++ a) :: splitGo [c] b 0 [] := by
  induction a generalizing cur with
  | nil => simp [splitGo]
  | cons x a' ih =>
    have hx : (c == x) = false := by
      simp only [beq_eq_false_iff_ne, ne_eq]; intro e; exact h (by simp [e])
    have ha' : c ∉ a' := fun e => h (by simp [e])
    simp only [List.cons_append, splitGo, isPrefixOf_single, hx, Bool.false_eq_true, ↓reduceIte]
    rw [ih _ ha']
    simp

theorem splitOn_single (c : Char) (a b : List Char) (h : c ∉ a) :
    splitOn [c] (a ++ c :: b) = a :: splitOn [c] b := by
  simp [splitOn, splitGo_single c a b [] h]

/-- a string that lacks one of the separator's characters is not split -/
theorem splitGo_none (sep s cur : List Char) (h : ∃ x ∈ sep, x ∉ s) :
    splitGo sep s 0 cur = [cur.reverse ++ s] := by
  induction s generalizing cur with
  | nil => simp [splitGo]
  | cons c cs ih =>
    obtain ⟨x, hx, hn⟩ := h
    have hp : sep.isPrefixOf (c :: cs) = false := by
      rw [Bool.eq_false_iff]
      intro hp
      exact hn ((List.isPrefixOf_iff_prefix.1 hp).subset hx)
    simp only [splitGo, hp, Bool.false_eq_true, ↓reduceIte]
    rw [ih _ ⟨x, hx, fun e => hn (by simp [e])⟩]
    simp

theorem splitOn_none (sep s : List Char) (h : ∃ x ∈ sep, x ∉ s) : splitOn sep s = [s] := by
  simp [splitOn, splitGo_none sep s [] h]

/-- the spaced hyphen: a piece without `-` is split off unchanged -/
theorem splitGo_spaced (a b cur : List Char) (h : '-' ∉ a) :
    splitGo [' ', '-', ' '] (a ++ ' ' :: '-' :: ' ' :: b) 0 cur =
      (cur.reverse ++ a) :: splitGo [' ', '-', ' '] b 0 [] := by
  induction a generalizing cur with
  | nil => simp [splitGo, List.isPrefixOf]
  | cons x a' ih =>
    have ha' : '-' ∉ a' := fun e => h (by simp [e])
    have hp : [' ', '-', ' '].isPrefixOf (x :: (a' ++ ' ' :: '-' :: ' ' :: b)) = false := by
      cases a' with
      | nil => simp [List.isPrefixOf]
      | cons y a'' =>
        have : ('-' == y) = false := by
          simp only [beq_eq_false_iff_ne, ne_eq]; intro e; exact ha' (by rw [e]; simp)
        simp [List.isPrefixOf, this]
    simp only [List.cons_append, splitGo]
    simp only [hp, Bool.false_eq_true, ↓reduceIte]
    rw [ih _ ha']
    simp

theorem splitOn_spaced (a b : List Char) (h : '-' ∉ a) :
    splitOn [' ', '-', ' '] (a ++ ' ' :: '-' :: ' ' :: b) = a :: splitOn [' ', '-', ' '] b := by
  simp [splitOn, splitGo_spaced a b [] h]

theorem isInfix_single (c : Char) (a b : List Char) : isInfix [c] (a ++ c :: b) = true := by
  induction a with
  | nil => simp [isInfix, List.isPrefixOf]
  | cons x a' ih => simp [isInfix, ih]

/-! ### `strip` of a padded string -/

/-- first and last character are not whitespace -/
def trimmedB (s : List Char) : Bool :=
  match s.head?, s.getLast? with
  | some a, some b => !isSpace a && !isSpace b
  | _, _ => false

theorem dropWhile_spaces (pre s : List Char) (hpre : ∀ c ∈ pre, isSpace c = true) :
    (pre ++ s).dropWhile isSpace = s.dropWhile isSpace := by
  induction pre with
  | nil => rfl
  | cons x p ih =>
    simp only [List.cons_append, List.dropWhile_cons, hpre x (by simp), ↓reduceIte]
    exact ih (fun c hc => hpre c (by simp [hc]))

theorem strip_padded (pre s post : List Char) (hpre : ∀ c ∈ pre, isSpace c = true)
    (hpost : ∀ c ∈ post, isSpace c = true) (hs : trimmedB s = true) :
    strip (pre ++ s ++ post) = s := by
  unfold trimmedB at hs
  cases s with
  | nil => simp at hs
  | cons a t =>
    obtain ⟨t', b, hb⟩ : ∃ t' b, a :: t = t' ++ [b] :=
      ⟨(a :: t).dropLast, (a :: t).getLast (by simp), (List.dropLast_concat_getLast (by simp)).symm⟩
    have hlast : (a :: t).getLast? = some b := by rw [hb]; simp
    rw [hlast] at hs
    simp only [List.head?_cons, Bool.and_eq_true, Bool.not_eq_true'] at hs
    unfold strip
    rw [List.append_assoc, dropWhile_spaces pre _ hpre]
    simp only [List.cons_append, List.dropWhile_cons, hs.1, Bool.false_eq_true, ↓reduceIte]
    rw [← List.cons_append, hb, List.append_assoc, List.reverse_append, List.reverse_append]
    simp only [List.reverse_cons, List.reverse_nil, List.nil_append, List.singleton_append, List.append_assoc]
    rw [dropWhile_spaces post.reverse _ (fun c hc => hpost c (List.mem_reverse.1 hc))]
    simp [hs.2]

/-! ### facts about the canonical renderings -/

theorem digit_facts2 : ∀ k, k < 10 →
    Char.ofNat (48 + k) ≠ '/' ∧ Char.ofNat (48 + k) ≠ ';' ∧ Char.ofNat (48 + k) ≠ '-' ∧
    Char.ofNat (48 + k) ≠ ' ' := by decide

@[simp] theorem digitChar_ne_slash (n : Nat) : digitChar n ≠ '/' :=
  (digit_facts2 (n % 10) (Nat.mod_lt _ (by decide))).1
@[simp] theorem digitChar_ne_semicolon (n : Nat) : digitChar n ≠ ';' :=
  (digit_facts2 (n % 10) (Nat.mod_lt _ (by decide))).2.1
@[simp] theorem digitChar_ne_hyphen (n : Nat) : digitChar n ≠ '-' :=
  (digit_facts2 (n % 10) (Nat.mod_lt _ (by decide))).2.2.1
@[simp] theorem slash_ne_digitChar (n : Nat) : '/' ≠ digitChar n := (digitChar_ne_slash n).symm
@[simp] theorem semicolon_ne_digitChar (n : Nat) : ';' ≠ digitChar n := (digitChar_ne_semicolon n).symm
@[simp] theorem hyphen_ne_digitChar (n : Nat) : '-' ≠ digitChar n := (digitChar_ne_hyphen n).symm

/-- the rendering contains none of the characters `/ ;` (and `-` unless a date-time), starts and
    ends with a non-blank and is ASCII -/
def renderClean (k : Kind) (s : List Char) : Bool :=
  trimmedB s && asciiOk s && s.all (fun c => c != '/' && c != ';' && (k == .datetime || c != '-'))

theorem renderClean_time {e : Ep} (h : validTime e = true) : renderClean .time (renderTime e) = true := by
  obtain ⟨hh, m, s, us, rfl, -⟩ := validTime_shape h
  by_cases hus : us = 0
  · simp [renderClean, trimmedB, asciiOk, renderTime, pad2, hus]
  · simp [renderClean, trimmedB, asciiOk, renderTime, pad2, pad6, hus]

theorem renderClean_datetime {e : Ep} (h : validDateTime e = true) :
    renderClean .datetime (renderDateTime e) = true := by
  obtain ⟨y, mo, d, hh, mi, s, us, rfl, -⟩ := validDateTime_shape h
  by_cases hus : us = 0
  · simp [renderClean, trimmedB, asciiOk, renderDateTime, renderTime, pad2, pad4, hus]
  · simp [renderClean, trimmedB, asciiOk, renderDateTime, renderTime, pad2, pad4, pad6, hus]

theorem renderClean_date_table : ∀ mo, mo < 13 → ∀ d, d < 32 → validDate [mo, d] = true →
    renderClean .date (renderDate [mo, d]) = true := by decide +kernel

theorem renderClean_date {e : Ep} (h : validDate e = true) : renderClean .date (renderDate e) = true := by
  obtain ⟨mo, d, rfl, h1, h2, h3, h4⟩ := validDate_shape h
  have : daysInMonth Gen.dummyYear mo ≤ 31 := by unfold daysInMonth; split <;> (try split) <;> omega
  exact renderClean_date_table mo (by omega) d (by omega) h

theorem renderClean_render {k : Kind} {e : Ep} (h : validEp k e = true) :
    renderClean k (render k e) = true := by
  cases k with
  | time => exact renderClean_time h
  | date => exact renderClean_date h
  | datetime => exact renderClean_datetime h

theorem renderClean_facts {k : Kind} {s : List Char} (h : renderClean k s = true) :
    trimmedB s = true ∧ asciiOk s = true ∧ '/' ∉ s ∧ ';' ∉ s ∧ (k ≠ .datetime → '-' ∉ s) := by
  simp only [renderClean, Bool.and_eq_true, List.all_eq_true, bne_iff_ne, ne_eq, Bool.or_eq_true,
    beq_iff_eq] at h
  refine ⟨h.1.1, h.1.2, fun hm => (h.2 _ hm).1.1 rfl, fun hm => (h.2 _ hm).1.2 rfl, fun hk hm => ?_⟩
  rcases (h.2 _ hm).2 with e | e
  · exact hk e
  · exact e rfl

/-! ### conversion of a padded canonical rendering -/

theorem asciiOk_append (a b : List Char) : asciiOk (a ++ b) = (asciiOk a && asciiOk b) := by
  simp [asciiOk]

theorem convertStr_congr (k : Kind) {s s' : List Char} (h1 : asciiOk s = true) (h2 : asciiOk s' = true)
    (h : strip s = strip s') : convertStr k s = convertStr k s' := by
  cases k <;> simp [convertStr, h1, h2, convertTimeStr, convertDateStr, convertDateTimeStr, h]

theorem spaces_ascii (p : List Char) (h : ∀ c ∈ p, c = ' ') : asciiOk p = true := by
  simp only [asciiOk, List.all_eq_true]
  intro c hc; rw [h c hc]; decide

theorem spaces_space (p : List Char) (h : ∀ c ∈ p, c = ' ') : ∀ c ∈ p, isSpace c = true := by
  intro c hc; rw [h c hc]; decide

/-- blanks around an endpoint are ignored -/
theorem convertStr_padded {k : Kind} {s : List Char} {e : Ep} (hc : renderClean k s = true)
    (hp : convertStr k s = .ok e) (pre post : List Char) (hpre : ∀ c ∈ pre, c = ' ')
    (hpost : ∀ c ∈ post, c = ' ') : convertStr k (pre ++ s ++ post) = .ok e := by
  obtain ⟨ht, ha, -⟩ := renderClean_facts hc
  rw [← hp]
  apply convertStr_congr
  · simp [asciiOk_append, ha, spaces_ascii pre hpre, spaces_ascii post hpost]
  · exact ha
  · rw [strip_padded pre s post (spaces_space pre hpre) (spaces_space post hpost) ht]
    have := strip_padded [] s [] (by simp) (by simp) ht
    simpa using this.symm

/-! ### the canonical rendering of every valid endpoint parses back -/

theorem convertStr_render {k : Kind} {e : Ep} (h : validEp k e = true) : convertStr k (render k e) = .ok e := by
  cases k with
  | time =>
    simp only [render, convertStr, asciiOk_renderTime h, Bool.not_true, Bool.false_eq_true, ↓reduceIte,
      convertTimeStr, strip_renderTime h, parse_render_time_core h]
  | date =>
    obtain ⟨mo, d, rfl, -⟩ := validDate_shape h
    have := (List.all_eq_true.1 (dateTable_all h)) (renderDate [mo, d]) (by simp [dateNotations, renderDate])
    simpa [render] using this
  | datetime =>
    simp only [render, convertStr, asciiOk_renderDateTime h, Bool.not_true, Bool.false_eq_true, ↓reduceIte,
      convertDateTimeStr, strip_renderDateTime h, parse_render_datetime_core h]

/-- a valid endpoint, rendered canonically, with blanks around it -/
theorem convertStr_render_padded {k : Kind} {e : Ep} (h : validEp k e = true) (pre post : List Char)
    (hpre : ∀ c ∈ pre, c = ' ') (hpost : ∀ c ∈ post, c = ' ') :
    convertStr k (pre ++ render k e ++ post) = .ok e :=
  convertStr_padded (renderClean_render h) (convertStr_render h) pre post hpre hpost

theorem not_mem_padded {x : Char} {pre s post : List Char} (hx : x ≠ ' ') (hpre : ∀ c ∈ pre, c = ' ')
    (hpost : ∀ c ∈ post, c = ' ') (hs : x ∉ s) : x ∉ pre ++ s ++ post := by
  simp only [List.mem_append, not_or]
  exact ⟨⟨fun hm => hx (hpre x hm), hs⟩, fun hm => hx (hpost x hm)⟩

theorem seps_eq : Gen.rangeSeparatorsC = [['/'], [' ', '-', ' '], ['-']] := rfl

/-! ### range strings -/

/-- separator `/` (highest priority), blanks allowed around both endpoints -/
theorem parseRangeStr_slash {k : Kind} {a b : Ep} (ha : validEp k a = true) (hb : validEp k b = true)
    (p1 q1 p2 q2 : List Char) (h1 : ∀ c ∈ p1, c = ' ') (h2 : ∀ c ∈ q1, c = ' ')
    (h3 : ∀ c ∈ p2, c = ' ') (h4 : ∀ c ∈ q2, c = ' ') :
    parseRangeStr k ((p1 ++ render k a ++ q1) ++ '/' :: (p2 ++ render k b ++ q2)) = .ok (a, b) := by
  obtain ⟨-, -, sa, -⟩ := renderClean_facts (renderClean_render ha)
  obtain ⟨-, -, sb, -⟩ := renderClean_facts (renderClean_render hb)
  have hL := not_mem_padded (x := '/') (by decide) h1 h2 sa
  have hR := not_mem_padded (x := '/') (by decide) h3 h4 sb
  have hsplit : splitOn ['/'] ((p1 ++ render k a ++ q1) ++ '/' :: (p2 ++ render k b ++ q2)) =
      [p1 ++ render k a ++ q1, p2 ++ render k b ++ q2] := by
    rw [splitOn_single _ _ _ hL, splitOn_none _ _ ⟨'/', by simp, hR⟩]
  simp only [parseRangeStr, seps_eq, firstSplit2, hsplit,
    convertStr_render_padded ha p1 q1 h1 h2, convertStr_render_padded hb p2 q2 h3 h4, Res.bind_ok]

/-- separator ` - ` (second priority) for renderings without `-` (times and dates) -/
theorem parseRangeStr_spaced {k : Kind} (hk : k ≠ .datetime) {a b : Ep} (ha : validEp k a = true)
    (hb : validEp k b = true) (p1 q1 p2 q2 : List Char) (h1 : ∀ c ∈ p1, c = ' ') (h2 : ∀ c ∈ q1, c = ' ')
    (h3 : ∀ c ∈ p2, c = ' ') (h4 : ∀ c ∈ q2, c = ' ') :
    parseRangeStr k ((p1 ++ render k a ++ q1) ++ ' ' :: '-' :: ' ' :: (p2 ++ render k b ++ q2)) = .ok (a, b) := by
  obtain ⟨-, -, sa, -, da⟩ := renderClean_facts (renderClean_render ha)
  obtain ⟨-, -, sb, -, db⟩ := renderClean_facts (renderClean_render hb)
  have hL := not_mem_padded (x := '/') (by decide) h1 h2 sa
  have hR := not_mem_padded (x := '/') (by decide) h3 h4 sb
  have hL' := not_mem_padded (x := '-') (by decide) h1 h2 (da hk)
  have hR' := not_mem_padded (x := '-') (by decide) h3 h4 (db hk)
  have hno : splitOn ['/'] ((p1 ++ render k a ++ q1) ++ ' ' :: '-' :: ' ' :: (p2 ++ render k b ++ q2)) =
      [(p1 ++ render k a ++ q1) ++ ' ' :: '-' :: ' ' :: (p2 ++ render k b ++ q2)] := by
    apply splitOn_none; refine ⟨'/', by simp, ?_⟩
    simp only [List.mem_append, List.mem_cons, not_or] at hL hR ⊢
    exact ⟨hL, by decide, by decide, by decide, hR⟩
  have hsplit : splitOn [' ', '-', ' '] ((p1 ++ render k a ++ q1) ++ ' ' :: '-' :: ' ' :: (p2 ++ render k b ++ q2)) =
      [p1 ++ render k a ++ q1, p2 ++ render k b ++ q2] := by
    rw [splitOn_spaced _ _ hL', splitOn_none _ _ ⟨'-', by simp, hR'⟩]
  simp only [parseRangeStr, seps_eq, firstSplit2, hno, hsplit,
    convertStr_render_padded ha p1 q1 h1 h2, convertStr_render_padded hb p2 q2 h3 h4, Res.bind_ok]

theorem splitGo_spaced_nomatch (a b cur : List Char) (ha : '-' ∉ a) (hb : '-' ∉ b)
    (hlast : a.getLast? ≠ some ' ') :
    splitGo [' ', '-', ' '] (a ++ '-' :: b) 0 cur = [cur.reverse ++ (a ++ '-' :: b)] := by
  induction a generalizing cur with
  | nil =>
    simp only [List.nil_append, splitGo, List.isPrefixOf]
    simp only [show (' ' == '-') = false by decide, Bool.false_and, Bool.false_eq_true, ↓reduceIte]
    rw [splitGo_none _ b _ ⟨'-', by simp, hb⟩]; simp
  | cons x a' ih =>
    have ha' : '-' ∉ a' := fun e => ha (by simp [e])
    have hp : [' ', '-', ' '].isPrefixOf (x :: (a' ++ '-' :: b)) = false := by
      cases a' with
      | nil =>
        have : (' ' == x) = false := by
          simp only [beq_eq_false_iff_ne, ne_eq]; intro e; exact hlast (by rw [← e]; simp)
        simp [List.isPrefixOf, this]
      | cons y a'' =>
        have : ('-' == y) = false := by
          simp only [beq_eq_false_iff_ne, ne_eq]; intro e; exact ha' (by rw [e]; simp)
        simp [List.isPrefixOf, this]
    have hlast' : a'.getLast? ≠ some ' ' := by
      cases a' with
      | nil => simp
      | cons y a'' => simpa [List.getLast?_cons_cons] using hlast
    simp only [List.cons_append, splitGo, hp, Bool.false_eq_true, ↓reduceIte]
    rw [ih _ ha' hlast']
    simp

/-- separator `-` (lowest priority) directly after the first endpoint, for renderings without `-` -/
theorem parseRangeStr_hyphen {k : Kind} (hk : k ≠ .datetime) {a b : Ep} (ha : validEp k a = true)
    (hb : validEp k b = true) (p1 p2 q2 : List Char) (h1 : ∀ c ∈ p1, c = ' ')
    (h3 : ∀ c ∈ p2, c = ' ') (h4 : ∀ c ∈ q2, c = ' ') :
    parseRangeStr k ((p1 ++ render k a) ++ '-' :: (p2 ++ render k b ++ q2)) = .ok (a, b) := by
  obtain ⟨ta, -, sa, -, da⟩ := renderClean_facts (renderClean_render ha)
  obtain ⟨-, -, sb, -, db⟩ := renderClean_facts (renderClean_render hb)
  have hL := not_mem_padded (x := '/') (by decide) h1 (post := []) (by simp) sa
  have hR := not_mem_padded (x := '/') (by decide) h3 h4 sb
  have hL' := not_mem_padded (x := '-') (by decide) h1 (post := []) (by simp) (da hk)
  have hR' := not_mem_padded (x := '-') (by decide) h3 h4 (db hk)
  simp only [List.append_nil] at hL hL'
  have hno : splitOn ['/'] ((p1 ++ render k a) ++ '-' :: (p2 ++ render k b ++ q2)) =
      [(p1 ++ render k a) ++ '-' :: (p2 ++ render k b ++ q2)] := by
    apply splitOn_none; refine ⟨'/', by simp, ?_⟩
    simp only [List.mem_append, List.mem_cons, not_or] at hL hR ⊢
    exact ⟨hL, by decide, hR⟩
  have hlast : (p1 ++ render k a).getLast? ≠ some ' ' := by
    unfold trimmedB at ta
    cases hr : render k a with
    | nil => rw [hr] at ta; simp at ta
    | cons c t =>
      rw [List.getLast?_append]
      rw [hr] at ta
      cases hl : (c :: t).getLast? with
      | none => simp at hl
      | some z =>
        rw [hl] at ta
        simp only [List.head?_cons, Bool.and_eq_true, Bool.not_eq_true'] at ta
        intro e
        have e' : z = ' ' := by simpa [Option.or] using e
        rw [e'] at ta; exact absurd ta.2 (by decide)
  have hno2 : splitOn [' ', '-', ' '] ((p1 ++ render k a) ++ '-' :: (p2 ++ render k b ++ q2)) =
      [(p1 ++ render k a) ++ '-' :: (p2 ++ render k b ++ q2)] := by
    unfold splitOn
    rw [splitGo_spaced_nomatch _ _ [] hL' hR' hlast]; simp
  have hsplit : splitOn ['-'] ((p1 ++ render k a) ++ '-' :: (p2 ++ render k b ++ q2)) =
      [p1 ++ render k a, p2 ++ render k b ++ q2] := by
    rw [splitOn_single _ _ _ hL', splitOn_none _ _ ⟨'-', by simp, hR'⟩]
  have e1 := convertStr_render_padded ha p1 [] h1 (by simp)
  simp only [List.append_nil] at e1
  simp only [parseRangeStr, seps_eq, firstSplit2, hno, hno2, hsplit, e1,
    convertStr_render_padded hb p2 q2 h3 h4, Res.bind_ok]

/-- a single date (no separator at all) is the one-day range -/
theorem parseRangeStr_single_date {a : Ep} (ha : validDate a = true) (p q : List Char)
    (h1 : ∀ c ∈ p, c = ' ') (h2 : ∀ c ∈ q, c = ' ') :
    parseRangeStr .date (p ++ renderDate a ++ q) = .ok (a, a) := by
  obtain ⟨-, -, sa, -, da⟩ := renderClean_facts (renderClean_render (k := .date) ha)
  have hL := not_mem_padded (x := '/') (by decide) h1 h2 sa
  have hL' := not_mem_padded (x := '-') (by decide) h1 h2 (da (by decide))
  have e1 := convertStr_render_padded (k := .date) ha p q h1 h2
  simp only [render] at hL hL' e1
  have s1 := splitOn_none ['/'] _ ⟨'/', by simp, hL⟩
  have s2 := splitOn_none [' ', '-', ' '] _ ⟨'-', by simp, hL'⟩
  have s3 := splitOn_none ['-'] _ ⟨'-', by simp, hL'⟩
  simp only [parseRangeStr, seps_eq, firstSplit2, s1, s2, s3, rclosed, ↓reduceIte, e1, Res.bind_ok]

/-! ### `as_string()` and back -/

/-- a range as `as_string()` prints it, without the terminating delimiter -/
def body (k : Kind) (r : Range) : List Char :=
  if rclosed k && r.1 == r.2 then render k r.1 else render k r.1 ++ ' ' :: '/' :: ' ' :: render k r.2

theorem rangeString_eq (k : Kind) (r : Range) : rangeString k r = body k r ++ [';'] := by
  unfold rangeString body
  have e1 : Gen.delimiterC = [';'] := rfl
  have e2 : Gen.rangeSeparatorsC.headD [] = ['/'] := rfl
  rw [e1, e2]
  split <;> simp

theorem body_parse {k : Kind} {r : Range} (ha : validEp k r.1 = true) (hb : validEp k r.2 = true)
    (p : List Char) (hp : ∀ c ∈ p, c = ' ') : parseRangeStr k (p ++ body k r) = .ok r := by
  unfold body
  split
  · next hc =>
    simp only [Bool.and_eq_true, beq_iff_eq] at hc
    have hk : k = .date := by cases k <;> simp [rclosed] at hc ⊢
    subst hk
    have := parseRangeStr_single_date ha p [] hp (by simp)
    simp only [List.append_nil] at this
    rw [show render .date r.1 = renderDate r.1 from rfl, this]
    exact congrArg Res.ok (Prod.ext rfl hc.2)
  · have := parseRangeStr_slash ha hb p [' '] [' '] [] hp (by simp) (by simp) (by simp)
    simpa using this

theorem body_clean {k : Kind} {r : Range} (ha : validEp k r.1 = true) (hb : validEp k r.2 = true) :
    ';' ∉ body k r ∧ asciiOk (body k r) = true := by
  obtain ⟨-, aa, -, sa, -⟩ := renderClean_facts (renderClean_render ha)
  obtain ⟨-, ab, -, sb, -⟩ := renderClean_facts (renderClean_render hb)
  unfold body
  split
  · exact ⟨sa, aa⟩
  · refine ⟨?_, ?_⟩
    · simp only [List.mem_append, List.mem_cons, not_or]
      exact ⟨sa, by decide, by decide, by decide, sb⟩
    · have : asciiOk (' ' :: '/' :: ' ' :: render k r.2) = true := by
        simp only [asciiOk, List.all_cons] at ab ⊢
        simp [ab, show asciiC ' ' = true by decide, show asciiC '/' = true by decide]
      simp [asciiOk_append, aa, this]

def tailStr : List (List Char) → List Char
  | [] => []
  | y :: ys => ' ' :: y ++ tailStr ys

theorem joinSp_cons (x : List Char) (rest : List (List Char)) : joinSp (x :: rest) = x ++ tailStr rest := by
  induction rest generalizing x with
  | nil => simp [joinSp, tailStr]
  | cons y ys ih => simp [joinSp, tailStr, ih y]

theorem split_tail (k : Kind) (rs : List Range)
    (hv : ∀ r ∈ rs, validEp k r.1 = true ∧ validEp k r.2 = true) :
    splitOn [';'] (tailStr (rs.map (rangeString k))) = (rs.map fun r => ' ' :: body k r) ++ [[]] := by
  induction rs with
  | nil => simp [tailStr, splitOn, splitGo]
  | cons r rest ih =>
    have hr := hv r (by simp)
    have hn : ';' ∉ ' ' :: body k r := by
      simp only [List.mem_cons, not_or]; exact ⟨by decide, (body_clean hr.1 hr.2).1⟩
    simp only [List.map_cons, tailStr, rangeString_eq]
    rw [show ' ' :: (body k r ++ [';']) ++ tailStr (rest.map (rangeString k)) =
        (' ' :: body k r) ++ ';' :: tailStr (rest.map (rangeString k)) by simp]
    rw [splitOn_single _ _ _ hn, ih (fun r' hr' => hv r' (by simp [hr']))]
    simp

theorem asciiOk_tail (k : Kind) (rs : List Range)
    (hv : ∀ r ∈ rs, validEp k r.1 = true ∧ validEp k r.2 = true) :
    asciiOk (tailStr (rs.map (rangeString k))) = true := by
  induction rs with
  | nil => rfl
  | cons r rest ih =>
    have hr := hv r (by simp)
    have := ih (fun r' hr' => hv r' (by simp [hr']))
    simp only [List.map_cons, tailStr, rangeString_eq]
    rw [show ' ' :: (body k r ++ [';']) ++ tailStr (rest.map (rangeString k)) =
        [' '] ++ (body k r ++ ([';'] ++ tailStr (rest.map (rangeString k)))) by simp]
    simp only [asciiOk_append, (body_clean hr.1 hr.2).2, this, Bool.and_true]
    decide

theorem parse_pieces (k : Kind) (rs : List Range)
    (hv : ∀ r ∈ rs, validEp k r.1 = true ∧ validEp k r.2 = true) :
    parseRanges k ((rs.map fun r => ' ' :: body k r).map .str) = .ok rs := by
  induction rs with
  | nil => rfl
  | cons r rest ih =>
    have hr := hv r (by simp)
    have h1 := body_parse hr.1 hr.2 [' '] (by simp)
    simp only [List.singleton_append] at h1
    simp only [List.map_cons, parseRanges, parseRange, h1, Res.bind_ok,
      ih (fun r' hr' => hv r' (by simp [hr']))]

/-- `as_string()` of a list of valid ranges parses to the same ranges, in the same order -/
theorem parseRanges_asString (k : Kind) (iv : List Range)
    (hv : ∀ r ∈ iv, validEp k r.1 = true ∧ validEp k r.2 = true) :
    asciiOk (asString k iv) = true ∧
    parseRanges k ((splitInterval (asString k iv)).map .str) = .ok iv := by
  cases iv with
  | nil => cases k <;> exact ⟨rfl, by decide⟩
  | cons r rest =>
    have hr := hv r (by simp)
    have hrest : ∀ r' ∈ rest, validEp k r'.1 = true ∧ validEp k r'.2 = true :=
      fun r' hr' => hv r' (by simp [hr'])
    have hs : asString k (r :: rest) = body k r ++ ';' :: tailStr (rest.map (rangeString k)) := by
      simp [asString, joinSp_cons, rangeString_eq]
    have hd : Gen.delimiterC = [';'] := rfl
    constructor
    · rw [hs, show body k r ++ ';' :: tailStr (rest.map (rangeString k)) =
        body k r ++ ([';'] ++ tailStr (rest.map (rangeString k))) by simp]
      simp only [asciiOk_append, (body_clean hr.1 hr.2).2, asciiOk_tail k rest hrest, Bool.and_true]
      decide
    · have hsplit : splitInterval (asString k (r :: rest)) = body k r :: (rest.map fun r => ' ' :: body k r) := by
        unfold splitInterval
        rw [hs, hd, isInfix_single]
        simp only [↓reduceIte]
        rw [splitOn_single _ _ _ (body_clean hr.1 hr.2).1, split_tail k rest hrest]
        unfold dropLastBlank
        rw [← List.cons_append, List.getLast?_append]
        simp only [List.getLast?_singleton, Option.some_or, strip, List.dropWhile_nil, List.reverse_nil,
          List.isEmpty_nil, ↓reduceIte, List.dropLast_concat]
      rw [hsplit]
      have h1 := body_parse hr.1 hr.2 [] (by simp)
      simp only [List.nil_append] at h1
      simp only [List.map_cons, parseRanges, parseRange, h1, Res.bind_ok, parse_pieces k rest hrest]

end Edzed.Interval
