/-
Tie of C06's model of persistent state (lean/EdzedModel/Persist.lean, not edited here) to the TRANSLATED
`FSM._restore_state` (which calls the translated `_set_timer`): `rprims` gives the primitives of
Gen/TranslatedFsmTimer.lean the meaning they have in that model.  The theorem is in EdzedProps/C04.lean
(`translated_fsmtimer_restore_is_persist_model`).
-/
import EdzedModel.Persist
import EdzedProofs.FsmTimerTie

namespace Edzed.TrTie
open Edzed.Gen.TrM Edzed.Gen.TrT

/-- the primitives of `_restore_state` / `_set_timer` with the meaning of C06's model of persistent state
    (lean/EdzedModel/Persist.lean): a block is its `Dyn`, the saved state a triple, times are absolute µs -/
def rprims (c : Persist.FsmCls) (now : Persist.Time) :
    TimerPrims Persist.Dyn String Persist.TEv Int Unit Persist.Time Data Val
      (String × Option Persist.Time × Data) Unit where
  exc := fun _ => ()
  getState := fun d => if d.inited then some d.fstate else none
  setState := fun q d => { d with fstate := q }
  getActiveTimer := fun _ => none
  setActiveTimer := fun _ d => d
  timersEnabled := fun _ => true
  setTimersEnabled := fun _ d => d
  setPersistent := fun _ d => d
  durIsNone := fun _ => false
  durEqInf := fun _ => false
  durationOf := fun _ _ => 0
  timePeriod := fun x d => (d, .ok x)
  cmpZero := fun op x d => (d, .ok (cmpInt op x))
  callLater := fun x ev d => ({ d with timer := some (now + x.toNat, ev) }, .ok ())
  cancelled := fun _ _ => false
  cancel := fun _ d => (d, .ok ())
  timerWhen := fun d _ => match d.timer with | some (t, _) => t | none => 0
  loopToUnix := fun t => t
  event := fun _ d => (d, .error ())
  superStop := fun d => (d, .ok ())
  superStart := fun d => (d, .ok ())
  getSdata := fun d => d.sdata
  setSdata := fun sd d => { d with sdata := sd }
  istateLen2 := fun _ => false
  istatePad := fun x => x
  istateUnpack := fun x => some x
  checkState := fun q d => if c.states.contains q then (d, .ok ()) else (d, .error ())
  remaining := fun t d => (d, .ok ((t : Int) - (now : Int)))
  timedEvent := fun _ q => c.timedEv q
  calcOutput := fun d => match c.calcOut d.fstate d.sdata with
    | some o => (d, .ok o)
    | none => (d, .error ())
  isUndef := fun v => v.isUndef
  setOutput := fun v d => ({ d with out := v, inited := true }, .ok ())

theorem rprims_exc (c : Persist.FsmCls) (now : Persist.Time) : (rprims c now).exc = (fun _ => ()) := rfl
theorem rprims_getState (c : Persist.FsmCls) (now : Persist.Time) : (rprims c now).getState = (fun d => if d.inited then some d.fstate else none) := rfl
theorem rprims_setState (c : Persist.FsmCls) (now : Persist.Time) : (rprims c now).setState = (fun q d => { d with fstate := q }) := rfl
theorem rprims_getActiveTimer (c : Persist.FsmCls) (now : Persist.Time) : (rprims c now).getActiveTimer = (fun _ => none) := rfl
theorem rprims_setActiveTimer (c : Persist.FsmCls) (now : Persist.Time) : (rprims c now).setActiveTimer = (fun _ d => d) := rfl
theorem rprims_timersEnabled (c : Persist.FsmCls) (now : Persist.Time) : (rprims c now).timersEnabled = (fun _ => true) := rfl
theorem rprims_setTimersEnabled (c : Persist.FsmCls) (now : Persist.Time) : (rprims c now).setTimersEnabled = (fun _ d => d) := rfl
theorem rprims_setPersistent (c : Persist.FsmCls) (now : Persist.Time) : (rprims c now).setPersistent = (fun _ d => d) := rfl
theorem rprims_durIsNone (c : Persist.FsmCls) (now : Persist.Time) : (rprims c now).durIsNone = (fun _ => false) := rfl
theorem rprims_durEqInf (c : Persist.FsmCls) (now : Persist.Time) : (rprims c now).durEqInf = (fun _ => false) := rfl
theorem rprims_durationOf (c : Persist.FsmCls) (now : Persist.Time) : (rprims c now).durationOf = (fun _ _ => 0) := rfl
theorem rprims_timePeriod (c : Persist.FsmCls) (now : Persist.Time) : (rprims c now).timePeriod = (fun x d => (d, .ok x)) := rfl
theorem rprims_cmpZero (c : Persist.FsmCls) (now : Persist.Time) : (rprims c now).cmpZero = (fun op x d => (d, .ok (cmpInt op x))) := rfl
theorem rprims_callLater (c : Persist.FsmCls) (now : Persist.Time) : (rprims c now).callLater = (fun x ev d => ({ d with timer := some (now + x.toNat, ev) }, .ok ())) := rfl
theorem rprims_cancelled (c : Persist.FsmCls) (now : Persist.Time) : (rprims c now).cancelled = (fun _ _ => false) := rfl
theorem rprims_cancel (c : Persist.FsmCls) (now : Persist.Time) : (rprims c now).cancel = (fun _ d => (d, .ok ())) := rfl
theorem rprims_timerWhen (c : Persist.FsmCls) (now : Persist.Time) : (rprims c now).timerWhen = (fun d _ => match d.timer with | some (t, _) => t | none => 0) := rfl
theorem rprims_loopToUnix (c : Persist.FsmCls) (now : Persist.Time) : (rprims c now).loopToUnix = (fun t => t) := rfl
theorem rprims_event (c : Persist.FsmCls) (now : Persist.Time) : (rprims c now).event = (fun _ d => (d, .error ())) := rfl
theorem rprims_superStop (c : Persist.FsmCls) (now : Persist.Time) : (rprims c now).superStop = (fun d => (d, .ok ())) := rfl
theorem rprims_superStart (c : Persist.FsmCls) (now : Persist.Time) : (rprims c now).superStart = (fun d => (d, .ok ())) := rfl
theorem rprims_getSdata (c : Persist.FsmCls) (now : Persist.Time) : (rprims c now).getSdata = (fun d => d.sdata) := rfl
theorem rprims_setSdata (c : Persist.FsmCls) (now : Persist.Time) : (rprims c now).setSdata = (fun sd d => { d with sdata := sd }) := rfl
theorem rprims_istateLen2 (c : Persist.FsmCls) (now : Persist.Time) : (rprims c now).istateLen2 = (fun _ => false) := rfl
theorem rprims_istatePad (c : Persist.FsmCls) (now : Persist.Time) : (rprims c now).istatePad = (fun x => x) := rfl
theorem rprims_istateUnpack (c : Persist.FsmCls) (now : Persist.Time) : (rprims c now).istateUnpack = (fun x => some x) := rfl
theorem rprims_checkState (c : Persist.FsmCls) (now : Persist.Time) : (rprims c now).checkState = (fun q d => if c.states.contains q then (d, .ok ()) else (d, .error ())) := rfl
theorem rprims_remaining (c : Persist.FsmCls) (now : Persist.Time) : (rprims c now).remaining = (fun t d => (d, .ok ((t : Int) - (now : Int)))) := rfl
theorem rprims_timedEvent (c : Persist.FsmCls) (now : Persist.Time) : (rprims c now).timedEvent = (fun _ q => c.timedEv q) := rfl
theorem rprims_calcOutput (c : Persist.FsmCls) (now : Persist.Time) : (rprims c now).calcOutput = (fun d => match c.calcOut d.fstate d.sdata with
    | some o => (d, .ok o)
    | none => (d, .error ())) := rfl
theorem rprims_isUndef (c : Persist.FsmCls) (now : Persist.Time) : (rprims c now).isUndef = (fun v => v.isUndef) := rfl
theorem rprims_setOutput (c : Persist.FsmCls) (now : Persist.Time) : (rprims c now).setOutput = (fun v d => ({ d with out := v, inited := true }, .ok ())) := rfl

macro "rtsimp" "[" ts:Lean.Parser.Tactic.simpLemma,* "]" : tactic =>
  `(tactic| simp [Gen.TrM.seq, Gen.TrM.branch, Gen.TrM.call, Gen.TrM.assign, Gen.TrM.skip, Gen.TrM.matchOpt,
      Gen.TrM.upd, Gen.TrM.ret, Gen.TrM.raise, Gen.TrT.bindv, Gen.TrT.runProc, Gen.TrT.setTimer, Gen.TrT.setTimerBody,
      rprims_exc, rprims_getState, rprims_setState, rprims_getActiveTimer, rprims_setActiveTimer, rprims_timersEnabled, rprims_setTimersEnabled, rprims_setPersistent, rprims_durIsNone, rprims_durEqInf, rprims_durationOf, rprims_timePeriod, rprims_cmpZero, rprims_callLater, rprims_cancelled, rprims_cancel, rprims_timerWhen, rprims_loopToUnix, rprims_event, rprims_superStop, rprims_superStart, rprims_getSdata, rprims_setSdata, rprims_istateLen2, rprims_istatePad, rprims_istateUnpack, rprims_checkState, rprims_remaining, rprims_timedEvent, rprims_calcOutput, rprims_isUndef, rprims_setOutput, cmpInt, $ts,*])

/-- `_restore_state` has restored the state iff it returned normally with the output set; when it returns
    without restoring (expired state) it must have left the block untouched; when it raises (the error is
    suppressed and the block is initialised by other means) it must not have started a timer -/
def restoreOutcome (r : Persist.Dyn × Except Unit Unit) : Option Persist.Dyn :=
  match r.2 with
  | .ok _ => if r.1.inited then some r.1 else if r.1 = {} then none else some r.1
  | .error _ => if r.1.timer.isSome then some r.1 else none

end Edzed.TrTie
