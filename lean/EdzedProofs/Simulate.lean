/-
Helper lemmas for C01/C10: the pending-set invariant of the simulator loop (generic), and the
well-formedness of the network derived from a concrete circuit of library blocks.
-/
import EdzedModel.Simulate

namespace Edzed.Sim

variable {V : Type}

/-- wiring is consistent; `fcalc` depends only on the connected inputs and the own output;
    `fcalc` is output-idempotent (up to Python's `==`) -/
structure WF (eq : V → V → Bool) (net : Net V) : Prop where
  wireC : ∀ a b, b ∈ net.succC a ↔ a ∈ net.insC b
  wireS : ∀ i b, b ∈ net.succS i ↔ i ∈ net.insS b
  local_ : ∀ b o o' e e', (∀ j ∈ net.insC b, o j = o' j) → (∀ i ∈ net.insS b, e i = e' i) →
            o b = o' b → net.fcalc b o e = net.fcalc b o' e'
  idem  : ∀ b o e, b ∉ net.insC b →
            eq (net.fcalc b o e) (net.fcalc b (upd o b (net.fcalc b o e)) e) = true

def dirty (eq : V → V → Bool) (net : Net V) (s : St V) (b : Nat) : Prop :=
  eq (s.outC b) (net.fcalc b s.outC s.outS) = false

def pending (net : Net V) (s : St V) (b : Nat) : Prop :=
  s.E b = true ∨ ∃ i ∈ s.Q, b ∈ net.succS i

/-- the invariant of the evaluation loop: every block that disagrees with its inputs is pending -/
def Inv (eq : V → V → Bool) (net : Net V) (s : St V) : Prop :=
  ∀ b, b < net.n → dirty eq net s b → pending net s b

theorem drain_inv (eq : V → V → Bool) (net : Net V) (s : St V) (h : Inv eq net s) :
    Inv eq net (drain net s) := by
  intro b hb hd
  have := h b hb hd
  left
  rcases this with h1 | ⟨i, hi, hb⟩
  · simp [drain, h1]
  · simp only [drain, Bool.or_eq_true, List.any_eq_true]
    right; exact ⟨i, hi, by simpa using hb⟩

theorem eval_inv (eq : V → V → Bool) (net : Net V) (wf : WF eq net) (s : St V) (h : Inv eq net s)
    (b : Nat) (outS' : Nat → V) (Q' : List Nat)
    (hQ : ∀ i ∈ s.Q, i ∈ Q') (hchg : ∀ i, outS' i ≠ s.outS i → i ∈ Q') :
    Inv eq net (evalStep eq net s b outS' Q') := by
  intro c hcn hd
  unfold evalStep at hd ⊢
  by_cases hv : eq (s.outC b) (net.fcalc b s.outC s.outS) = true
  · -- unchanged: outputs as before
    simp only [hv, ↓reduceIte] at hd ⊢
    by_cases hcb : c = b
    · subst hcb
      have : dirty eq net s c := hd
      unfold dirty at this; rw [hv] at this; exact absurd this (by simp)
    · have hd' : dirty eq net s c := hd
      rcases h c hcn hd' with h1 | h2
      · left; simp [h1, hcb]
      · right; exact h2
  · have hv' : eq (s.outC b) (net.fcalc b s.outC s.outS) = false := by
      cases hx : eq (s.outC b) (net.fcalc b s.outC s.outS) <;> simp_all
    simp only [hv', Bool.false_eq_true, ↓reduceIte] at hd ⊢
    unfold dirty at hd; simp only at hd
    by_cases hS : ∃ i ∈ net.insS c, outS' i ≠ s.outS i
    · obtain ⟨i, hi, hne⟩ := hS
      right; exact ⟨i, hchg i hne, (wf.wireS i c).mpr hi⟩
    · have hS' : ∀ i ∈ net.insS c, outS' i = s.outS i := by
        intro i hi; by_cases e : outS' i = s.outS i
        · exact e
        · exact absurd ⟨i, hi, e⟩ hS
      by_cases hbc : b ∈ net.insC c
      · left
        have : c ∈ net.succC b := (wf.wireC b c).mpr hbc
        simp [this]
      · by_cases hcb : c = b
        · subst hcb
          exfalso
          have e1 : net.fcalc c (upd s.outC c (net.fcalc c s.outC s.outS)) outS'
              = net.fcalc c (upd s.outC c (net.fcalc c s.outC s.outS)) s.outS :=
            wf.local_ c _ _ _ _ (fun _ _ => rfl) hS' rfl
          rw [e1] at hd
          have hi := wf.idem c s.outC s.outS hbc
          simp [upd] at hd
          rw [hi] at hd
          exact absurd hd (by simp)
        · have e1 : net.fcalc c (upd s.outC b (net.fcalc b s.outC s.outS)) outS'
              = net.fcalc c s.outC s.outS := by
            apply wf.local_
            · intro j hj
              have : j ≠ b := fun e => hbc (e ▸ hj)
              simp [upd, this]
            · exact hS'
            · simp [upd, hcb]
          have hd' : dirty eq net s c := by
            unfold dirty
            rw [e1] at hd
            simpa [upd, hcb] using hd
          rcases h c hcn hd' with h1 | ⟨i, hi, hb⟩
          · left; simp [h1, hcb]
          · right; exact ⟨i, hQ i hi, hb⟩

theorem idle_clean (eq : V → V → Bool) (net : Net V) (s : St V) (h : Inv eq net s)
    (hE : ∀ b, b < net.n → s.E b = false) (hQ : s.Q = []) (b : Nat) (hb : b < net.n) :
    eq (s.outC b) (net.fcalc b s.outC s.outS) = true := by
  cases hd : eq (s.outC b) (net.fcalc b s.outC s.outS)
  · rcases h b hb hd with h1 | ⟨i, hi, _⟩
    · simp [hE b hb] at h1
    · simp [hQ] at hi
  · rfl

/-- SBlock outputs change (external events): every changed SBlock is enqueued -/
theorem env_change_inv (eq : V → V → Bool) (net : Net V) (wf : WF eq net) (s : St V)
    (h : Inv eq net s) (outS' : Nat → V) (Q' : List Nat)
    (hQ : ∀ i ∈ s.Q, i ∈ Q') (hchg : ∀ i, outS' i ≠ s.outS i → i ∈ Q') :
    Inv eq net { s with outS := outS', Q := Q' } := by
  intro c hcn hd
  unfold dirty at hd; simp only at hd
  by_cases hS : ∃ i ∈ net.insS c, outS' i ≠ s.outS i
  · obtain ⟨i, hi, hne⟩ := hS
    right; exact ⟨i, hchg i hne, (wf.wireS i c).mpr hi⟩
  · have hS' : ∀ i ∈ net.insS c, outS' i = s.outS i := by
      intro i hi; by_cases e : outS' i = s.outS i
      · exact e
      · exact absurd ⟨i, hi, e⟩ hS
    have e1 : net.fcalc c s.outC outS' = net.fcalc c s.outC s.outS :=
      wf.local_ c _ _ _ _ (fun _ _ => rfl) hS' rfl
    rw [e1] at hd
    rcases h c hcn hd with h1 | ⟨i, hi, hb⟩
    · left; exact h1
    · right; exact ⟨i, hQ i hi, hb⟩

/-! ### the concrete network -/

theorem src_val_congr (s : Src) (o o' e e' : Nat → Val)
    (hc : ∀ j, s = .c j → o j = o' j) (hs : ∀ i, s = .s i → e i = e' i) :
    s.val o e = s.val o' e' := by
  cases s with
  | c j => exact hc j rfl
  | s i => exact hs i rfl
  | k v => rfl

theorem mem_cIns (b : CBlk) (j : Nat) : j ∈ cIns b ↔ Src.c j ∈ b.allSrcs := by
  simp only [cIns, List.mem_filterMap]
  constructor
  · rintro ⟨s, hs, h⟩
    cases s <;> simp at h
    subst h; exact hs
  · intro h; exact ⟨_, h, rfl⟩

theorem mem_sIns (b : CBlk) (i : Nat) : i ∈ sIns b ↔ Src.s i ∈ b.allSrcs := by
  simp only [sIns, List.mem_filterMap]
  constructor
  · rintro ⟨s, hs, h⟩
    cases s <;> simp at h
    subst h; exact hs
  · intro h; exact ⟨_, h, rfl⟩

/-- agreement of two valuations on everything a block reads -/
def Agree (b : CBlk) (o o' e e' : Nat → Val) : Prop :=
  ∀ s ∈ b.allSrcs, s.val o e = s.val o' e'

theorem agree_of (b : CBlk) (o o' e e' : Nat → Val)
    (hc : ∀ j ∈ cIns b, o j = o' j) (hs : ∀ i ∈ sIns b, e i = e' i) : Agree b o o' e e' := by
  intro s hs'
  apply src_val_congr
  · intro j hj; subst hj; exact hc j ((mem_cIns b j).mpr hs')
  · intro i hi; subst hi; exact hs i ((mem_sIns b i).mpr hs')

theorem map_val_congr (l : List Src) (o o' e e' : Nat → Val)
    (h : ∀ s ∈ l, s.val o e = s.val o' e') : l.map (Src.val o e) = l.map (Src.val o' e') :=
  List.map_congr_left h

theorem lookupNamed_congr (l : List (String × Src)) (k : String) (o o' e e' : Nat → Val)
    (h : ∀ p ∈ l, p.2.val o e = p.2.val o' e') :
    lookupNamed o e l k = lookupNamed o' e' l k := by
  unfold lookupNamed
  cases hf : l.find? (·.1 == k) with
  | none => rfl
  | some p => exact h p (List.mem_of_find?_eq_some hf)

theorem calcBlk_congr (b : CBlk) (own : Val) (o o' e e' : Nat → Val) (h : Agree b o o' e e') :
    calcBlk b own o e = calcBlk b own o' e' := by
  have hpos : b.pos.map (Src.val o e) = b.pos.map (Src.val o' e') :=
    map_val_congr _ _ _ _ _ (fun s hs => h s (by simp [CBlk.allSrcs, hs]))
  have hnamed : ∀ k, lookupNamed o e b.named k = lookupNamed o' e' b.named k := fun k =>
    lookupNamed_congr _ _ _ _ _ _ (fun p hp => h p.2 (by
      simp only [CBlk.allSrcs, List.mem_append, List.mem_map]
      exact Or.inl (Or.inr ⟨p, hp, rfl⟩)))
  have hgrp : ∀ g ∈ b.groups, g.2.map (Src.val o e) = g.2.map (Src.val o' e') := fun g hg =>
    map_val_congr _ _ _ _ _ (fun s hs => h s (by
      simp only [CBlk.allSrcs, List.mem_append, List.mem_flatMap]
      exact Or.inr ⟨g, hg, hs⟩))
  unfold calcBlk
  simp only [hpos, hnamed]
  cases hfn : b.fn with
  | func f u =>
    cases f with
    | glen =>
      simp only
      cases hf : b.groups.find? (·.1 == "g") with
      | none => rfl
      | some g => simp [hgrp g (List.mem_of_find?_eq_some hf)]
    | _ => rfl
  | _ => rfl

/-- static well-formedness of a circuit: no block reads its own output, Compare thresholds ordered
    (`Compare.__init__` refuses `high < low`) -/
def CBlk.ok (b : CBlk) : Bool :=
  match b.fn with
  | .compare low high => decide (low ≤ high)
  | _ => true

def Circuit.ok (c : Circuit) : Prop :=
  ∀ b, b < c.cblocks.length → (c.blk b).ok = true ∧ b ∉ cIns (c.blk b)

theorem blk_default_of_ge (c : Circuit) (b : Nat) (h : c.cblocks.length ≤ b) : c.blk b = default := by
  simp [Circuit.blk, List.getD, List.getElem?_eq_none h]

theorem cIns_default : cIns (default : CBlk) = [] := rfl
theorem sIns_default : sIns (default : CBlk) = [] := rfl

theorem bool_truthy (x : Bool) : (Val.bool x).truthy = x := by
  cases x <;> decide +kernel

theorem bool_isUndef (x : Bool) : (Val.bool x).isUndef = false := by
  cases x <;> rfl

theorem pyEq_refl_atom (a : Atom) : a.pyEq a = true := by
  cases a <;> simp [Atom.pyEq]

theorem listEq_refl (l : List Atom) : Atom.listEq l l = true := by
  induction l with
  | nil => rfl
  | cons a l ih => simp [Atom.listEq, pyEq_refl_atom, ih]

theorem pyEq_refl (v : Val) : v.pyEq v = true := by
  cases v <;> simp [Val.pyEq, pyEq_refl_atom, listEq_refl]

/-- `Compare` is output-idempotent exactly because `low ≤ high` -/
theorem compare_idem (low high x : Rat) (h : low ≤ high) (own : Val) :
    let thr : Rat := if own.isUndef then (low + high) / 2 else if own.truthy then low else high
    let v := Val.bool (decide (thr ≤ x))
    let thr' : Rat := if v.isUndef then (low + high) / 2 else if v.truthy then low else high
    Val.bool (decide (thr' ≤ x)) = v := by
  intro thr v thr'
  have hmid1 : low ≤ (low + high) / 2 := by grind
  have hmid2 : (low + high) / 2 ≤ high := by grind
  have hthr : low ≤ thr ∧ thr ≤ high := by
    simp only [thr]; split
    · exact ⟨hmid1, hmid2⟩
    · split
      · exact ⟨Rat.le_refl, h⟩
      · exact ⟨h, Rat.le_refl⟩
  simp only [thr', v, bool_isUndef, bool_truthy, Bool.false_eq_true, ↓reduceIte]
  by_cases hx : thr ≤ x
  · have : low ≤ x := Rat.le_trans hthr.1 hx
    simp [hx, this]
  · have : ¬ high ≤ x := fun hh => hx (Rat.le_trans hthr.2 hh)
    simp [hx, this]

theorem calcBlk_compare (b : CBlk) (low high : Rat) (hfn : b.fn = .compare low high) (own : Val)
    (o e : Nat → Val) :
    calcBlk b own o e = Val.bool (decide ((if own.isUndef then (low + high) / 2 else if own.truthy then low else high)
      ≤ numOf ((b.pos.map (Src.val o e)).headD .undef))) := by
  unfold calcBlk; simp only [hfn]

theorem calcBlk_own_irrel (b : CBlk) (h : ∀ lo hi, b.fn ≠ .compare lo hi) (own own' : Val)
    (o e : Nat → Val) : calcBlk b own o e = calcBlk b own' o e := by
  unfold calcBlk
  cases hfn : b.fn with
  | compare lo hi => exact absurd hfn (h lo hi)
  | func f u => cases f <;> rfl
  | _ => rfl

/-- a block that does not read its own output is output-idempotent -/
theorem calcBlk_idem (b : CBlk) (hok : b.ok = true) (own : Val) (o e : Nat → Val) :
    calcBlk b (calcBlk b own o e) o e = calcBlk b own o e := by
  by_cases hc : ∃ lo hi, b.fn = .compare lo hi
  · obtain ⟨low, high, hfn⟩ := hc
    simp only [CBlk.ok, hfn, decide_eq_true_eq] at hok
    rw [calcBlk_compare b low high hfn, calcBlk_compare b low high hfn]
    exact compare_idem low high _ hok own
  · exact calcBlk_own_irrel b (fun lo hi h => hc ⟨lo, hi, h⟩) _ _ o e

theorem circuit_wf (c : Circuit) (hok : c.ok) : WF Val.pyEq c.net where
  wireC a b := by
    simp only [Circuit.net, List.mem_filter, List.mem_range, List.contains_iff_mem]
    constructor
    · exact fun h => h.2
    · intro h
      refine ⟨?_, h⟩
      by_cases hb : b < c.cblocks.length
      · exact hb
      · rw [blk_default_of_ge c b (by omega), cIns_default] at h; simp at h
  wireS i b := by
    simp only [Circuit.net, List.mem_filter, List.mem_range, List.contains_iff_mem]
    constructor
    · exact fun h => h.2
    · intro h
      refine ⟨?_, h⟩
      by_cases hb : b < c.cblocks.length
      · exact hb
      · rw [blk_default_of_ge c b (by omega), sIns_default] at h; simp at h
  local_ b o o' e e' hc hs hown := by
    simp only [Circuit.net]
    rw [hown]
    exact calcBlk_congr _ _ _ _ _ _ (agree_of _ _ _ _ _ hc hs)
  idem b o e hself := by
    simp only [Circuit.net] at hself ⊢
    by_cases hb : b < c.cblocks.length
    · have hagree : Agree (c.blk b) (upd o b (calcBlk (c.blk b) (o b) o e)) o e e := by
        apply agree_of
        · intro j hj
          have : j ≠ b := fun h => hself (h ▸ hj)
          simp [upd, this]
        · intro _ _; rfl
      rw [calcBlk_congr _ _ _ _ _ _ hagree]
      simp only [upd, ↓reduceIte]
      rw [calcBlk_idem _ (hok b hb).1]
      exact pyEq_refl _
    · have hd := blk_default_of_ge c b (by omega)
      rw [hd]
      have : ∀ own o e, calcBlk (default : CBlk) own o e = Val.bool true := fun _ _ _ => by
        simp [calcBlk, show (default : CBlk).fn = Fn.not from rfl, show (default : CBlk).pos = [] from rfl,
          Val.truthy]
      simp [this, pyEq_refl]

/-! ### `set_output`'s contract for the concrete effects -/

def Grows (outS outS' : Nat → Val) (Q Q' : List Nat) : Prop :=
  (∀ i ∈ Q, i ∈ Q') ∧ (∀ i, outS' i ≠ outS i → i ∈ Q')

theorem grows_refl (outS : Nat → Val) (Q : List Nat) : Grows outS outS Q Q :=
  ⟨fun _ h => h, fun _ h => absurd rfl h⟩

theorem grows_trans {o1 o2 o3 : Nat → Val} {q1 q2 q3 : List Nat}
    (h1 : Grows o1 o2 q1 q2) (h2 : Grows o2 o3 q2 q3) : Grows o1 o3 q1 q3 := by
  refine ⟨fun i hi => h2.1 i (h1.1 i hi), fun i hne => ?_⟩
  by_cases h : o3 i = o2 i
  · exact h2.1 i (h1.2 i (by rw [← h]; exact hne))
  · exact h2.2 i h

theorem setOutput_grows (outS : Nat → Val) (Q : List Nat) (i : Nat) (v : Val) :
    Grows outS (setOutput outS Q i v).1 Q (setOutput outS Q i v).2 := by
  unfold setOutput
  split
  · exact grows_refl _ _
  · refine ⟨fun j hj => by simp [hj], fun j hne => ?_⟩
    by_cases hji : j = i
    · simp [hji]
    · simp [upd, hji] at hne

theorem deliver_grows (kinds : List SKind) (outS : Nat → Val) (Q : List Nat) (i : Nat) (k : EvKind)
    (value : Val) :
    Grows outS (deliver kinds outS Q i k value).1 Q (deliver kinds outS Q i k value).2 := by
  unfold deliver
  split
  · exact setOutput_grows _ _ _ _
  · split
    · exact setOutput_grows _ _ _ _
    · exact grows_refl _ _
  · exact setOutput_grows _ _ _ _
  · exact grows_refl _ _

theorem effects_grows (c : Circuit) (b : Nat) (v : Val) (outS : Nat → Val) (Q : List Nat) :
    Grows outS (effects c b v outS Q).1 Q (effects c b v outS Q).2 := by
  unfold effects
  generalize (c.blk b).events = evs
  induction evs generalizing outS Q with
  | nil => exact grows_refl _ _
  | cons e evs ih =>
    simp only [List.foldl_cons]
    exact grows_trans (deliver_grows _ _ _ _ _ _) (ih _ _)

end Edzed.Sim
