/-
Helper definitions and lemmas for the translation tie of C11 (`SBlock.event`, `Event.send`):
the primitives of the generated programs (EdzedModel/Gen/TranslatedDispatch.lean) instantiated with the
operations of the model (EdzedModel/Dispatch.lean), the hand-written reference programs, and the lemmas
that relate the parts of the reference programs to the parts of `deliver` / `sendEdges`.
-/
import EdzedModel.Dispatch
import EdzedProofs.Dispatch
import EdzedModel.Gen.TranslatedDispatch

namespace Edzed.TrTie
open Edzed.Dispatch Edzed.Gen.TrD

/-- an exception object as the code sees it: class, "the traceback has more than one level" at the
    place where `event()` catches it, "its message says forbidden recursive call" -/
structure ExcV where
  -- `refusal`: the message carries the marker 'Forbidden recursive' (what the harness looks for, too)
  kind : Exc
  deep : Bool
  refusal : Bool
  deriving DecidableEq, Repr

/-- `Class(message)` -/
def mkExc (cls msg : String) : ExcV :=
  { kind := if cls == "ValueError" then .valueError else if cls == "TypeError" then .typeError
            else if cls == "EdzedCircuitError" then .circuitError
            else if cls == "EdzedUnknownEvent" then .unknownEvent
            else if cls == "EdzedInvalidState" then .invalidState else .other,
    deep := false,
    refusal := msg == "recursion" }

/-- which `except` clause catches what (the artefact `outOfFuel` is no exception of the code) -/
def excIs (e : ExcV) (cls : String) : Bool :=
  if cls == "EdzedUnknownEvent" then e.kind == .unknownEvent
  else if cls == "Exception" then e.kind != .outOfFuel
  else false

/-- Python's `None`-or-event-type -/
def optOf : EType → Option EType
  | .none => Option.none
  | e => some e

/-- the result of a model operation as the outcome of a call: an exception raised inside it has a
    traceback of more than one level -/
def liftCall (p : St × Res) : St × Out ExcV Val Val :=
  match p.2 with
  | .ret v => (p.1, .next v)
  | .exc x => (p.1, .raise ⟨x, true, false⟩)

def liftUnit {ρ : Type} (p : St × Res) : St × Out ExcV ρ Unit :=
  match p.2 with
  | .ret _ => (p.1, .next ())
  | .exc x => (p.1, .raise ⟨x, true, false⟩)

/-- the handler's frame without the `except` clauses of `event()` (ghost stack and trace) -/
def inFrame (d : Nat) (stk0 : List Frame) (s3 : St) (data : Data) (body : St → St × Res) : St × Res :=
  let s4 := { s3 with stack := ⟨d, .handler⟩ :: stk0,
                      trace := .enter d (handlerDepth stk0 d + 1) (data.get? "value") (windowDepth stk0 d) :: s3.trace }
  let p := body s4
  ({ p.1 with stack := stk0,
              trace := .exit d (match p.2 with | .ret _ => true | .exc _ => false) :: p.1.trace }, p.2)

/-- the primitives of `SBlock.event` as operations of the model: block `b` = number `d` of circuit `c`,
    nested deliveries with `fuel`, `stk0` = the (ghost) stack at the entry -/
def evPrims (c : Circ) (fuel : Nat) (b : Blk) (d : Nat) (stk0 : List Frame) :
    EventPrims St ExcV EType Data (Option Val) (String × List String × List String × Bool) Val Bool where
  isStr := fun et => match et with | .name _ => true | .empty => true | _ => false
  etypeTruthy := fun et => match et with | .empty => false | _ => true
  isEventType := fun et => match et with | .cond _ _ => true | .goto _ => true | _ => false
  isCond := fun et => match et with | .cond _ _ => true | _ => false
  etrue := fun et => match et with | .cond t _ => optOf t | _ => Option.none
  efalse := fun et => match et with | .cond _ f => optOf f | _ => Option.none
  dataValue := fun data => data.get? "value"
  valTruthy := fun o => match o with | some v => v.truthy | Option.none => false
  mkExc := mkExc
  excIs := excIs
  tbDeep := fun e => e.deep
  getActive := fun s => s.active d
  setActive := fun v => M.modify fun s => { s with active := upd s.active d v }
  abort := fun e => M.modify fun s =>
    if e.refusal then { s.abort e.kind with trace := .refused d :: s.trace } else s.abort e.kind
  initSteps := fun s => match s.init d with | .pending => 1 | .running => -2 | .done => 2
  enableEnter := fun s => ({ s with active := upd s.active d false, stack := ⟨d, .init⟩ :: stk0 }, .next (s.active d))
  enableExit := fun saved => M.modify fun s => { s with active := upd s.active d saved, stack := stk0 }
  initSblockFull := fun s => liftUnit (initBlock (deliver c fuel) b d s)
  lookup := fun et => lookupHandler b.kind et
  callHandler := fun h data s =>
    if !paramsOk h data then (s, .raise ⟨.typeError, false, false⟩)
    else liftCall (inFrame d stk0 s data (fun s4 => handlerBody (deliver c fuel) b d s4 h.1 data))
  callDefault := fun et data s =>
    if b.kind = .fsm then liftCall (inFrame d stk0 s data (fun s4 => fsmEvent (deliver c fuel) b d stk0 s4 et data))
    else if b.kind = .repeat then
      liftCall (inFrame d stk0 s data (fun s4 => repeatEvent (deliver c fuel) b d s4 et data))
    else (s, .raise ⟨.unknownEvent, true, false⟩)
  noneVal := Val.none

/-- the outcome of the translated `event()` as a result of the model -/
def toRes (p : St × Out ExcV Val Unit) : St × Res :=
  match p.2 with
  | .next _ => (p.1, .ret .none)
  | .ret v => (p.1, .ret v)
  | .raise e => (p.1, .exc e.kind)
  | .diverged => (p.1, .exc .outOfFuel)

def EType.depth : EType → Nat
  | .cond t f => max (depth t) (depth f) + 1
  | _ => 0

/-! #### the reference program: `SBlock.event` written by hand in named parts.  The translated program
     is definitionally this one (`translated_event_is_reference`, closed by `rfl`): every semantic edit of
     the method changes the generated text and breaks that theorem. -/

section reference
variable {σ ε τ δ ν η ρ γ : Type} (P : EventPrims σ ε τ δ ν η ρ γ)

/-- the two `isinstance` checks at the top -/
def checkPart (etype : τ) : M σ ε ρ Unit :=
  if P.isStr etype then
    if (!P.etypeTruthy (etype)) then M.raise (P.mkExc "ValueError" "") else M.pure ()
  else
    if (!P.isEventType etype) then
      M.raise (P.mkExc "TypeError" "")
    else M.pure ()

/-- the recursion guard has found the block busy -/
def refusePart {α : Type} : M σ ε ρ α :=
  let exc := P.mkExc "EdzedCircuitError" "recursion"
  M.bind (P.abort exc) fun _ =>
  M.raise (exc)

/-- early initialisation of a block whose second initialisation step is pending -/
def initPart : M σ ε ρ Unit :=
  M.bind M.get fun st =>
  if (decide ((0 : Int) ≤ P.initSteps st) && decide (P.initSteps st < (2 : Int))) then
    M.bind (M.withCtx P.enableEnter P.enableExit (
        M.bind (P.initSblockFull) fun _ =>
        M.pure ()
      )) fun (_ : Unit) =>
    M.pure ()
  else
    M.pure ()

/-- `type(self)._ct_handlers.get(etype)` for a str, else None -/
def lookupPart (etype : τ) : M σ ε ρ (Option η) :=
  if P.isStr etype then
    let handler := P.lookup etype
    M.pure (handler)
  else
    M.pure (none)

/-- the call of the handler and the `except` clauses around it -/
def callPart (handler : Option η) (etype : τ) (data : δ) : M σ ε ρ ρ :=
  M.tryExcept (
    match handler with
    | none =>
      M.bind (P.callDefault etype data) fun retval =>
      M.pure (retval)
    | some handler =>
      M.bind (P.callHandler handler data) fun retval =>
      M.pure (retval)
  ) (fun exc_ =>
    if P.excIs exc_ "EdzedUnknownEvent" then
      M.raise exc_
    else
    if P.excIs exc_ "Exception" then
      M.bind (
        if P.tbDeep exc_ then
          let sim_err := P.mkExc "EdzedCircuitError" ""
          M.bind (P.abort sim_err) fun _ =>
          M.pure ()
        else
          M.pure ()
      ) fun (_ : Unit) =>
      M.raise exc_
    else
      M.raise exc_)

/-- the body of the outer `try` -/
def bodyPart (fuel : Nat) (etype : τ) (data : δ) : M σ ε ρ Unit :=
  M.bind (event_loop1 P data fuel etype) fun etype =>
  M.bind (initPart P) fun (_ : Unit) =>
  M.bind (lookupPart P etype) fun handler =>
  M.bind (callPart P handler etype data) fun retval =>
  M.ret (retval)

def eventRef (fuel : Nat) (etype : τ) (data : δ) : M σ ε ρ Unit :=
  M.bind (checkPart P etype) fun (_ : Unit) =>
  M.bind M.get fun st =>
  if P.getActive st then
    refusePart P
  else
    M.bind (P.setActive true) fun _ =>
    M.bind (
      M.tryFinally (bodyPart P fuel etype data) (
        M.bind (P.setActive false) fun _ =>
        M.pure ())
    ) fun (_ : Unit) =>
    M.pure ()

end reference

section
variable (c : Circ) (fuel : Nat) (b : Blk) (d : Nat) (stk0 : List Frame)

theorem valTruthy_eq (data : Data) :
    (evPrims c fuel b d stk0).valTruthy ((evPrims c fuel b d stk0).dataValue data) = dataTruthy data := rfl
theorem isCond_cond (t f : EType) : (evPrims c fuel b d stk0).isCond (.cond t f) = true := rfl
theorem etrue_cond (t f : EType) : (evPrims c fuel b d stk0).etrue (.cond t f) = optOf t := rfl
theorem efalse_cond (t f : EType) : (evPrims c fuel b d stk0).efalse (.cond t f) = optOf f := rfl
theorem noneVal_eq : (evPrims c fuel b d stk0).noneVal = Val.none := rfl

theorem optOf_some {t : EType} (h : t ≠ .none) : optOf t = some t := by
  cases t <;> simp_all [optOf]

theorem loop_is_resolve (data : Data)
    (n : Nat) (et : EType) (s : St) (hn : EType.depth et < n) (het : et ≠ .none) :
    event_loop1 (evPrims c fuel b d stk0) data n et s =
      (s, match optOf (et.resolve (dataTruthy data)) with
          | Option.none => .ret Val.none
          | some e => .next e) := by
  induction n generalizing et with
  | zero => omega
  | succ n ih =>
    cases et with
    | cond t f =>
      simp only [EType.depth] at hn
      unfold event_loop1
      simp only [valTruthy_eq, isCond_cond, etrue_cond, efalse_cond, noneVal_eq, EType.resolve, if_true]
      by_cases hvv : dataTruthy data = true
      case neg =>
        have hvv : dataTruthy data = false := by simpa using hvv
        simp only [hvv] at ih ⊢
        simp only [Bool.false_eq_true, if_false, if_true]
        by_cases ht : f = .none
        · subst ht; simp [optOf, EType.resolve, M.ret]
        · simp only [optOf_some ht]
          exact ih f (by omega) ht
      case pos =>
        simp only [hvv] at ih ⊢
        simp only [if_true]
        by_cases ht : t = .none
        · subst ht; simp [optOf, EType.resolve, M.ret]
        · simp only [optOf_some ht]
          exact ih t (by omega) ht
    | none => exact absurd rfl het
    | _ =>
      unfold event_loop1
      simp [evPrims, EType.resolve, optOf, M.pure]


def toResV (p : St × Out ExcV Val Val) : St × Res :=
  match p.2 with
  | .next v => (p.1, .ret v)
  | .ret v => (p.1, .ret v)
  | .raise e => (p.1, .exc e.kind)
  | .diverged => (p.1, .exc .outOfFuel)

theorem checkPart_model (et : EType) (s : St) :
    checkPart (evPrims c fuel b d stk0) et s =
      (s, match et.check with | Option.none => .next () | some x => .raise ⟨x, false, false⟩) := by
  cases et <;> simp [checkPart, evPrims, EType.check, M.raise, M.pure, mkExc]

theorem initPart_model (s1 : St) :
    initPart (evPrims c fuel b d stk0) s1 = liftUnit (earlyInit (deliver c fuel) b d stk0 s1) := by
  unfold initPart earlyInit
  simp only [M.bind, M.get]
  cases hi : s1.init d <;> simp [evPrims, hi, M.pure, liftUnit, M.withCtx, M.bind, M.tryFinally, M.modify]
  generalize initBlock (deliver c fuel) b d _ = p
  obtain ⟨s', r⟩ := p
  cases r <;> simp


theorem lookupPart_model (et : EType) (s : St) :
    lookupPart (evPrims c fuel b d stk0) et s = (s, .next (lookupHandler b.kind et)) := by
  cases et <;> simp [lookupPart, evPrims, M.pure, lookupHandler]

theorem lookup_fsm (hk : b.kind = .fsm) (et : EType) : lookupHandler b.kind et = Option.none := by
  cases et <;> simp [lookupHandler, hk, handlersOf]

theorem excIs_unknown (e : ExcV) : excIs e "EdzedUnknownEvent" = (e.kind == .unknownEvent) := by
  simp [excIs]

theorem excIs_exception (e : ExcV) : excIs e "Exception" = (e.kind != .outOfFuel) := by
  simp [excIs]

/-- the `except` clauses applied to an exception raised inside the handler = `classify` -/
theorem except_deep_is_classify (s : St) (x : Exc) :
    (if excIs ⟨x, true, false⟩ "EdzedUnknownEvent" = true then (s, Exc.unknownEvent) else
      if excIs ⟨x, true, false⟩ "Exception" = true then (s.abort .circuitError, x) else (s, x)).1
      = classify s (.exc x) := by
  cases x <;> simp [excIs, classify]

theorem callPart_model (et : EType) (data : Data) (s3 : St) :
    toResV (callPart (evPrims c fuel b d stk0) (lookupHandler b.kind et) et data s3) =
      callHandler (deliver c fuel) b d stk0 s3 et data := by
  unfold callHandler
  by_cases hk : b.kind = .fsm
  · simp only [hk, if_true]
    have hl := lookup_fsm b hk et
    rw [hk] at hl
    simp only [hl, callPart, M.tryExcept, M.bind, evPrims, hk, if_true]
    unfold inHandler liftCall inFrame
    simp only []
    generalize fsmEvent (deliver c fuel) b d stk0 _ et data = p
    obtain ⟨s', r⟩ := p
    cases r with
    | ret v => simp [M.pure, toResV, classify]
    | exc x => cases x <;> simp [toResV, classify, excIs, M.raise, M.bind, M.modify, M.pure, mkExc, St.abort]
  · simp only [hk, if_false]
    by_cases hr : b.kind = .repeat
    · simp only [hr, if_true]
      have hl : lookupHandler .repeat et = Option.none := by
        cases et <;> simp [lookupHandler, handlersOf]
      simp only [hl, callPart, M.tryExcept, M.bind, evPrims, hr, if_true]
      simp only [show (BKind.repeat = BKind.fsm) = False from by simp, if_false]
      unfold inHandler liftCall inFrame
      simp only []
      generalize repeatEvent (deliver c fuel) b d _ et data = p
      obtain ⟨s', r⟩ := p
      cases r with
      | ret v => simp [M.pure, toResV, classify]
      | exc x => cases x <;> simp [toResV, classify, excIs, M.raise, M.bind, M.modify, M.pure, mkExc, St.abort]
    simp only [hr, if_false]
    cases hl : lookupHandler b.kind et with
    | none =>
      simp [callPart, M.tryExcept, M.bind, evPrims, hk, hr, excIs, M.raise, toResV]
    | some h =>
      simp only [callPart, M.tryExcept, M.bind, evPrims]
      by_cases hp : paramsOk h data = true
      · simp only [hp, Bool.not_true, Bool.false_eq_true, if_false]
        unfold inHandler liftCall inFrame
        simp only []
        generalize handlerBody (deliver c fuel) b d _ h.1 data = p
        obtain ⟨s', r⟩ := p
        cases r with
        | ret v => simp [M.pure, toResV, classify]
        | exc x => cases x <;> simp [toResV, classify, excIs, M.raise, M.bind, M.modify, M.pure, mkExc, St.abort]
      · have hp : paramsOk h data = false := by simpa using hp
        simp [hp, excIs, M.raise, M.bind, M.pure, toResV]


theorem resolve_ne_none_of (et : EType) (v : Bool) (e : EType) (h : optOf (et.resolve v) = some e) :
    et.resolve v = e ∧ e ≠ .none := by
  cases hr : et.resolve v <;> simp_all [optOf] <;> (subst h; simp)

/-- what follows the call of the handler: `return retval`, seen through `toRes` -/
theorem ret_after_call (m : M St ExcV Val Val) (s : St) :
    toRes ((M.bind m fun retval => M.ret retval) s) = toResV (m s) := by
  unfold M.bind
  generalize m s = p
  obtain ⟨s', o⟩ := p
  cases o <;> simp [toRes, toResV, M.ret]


theorem optOf_none {e : EType} (h : optOf e = Option.none) : e = .none := by
  cases e <;> simp_all [optOf]

theorem bodyPart_model (n : Nat) (et : EType) (data : Data) (s1 : St) (hn : EType.depth et < n)
    (hne : et ≠ .none) :
    toRes (bodyPart (evPrims c fuel b d stk0) n et data s1) =
      eventBody (deliver c fuel) b d stk0 s1 et data := by
  unfold bodyPart eventBody
  simp only [M.bind, loop_is_resolve c fuel b d stk0 data n et s1 hn hne]
  cases hr : optOf (et.resolve (dataTruthy data)) with
  | none => simp [optOf_none hr, toRes]
  | some e =>
    obtain ⟨he, hen⟩ := resolve_ne_none_of et _ e hr
    simp only [he, hen, if_false, initPart_model, andThen]
    generalize earlyInit (deliver c fuel) b d stk0 s1 = p
    obtain ⟨s3, r⟩ := p
    cases r with
    | exc x => simp [liftUnit, toRes]
    | ret v =>
      simp only [liftUnit, lookupPart_model]
      have := ret_after_call (callPart (evPrims c fuel b d stk0) (lookupHandler b.kind e) e data) s3
      simp only [M.bind] at this
      rw [this, callPart_model]

/-- `try: body  finally: self._event_active = False`, then falling off the end of `event()` -/
theorem finally_model (body : M St ExcV Val Unit) (s1 : St) :
    toRes ((M.bind (M.tryFinally body (M.bind ((evPrims c fuel b d stk0).setActive false) fun _ => M.pure ()))
      fun (_ : Unit) => M.pure ()) s1) =
      ({ (toRes (body s1)).1 with active := upd (toRes (body s1)).1.active d false }, (toRes (body s1)).2) := by
  unfold M.bind M.tryFinally
  generalize body s1 = p
  obtain ⟨s', o⟩ := p
  cases o <;> simp [evPrims, M.modify, M.pure, toRes]

end

/-! #### `Event.send` -/

section sendReference
variable {σ ε δ φ ψ : Type} (Q : SendPrims σ ε δ φ ψ)

/-- `Event.send` written by hand (the filter loop is the generated `send_for1`, tied below) -/
def sendRef (data : δ) (filters : List φ) : M σ ε Bool Unit :=
  if (!Q.sameCircuit) then
    M.raise (Q.mkExc "EdzedCircuitError" "")
  else
    let data := Q.setSource data
    M.bind (send_for1 Q filters data) fun data =>
    M.bind (Q.destEvent data) fun _ =>
    M.ret (true)

/-- one iteration of `for efilter in self._filters` written by hand -/
def filterStepRef (loop : δ → M σ ε Bool δ) (efilter : φ) (data : δ) : M σ ε Bool δ :=
  M.bind (Q.applyFilter efilter data) fun retval =>
  if Q.isMapping retval then
    if Q.anyKeyNotStr retval then
      M.raise (Q.mkExc "TypeError" "")
    else
      let data := Q.asData retval
      loop data
  else
    if (!Q.resTruthy (retval)) then
      M.ret (false)
    else
      loop data

theorem filter_loop_unfold (f : φ) (fs : List φ) (data : δ) :
    send_for1 Q (f :: fs) data = filterStepRef Q (send_for1 Q fs) f data ∧
    send_for1 Q [] data = M.pure data := ⟨rfl, rfl⟩

end sendReference

/-- what an event filter returns: a mapping, or some other object -/
inductive FRes where
  | mapping (d : Data)
  | value (v : Val)
  deriving Repr

/-- the filters of the model as Python callables -/
def filterView : Filter → Data → FRes
  | .accept, _ => .value (.bool true)
  | .reject, _ => .value (.bool false)
  | .ifValue, d => .value ((d.get? "value").getD Val.none)
  | .ifNotValue, d => .value (.bool (!dataTruthy d))
  | .delValue, d => .mapping (d.erase "value")
  | .setValue v, d => .mapping (d.set "value" v)
  | .notFromUndef, d => .value (.bool (!(d.get? "previous" == some .undef)))

def sendPrims (dlv : Dlv) (src : Nat) (e : Edge) : SendPrims St ExcV Data Filter FRes where
  sameCircuit := true
  mkExc := mkExc
  setSource := fun d => d.set "source" (.str (blockName src))
  applyFilter := fun f d => M.pure (filterView f d)     -- the filters of the model neither raise nor act
  isMapping := fun r => match r with | .mapping _ => true | .value _ => false
  anyKeyNotStr := fun _ => false            -- the keys of `Data` are strings
  asData := fun r => match r with | .mapping d => d | .value _ => []
  resTruthy := fun r => match r with | .mapping d => !d.isEmpty | .value v => v.truthy
  resIsNone := fun r => match r with | .mapping _ => false | .value v => v == Val.none
  destEvent := fun data s => liftUnit (dlv s e.dest e.etype data)

def toResS (p : St × Out ExcV Bool Unit) : St × Res :=
  match p.2 with
  | .next _ => (p.1, .ret .none)
  | .ret _ => (p.1, .ret .none)
  | .raise x => (p.1, .exc x.kind)
  | .diverged => (p.1, .exc .outOfFuel)

theorem getD_truthy (d : Data) : ((d.get? "value").getD Val.none).truthy = dataTruthy d := by
  unfold dataTruthy
  cases d.get? "value" <;> rfl

theorem val_bool_truthy (x : Bool) : (Val.bool x).truthy = x := by
  cases x <;> decide

section
variable (dlv : Dlv) (src : Nat) (e : Edge)

theorem q_isMapping_value (v : Val) : (sendPrims dlv src e).isMapping (.value v) = false := rfl
theorem q_isMapping_mapping (m : Data) : (sendPrims dlv src e).isMapping (.mapping m) = true := rfl
theorem q_anyKey (r : FRes) : (sendPrims dlv src e).anyKeyNotStr r = false := rfl
theorem q_asData (m : Data) : (sendPrims dlv src e).asData (.mapping m) = m := rfl
theorem q_truthy_value (v : Val) : (sendPrims dlv src e).resTruthy (.value v) = v.truthy := rfl
theorem q_apply (f : Filter) (data : Data) :
    (sendPrims dlv src e).applyFilter f data = M.pure (filterView f data) := rfl

theorem pure_bind {σ ε ρ α β : Type} (a : α) (k : α → M σ ε ρ β) : M.bind (M.pure a) k = k a := rfl

/-- one filter: the translated iteration is the model's `Filter.apply` -/
theorem filter_step_is_model (f : Filter) (fs : List Filter) (data : Data) :
    send_for1 (sendPrims dlv src e) (f :: fs) data =
      (match f.apply data with
       | Option.none => M.ret false
       | some d' => send_for1 (sendPrims dlv src e) fs d') := by
  rw [(filter_loop_unfold (sendPrims dlv src e) f fs data).1]
  unfold filterStepRef
  simp only [q_apply, pure_bind]
  cases f with
  | accept => simp [filterView, Filter.apply, q_isMapping_value, q_truthy_value, val_bool_truthy]
  | reject => simp [filterView, Filter.apply, q_isMapping_value, q_truthy_value, val_bool_truthy]
  | ifValue =>
    simp only [filterView, Filter.apply, q_isMapping_value, q_truthy_value, getD_truthy,
      Bool.false_eq_true, if_false]
    by_cases h : dataTruthy data = true <;> simp [h]
  | ifNotValue =>
    simp only [filterView, Filter.apply, q_isMapping_value, q_truthy_value, val_bool_truthy,
      Bool.false_eq_true, if_false]
    by_cases h : dataTruthy data = true <;> simp [h]
  | delValue => simp [filterView, Filter.apply, q_isMapping_mapping, q_anyKey, q_asData]
  | setValue v => simp [filterView, Filter.apply, q_isMapping_mapping, q_anyKey, q_asData]
  | notFromUndef =>
    simp only [filterView, Filter.apply, q_isMapping_value, q_truthy_value, val_bool_truthy]
    by_cases h : (data.get? "previous" == some Val.undef) = true <;> simp [h]

theorem filter_loop_is_model (fs : List Filter) (data : Data) (s : St) :
    send_for1 (sendPrims dlv src e) fs data s =
      (s, match applyFilters fs data with
          | Option.none => .ret false
          | some d' => .next d') := by
  induction fs generalizing data with
  | nil => simp [send_for1, applyFilters, M.pure]
  | cons f fs ih =>
    rw [filter_step_is_model]
    unfold applyFilters
    cases f.apply data with
    | none => simp [M.ret]
    | some d' => simpa using ih d'

end

end Edzed.TrTie
