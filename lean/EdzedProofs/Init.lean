/-
Helper lemmas for C05 (start-up).  Core Lean only.
-/
import EdzedModel.Init

namespace Edzed.Init

/-! ### `_run_tasks`: the waiting time -/

def maxTimeout (l : List Task) : Nat := l.foldr (fun t m => max t.timeout m) 0

theorem stepTask_bounds (now : Nat) (t : Task) :
    now ≤ (stepTask now t).1 ∧ (stepTask now t).1 ≤ max now t.timeout := by
  unfold stepTask
  cases t.fin with
  | none => dsimp only; split <;> dsimp only <;> omega
  | some f =>
    dsimp only
    split
    · dsimp only; omega
    · split
      · dsimp only; omega
      · split
        · dsimp only; omega
        · dsimp only; omega

theorem runTasks_le (l : List Task) : ∀ now, (runTasks now l).1 ≤ max now (maxTimeout l) := by
  induction l with
  | nil => intro now; exact Nat.le_max_left _ _
  | cons t r ih =>
    intro now
    have h1 := stepTask_bounds now t
    have h2 := ih (stepTask now t).1
    simp only [runTasks, maxTimeout, List.foldr] at *
    omega

theorem runTasks_ge (l : List Task) : ∀ now, now ≤ (runTasks now l).1 := by
  induction l with
  | nil => intro now; simp [runTasks]
  | cons t r ih =>
    intro now
    have h1 := stepTask_bounds now t
    have h2 := ih (stepTask now t).1
    simp only [runTasks] at *
    omega

theorem maxTimeout_insertBy (le : Nat → Nat → Bool) (x : Task) (l : List Task) :
    maxTimeout (insertBy Task.timeout le x l) = max x.timeout (maxTimeout l) := by
  induction l with
  | nil => simp [insertBy, maxTimeout]
  | cons y r ih =>
    unfold insertBy
    split
    · simp only [maxTimeout, List.foldr] at *; omega
    · simp only [maxTimeout, List.foldr]

theorem maxTimeout_foldl (le : Nat → Nat → Bool) (l : List Task) :
    ∀ acc, maxTimeout (l.foldl (fun acc x => insertBy Task.timeout le x acc) acc)
      = max (maxTimeout l) (maxTimeout acc) := by
  induction l with
  | nil => intro acc; simp [maxTimeout]
  | cons x r ih =>
    intro acc
    simp only [List.foldl]
    rw [ih, maxTimeout_insertBy]
    simp only [maxTimeout, List.foldr]
    omega

theorem maxTimeout_sortDesc (l : List Task) : maxTimeout (sortDesc l) = maxTimeout l := by
  unfold sortDesc sortBy
  rw [maxTimeout_foldl]
  simp [maxTimeout]

theorem schedule_fst (tasks : List Task) : (schedule tasks).1 = (runTasks 0 (sortDesc tasks)).1 := by
  simp [schedule]

/-! ### simple facts about the state operations -/

@[simp] theorem push_out (s : St) (e : Entry) : (s.push e).out = s.out := rfl
@[simp] theorem push_steps (s : St) (e : Entry) : (s.push e).steps = s.steps := rfl
@[simp] theorem push_ok (s : St) (e : Entry) : (s.push e).ok = s.ok := rfl
@[simp] theorem push_log (s : St) (e : Entry) : (s.push e).log = s.log ++ [e] := rfl
@[simp] theorem raise_out (s : St) (e : Err) : (s.raise e).out = s.out := rfl
@[simp] theorem raise_log (s : St) (e : Err) : (s.raise e).log = s.log := rfl
@[simp] theorem raise_steps (s : St) (e : Err) : (s.raise e).steps = s.steps := rfl
@[simp] theorem raise_ok (s : St) (e : Err) : (s.raise e).ok = false := by simp [St.raise, St.ok]
@[simp] theorem swallow_out (s : St) : s.swallow.out = s.out := rfl
@[simp] theorem swallow_log (s : St) : s.swallow.log = s.log := rfl
@[simp] theorem swallow_steps (s : St) : s.swallow.steps = s.steps := rfl
@[simp] theorem setOut_log (s : St) (b : Nat) (v : Val) : (s.setOut b v).log = s.log := rfl
@[simp] theorem setOut_steps (s : St) (b : Nat) (v : Val) : (s.setOut b v).steps = s.steps := rfl
@[simp] theorem setOut_ok (s : St) (b : Nat) (v : Val) : (s.setOut b v).ok = s.ok := rfl
@[simp] theorem setOut_out (s : St) (b : Nat) (v : Val) : (s.setOut b v).out = upd s.out b v := rfl
@[simp] theorem setSteps_log (s : St) (b : Nat) (k : Int) : (s.setSteps b k).log = s.log := rfl
@[simp] theorem setSteps_out (s : St) (b : Nat) (k : Int) : (s.setSteps b k).out = s.out := rfl
@[simp] theorem setSteps_ok (s : St) (b : Nat) (k : Int) : (s.setSteps b k).ok = s.ok := rfl
@[simp] theorem setSteps_steps (s : St) (b : Nat) (k : Int) : (s.setSteps b k).steps = upd s.steps b k := rfl
@[simp] theorem setActive_log (s : St) (b : Nat) (x : Bool) : (s.setActive b x).log = s.log := rfl
@[simp] theorem setActive_out (s : St) (b : Nat) (x : Bool) : (s.setActive b x).out = s.out := rfl
@[simp] theorem setActive_ok (s : St) (b : Nat) (x : Bool) : (s.setActive b x).ok = s.ok := rfl
@[simp] theorem setActive_steps (s : St) (b : Nat) (x : Bool) : (s.setActive b x).steps = s.steps := rfl
@[simp] theorem handlerFrame_log (s : St) : s.handlerFrame.log = s.log := by
  unfold St.handlerFrame; split <;> rfl
@[simp] theorem handlerFrame_out (s : St) : s.handlerFrame.out = s.out := by
  unfold St.handlerFrame; split <;> rfl
@[simp] theorem monitor_log (s : St) : s.monitor.log = s.log := by
  unfold St.monitor; split <;> rfl
@[simp] theorem monitor_out (s : St) : s.monitor.out = s.out := by
  unfold St.monitor; split <;> rfl
@[simp] theorem upd_same {α : Type} (f : Nat → α) (b : Nat) (x : α) : upd f b x b = x := by simp [upd]

/-! ### the invariant: log entries are legitimate, only reachable blocks get an output -/

/-- what the property says about single calls -/
def EntryOK : Entry → Prop
  | .async _ u t => u = true ∧ t > 0            -- init_async only if uninitialised and init_timeout > 0
  | .initdef _ u => u = true                    -- initdef only if still uninitialised
  | .handle _ _ k => ¬ (0 ≤ k ∧ k < 2)          -- a handler never runs with pending synchronous steps
  | _ => True

/-- the block has an initialisation source of its own -/
def OwnSource (k : Blk) : Prop :=
  (∃ v h, k.persist = .restores v h) ∨ (∃ v f, k.async = .returns v f) ∨ (∃ v, k.regular = .sets v) ∨
  (∃ v, k.regular = .viaEvent v) ∨ k.regular = .quietNone ∨ k.initdef.isSome = true ∨ k.start.isSome = true

/-- closure of the blocks with an own source under the on_output edges;
    defined by scripts and edges only -- the creation order does not enter -/
inductive Reach (c : Cfg) : Nat → Prop
  | own (b : Nat) : OwnSource (c.blk b) → Reach c b
  | edge (a b : Nat) : Reach c a → b ∈ (c.blk a).dests → Reach c b

structure Inv (c : Cfg) (s : St) : Prop where
  log : ∀ e ∈ s.log, EntryOK e
  out : ∀ b, s.out b ≠ .undef → Reach c b

def Legit (c : Cfg) : Call → Prop
  | .setOutput b _ => Reach c b
  | .send ds _ => ∀ d ∈ ds, Reach c d
  | .event d _ => Reach c d
  | .initS _ _ => True

structure RecSpec (c : Cfg) (rec : Call → St → St) : Prop where
  inv : ∀ call s, Legit c call → Inv c s → Inv c (rec call s)
  initPost : ∀ d s, s.ok = true → (s.steps d = 0 ∨ s.steps d = 1) →
    (rec (.initS d true) s).ok = true → (rec (.initS d true) s).steps d = 2

theorem Inv.push {c : Cfg} {s : St} (h : Inv c s) (e : Entry) (he : EntryOK e) : Inv c (s.push e) :=
  ⟨by intro x hx; simp at hx; rcases hx with hx | hx; exact h.log x hx; exact hx ▸ he, h.out⟩

theorem Inv.of_eq {c : Cfg} {s t : St} (h : Inv c s) (hl : t.log = s.log) (ho : t.out = s.out) : Inv c t :=
  ⟨by rw [hl]; exact h.log, by rw [ho]; exact h.out⟩

theorem Inv.setOut {c : Cfg} {s : St} (h : Inv c s) (b : Nat) (v : Val) (hb : Reach c b) :
    Inv c (s.setOut b v) :=
  ⟨h.log, by
    intro x hx
    by_cases hxb : x = b
    · exact hxb ▸ hb
    · simp [upd, hxb] at hx; exact h.out x hx⟩

theorem applyCall_legit (c : Cfg) (how : How) (b : Nat) (v : Val) (hb : Reach c b) :
    Legit c (applyCall how b v) := by
  cases how <;> exact hb

theorem step2_ok_steps (c : Cfg) (rec : Call → St → St) (b : Nat) (s : St)
    (h : (step2 c rec b s).ok = true) : (step2 c rec b s).steps b = 2 := by
  unfold step2 at h ⊢
  dsimp only at h ⊢
  split
  · next h1 => rw [if_pos h1] at h; simp_all
  · next h1 =>
    rw [if_neg h1] at h
    split
    · next h2 => rw [if_pos h2] at h; simp_all
    · simp

theorem initBody_post (c : Cfg) (rec : Call → St → St) (d : Nat) (s : St)
    (h01 : s.steps d = 0 ∨ s.steps d = 1) (hok : (initBody c rec d true s).ok = true) :
    (initBody c rec d true s).steps d = 2 := by
  rcases h01 with h0 | h1
  · have e : initBody c rec d true s =
        if (step1 c rec d s).ok = true then step2 c rec d (step1 c rec d s) else step1 c rec d s := by
      unfold initBody; simp [h0]
    rw [e] at hok ⊢
    by_cases hk : (step1 c rec d s).ok = true
    · rw [if_pos hk] at hok ⊢; exact step2_ok_steps _ _ _ _ hok
    · rw [if_neg hk] at hok; exact absurd hok hk
  · have e : initBody c rec d true s = if s.ok = true then step2 c rec d s else s := by
      unfold initBody; simp [h1]
    rw [e] at hok ⊢
    by_cases hk : s.ok = true
    · rw [if_pos hk] at hok ⊢; exact step2_ok_steps _ _ _ _ hok
    · rw [if_neg hk] at hok; exact absurd hok hk

theorem setOutputBody_inv (c : Cfg) (rec : Call → St → St) (hr : RecSpec c rec) (b : Nat) (v : Val) (s : St)
    (hb : Reach c b) (h : Inv c s) : Inv c (setOutputBody c rec b v s) := by
  unfold setOutputBody
  split
  · exact h.of_eq rfl rfl
  · split
    · exact h
    · exact hr.inv (.send (c.blk b).dests v) _ (fun d hd => Reach.edge b d hb hd) (h.setOut b v hb)

theorem sendBody_inv (c : Cfg) (rec : Call → St → St) (hr : RecSpec c rec) (ds : List Nat) (v : Val) (s : St)
    (hd : ∀ d ∈ ds, Reach c d) (h : Inv c s) : Inv c (sendBody rec ds v s) := by
  unfold sendBody
  cases ds with
  | nil => exact h
  | cons d r =>
    exact hr.inv (.send r v) _ (fun x hx => hd x (List.mem_cons_of_mem _ hx))
      (hr.inv (.event d v) _ (hd d (List.mem_cons_self ..)) h)

theorem eventBody_inv (c : Cfg) (rec : Call → St → St) (hr : RecSpec c rec) (d : Nat) (v : Val) (s : St)
    (hs : s.ok = true) (hd : Reach c d) (h : Inv c s) : Inv c (eventBody rec d v s) := by
  unfold eventBody
  dsimp only
  have h1 : Inv c (s.push (.arrive d)) := h.push _ trivial
  split
  · refine (h1.push (.refused d) trivial).of_eq ?_ ?_ <;> (unfold St.refuse; split <;> rfl)
  · -- the state after the optional early initialisation
    generalize hs2 : (if 0 ≤ ((s.push (.arrive d)).setActive d true).steps d ∧
        ((s.push (.arrive d)).setActive d true).steps d < 2
      then (rec (.initS d true) (((s.push (.arrive d)).setActive d true).setActive d false)).setActive d true
      else (s.push (.arrive d)).setActive d true) = s2
    have hinv2 : Inv c s2 := by
      rw [← hs2]; split
      · exact (hr.inv (.initS d true) _ trivial
          (h1.of_eq (t := ((s.push (.arrive d)).setActive d true).setActive d false) rfl rfl)).of_eq rfl rfl
      · exact h1.of_eq rfl rfl
    have hsteps : s2.ok = true → ¬ (0 ≤ s2.steps d ∧ s2.steps d < 2) := by
      rw [← hs2]; split
      · next hc =>
        intro hok
        simp only [setActive_ok, setActive_steps, push_steps] at hok hc ⊢
        have := hr.initPost d (((s.push (.arrive d)).setActive d true).setActive d false)
          (by simpa using hs) (by simp only [setActive_steps, push_steps]; omega) hok
        omega
      · next hc => intro _; exact hc
    refine Inv.of_eq (s := if s2.ok then
      (rec (.setOutput d v) (s2.push (.handle d v (s2.steps d)))).handlerFrame else s2) ?_ rfl rfl
    split
    · next hok =>
      exact (hr.inv (.setOutput d v) _ hd (hinv2.push (.handle d v (s2.steps d)) (hsteps hok))).of_eq (by simp) (by simp)
    · exact hinv2

theorem step1_inv (c : Cfg) (rec : Call → St → St) (hr : RecSpec c rec) (b : Nat) (s : St)
    (h : Inv c s) : Inv c (step1 c rec b s) := by
  unfold step1
  dsimp only
  refine Inv.of_eq (s := match (c.blk b).persist with
    | .none => s.setSteps b (-1)
    | .raises => (s.setSteps b (-1)).push (.restore b)
    | .restores v how => (rec (applyCall how b v) ((s.setSteps b (-1)).push (.restore b))).swallow) ?_ rfl rfl
  split
  · exact h.of_eq rfl rfl
  · exact (h.of_eq (t := s.setSteps b (-1)) rfl rfl).push (.restore b) trivial
  · next v how hp =>
    refine Inv.of_eq (hr.inv _ _ (applyCall_legit c how b v (Reach.own b (Or.inl ⟨v, how, hp⟩)))
      ((h.of_eq (t := s.setSteps b (-1)) rfl rfl).push (.restore b) trivial)) rfl rfl

theorem regularBody_inv (c : Cfg) (rec : Call → St → St) (hr : RecSpec c rec) (b : Nat) (s : St)
    (h : Inv c s) : Inv c (regularBody c rec b s) := by
  unfold regularBody
  split
  · exact h
  · next v hv => exact hr.inv (.setOutput b v) _ (Reach.own b (Or.inr (Or.inr (Or.inl ⟨v, hv⟩)))) h
  · next v hv => exact hr.inv (.event b v) _ (Reach.own b (Or.inr (Or.inr (Or.inr (Or.inl ⟨v, hv⟩))))) h
  · exact h.of_eq rfl rfl
  · next hq =>
    split
    · exact h.setOut b _ (Reach.own b (Or.inr (Or.inr (Or.inr (Or.inr (Or.inl hq))))))
    · exact h

theorem initdefBody_inv (c : Cfg) (rec : Call → St → St) (hr : RecSpec c rec) (b : Nat) (s : St)
    (h : Inv c s) : Inv c (initdefBody c rec b s) := by
  unfold initdefBody
  split
  · next v how hv =>
    split
    · next hu =>
      have hb : Reach c b := Reach.own b (Or.inr (Or.inr (Or.inr (Or.inr (Or.inr (Or.inl (by simp [hv])))))))
      exact hr.inv _ _ (applyCall_legit c how b v hb) (h.push (.initdef b (s.out b).isUndef) hu)
    · exact h
  · exact h

theorem step2_inv (c : Cfg) (rec : Call → St → St) (hr : RecSpec c rec) (b : Nat) (s : St)
    (h : Inv c s) : Inv c (step2 c rec b s) := by
  unfold step2
  dsimp only
  have h1 : Inv c (regularBody c rec b ((s.setSteps b (-2)).push (.regular b))) :=
    regularBody_inv c rec hr b _ ((h.of_eq (t := s.setSteps b (-2)) rfl rfl).push (.regular b) trivial)
  split
  · exact h1
  · have h2 := initdefBody_inv c rec hr b _ h1
    split
    · exact h2
    · exact h2.of_eq rfl rfl

theorem initBody_inv (c : Cfg) (rec : Call → St → St) (hr : RecSpec c rec) (b : Nat) (full : Bool) (s : St)
    (h : Inv c s) : Inv c (initBody c rec b full s) := by
  unfold initBody
  dsimp only
  generalize hs1 : (if s.steps b = 0 then step1 c rec b s else s) = s1
  have h1 : Inv c s1 := by
    rw [← hs1]; split
    · exact step1_inv c rec hr b s h
    · exact h
  split
  · exact step2_inv c rec hr b _ h1
  · exact h1

theorem body_spec (c : Cfg) (rec : Call → St → St) (hr : RecSpec c rec) : RecSpec c (body c rec) where
  inv := by
    intro call s hl h
    unfold body
    split
    · exact h
    · next hok =>
      have hok' : s.ok = true := by simpa using hok
      cases call with
      | setOutput b v => exact setOutputBody_inv c rec hr b v s hl h
      | send ds v => exact sendBody_inv c rec hr ds v s hl h
      | event d v => exact eventBody_inv c rec hr d v s hok' hl h
      | initS b full => exact initBody_inv c rec hr b full s h
  initPost := by
    intro d s hok h01 hres
    unfold body at hres ⊢
    simp only [hok, Bool.not_true, Bool.false_eq_true, if_false] at hres ⊢
    exact initBody_post c rec d s h01 hres

theorem exec_spec (c : Cfg) : ∀ fuel, RecSpec c (exec c fuel)
  | 0 => {
      inv := by
        intro call s _ h
        simp only [exec]
        split
        · exact (h.push .fuelOut trivial).of_eq rfl rfl
        · exact h
      initPost := by
        intro d s hok _ hres
        simp only [exec, hok, if_true, raise_ok] at hres
        exact absurd hres (by simp) }
  | fuel + 1 => body_spec c (exec c fuel) (exec_spec c fuel)

/-! ### the phases -/

theorem foldl_inv {α : Type} (c : Cfg) (f : St → α → St) (hf : ∀ s a, Inv c s → Inv c (f s a))
    (l : List α) : ∀ s, Inv c s → Inv c (l.foldl f s) := by
  induction l with
  | nil => intro s h; exact h
  | cons a r ih => intro s h; exact ih _ (hf s a h)

theorem init_inv (c : Cfg) : Inv c init :=
  ⟨by intro e he; simp [init] at he, by intro b hb; simp [init] at hb⟩

theorem phase0_inv (c : Cfg) (s : St) (h : Inv c s) : Inv c (phase0 c s) := by
  unfold phase0
  apply foldl_inv c _ _ _ s h
  intro s b hs
  split
  · exact hs
  · split
    · next v hv =>
      refine Inv.of_eq ((exec_spec c c.fuel).inv (.setOutput b v) _
        (Reach.own b (Or.inr (Or.inr (Or.inr (Or.inr (Or.inr (Or.inr (by simp [hv]))))))))
        (hs.push (.start b) trivial)) (by simp) (by simp)
    · exact hs

theorem syncPhase_inv (c : Cfg) (s : St) (h : Inv c s) : Inv c (syncPhase c s) := by
  unfold syncPhase
  apply foldl_inv c _ _ _ s h
  intro s b hs
  exact (exec_spec c c.fuel).inv (.initS b false) _ trivial hs

theorem applyEvent_inv (c : Cfg) (s : St) (e : AEvent) (h : Inv c s) : Inv c (applyEvent c s e) := by
  unfold applyEvent
  split
  · exact h
  · split
    · exact h.push (.asyncCancel e.blk) trivial
    · split
      · next v f hv =>
        have := (exec_spec c c.fuel).inv (.setOutput e.blk v) _
          (Reach.own e.blk (Or.inr (Or.inl ⟨v, f, hv⟩))) (h.push (.asyncDone e.blk) trivial)
        split
        · exact this.of_eq (by simp) (by simp)
        · exact this.of_eq rfl rfl
      · exact h.push (.asyncFail e.blk) trivial
      · exact h

theorem mem_eligible (c : Cfg) (s : St) (b : Nat) (hb : b ∈ eligible c s) :
    (s.out b).isUndef = true ∧ (c.blk b).async ≠ .none ∧ (c.blk b).timeout > 0 := by
  simp only [eligible, List.mem_filter, Bool.and_eq_true, decide_eq_true_eq, bne_iff_ne] at hb
  exact ⟨hb.2.1.1, hb.2.1.2, hb.2.2⟩

theorem pushAsync_inv (c : Cfg) (out0 : Nat → Val) (l : List Nat)
    (hl : ∀ b ∈ l, (out0 b).isUndef = true ∧ (c.blk b).timeout > 0) :
    ∀ s, s.out = out0 → Inv c s →
      Inv c (l.foldl (fun s b => s.push (.async b (s.out b).isUndef (c.blk b).timeout)) s) ∧
      (l.foldl (fun s b => s.push (.async b (s.out b).isUndef (c.blk b).timeout)) s).ok = s.ok := by
  induction l with
  | nil => intro s _ h; exact ⟨h, rfl⟩
  | cons b r ih =>
    intro s ho h
    simp only [List.foldl]
    have hb := hl b (List.mem_cons_self ..)
    have := ih (fun x hx => hl x (List.mem_cons_of_mem _ hx))
      (s.push (.async b (s.out b).isUndef (c.blk b).timeout)) (by simpa using ho)
      (h.push (.async b (s.out b).isUndef (c.blk b).timeout) (by rw [ho]; exact hb))
    exact ⟨this.1, by rw [this.2]; rfl⟩

theorem asyncPhase_inv (c : Cfg) (s : St) (h : Inv c s) : Inv c (asyncPhase c s) := by
  unfold asyncPhase
  split
  · exact h
  · dsimp only
    have hp := (pushAsync_inv c s.out (eligible c s)
      (fun b hb => ⟨(mem_eligible c s b hb).1, (mem_eligible c s b hb).2.2⟩) s rfl h).1
    have hf := foldl_inv c (applyEvent c) (fun s e hs => applyEvent_inv c s e hs)
      (schedule ((eligible c s).map (mkTask c))).2 _ hp
    split
    · exact hf.of_eq rfl rfl
    · exact hf

theorem check_inv (c : Cfg) (s : St) (h : Inv c s) : Inv c (check c s) := by
  unfold check
  split
  · exact h
  · split
    · exact h
    · exact h.of_eq rfl rfl

theorem firstPass_inv (c : Cfg) (s : St) (h : Inv c s) : Inv c (firstPass c s) := by
  unfold firstPass
  split
  · exact h
  · dsimp only; split <;> exact h.of_eq rfl rfl

theorem run_inv (c : Cfg) : Inv c (run c) :=
  firstPass_inv c _ (check_inv c _ (syncPhase_inv c _ (asyncPhase_inv c _
    (syncPhase_inv c _ (phase0_inv c _ (init_inv c))))))

/-! ### `wait_init` -/

theorem failed_iff_not_ok (s : St) : s.failed = !s.ok := by
  simp only [St.failed, St.ok]
  cases s.aborted <;> cases s.exc <;> simp

theorem firstPass_of_not_ok (c : Cfg) (s : St) (h : s.ok = false) : firstPass c s = s := by
  unfold firstPass; simp [h]

theorem firstPass_of_ok (c : Cfg) (s : St) (h : s.ok = true) :
    firstPass c s = if c.cblocks.any CScript.fails = true then ({ s with initDone := true } : St).raise .firstPass
      else { s with initDone := true, firstPassDone := true, cout := c.cblocks.map CScript.value } := by
  unfold firstPass; simp [h]

theorem check_of_not_ok (c : Cfg) (s : St) (h : s.ok = false) : check c s = s := by
  unfold check; simp [h]

theorem check_of_ok (c : Cfg) (s : St) (h : s.ok = true) :
    check c s = if allInitialised c s = true then s else s.raise .notInit := by
  unfold check; simp [h]

theorem firstPass_ok (c : Cfg) (s : St) (h : (firstPass c s).ok = true) :
    s.ok = true ∧ (firstPass c s).firstPassDone = true ∧ (firstPass c s).initDone = true ∧
    (firstPass c s).out = s.out ∧ c.cblocks.any CScript.fails = false ∧
    (firstPass c s).cout = c.cblocks.map CScript.value := by
  cases hs : s.ok with
  | false => rw [firstPass_of_not_ok c s hs, hs] at h; cases h
  | true =>
    rw [firstPass_of_ok c s hs] at h ⊢
    cases hc : c.cblocks.any CScript.fails with
    | true => rw [hc, if_pos rfl, raise_ok] at h; cases h
    | false => simp

theorem check_ok (c : Cfg) (s : St) (h : (check c s).ok = true) :
    s.ok = true ∧ allInitialised c s = true ∧ check c s = s := by
  cases hs : s.ok with
  | false => rw [check_of_not_ok c s hs, hs] at h; cases h
  | true =>
    rw [check_of_ok c s hs] at h ⊢
    cases ha : allInitialised c s with
    | false => rw [ha] at h; simp at h
    | true => simp

theorem firstPass_not_ok (c : Cfg) (s : St) (h : s.ok = false) : (firstPass c s).ok = false := by
  rw [firstPass_of_not_ok c s h]; exact h

theorem firstPass_raises (c : Cfg) (s : St) (h : c.cblocks.any CScript.fails = true) : (firstPass c s).ok = false := by
  cases hs : s.ok with
  | false => exact firstPass_not_ok c s hs
  | true => rw [firstPass_of_ok c s hs, if_pos h]; exact raise_ok _ _

theorem check_not_init (c : Cfg) (s : St) (h : allInitialised c s = false) : (check c s).ok = false := by
  cases hs : s.ok with
  | false => rw [check_of_not_ok c s hs]; exact hs
  | true => rw [check_of_ok c s hs, h]; simp

theorem check_not_ok (c : Cfg) (s : St) (h : s.ok = false) : (check c s).ok = false := by
  rw [check_of_not_ok c s h]; exact h

end Edzed.Init
