/- helper lemmas for C02: output assignments and output events -/
import EdzedModel.Output

namespace Edzed.Output

/-! ### the data of an output event -/

/-- `{trigger, previous, value}` plus `data['source'] = name` -/
def rawData (name : String) (previous value : Val) : Data :=
  [("trigger", .str "output"), ("previous", previous), ("value", value), ("source", .str name)]

theorem kwargs_set_source (name : String) (p v : Val) :
    (kwargs p v).set "source" (.str name) = rawData name p v := by
  simp [kwargs, Data.set, rawData]

theorem rawData_get (name : String) (p v : Val) :
    (rawData name p v).get? "previous" = some p ∧ (rawData name p v).get? "value" = some v ∧
    (rawData name p v).get? "source" = some (.str name) ∧
    (rawData name p v).get? "trigger" = some (.str "output") := by
  simp [rawData, Data.get?, List.find?]

/-! ### one `for event in events: event.send(...)` loop -/

theorem send_fields (e : Ev) (slot : Slot) (i : Nat) (n : String) (p v vis : Val) :
    let s := e.send slot i n (kwargs p v) vis
    s.slot = slot ∧ s.idx = i ∧ s.ev = e ∧ s.raw = rawData n p v ∧ s.visible = vis ∧
    s.result = runFilters e.filters (rawData n p v) := by
  simp [Ev.send, kwargs_set_source]

theorem sendFrom_map_ev (slot : Slot) (n : String) (p v vis : Val) (off : Nat) (evs : List Ev) :
    (sendFrom slot n p v vis off evs).map (fun s => (s.slot, s.ev)) = evs.map (fun e => (slot, e)) := by
  induction evs generalizing off with
  | nil => rfl
  | cons e es ih => simp [sendFrom, ih, Ev.send]

theorem sendFrom_length (slot : Slot) (n : String) (p v vis : Val) (off : Nat) (evs : List Ev) :
    (sendFrom slot n p v vis off evs).length = evs.length := by
  induction evs generalizing off with
  | nil => rfl
  | cons e es ih => simp [sendFrom, ih]

theorem mem_sendFrom (slot : Slot) (n : String) (p v vis : Val) (off : Nat) (evs : List Ev) (s : Sent)
    (h : s ∈ sendFrom slot n p v vis off evs) :
    s.slot = slot ∧ s.raw = rawData n p v ∧ s.visible = vis ∧
    s.result = runFilters s.ev.filters s.raw ∧ off ≤ s.idx ∧ evs[s.idx - off]? = some s.ev := by
  induction evs generalizing off with
  | nil => simp [sendFrom] at h
  | cons e es ih =>
    simp only [sendFrom, List.mem_cons] at h
    rcases h with h | h
    · subst h; simp [Ev.send, kwargs_set_source]
    · obtain ⟨h1, h2, h3, h4, h5, h6⟩ := ih (off + 1) h
      refine ⟨h1, h2, h3, h4, by omega, ?_⟩
      have : s.idx - off = (s.idx - (off + 1)) + 1 := by omega
      rw [this]; simpa using h6

/-- the `Event.send` calls of the loop that belong to event number `i` of slot `slot'` -/
theorem filter_sendFrom (slot slot' : Slot) (n : String) (p v vis : Val) (off i : Nat) (evs : List Ev) :
    (sendFrom slot n p v vis off evs).filter (fun s => s.slot == slot' && s.idx == i) =
      if slot' = slot ∧ off ≤ i then
        ((evs[i - off]?).map fun e => e.send slot i n (kwargs p v) vis).toList
      else [] := by
  induction evs generalizing off with
  | nil => simp [sendFrom]
  | cons e es ih =>
    rw [sendFrom, List.filter_cons, ih (off + 1)]
    by_cases hs : slot' = slot
    · subst hs
      by_cases h1 : i = off
      · subst h1
        have h0 : ¬ (i + 1 ≤ i) := by omega
        simp [Ev.send, h0]
      · by_cases h2 : off ≤ i
        · have h3 : off + 1 ≤ i := by omega
          have h4 : i - off = (i - (off + 1)) + 1 := by omega
          have h5 : ¬ (off = i) := fun h => h1 h.symm
          simp [Ev.send, h2, h3, h5]
          rw [h4]; simp
        · have h3 : ¬ (off + 1 ≤ i) := by omega
          have h5 : ¬ (off = i) := fun h => h1 h.symm
          simp [Ev.send, h2, h3, h5]
    · have : ¬ (slot = slot') := fun h => hs h.symm
      simp [Ev.send, hs, this]

theorem filter_sendAll_same (slot : Slot) (n : String) (p v vis : Val) (i : Nat) (evs : List Ev)
    (hi : i < evs.length) :
    (sendAll slot n evs p v vis).filter (fun s => s.slot == slot && s.idx == i) =
      [evs[i].send slot i n (kwargs p v) vis] := by
  simp [sendAll, filter_sendFrom, hi]

theorem filter_sendAll_other (slot slot' : Slot) (hs : slot' ≠ slot) (n : String) (p v vis : Val) (i : Nat)
    (evs : List Ev) :
    (sendAll slot n evs p v vis).filter (fun s => s.slot == slot' && s.idx == i) = [] := by
  simp [sendAll, filter_sendFrom, hs]

/-! ### `==` is reflexive on the value domain -/

theorem atom_pyEq_refl (a : Atom) : a.pyEq a = true := by
  cases a <;> simp [Atom.pyEq]

theorem listEq_refl (l : List Atom) : Atom.listEq l l = true := by
  induction l with
  | nil => rfl
  | cons a l ih => simp [Atom.listEq, atom_pyEq_refl, ih]

theorem pyEq_refl (v : Val) : v.pyEq v = true := by
  cases v <;> simp [Val.pyEq, atom_pyEq_refl, listEq_refl]

/-! ### `==` with NaN -/

theorem pyEqN_self {a b : Val} (h : pyEqN a b = true) : pyEqN a a = true := by
  simp only [pyEqN, Bool.and_eq_true, Bool.not_eq_true'] at h ⊢
  exact ⟨⟨h.1.1, h.1.1⟩, pyEq_refl a⟩

theorem pyEqN_nan_left (x : Val) : pyEqN nanVal x = false := by
  simp [pyEqN, isNan]

theorem pyEqN_nan_right (x : Val) : pyEqN x nanVal = false := by
  simp [pyEqN, isNan]

/-- without NaN the comparison is the shared `Val.pyEq` -/
theorem pyEqN_eq_pyEq {a b : Val} (ha : isNan a = false) (hb : isNan b = false) : pyEqN a b = a.pyEq b := by
  simp [pyEqN, ha, hb]

theorem pyEqN_undef_left {v : Val} (h : v.isUndef = false) : pyEqN .undef v = false := by
  cases v <;> simp_all [pyEqN, Val.pyEq, Val.isUndef]

/-! ### one assignment -/

/-- the `on_every_output` events a block of the given kind has (a CBlock has none) -/
def everyEvs : BKind → Cfg → List Ev
  | .sblock, c => c.onEvery
  | .cblock, _ => []

theorem sendAll_nil (slot : Slot) (n : String) (p v vis : Val) : sendAll slot n [] p v vis = [] := rfl

theorem assign_undef (k : BKind) (c : Cfg) (out v : Val) (h : v.isUndef = true) :
    assign k c out v = .valueError := by
  cases k <;> simp [assign, setOutputWith, evalBlockWith, h]

theorem assign_same (k : BKind) (c : Cfg) (out v : Val) (h : v.isUndef = false) (e : pyEqN out v = true) :
    assign k c out v = .ok { out := out, changed := false, enq := false,
                             sends := sendAll .every c.name (everyEvs k c) out v out } := by
  cases k
  · simp only [assign, setOutputWith, h, e, everyEvs]
    cases hc : c.onEvery <;> simp [sendAll_nil]
  · simp [assign, evalBlockWith, h, e, everyEvs, sendAll_nil]

theorem assign_changed (k : BKind) (c : Cfg) (out v : Val) (h : v.isUndef = false) (e : pyEqN out v = false) :
    assign k c out v = .ok { out := v, changed := true, enq := decide (k = .sblock),
                             sends := sendAll .output c.name c.onOutput out v v
                                      ++ sendAll .every c.name (everyEvs k c) out v v } := by
  cases k <;> simp [assign, setOutputWith, evalBlockWith, h, e, everyEvs, sendAll_nil]

/-- the three cases of an assignment -/
theorem assign_cases (k : BKind) (c : Cfg) (out v : Val) :
    (v.isUndef = true ∧ assign k c out v = .valueError) ∨
    (v.isUndef = false ∧ pyEqN out v = true ∧
      assign k c out v = .ok { out := out, changed := false, enq := false,
                               sends := sendAll .every c.name (everyEvs k c) out v out }) ∨
    (v.isUndef = false ∧ pyEqN out v = false ∧
      assign k c out v = .ok { out := v, changed := true, enq := decide (k = .sblock),
                               sends := sendAll .output c.name c.onOutput out v v
                                        ++ sendAll .every c.name (everyEvs k c) out v v }) := by
  cases h : v.isUndef
  · cases e : pyEqN out v
    · exact .inr (.inr ⟨rfl, rfl, assign_changed k c out v h e⟩)
    · exact .inr (.inl ⟨rfl, rfl, assign_same k c out v h e⟩)
  · exact .inl ⟨rfl, assign_undef k c out v h⟩

/-- the stored output after one assignment: an equal (or refused) value keeps the stored object -/
theorem after_eq (k : BKind) (c : Cfg) (out v : Val) :
    (Rec.mk out v (assign k c out v)).after = if v.isUndef || pyEqN out v then out else v := by
  rcases assign_cases k c out v with ⟨h, e⟩ | ⟨h, e, a⟩ | ⟨h, e, a⟩ <;> simp [Rec.after, *]

/-- the sends of one assignment that belong to the on_output event number `i` -/
theorem rec_sends_output (k : BKind) (c : Cfg) (out v : Val) (i : Nat) (hi : i < c.onOutput.length) :
    (Rec.mk out v (assign k c out v)).sends.filter (fun s => s.slot == .output && s.idx == i) =
      if v.isUndef || pyEqN out v then [] else [c.onOutput[i].send .output i c.name (kwargs out v) v] := by
  rcases assign_cases k c out v with ⟨h, a⟩ | ⟨h, e, a⟩ | ⟨h, e, a⟩
  · simp [Rec.sends, a, h]
  · simp only [Rec.sends, a, h, e]
    rw [filter_sendAll_other .every .output (by decide)]; simp
  · simp only [Rec.sends, a, h, e, List.filter_append]
    rw [filter_sendAll_same _ _ _ _ _ _ _ hi, filter_sendAll_other .every .output (by decide)]; simp

/-- the sends of one assignment that belong to the on_every_output event number `i` -/
theorem rec_sends_every (k : BKind) (c : Cfg) (out v : Val) (i : Nat) (hi : i < (everyEvs k c).length) :
    (Rec.mk out v (assign k c out v)).sends.filter (fun s => s.slot == .every && s.idx == i) =
      if v.isUndef then []
      else [(everyEvs k c)[i].send .every i c.name (kwargs out v) (Rec.mk out v (assign k c out v)).after] := by
  rcases assign_cases k c out v with ⟨h, a⟩ | ⟨h, e, a⟩ | ⟨h, e, a⟩
  · simp [Rec.sends, a, h]
  · simp only [Rec.sends, Rec.after, a, h]
    rw [filter_sendAll_same _ _ _ _ _ _ _ hi]; simp
  · simp only [Rec.sends, Rec.after, a, h, List.filter_append]
    rw [filter_sendAll_same _ _ _ _ _ _ _ hi, filter_sendAll_other .output .every (by decide)]; simp

/-! ### whole histories -/

theorem sendsOf_cons (slot : Slot) (i : Nat) (r : Rec) (rs : List Rec) :
    sendsOf slot i (r :: rs) = r.sends.filter (fun s => s.slot == slot && s.idx == i) ++ sendsOf slot i rs := by
  simp [sendsOf, List.flatMap_cons, List.filter_append]

theorem run_cons (k : BKind) (c : Cfg) (out v : Val) (vs : List Val) :
    run k c out (v :: vs) =
      Rec.mk out v (assign k c out v) :: run k c (Rec.mk out v (assign k c out v)).after vs := rfl

/-- `previous`/`value` of a send -/
def Sent.pv (s : Sent) : Option Val × Option Val := (s.previous, s.value)

theorem send_pv (e : Ev) (slot : Slot) (i : Nat) (n : String) (p v vis : Val) :
    (e.send slot i n (kwargs p v) vis).pv = (some p, some v) := by
  simp [Sent.pv, Sent.previous, Sent.value, Ev.send, kwargs_set_source, (rawData_get n p v).1,
    (rawData_get n p v).2.1]

/-- reference: the successive changes of a history of assignments -/
def changes (out : Val) : List Val → List (Val × Val)
  | [] => []
  | v :: vs => if v.isUndef || pyEqN out v then changes out vs else (out, v) :: changes v vs

/-- each change starts from the value the previous one ended with -/
def Linked : Val → List (Val × Val) → Prop
  | _, [] => True
  | o, pv :: rest => pv.1 = o ∧ Linked pv.2 rest

theorem changes_linked (out : Val) (vs : List Val) : Linked out (changes out vs) := by
  induction vs generalizing out with
  | nil => trivial
  | cons v vs ih =>
    unfold changes; split
    · exact ih out
    · exact ⟨rfl, ih v⟩

theorem linked_index (o : Val) (l : List (Val × Val)) (h : Linked o l) :
    (∀ h0 : 0 < l.length, l[0].1 = o) ∧ ∀ j (hj : j + 1 < l.length), l[j + 1].1 = l[j].2 := by
  induction l generalizing o with
  | nil => exact ⟨fun h0 => absurd h0 (by simp), fun j hj => absurd hj (by simp)⟩
  | cons pv rest ih =>
    obtain ⟨h1, h2⟩ := h
    refine ⟨fun _ => h1, fun j hj => ?_⟩
    cases j with
    | zero => exact (ih _ h2).1 _
    | succ j => exact (ih _ h2).2 j (by simpa using hj)

theorem sendsOf_output_changes (k : BKind) (c : Cfg) (out : Val) (vs : List Val) (i : Nat)
    (hi : i < c.onOutput.length) :
    (sendsOf .output i (run k c out vs)).map Sent.pv = (changes out vs).map fun pv => (some pv.1, some pv.2) := by
  induction vs generalizing out with
  | nil => rfl
  | cons v vs ih =>
    rw [run_cons, sendsOf_cons, rec_sends_output k c out v i hi, List.map_append, ih, after_eq, changes]
    split <;> simp [send_pv]

/-- an accepted assignment whose output before and after compare unequal -/
def Rec.isChange (r : Rec) : Bool := !r.value.isUndef && !(pyEqN r.before r.after)

theorem run_changes (k : BKind) (c : Cfg) (out : Val) (vs : List Val) :
    ((run k c out vs).filter Rec.isChange).map (fun r => (r.before, r.after)) = changes out vs := by
  induction vs generalizing out with
  | nil => rfl
  | cons v vs ih =>
    rw [run_cons, List.filter_cons, changes]
    simp only [Rec.isChange, after_eq]
    cases hu : v.isUndef
    · cases he : pyEqN out v
      · simp [hu, he, ih, after_eq]
      · simp [hu, he, pyEqN_self he, ih, after_eq]
    · simp [hu, ih, after_eq]

theorem sendsOf_every_all (k : BKind) (c : Cfg) (out : Val) (vs : List Val) (i : Nat)
    (hi : i < (everyEvs k c).length) :
    (sendsOf .every i (run k c out vs)).map Sent.pv =
      ((run k c out vs).filter fun r => !r.value.isUndef).map fun r => (some r.before, some r.value) := by
  induction vs generalizing out with
  | nil => rfl
  | cons v vs ih =>
    rw [run_cons, sendsOf_cons, rec_sends_every k c out v i hi, List.map_append, ih, List.filter_cons]
    cases h : v.isUndef <;> simp [send_pv]

theorem sendsOf_output_results (k : BKind) (c : Cfg) (out : Val) (vs : List Val) (i : Nat)
    (hi : i < c.onOutput.length) (hf : c.onOutput[i].filters = []) :
    (sendsOf .output i (run k c out vs)).map (·.result) =
      (changes out vs).map fun pv => some (rawData c.name pv.1 pv.2) := by
  induction vs generalizing out with
  | nil => rfl
  | cons v vs ih =>
    rw [run_cons, sendsOf_cons, rec_sends_output k c out v i hi, List.map_append, ih, after_eq, changes]
    split <;> simp [Ev.send, kwargs_set_source, hf, runFilters]

theorem changes_replicate_nan (out : Val) (n : Nat) :
    (changes out (List.replicate n nanVal)).length = n := by
  induction n generalizing out with
  | zero => rfl
  | succ n ih =>
    have hu : nanVal.isUndef = false := rfl
    simp [List.replicate_succ, changes, hu, pyEqN_nan_right, ih]

theorem changes_from_undef (v : Val) (vs : List Val) (h : v.isUndef = false) :
    changes .undef (v :: vs) = (.undef, v) :: changes v vs := by
  simp [changes, h, pyEqN_undef_left h]

/-! ### every record of a history is one assignment -/

theorem mem_run (k : BKind) (c : Cfg) (out : Val) (vs : List Val) (r : Rec) (h : r ∈ run k c out vs) :
    r = ⟨r.before, r.value, assign k c r.before r.value⟩ := by
  induction vs generalizing out with
  | nil => simp [run] at h
  | cons v vs ih =>
    rw [run_cons] at h
    rcases List.mem_cons.1 h with h | h
    · subst h; rfl
    · exact ih _ h

theorem run_values (k : BKind) (c : Cfg) (out : Val) (vs : List Val) :
    (run k c out vs).map (·.value) = vs := by
  induction vs generalizing out with
  | nil => rfl
  | cons v vs ih => rw [run_cons, List.map_cons, ih]

theorem run_length (k : BKind) (c : Cfg) (out : Val) (vs : List Val) :
    (run k c out vs).length = vs.length := by
  simpa using congrArg List.length (run_values k c out vs)

theorem run_head_before (k : BKind) (c : Cfg) (out : Val) (vs : List Val) (h0 : 0 < (run k c out vs).length) :
    (run k c out vs)[0].before = out := by
  cases vs with
  | nil => simp [run] at h0
  | cons v vs => simp [run_cons]

theorem run_linked (k : BKind) (c : Cfg) (out : Val) (vs : List Val) (j : Nat)
    (hj : j + 1 < (run k c out vs).length) :
    (run k c out vs)[j + 1].before = (run k c out vs)[j].after := by
  induction vs generalizing out j with
  | nil => simp [run] at hj
  | cons v vs ih =>
    simp only [run_cons] at hj ⊢
    cases j with
    | zero =>
      simp only [List.getElem_cons_succ, List.getElem_cons_zero]
      exact run_head_before k c _ vs (by simpa using hj)
    | succ j =>
      simp only [List.getElem_cons_succ]
      exact ih _ j (by simpa using hj)

/-- everything about one `Event.send` call of an assignment -/
theorem mem_sends (k : BKind) (c : Cfg) (o v : Val) (s : Sent)
    (h : s ∈ (Rec.mk o v (assign k c o v)).sends) :
    v.isUndef = false ∧ s.raw = rawData c.name o v ∧ s.visible = (Rec.mk o v (assign k c o v)).after ∧
    s.result = runFilters s.ev.filters s.raw ∧
    ((s.slot = .output ∧ c.onOutput[s.idx]? = some s.ev ∧ pyEqN o v = false) ∨
     (s.slot = .every ∧ (everyEvs k c)[s.idx]? = some s.ev)) := by
  rcases assign_cases k c o v with ⟨hu, a⟩ | ⟨hu, e, a⟩ | ⟨hu, e, a⟩
  · simp [Rec.sends, a] at h
  · simp only [Rec.sends, a, sendAll] at h
    obtain ⟨h1, h2, h3, h4, _, h6⟩ := mem_sendFrom _ _ _ _ _ _ _ _ h
    exact ⟨hu, h2, by simp [Rec.after, a, h3], h4, .inr ⟨h1, by simpa using h6⟩⟩
  · simp only [Rec.sends, a, sendAll, List.mem_append] at h
    rcases h with h | h
    · obtain ⟨h1, h2, h3, h4, _, h6⟩ := mem_sendFrom _ _ _ _ _ _ _ _ h
      exact ⟨hu, h2, by simp [Rec.after, a, h3], h4, .inl ⟨h1, by simpa using h6, e⟩⟩
    · obtain ⟨h1, h2, h3, h4, _, h6⟩ := mem_sendFrom _ _ _ _ _ _ _ _ h
      exact ⟨hu, h2, by simp [Rec.after, a, h3], h4, .inr ⟨h1, by simpa using h6⟩⟩

/-- the order of the sends of one accepted assignment -/
theorem sends_order (k : BKind) (c : Cfg) (o v : Val) (st : Step) (h : assign k c o v = .ok st) :
    st.sends.map (fun x => (x.slot, x.ev)) =
      (if st.changed then c.onOutput.map (fun e => (Slot.output, e)) else [])
      ++ (everyEvs k c).map (fun e => (Slot.every, e)) := by
  rcases assign_cases k c o v with ⟨hu, a⟩ | ⟨hu, e, a⟩ | ⟨hu, e, a⟩
  · rw [a] at h; cases h
  · rw [a] at h; cases h; simp [sendAll, sendFrom_map_ev]
  · rw [a] at h; cases h; simp [sendAll, sendFrom_map_ev]

theorem step_flags (k : BKind) (c : Cfg) (o v : Val) (st : Step) (h : assign k c o v = .ok st) :
    v.isUndef = false ∧ st.changed = !(pyEqN o v) ∧ st.enq = (decide (k = .sblock) && st.changed) ∧
    st.out = (if pyEqN o v then o else v) := by
  rcases assign_cases k c o v with ⟨hu, a⟩ | ⟨hu, e, a⟩ | ⟨hu, e, a⟩
  · rw [a] at h; cases h
  · rw [a] at h; cases h; simp [hu, e]
  · rw [a] at h; cases h; simp [hu, e]

/-! ### filters -/

theorem runFilters_append (fs gs : List Filt) (d : Data) :
    runFilters (fs ++ gs) d = (runFilters fs d).bind (runFilters gs) := by
  induction fs generalizing d with
  | nil => rfl
  | cons f fs ih =>
    simp only [List.cons_append, runFilters]
    cases f.apply d with
    | none => rfl
    | some d' => exact ih d'

theorem filterCalls_head (fs : List Filt) (d : Data) (h : fs ≠ []) : (filterCalls fs d).head? = some d := by
  cases fs with
  | nil => exact absurd rfl h
  | cons f fs => simp [filterCalls]

/-! ### items of the event data -/

theorem find_map_set_self (k : String) (v : Val) (d : Data) (h : d.any (fun x => x.1 == k) = true) :
    ((d.map fun p => if p.1 == k then (k, v) else p).find? (fun x => x.1 == k)).map (·.2) = some v := by
  induction d with
  | nil => simp at h
  | cons p d ih =>
    rw [List.map_cons, List.find?_cons]
    cases hpk : (p.1 == k)
    · have hd : d.any (fun x => x.1 == k) = true := by
        rw [List.any_cons, hpk] at h; simpa using h
      simp only [Bool.false_eq_true, if_false, hpk]
      exact ih hd
    · simp

theorem find_map_set_other (k k' : String) (v : Val) (hk : (k == k') = false) (d : Data) :
    ((d.map fun p => if p.1 == k then (k, v) else p).find? (fun x => x.1 == k')) = d.find? (fun x => x.1 == k') := by
  induction d with
  | nil => rfl
  | cons p d ih =>
    rw [List.map_cons, List.find?_cons, List.find?_cons]
    cases hpk : (p.1 == k)
    · simp only [Bool.false_eq_true, if_false]
      cases hq : (p.1 == k')
      · simp only [Bool.false_eq_true, if_false]; exact ih
      · simp
    · have e : p.1 = k := by simpa using hpk
      have hq : (p.1 == k') = false := by rw [e]; exact hk
      simp only [if_true, hk, hq]
      exact ih

theorem get?_set_self (d : Data) (k : String) (v : Val) : (d.set k v).get? k = some v := by
  unfold Data.set Data.get?
  split
  · next h => exact find_map_set_self k v d h
  · next h =>
    have hn : d.find? (fun x => x.1 == k) = none := by
      rw [List.find?_eq_none]
      intro x hx hxk
      exact h (List.any_eq_true.2 ⟨x, hx, hxk⟩)
    simp [List.find?_append, hn]

theorem get?_set_other (d : Data) (k k' : String) (v : Val) (hk : k' ≠ k) : (d.set k v).get? k' = d.get? k' := by
  have hb : (k == k') = false := by simpa using fun e : k = k' => hk e.symm
  unfold Data.set Data.get?
  split
  · rw [find_map_set_other k k' v hb d]
  · simp [List.find?_append, hb]
end Edzed.Output
