/-
Helper lemmas for C11 (EdzedModel/Dispatch.lean).

All statements about `deliver` are proved by induction on the fuel; the functions a handler is
made of (`sendEdges`, `setOutput`, `runActs`, `handlerBody`, `initBlock`, `earlyInit`,
`callHandler`, `eventBody`) get one lemma each, parametrised by the corresponding hypothesis on
the recursive call `dlv`.
-/
import EdzedModel.Dispatch

namespace Edzed.Dispatch

/-! ### `upd` -/

theorem upd_same {α : Type} (f : Nat → α) (i : Nat) (v : α) : upd f i v i = v := by simp [upd]

theorem upd_other {α : Type} (f : Nat → α) (i j : Nat) (v : α) (h : j ≠ i) : upd f i v j = f j := by
  simp [upd, h]

theorem upd_upd {α : Type} (f : Nat → α) (i : Nat) (v w : α) : upd (upd f i v) i w = upd f i w := by
  funext j; unfold upd; by_cases h : j = i <;> simp [h]

theorem upd_self {α : Type} (f : Nat → α) (i : Nat) : upd f i (f i) = f := by
  funext j; unfold upd; by_cases h : j = i <;> simp [h]

/-- set and clear the guard of a block that was not active: the flags are as before -/
theorem upd_restore (f : Nat → Bool) (i : Nat) (h : f i = false) : upd (upd f i true) i false = f := by
  rw [upd_upd, ← h, upd_self]

/-! ### the frame: what a call of `event()` leaves as it was -/

/-- `s'` is a state reached from `s` by complete calls of `event()`: flags and stack are the
    same, an error is never withdrawn, a started initialisation never becomes pending again -/
structure Frm (s s' : St) : Prop where
  active : s'.active = s.active
  stack : s'.stack = s.stack
  error : s.error.isSome → s'.error.isSome
  init : ∀ x, s'.init x = .pending → s.init x = .pending
  fsm : s'.fsmActive = s.fsmActive

theorem Frm.refl (s : St) : Frm s s := ⟨rfl, rfl, id, fun _ h => h, rfl⟩

theorem Frm.trans {a b c : St} (h1 : Frm a b) (h2 : Frm b c) : Frm a c :=
  ⟨h2.active.trans h1.active, h2.stack.trans h1.stack, fun h => h2.error (h1.error h),
   fun x h => h1.init x (h2.init x h), h2.fsm.trans h1.fsm⟩

def DFrm (dlv : Dlv) : Prop := ∀ s d et data, Frm s (dlv s d et data).1

theorem abort_frm (s : St) (e : Exc) : Frm s (s.abort e) := by
  unfold St.abort
  split
  · exact Frm.refl s
  · exact ⟨rfl, rfl, fun _ => rfl, fun _ h => h, rfl⟩

theorem abort_trace (s : St) (e : Exc) : (s.abort e).trace = s.trace := by
  unfold St.abort; split <;> rfl

theorem abort_stack (s : St) (e : Exc) : (s.abort e).stack = s.stack := by
  unfold St.abort; split <;> rfl

theorem abort_error (s : St) (e : Exc) : (s.abort e).error.isSome := by
  unfold St.abort; split <;> simp_all

theorem swallow_fst (p : St × Res) : (swallow p).1 = p.1 := by
  unfold swallow; repeat' split
  all_goals rfl

theorem classify_frm (s : St) (r : Res) : Frm s (classify s r) := by
  unfold classify
  split <;> first | exact Frm.refl s | exact abort_frm s _

theorem andThen_frm {s : St} {p : St × Res} {k : St → St × Res}
    (h1 : Frm s p.1) (h2 : Frm p.1 (k p.1).1) : Frm s (andThen p k).1 := by
  unfold andThen
  split
  · exact h1
  · exact h1.trans h2

theorem sendEdges_frm {dlv : Dlv} (h : DFrm dlv) (src : Nat) (s : St) (es : List Edge) (data : Data) :
    Frm s (sendEdges dlv src s es data).1 := by
  induction es generalizing s with
  | nil => exact Frm.refl s
  | cons e es ih =>
    unfold sendEdges
    split
    · exact ih s
    · exact andThen_frm (h ..) (ih _)

theorem setOutput_frm {dlv : Dlv} (h : DFrm dlv) (b : Blk) (d : Nat) (s : St) (v : Val) :
    Frm s (setOutput dlv b d s v).1 := by
  unfold setOutput
  split
  · exact Frm.refl s
  · simp only []
    split
    · exact sendEdges_frm h ..
    · have h0 : Frm s { s with out := upd s.out d v } := ⟨rfl, rfl, id, fun _ h => h, rfl⟩
      exact andThen_frm (h0.trans (sendEdges_frm h ..)) (sendEdges_frm h ..)

theorem runAct_frm {dlv : Dlv} (h : DFrm dlv) (b : Blk) (d : Nat) (s : St) (a : Act) :
    Frm s (runAct dlv b d s a).1 := by
  cases a with
  | setOut v => exact setOutput_frm h ..
  | send i v =>
    simp only [runAct]
    split
    · exact Frm.refl s
    · exact sendEdges_frm h ..
  | trySend i v =>
    simp only [runAct]
    split
    · exact Frm.refl s
    · rw [swallow_fst]; exact sendEdges_frm h ..
  | raise => exact Frm.refl s
  | rawEvent x et => exact h ..

theorem runActs_frm {dlv : Dlv} (h : DFrm dlv) (b : Blk) (d : Nat) (s : St) (as : List Act) :
    Frm s (runActs dlv b d s as).1 := by
  induction as generalizing s with
  | nil => exact Frm.refl s
  | cons a as ih =>
    unfold runActs
    exact andThen_frm (runAct_frm h ..) (ih _)

theorem handlerBody_frm {dlv : Dlv} (h : DFrm dlv) (b : Blk) (d : Nat) (s : St) (name : String)
    (data : Data) : Frm s (handlerBody dlv b d s name data).1 := by
  unfold handlerBody
  repeat' split
  all_goals first
    | exact Frm.refl s
    | exact runActs_frm h ..
    | exact andThen_frm (setOutput_frm h ..) (Frm.refl _)
    | exact andThen_frm (sendEdges_frm h ..) (Frm.refl _)

theorem upd_init_frm (s : St) (d : Nat) (v : InitSt) (hv : v ≠ .pending) :
    Frm s { s with init := upd s.init d v } := by
  refine ⟨rfl, rfl, id, fun x hx => ?_, rfl⟩
  by_cases hxd : x = d
  · subst hxd; simp [upd] at hx; exact absurd hx hv
  · simpa [upd, hxd] using hx

theorem initRegular_frm {dlv : Dlv} (h : DFrm dlv) (b : Blk) (d : Nat) (s : St) :
    Frm s (initRegular dlv b d s).1 := by
  unfold initRegular
  split
  · exact runActs_frm h ..
  · exact setOutput_frm h ..
  · exact setOutput_frm h ..
  · exact Frm.refl s

theorem initFromValue_frm {dlv : Dlv} (h : DFrm dlv) (b : Blk) (d : Nat) (s : St) :
    Frm s (initFromValue dlv b d s).1 := by
  unfold initFromValue
  repeat' split
  all_goals first
    | exact Frm.refl s
    | exact h ..
    | exact setOutput_frm h ..

theorem initBlock_frm {dlv : Dlv} (h : DFrm dlv) (b : Blk) (d : Nat) (s : St) :
    Frm s (initBlock dlv b d s).1 := by
  unfold initBlock
  exact andThen_frm ((upd_init_frm s d .running (by decide)).trans (initRegular_frm h ..))
    (andThen_frm (initFromValue_frm h ..) (upd_init_frm _ d .done (by decide)))

theorem earlyInit_frm {dlv : Dlv} (h : DFrm dlv) (b : Blk) (d : Nat) (stk0 : List Frame) (s : St)
    (hs : s.stack = stk0) : Frm s (earlyInit dlv b d stk0 s).1 := by
  unfold earlyInit
  split
  · have h1 := initBlock_frm h b d { s with active := upd s.active d false, stack := ⟨d, .init⟩ :: stk0 }
    refine ⟨?_, hs.symm, h1.error, h1.init, h1.fsm⟩
    simp only [h1.active, upd_upd, upd_self]
  · exact Frm.refl s

theorem pop_frm {s s4 p1 : St} (stk0 : List Frame) (t : List TItem) (ha : s4.active = s.active)
    (he : s4.error = s.error) (hi : s4.init = s.init) (hf : s4.fsmActive = s.fsmActive)
    (h1 : Frm s4 p1) (hs : s.stack = stk0) :
    Frm s { p1 with stack := stk0, trace := t } :=
  ⟨h1.active.trans ha, hs.symm, fun h => h1.error (he ▸ h), fun x h => hi ▸ h1.init x h,
   h1.fsm.trans hf⟩

/-! the FSM: a transition runs inside the handler frame `⟨d, .handler⟩ :: stk0` -/

theorem winBody_frm {dlv : Dlv} (h : DFrm dlv) (b : Blk) (d : Nat) (s : St) (wb : WinBody) :
    Frm s (winBody dlv b d s wb).1 := by
  unfold winBody
  split
  · exact runActs_frm h ..
  · split
    · exact Frm.refl s
    · split
      · exact h ..
      · split
        · exact ⟨rfl, rfl, id, fun _ h => h, rfl⟩
        · exact Frm.refl s

theorem fsmWindow_frm {dlv : Dlv} (h : DFrm dlv) (b : Blk) (d : Nat) (stk0 : List Frame) (s : St)
    (wb : WinBody) (hs : s.stack = ⟨d, .handler⟩ :: stk0) : Frm s (fsmWindow dlv b d stk0 s wb).1 := by
  unfold fsmWindow
  have hb := winBody_frm h b d { s with active := upd s.active d false, stack := ⟨d, .window⟩ :: stk0 } wb
  refine ⟨?_, hs.symm, hb.error, hb.init, hb.fsm⟩
  simp only [hb.active, upd_upd, upd_self]

theorem chainExit_frm {dlv : Dlv} (h : DFrm dlv) (b : Blk) (d : Nat) (s : St) (chained : Bool) :
    Frm s (chainExit dlv b d s chained).1 := by
  unfold chainExit
  have h0 : Frm s { s with nextEv := upd s.nextEv d Option.none } := ⟨rfl, rfl, id, fun _ h => h, rfl⟩
  simp only []
  split
  · split
    · exact h0.trans (runActs_frm h ..)
    · exact h0
  · exact h0

theorem fsmChain_frm {dlv : Dlv} (h : DFrm dlv) (b : Blk) (d : Nat) (stk0 : List Frame) (k : Nat) (s : St)
    (chained : Bool) (ns : Nat) (data : Data) (hs : s.stack = ⟨d, .handler⟩ :: stk0) :
    Frm s (fsmChain dlv b d stk0 k s chained ns data).1 := by
  induction k generalizing s chained ns data with
  | zero => exact Frm.refl s
  | succ k ih =>
    unfold fsmChain
    have h1 := chainExit_frm h b d s chained
    refine andThen_frm h1 ?_
    generalize (chainExit dlv b d s chained).1 = s0 at h1
    have hs0 : s0.stack = ⟨d, .handler⟩ :: stk0 := h1.stack.trans hs
    have h2 : Frm s0 { s0 with fstate := upd s0.fstate d (some ns) } := ⟨rfl, rfl, id, fun _ h => h, rfl⟩
    have h3 := fsmWindow_frm h b d stk0 { s0 with fstate := upd s0.fstate d (some ns) } (.enter ns) hs0
    refine andThen_frm (h2.trans h3) ?_
    generalize (fsmWindow dlv b d stk0 { s0 with fstate := upd s0.fstate d (some ns) } (.enter ns)).1 = s2 at h3
    have hs2 : s2.stack = ⟨d, .handler⟩ :: stk0 := h3.stack.trans hs0
    split
    · exact ih s2 true _ _ hs2
    · split
      · exact Frm.refl s2
      · have h4 := fsmWindow_frm h b d stk0 s2 (.startTimer ns (data.get? "duration")) hs2
        refine andThen_frm h4 ?_
        generalize (fsmWindow dlv b d stk0 s2 (.startTimer ns (data.get? "duration"))).1 = s3 at h4
        split
        · exact ih s3 true _ _ (h4.stack.trans hs2)
        · exact Frm.refl s3

theorem fsmLeave_frm {dlv : Dlv} (h : DFrm dlv) (b : Blk) (d : Nat) (s : St) :
    Frm s (fsmLeave dlv b d s).1 := by
  unfold fsmLeave
  split
  · exact Frm.refl s
  · split
    · exact Frm.refl s
    · exact andThen_frm (runActs_frm h ..) (andThen_frm (sendEdges_frm h ..) ⟨rfl, rfl, id, fun _ h => h, rfl⟩)

theorem fsmFinish_frm {dlv : Dlv} (h : DFrm dlv) (b : Blk) (d : Nat) (s : St) :
    Frm s (fsmFinish dlv b d s).1 := by
  unfold fsmFinish
  split
  · exact Frm.refl s
  · exact andThen_frm (setOutput_frm h ..) (andThen_frm (sendEdges_frm h ..) (Frm.refl _))

theorem fsmTransition_frm {dlv : Dlv} (h : DFrm dlv) (b : Blk) (d : Nat) (stk0 : List Frame) (s : St)
    (ns : Nat) (data : Data) (hs : s.stack = ⟨d, .handler⟩ :: stk0) :
    Frm s (fsmTransition dlv b d stk0 s ns data).1 := by
  unfold fsmTransition
  have h1 := fsmLeave_frm h b d s
  refine andThen_frm h1 ?_
  generalize (fsmLeave dlv b d s).1 = s3 at h1
  split
  · exact Frm.refl s3
  · exact andThen_frm (fsmChain_frm h b d stk0 _ s3 false ns data (h1.stack.trans hs)) (fsmFinish_frm h ..)

theorem fsmCond_frm {dlv : Dlv} (h : DFrm dlv) (b : Blk) (d : Nat) (s : St) (et : EType) (data : Data) :
    Frm s (fsmCond dlv b d s et data).1 := by
  unfold fsmCond
  repeat' split
  all_goals first
    | exact Frm.refl s
    | exact andThen_frm (runActs_frm h ..) (Frm.refl _)

theorem fsmAccept_frm {dlv : Dlv} (h : DFrm dlv) (b : Blk) (d : Nat) (stk0 : List Frame) (s : St)
    (ns : Nat) (data : Data) (hs : s.stack = ⟨d, .handler⟩ :: stk0) :
    Frm s (fsmAccept dlv b d stk0 s ns data).1 := by
  unfold fsmAccept
  split
  · split
    · exact Frm.refl s
    · exact ⟨rfl, rfl, id, fun _ h => h, rfl⟩
  · rename_i hfa
    have h1 := fsmTransition_frm h b d stk0 { s with fsmActive := upd s.fsmActive d true } ns data hs
    refine ⟨h1.active, h1.stack, h1.error, h1.init, ?_⟩
    simp only [h1.fsm]
    exact upd_restore _ _ (by simpa using hfa)

theorem fsmEvent_frm {dlv : Dlv} (h : DFrm dlv) (b : Blk) (d : Nat) (stk0 : List Frame) (s : St)
    (et : EType) (data : Data) (hs : s.stack = ⟨d, .handler⟩ :: stk0) :
    Frm s (fsmEvent dlv b d stk0 s et data).1 := by
  unfold fsmEvent
  split
  · exact Frm.refl s
  · exact Frm.refl s
  · exact Frm.refl s
  · exact andThen_frm (sendEdges_frm h ..) (Frm.refl _)
  · have hc := fsmCond_frm h b d s et data
    simp only []
    split
    · exact hc
    · split
      · exact hc.trans (fsmAccept_frm h b d stk0 _ _ _ (hc.stack.trans hs))
      · exact hc

theorem upd_rcur_frm (s : St) (f : Nat → Option (Data × Nat)) : Frm s { s with rcur := f } :=
  ⟨rfl, rfl, id, fun _ h => h, rfl⟩

theorem repeatEvent_frm {dlv : Dlv} (h : DFrm dlv) (b : Blk) (d : Nat) (s : St) (et : EType)
    (data : Data) : Frm s (repeatEvent dlv b d s et data).1 := by
  unfold repeatEvent
  split
  · exact Frm.refl s
  · exact andThen_frm (setOutput_frm h ..) (andThen_frm (sendEdges_frm h ..) (upd_rcur_frm _ _))

theorem inHandler_frm (d : Nat) (stk0 : List Frame) (s : St) (data : Data) (body : St → St × Res)
    (hs : s.stack = stk0)
    (hb : ∀ s4 : St, s4.stack = ⟨d, .handler⟩ :: stk0 → Frm s4 (body s4).1) :
    Frm s (inHandler d stk0 s data body).1 := by
  unfold inHandler
  simp only []
  refine Frm.trans ?_ (classify_frm _ _)
  refine pop_frm stk0 _ ?_ ?_ ?_ ?_ (hb _ rfl) hs <;> rfl

theorem callHandler_frm {dlv : Dlv} (h : DFrm dlv) (b : Blk) (d : Nat) (stk0 : List Frame) (s : St)
    (et : EType) (data : Data) (hs : s.stack = stk0) : Frm s (callHandler dlv b d stk0 s et data).1 := by
  unfold callHandler
  split
  · exact inHandler_frm d stk0 s data _ hs (fun s4 h4 => fsmEvent_frm h b d stk0 s4 et data h4)
  · split
    · exact inHandler_frm d stk0 s data _ hs (fun s4 _ => repeatEvent_frm h ..)
    · split
      · exact Frm.refl s
      · split
        · exact Frm.refl s
        · exact inHandler_frm d stk0 s data _ hs (fun s4 _ => handlerBody_frm h ..)

theorem eventBody_frm {dlv : Dlv} (h : DFrm dlv) (b : Blk) (d : Nat) (stk0 : List Frame) (s : St)
    (et : EType) (data : Data) (hs : s.stack = stk0) : Frm s (eventBody dlv b d stk0 s et data).1 := by
  unfold eventBody
  simp only []
  split
  · exact Frm.refl s
  · have h1 := earlyInit_frm h b d stk0 s hs
    exact andThen_frm h1 (callHandler_frm h b d stk0 _ _ data (h1.stack.trans hs))

/-- every call of `event()` – whatever its outcome – returns with all guards and the stack as they
    were, keeps an error and never resets a started initialisation -/
theorem deliver_frm (c : Circ) (fuel : Nat) : DFrm (deliver c fuel) := by
  induction fuel with
  | zero => intro s d et data; exact Frm.refl s
  | succ fuel ih =>
    intro s d et data
    unfold deliver
    split
    · exact Frm.refl s
    · split
      · exact Frm.refl s
      · split
        · have h := abort_frm s .circuitError
          exact ⟨h.active, h.stack, h.error, h.init, h.fsm⟩
        · next b _ _ _ hact =>
          have h1 := eventBody_frm ih b d s.stack { s with active := upd s.active d true } et data rfl
          refine ⟨?_, h1.stack, h1.error, h1.init, h1.fsm⟩
          simp only [h1.active]
          exact upd_restore _ _ (by simpa using hact)

/-! ### generic traversal for a predicate that depends on flags, stack, trace and error only -/

/-- `P` looks at `active`, `stack`, `trace`, `error` only -/
def StPred (P : St → Prop) : Prop :=
  ∀ s s' : St, P s → s'.active = s.active → s'.stack = s.stack → s'.trace = s.trace →
    s'.error = s.error → P s'

def DP (P : St → Prop) (dlv : Dlv) : Prop := ∀ s d et data, P s → P (dlv s d et data).1

section generic
variable {P : St → Prop} {dlv : Dlv}

theorem andThen_P {p : St × Res} {k : St → St × Res} (h1 : P p.1) (h2 : P p.1 → P (k p.1).1) :
    P (andThen p k).1 := by
  unfold andThen
  split
  · exact h1
  · exact h2 h1

theorem sendEdges_P (h : DP P dlv) (src : Nat) (s : St) (es : List Edge) (data : Data) (hs : P s) :
    P (sendEdges dlv src s es data).1 := by
  induction es generalizing s with
  | nil => exact hs
  | cons e es ih =>
    unfold sendEdges
    split
    · exact ih s hs
    · exact andThen_P (h _ _ _ _ hs) (ih _)

theorem setOutput_P (hp : StPred P) (h : DP P dlv) (b : Blk) (d : Nat) (s : St) (v : Val) (hs : P s) :
    P (setOutput dlv b d s v).1 := by
  unfold setOutput
  split
  · exact hs
  · simp only []
    split
    · exact sendEdges_P h _ _ _ _ hs
    · exact andThen_P (sendEdges_P h _ _ _ _ (hp s _ hs rfl rfl rfl rfl)) (sendEdges_P h _ _ _ _)

theorem runAct_P (hp : StPred P) (h : DP P dlv) (b : Blk) (d : Nat) (s : St) (a : Act) (hs : P s) :
    P (runAct dlv b d s a).1 := by
  cases a with
  | setOut v => exact setOutput_P hp h _ _ _ _ hs
  | send i v =>
    simp only [runAct]
    split
    · exact hs
    · exact sendEdges_P h _ _ _ _ hs
  | trySend i v =>
    simp only [runAct]
    split
    · exact hs
    · rw [swallow_fst]; exact sendEdges_P h _ _ _ _ hs
  | raise => exact hs
  | rawEvent x et => exact h _ _ _ _ hs

theorem runActs_P (hp : StPred P) (h : DP P dlv) (b : Blk) (d : Nat) (s : St) (as : List Act)
    (hs : P s) : P (runActs dlv b d s as).1 := by
  induction as generalizing s with
  | nil => exact hs
  | cons a as ih =>
    unfold runActs
    exact andThen_P (runAct_P hp h _ _ _ _ hs) (ih _)

theorem handlerBody_P (hp : StPred P) (h : DP P dlv) (b : Blk) (d : Nat) (s : St) (name : String)
    (data : Data) (hs : P s) : P (handlerBody dlv b d s name data).1 := by
  unfold handlerBody
  repeat' split
  all_goals first
    | exact hs
    | exact runActs_P hp h _ _ _ _ hs
    | exact andThen_P (setOutput_P hp h _ _ _ _ hs) (fun h => h)
    | exact andThen_P (sendEdges_P h _ _ _ _ hs) (fun h => h)

theorem initRegular_P (hp : StPred P) (h : DP P dlv) (b : Blk) (d : Nat) (s : St) (hs : P s) :
    P (initRegular dlv b d s).1 := by
  unfold initRegular
  split
  · exact runActs_P hp h _ _ _ _ hs
  · exact setOutput_P hp h _ _ _ _ hs
  · exact setOutput_P hp h _ _ _ _ hs
  · exact hs

theorem initFromValue_P (hp : StPred P) (h : DP P dlv) (b : Blk) (d : Nat) (s : St) (hs : P s) :
    P (initFromValue dlv b d s).1 := by
  unfold initFromValue
  repeat' split
  all_goals first
    | exact hs
    | exact h _ _ _ _ hs
    | exact setOutput_P hp h _ _ _ _ hs

theorem initBlock_P (hp : StPred P) (h : DP P dlv) (b : Blk) (d : Nat) (s : St) (hs : P s) :
    P (initBlock dlv b d s).1 := by
  unfold initBlock
  exact andThen_P (initRegular_P hp h _ _ _ (hp s _ hs rfl rfl rfl rfl))
    (fun h1 => andThen_P (initFromValue_P hp h _ _ _ h1) (fun h2 => hp _ _ h2 rfl rfl rfl rfl))

theorem repeatEvent_P (hp : StPred P) (h : DP P dlv) (b : Blk) (d : Nat) (s : St) (et : EType)
    (data : Data) (hs : P s) : P (repeatEvent dlv b d s et data).1 := by
  unfold repeatEvent
  split
  · exact hs
  · exact andThen_P (setOutput_P hp h _ _ _ _ hs)
      (fun h1 => andThen_P (sendEdges_P h _ _ _ _ h1) (fun h2 => hp _ _ h2 rfl rfl rfl rfl))

/-! the FSM functions, given what the window does to `P` -/

theorem winBody_P (hp : StPred P) (h : DP P dlv) (b : Blk) (d : Nat) (s : St) (wb : WinBody)
    (hs : P s) : P (winBody dlv b d s wb).1 := by
  unfold winBody
  split
  · exact runActs_P hp h _ _ _ _ hs
  · split
    · exact hs
    · split
      · exact h _ _ _ _ hs
      · split
        · exact hp s _ hs rfl rfl rfl rfl
        · exact hs

theorem chainExit_P (hp : StPred P) (h : DP P dlv) (b : Blk) (d : Nat) (s : St) (chained : Bool)
    (hs : P s) : P (chainExit dlv b d s chained).1 := by
  unfold chainExit
  have h0 : P { s with nextEv := upd s.nextEv d Option.none } := hp s _ hs rfl rfl rfl rfl
  simp only []
  split
  · split
    · exact runActs_P hp h _ _ _ _ h0
    · exact h0
  · exact h0

theorem fsmLeave_P (hp : StPred P) (h : DP P dlv) (b : Blk) (d : Nat) (s : St) (hs : P s) :
    P (fsmLeave dlv b d s).1 := by
  unfold fsmLeave
  split
  · exact hs
  · split
    · exact hs
    · exact andThen_P (runActs_P hp h _ _ _ _ hs)
        (fun h1 => andThen_P (sendEdges_P h _ _ _ _ h1) (fun h2 => hp _ _ h2 rfl rfl rfl rfl))

theorem fsmFinish_P (hp : StPred P) (h : DP P dlv) (b : Blk) (d : Nat) (s : St) (hs : P s) :
    P (fsmFinish dlv b d s).1 := by
  unfold fsmFinish
  split
  · exact hs
  · exact andThen_P (setOutput_P hp h _ _ _ _ hs)
      (fun h1 => andThen_P (sendEdges_P h _ _ _ _ h1) (fun h2 => h2))

theorem fsmChain_P (hp : StPred P) (h : DP P dlv) (b : Blk) (d : Nat) (stk0 : List Frame)
    (hw : ∀ s wb, P s → P (fsmWindow dlv b d stk0 s wb).1) (k : Nat) (s : St) (chained : Bool)
    (ns : Nat) (data : Data) (hs : P s) : P (fsmChain dlv b d stk0 k s chained ns data).1 := by
  induction k generalizing s chained ns data with
  | zero => exact hs
  | succ k ih =>
    unfold fsmChain
    refine andThen_P (chainExit_P hp h b d s chained hs) (fun h0 => ?_)
    refine andThen_P (hw _ _ (hp _ _ h0 rfl rfl rfl rfl)) (fun h2 => ?_)
    split
    · exact ih _ _ _ _ h2
    · split
      · exact h2
      · refine andThen_P (hw _ _ h2) (fun h3 => ?_)
        split
        · exact ih _ _ _ _ h3
        · exact h3

theorem fsmTransition_P (hp : StPred P) (h : DP P dlv) (b : Blk) (d : Nat) (stk0 : List Frame)
    (hw : ∀ s wb, P s → P (fsmWindow dlv b d stk0 s wb).1) (s : St) (ns : Nat) (data : Data) (hs : P s) :
    P (fsmTransition dlv b d stk0 s ns data).1 := by
  unfold fsmTransition
  refine andThen_P (fsmLeave_P hp h b d s hs) (fun h3 => ?_)
  split
  · exact h3
  · exact andThen_P (fsmChain_P hp h b d stk0 hw _ _ _ _ _ h3) (fun h4 => fsmFinish_P hp h b d _ h4)

theorem fsmCond_P (hp : StPred P) (h : DP P dlv) (b : Blk) (d : Nat) (s : St) (et : EType)
    (data : Data) (hs : P s) : P (fsmCond dlv b d s et data).1 := by
  unfold fsmCond
  repeat' split
  all_goals first
    | exact hs
    | exact andThen_P (runActs_P hp h _ _ _ _ hs) (fun h => h)

theorem fsmAccept_P (hp : StPred P) (h : DP P dlv) (b : Blk) (d : Nat) (stk0 : List Frame)
    (hw : ∀ s wb, P s → P (fsmWindow dlv b d stk0 s wb).1) (s : St) (ns : Nat) (data : Data) (hs : P s) :
    P (fsmAccept dlv b d stk0 s ns data).1 := by
  unfold fsmAccept
  split
  · split
    · exact hs
    · exact hp s _ hs rfl rfl rfl rfl
  · have ht := fsmTransition_P hp h b d stk0 hw { s with fsmActive := upd s.fsmActive d true } ns data
      (hp s _ hs rfl rfl rfl rfl)
    exact hp _ _ ht rfl rfl rfl rfl

theorem fsmEvent_P (hp : StPred P) (h : DP P dlv) (b : Blk) (d : Nat) (stk0 : List Frame)
    (hw : ∀ s wb, P s → P (fsmWindow dlv b d stk0 s wb).1) (s : St) (et : EType) (data : Data) (hs : P s) :
    P (fsmEvent dlv b d stk0 s et data).1 := by
  unfold fsmEvent
  split
  · exact hs
  · exact hs
  · exact hs
  · exact andThen_P (sendEdges_P h _ _ _ _ hs) (fun h => h)
  · have hc := fsmCond_P hp h b d s et data hs
    simp only []
    split
    · exact hc
    · split
      · exact fsmAccept_P hp h b d stk0 hw _ _ _ hc
      · exact hc

end generic

/-! ### no nested handling -/

/-- consistency of guards and (ghost) stack: a block is locked iff its handler is running
    (and not suspended in a window) -/
def Inv (s : St) : Prop := ∀ x, s.active x = true ↔ (⟨x, .handler⟩ : Frame) ∈ s.stack

/-- nesting depth recorded at the entry of a handler: 1 = no other handler of the block is running
    (frames of the block that are suspended in a window are counted separately, in `win`) -/
def TItem.ok : TItem → Prop
  | .enter _ k _ _ => k = 1
  | _ => True

def TraceOk (s : St) : Prop := ∀ t ∈ s.trace, t.ok

def Good (s : St) : Prop := Inv s ∧ TraceOk s

theorem good_stPred : StPred Good := by
  intro s s' h ha hst htr _
  refine ⟨fun x => ?_, fun t ht => h.2 t (htr ▸ ht)⟩
  rw [ha, hst]; exact h.1 x

theorem Inv.of_frm {s s' : St} (h : Inv s) (f : Frm s s') : Inv s' := by
  intro x; rw [f.active, f.stack]; exact h x

theorem handlerDepth_zero {stk : List Frame} {d : Nat} (h : (⟨d, .handler⟩ : Frame) ∉ stk) :
    handlerDepth stk d = 0 := by
  unfold handlerDepth
  rw [List.countP_eq_zero]
  intro f hf hp
  apply h
  have : f = ⟨d, .handler⟩ := by
    cases f with
    | mk b ph => simp at hp; simp [hp.1, hp.2]
  exact this ▸ hf

theorem mem_init_cons {x d : Nat} {stk : List Frame} :
    (⟨x, .handler⟩ : Frame) ∈ (⟨d, .init⟩ : Frame) :: stk ↔ (⟨x, .handler⟩ : Frame) ∈ stk := by
  simp

theorem mem_window_cons {x d : Nat} {stk : List Frame} :
    (⟨x, .handler⟩ : Frame) ∈ (⟨d, .window⟩ : Frame) :: stk ↔ (⟨x, .handler⟩ : Frame) ∈ stk := by
  simp

theorem classify_traceOk (s6 : St) (r : Res) (h : TraceOk s6) : TraceOk (classify s6 r) := by
  unfold classify St.abort
  repeat' split
  all_goals exact h

section inHandlerOf
variable {dlv : Dlv} (d : Nat) (a0 : Nat → Bool) (stk0 : List Frame)

/-- the state is inside the handler of `d`, entered from a state with flags `a0` and stack `stk0` -/
def InH (s : St) : Prop :=
  s.active = upd a0 d true ∧ s.stack = ⟨d, .handler⟩ :: stk0 ∧ TraceOk s

theorem inH_stPred : StPred (InH d a0 stk0) := by
  intro s s' h ha hst htr _
  exact ⟨ha.trans h.1, hst.trans h.2.1, fun t ht => h.2.2 t (htr ▸ ht)⟩

variable (hinv : ∀ x, a0 x = true ↔ (⟨x, .handler⟩ : Frame) ∈ stk0) (hd : a0 d = false)
include hinv hd

theorem InH.good {s : St} (h : InH d a0 stk0 s) : Good s := by
  refine ⟨fun x => ?_, h.2.2⟩
  rw [h.1, h.2.1, List.mem_cons]
  by_cases hx : x = d
  · subst hx; simp [upd]
  · simp only [upd, hx, if_false]
    rw [hinv x]
    constructor
    · exact fun h => Or.inr h
    · rintro (h | h)
      · exact absurd (by cases h; rfl) hx
      · exact h

theorem inH_DP (hf : DFrm dlv) (h : DP Good dlv) : DP (InH d a0 stk0) dlv := by
  intro s x et data hs
  have f := hf s x et data
  exact ⟨f.active.trans hs.1, f.stack.trans hs.2.1, (h s x et data (hs.good d a0 stk0 hinv hd)).2⟩

/-- the chained-transition window keeps the invariants: inside, the guard of `d` is released and its
    frame is marked `.window`; afterwards the handler goes on -/
theorem fsmWindow_inH (hf : DFrm dlv) (h : DP Good dlv) (b : Blk) (s : St) (wb : WinBody)
    (hs : InH d a0 stk0 s) : InH d a0 stk0 (fsmWindow dlv b d stk0 s wb).1 := by
  unfold fsmWindow
  have hg : Good { s with active := upd s.active d false, stack := ⟨d, .window⟩ :: stk0 } := by
    refine ⟨fun x => ?_, hs.2.2⟩
    simp only [hs.1, upd_upd, ← hd, upd_self, mem_window_cons]
    exact hinv x
  have hb := winBody_P good_stPred h b d _ wb hg
  have fb := winBody_frm hf b d { s with active := upd s.active d false, stack := ⟨d, .window⟩ :: stk0 } wb
  refine ⟨?_, rfl, hb.2⟩
  show upd (winBody dlv b d _ wb).1.active d (s.active d) = upd a0 d true
  rw [fb.active, hs.1]
  simp only [upd_upd, upd_same]

theorem fsmEvent_inH (hf : DFrm dlv) (h : DP Good dlv) (b : Blk) (s : St) (et : EType) (data : Data)
    (hs : InH d a0 stk0 s) : InH d a0 stk0 (fsmEvent dlv b d stk0 s et data).1 :=
  fsmEvent_P (inH_stPred d a0 stk0) (inH_DP d a0 stk0 hinv hd hf h) b d stk0
    (fun s wb hs => fsmWindow_inH d a0 stk0 hinv hd hf h b s wb hs) s et data hs

/-- entering a handler from a state with flags `upd a0 d true` and stack `stk0` -/
theorem inHandler_ok (s3 : St) (data : Data) (body : St → St × Res)
    (htr : TraceOk s3)
    (hb : ∀ s4, InH d a0 stk0 s4 → TraceOk (body s4).1)
    (hact : s3.active = upd a0 d true) : TraceOk (inHandler d stk0 s3 data body).1 := by
  unfold inHandler
  simp only []
  have hnot : (⟨d, .handler⟩ : Frame) ∉ stk0 := fun hm => by
    have := (hinv d).2 hm; rw [hd] at this; cases this
  apply classify_traceOk
  intro t ht
  rcases List.mem_cons.1 ht with rfl | ht
  · trivial
  · have h4 : InH d a0 stk0 { s3 with trace := TItem.enter d (handlerDepth stk0 d + 1) (data.get? "value") (windowDepth stk0 d) :: s3.trace, stack := ⟨d, .handler⟩ :: stk0 } := by
      refine ⟨hact, rfl, ?_⟩
      intro t ht
      rcases List.mem_cons.1 ht with rfl | ht
      · simp [TItem.ok, handlerDepth_zero hnot]
      · exact htr t ht
    exact hb _ h4 t ht

end inHandlerOf

theorem eventBody_ok {dlv : Dlv} (hf : DFrm dlv) (h : DP Good dlv) (b : Blk) (d : Nat) (a0 : Nat → Bool)
    (stk0 : List Frame) (s1 : St) (et : EType) (data : Data)
    (hinv : ∀ x, a0 x = true ↔ (⟨x, .handler⟩ : Frame) ∈ stk0) (hd : a0 d = false)
    (hact : s1.active = upd a0 d true) (hstk : s1.stack = stk0) (htr : TraceOk s1) :
    TraceOk (eventBody dlv b d stk0 s1 et data).1 := by
  unfold eventBody
  simp only []
  split
  · exact htr
  · -- early initialisation
    have hfe := earlyInit_frm hf b d stk0 s1 hstk
    have h1 : TraceOk (earlyInit dlv b d stk0 s1).1 := by
      unfold earlyInit
      split
      · have hg : Good { s1 with active := upd s1.active d false, stack := ⟨d, .init⟩ :: stk0 } := by
          refine ⟨fun x => ?_, htr⟩
          simp only [hact, upd_upd, ← hd, upd_self, mem_init_cons]
          exact hinv x
        exact (initBlock_P good_stPred h b d _ hg).2
      · exact htr
    apply andThen_P (P := TraceOk) h1
    intro h1
    generalize (earlyInit dlv b d stk0 s1).1 = s3 at hfe h1
    -- the handler
    unfold callHandler
    split
    · exact inHandler_ok d a0 stk0 hinv hd s3 data _ h1
        (fun s4 h4 => (fsmEvent_inH d a0 stk0 hinv hd hf h b s4 _ data h4).2.2) (hfe.active.trans hact)
    · split
      · exact inHandler_ok d a0 stk0 hinv hd s3 data _ h1
          (fun s4 h4 => (repeatEvent_P good_stPred h b d s4 _ data (h4.good d a0 stk0 hinv hd)).2)
          (hfe.active.trans hact)
      · split
        · exact h1
        · split
          · exact h1
          · exact inHandler_ok d a0 stk0 hinv hd s3 data _ h1
              (fun s4 h4 => (handlerBody_P good_stPred h b d s4 _ data (h4.good d a0 stk0 hinv hd)).2)
              (hfe.active.trans hact)

/-- in every execution a handler is entered with nesting depth 1 -/
theorem deliver_good (c : Circ) (fuel : Nat) : DP Good (deliver c fuel) := by
  induction fuel with
  | zero => intro s d et data h; exact h
  | succ fuel ih =>
    intro s d et data hg
    refine ⟨hg.1.of_frm (deliver_frm c _ _ _ _ _), ?_⟩
    unfold deliver
    split
    · exact hg.2
    · split
      · exact hg.2
      · split
        · intro t ht
          rcases List.mem_cons.1 ht with rfl | ht
          · trivial
          · exact hg.2 t ht
        · next b _ _ _ hact =>
          exact eventBody_ok (deliver_frm c fuel) ih b d s.active s.stack _ et data hg.1
            (by simpa using hact) rfl rfl hg.2

theorem classify_aborts (s : St) (e : Exc) (h1 : e ≠ .unknownEvent) (h2 : e ≠ .outOfFuel) :
    (classify s (.exc e)).error.isSome := by
  cases e <;> simp_all [classify, St.abort] <;> split <;> simp_all

/-! ### a refusal stops the simulation, whatever the handlers on the stack do with the exception -/

/-- if an event was refused by a busy block, `Circuit.error` is set -/
def RefAbort (s : St) : Prop := (∃ x, TItem.refused x ∈ s.trace) → s.error.isSome

/-- `RefAbort` looks at `trace` and `error` only -/
theorem refAbort_of_eq {s s' : St} (h : RefAbort s) (htr : s'.trace = s.trace) (he : s'.error = s.error) :
    RefAbort s' := by
  intro ⟨x, hx⟩; rw [he]; exact h ⟨x, htr ▸ hx⟩

theorem refAbort_stPred : StPred RefAbort := fun _ _ h _ _ htr he => refAbort_of_eq h htr he

theorem classify_trace (s : St) (r : Res) : (classify s r).trace = s.trace := by
  unfold classify
  split <;> first | rfl | exact abort_trace _ _

theorem RefAbort.cons {s : St} (h : RefAbort s) (t : TItem) (ht : ∀ x, t ≠ .refused x)
    (s' : St) (htr : s'.trace = t :: s.trace) (he : s'.error = s.error) : RefAbort s' := by
  intro ⟨x, hx⟩
  rw [htr] at hx
  rw [he]
  rcases List.mem_cons.1 hx with hx | hx
  · exact absurd hx.symm (ht x)
  · exact h ⟨x, hx⟩

theorem fsmWindow_refAbort {dlv : Dlv} (h : DP RefAbort dlv) (b : Blk) (d : Nat) (stk0 : List Frame)
    (s : St) (wb : WinBody) (hs : RefAbort s) : RefAbort (fsmWindow dlv b d stk0 s wb).1 := by
  unfold fsmWindow
  simp only []
  exact refAbort_of_eq (winBody_P refAbort_stPred h b d _ wb (refAbort_of_eq (s' := { s with active := upd s.active d false, stack := ⟨d, .window⟩ :: stk0 }) hs rfl rfl)) rfl rfl

theorem inHandler_refAbort (d : Nat) (stk0 : List Frame) (s3 : St) (data : Data) (body : St → St × Res)
    (hs : RefAbort s3) (hb : ∀ s4, RefAbort s4 → RefAbort (body s4).1) :
    RefAbort (inHandler d stk0 s3 data body).1 := by
  unfold inHandler
  simp only []
  have h4 := hs.cons (.enter d (handlerDepth stk0 d + 1) (data.get? "value") (windowDepth stk0 d))
    (by intro x; simp)
    { s3 with trace := TItem.enter d (handlerDepth stk0 d + 1) (data.get? "value") (windowDepth stk0 d) :: s3.trace, stack := ⟨d, .handler⟩ :: stk0 } rfl rfl
  intro ⟨x, hx⟩
  rw [classify_trace] at hx
  apply (classify_frm _ _).error
  exact (hb _ h4).cons _ (by intro x; simp) _ rfl rfl ⟨x, hx⟩

theorem deliver_refAbort (c : Circ) (fuel : Nat) : DP RefAbort (deliver c fuel) := by
  induction fuel with
  | zero => intro s d et data h; exact h
  | succ fuel ih =>
    intro s d et data hs
    unfold deliver
    split
    · exact hs
    · split
      · exact hs
      · split
        · exact fun _ => abort_error s _
        · next b _ _ _ _ =>
          show RefAbort (eventBody (deliver c fuel) b d s.stack { s with active := upd s.active d true } et data).1
          have hs1 : RefAbort { s with active := upd s.active d true } := hs
          generalize ({ s with active := upd s.active d true } : St) = s1 at hs1
          unfold eventBody
          simp only []
          split
          · exact hs1
          · have he : RefAbort (earlyInit (deliver c fuel) b d s.stack s1).1 := by
              unfold earlyInit
              split
              · exact initBlock_P (P := RefAbort) refAbort_stPred ih b d _ hs1
              · exact hs1
            refine andThen_P he ?_
            intro he
            generalize (earlyInit (deliver c fuel) b d s.stack s1).1 = s3 at he
            unfold callHandler
            split
            · exact inHandler_refAbort d s.stack s3 data _ he
                (fun s4 h4 => fsmEvent_P refAbort_stPred ih b d s.stack
                  (fun s' wb hs' => fsmWindow_refAbort ih b d s.stack s' wb hs') s4 _ data h4)
            · split
              · exact inHandler_refAbort d s.stack s3 data _ he
                  (fun s4 h4 => repeatEvent_P refAbort_stPred ih b d s4 _ data h4)
              · split
                · exact he
                · split
                  · exact he
                  · exact inHandler_refAbort d s.stack s3 data _ he
                      (fun s4 h4 => handlerBody_P refAbort_stPred ih b d s4 _ data h4)

/-! ### fuel: the nesting depth of `event()` calls is bounded by the circuit -/

def NoOOF (p : St × Res) : Prop := p.2 ≠ .exc .outOfFuel

def DG (K : St → Prop) (dlv : Dlv) : Prop := ∀ s d et data, K s → NoOOF (dlv s d et data)

/-- `K` is kept by everything complete calls of `event()` do to a state -/
def KClosed (K : St → Prop) : Prop := ∀ s s', K s → Frm s s' → K s'

theorem NoOOF.leaf (s : St) (r : Res) (h : r ≠ .exc .outOfFuel) : NoOOF (s, r) := h

section fuel
variable {K : St → Prop} {dlv : Dlv}

theorem andThen_G {p : St × Res} {k : St → St × Res} (h1 : NoOOF p) (h2 : NoOOF (k p.1)) :
    NoOOF (andThen p k) := by
  unfold andThen
  split
  · next x hx => intro h; simp only [] at h; exact h1 (hx.trans h)
  · exact h2

theorem sendEdges_G (hk : KClosed K) (hf : DFrm dlv) (hg : DG K dlv) (src : Nat) (s : St)
    (es : List Edge) (data : Data) (h : K s) : NoOOF (sendEdges dlv src s es data) := by
  induction es generalizing s with
  | nil => exact NoOOF.leaf _ _ (by simp)
  | cons e es ih =>
    unfold sendEdges
    split
    · exact ih s h
    · exact andThen_G (hg _ _ _ _ h) (ih _ (hk _ _ h (hf ..)))

theorem setOutput_G (hk : KClosed K) (hf : DFrm dlv) (hg : DG K dlv) (b : Blk) (d : Nat) (s : St)
    (v : Val) (h : K s) : NoOOF (setOutput dlv b d s v) := by
  unfold setOutput
  split
  · exact NoOOF.leaf _ _ (by simp)
  · simp only []
    split
    · exact sendEdges_G hk hf hg _ _ _ _ h
    · have h0 : K { s with out := upd s.out d v } := hk _ _ h ⟨rfl, rfl, id, fun _ h => h, rfl⟩
      exact andThen_G (sendEdges_G hk hf hg _ _ _ _ h0)
        (sendEdges_G hk hf hg _ _ _ _ (hk _ _ h0 (sendEdges_frm hf ..)))

theorem runAct_G (hk : KClosed K) (hf : DFrm dlv) (hg : DG K dlv) (b : Blk) (d : Nat) (s : St)
    (a : Act) (h : K s) : NoOOF (runAct dlv b d s a) := by
  cases a with
  | setOut v => exact setOutput_G hk hf hg _ _ _ _ h
  | send i v =>
    simp only [runAct]
    split
    · exact NoOOF.leaf _ _ (by simp)
    · exact sendEdges_G hk hf hg _ _ _ _ h
  | trySend i v =>
    simp only [runAct]
    split
    · exact NoOOF.leaf _ _ (by simp)
    · next e _ =>
      have h1 := sendEdges_G hk hf hg d s [e] (match v with | some v => [("value", v)] | Option.none => []) h
      intro h2
      unfold swallow at h2
      repeat' split at h2
      all_goals simp_all [NoOOF]
  | raise => exact NoOOF.leaf _ _ (by simp)
  | rawEvent x et => exact hg _ _ _ _ h

theorem runActs_G (hk : KClosed K) (hf : DFrm dlv) (hg : DG K dlv) (b : Blk) (d : Nat) (s : St)
    (as : List Act) (h : K s) : NoOOF (runActs dlv b d s as) := by
  induction as generalizing s with
  | nil => exact NoOOF.leaf _ _ (by simp)
  | cons a as ih =>
    unfold runActs
    exact andThen_G (runAct_G hk hf hg _ _ _ _ h) (ih _ (hk _ _ h (runAct_frm hf ..)))

theorem handlerBody_G (hk : KClosed K) (hf : DFrm dlv) (hg : DG K dlv) (b : Blk) (d : Nat) (s : St)
    (name : String) (data : Data) (h : K s) : NoOOF (handlerBody dlv b d s name data) := by
  unfold handlerBody
  split
  · split
    · exact runActs_G hk hf hg _ _ _ _ h
    · split
      · exact runActs_G hk hf hg _ _ _ _ h
      · split
        · exact runActs_G hk hf hg _ _ _ _ h
        · exact NoOOF.leaf _ _ (by simp)
  · split
    · exact NoOOF.leaf _ _ (by simp)
    · split
      · exact NoOOF.leaf _ _ (by simp)
      · exact andThen_G (setOutput_G hk hf hg _ _ _ _ h) (NoOOF.leaf _ _ (by simp))
  · split
    · next x hx =>
      have : x ≠ .outOfFuel := by
        unfold counterResult at hx
        repeat' split at hx
        all_goals simp at hx
        all_goals subst hx
        all_goals simp
      exact NoOOF.leaf _ _ (by simpa using this)
    · exact andThen_G (setOutput_G hk hf hg _ _ _ _ h) (NoOOF.leaf _ _ (by simp))
  · split
    · exact NoOOF.leaf _ _ (by simp)
    · split
      · exact andThen_G (sendEdges_G hk hf hg _ _ _ _ h) (NoOOF.leaf _ _ (by simp))
      · exact andThen_G (sendEdges_G hk hf hg _ _ _ _ h) (NoOOF.leaf _ _ (by simp))
  · exact NoOOF.leaf _ _ (by simp)
  · exact NoOOF.leaf _ _ (by simp)

theorem initRegular_G (hk : KClosed K) (hf : DFrm dlv) (hg : DG K dlv) (b : Blk) (d : Nat) (s : St)
    (h : K s) : NoOOF (initRegular dlv b d s) := by
  unfold initRegular
  split
  · exact runActs_G hk hf hg _ _ _ _ h
  · exact setOutput_G hk hf hg _ _ _ _ h
  · exact setOutput_G hk hf hg _ _ _ _ h
  · exact NoOOF.leaf _ _ (by simp)

theorem initFromValue_G (hk : KClosed K) (hf : DFrm dlv) (hg : DG K dlv) (b : Blk) (d : Nat) (s : St)
    (h : K s) : NoOOF (initFromValue dlv b d s) := by
  unfold initFromValue
  split
  · split
    · exact hg _ _ _ _ h
    · exact NoOOF.leaf _ _ (by simp)
  · split
    · split
      · exact NoOOF.leaf _ _ (by simp)
      · exact NoOOF.leaf _ _ (by simp)
      · exact NoOOF.leaf _ _ (by simp)
      · exact NoOOF.leaf _ _ (by simp)
      · exact hg _ _ _ _ h
      · exact setOutput_G hk hf hg _ _ _ _ h
    · exact NoOOF.leaf _ _ (by simp)

theorem initBlock_G (hk : KClosed K) (hf : DFrm dlv) (hg : DG K dlv) (b : Blk) (d : Nat) (s : St)
    (h : K { s with init := upd s.init d .running }) : NoOOF (initBlock dlv b d s) := by
  unfold initBlock
  refine andThen_G (initRegular_G hk hf hg b d _ h) ?_
  exact andThen_G (initFromValue_G hk hf hg b d _ (hk _ _ h (initRegular_frm hf ..)))
    (NoOOF.leaf _ _ (by simp))

theorem repeatEvent_G (hk : KClosed K) (hf : DFrm dlv) (hg : DG K dlv) (b : Blk) (d : Nat) (s : St)
    (et : EType) (data : Data) (h : K s) : NoOOF (repeatEvent dlv b d s et data) := by
  unfold repeatEvent
  split
  · exact NoOOF.leaf _ _ (by simp)
  · exact andThen_G (setOutput_G hk hf hg _ _ _ _ h)
      (andThen_G (sendEdges_G hk hf hg _ _ _ _ (hk _ _ h (setOutput_frm hf ..))) (NoOOF.leaf _ _ (by simp)))

/-! the FSM functions: `K2` holds inside a transition, `K` inside its window -/

theorem winBody_G (hk : KClosed K) (hf : DFrm dlv) (hg : DG K dlv) (b : Blk) (d : Nat) (s : St)
    (wb : WinBody) (h : K s) : NoOOF (winBody dlv b d s wb) := by
  unfold winBody
  split
  · exact runActs_G hk hf hg _ _ _ _ h
  · split
    · exact NoOOF.leaf _ _ (by simp)
    · split
      · exact hg _ _ _ _ h
      · split
        · exact NoOOF.leaf _ _ (by simp)
        · exact NoOOF.leaf _ _ (by simp)

theorem chainExit_G (hk : KClosed K) (hf : DFrm dlv) (hg : DG K dlv) (b : Blk) (d : Nat) (s : St)
    (chained : Bool) (h : K s) : NoOOF (chainExit dlv b d s chained) := by
  unfold chainExit
  have h0 : K { s with nextEv := upd s.nextEv d Option.none } := hk _ _ h ⟨rfl, rfl, id, fun _ h => h, rfl⟩
  simp only []
  split
  · split
    · exact runActs_G hk hf hg _ _ _ _ h0
    · exact NoOOF.leaf _ _ (by simp)
  · exact NoOOF.leaf _ _ (by simp)

theorem fsmLeave_G (hk : KClosed K) (hf : DFrm dlv) (hg : DG K dlv) (b : Blk) (d : Nat) (s : St)
    (h : K s) : NoOOF (fsmLeave dlv b d s) := by
  unfold fsmLeave
  split
  · exact NoOOF.leaf _ _ (by simp)
  · split
    · exact NoOOF.leaf _ _ (by simp)
    · exact andThen_G (runActs_G hk hf hg _ _ _ _ h)
        (andThen_G (sendEdges_G hk hf hg _ _ _ _ (hk _ _ h (runActs_frm hf ..))) (NoOOF.leaf _ _ (by simp)))

theorem fsmFinish_G (hk : KClosed K) (hf : DFrm dlv) (hg : DG K dlv) (b : Blk) (d : Nat) (s : St)
    (h : K s) : NoOOF (fsmFinish dlv b d s) := by
  unfold fsmFinish
  split
  · exact NoOOF.leaf _ _ (by simp)
  · exact andThen_G (setOutput_G hk hf hg _ _ _ _ h)
      (andThen_G (sendEdges_G hk hf hg _ _ _ _ (hk _ _ h (setOutput_frm hf ..))) (NoOOF.leaf _ _ (by simp)))

variable {K2 : St → Prop}

theorem fsmChain_G (hk : KClosed K) (hk2 : KClosed K2) (hkk : ∀ s, K2 s → K s) (hf : DFrm dlv)
    (hg : DG K dlv) (b : Blk) (d : Nat) (stk0 : List Frame)
    (hw : ∀ s wb, K2 s → NoOOF (fsmWindow dlv b d stk0 s wb)) (k : Nat) (s : St) (chained : Bool)
    (ns : Nat) (data : Data) (h : K2 s) (hs : s.stack = ⟨d, .handler⟩ :: stk0) :
    NoOOF (fsmChain dlv b d stk0 k s chained ns data) := by
  induction k generalizing s chained ns data with
  | zero => exact NoOOF.leaf _ _ (by simp)
  | succ k ih =>
    unfold fsmChain
    have f1 := chainExit_frm hf b d s chained
    refine andThen_G (chainExit_G hk hf hg b d s chained (hkk _ h)) ?_
    have h0 := hk2 _ _ h f1
    generalize (chainExit dlv b d s chained).1 = s0 at f1 h0
    have hs0 : s0.stack = ⟨d, .handler⟩ :: stk0 := f1.stack.trans hs
    have h1 : K2 { s0 with fstate := upd s0.fstate d (some ns) } := hk2 _ _ h0 ⟨rfl, rfl, id, fun _ h => h, rfl⟩
    have f2 := fsmWindow_frm hf b d stk0 { s0 with fstate := upd s0.fstate d (some ns) } (.enter ns) hs0
    refine andThen_G (hw _ _ h1) ?_
    have h2 := hk2 _ _ h1 f2
    generalize (fsmWindow dlv b d stk0 { s0 with fstate := upd s0.fstate d (some ns) } (.enter ns)).1 = s2 at f2 h2
    have hs2 : s2.stack = ⟨d, .handler⟩ :: stk0 := f2.stack.trans hs0
    split
    · exact ih s2 true _ _ h2 hs2
    · split
      · exact NoOOF.leaf _ _ (by simp)
      · have f3 := fsmWindow_frm hf b d stk0 s2 (.startTimer ns (data.get? "duration")) hs2
        refine andThen_G (hw _ _ h2) ?_
        have h3 := hk2 _ _ h2 f3
        generalize (fsmWindow dlv b d stk0 s2 (.startTimer ns (data.get? "duration"))).1 = s3 at f3 h3
        split
        · exact ih s3 true _ _ h3 (f3.stack.trans hs2)
        · exact NoOOF.leaf _ _ (by simp)

theorem fsmTransition_G (hk : KClosed K) (hk2 : KClosed K2) (hkk : ∀ s, K2 s → K s) (hf : DFrm dlv)
    (hg : DG K dlv) (b : Blk) (d : Nat) (stk0 : List Frame)
    (hw : ∀ s wb, K2 s → NoOOF (fsmWindow dlv b d stk0 s wb)) (s : St) (ns : Nat) (data : Data) (h : K2 s)
    (hs : s.stack = ⟨d, .handler⟩ :: stk0) : NoOOF (fsmTransition dlv b d stk0 s ns data) := by
  unfold fsmTransition
  have f1 := fsmLeave_frm hf b d s
  refine andThen_G (fsmLeave_G hk hf hg b d s (hkk _ h)) ?_
  have h3 := hk2 _ _ h f1
  generalize (fsmLeave dlv b d s).1 = s3 at f1 h3
  have hs3 : s3.stack = ⟨d, .handler⟩ :: stk0 := f1.stack.trans hs
  split
  · exact NoOOF.leaf _ _ (by simp)
  · have f2 := fsmChain_frm hf b d stk0 (3 * b.nStates) s3 false ns data hs3
    refine andThen_G (fsmChain_G hk hk2 hkk hf hg b d stk0 hw _ s3 false ns data h3 hs3) ?_
    exact fsmFinish_G hk hf hg b d _ (hkk _ (hk2 _ _ h3 f2))

theorem fsmCond_G (hk : KClosed K) (hf : DFrm dlv) (hg : DG K dlv) (b : Blk) (d : Nat) (s : St)
    (et : EType) (data : Data) (h : K s) : NoOOF (fsmCond dlv b d s et data) := by
  unfold fsmCond
  split
  · split
    · exact NoOOF.leaf _ _ (by simp)
    · split
      · exact NoOOF.leaf _ _ (by simp)
      · exact andThen_G (runActs_G hk hf hg _ _ _ _ h) (NoOOF.leaf _ _ (by simp))
  · exact NoOOF.leaf _ _ (by simp)

theorem fsmAccept_G (hk : KClosed K) (hk2 : KClosed K2) (hkk : ∀ s, K2 s → K s) (hf : DFrm dlv)
    (hg : DG K dlv) (b : Blk) (d : Nat) (stk0 : List Frame)
    (hw : ∀ s wb, K2 s → NoOOF (fsmWindow dlv b d stk0 s wb)) (s : St) (ns : Nat) (data : Data)
    (h2 : s.fsmActive d = false → K2 { s with fsmActive := upd s.fsmActive d true })
    (hs : s.stack = ⟨d, .handler⟩ :: stk0) : NoOOF (fsmAccept dlv b d stk0 s ns data) := by
  unfold fsmAccept
  split
  · split
    · exact NoOOF.leaf _ _ (by simp)
    · exact NoOOF.leaf _ _ (by simp)
  · rename_i hfa
    exact fsmTransition_G hk hk2 hkk hf hg b d stk0 hw _ ns data (h2 (by simpa using hfa)) hs

theorem fsmEvent_G (hk : KClosed K) (hk2 : KClosed K2) (hkk : ∀ s, K2 s → K s) (hf : DFrm dlv)
    (hg : DG K dlv) (b : Blk) (d : Nat) (stk0 : List Frame)
    (hw : ∀ s wb, K2 s → NoOOF (fsmWindow dlv b d stk0 s wb)) (s : St) (et : EType) (data : Data) (h : K s)
    (h2 : ∀ s' : St, K s' → s'.fsmActive d = false → K2 { s' with fsmActive := upd s'.fsmActive d true })
    (hs : s.stack = ⟨d, .handler⟩ :: stk0) : NoOOF (fsmEvent dlv b d stk0 s et data) := by
  unfold fsmEvent
  split
  · exact NoOOF.leaf _ _ (by simp)
  · exact NoOOF.leaf _ _ (by simp)
  · exact NoOOF.leaf _ _ (by simp)
  · exact andThen_G (sendEdges_G hk hf hg _ _ _ _ h) (NoOOF.leaf _ _ (by simp))
  · have hc := fsmCond_frm hf b d s et data
    have gc := fsmCond_G hk hf hg b d s et data h
    simp only []
    split
    · next x hx => intro h3; simp only [] at h3; exact gc (hx.trans h3)
    · split
      · exact fsmAccept_G hk hk2 hkk hf hg b d stk0 hw _ _ _ (h2 _ (hk _ _ h hc)) (hc.stack.trans hs)
      · exact NoOOF.leaf _ _ (by simp)

theorem inHandler_G (d : Nat) (stk0 : List Frame) (s : St) (data : Data) (body : St → St × Res)
    (hb : NoOOF (body { s with trace := TItem.enter d (handlerDepth stk0 d + 1) (data.get? "value") (windowDepth stk0 d) :: s.trace, stack := ⟨d, .handler⟩ :: stk0 })) :
    NoOOF (inHandler d stk0 s data body) := by
  unfold inHandler
  exact hb

end fuel

/-- blocks that can still enter `event()`, blocks whose early initialisation can still open a
    window, FSMs that can still start a transition (and open its window): every nested call of
    `event()` lowers this number -/
def phi (n : Nat) (s : St) : Nat :=
  (List.range n).countP (fun d => !s.active d) + (List.range n).countP (fun d => s.init d == .pending)
    + (List.range n).countP (fun d => !s.fsmActive d)

theorem countP_flip (l : List Nat) (hl : l.Nodup) (d : Nat) (hd : d ∈ l) (p p' : Nat → Bool)
    (hp : p d = true) (hp' : p' d = false) (hne : ∀ x, x ≠ d → p' x = p x) :
    l.countP p' + 1 = l.countP p := by
  induction l with
  | nil => cases hd
  | cons a l ih =>
    rw [List.nodup_cons] at hl
    by_cases had : a = d
    · subst had
      have : l.countP p' = l.countP p := by
        apply List.countP_congr
        intro x hx
        have : x ≠ a := fun h => hl.1 (h ▸ hx)
        rw [hne x this]
      simp [hp, hp', this]
    · have hd' : d ∈ l := by
        rcases List.mem_cons.1 hd with h | h
        · exact absurd h.symm had
        · exact h
      have := ih hl.2 hd'
      simp only [List.countP_cons, hne a had]
      omega

theorem phi_frm (n : Nat) {s s' : St} (f : Frm s s') : phi n s' ≤ phi n s := by
  unfold phi
  rw [f.active, f.fsm]
  apply Nat.add_le_add_right
  apply Nat.add_le_add_left
  apply List.countP_mono_left
  intro x _ hx
  have := f.init x (by simpa using hx)
  simp [this]

theorem phi_le (n : Nat) (s : St) : phi n s ≤ 3 * n := by
  unfold phi
  have h1 := List.countP_le_length (p := fun d => !s.active d) (l := List.range n)
  have h2 := List.countP_le_length (p := fun d => s.init d == .pending) (l := List.range n)
  have h3 := List.countP_le_length (p := fun d => !s.fsmActive d) (l := List.range n)
  simp only [List.length_range] at h1 h2 h3
  omega

/-- releasing one guard raises the count by at most one -/
theorem countP_release (n : Nat) (a : Nat → Bool) (d : Nat) :
    (List.range n).countP (fun x => !upd a d false x) ≤ (List.range n).countP (fun x => !a x) + 1 := by
  by_cases had : a d = false
  · rw [← had, upd_self]; omega
  · by_cases hmem : d ∈ List.range n
    · have := countP_flip (List.range n) List.nodup_range d hmem
        (fun x => !upd a d false x) (fun x => !a x) (by simp [upd]) (by simpa using had)
        (fun x hx => by simp [upd, hx])
      omega
    · have : (List.range n).countP (fun x => !upd a d false x) = (List.range n).countP (fun x => !a x) := by
        apply List.countP_congr
        intro x hx
        have : x ≠ d := fun h => hmem (h ▸ hx)
        simp [upd, this]
      omega

theorem phi_window (n : Nat) (s : St) (d : Nat) (stk : List Frame) :
    phi n { s with active := upd s.active d false, stack := stk } ≤ phi n s + 1 := by
  unfold phi
  have := countP_release n s.active d
  simp only [] at this ⊢
  omega

theorem kclosed_phi (n k : Nat) : KClosed (fun s => phi n s < k) :=
  fun _ _ h f => Nat.lt_of_le_of_lt (phi_frm n f) h

theorem phi_stack_trace (n : Nat) (s : St) (stk : List Frame) (t : List TItem) :
    phi n { s with stack := stk, trace := t } = phi n s := rfl

/-- the nesting depth of `event()` calls below a state `s` is at most `phi s` -/
theorem deliver_G (c : Circ) (fuel : Nat) : DG (fun s => phi c.n s < fuel) (deliver c fuel) := by
  induction fuel with
  | zero => intro s d et data h; exact absurd h (Nat.not_lt_zero _)
  | succ fuel ih =>
    intro s d et data hK
    have hf := deliver_frm c fuel
    have hk := kclosed_phi c.n fuel
    unfold deliver
    split
    · exact NoOOF.leaf _ _ (by simp)
    · split
      · next x hx =>
        refine NoOOF.leaf _ _ ?_
        cases et <;> simp [EType.check] at hx <;> subst hx <;> simp
      · split
        · exact NoOOF.leaf _ _ (by simp)
        · next b hb _ _ hact =>
          have hd : s.active d = false := by simpa using hact
          have hdn : d < c.n := by
            unfold Circ.n
            rcases Nat.lt_or_ge d c.blocks.length with h | h
            · exact h
            · rw [List.getElem?_eq_none h] at hb; cases hb
          have hmem : d ∈ List.range c.n := List.mem_range.2 hdn
          -- one block less can enter `event()`
          have h1 : phi c.n { s with active := upd s.active d true } + 1 = phi c.n s := by
            unfold phi
            have := countP_flip (List.range c.n) List.nodup_range d hmem
              (fun x => !s.active x) (fun x => !upd s.active d true x) (by simp [hd]) (by simp [upd])
              (fun x hx => by simp [upd, hx])
            simp only [] at this ⊢
            omega
          have hK1 : phi c.n { s with active := upd s.active d true } < fuel := by omega
          show NoOOF (_, _)
          unfold NoOOF
          simp only []
          -- the body
          unfold eventBody
          simp only []
          split
          · simp
          · have hfe := earlyInit_frm hf b d s.stack { s with active := upd s.active d true } rfl
            have hge : NoOOF (earlyInit (deliver c fuel) b d s.stack { s with active := upd s.active d true }) := by
              unfold earlyInit
              split
              · next hp =>
                simp only [] at hp
                apply initBlock_G hk hf ih
                show phi c.n _ < fuel
                have h2 : phi c.n { s with active := upd (upd s.active d true) d false, init := upd s.init d .running, stack := ⟨d, .init⟩ :: s.stack } + 1 = phi c.n s := by
                  unfold phi
                  simp only [upd_restore _ _ hd]
                  have := countP_flip (List.range c.n) List.nodup_range d hmem
                    (fun x => s.init x == .pending) (fun x => upd s.init d .running x == .pending)
                    (by simp [hp]) (by simp [upd]) (fun x hx => by simp [upd, hx])
                  omega
                show phi c.n { s with active := upd (upd s.active d true) d false, init := upd s.init d .running, stack := ⟨d, .init⟩ :: s.stack } < fuel
                omega
              · exact NoOOF.leaf _ _ (by simp)
            refine andThen_G hge ?_
            have hK3 := hk _ _ hK1 hfe
            generalize (earlyInit (deliver c fuel) b d s.stack { s with active := upd s.active d true }).1 = s3 at hK3
            unfold callHandler
            split
            · -- an FSM: its transition lowers `phi` once more, its window raises it by one
              apply inHandler_G
              have hk2 : KClosed (fun s => phi c.n s + 1 < fuel) :=
                fun _ _ h f => by have := phi_frm c.n f; omega
              refine fsmEvent_G (K2 := fun s => phi c.n s + 1 < fuel) hk hk2 (fun _ h => by omega) hf ih b d
                s.stack ?_ _ _ data hK3 ?_ rfl
              · intro s' wb h'
                unfold fsmWindow
                apply winBody_G hk hf ih
                have := phi_window c.n s' d (⟨d, .window⟩ :: s.stack)
                omega
              · intro s3 hK3 hfa
                have hfa : s3.fsmActive d = false := hfa
                have := countP_flip (List.range c.n) List.nodup_range d hmem
                  (fun x => !s3.fsmActive x) (fun x => !upd s3.fsmActive d true x) (by simp [hfa])
                  (by simp [upd]) (fun x hx => by simp [upd, hx])
                have hK3' : phi c.n s3 < fuel := hK3
                unfold phi at hK3' ⊢
                simp only [] at this hK3' ⊢
                omega
            · split
              · exact inHandler_G d s.stack _ data _ (repeatEvent_G hk hf ih b d _ _ data hK3)
              · split
                · exact NoOOF.leaf _ _ (by simp)
                · split
                  · exact NoOOF.leaf _ _ (by simp)
                  · exact inHandler_G d s.stack _ data _ (handlerBody_G hk hf ih b d _ _ data hK3)

/-- `Circ.fuel` is enough in every state -/
theorem deliver_fuel (c : Circ) (s : St) (d : Nat) (et : EType) (data : Data) :
    (deliver c c.fuel s d et data).2 ≠ .exc .outOfFuel :=
  deliver_G c c.fuel s d et data (by unfold Circ.fuel; have := phi_le c.n s; omega)

/-! ### the top level: initialisation loop -/

theorem initLoop_frm (c : Circ) (s : St) (ds : List Nat) : Frm s (initLoop c s ds).1 := by
  induction ds generalizing s with
  | nil => exact Frm.refl s
  | cons d ds ih =>
    unfold initLoop
    split
    · exact Frm.refl s
    · split
      · exact andThen_frm (initBlock_frm (deliver_frm c _) ..) (ih _)
      · exact ih s

theorem initAll_frm (c : Circ) (s : St) : Frm s (initAll c s).1 := by
  unfold initAll
  have h := initLoop_frm c s (List.range c.n)
  split
  · next s1 x heq => rw [heq] at h; exact h.trans (abort_frm _ _)
  · next s1 v heq =>
    rw [heq] at h
    split
    · exact h
    · exact h.trans (abort_frm _ _)

theorem abort_good (s : St) (e : Exc) (h : Good s) : Good (s.abort e) := by
  unfold St.abort; split <;> exact h

theorem initLoop_good (c : Circ) (s : St) (ds : List Nat) (h : Good s) : Good (initLoop c s ds).1 := by
  induction ds generalizing s with
  | nil => exact h
  | cons d ds ih =>
    unfold initLoop
    split
    · exact h
    · split
      · exact andThen_P (initBlock_P good_stPred (deliver_good c _) _ _ _ h) (ih _)
      · exact ih s h

theorem initAll_good (c : Circ) (s : St) (h : Good s) : Good (initAll c s).1 := by
  unfold initAll
  have h1 := initLoop_good c s (List.range c.n) h
  split
  · next s1 x heq => rw [heq] at h1; exact abort_good _ _ h1
  · next s1 v heq =>
    rw [heq] at h1
    split
    · exact h1
    · exact abort_good _ _ h1

/-! ### the main task of a Repeat block: a repetition is a top-level delivery -/

theorem resendBody_frm {dlv : Dlv} (h : DFrm dlv) (b : Blk) (d : Nat) (s : St) (data : Data) (rep : Nat) :
    Frm s (resendBody dlv b d s data rep).1 := by
  unfold resendBody
  exact andThen_frm ((upd_rcur_frm s _).trans (setOutput_frm h ..)) (sendEdges_frm h ..)

theorem taskOutcome_frm (d : Nat) (p : St × Res) : Frm p.1 (taskOutcome d p).1 := by
  unfold taskOutcome
  split
  · exact Frm.refl _
  · exact (abort_frm _ _).trans (upd_rcur_frm _ _)
  · exact Frm.refl _

theorem resend_frm (c : Circ) (s : St) (d : Nat) (p : St × Res) (h : resend c s d = some p) :
    Frm s p.1 := by
  unfold resend at h
  split at h
  · split at h
    · cases h
      exact (resendBody_frm (deliver_frm c _) ..).trans (taskOutcome_frm _ _)
    · cases h
  · cases h

theorem resendBody_P {P : St → Prop} {dlv : Dlv} (hp : StPred P) (h : DP P dlv) (b : Blk) (d : Nat)
    (s : St) (data : Data) (rep : Nat) (hs : P s) : P (resendBody dlv b d s data rep).1 := by
  unfold resendBody
  exact andThen_P (setOutput_P hp h _ _ _ _ (hp s _ hs rfl rfl rfl rfl)) (fun h1 => sendEdges_P h _ _ _ _ h1)

theorem taskOutcome_good (d : Nat) (p : St × Res) (h : Good p.1) : Good (taskOutcome d p).1 := by
  unfold taskOutcome
  split
  · exact h
  · exact good_stPred _ _ (abort_good _ _ h) rfl rfl rfl rfl
  · exact h

theorem taskOutcome_refAbort (d : Nat) (p : St × Res) (h : RefAbort p.1) : RefAbort (taskOutcome d p).1 := by
  unfold taskOutcome
  split
  · exact h
  · exact fun _ => abort_error _ _
  · exact h

theorem resend_good (c : Circ) (s : St) (d : Nat) (p : St × Res) (h : resend c s d = some p)
    (hg : Good s) : Good p.1 := by
  unfold resend at h
  split at h
  · split at h
    · cases h
      exact taskOutcome_good _ _ (resendBody_P good_stPred (deliver_good c _) _ _ _ _ _ hg)
    · cases h
  · cases h

theorem resend_refAbort (c : Circ) (s : St) (d : Nat) (p : St × Res) (h : resend c s d = some p)
    (hg : RefAbort s) : RefAbort p.1 := by
  unfold resend at h
  split at h
  · split at h
    · cases h
      exact taskOutcome_refAbort _ _ (resendBody_P refAbort_stPred (deliver_refAbort c _) _ _ _ _ _ hg)
    · cases h
  · cases h

/-- no block is handling an event, no `event()` frame exists -/
def Idle (s : St) : Prop := (∀ d, s.active d = false) ∧ s.stack = []

theorem Idle.inv {s : St} (h : Idle s) : Inv s := by
  intro x; rw [h.1 x, h.2]; simp

theorem Idle.of_frm {s s' : St} (h : Idle s) (f : Frm s s') : Idle s' :=
  ⟨fun d => by rw [f.active]; exact h.1 d, f.stack.trans h.2⟩

end Edzed.Dispatch
