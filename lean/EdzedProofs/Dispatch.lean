/-
Helper lemmas for C11 (EdzedModel/Dispatch.lean).

All statements about `deliver` are proved by induction on the fuel; the functions a handler is
made of (`sendEdges`, `setOutput`, `runActs`, `handlerBody`, `initBlock`, `earlyInit`,
`callHandler`, `eventBody`) get one lemma each, parametrised by the corresponding hypothesis on
the recursive call `dlv`.
-/
import EdzedModel.Dispatch

namespace Edzed.Dispatch

/-! ### `upd` -/

theorem upd_same {α : Type} (f : Nat → α) (i : Nat) (v : α) : upd f i v i = v := by simp [upd]

theorem upd_other {α : Type} (f : Nat → α) (i j : Nat) (v : α) (h : j ≠ i) : upd f i v j = f j := by
  simp [upd, h]

theorem upd_upd {α : Type} (f : Nat → α) (i : Nat) (v w : α) : upd (upd f i v) i w = upd f i w := by
  funext j; unfold upd; by_cases h : j = i <;> simp [h]

theorem upd_self {α : Type} (f : Nat → α) (i : Nat) : upd f i (f i) = f := by
  funext j; unfold upd; by_cases h : j = i <;> simp [h]

/-- set and clear the guard of a block that was not active: the flags are as before -/
theorem upd_restore (f : Nat → Bool) (i : Nat) (h : f i = false) : upd (upd f i true) i false = f := by
  rw [upd_upd, ← h, upd_self]

/-! ### the frame: what a call of `event()` leaves as it was -/

/-- `s'` is a state reached from `s` by complete calls of `event()`: flags and stack are the
    same, an error is never withdrawn, a started initialisation never becomes pending again -/
structure Frm (s s' : St) : Prop where
  active : s'.active = s.active
  stack : s'.stack = s.stack
  error : s.error.isSome → s'.error.isSome
  init : ∀ x, s'.init x = .pending → s.init x = .pending

theorem Frm.refl (s : St) : Frm s s := ⟨rfl, rfl, id, fun _ h => h⟩

theorem Frm.trans {a b c : St} (h1 : Frm a b) (h2 : Frm b c) : Frm a c :=
  ⟨h2.active.trans h1.active, h2.stack.trans h1.stack, fun h => h2.error (h1.error h),
   fun x h => h1.init x (h2.init x h)⟩

def DFrm (dlv : Dlv) : Prop := ∀ s d et data, Frm s (dlv s d et data).1

theorem abort_frm (s : St) (e : Exc) : Frm s (s.abort e) := by
  unfold St.abort
  split
  · exact Frm.refl s
  · exact ⟨rfl, rfl, fun _ => rfl, fun _ h => h⟩

theorem abort_trace (s : St) (e : Exc) : (s.abort e).trace = s.trace := by
  unfold St.abort; split <;> rfl

theorem abort_stack (s : St) (e : Exc) : (s.abort e).stack = s.stack := by
  unfold St.abort; split <;> rfl

theorem abort_error (s : St) (e : Exc) : (s.abort e).error.isSome := by
  unfold St.abort; split <;> simp_all

theorem swallow_fst (p : St × Res) : (swallow p).1 = p.1 := by
  unfold swallow; repeat' split
  all_goals rfl

theorem classify_frm (s : St) (r : Res) : Frm s (classify s r) := by
  unfold classify
  split <;> first | exact Frm.refl s | exact abort_frm s _

theorem andThen_frm {s : St} {p : St × Res} {k : St → St × Res}
    (h1 : Frm s p.1) (h2 : Frm p.1 (k p.1).1) : Frm s (andThen p k).1 := by
  unfold andThen
  split
  · exact h1
  · exact h1.trans h2

theorem sendEdges_frm {dlv : Dlv} (h : DFrm dlv) (src : Nat) (s : St) (es : List Edge) (data : Data) :
    Frm s (sendEdges dlv src s es data).1 := by
  induction es generalizing s with
  | nil => exact Frm.refl s
  | cons e es ih =>
    unfold sendEdges
    split
    · exact ih s
    · exact andThen_frm (h ..) (ih _)

theorem setOutput_frm {dlv : Dlv} (h : DFrm dlv) (b : Blk) (d : Nat) (s : St) (v : Val) :
    Frm s (setOutput dlv b d s v).1 := by
  unfold setOutput
  split
  · exact Frm.refl s
  · simp only []
    split
    · exact sendEdges_frm h ..
    · have h0 : Frm s { s with out := upd s.out d v } := ⟨rfl, rfl, id, fun _ h => h⟩
      exact andThen_frm (h0.trans (sendEdges_frm h ..)) (sendEdges_frm h ..)

theorem runAct_frm {dlv : Dlv} (h : DFrm dlv) (b : Blk) (d : Nat) (s : St) (a : Act) :
    Frm s (runAct dlv b d s a).1 := by
  cases a with
  | setOut v => exact setOutput_frm h ..
  | send i v =>
    simp only [runAct]
    split
    · exact Frm.refl s
    · exact sendEdges_frm h ..
  | trySend i v =>
    simp only [runAct]
    split
    · exact Frm.refl s
    · rw [swallow_fst]; exact sendEdges_frm h ..
  | raise => exact Frm.refl s
  | rawEvent x et => exact h ..

theorem runActs_frm {dlv : Dlv} (h : DFrm dlv) (b : Blk) (d : Nat) (s : St) (as : List Act) :
    Frm s (runActs dlv b d s as).1 := by
  induction as generalizing s with
  | nil => exact Frm.refl s
  | cons a as ih =>
    unfold runActs
    exact andThen_frm (runAct_frm h ..) (ih _)

theorem handlerBody_frm {dlv : Dlv} (h : DFrm dlv) (b : Blk) (d : Nat) (s : St) (name : String)
    (data : Data) : Frm s (handlerBody dlv b d s name data).1 := by
  unfold handlerBody
  repeat' split
  all_goals first
    | exact Frm.refl s
    | exact runActs_frm h ..
    | exact andThen_frm (setOutput_frm h ..) (Frm.refl _)
    | exact andThen_frm (sendEdges_frm h ..) (Frm.refl _)

theorem upd_init_frm (s : St) (d : Nat) (v : InitSt) (hv : v ≠ .pending) :
    Frm s { s with init := upd s.init d v } := by
  refine ⟨rfl, rfl, id, fun x hx => ?_⟩
  by_cases hxd : x = d
  · subst hxd; simp [upd] at hx; exact absurd hx hv
  · simpa [upd, hxd] using hx

theorem initRegular_frm {dlv : Dlv} (h : DFrm dlv) (b : Blk) (d : Nat) (s : St) :
    Frm s (initRegular dlv b d s).1 := by
  unfold initRegular
  split
  · exact runActs_frm h ..
  · exact setOutput_frm h ..
  · exact Frm.refl s

theorem initFromValue_frm {dlv : Dlv} (h : DFrm dlv) (b : Blk) (d : Nat) (s : St) :
    Frm s (initFromValue dlv b d s).1 := by
  unfold initFromValue
  repeat' split
  all_goals first
    | exact Frm.refl s
    | exact h ..
    | exact setOutput_frm h ..

theorem initBlock_frm {dlv : Dlv} (h : DFrm dlv) (b : Blk) (d : Nat) (s : St) :
    Frm s (initBlock dlv b d s).1 := by
  unfold initBlock
  exact andThen_frm ((upd_init_frm s d .running (by decide)).trans (initRegular_frm h ..))
    (andThen_frm (initFromValue_frm h ..) (upd_init_frm _ d .done (by decide)))

theorem earlyInit_frm {dlv : Dlv} (h : DFrm dlv) (b : Blk) (d : Nat) (stk0 : List Frame) (s : St)
    (hs : s.stack = stk0) : Frm s (earlyInit dlv b d stk0 s).1 := by
  unfold earlyInit
  split
  · have h1 := initBlock_frm h b d { s with active := upd s.active d false, stack := ⟨d, .init⟩ :: stk0 }
    refine ⟨?_, hs.symm, h1.error, h1.init⟩
    simp only [h1.active, upd_upd, upd_self]
  · exact Frm.refl s

theorem pop_frm {s s4 p1 : St} (stk0 : List Frame) (t : List TItem) (ha : s4.active = s.active)
    (he : s4.error = s.error) (hi : s4.init = s.init) (h1 : Frm s4 p1) (hs : s.stack = stk0) :
    Frm s { p1 with stack := stk0, trace := t } :=
  ⟨h1.active.trans ha, hs.symm, fun h => h1.error (he ▸ h), fun x h => hi ▸ h1.init x h⟩

theorem callHandler_frm {dlv : Dlv} (h : DFrm dlv) (b : Blk) (d : Nat) (stk0 : List Frame) (s : St)
    (et : EType) (data : Data) (hs : s.stack = stk0) : Frm s (callHandler dlv b d stk0 s et data).1 := by
  unfold callHandler
  split
  · exact Frm.refl s
  · split
    · exact Frm.refl s
    · simp only []
      refine Frm.trans ?_ (classify_frm _ _)
      refine pop_frm stk0 _ ?_ ?_ ?_ (handlerBody_frm h ..) hs <;> rfl

theorem eventBody_frm {dlv : Dlv} (h : DFrm dlv) (b : Blk) (d : Nat) (stk0 : List Frame) (s : St)
    (et : EType) (data : Data) (hs : s.stack = stk0) : Frm s (eventBody dlv b d stk0 s et data).1 := by
  unfold eventBody
  simp only []
  split
  · exact Frm.refl s
  · have h1 := earlyInit_frm h b d stk0 s hs
    exact andThen_frm h1 (callHandler_frm h b d stk0 _ _ data (h1.stack.trans hs))

/-- every call of `event()` – whatever its outcome – returns with all guards and the stack as they
    were, keeps an error and never resets a started initialisation -/
theorem deliver_frm (c : Circ) (fuel : Nat) : DFrm (deliver c fuel) := by
  induction fuel with
  | zero => intro s d et data; exact Frm.refl s
  | succ fuel ih =>
    intro s d et data
    unfold deliver
    split
    · exact Frm.refl s
    · split
      · exact Frm.refl s
      · split
        · have h := abort_frm s .circuitError
          exact ⟨h.active, h.stack, h.error, h.init⟩
        · next b _ _ _ hact =>
          have h1 := eventBody_frm ih b d s.stack { s with active := upd s.active d true } et data rfl
          refine ⟨?_, h1.stack, h1.error, h1.init⟩
          simp only [h1.active]
          exact upd_restore _ _ (by simpa using hact)

/-! ### generic traversal for a predicate on states that ignores `out` and `init` -/

structure StPred (P : St → Prop) : Prop where
  out : ∀ (s : St) f, P s → P { s with out := f }
  init : ∀ (s : St) f, P s → P { s with init := f }

def DP (P : St → Prop) (dlv : Dlv) : Prop := ∀ s d et data, P s → P (dlv s d et data).1

section generic
variable {P : St → Prop} {dlv : Dlv}

theorem andThen_P {p : St × Res} {k : St → St × Res} (h1 : P p.1) (h2 : P p.1 → P (k p.1).1) :
    P (andThen p k).1 := by
  unfold andThen
  split
  · exact h1
  · exact h2 h1

theorem sendEdges_P (h : DP P dlv) (src : Nat) (s : St) (es : List Edge) (data : Data) (hs : P s) :
    P (sendEdges dlv src s es data).1 := by
  induction es generalizing s with
  | nil => exact hs
  | cons e es ih =>
    unfold sendEdges
    split
    · exact ih s hs
    · exact andThen_P (h _ _ _ _ hs) (ih _)

theorem setOutput_P (hp : StPred P) (h : DP P dlv) (b : Blk) (d : Nat) (s : St) (v : Val) (hs : P s) :
    P (setOutput dlv b d s v).1 := by
  unfold setOutput
  split
  · exact hs
  · simp only []
    split
    · exact sendEdges_P h _ _ _ _ hs
    · exact andThen_P (sendEdges_P h _ _ _ _ (hp.out s _ hs)) (sendEdges_P h _ _ _ _)

theorem runAct_P (hp : StPred P) (h : DP P dlv) (b : Blk) (d : Nat) (s : St) (a : Act) (hs : P s) :
    P (runAct dlv b d s a).1 := by
  cases a with
  | setOut v => exact setOutput_P hp h _ _ _ _ hs
  | send i v =>
    simp only [runAct]
    split
    · exact hs
    · exact sendEdges_P h _ _ _ _ hs
  | trySend i v =>
    simp only [runAct]
    split
    · exact hs
    · rw [swallow_fst]; exact sendEdges_P h _ _ _ _ hs
  | raise => exact hs
  | rawEvent x et => exact h _ _ _ _ hs

theorem runActs_P (hp : StPred P) (h : DP P dlv) (b : Blk) (d : Nat) (s : St) (as : List Act)
    (hs : P s) : P (runActs dlv b d s as).1 := by
  induction as generalizing s with
  | nil => exact hs
  | cons a as ih =>
    unfold runActs
    exact andThen_P (runAct_P hp h _ _ _ _ hs) (ih _)

theorem handlerBody_P (hp : StPred P) (h : DP P dlv) (b : Blk) (d : Nat) (s : St) (name : String)
    (data : Data) (hs : P s) : P (handlerBody dlv b d s name data).1 := by
  unfold handlerBody
  repeat' split
  all_goals first
    | exact hs
    | exact runActs_P hp h _ _ _ _ hs
    | exact andThen_P (setOutput_P hp h _ _ _ _ hs) (fun h => h)
    | exact andThen_P (sendEdges_P h _ _ _ _ hs) (fun h => h)

theorem initRegular_P (hp : StPred P) (h : DP P dlv) (b : Blk) (d : Nat) (s : St) (hs : P s) :
    P (initRegular dlv b d s).1 := by
  unfold initRegular
  split
  · exact runActs_P hp h _ _ _ _ hs
  · exact setOutput_P hp h _ _ _ _ hs
  · exact hs

theorem initFromValue_P (hp : StPred P) (h : DP P dlv) (b : Blk) (d : Nat) (s : St) (hs : P s) :
    P (initFromValue dlv b d s).1 := by
  unfold initFromValue
  repeat' split
  all_goals first
    | exact hs
    | exact h _ _ _ _ hs
    | exact setOutput_P hp h _ _ _ _ hs

theorem initBlock_P (hp : StPred P) (h : DP P dlv) (b : Blk) (d : Nat) (s : St) (hs : P s) :
    P (initBlock dlv b d s).1 := by
  unfold initBlock
  exact andThen_P (initRegular_P hp h _ _ _ (hp.init s _ hs))
    (fun h1 => andThen_P (initFromValue_P hp h _ _ _ h1) (fun h2 => hp.init _ _ h2))

end generic

/-! ### no nested handling -/

/-- consistency of guards and (ghost) stack: a block is locked iff its handler is running -/
def Inv (s : St) : Prop := ∀ x, s.active x = true ↔ (⟨x, .handler⟩ : Frame) ∈ s.stack

/-- nesting depth recorded at the entry of a handler: 1 = the block was not handling an event -/
def TItem.ok : TItem → Prop
  | .enter _ k _ => k = 1
  | _ => True

def TraceOk (s : St) : Prop := ∀ t ∈ s.trace, t.ok

def Good (s : St) : Prop := Inv s ∧ TraceOk s

theorem good_stPred : StPred Good := ⟨fun _ _ h => h, fun _ _ h => h⟩

theorem Inv.of_frm {s s' : St} (h : Inv s) (f : Frm s s') : Inv s' := by
  intro x; rw [f.active, f.stack]; exact h x

theorem handlerDepth_zero {stk : List Frame} {d : Nat} (h : (⟨d, .handler⟩ : Frame) ∉ stk) :
    handlerDepth stk d = 0 := by
  unfold handlerDepth
  rw [List.countP_eq_zero]
  intro f hf hp
  apply h
  have : f = ⟨d, .handler⟩ := by
    cases f with
    | mk b ph => simp at hp; simp [hp.1, hp.2]
  exact this ▸ hf

theorem eventBody_ok {dlv : Dlv} (hf : DFrm dlv) (h : DP Good dlv) (b : Blk) (d : Nat) (a0 : Nat → Bool)
    (stk0 : List Frame) (s1 : St) (et : EType) (data : Data)
    (hinv : ∀ x, a0 x = true ↔ (⟨x, .handler⟩ : Frame) ∈ stk0) (hd : a0 d = false)
    (hact : s1.active = upd a0 d true) (hstk : s1.stack = stk0) (htr : TraceOk s1) :
    TraceOk (eventBody dlv b d stk0 s1 et data).1 := by
  unfold eventBody
  simp only []
  split
  · exact htr
  · -- early initialisation
    have hfe := earlyInit_frm hf b d stk0 s1 hstk
    have h1 : TraceOk (earlyInit dlv b d stk0 s1).1 := by
      unfold earlyInit
      split
      · have hg : Good { s1 with active := upd s1.active d false, stack := ⟨d, .init⟩ :: stk0 } := by
          refine ⟨fun x => ?_, htr⟩
          simp only [hact, upd_upd, ← hd, upd_self, List.mem_cons]
          rw [hinv x]
          constructor
          · exact fun h => Or.inr h
          · rintro (h | h)
            · cases h
            · exact h
        exact (initBlock_P good_stPred h b d _ hg).2
      · exact htr
    apply andThen_P (P := TraceOk) h1
    intro h1
    generalize (earlyInit dlv b d stk0 s1).1 = s3 at hfe h1
    -- the handler
    unfold callHandler
    split
    · exact h1
    · split
      · exact h1
      · simp only []
        have hnot : (⟨d, .handler⟩ : Frame) ∉ stk0 := fun hm => by
          have := (hinv d).2 hm; rw [hd] at this; cases this
        have hg : Good { s3 with
            trace := TItem.enter d (handlerDepth stk0 d + 1) (data.get? "value") :: s3.trace,
            stack := ⟨d, .handler⟩ :: stk0 } := by
          refine ⟨fun x => ?_, ?_⟩
          · simp only [hfe.active, hact, List.mem_cons]
            by_cases hx : x = d
            · subst hx; simp [upd]
            · simp only [upd, hx, if_false]
              rw [hinv x]
              constructor
              · exact fun h => Or.inr h
              · rintro (h | h)
                · exact absurd (by cases h; rfl) hx
                · exact h
          · intro t ht
            rcases List.mem_cons.1 ht with rfl | ht
            · simp [TItem.ok, handlerDepth_zero hnot]
            · exact h1 t ht
        have h5 := fun name => (handlerBody_P good_stPred h b d _ name data hg).2
        have h6 : ∀ (s6 : St) r, TraceOk s6 → TraceOk (classify s6 r) := by
          intro s6 r h
          unfold classify St.abort
          repeat' split
          all_goals exact h
        apply h6
        intro t ht
        rcases List.mem_cons.1 ht with rfl | ht
        · trivial
        · exact h5 _ t ht

/-- in every execution a handler is entered with nesting depth 1 -/
theorem deliver_good (c : Circ) (fuel : Nat) : DP Good (deliver c fuel) := by
  induction fuel with
  | zero => intro s d et data h; exact h
  | succ fuel ih =>
    intro s d et data hg
    refine ⟨hg.1.of_frm (deliver_frm c _ _ _ _ _), ?_⟩
    unfold deliver
    split
    · exact hg.2
    · split
      · exact hg.2
      · split
        · intro t ht
          rcases List.mem_cons.1 ht with rfl | ht
          · trivial
          · exact hg.2 t ht
        · next b _ _ _ hact =>
          exact eventBody_ok (deliver_frm c fuel) ih b d s.active s.stack _ et data hg.1
            (by simpa using hact) rfl rfl hg.2

/-! ### a refused recursive event stops the simulation -/

/-- the exception of a refused event either has already stopped the simulation or is still below
    a running handler (which will stop it) -/
def QS (stk : List Frame) (p : St × Res) : Prop :=
  p.2 = .exc .circuitError → p.1.error.isSome ∨ ∃ x, (⟨x, .handler⟩ : Frame) ∈ stk

def DQ (dlv : Dlv) : Prop := ∀ s d et data, Inv s → QS s.stack (dlv s d et data)

theorem QS.leaf (stk : List Frame) (s : St) (r : Res) (h : r ≠ .exc .circuitError) : QS stk (s, r) :=
  fun h' => absurd h' h

section refusal
variable {dlv : Dlv}

theorem andThen_Q {stk : List Frame} {p : St × Res} {k : St → St × Res}
    (h1 : QS stk p) (h2 : QS stk (k p.1)) : QS stk (andThen p k) := by
  unfold andThen
  split
  · next x hx => intro h; simp only [] at h; exact h1 (hx.trans h)
  · exact h2

theorem sendEdges_Q (hf : DFrm dlv) (hq : DQ dlv) (src : Nat) (stk : List Frame) (s : St)
    (es : List Edge) (data : Data) (hi : Inv s) (hs : s.stack = stk) :
    QS stk (sendEdges dlv src s es data) := by
  induction es generalizing s with
  | nil => exact QS.leaf _ _ _ (by simp)
  | cons e es ih =>
    unfold sendEdges
    split
    · exact ih s hi hs
    · next data' _ =>
      have f := hf s e.dest e.etype data'
      have h1 : QS stk (dlv s e.dest e.etype data') := by rw [← hs]; exact hq _ _ _ _ hi
      exact andThen_Q h1 (ih _ (hi.of_frm f) (f.stack.trans hs))

theorem setOutput_Q (hf : DFrm dlv) (hq : DQ dlv) (b : Blk) (d : Nat) (stk : List Frame) (s : St)
    (v : Val) (hi : Inv s) (hs : s.stack = stk) : QS stk (setOutput dlv b d s v) := by
  unfold setOutput
  split
  · exact QS.leaf _ _ _ (by simp)
  · simp only []
    split
    · exact sendEdges_Q hf hq _ _ _ _ _ hi hs
    · have hi0 : Inv { s with out := upd s.out d v } := hi
      have f := sendEdges_frm hf d { s with out := upd s.out d v } b.onOutput
        [("trigger", .str "output"), ("previous", s.out d), ("value", v)]
      exact andThen_Q (sendEdges_Q hf hq _ _ _ _ _ hi0 hs)
        (sendEdges_Q hf hq _ _ _ _ _ (hi0.of_frm f) (f.stack.trans hs))

theorem runAct_Q (hf : DFrm dlv) (hq : DQ dlv) (b : Blk) (d : Nat) (stk : List Frame) (s : St)
    (a : Act) (hi : Inv s) (hs : s.stack = stk) : QS stk (runAct dlv b d s a) := by
  cases a with
  | setOut v => exact setOutput_Q hf hq _ _ _ _ _ hi hs
  | send i v =>
    simp only [runAct]
    split
    · exact QS.leaf _ _ _ (by simp)
    · exact sendEdges_Q hf hq _ _ _ _ _ hi hs
  | trySend i v =>
    simp only [runAct]
    split
    · exact QS.leaf _ _ _ (by simp)
    · intro h
      unfold swallow at h
      repeat' split at h
      all_goals simp_all
  | raise => exact QS.leaf _ _ _ (by simp)
  | rawEvent x et => simp only [runAct]; rw [← hs]; exact hq _ _ _ _ hi

theorem runActs_Q (hf : DFrm dlv) (hq : DQ dlv) (b : Blk) (d : Nat) (stk : List Frame) (s : St)
    (as : List Act) (hi : Inv s) (hs : s.stack = stk) : QS stk (runActs dlv b d s as) := by
  induction as generalizing s with
  | nil => exact QS.leaf _ _ _ (by simp)
  | cons a as ih =>
    unfold runActs
    have f := runAct_frm hf b d s a
    exact andThen_Q (runAct_Q hf hq _ _ _ _ _ hi hs) (ih _ (hi.of_frm f) (f.stack.trans hs))

theorem initRegular_Q (hf : DFrm dlv) (hq : DQ dlv) (b : Blk) (d : Nat) (stk : List Frame) (s : St)
    (hi : Inv s) (hs : s.stack = stk) : QS stk (initRegular dlv b d s) := by
  unfold initRegular
  split
  · exact runActs_Q hf hq _ _ _ _ _ hi hs
  · exact setOutput_Q hf hq _ _ _ _ _ hi hs
  · exact QS.leaf _ _ _ (by simp)

theorem initFromValue_Q (hf : DFrm dlv) (hq : DQ dlv) (b : Blk) (d : Nat) (stk : List Frame) (s : St)
    (hi : Inv s) (hs : s.stack = stk) : QS stk (initFromValue dlv b d s) := by
  unfold initFromValue
  split
  · split
    · exact QS.leaf _ _ _ (by simp)
    · exact QS.leaf _ _ _ (by simp)
    · rw [← hs]; exact hq _ _ _ _ hi
    · exact setOutput_Q hf hq _ _ _ _ _ hi hs
  · exact QS.leaf _ _ _ (by simp)

theorem initBlock_Q (hf : DFrm dlv) (hq : DQ dlv) (b : Blk) (d : Nat) (stk : List Frame) (s : St)
    (hi : Inv s) (hs : s.stack = stk) : QS stk (initBlock dlv b d s) := by
  unfold initBlock
  have hi0 : Inv { s with init := upd s.init d .running } := hi
  have f := initRegular_frm hf b d { s with init := upd s.init d .running }
  refine andThen_Q (initRegular_Q hf hq b d stk _ hi0 hs) ?_
  exact andThen_Q (initFromValue_Q hf hq b d stk _ (hi0.of_frm f) (f.stack.trans hs))
    (QS.leaf _ _ _ (by simp))

end refusal

theorem mem_init_cons {x d : Nat} {stk : List Frame} :
    (⟨x, .handler⟩ : Frame) ∈ (⟨d, .init⟩ : Frame) :: stk ↔ (⟨x, .handler⟩ : Frame) ∈ stk := by
  simp

theorem classify_aborts (s : St) (e : Exc) (h1 : e ≠ .unknownEvent) (h2 : e ≠ .outOfFuel) :
    (classify s (.exc e)).error.isSome := by
  cases e <;> simp_all [classify, St.abort] <;> split <;> simp_all

theorem deliver_Q (c : Circ) (fuel : Nat) : DQ (deliver c fuel) := by
  induction fuel with
  | zero => intro s d et data _; exact QS.leaf _ _ _ (by simp)
  | succ fuel ih =>
    intro s d et data hi
    have hf := deliver_frm c fuel
    unfold deliver
    split
    · exact QS.leaf _ _ _ (by simp)
    · split
      · next x hx =>
        refine QS.leaf _ _ _ ?_
        cases et <;> simp [EType.check] at hx <;> subst hx <;> simp
      · split
        · next hact => exact fun _ => Or.inr ⟨d, (hi d).1 hact⟩
        · next b _ _ _ hact =>
          have hd : s.active d = false := by simpa using hact
          intro hr
          simp only [] at hr ⊢
          -- the body of `event()`
          revert hr
          unfold eventBody
          simp only []
          split
          · intro hr; cases hr
          · -- early initialisation
            have hie : QS s.stack (earlyInit (deliver c fuel) b d s.stack
                { s with active := upd s.active d true }) := by
              unfold earlyInit
              split
              · have hi2 : Inv { s with active := upd (upd s.active d true) d false, stack := ⟨d, .init⟩ :: s.stack } := by
                  intro x
                  simp only [upd_upd, ← hd, upd_self, mem_init_cons]
                  exact hi x
                have h3 := initBlock_Q hf ih b d _ _ hi2 rfl
                intro hr
                rcases h3 hr with h | ⟨x, hx⟩
                · exact Or.inl h
                · exact Or.inr ⟨x, mem_init_cons.1 hx⟩
              · exact QS.leaf _ _ _ (by simp)
            unfold andThen
            split
            · next x hx =>
              intro hr
              simp only [Res.exc.injEq] at hr
              subst hr
              exact hie hx
            · -- the handler: a CircuitError that leaves it has called abort()
              unfold callHandler
              split
              · intro hr; simp at hr
              · split
                · intro hr; simp at hr
                · intro hr
                  simp only [] at hr ⊢
                  left
                  rw [hr]
                  exact classify_aborts _ _ (by simp) (by simp)

/-! ### a refusal stops the simulation, whatever the handlers on the stack do with the exception -/

/-- if an event was refused by a busy block, `Circuit.error` is set -/
def RefAbort (s : St) : Prop := (∃ x, TItem.refused x ∈ s.trace) → s.error.isSome

theorem refAbort_stPred : StPred RefAbort := ⟨fun _ _ h => h, fun _ _ h => h⟩

theorem classify_trace (s : St) (r : Res) : (classify s r).trace = s.trace := by
  unfold classify
  split <;> first | rfl | exact abort_trace _ _

theorem RefAbort.cons {s : St} (h : RefAbort s) (t : TItem) (ht : ∀ x, t ≠ .refused x)
    (s' : St) (htr : s'.trace = t :: s.trace) (he : s'.error = s.error) : RefAbort s' := by
  intro ⟨x, hx⟩
  rw [htr] at hx
  rw [he]
  rcases List.mem_cons.1 hx with hx | hx
  · exact absurd hx.symm (ht x)
  · exact h ⟨x, hx⟩

theorem deliver_refAbort (c : Circ) (fuel : Nat) : DP RefAbort (deliver c fuel) := by
  induction fuel with
  | zero => intro s d et data h; exact h
  | succ fuel ih =>
    intro s d et data hs
    unfold deliver
    split
    · exact hs
    · split
      · exact hs
      · split
        · exact fun _ => abort_error s _
        · next b _ _ _ _ =>
          show RefAbort (eventBody (deliver c fuel) b d s.stack { s with active := upd s.active d true } et data).1
          have hs1 : RefAbort { s with active := upd s.active d true } := hs
          generalize ({ s with active := upd s.active d true } : St) = s1 at hs1
          unfold eventBody
          simp only []
          split
          · exact hs1
          · have he : RefAbort (earlyInit (deliver c fuel) b d s.stack s1).1 := by
              unfold earlyInit
              split
              · exact initBlock_P (P := RefAbort) refAbort_stPred ih b d _ hs1
              · exact hs1
            refine andThen_P he ?_
            intro he
            generalize (earlyInit (deliver c fuel) b d s.stack s1).1 = s3 at he
            unfold callHandler
            split
            · exact he
            · split
              · exact he
              · simp only []
                have h4 := he.cons (.enter d (handlerDepth s.stack d + 1) (data.get? "value")) (by intro x; simp)
                  { s3 with trace := TItem.enter d (handlerDepth s.stack d + 1) (data.get? "value") :: s3.trace, stack := ⟨d, .handler⟩ :: s.stack } rfl rfl
                have h5 := fun name => handlerBody_P refAbort_stPred ih b d _ name data h4
                intro ⟨x, hx⟩
                rw [classify_trace] at hx
                apply (classify_frm _ _).error
                exact (h5 _).cons _ (by intro x; simp) _ rfl rfl ⟨x, hx⟩

/-! ### fuel: the nesting depth of `event()` calls is bounded by the circuit -/

def NoOOF (p : St × Res) : Prop := p.2 ≠ .exc .outOfFuel

def DG (K : St → Prop) (dlv : Dlv) : Prop := ∀ s d et data, K s → NoOOF (dlv s d et data)

/-- `K` is kept by everything complete calls of `event()` do to a state -/
def KClosed (K : St → Prop) : Prop := ∀ s s', K s → Frm s s' → K s'

theorem NoOOF.leaf (s : St) (r : Res) (h : r ≠ .exc .outOfFuel) : NoOOF (s, r) := h

section fuel
variable {K : St → Prop} {dlv : Dlv}

theorem andThen_G {p : St × Res} {k : St → St × Res} (h1 : NoOOF p) (h2 : NoOOF (k p.1)) :
    NoOOF (andThen p k) := by
  unfold andThen
  split
  · next x hx => intro h; simp only [] at h; exact h1 (hx.trans h)
  · exact h2

theorem sendEdges_G (hk : KClosed K) (hf : DFrm dlv) (hg : DG K dlv) (src : Nat) (s : St)
    (es : List Edge) (data : Data) (h : K s) : NoOOF (sendEdges dlv src s es data) := by
  induction es generalizing s with
  | nil => exact NoOOF.leaf _ _ (by simp)
  | cons e es ih =>
    unfold sendEdges
    split
    · exact ih s h
    · exact andThen_G (hg _ _ _ _ h) (ih _ (hk _ _ h (hf ..)))

theorem setOutput_G (hk : KClosed K) (hf : DFrm dlv) (hg : DG K dlv) (b : Blk) (d : Nat) (s : St)
    (v : Val) (h : K s) : NoOOF (setOutput dlv b d s v) := by
  unfold setOutput
  split
  · exact NoOOF.leaf _ _ (by simp)
  · simp only []
    split
    · exact sendEdges_G hk hf hg _ _ _ _ h
    · have h0 : K { s with out := upd s.out d v } := hk _ _ h ⟨rfl, rfl, id, fun _ h => h⟩
      exact andThen_G (sendEdges_G hk hf hg _ _ _ _ h0)
        (sendEdges_G hk hf hg _ _ _ _ (hk _ _ h0 (sendEdges_frm hf ..)))

theorem runAct_G (hk : KClosed K) (hf : DFrm dlv) (hg : DG K dlv) (b : Blk) (d : Nat) (s : St)
    (a : Act) (h : K s) : NoOOF (runAct dlv b d s a) := by
  cases a with
  | setOut v => exact setOutput_G hk hf hg _ _ _ _ h
  | send i v =>
    simp only [runAct]
    split
    · exact NoOOF.leaf _ _ (by simp)
    · exact sendEdges_G hk hf hg _ _ _ _ h
  | trySend i v =>
    simp only [runAct]
    split
    · exact NoOOF.leaf _ _ (by simp)
    · next e _ =>
      have h1 := sendEdges_G hk hf hg d s [e] (match v with | some v => [("value", v)] | Option.none => []) h
      intro h2
      unfold swallow at h2
      repeat' split at h2
      all_goals simp_all [NoOOF]
  | raise => exact NoOOF.leaf _ _ (by simp)
  | rawEvent x et => exact hg _ _ _ _ h

theorem runActs_G (hk : KClosed K) (hf : DFrm dlv) (hg : DG K dlv) (b : Blk) (d : Nat) (s : St)
    (as : List Act) (h : K s) : NoOOF (runActs dlv b d s as) := by
  induction as generalizing s with
  | nil => exact NoOOF.leaf _ _ (by simp)
  | cons a as ih =>
    unfold runActs
    exact andThen_G (runAct_G hk hf hg _ _ _ _ h) (ih _ (hk _ _ h (runAct_frm hf ..)))

theorem handlerBody_G (hk : KClosed K) (hf : DFrm dlv) (hg : DG K dlv) (b : Blk) (d : Nat) (s : St)
    (name : String) (data : Data) (h : K s) : NoOOF (handlerBody dlv b d s name data) := by
  unfold handlerBody
  split
  · split
    · exact runActs_G hk hf hg _ _ _ _ h
    · split
      · exact runActs_G hk hf hg _ _ _ _ h
      · split
        · exact runActs_G hk hf hg _ _ _ _ h
        · exact NoOOF.leaf _ _ (by simp)
  · split
    · exact NoOOF.leaf _ _ (by simp)
    · split
      · exact NoOOF.leaf _ _ (by simp)
      · exact andThen_G (setOutput_G hk hf hg _ _ _ _ h) (NoOOF.leaf _ _ (by simp))
  · split
    · next x hx =>
      have : x ≠ .outOfFuel := by
        unfold counterResult at hx
        repeat' split at hx
        all_goals simp at hx
        all_goals subst hx
        all_goals simp
      exact NoOOF.leaf _ _ (by simpa using this)
    · exact andThen_G (setOutput_G hk hf hg _ _ _ _ h) (NoOOF.leaf _ _ (by simp))
  · split
    · exact NoOOF.leaf _ _ (by simp)
    · split
      · exact andThen_G (sendEdges_G hk hf hg _ _ _ _ h) (NoOOF.leaf _ _ (by simp))
      · exact andThen_G (sendEdges_G hk hf hg _ _ _ _ h) (NoOOF.leaf _ _ (by simp))

theorem initRegular_G (hk : KClosed K) (hf : DFrm dlv) (hg : DG K dlv) (b : Blk) (d : Nat) (s : St)
    (h : K s) : NoOOF (initRegular dlv b d s) := by
  unfold initRegular
  split
  · exact runActs_G hk hf hg _ _ _ _ h
  · exact setOutput_G hk hf hg _ _ _ _ h
  · exact NoOOF.leaf _ _ (by simp)

theorem initFromValue_G (hk : KClosed K) (hf : DFrm dlv) (hg : DG K dlv) (b : Blk) (d : Nat) (s : St)
    (h : K s) : NoOOF (initFromValue dlv b d s) := by
  unfold initFromValue
  split
  · split
    · exact NoOOF.leaf _ _ (by simp)
    · exact NoOOF.leaf _ _ (by simp)
    · exact hg _ _ _ _ h
    · exact setOutput_G hk hf hg _ _ _ _ h
  · exact NoOOF.leaf _ _ (by simp)

theorem initBlock_G (hk : KClosed K) (hf : DFrm dlv) (hg : DG K dlv) (b : Blk) (d : Nat) (s : St)
    (h : K { s with init := upd s.init d .running }) : NoOOF (initBlock dlv b d s) := by
  unfold initBlock
  refine andThen_G (initRegular_G hk hf hg b d _ h) ?_
  exact andThen_G (initFromValue_G hk hf hg b d _ (hk _ _ h (initRegular_frm hf ..)))
    (NoOOF.leaf _ _ (by simp))

end fuel

/-- blocks that can still enter `event()` plus blocks whose early initialisation can still open a
    window: every nested call of `event()` lowers this number -/
def phi (n : Nat) (s : St) : Nat :=
  (List.range n).countP (fun d => !s.active d) + (List.range n).countP (fun d => s.init d == .pending)

theorem countP_flip (l : List Nat) (hl : l.Nodup) (d : Nat) (hd : d ∈ l) (p p' : Nat → Bool)
    (hp : p d = true) (hp' : p' d = false) (hne : ∀ x, x ≠ d → p' x = p x) :
    l.countP p' + 1 = l.countP p := by
  induction l with
  | nil => cases hd
  | cons a l ih =>
    rw [List.nodup_cons] at hl
    by_cases had : a = d
    · subst had
      have : l.countP p' = l.countP p := by
        apply List.countP_congr
        intro x hx
        have : x ≠ a := fun h => hl.1 (h ▸ hx)
        rw [hne x this]
      simp [hp, hp', this]
    · have hd' : d ∈ l := by
        rcases List.mem_cons.1 hd with h | h
        · exact absurd h.symm had
        · exact h
      have := ih hl.2 hd'
      simp only [List.countP_cons, hne a had]
      omega

theorem phi_frm (n : Nat) {s s' : St} (f : Frm s s') : phi n s' ≤ phi n s := by
  unfold phi
  rw [f.active]
  apply Nat.add_le_add_left
  apply List.countP_mono_left
  intro x _ hx
  have := f.init x (by simpa using hx)
  simp [this]

theorem phi_le (n : Nat) (s : St) : phi n s ≤ 2 * n := by
  unfold phi
  have h1 := List.countP_le_length (p := fun d => !s.active d) (l := List.range n)
  have h2 := List.countP_le_length (p := fun d => s.init d == .pending) (l := List.range n)
  simp only [List.length_range] at h1 h2
  omega

theorem kclosed_phi (n k : Nat) : KClosed (fun s => phi n s < k) :=
  fun _ _ h f => Nat.lt_of_le_of_lt (phi_frm n f) h

theorem phi_stack_trace (n : Nat) (s : St) (stk : List Frame) (t : List TItem) :
    phi n { s with stack := stk, trace := t } = phi n s := rfl

/-- the nesting depth of `event()` calls below a state `s` is at most `phi s` -/
theorem deliver_G (c : Circ) (fuel : Nat) : DG (fun s => phi c.n s < fuel) (deliver c fuel) := by
  induction fuel with
  | zero => intro s d et data h; exact absurd h (Nat.not_lt_zero _)
  | succ fuel ih =>
    intro s d et data hK
    have hf := deliver_frm c fuel
    have hk := kclosed_phi c.n fuel
    unfold deliver
    split
    · exact NoOOF.leaf _ _ (by simp)
    · split
      · next x hx =>
        refine NoOOF.leaf _ _ ?_
        cases et <;> simp [EType.check] at hx <;> subst hx <;> simp
      · split
        · exact NoOOF.leaf _ _ (by simp)
        · next b hb _ _ hact =>
          have hd : s.active d = false := by simpa using hact
          have hdn : d < c.n := by
            unfold Circ.n
            rcases Nat.lt_or_ge d c.blocks.length with h | h
            · exact h
            · rw [List.getElem?_eq_none h] at hb; cases hb
          have hmem : d ∈ List.range c.n := List.mem_range.2 hdn
          -- one block less can enter `event()`
          have h1 : phi c.n { s with active := upd s.active d true } + 1 = phi c.n s := by
            unfold phi
            have := countP_flip (List.range c.n) List.nodup_range d hmem
              (fun x => !s.active x) (fun x => !upd s.active d true x) (by simp [hd]) (by simp [upd])
              (fun x hx => by simp [upd, hx])
            simp only [] at this ⊢
            omega
          have hK1 : phi c.n { s with active := upd s.active d true } < fuel := by omega
          show NoOOF (_, _)
          unfold NoOOF
          simp only []
          -- the body
          unfold eventBody
          simp only []
          split
          · simp
          · have hfe := earlyInit_frm hf b d s.stack { s with active := upd s.active d true } rfl
            have hge : NoOOF (earlyInit (deliver c fuel) b d s.stack { s with active := upd s.active d true }) := by
              unfold earlyInit
              split
              · next hp =>
                simp only [] at hp
                apply initBlock_G hk hf ih
                show phi c.n _ < fuel
                have h2 : phi c.n { s with active := upd (upd s.active d true) d false, init := upd s.init d .running, stack := ⟨d, .init⟩ :: s.stack } + 1 = phi c.n s := by
                  unfold phi
                  simp only [upd_restore _ _ hd]
                  have := countP_flip (List.range c.n) List.nodup_range d hmem
                    (fun x => s.init x == .pending) (fun x => upd s.init d .running x == .pending)
                    (by simp [hp]) (by simp [upd]) (fun x hx => by simp [upd, hx])
                  omega
                show phi c.n { s with active := upd (upd s.active d true) d false, init := upd s.init d .running, stack := ⟨d, .init⟩ :: s.stack } < fuel
                omega
              · exact NoOOF.leaf _ _ (by simp)
            refine andThen_G hge ?_
            have hK3 := hk _ _ hK1 hfe
            generalize (earlyInit (deliver c fuel) b d s.stack { s with active := upd s.active d true }).1 = s3 at hK3
            unfold callHandler
            split
            · exact NoOOF.leaf _ _ (by simp)
            · split
              · exact NoOOF.leaf _ _ (by simp)
              · exact handlerBody_G hk hf ih b d _ _ data hK3

/-- `Circ.fuel` is enough in every state -/
theorem deliver_fuel (c : Circ) (s : St) (d : Nat) (et : EType) (data : Data) :
    (deliver c c.fuel s d et data).2 ≠ .exc .outOfFuel :=
  deliver_G c c.fuel s d et data (by unfold Circ.fuel; have := phi_le c.n s; omega)

/-! ### the top level: initialisation loop -/

theorem initLoop_frm (c : Circ) (s : St) (ds : List Nat) : Frm s (initLoop c s ds).1 := by
  induction ds generalizing s with
  | nil => exact Frm.refl s
  | cons d ds ih =>
    unfold initLoop
    split
    · exact Frm.refl s
    · split
      · exact andThen_frm (initBlock_frm (deliver_frm c _) ..) (ih _)
      · exact ih s

theorem initAll_frm (c : Circ) (s : St) : Frm s (initAll c s).1 := by
  unfold initAll
  have h := initLoop_frm c s (List.range c.n)
  split
  · next s1 x heq => rw [heq] at h; exact h.trans (abort_frm _ _)
  · next s1 v heq =>
    rw [heq] at h
    split
    · exact h
    · exact h.trans (abort_frm _ _)

theorem abort_good (s : St) (e : Exc) (h : Good s) : Good (s.abort e) := by
  unfold St.abort; split <;> exact h

theorem initLoop_good (c : Circ) (s : St) (ds : List Nat) (h : Good s) : Good (initLoop c s ds).1 := by
  induction ds generalizing s with
  | nil => exact h
  | cons d ds ih =>
    unfold initLoop
    split
    · exact h
    · split
      · exact andThen_P (initBlock_P good_stPred (deliver_good c _) _ _ _ h) (ih _)
      · exact ih s h

theorem initAll_good (c : Circ) (s : St) (h : Good s) : Good (initAll c s).1 := by
  unfold initAll
  have h1 := initLoop_good c s (List.range c.n) h
  split
  · next s1 x heq => rw [heq] at h1; exact abort_good _ _ h1
  · next s1 v heq =>
    rw [heq] at h1
    split
    · exact h1
    · exact abort_good _ _ h1

/-- no block is handling an event, no `event()` frame exists -/
def Idle (s : St) : Prop := (∀ d, s.active d = false) ∧ s.stack = []

theorem Idle.inv {s : St} (h : Idle s) : Inv s := by
  intro x; rw [h.1 x, h.2]; simp

theorem Idle.of_frm {s s' : St} (h : Idle s) (f : Frm s s') : Idle s' :=
  ⟨fun d => by rw [f.active]; exact h.1 d, f.stack.trans h.2⟩

end Edzed.Dispatch
