/-
Tie by translation for C13: the definitions generated from the CURRENT source of
edzed/blocklib/timeinterval.py (EdzedModel/Gen/TranslatedInterval.lean) are the model's parser,
normaliser and renderer (EdzedModel/Interval.lean) when the primitives are the model's matchers
and library functions.  Core Lean only.
-/
import EdzedModel.Interval
import EdzedModel.Gen.TranslatedInterval
import EdzedProofs.Interval
import EdzedProofs.IntervalNotations

namespace Edzed.IntervalTie
open Edzed.Interval Edzed.Gen.TrIv

/-! ### the primitives, instantiated with the model -/

def matcher : Re → List Char → Option Match
  | .time => reTime
  | .ymd => reYMD
  | .year => reYear
  | .isoDm => reIsoDM
  | .month => reMonth
  | .day => reDay

/-- `pattern.search`: the leftmost position where the matcher succeeds; `i` = characters skipped so far -/
def findMatch (m : List Char → Option Match) : List Char → Nat → Option MatchObj
  | [], i => (m []).map fun mt => ⟨i, i, mt.groups⟩
  | c :: cs, i =>
    match m (c :: cs) with
    | some mt => some ⟨i, i + min mt.len (c :: cs).length, mt.groups⟩
    | none => findMatch m cs (i + 1)

def fmtHM : List Char := ['%', 'H', ':', '%', 'M']
def fmtHMS : List Char := ['%', 'H', ':', '%', 'M', ':', '%', 'S']
def fmtHMSdot : List Char := ['%', 'H', ':', '%', 'M', ':', '%', 'S', '.', '%', 'f']
def fmtHMScomma : List Char := ['%', 'H', ':', '%', 'M', ':', '%', 'S', ',', '%', 'f']

/-- which of the four `strptime` formats a string can only match (by its punctuation) -/
def fmtOf (s : List Char) : List Char :=
  if s.contains '.' then fmtHMSdot
  else if s.contains ',' then fmtHMScomma
  else if (s.filter (· == ':')).length ≥ 2 then fmtHMS
  else fmtHM

/-- the layout of the model's endpoint tuples: which attribute of the Python object each position holds -/
def attrLayout : Interval.Kind → List String
  | .time => ["hour", "minute", "second", "microsecond"]
  | .date => ["month", "day"]
  | .datetime => ["year", "month", "day", "hour", "minute", "second", "microsecond"]

/-- the model's library functions as primitives; `tzAware` = what `datetime.fromisoformat` does with a string
    that has a zone designator after a well-formed date (returns an aware value / raises) – not modelled -/
def modelPrims (tzAware : Bool) : IvPrims where
  reSearch re s := findMatch (matcher re) s 0
  strip := Interval.strip
  capitalize := Interval.capitalize
  split s sep := splitOn sep s
  contains a s := isInfix a s
  pyInt s := if !s.isEmpty && s.all isDigit then .ok (numOf s : Int) else .err .value
  timeFromIso s :=
    if hasTz (dropT s) then .ok ([], true)
    else match isoHMSF (dropT s) with
      | some e => if validTime e then .ok (e, false) else .err .value
      | none => .err .value
  datetimeFromIso s :=
    match isoDateTime s with
    | .ok e => .ok (e, false)
    | .fail => .err .value
    | .tz => if tzAware then .ok ([], true) else .err .value
    | .week => .unsupported
  strptime fmt s :=
    match strpTime s with
    | some e => if validTime e && fmtOf s == fmt then .ok e else .err .value
    | none => .err .value
  timeCtor l := (intsToNats l).bind fun e => checkEp .time (padZeros 4 e)
  dateCtor y l := if y = (Gen.dummyYear : Int) then (intsToNats l).bind fun e => checkEp .date e else .unsupported
  datetimeCtor l := (intsToNats l).bind fun e => checkEp .datetime (padZeros 7 e)
  getattr k name e :=
    match ((attrLayout k).zip e).lookup name with
    | some v => (v : Int)
    | none => 0
  field name e :=
    if name == "month" then (e.getD 0 0 : Nat) else if name == "day" then (e.getD 1 0 : Nat)
    else if name == "year" then (Gen.dummyYear : Nat) else 0      -- only dates (dummy year) have their fields read
  strEp k e := render k e
  strInt i := natStr i.toNat
  sorted := sortR

/-! ### `_match_pattern` -/

/-- the string with `[start, stop)` removed, as `_match_pattern` computes it -/
def pyRemove (full : List Char) (start stop : Nat) : List Char :=
  if start == 0 then full.drop stop
  else if stop == full.length then full.take start
  else pyJoin [' '] [full.take start, full.drop stop]

theorem drop_len_add (a b : List Char) (n : Nat) : (a ++ b).drop (a.length + n) = b.drop n := by
  induction a with
  | nil => simp
  | cons x a ih => simpa [Nat.succ_add] using ih

theorem searchGo_findMatch (m : List Char → Option Match) (pre s : List Char) :
    searchGo m pre s = (findMatch m s pre.length).map fun mo =>
      (pyRemove (pre.reverse ++ s) mo.start mo.stop, mo.groups) := by
  induction s generalizing pre with
  | nil =>
    simp only [searchGo, findMatch, Option.map_map]
    congr 1
    funext mt
    simp only [Function.comp, removeMatch, pyRemove, List.append_nil, List.length_reverse, beq_self_eq_true,
      ↓reduceIte, List.isEmpty_nil]
    cases pre with
    | nil => simp
    | cons x p =>
      simp only [List.isEmpty_cons, Bool.false_eq_true, ↓reduceIte, List.length_cons]
      have : (p.length + 1 == 0) = false := by simp
      simp only [this, Bool.false_eq_true, ↓reduceIte]
      rw [List.take_of_length_le (by simp)]
  | cons c cs ih =>
    simp only [searchGo, findMatch]
    cases hm : m (c :: cs) with
    | none =>
      simp only []
      rw [ih (c :: pre)]
      simp
    | some mt =>
      simp only [Option.map_some, Option.some.injEq, Prod.mk.injEq, and_true]
      simp only [removeMatch, pyRemove]
      have hdrop : (pre.reverse ++ c :: cs).drop (pre.length + min mt.len (c :: cs).length) =
          (c :: cs).drop mt.len := by
        rw [show pre.length = pre.reverse.length by simp, drop_len_add]
        by_cases h : mt.len ≤ (c :: cs).length
        · rw [Nat.min_eq_left h]
        · rw [Nat.min_eq_right (by omega), List.drop_of_length_le (Nat.le_refl _),
            List.drop_of_length_le (by omega)]
      cases pre with
      | nil =>
        simp only [List.isEmpty_nil, ↓reduceIte, List.length_nil, beq_self_eq_true, List.reverse_nil,
          List.nil_append, Nat.zero_add]
        have := hdrop
        simp only [List.length_nil, List.reverse_nil, List.nil_append, Nat.zero_add] at this
        exact this.symm
      | cons x p =>
        have h0 : ((x :: p).length == 0) = false := by simp
        simp only [List.isEmpty_cons, Bool.false_eq_true, ↓reduceIte, h0, hdrop]
        have htake : (((x :: p).reverse ++ c :: cs).take (x :: p).length) = (x :: p).reverse := by
          rw [show (x :: p).length = (x :: p).reverse.length by simp, List.take_left']
          rfl
        by_cases he : ((c :: cs).drop mt.len).isEmpty
        · have hlen : (c :: cs).length ≤ mt.len := by
            rw [List.isEmpty_iff] at he
            exact List.drop_eq_nil_iff.1 he
          have : ((x :: p).length + min mt.len (c :: cs).length ==
              ((x :: p).reverse ++ c :: cs).length) = true := by
            rw [Nat.min_eq_right hlen]
            simp only [List.length_append, List.length_reverse, List.length_cons, beq_iff_eq]
          simp only [he, ↓reduceIte, this, htake]
        · have hlen : mt.len < (c :: cs).length := by
            rw [List.isEmpty_iff, List.drop_eq_nil_iff] at he
            omega
          have : ((x :: p).length + min mt.len (c :: cs).length ==
              ((x :: p).reverse ++ c :: cs).length) = false := by
            rw [Nat.min_eq_left (Nat.le_of_lt hlen)]
            simp only [List.length_append, List.length_reverse, beq_eq_false_iff_ne, ne_eq]
            omega
          simp only [he, Bool.false_eq_true, ↓reduceIte, this, htake, pyJoin, List.append_assoc,
            List.singleton_append]

theorem search_findMatch (m : List Char → Option Match) (s : List Char) :
    search m s = (findMatch m s 0).map fun mo => (pyRemove s mo.start mo.stop, mo.groups) := by
  have := searchGo_findMatch m [] s
  simpa [search] using this

/-- the translated `_match_pattern` is the model's search-and-remove -/
theorem match_pattern_eq (c : Bool) (s : List Char) (re : Re) (msg : Option (List Char)) :
    match_pattern (modelPrims c) s re msg =
      match search (matcher re) s with
      | some (s', g) => .ok (s', some g)
      | none => if (match msg with | some v => !v.isEmpty | none => false) then .err .value else .ok (s, none) := by
  rw [search_findMatch]
  unfold match_pattern
  simp only [modelPrims]
  cases findMatch (matcher re) s 0 with
  | none => cases msg <;> simp
  | some mo =>
    simp only [Option.map_some, pyRemove]
    split <;> (try split) <;> rfl

/-! ### `_name_to_month` -/

theorem name_to_month_loop (cap : List Char) (l : List (List Char)) (i : Nat) :
    forReturn (enumerate l i) (fun ((j, month_name) : Int × List Char) =>
        if decide (j > (0 : Int)) then
          if cap.isPrefixOf month_name then (Res.ok (some j) : Res (Option Int)) else .ok none
        else .ok none)
      (fun _ => .err .value) =
    match findMonth cap l i with
    | some j => .ok (j : Int)
    | none => .err .value := by
  induction l generalizing i with
  | nil => rfl
  | cons x xs ih =>
    simp only [enumerate, forReturn, findMonth]
    by_cases h0 : i > 0
    · have h1 : decide ((i : Int) > 0) = true := by simp; omega
      by_cases hp : cap.isPrefixOf x = true
      · simp only [h1, hp, h0, decide_true, Bool.and_self, ↓reduceIte]
      · simp only [h1, hp, h0, decide_true, Bool.true_and, Bool.false_eq_true, ↓reduceIte]
        exact ih (i + 1)
    · have h1 : decide ((i : Int) > 0) = false := by simp; omega
      simp only [h1, h0, decide_false, Bool.false_and, Bool.false_eq_true, ↓reduceIte]
      exact ih (i + 1)

theorem name_to_month_eq (c : Bool) (name : List Char) :
    name_to_month (modelPrims c) name =
      match nameToMonth name with
      | some j => .ok (j : Int)
      | none => .err .value := by
  unfold name_to_month nameToMonth
  exact name_to_month_loop _ _ 0

/-! ### the sequence converters -/

theorem convertSeqOf_eq (c : Bool) (k : Interval.Kind) (l : List Int) :
    convertSeqOf (modelPrims c) k l = convertSeq k l := by
  cases k
  · simp only [convertSeqOf, convert_time_seq, convertSeq, modelPrims]
    by_cases h1 : 1 ≤ l.length <;> by_cases h2 : l.length ≤ 4 <;> simp [h1, h2]
  · simp only [convertSeqOf, convert_date_seq, convertSeq, modelPrims]
    by_cases h : l.length = 2 <;> simp [h]
  · simp only [convertSeqOf, convert_datetime_seq, convertSeq, modelPrims]
    by_cases h1 : 5 ≤ l.length <;> by_cases h2 : l.length ≤ 7 <;> simp [h1, h2]

/-! ### `convert_time_str` -/

theorem strptime_loop (c : Bool) (t : List Char) :
    forReturn [['%', 'H', ':', '%', 'M'], ['%', 'H', ':', '%', 'M', ':', '%', 'S'],
        ['%', 'H', ':', '%', 'M', ':', '%', 'S', '.', '%', 'f'],
        ['%', 'H', ':', '%', 'M', ':', '%', 'S', ',', '%', 'f']] (fun (fmt : List Char) =>
        match (modelPrims c).strptime fmt t with
        | .ok tm => (Res.ok (some tm) : Res (Option Ep))
        | .err .value => .ok none
        | .err .type => .err .type
        | .unsupported => .unsupported)
      (fun _ => .err .value) =
    (Res.ofOption (strpTime t)).bind (checkEp .time) := by
  simp only [forReturn, modelPrims]
  cases strpTime t with
  | none => simp [Res.ofOption]
  | some e =>
    by_cases hv : validTime e = true
    · have hf : fmtOf t = fmtHM ∨ fmtOf t = fmtHMS ∨ fmtOf t = fmtHMSdot ∨ fmtOf t = fmtHMScomma := by
        unfold fmtOf; split
        · exact Or.inr (Or.inr (Or.inl rfl))
        · split
          · exact Or.inr (Or.inr (Or.inr rfl))
          · split
            · exact Or.inr (Or.inl rfl)
            · exact Or.inl rfl
      rcases hf with h | h | h | h <;> rw [h] <;>
        simp [hv, Res.ofOption, checkEp, validEp, fmtHM, fmtHMS, fmtHMSdot, fmtHMScomma]
    · simp [hv, Res.ofOption, checkEp, validEp]

theorem convert_time_str_eq (c : Bool) (s : List Char) :
    convert_time_str (modelPrims c) s = convertTimeStr s := by
  unfold convert_time_str convertTimeStr convertTimeStripped
  have hl := strptime_loop c (strip s)
  simp only [modelPrims] at hl ⊢
  by_cases ht : hasTz (dropT (strip s)) = true
  · simp [ht]
  · simp only [ht, Bool.false_eq_true, ↓reduceIte]
    cases hi : isoHMSF (dropT (strip s)) with
    | none => simp only []; exact hl
    | some e =>
      by_cases hv : validTime e = true
      · simp [hv]
      · simp only [hv, Bool.false_eq_true, ↓reduceIte]; exact hl

/-! ### what the matchers return -/

/-- a non-empty string of at most four digits -/
def Digits (g : List Char) : Prop := g ≠ [] ∧ (∀ c ∈ g, isDigit c = true) ∧ g.length ≤ 4

theorem searchGo_groups (m : List Char → Option Match) :
    ∀ (s pre r : List Char) (g : List (List Char)), searchGo m pre s = some (r, g) →
      ∃ t mt, m t = some mt ∧ g = mt.groups
  | [], pre, r, g, h => by
    simp only [searchGo, Option.map_eq_some_iff] at h
    obtain ⟨mt, hm, he⟩ := h
    exact ⟨[], mt, hm, (Prod.mk.inj he).2.symm⟩
  | c :: cs, pre, r, g, h => by
    simp only [searchGo] at h
    cases hm : m (c :: cs) with
    | some mt =>
      rw [hm] at h
      exact ⟨c :: cs, mt, hm, (Prod.mk.inj (Option.some.inj h)).2.symm⟩
    | none =>
      rw [hm] at h
      exact searchGo_groups m cs (c :: pre) r g h

theorem search_groups {m : List Char → Option Match} {s r : List Char} {g : List (List Char)}
    (h : search m s = some (r, g)) : ∃ t mt, m t = some mt ∧ g = mt.groups :=
  searchGo_groups m s [] r g h

theorem take4digits_digits {s y r : List Char} (h : take4digits s = some (y, r)) : Digits y := by
  unfold take4digits at h
  split at h
  · next a b c d r' =>
    split at h
    · next hd =>
      cases h
      simp only [Bool.and_eq_true] at hd
      refine ⟨by simp, ?_, by simp⟩
      intro x hx; simp at hx; rcases hx with rfl | rfl | rfl | rfl <;> simp [hd]
    · cases h
  · cases h

theorem take2digits_digits {s y r : List Char} (h : take2digits s = some (y, r)) : Digits y := by
  unfold take2digits at h
  split at h
  · next a b r' =>
    split at h
    · next hd =>
      cases h
      simp only [Bool.and_eq_true] at hd
      refine ⟨by simp, ?_, by simp⟩
      intro x hx; simp at hx; rcases hx with rfl | rfl <;> simp [hd]
    · cases h
  · cases h

theorem digits12_digits {s y r : List Char} (h : digits12 s = some (y, r)) : Digits y := by
  unfold digits12 at h
  split at h
  · next a b r' =>
    split at h
    · next ha =>
      split at h
      · next hb =>
        cases h
        refine ⟨by simp, ?_, by simp⟩
        intro x hx; simp at hx; rcases hx with rfl | rfl <;> assumption
      · cases h
        refine ⟨by simp, ?_, by simp⟩
        intro x hx; simp at hx; rw [hx]; exact ha
    · cases h
  · next a =>
    split at h
    · next ha =>
      cases h
      refine ⟨by simp, ?_, by simp⟩
      intro x hx; simp at hx; rw [hx]; exact ha
    · cases h
  · cases h

theorem reYear_groups {t : List Char} {mt : Match} (h : reYear t = some mt) :
    ∃ y, mt.groups = [y] ∧ Digits y := by
  unfold reYear at h
  split at h
  · next y r hy => cases h; exact ⟨y, rfl, take4digits_digits hy⟩
  · cases h

theorem reIsoDM_groups {t : List Char} {mt : Match} (h : reIsoDM t = some mt) :
    ∃ mo d, mt.groups = [mo, d] ∧ Digits mo ∧ Digits d := by
  unfold reIsoDM at h
  split at h
  · split at h
    · split at h
      · next mo r' hmo =>
        simp only at h
        split at h
        · next d r'' hd => cases h; exact ⟨mo, d, rfl, take2digits_digits hmo, take2digits_digits hd⟩
        · cases h
      · cases h
    · cases h
  · cases h

theorem reMonth_groups {t : List Char} {mt : Match} (h : reMonth t = some mt) :
    ∃ name, mt.groups = [name] := by
  unfold reMonth at h
  simp only at h
  split at h
  · cases h; exact ⟨_, rfl⟩
  · cases h

theorem reDay_groups {t : List Char} {mt : Match} (h : reDay t = some mt) :
    ∃ d, mt.groups = [d] ∧ Digits d := by
  unfold reDay at h
  split at h
  · next d r hd => cases h; exact ⟨d, rfl, digits12_digits hd⟩
  · cases h

theorem reTime_groups {t : List Char} {mt : Match} (h : reTime t = some mt) :
    ∃ x, mt.groups = [x] := by
  unfold reTime at h
  split at h
  · cases h
  · split at h
    · cases h
    · simp only at h; cases h; exact ⟨_, rfl⟩

theorem mem_takeWhile_p {p : Char → Bool} : ∀ {l : List Char} {x : Char}, x ∈ l.takeWhile p → p x = true
  | [], _, h => by simp at h
  | a :: l, x, h => by
    simp only [List.takeWhile_cons] at h
    split at h
    · next hp =>
      rcases List.mem_cons.1 h with e | e
      · rw [e]; exact hp
      · exact mem_takeWhile_p e
    · simp at h

theorem reYMD_groups {t : List Char} {mt : Match} (h : reYMD t = some mt) :
    ∃ y mo d, mt.groups = [y, mo, d] ∧ Digits y ∧ mo ≠ [] ∧ (mo.all isDigit = true → Digits mo) ∧ Digits d := by
  unfold reYMD at h
  split at h
  · next y c r hy =>
    split at h
    · simp only at h
      split at h
      · next mo c' r' hmo =>
        split at h
        · split at h
          · next d r'' hd =>
            cases h
            refine ⟨y, mo, d, rfl, take4digits_digits hy, ?_, ?_, take2digits_digits hd⟩
            · split at hmo
              · next hl =>
                have e1 : mo = r.takeWhile isAlpha := (Prod.mk.inj (Option.some.inj hmo)).1.symm
                intro e; rw [e1] at e; rw [e] at hl; simp at hl
              · exact (take2digits_digits hmo).1
            · intro hall
              split at hmo
              · next hl =>
                have e1 : mo = r.takeWhile isAlpha := (Prod.mk.inj (Option.some.inj hmo)).1.symm
                rw [e1] at hall
                have hal : ∀ x ∈ r.takeWhile isAlpha, isAlpha x = true := fun x hx => mem_takeWhile_p hx
                cases hr : r.takeWhile isAlpha with
                | nil => rw [hr] at hl; simp at hl
                | cons x xs =>
                  exfalso
                  have h1 := hal x (by rw [hr]; simp)
                  rw [hr] at hall
                  have h2 : isDigit x = true := by simpa using (List.all_eq_true.1 hall) x (by simp)
                  have b1 := isDigit_bound h2
                  simp only [isAlpha, isUpper, isLower, Bool.or_eq_true, Bool.and_eq_true, decide_eq_true_eq] at h1
                  omega
              · exact take2digits_digits hmo
          · cases h
        · cases h
      · cases h
    · cases h
  · cases h

/-! ### integers of digit strings -/

theorem pyInt_digits (c : Bool) {g : List Char} (h : Digits g) :
    (modelPrims c).pyInt g = .ok (numOf g : Int) ∧ numOf g < 10000 := by
  obtain ⟨hne, hd, hl⟩ := h
  have h1 : g.isEmpty = false := by cases g <;> simp_all
  have h2 : g.all isDigit = true := List.all_eq_true.2 hd
  have h3 : (!g.isEmpty && g.all isDigit) = true := by simp [h1, h2]
  refine ⟨by simp only [modelPrims, h3, ↓reduceIte], ?_⟩
  have := numOf_lt g hd
  calc numOf g < 10 ^ g.length := this
    _ ≤ 10 ^ 4 := Nat.pow_le_pow_right (by decide) hl

theorem findMonth_lt (cap : List Char) : ∀ (l : List (List Char)) (i j : Nat),
    findMonth cap l i = some j → j < i + l.length
  | [], _, _, h => by simp [findMonth] at h
  | x :: xs, i, j, h => by
    simp only [findMonth] at h
    split at h
    · cases h; simp
    · have := findMonth_lt cap xs (i + 1) j h
      simp only [List.length_cons]; omega

theorem nameToMonth_lt {name : List Char} {j : Nat} (h : nameToMonth name = some j) : j < 13 := by
  have := findMonth_lt _ _ _ _ h
  have hl : Gen.monthNamesC.length = 13 := by decide
  omega

/-! ### `_convert_str` -/

@[simp] theorem prims_strip (c : Bool) : (modelPrims c).strip = Interval.strip := rfl

theorem date_seq_small (c : Bool) {mo d : Nat} (hmo : mo < 10000) (hd : d < 10000) :
    convert_date_seq (modelPrims c) [(mo : Int), (d : Int)] = checkEp .date [mo, d] := by
  have := intsToNats_ofNat [mo, d] (by intro v hv; simp at hv; omega)
  simp only [List.map_cons, List.map_nil, Int.ofNat_eq_natCast] at this
  simp [convert_date_seq, modelPrims, this]

theorem convert_str_date_eq (c : Bool) (s : List Char) :
    convert_str (modelPrims c) s false = convertDateCore s := by
  unfold convert_str convertDateCore dateRaw monthDay
  simp only [Bool.false_eq_true, ↓reduceIte, match_pattern_eq, matcher]
  cases h1 : search reIsoDM s with
  | some p =>
    obtain ⟨s', g⟩ := p
    obtain ⟨t, mt, hm, rfl⟩ := search_groups h1
    obtain ⟨mo, d, hg, hmo, hd⟩ := reIsoDM_groups hm
    rw [hg]
    obtain ⟨i1, b1⟩ := pyInt_digits c hmo
    obtain ⟨i2, b2⟩ := pyInt_digits c hd
    simp [i1, i2, date_seq_small c b1 b2]
    split <;> simp
  | none =>
    cases h2 : search reMonth s with
    | none => simp [h2]
    | some p =>
      obtain ⟨s', g⟩ := p
      obtain ⟨t, mt, hm, rfl⟩ := search_groups h2
      obtain ⟨name, hg⟩ := reMonth_groups hm
      cases h3 : nameToMonth name with
      | none => simp [h2, hg, name_to_month_eq, h3]
      | some mo =>
        have b1 := nameToMonth_lt h3
        cases h4 : search reDay s' with
        | none => simp [h2, hg, name_to_month_eq, h3, h4]
        | some p =>
          obtain ⟨s'', g⟩ := p
          obtain ⟨t, mt, hm, rfl⟩ := search_groups h4
          obtain ⟨d, hg', hd⟩ := reDay_groups hm
          obtain ⟨i2, b2⟩ := pyInt_digits c hd
          simp [h2, hg, name_to_month_eq, h3, h4, hg', i2, date_seq_small c (show mo < 10000 by omega) b2]
          split <;> simp

theorem pyInt_nondigits (c : Bool) {g : List Char} (h : g.all isDigit = false) :
    (modelPrims c).pyInt g = .err .value := by
  simp only [modelPrims, h, Bool.and_false, Bool.false_eq_true, ↓reduceIte]

theorem datetime_seq_small (c : Bool) {y mo d : Nat} {tm : Ep} (hy : y < 10000) (hmo : mo < 10000)
    (hd : d < 10000) (ht : validTime tm = true) :
    convert_datetime_seq (modelPrims c) ((y : Int) :: (mo : Int) :: (d : Int) :: export_dt (modelPrims c) .time tm) =
      checkEp .datetime (y :: mo :: d :: tm) := by
  obtain ⟨hh, mi, s, us, rfl, h1, h2, h3, h4⟩ := validTime_shape ht
  have := intsToNats_ofNat [y, mo, d, hh, mi, s, us] (by intro v hv; simp at hv; omega)
  simp only [List.map_cons, List.map_nil, Int.ofNat_eq_natCast] at this
  simp [convert_datetime_seq, export_dt, dtAttrs, attrLayout, List.lookup, modelPrims, this, padZeros]

theorem convert_str_datetime_eq (c : Bool) (s : List Char) :
    convert_str (modelPrims c) s true = convertDateTimeCore s := by
  unfold convert_str convertDateTimeCore dateTimeRaw monthDay
  simp only [↓reduceIte, match_pattern_eq, matcher, convert_time_str_eq]
  cases hT : search reTime s with
  | none => simp [hT]
  | some p =>
    obtain ⟨s1, g⟩ := p
    obtain ⟨t0, mt, hm, rfl⟩ := search_groups hT
    obtain ⟨t, hgT⟩ := reTime_groups hm
    cases hc : convertTimeStr t with
    | err e => simp [hT, hgT, hc]
    | unsupported => simp [hT, hgT, hc]
    | ok tm =>
      have hv := convertTimeStr_valid hc
      cases hY : search reYMD s1 with
      | some p =>
        obtain ⟨s2, g⟩ := p
        obtain ⟨t1, mt1, hm1, rfl⟩ := search_groups hY
        obtain ⟨y, mo, d, hg, hy, hmone, hmod, hd⟩ := reYMD_groups hm1
        obtain ⟨iy, by_⟩ := pyInt_digits c hy
        obtain ⟨id_, bd⟩ := pyInt_digits c hd
        have hne : (!mt1.groups.isEmpty) = true := by rw [hg]; rfl
        by_cases hall : mo.all isDigit = true
        · obtain ⟨im, bm⟩ := pyInt_digits c (hmod hall)
          simp [hT, hgT, hc, hY, hg, iy, im, id_, hall, datetime_seq_small c by_ bm bd hv]
          split <;> simp
        · have hall' : mo.all isDigit = false := by simpa using hall
          have im := pyInt_nondigits c hall'
          cases h3 : nameToMonth mo with
          | none => simp [hT, hgT, hc, hY, hg, iy, im, hall', name_to_month_eq, h3]
          | some m =>
            have b1 := nameToMonth_lt h3
            simp [hT, hgT, hc, hY, hg, iy, im, id_, hall', name_to_month_eq, h3,
              datetime_seq_small c by_ (show m < 10000 by omega) bd hv]
            split <;> simp
      | none =>
        cases hYr : search reYear s1 with
        | none => simp [hT, hgT, hc, hY, hYr]
        | some p =>
          obtain ⟨s2, g⟩ := p
          obtain ⟨t1, mt1, hm1, rfl⟩ := search_groups hYr
          obtain ⟨y, hgY, hy⟩ := reYear_groups hm1
          obtain ⟨iy, by_⟩ := pyInt_digits c hy
          cases h1 : search reIsoDM s2 with
          | some p =>
            obtain ⟨s3, g⟩ := p
            obtain ⟨t2, mt2, hm2, rfl⟩ := search_groups h1
            obtain ⟨mo, d, hg, hmo, hd⟩ := reIsoDM_groups hm2
            obtain ⟨i1, b1⟩ := pyInt_digits c hmo
            obtain ⟨i2, b2⟩ := pyInt_digits c hd
            simp [hT, hgT, hc, hY, hYr, hgY, iy, h1, hg, i1, i2, datetime_seq_small c by_ b1 b2 hv]
            split <;> simp
          | none =>
            cases h2 : search reMonth s2 with
            | none => simp [hT, hgT, hc, hY, hYr, hgY, iy, h1, h2]
            | some p =>
              obtain ⟨s3, g⟩ := p
              obtain ⟨t2, mt2, hm2, rfl⟩ := search_groups h2
              obtain ⟨name, hg⟩ := reMonth_groups hm2
              cases h3 : nameToMonth name with
              | none => simp [hT, hgT, hc, hY, hYr, hgY, iy, h1, h2, hg, name_to_month_eq, h3]
              | some mo =>
                have b1 := nameToMonth_lt h3
                cases h4 : search reDay s3 with
                | none => simp [hT, hgT, hc, hY, hYr, hgY, iy, h1, h2, hg, name_to_month_eq, h3, h4]
                | some p =>
                  obtain ⟨s4, g⟩ := p
                  obtain ⟨t3, mt3, hm3, rfl⟩ := search_groups h4
                  obtain ⟨d, hg', hd⟩ := reDay_groups hm3
                  obtain ⟨i2, b2⟩ := pyInt_digits c hd
                  simp [hT, hgT, hc, hY, hYr, hgY, iy, h1, h2, hg, name_to_month_eq, h3, h4, hg', i2,
                    datetime_seq_small c by_ (show mo < 10000 by omega) b2 hv]
                  split <;> simp

/-- the only exception this computation raises is ValueError -/
def OnlyValue {α : Type} (r : Res α) : Prop := ∀ e, r = .err e → e = .value

theorem OnlyValue.ok {α : Type} (a : α) : OnlyValue (Res.ok a) := fun _ h => by cases h
theorem OnlyValue.uns {α : Type} : OnlyValue (Res.unsupported : Res α) := fun _ h => by cases h
theorem OnlyValue.errv {α : Type} : OnlyValue (Res.err .value : Res α) := fun _ h => by cases h; rfl
theorem OnlyValue.bind {α β : Type} {x : Res α} {f : α → Res β} (hx : OnlyValue x) (hf : ∀ a, OnlyValue (f a)) :
    OnlyValue (x.bind f) := by
  intro e h
  cases x with
  | ok a => exact hf a e h
  | err e' => simp at h; rw [← h]; exact hx e' rfl
  | unsupported => simp at h

theorem onlyValue_checkEp (k : Interval.Kind) (e : Ep) : OnlyValue (checkEp k e) := by
  unfold checkEp; split
  · exact OnlyValue.ok _
  · exact OnlyValue.errv

theorem onlyValue_ofOption {α : Type} (o : Option α) : OnlyValue (Res.ofOption o) := by
  cases o
  · exact OnlyValue.errv
  · exact OnlyValue.ok _

theorem onlyValue_convertTimeStr (s : List Char) : OnlyValue (convertTimeStr s) := by
  unfold convertTimeStr convertTimeStripped
  split
  · exact OnlyValue.errv
  · split
    · split
      · exact OnlyValue.ok _
      · exact OnlyValue.bind (onlyValue_ofOption _) (fun _ => onlyValue_checkEp _ _)
    · exact OnlyValue.bind (onlyValue_ofOption _) (fun _ => onlyValue_checkEp _ _)

theorem onlyValue_monthDay (s : List Char) : OnlyValue (monthDay s) := by
  unfold monthDay
  repeat' split
  all_goals first | exact OnlyValue.ok _ | exact OnlyValue.errv | exact OnlyValue.uns

theorem onlyValue_dateTimeCore (s : List Char) : OnlyValue (convertDateTimeCore s) := by
  unfold convertDateTimeCore
  refine OnlyValue.bind ?_ (fun _ => onlyValue_checkEp _ _)
  unfold dateTimeRaw
  split
  · refine OnlyValue.bind (onlyValue_convertTimeStr _) (fun tm => ?_)
    refine OnlyValue.bind ?_ (fun a => ?_)
    · repeat' split
      all_goals first | exact OnlyValue.ok _ | exact OnlyValue.errv | exact OnlyValue.uns
    · refine OnlyValue.bind ?_ (fun b => ?_)
      · split
        · exact OnlyValue.ok _
        · exact onlyValue_monthDay _
      · repeat' split
        all_goals first | exact OnlyValue.ok _ | exact OnlyValue.errv
  · exact OnlyValue.errv


/-! ### refinement: equality wherever the model has an answer -/

/-- the model either declares the input outside its domain or the translated code computes the model's result -/
def Refines {α : Type} (m t : Res α) : Prop := m = .unsupported ∨ t = m

theorem Refines.refl {α : Type} (m : Res α) : Refines m m := Or.inr rfl
theorem Refines.of_eq {α : Type} {m t : Res α} (h : t = m) : Refines m t := Or.inr h

theorem Refines.bind {α β : Type} {m t : Res α} {f g : α → Res β} (h : Refines m t)
    (hf : ∀ a, Refines (f a) (g a)) : Refines (m.bind f) (t.bind g) := by
  rcases h with h | h
  · left; rw [h]; rfl
  · rw [h]
    cases m with
    | ok a => exact hf a
    | err e => exact Or.inr rfl
    | unsupported => exact Or.inl rfl

theorem isInfix_T (s : List Char) : isInfix ['T'] s = s.contains 'T' := by
  induction s with
  | nil => rfl
  | cons x xs ih =>
    simp only [isInfix, List.isPrefixOf, ih, List.contains_cons]
    cases h : ('T' == x) <;> simp [h]

theorem convert_date_str_eq (c : Bool) (s : List Char) :
    convert_date_str (modelPrims c) s = convertDateStr s := by
  simp only [convert_date_str, convertDateStr, prims_strip, convert_str_date_eq]

theorem convert_datetime_str_refines (c : Bool) (s : List Char) :
    Refines (convertDateTimeStr s) (convert_datetime_str (modelPrims c) s) := by
  unfold convert_datetime_str convertDateTimeStr convertDateTimeStripped
  simp only [prims_strip, convert_str_datetime_eq]
  have hT : (modelPrims c).contains ['T'] (strip s) = (strip s).contains 'T' := isInfix_T _
  rw [hT]
  by_cases h : (strip s).contains 'T' = true
  · simp only [h, ↓reduceIte, modelPrims]
    cases hi : isoDateTime (strip s) with
    | ok e => exact Or.inr (by simp)
    | fail => exact Or.inr (by simp)
    | week => exact Or.inl rfl
    | tz =>
      cases hc : convertDateTimeCore (strip s) with
      | ok a => exact Or.inl rfl
      | unsupported => exact Or.inl rfl
      | err e =>
        have he := onlyValue_dateTimeCore (strip s) e hc
        subst he
        cases c <;> exact Or.inr (by simp [hc])
  · simp only [h, Bool.false_eq_true, ↓reduceIte]
    exact Or.inr rfl

theorem rclosed_eq (k : Interval.Kind) : Gen.TrIv.rclosed k = Interval.rclosed k := by cases k <;> rfl

theorem convertStrOf_refines (c : Bool) (k : Interval.Kind) (s : List Char) :
    Refines (convertStr k s) (convertStrOf (modelPrims c) k s) := by
  unfold convertStr
  by_cases ha : asciiOk s = true
  · simp only [ha, Bool.not_true, Bool.false_eq_true, ↓reduceIte]
    cases k
    · exact Or.inr (convert_time_str_eq c s)
    · exact Or.inr (convert_date_str_eq c s)
    · exact convert_datetime_str_refines c s
  · simp only [ha, Bool.not_false, ↓reduceIte]; exact Or.inl rfl

theorem interval_convert_refines (c : Bool) (k : Interval.Kind) (x : EpIn) :
    Refines (convert k x)
      (interval_convert (modelPrims c) k x (convertStrOf (modelPrims c) k) (convertSeqOf (modelPrims c) k)) := by
  cases x with
  | str s => exact convertStrOf_refines c k s
  | ints l => exact Or.inr (convertSeqOf_eq c k l)
  | bad => exact Or.inr rfl

/-! ### `_parse_range` -/

theorem pair_refines {α : Type} {m1 t1 m2 t2 : Res Ep} (x : α) (xs : List α) (body : α → Res (Option Range))
    (k : Unit → Res Range)
    (hb : body x = t1.bind fun v1 => t2.bind fun v2 => (Res.ok (some (v1, v2)) : Res (Option Range)))
    (h1 : Refines m1 t1) (h2 : Refines m2 t2) :
    Refines (m1.bind fun x => m2.bind fun y => .ok (x, y)) (forReturn (x :: xs) body k) := by
  simp only [forReturn, hb]
  rcases h1 with h1 | h1
  · left; rw [h1]; rfl
  · rw [h1]
    cases m1 with
    | unsupported => exact Or.inl rfl
    | err e => exact Or.inr rfl
    | ok a =>
      rcases h2 with h2 | h2
      · left; rw [h2]; rfl
      · rw [h2]
        cases m2 with
        | unsupported => exact Or.inl rfl
        | err e => exact Or.inr rfl
        | ok b => exact Or.inr rfl

theorem splitOn_two {l : List (List Char)} (h : ∀ a b, l ≠ [a, b]) : (l.length == 2) = false := by
  match l, h with
  | [], _ => rfl
  | [_], _ => rfl
  | [a, b], h => exact absurd rfl (h a b)
  | _ :: _ :: _ :: _, _ => simp

theorem parse_range_str_loop (c : Bool) (k : Interval.Kind) (s : List Char) (seps : List (List Char)) :
    Refines
      (match firstSplit2 seps s with
       | some (a, b) => (convertStr k a).bind fun x => (convertStr k b).bind fun y => .ok (x, y)
       | none => if Interval.rclosed k then (convertStr k s).bind fun e => .ok (e, e) else .err .value)
      (forReturn seps (fun (sep : List Char) =>
          let parts := ((modelPrims c).split s sep)
          if ((parts).length == 2) then
            ((convertStrOf (modelPrims c) k) ((parts).getD 0 [])).bind fun v_1 =>
            ((convertStrOf (modelPrims c) k) ((parts).getD 1 [])).bind fun v_2 =>
            .ok (some (v_1, v_2))
          else
            .ok none)
        (fun _ =>
          if (Gen.TrIv.rclosed k) then
            ((convertStrOf (modelPrims c) k) s).bind fun v_3 =>
            let endpoint := v_3
            .ok (endpoint, endpoint)
          else
            .err .value)) := by
  induction seps with
  | nil =>
    simp only [firstSplit2, forReturn, rclosed_eq]
    split
    · exact Refines.bind (convertStrOf_refines c k s) (fun a => Refines.refl _)
    · exact Refines.refl _
  | cons sep rest ih =>
    have hs : (modelPrims c).split s sep = splitOn sep s := rfl
    have hnot : ∀ l : List (List Char), (∀ a b, l ≠ [a, b]) → splitOn sep s = l →
        Refines
          (match firstSplit2 (sep :: rest) s with
           | some (a, b) => (convertStr k a).bind fun x => (convertStr k b).bind fun y => .ok (x, y)
           | none => if Interval.rclosed k then (convertStr k s).bind fun e => .ok (e, e) else .err .value)
          (forReturn (sep :: rest) (fun (sep : List Char) =>
              let parts := ((modelPrims c).split s sep)
              if ((parts).length == 2) then
                ((convertStrOf (modelPrims c) k) ((parts).getD 0 [])).bind fun v_1 =>
                ((convertStrOf (modelPrims c) k) ((parts).getD 1 [])).bind fun v_2 =>
                .ok (some (v_1, v_2))
              else
                .ok none)
            (fun _ =>
              if (Gen.TrIv.rclosed k) then
                ((convertStrOf (modelPrims c) k) s).bind fun v_3 =>
                let endpoint := v_3
                .ok (endpoint, endpoint)
              else
                .err .value)) := by
      intro l hl hsp
      have h2 : (l.length == 2) = false := splitOn_two hl
      have hf : firstSplit2 (sep :: rest) s = firstSplit2 rest s := by
        simp only [firstSplit2, hsp]
        try (split <;> first | rfl | (rename_i a b e; exact absurd e (hl a b)))
      rw [hf]
      simp only [forReturn, hs, hsp, h2, Bool.false_eq_true, ↓reduceIte]
      exact ih
    match hsp : splitOn sep s with
    | [] => exact hnot [] (by simp) hsp
    | [x] => exact hnot [x] (by simp) hsp
    | x :: y :: z :: t => exact hnot _ (by simp) hsp
    | [a, b] =>
      simp only [firstSplit2, hsp]
      refine pair_refines _ _ _ _ ?_ (convertStrOf_refines c k a) (convertStrOf_refines c k b)
      simp only [hs, hsp, List.length_cons, List.length_nil, Nat.zero_add, Nat.reduceAdd,
        beq_self_eq_true, ↓reduceIte, List.getD_cons_zero, List.getD_cons_succ]

theorem seps_eq' : Gen.rangeSeparatorsC = Gen.rangeSeparatorsC := rfl

theorem parse_range_refines (c : Bool) (k : Interval.Kind) (r : RangeIn) :
    Refines (parseRange k r) (parse_range (modelPrims c) k r) := by
  cases r with
  | bad => exact Or.inr rfl
  | str s =>
    simp only [parseRange, parseRangeStr, parse_range]
    exact parse_range_str_loop c k s Gen.rangeSeparatorsC
  | seq l =>
    match l with
    | [] => exact Or.inr rfl
    | [a] =>
      simp only [parseRange, parse_range, List.length_cons, List.length_nil, Nat.zero_add, Nat.reduceBEq,
        Bool.false_eq_true, ↓reduceIte, beq_self_eq_true, rclosed_eq, List.getD_cons_zero]
      split
      · exact Refines.bind (interval_convert_refines c k a) (fun _ => Refines.refl _)
      · exact Refines.refl _
    | [a, b] =>
      simp only [parseRange, parse_range, List.length_cons, List.length_nil, Nat.zero_add, Nat.reduceAdd,
        beq_self_eq_true, ↓reduceIte, List.getD_cons_zero, List.getD_cons_succ]
      exact Refines.bind (interval_convert_refines c k a)
        (fun _ => Refines.bind (interval_convert_refines c k b) (fun _ => Refines.refl _))
    | _ :: _ :: _ :: _ => exact Or.inr (by simp [parseRange, parse_range])

/-! ### `_Interval.__init__` -/

theorem Res.bind_ok_id {α : Type} (x : Res α) : (x.bind fun r => Res.ok r) = x := by cases x <;> rfl

theorem mapRes_refines (c : Bool) (k : Interval.Kind) (l : List RangeIn) :
    Refines (parseRanges k l) (mapRes (parse_range (modelPrims c) k) l) := by
  induction l with
  | nil => exact Or.inr rfl
  | cons r rs ih =>
    simp only [parseRanges, mapRes]
    exact Refines.bind (parse_range_refines c k r) (fun _ => Refines.bind ih (fun _ => Refines.refl _))

theorem mapRes_map {α β γ : Type} (f : β → Res γ) (g : α → β) (l : List α) :
    mapRes (fun a => f (g a)) l = mapRes f (l.map g) := by
  induction l with
  | nil => rfl
  | cons x xs ih => simp [mapRes, ih]

theorem Res.map_eq_bind {α β : Type} (f : α → β) (x : Res α) : x.map f = x.bind fun a => .ok (f a) := by
  cases x <;> rfl

theorem interval_init_refines (c : Bool) (k : Interval.Kind) (spec : IvIn) :
    Refines (parseInterval k spec) (interval_init (modelPrims c) k spec) := by
  cases spec with
  | bad => exact Or.inr rfl
  | seq l =>
    simp only [parseInterval, interval_init, Res.bind_ok_id, Res.map_eq_bind]
    exact Refines.bind (mapRes_refines c k l) (fun _ => Refines.refl _)
  | str s =>
    simp only [parseInterval]
    by_cases ha : asciiOk s = true
    · simp only [ha, Bool.not_true, Bool.false_eq_true, ↓reduceIte, Res.map_eq_bind]
      have key : ∀ pieces : List (List Char),
          Refines ((parseRanges k (pieces.map RangeIn.str)).bind fun a => Res.ok (sortR a))
            ((mapRes (fun (subint : List Char) =>
                (parse_range (modelPrims c) k (RangeIn.str subint)).bind fun r => Res.ok r) pieces).bind
              fun xs => Res.ok ((modelPrims c).sorted xs)) := by
        intro pieces
        simp only [Res.bind_ok_id]
        rw [mapRes_map (parse_range (modelPrims c) k) RangeIn.str]
        exact Refines.bind (mapRes_refines c k _) (fun _ => Refines.refl _)
      simp only [interval_init, splitInterval, dropLastBlank]
      have hc : (modelPrims c).contains Gen.delimiterC s = isInfix Gen.delimiterC s := rfl
      have hsplit : ∀ d, (modelPrims c).split s d = splitOn d s := fun _ => rfl
      simp only [hc, hsplit, prims_strip]
      generalize (splitOn (if isInfix Gen.delimiterC s = true then Gen.delimiterC else Gen.delimiterLegacyC) s) = l
      cases hl : l.getLast? with
      | none =>
        have : l = [] := List.getLast?_eq_none_iff.1 hl
        subst this
        simp only [List.isEmpty_nil, Bool.not_true, Bool.false_eq_true, ↓reduceIte]
        exact key []
      | some p =>
        have hne : l.isEmpty = false := by
          cases l with
          | nil => simp at hl
          | cons _ _ => rfl
        simp only [hne, Bool.not_false, ↓reduceIte, Option.getD_some]
        by_cases hp : (strip p).isEmpty = true
        · simp only [hp, Bool.not_true, Bool.false_eq_true, ↓reduceIte]
          exact key _
        · simp only [hp, Bool.not_false, ↓reduceIte]
          exact key _
    · simp only [ha, Bool.not_false, ↓reduceIte]; exact Or.inl rfl

/-! ### membership and rendering -/

theorem interval_cmp_eq (k : Interval.Kind) (lo x hi : Ep) : interval_cmp k lo x hi = Interval.cmp k lo x hi := by
  cases k <;> rfl

theorem interval_contains_eq (k : Interval.Kind) (iv : List Range) (x : Ep) :
    interval_contains k iv x = Interval.contains k iv x := by
  simp only [interval_contains, Interval.contains, interval_cmp_eq]

/-- `export_dt` of an object = its tuple in the model's layout (`_ATTRS` lists the attributes in that order) -/
theorem export_dt_eq (c : Bool) (k : Interval.Kind) {e : Ep} (h : validEp k e = true) :
    export_dt (modelPrims c) k e = e.map Int.ofNat := by
  cases k with
  | time =>
    obtain ⟨hh, m, s, us, rfl, -⟩ := validTime_shape h
    simp [export_dt, dtAttrs, attrLayout, List.lookup, modelPrims]
  | date =>
    obtain ⟨mo, d, rfl, -⟩ := validDate_shape h
    simp [export_dt, dtAttrs, attrLayout, List.lookup, modelPrims]
  | datetime =>
    obtain ⟨y, mo, d, hh, mi, s, us, rfl, -⟩ := validDateTime_shape h
    simp [export_dt, dtAttrs, attrLayout, List.lookup, modelPrims]

theorem exportOf_eq (c : Bool) (k : Interval.Kind) {e : Ep} (h : validEp k e = true) :
    exportOf (modelPrims c) k e = e.map Int.ofNat := by
  cases k <;> exact export_dt_eq c _ h

theorem as_list_eq (c : Bool) (k : Interval.Kind) (iv : List Range)
    (hv : ∀ r ∈ iv, validEp k r.1 = true ∧ validEp k r.2 = true) :
    Gen.TrIv.as_list (modelPrims c) k iv = (asList iv).map fun r => r.map fun e => e.map Int.ofNat := by
  simp only [Gen.TrIv.as_list, asList, List.map_map]
  apply List.map_congr_left
  intro r hr
  simp [exportOf_eq c k (hv r hr).1, exportOf_eq c k (hv r hr).2]

/-! ### `range_endpoints` -/

theorem mem_setAdd (s : List Ep) (e x : Ep) : x ∈ setAdd s e ↔ x ∈ s ∨ x = e := by
  unfold setAdd
  split
  · next h =>
    have : e ∈ s := by simpa using h
    constructor
    · intro hx; exact Or.inl hx
    · rintro (hx | hx)
      · exact hx
      · rw [hx]; exact this
  · simp

theorem nodup_setAdd (s : List Ep) (e : Ep) (h : s.Nodup) : (setAdd s e).Nodup := by
  unfold setAdd
  split
  · exact h
  · next hc =>
    have : e ∉ s := by simpa using hc
    rw [List.nodup_append]
    refine ⟨h, by simp, ?_⟩
    intro a ha b hb
    simp at hb
    rw [hb]; intro e'; exact this (e' ▸ ha)

/-- a loop that adds the start and the stop of every range (in whatever order) to a set -/
theorem fold_endpoints (f : List Ep → Range → List Ep)
    (hn : ∀ acc r, acc.Nodup → (f acc r).Nodup)
    (hm : ∀ acc r x, x ∈ f acc r ↔ (x ∈ acc ∨ x = r.1 ∨ x = r.2)) (iv : List Range) (acc : List Ep)
    (hacc : acc.Nodup) :
    (iv.foldl f acc).Nodup ∧ ∀ x, x ∈ iv.foldl f acc ↔ x ∈ acc ∨ x ∈ rangeEndpoints iv := by
  induction iv generalizing acc with
  | nil => simp [rangeEndpoints, hacc]
  | cons r rs ih =>
    obtain ⟨n, m⟩ := ih (f acc r) (hn acc r hacc)
    refine ⟨n, fun x => ?_⟩
    simp only [List.foldl_cons]
    rw [m x, hm]
    simp only [rangeEndpoints, List.flatMap_cons, List.mem_append, List.mem_cons, List.not_mem_nil, or_false]
    constructor
    · rintro ((h | h | h) | h)
      · exact Or.inl h
      · exact Or.inr (Or.inl (Or.inl h))
      · exact Or.inr (Or.inl (Or.inr h))
      · exact Or.inr (Or.inr h)
    · rintro (h | (h | h) | h)
      · exact Or.inl (Or.inl h)
      · exact Or.inl (Or.inr (Or.inl h))
      · exact Or.inl (Or.inr (Or.inr h))
      · exact Or.inr h

theorem fold_endpoints_nil (f : List Ep → Range → List Ep)
    (hn : ∀ acc r, acc.Nodup → (f acc r).Nodup)
    (hm : ∀ acc r x, x ∈ f acc r ↔ (x ∈ acc ∨ x = r.1 ∨ x = r.2)) (iv : List Range) :
    (iv.foldl f []).Nodup ∧ ∀ x, x ∈ iv.foldl f [] ↔ x ∈ rangeEndpoints iv := by
  have := fold_endpoints f hn hm iv [] List.nodup_nil
  refine ⟨this.1, fun x => ?_⟩
  have h := this.2 x
  simp only [List.not_mem_nil, false_or] at h
  exact h

/-- the translated `range_endpoints` is the set of all starts and stops -/
theorem range_endpoints_eq (c : Bool) (k : Interval.Kind) (iv : List Range) :
    (Gen.TrIv.range_endpoints (modelPrims c) k iv).Nodup ∧
    ∀ x, x ∈ Gen.TrIv.range_endpoints (modelPrims c) k iv ↔ x ∈ rangeEndpoints iv := by
  unfold Gen.TrIv.range_endpoints
  refine fold_endpoints_nil _ ?_ ?_ iv
  · intro acc r h
    obtain ⟨a, b⟩ := r
    exact nodup_setAdd _ _ (nodup_setAdd _ _ h)
  · intro acc r x
    obtain ⟨a, b⟩ := r
    simp only [mem_setAdd]
    grind

theorem pyJoin_eq_joinSp (l : List (List Char)) : pyJoin [' '] l = joinSp l := by
  induction l with
  | nil => rfl
  | cons a rest ih =>
    cases rest with
    | nil => rfl
    | cons b rest' => simp only [pyJoin, joinSp, ih, List.append_assoc, List.singleton_append]

theorem strOf_eq (c : Bool) (k : Interval.Kind) {e : Ep} (h : validEp k e = true) :
    strOf (modelPrims c) k e = render k e := by
  cases k with
  | time => rfl
  | datetime => rfl
  | date =>
    obtain ⟨mo, d, rfl, -⟩ := validDate_shape h
    simp [strOf, date_to_string, modelPrims, render, renderDate]

theorem range_string_eq (c : Bool) (k : Interval.Kind) {a b : Ep} (ha : validEp k a = true)
    (hb : validEp k b = true) : range_string (modelPrims c) k a b = rangeString k (a, b) := by
  have h0 : Gen.rangeSeparatorsC.getD 0 [] = Gen.rangeSeparatorsC.headD [] := rfl
  simp only [range_string, rangeString, rclosed_eq, strOf_eq c k ha, strOf_eq c k hb, h0]
  split <;> simp

theorem as_string_eq (c : Bool) (k : Interval.Kind) (iv : List Range)
    (hv : ∀ r ∈ iv, validEp k r.1 = true ∧ validEp k r.2 = true) :
    Gen.TrIv.as_string (modelPrims c) k iv = asString k iv := by
  simp only [Gen.TrIv.as_string, asString, pyJoin_eq_joinSp]
  congr 1
  apply List.map_congr_left
  intro r hr
  exact range_string_eq c k (hv r hr).1 (hv r hr).2

end Edzed.IntervalTie
