/-
Helper lemmas for C17 (model: EdzedModel/Validate.lean).
-/
import EdzedModel.Validate

namespace Edzed

theorem Atom.pyEq_refl (a : Atom) : a.pyEq a = true := by
  cases a <;> simp [Atom.pyEq]

theorem Atom.listEq_refl (l : List Atom) : Atom.listEq l l = true := by
  induction l with
  | nil => rfl
  | cons a l ih => simp [Atom.listEq, Atom.pyEq_refl, ih]

theorem Val.pyEq_refl (v : Val) : v.pyEq v = true := by
  cases v <;> simp [Val.pyEq, Atom.pyEq_refl, Atom.listEq_refl]

theorem Atom.pyEq_comm (a b : Atom) : a.pyEq b = b.pyEq a := by
  cases a <;> cases b <;> simp [Atom.pyEq, Bool.beq_comm]

theorem Atom.listEq_comm (l m : List Atom) : Atom.listEq l m = Atom.listEq m l := by
  induction l generalizing m with
  | nil => cases m <;> rfl
  | cons a l ih => cases m with
    | nil => rfl
    | cons b m => simp [Atom.listEq, Atom.pyEq_comm a b, ih m]

/-- `==` is symmetric on the value domain: `value in allowed` does not depend on which operand
    is the member -/
theorem Val.pyEq_comm (v w : Val) : v.pyEq w = w.pyEq v := by
  cases v <;> cases w <;> simp [Val.pyEq, Atom.pyEq_comm, Atom.listEq_comm]
/-- UNDEF compares equal to nothing but itself -/
theorem Val.undef_pyEq (w : Val) : Val.pyEq .undef w = w.isUndef := by
  cases w <;> rfl

theorem Val.isUndef_iff (w : Val) : w.isUndef = true ↔ w = .undef := by
  cases w <;> simp [Val.isUndef]

theorem Val.isUndef_false_iff (w : Val) : w.isUndef = false ↔ w ≠ .undef := by
  cases w <;> simp [Val.isUndef]

namespace Validate

/-- what `set_output` stores compares equal to the new value -/
theorem store_pyEq (out w : Val) : (store out w).pyEq w = true := by
  unfold store; split
  · assumption
  · exact Val.pyEq_refl w

/-- and it is either the old object or the new one -/
theorem store_cases (out w : Val) : store out w = out ∨ store out w = w := by
  unfold store; split <;> simp

theorem store_undef (w : Val) (hw : w ≠ .undef) : store .undef w = w := by
  unfold store
  rw [Val.undef_pyEq]
  cases w <;> simp_all [Val.isUndef]

theorem store_ne_undef (out w : Val) (hw : w ≠ .undef) : store out w ≠ .undef := by
  unfold store; split
  · next h => intro ho; subst ho; rw [Val.undef_pyEq] at h; exact hw ((Val.isUndef_iff w).1 h)
  · exact hw

theorem run_nil (c : Cfg) (out : Val) : run c out [] = out := rfl

theorem run_cons (c : Cfg) (out v : Val) (vs : List Val) :
    run c out (v :: vs) = run c (put c out v).out vs := rfl

theorem run_append (c : Cfg) (out : Val) (xs ys : List Val) :
    run c out (xs ++ ys) = run c (run c out xs) ys := by
  simp [run, List.foldl_append]

theorem runExp_cons (e : ExpCfg) (s : ExpState) (op : ExpOp) (ops : List ExpOp) :
    runExp e s (op :: ops) = runExp e (stepExp e s op) ops := rfl

theorem runExp_append (e : ExpCfg) (s : ExpState) (xs ys : List ExpOp) :
    runExp e s (xs ++ ys) = runExp e (runExp e s xs) ys := by
  simp [runExp, List.foldl_append]

/-- the three outcomes of a put in terms of `validate` -/
theorem put_none (c : Cfg) (out v : Val) (h : validate c v = none) :
    (put c out v).out = out ∧ (put c out v).res = .ret false := by
  simp [put, h]

theorem put_some (c : Cfg) (out v w : Val) (h : validate c v = some w) (hw : w ≠ .undef) :
    (put c out v).out = store out w ∧ (put c out v).res = .ret true := by
  have : w.isUndef = false := (Val.isUndef_false_iff w).2 hw
  simp [put, h, this]

theorem put_undef (c : Cfg) (out v : Val) (h : validate c v = some .undef) :
    (put c out v).out = out ∧ (put c out v).res = .abort := by
  simp [put, h, Val.isUndef]

theorem put_calls (c : Cfg) (out v : Val) : (put c out v).calls = calls c v := by
  unfold put; split
  · rfl
  · split <;> rfl

/-! ### `_validate`, stage by stage (predicate-free forms; EdzedProps/C17.lean names the parts) -/

theorem inAllowed_iff (l : List Val) (v : Val) :
    inAllowed l v = true ↔ v.hashable = true ∧ ∃ a ∈ l, v.pyEq a = true := by
  simp [inAllowed]

theorem schemaStage_fst (c : Cfg) (v w : Val) :
    (schemaStage c v).1 = some w ↔
      (match c.schema with | none => w = v | some s => s v = .ok w) := by
  unfold schemaStage
  cases c.schema with
  | none => simp [eq_comm]
  | some s => cases h : s v <;> simp [Except.toOption, h]

theorem checkStage_fst (c : Cfg) (v w : Val) :
    (checkStage c v).1 = some w ↔
      (∀ f, c.check = some f → (f v).truthy = true) ∧
      (match c.schema with | none => w = v | some s => s v = .ok w) := by
  unfold checkStage
  cases h : c.check with
  | none => simp [schemaStage_fst]
  | some f =>
    by_cases ht : (f v).truthy = true
    · simp [ht, schemaStage_fst]
    · simp [ht]

theorem validate_spec (c : Cfg) (v w : Val) :
    validate c v = some w ↔
      (∀ l, c.allowed = some l → v.hashable = true ∧ ∃ a ∈ l, v.pyEq a = true) ∧
      (∀ f, c.check = some f → (f v).truthy = true) ∧
      (match c.schema with | none => w = v | some s => s v = .ok w) := by
  unfold validate validateT
  cases h : c.allowed with
  | none => simp [checkStage_fst]
  | some l =>
    by_cases hl : inAllowed l v = true
    · have := (inAllowed_iff l v).1 hl
      simp [hl, checkStage_fst, this]
    · have : ¬ (v.hashable = true ∧ ∃ a ∈ l, v.pyEq a = true) :=
        fun h' => hl ((inAllowed_iff l v).2 h')
      simp [hl, this]

theorem calls_sublist (c : Cfg) (v : Val) : (calls c v).Sublist [.check v, .schema v] := by
  unfold calls validateT checkStage schemaStage
  cases c.allowed <;> cases c.check <;> cases c.schema <;> simp <;> repeat' split
  all_goals simp

theorem schemaStage_schema (c : Cfg) (v x : Val) :
    Call.schema x ∈ (schemaStage c v).2 ↔ x = v ∧ c.schema.isSome = true := by
  unfold schemaStage
  cases c.schema <;> simp

theorem schemaStage_check (c : Cfg) (v x : Val) : Call.check x ∉ (schemaStage c v).2 := by
  unfold schemaStage
  cases c.schema <;> simp

theorem checkStage_schema (c : Cfg) (v x : Val) :
    Call.schema x ∈ (checkStage c v).2 ↔
      x = v ∧ c.schema.isSome = true ∧ (∀ f, c.check = some f → (f v).truthy = true) := by
  unfold checkStage
  cases h : c.check with
  | none => simp [schemaStage_schema]
  | some f =>
    by_cases ht : (f v).truthy = true
    · simp [ht, schemaStage_schema]
    · simp [ht]

theorem checkStage_check (c : Cfg) (v x : Val) :
    Call.check x ∈ (checkStage c v).2 ↔ x = v ∧ c.check.isSome = true := by
  unfold checkStage
  cases h : c.check with
  | none => simp [schemaStage_check]
  | some f =>
    by_cases ht : (f v).truthy = true
    · simp [ht, schemaStage_check]
    · simp [ht]

theorem calls_schema (c : Cfg) (v x : Val) :
    Call.schema x ∈ calls c v ↔
      x = v ∧ c.schema.isSome = true ∧
      (∀ l, c.allowed = some l → v.hashable = true ∧ ∃ a ∈ l, v.pyEq a = true) ∧
      (∀ f, c.check = some f → (f v).truthy = true) := by
  unfold calls validateT
  cases h : c.allowed with
  | none => simp [checkStage_schema]
  | some l =>
    by_cases hl : inAllowed l v = true
    · have := (inAllowed_iff l v).1 hl
      simp [hl, checkStage_schema, this]
    · have : ¬ (v.hashable = true ∧ ∃ a ∈ l, v.pyEq a = true) :=
        fun h' => hl ((inAllowed_iff l v).2 h')
      simp [hl, this]

theorem calls_check (c : Cfg) (v x : Val) :
    Call.check x ∈ calls c v ↔
      x = v ∧ c.check.isSome = true ∧
      (∀ l, c.allowed = some l → v.hashable = true ∧ ∃ a ∈ l, v.pyEq a = true) := by
  unfold calls validateT
  cases h : c.allowed with
  | none => simp [checkStage_check]
  | some l =>
    by_cases hl : inAllowed l v = true
    · have := (inAllowed_iff l v).1 hl
      simp [hl, checkStage_check, this]
    · have : ¬ (v.hashable = true ∧ ∃ a ∈ l, v.pyEq a = true) :=
        fun h' => hl ((inAllowed_iff l v).2 h')
      simp [hl, this]

end Validate
end Edzed
