/-
Tie of the C03 model to the TRANSLATED sources of the class-creation / instance-creation side of the FSM
(lean/EdzedModel/Gen/TranslatedFsmTables.lean, regenerated from the current Python AST of edzed/fsm.py by
tools/py2lean_fsmtables.py on every check): `_check_state`, `_build_tables`, `__init__`, `_send_events`,
`_run_cb`, `_event`.  This file holds the proofs; the property theorems `translated_fsm03_…` in
EdzedProps/C03.lean (`namespace Edzed.TrTie`) restate them.
-/
import EdzedModel.Fsm
import EdzedProofs.Fsm
import EdzedModel.Gen.TranslatedFsmTables
import EdzedProofs.FsmTie03

namespace Edzed.TrTie.FT
open Edzed.Fsm Edzed.Gen.TrFT

variable {δ Du κ α ε χ η : Type}

/-- symbolic execution of the translated programs -/
macro "ftsimp" "[" ts:Lean.Parser.Tactic.simpLemma,* "]" : tactic =>
  `(tactic| simp [Gen.TrFT.seq, Gen.TrFT.bind, Gen.TrFT.pure, Gen.TrFT.skip, Gen.TrFT.gets, Gen.TrFT.modify,
      Gen.TrFT.liftE, Gen.TrFT.raise, Gen.TrFT.ret, Gen.TrFT.cont, Gen.TrFT.brk, Gen.TrFT.tryElse,
      Gen.TrFT.callProc, $ts,*])

/-! ### `_event`: the context copy -/

/-- `FSM._event` runs `_ctx_event` and hands on its result and everything it did to the block -- except its
    writes to the context variable `fsm_event_data`, which the caller does not see -/
theorem event_spec (p : Prims δ Du κ α ε χ η) (e : η) (data : Data) (o : Obj δ Du κ α ε χ) :
    event p e data o =
      match p.ctxEvent e data o with
      | (o1, .ok b) => ({ o1 with ctxVar := o.ctxVar }, .ret b)
      | (o1, .error x) => ({ o1 with ctxVar := o.ctxVar }, .raise x) := by
  unfold event copyContextRun ctxEventCall
  simp only [Gen.TrFT.bind]
  rcases h : p.ctxEvent e data o with ⟨o1, x | b⟩ <;> simp [Gen.TrFT.ret]

/-! ### `_check_state` -/

theorem checkState_spec (p : Prims δ Du κ α ε χ η) (s : String) (o : Obj δ Du κ α ε χ) :
    checkState p s o = if o.ctStates.contains s then (o, .next ()) else (o, .raise "ValueError") := by
  unfold checkState
  by_cases h : s ∈ o.ctStates <;> ftsimp [h]

/-! ### `_run_cb` -/

/-- the calls `_run_cb` makes and the values it collects: the instance callback first, then the class method,
    each only if it exists; the method sees what the callback did -/
theorem runCb_spec (p : Prims δ Du κ α ε χ η) (kind name : String) (o : Obj δ Du κ α ε χ)
    (F : List (String × κ)) (Mt : List (String × α))
    (hF : o.fsmFunctions.lookup kind = some F) (hM : o.ctMethods.lookup kind = some Mt) :
    runCb p kind name o =
      match F.lookup name, Mt.lookup name with
      | none, none => ({ o with tmpList := [] }, .ret [])
      | some f, none =>
        ({ o with tmpList := [p.funcResult f { o with tmpList := [] }], calls := o.calls ++ [.func f] },
          .ret [p.funcResult f { o with tmpList := [] }])
      | none, some m =>
        ({ o with tmpList := [p.methResult m { o with tmpList := [] }], calls := o.calls ++ [.meth m] },
          .ret [p.methResult m { o with tmpList := [] }])
      | some f, some m =>
        let o1 : Obj δ Du κ α ε χ :=
          { o with tmpList := [p.funcResult f { o with tmpList := [] }], calls := o.calls ++ [.func f] }
        ({ o1 with tmpList := o1.tmpList ++ [p.methResult m o1], calls := o1.calls ++ [.meth m] },
          .ret (o1.tmpList ++ [p.methResult m o1])) := by
  unfold runCb
  cases hf : F.lookup name <;> cases hm : Mt.lookup name <;>
    ftsimp [dget, dlookup, hF, hM, hf, hm, callFunc, callMeth, excIsA]

/-! ### `_send_events` -/

/-- the items every on_enter / on_exit event carries -/
def sendItems (p : Prims δ Du κ α ε χ η) (trigger : String) (s : String) (o : Obj δ Du κ α ε χ) :
    List (String × Arg) :=
  [("sdata", .sdata (dofPairs ((o.sdata.filter fun kv => !(p.startsWith kv.1 "_")).map fun kv => (kv.1, kv.2)))),
   ("trigger", .str (p.removePrefix trigger "on_")), ("state", .ostr (some s)), ("value", .val o.output)]

/-- a loop whose body only appends one call that does not depend on earlier calls -/
theorem forEach_calls {β : Type} (body : β → M (Obj δ Du κ α ε χ) Unit Unit)
    (c : β → Obj δ Du κ α ε χ → Call κ α ε)
    (hb : ∀ x o, body x o = ({ o with calls := o.calls ++ [c x o] }, .next ()))
    (hc : ∀ x (o : Obj δ Du κ α ε χ) cs, c x { o with calls := cs } = c x o)
    (l : List β) (o : Obj δ Du κ α ε χ) :
    forEach l body o = ({ o with calls := o.calls ++ l.map fun x => c x o }, .next ()) := by
  induction l generalizing o with
  | nil => simp [forEach, Gen.TrFT.pure]
  | cons x rest ih =>
    simp only [forEach, hb]
    rw [ih]
    simp [hc, List.append_assoc]

/-- `_send_events(trigger)`: nothing when no events are configured for the current state; otherwise every
    configured event is sent once, in order, carrying `sdata` without the private items, the trigger without its
    `on_` prefix, the current state and the current output -/
theorem sendEvents_spec (p : Prims δ Du κ α ε χ η) (trigger s : String) (o : Obj δ Du κ α ε χ)
    (tbl : List (String × List ε)) (hs : o.state = some s) (ht : o.stateEvents.lookup trigger = some tbl) :
    sendEvents p trigger o =
      match tbl.lookup s with
      | none => (o, .ret ())
      | some evs => ({ o with calls := o.calls ++ evs.map fun ev => Call.send ev (sendItems p trigger s o) },
          .next ()) := by
  unfold sendEvents
  cases he : tbl.lookup s with
  | none => ftsimp [dget, dgetO, dlookup, hs, ht, he, excIsA]
  | some evs =>
    ftsimp [dget, dgetO, dlookup, hs, ht, he, excIsA]
    rw [forEach_calls _ (fun ev o1 => Call.send ev (sendItems p trigger s o1))]
    · simp [hs]
    · intro ev o1
      simp [sendEventsLoop0, Gen.TrFT.seq, Gen.TrFT.skip, Gen.TrFT.bind, Gen.TrFT.gets, Gen.TrFT.pure, sendEvent,
        Gen.TrFT.modify, sendItems]
    · intro ev o1 cs
      rfl

/-! ### `_build_tables` -/

/-- the dict `_ct_transition` {(event, state-or-None): target} as the model's table -/
def trOf (d : List ((String × Option String) × Option String)) : TransTable :=
  d.map fun x => (x.1.1, x.1.2, x.2)

theorem trOf_append (d d' : List ((String × Option String) × Option String)) :
    trOf (d ++ d') = trOf d ++ trOf d' := by simp [trOf]

theorem dhas_eq_tget (d : List ((String × Option String) × Option String)) (e : String) (k : Option String) :
    dhas d (e, k) = (tget (trOf d) e k).isSome := by
  induction d with
  | nil => rfl
  | cons x rest ih =>
    obtain ⟨⟨e', k'⟩, t⟩ := x
    unfold dhas tget trOf at *
    simp only [List.lookup, List.map_cons, List.find?_cons]
    by_cases h : (e, k) = (e', k')
    · cases h; simp
    · have h1 : ((e, k) == (e', k')) = false := by simpa using h
      have h2 : (e' == e && k' == k) = false := by
        rw [Bool.and_eq_false_iff]
        by_cases he : e' = e
        · right; subst he; simpa using fun hk => h (by rw [hk])
        · left; simpa using he
      simp only [h1, h2]
      exact ih

theorem addTransition_spec (p : Prims δ Du κ α ε χ η) (e : String) (fr to : Option String)
    (o : Obj δ Du κ α ε χ) :
    Gen.TrFT.addTransition p e fr to o =
      match Fsm.addTransition o.ctStates (trOf o.ctTransition) e fr to with
      | .ok _ => ({ o with ctTransition := o.ctTransition ++ [((e, fr), to)] }, .next ())
      | .error _ => (o, .raise "ValueError") := by
  unfold Gen.TrFT.addTransition Fsm.addTransition
  have hd := dhas_eq_tget o.ctTransition e fr
  cases fr with
  | none =>
    cases hk : (tget (trOf o.ctTransition) e none).isSome <;>
      ftsimp [hd, hk, dset]
  | some s =>
    by_cases hs : s ∈ o.ctStates
    · cases hk : (tget (trOf o.ctTransition) e (some s)).isSome <;>
        ftsimp [hd, hk, dset, checkState_spec, hs]
    · ftsimp [checkState_spec, hs]

/-- a translated statement and a step of the model agree: both fail (the program with ValueError), or both
    succeed and the program's state is the one described -/
def Agree {σ X E : Type} (r : σ × Out Unit Unit) (m : Except E X) (P : X → σ → Prop) : Prop :=
  match m with
  | .ok x => r.2 = .next () ∧ P x r.1
  | .error _ => r.2 = .raise "ValueError"

/-- the body of the loops `for fstate in from_states: add_transition(event, fstate.strip(), next_state)` -/
abbrev addStep (p : Prims δ Du κ α ε χ η) (e : String) (to : Option String) (x : String) :
    M (Obj δ Du κ α ε χ) Unit Unit :=
  Gen.TrFT.seq (Gen.TrFT.bind (callProc (Gen.TrFT.addTransition p e (some (p.strip x)) to))
    fun _ => Gen.TrFT.skip) Gen.TrFT.skip

theorem addFroms_spec (p : Prims δ Du κ α ε χ η) (e : String) (to : Option String) (l : List String)
    (o : Obj δ Du κ α ε χ) :
    Agree
      (forEach l (fun x => addStep p e to x) o)
      (addFroms o.ctStates e to (trOf o.ctTransition) (l.map p.strip))
      (fun tr' o' => o' = { o with ctTransition := o.ctTransition ++ l.map fun x => ((e, some (p.strip x)), to) } ∧
        tr' = trOf o'.ctTransition) := by
  induction l generalizing o with
  | nil => simp [Agree, forEach, addFroms, Gen.TrFT.pure]
  | cons x rest ih =>
    have ha := addTransition_spec p e (some (p.strip x)) to o
    cases hm : Fsm.addTransition o.ctStates (trOf o.ctTransition) e (some (p.strip x)) to with
    | error err =>
      rw [hm] at ha
      have hbx : addStep p e to x o = (o, .raise "ValueError") := by ftsimp [addStep, ha]
      simp only [forEach, List.map_cons, addFroms, hm, hbx, Agree]
    | ok tr1 =>
      rw [hm] at ha
      have htr1 : tr1 = trOf (o.ctTransition ++ [((e, some (p.strip x)), to)]) := by
        unfold Fsm.addTransition at hm
        split at hm
        · split at hm
          · cases hm
          · split at hm
            · cases hm
            · simp at hm; rw [← hm, trOf_append]; rfl
        · split at hm
          · cases hm
          · simp at hm; rw [← hm, trOf_append]; rfl
      have hbx : addStep p e to x o =
          ({ o with ctTransition := o.ctTransition ++ [((e, some (p.strip x)), to)] }, .next ()) := by
        ftsimp [addStep, ha]
      have ih' := ih { o with ctTransition := o.ctTransition ++ [((e, some (p.strip x)), to)] }
      simp only [← htr1] at ih'
      simp only [forEach, List.map_cons, addFroms, hm, hbx]
      cases hr : addFroms o.ctStates e to tr1 (List.map p.strip rest) with
      | error err => rw [hr] at ih'; simpa [Agree] using ih'
      | ok tr2 => rw [hr] at ih'; simpa [Agree, List.append_assoc] using ih'

/-- the from-states of a rule as the model wants them: `'a | b'` split and stripped, a sequence stripped -/
def normFroms (p : Prims δ Du κ α ε χ η) : FromSpec → Option (List String)
  | .none => none
  | .str s => some ((p.split s "|").map p.strip)
  | .seq l => some (l.map p.strip)

def ruleOf (p : Prims δ Du κ α ε χ η) (r : String × FromSpec × Option String) : RawRule :=
  ⟨r.1, normFroms p r.2.1, r.2.2⟩

/-- only `_ct_events` and `_ct_transition` differ -/
def FrameET (o o' : Obj δ Du κ α ε χ) : Prop :=
  o' = { o with ctEvents := o'.ctEvents, ctTransition := o'.ctTransition }

theorem FrameET.refl (o : Obj δ Du κ α ε χ) : FrameET o o := rfl

theorem FrameET.trans {o o' o'' : Obj δ Du κ α ε χ} (a : FrameET o o') (b : FrameET o' o'') : FrameET o o'' := by
  unfold FrameET at *
  rw [b, a]

/-- what a pass of the EVENTS loop has to do -/
def RuleStepOk (p : Prims δ Du κ α ε χ η) (body : String × FromSpec × Option String → M (Obj δ Du κ α ε χ) Unit Unit)
    (rules : List (String × FromSpec × Option String)) : Prop :=
  ∀ r ∈ rules, ∀ o : Obj δ Du κ α ε χ, dhas o.ctHandlers r.1 = false →
    Agree (body r o) (addRule o.ctStates (o.ctEvents, trOf o.ctTransition) (ruleOf p r))
      (fun acc' o' => o'.ctEvents = acc'.1 ∧ trOf o'.ctTransition = acc'.2 ∧ FrameET o o')

theorem addRules_spec (p : Prims δ Du κ α ε χ η)
    (body : String × FromSpec × Option String → M (Obj δ Du κ α ε χ) Unit Unit)
    (rules : List (String × FromSpec × Option String)) (hb : RuleStepOk p body rules)
    (o : Obj δ Du κ α ε χ) (hh : ∀ r ∈ rules, dhas o.ctHandlers r.1 = false) :
    Agree (forEach rules body o) (addRules o.ctStates (o.ctEvents, trOf o.ctTransition) (rules.map (ruleOf p)))
      (fun acc' o' => o'.ctEvents = acc'.1 ∧ trOf o'.ctTransition = acc'.2 ∧ FrameET o o') := by
  induction rules generalizing o with
  | nil => simp [Agree, forEach, addRules, Gen.TrFT.pure, FrameET.refl]
  | cons r rest ih =>
    have h1 := hb r (List.mem_cons_self ..) o (hh r (List.mem_cons_self ..))
    simp only [forEach, List.map_cons, addRules]
    cases hm : addRule o.ctStates (o.ctEvents, trOf o.ctTransition) (ruleOf p r) with
    | error err =>
      rw [hm] at h1
      simp only [Agree] at h1 ⊢
      rcases hbr : body r o with ⟨o1, fl⟩
      rw [hbr] at h1
      simp only at h1
      subst h1
      rfl
    | ok acc1 =>
      rw [hm] at h1
      simp only [Agree] at h1
      rcases hbr : body r o with ⟨o1, fl⟩
      rw [hbr] at h1
      obtain ⟨hfl, he, ht, hfr⟩ := h1
      simp only at hfl he ht hfr
      subst hfl
      simp only
      have hst : o1.ctStates = o.ctStates := by rw [hfr]
      have hhd : o1.ctHandlers = o.ctHandlers := by rw [hfr]
      have ih' := ih (fun r' hr' => hb r' (List.mem_cons_of_mem _ hr')) o1
        (fun r' hr' => by rw [hhd]; exact hh r' (List.mem_cons_of_mem _ hr'))
      rw [hst, he, ht] at ih'
      have hacc : (acc1.1, acc1.2) = acc1 := rfl
      rw [hacc] at ih'
      cases hr : addRules o.ctStates acc1 (List.map (ruleOf p) rest) with
      | error err => rw [hr] at ih'; simpa [Agree] using ih'
      | ok acc2 =>
        rw [hr] at ih'
        simp only [Agree] at ih' ⊢
        exact ⟨ih'.1, ih'.2.1, ih'.2.2.1, hfr.trans ih'.2.2.2⟩

theorem seq_next {σ ρ β : Type} {a : M σ ρ Unit} {b : M σ ρ β} {o o' : σ} (h : a o = (o', .next ())) :
    Gen.TrFT.seq a b o = b o' := by
  simp [Gen.TrFT.seq, Gen.TrFT.bind, h]

theorem seq_raise {σ ρ β : Type} {a : M σ ρ Unit} {b : M σ ρ β} {o o' : σ} {x : PyExc}
    (h : a o = (o', .raise x)) : Gen.TrFT.seq a b o = (o', .raise x) := by
  simp [Gen.TrFT.seq, Gen.TrFT.bind, h]

theorem bind_liftE_ok {σ ρ β γ : Type} {f : σ → Except PyExc β} {k : β → M σ ρ γ} {o : σ} {a : β}
    (h : f o = .ok a) : Gen.TrFT.bind (liftE f) k o = k a o := by
  simp [Gen.TrFT.bind, liftE, h]

theorem bind_gets {σ ρ β γ : Type} (g : σ → β) (k : β → M σ ρ γ) (o : σ) :
    Gen.TrFT.bind (gets g) k o = k (g o) o := by
  simp [Gen.TrFT.bind, gets]

theorem seq_loop_next {σ ρ β γ : Type} {g : σ → List β} {body : β → M σ ρ Unit} {b : M σ ρ γ} {o o' : σ}
    (h : forEach (g o) body o = (o', .next ())) :
    Gen.TrFT.seq (Gen.TrFT.bind (gets g) fun v => forEach v body) b o = b o' := by
  simp [Gen.TrFT.seq, Gen.TrFT.bind, gets, h]

theorem seq_loop_raise {σ ρ β γ : Type} {g : σ → List β} {body : β → M σ ρ Unit} {b : M σ ρ γ} {o o' : σ}
    {x : PyExc} (h : forEach (g o) body o = (o', .raise x)) :
    Gen.TrFT.seq (Gen.TrFT.bind (gets g) fun v => forEach v body) b o = (o', .raise x) := by
  simp [Gen.TrFT.seq, Gen.TrFT.bind, gets, h]

theorem insertNew_eq_sadd (l : List String) (x : String) : insertNew l x = sadd l x := rfl

/-- the body of the translated EVENTS loop does what the model's `addRule` does -/
theorem buildTablesLoop1_ok (p : Prims δ Du κ α ε χ η) (hcn : ∀ n w, p.checkName n w = .ok ())
    (rules : List (String × FromSpec × Option String)) : RuleStepOk p (buildTablesLoop1 p) rules := by
  intro r _ o hh
  obtain ⟨e, fs, to⟩ := r
  simp only at hh
  have htr : ∀ tr1 fr, Fsm.addTransition o.ctStates (trOf o.ctTransition) e fr to = .ok tr1 →
      tr1 = trOf (o.ctTransition ++ [((e, fr), to)]) := by
    intro tr1 fr hm
    unfold Fsm.addTransition at hm
    split at hm
    · split at hm
      · cases hm
      · split at hm
        · cases hm
        · simp at hm; rw [← hm, trOf_append]; rfl
    · split at hm
      · cases hm
      · simp at hm; rw [← hm, trOf_append]; rfl
  -- the target state is checked first
  have hbad : ∀ t, to = some t → ¬ t ∈ o.ctStates →
      Agree (buildTablesLoop1 p (e, fs, to) o)
        (addRule o.ctStates (o.ctEvents, trOf o.ctTransition) (ruleOf p (e, fs, to)))
        (fun acc' o' => o'.ctEvents = acc'.1 ∧ trOf o'.ctTransition = acc'.2 ∧ FrameET o o') := by
    intro t ht hn
    subst ht
    unfold buildTablesLoop1 addRule ruleOf
    ftsimp [hcn, hh, checkState_spec, hn, Agree, targetOk]
  have good : targetOk o.ctStates to = true →
      (∀ t, to = some t → t ∈ o.ctStates) →
      Agree (buildTablesLoop1 p (e, fs, to) o)
        (addRule o.ctStates (o.ctEvents, trOf o.ctTransition) (ruleOf p (e, fs, to)))
        (fun acc' o' => o'.ctEvents = acc'.1 ∧ trOf o'.ctTransition = acc'.2 ∧ FrameET o o') := by
    intro hto hin
    unfold buildTablesLoop1
    simp only []
    rw [seq_next (o' := o) (by ftsimp [hcn])]
    rw [seq_next (o' := o) (by ftsimp [hh])]
    rw [seq_next (o' := { o with ctEvents := sadd o.ctEvents e }) (by ftsimp [])]
    rw [seq_next (o' := { o with ctEvents := sadd o.ctEvents e }) (by
      cases to with
      | none => rfl
      | some t => ftsimp [checkState_spec, hin t rfl])]
    unfold addRule ruleOf
    simp only [hto, if_true]
    -- the loops over the from-states, in terms of the model
    have hfe : ∀ L : List String,
        Agree (forEach L (fun x => addStep p e to x) { o with ctEvents := sadd o.ctEvents e })
          (addFroms o.ctStates e to (trOf o.ctTransition) (L.map p.strip))
          (fun tr' o' => o' = { o with
              ctEvents := (sadd o.ctEvents e)
              ctTransition := (o.ctTransition ++ L.map fun x => ((e, some (p.strip x)), to)) } ∧
            tr' = trOf o'.ctTransition) :=
      fun L => addFroms_spec p e to L { o with ctEvents := sadd o.ctEvents e }
    have loopcase : ∀ L : List String,
        Agree (Gen.TrFT.seq (Gen.TrFT.seq (forEach L (fun x => addStep p e to x)) Gen.TrFT.skip) Gen.TrFT.skip
            { o with ctEvents := sadd o.ctEvents e })
          (match addFroms o.ctStates e to (trOf o.ctTransition) (L.map p.strip) with
            | Except.error x => Except.error x
            | Except.ok tr => Except.ok (insertNew o.ctEvents e, tr))
          (fun acc' o' => o'.ctEvents = acc'.1 ∧ trOf o'.ctTransition = acc'.2 ∧ FrameET o o') := by
      intro L
      have h := hfe L
      rcases hfo : forEach L (fun x => addStep p e to x) { o with ctEvents := sadd o.ctEvents e } with ⟨o2, fl⟩
      rw [hfo] at h
      cases hr : addFroms o.ctStates e to (trOf o.ctTransition) (L.map p.strip) with
      | error err =>
        rw [hr] at h
        simp only [Agree] at h ⊢
        subst h
        rw [seq_raise (o' := o2) (x := "ValueError") (by rw [seq_raise hfo])]
      | ok tr2 =>
        rw [hr] at h
        simp only [Agree] at h ⊢
        obtain ⟨h1, h2, h3⟩ := h
        subst h1
        rw [seq_next (o' := o2) (by rw [seq_next hfo]; rfl)]
        subst h2
        exact ⟨rfl, rfl, h3.symm, rfl⟩
    cases fs with
    | none =>
      simp only [FromSpec.isNone, normFroms, if_true]
      cases hm : Fsm.addTransition o.ctStates (trOf o.ctTransition) e none to with
      | error err => ftsimp [addTransition_spec, hm, Agree]
      | ok tr1 =>
        have := htr tr1 none hm
        subst this
        ftsimp [addTransition_spec, hm, Agree, insertNew_eq_sadd, FrameET, trOf_append]
    | str sx =>
      simp only [FromSpec.isNone, FromSpec.isStr, normFroms, Bool.false_eq_true, if_false, if_true]
      have h2 := loopcase (p.split sx "|")
      simp only [Gen.TrFT.seq, Gen.TrFT.bind, Gen.TrFT.liftE, Gen.TrFT.gets, FromSpec.split, addStep] at h2 ⊢
      exact h2
    | seq l =>
      simp only [FromSpec.isNone, FromSpec.isStr, normFroms, Bool.false_eq_true, if_false]
      have h2 := loopcase l
      simp only [Gen.TrFT.seq, Gen.TrFT.bind, Gen.TrFT.liftE, Gen.TrFT.gets, FromSpec.items, addStep] at h2 ⊢
      exact h2
  cases to with
  | some t =>
    by_cases ht : t ∈ o.ctStates
    · exact good (by simp [targetOk, ht]) (fun t' h => by cases h; exact ht)
    · exact hbad t rfl ht
  | none => exact good rfl (fun t h => by cases h)

/-! the TIMERS loop -/

def timEType : TimEv → EType
  | .ev n => .ev n
  | .goto s => .goto s

/-- the model's `timerOk` on the event of a TIMERS entry -/
def timEvOk (states events : List String) (ev : TimEv) : Bool :=
  match ev with
  | .goto g => states.contains g
  | .ev n => events.contains n

/-- only `_ct_default_duration` and `_ct_timed_event` differ -/
def FrameDT (o o' : Obj δ Du κ α ε χ) : Prop :=
  o' = { o with ctDefaultDuration := o'.ctDefaultDuration, ctTimedEvent := o'.ctTimedEvent }

theorem timerStep_spec (p : Prims δ Du κ α ε χ η) (s : String) (dur : δ) (ev : TimEv) (du : Option Du)
    (o : Obj δ Du κ α ε χ) (hper : p.timePeriod dur = .ok du) :
    buildTablesLoop2 p (s, (dur, ev)) o =
      if timEvOk o.ctStates o.ctEvents ev then
        ({ o with ctDefaultDuration := dset o.ctDefaultDuration s du, ctTimedEvent := dset o.ctTimedEvent s ev },
          .next ())
      else ({ o with ctDefaultDuration := dset o.ctDefaultDuration s du }, .raise "ValueError") := by
  unfold buildTablesLoop2
  cases ev with
  | goto g =>
    by_cases hg : g ∈ o.ctStates <;>
      ftsimp [hper, excIsA, TimEv.isGoto, TimEv.state, checkState_spec, timEvOk, hg]
  | ev n =>
    by_cases hn : n ∈ o.ctEvents <;>
      ftsimp [hper, excIsA, TimEv.isGoto, TimEv.inSet, timEvOk, hn]

theorem timersLoop_spec (p : Prims δ Du κ α ε χ η) (tl : List (String × (δ × TimEv)))
    (o : Obj δ Du κ α ε χ) (hper : ∀ t ∈ tl, ∃ du, p.timePeriod t.2.1 = .ok du) :
    if tl.all (fun t => timEvOk o.ctStates o.ctEvents t.2.2) then
      (forEach tl (buildTablesLoop2 p) o).2 = .next () ∧ FrameDT o (forEach tl (buildTablesLoop2 p) o).1 ∧
      (forEach tl (buildTablesLoop2 p) o).1.ctTimedEvent = tl.foldl (fun d t => dset d t.1 t.2.2) o.ctTimedEvent
    else (forEach tl (buildTablesLoop2 p) o).2 = .raise "ValueError" := by
  induction tl generalizing o with
  | nil => simp [forEach, Gen.TrFT.pure, FrameDT]
  | cons t rest ih =>
    obtain ⟨s, dur, ev⟩ := t
    obtain ⟨du, hdu⟩ := hper (s, dur, ev) (List.mem_cons_self ..)
    have hstep := timerStep_spec p s dur ev du o hdu
    simp only [forEach, List.all_cons, List.foldl_cons]
    rw [hstep]
    by_cases hok : timEvOk o.ctStates o.ctEvents ev = true
    rotate_left
    · have hf : timEvOk o.ctStates o.ctEvents ev = false := by simpa using hok
      simp [hf]
    · simp only [hok, if_true, Bool.true_and]
      have ih' := ih { o with ctDefaultDuration := dset o.ctDefaultDuration s du,
                              ctTimedEvent := dset o.ctTimedEvent s ev }
        (fun t ht => hper t (List.mem_cons_of_mem _ ht))
      simp only at ih'
      split
      · next hall =>
        rw [if_pos hall] at ih'
        refine ⟨ih'.1, ?_, ih'.2.2⟩
        have := ih'.2.1
        unfold FrameDT at this ⊢
        rw [this]
      · next hall =>
        rw [if_neg hall] at ih'
        exact ih'

/-! the loop over `vars(cls)`: which callbacks are collected -/

/-- one class attribute: its name must split at the FIRST `_` into a known callback kind (`cond`, `enter`,
    `exit`) and the name of an event (for `cond`) or of a state (otherwise), and it must be callable -/
def collectStep (p : Prims δ Du κ α ε χ η) (events states : List String)
    (ms : List (String × List (String × α))) (x : String × α) : List (String × List (String × α)) :=
  match unpack2 (p.splitOnce x.1 "_") with
  | .error _ => ms
  | .ok (ty, nm) =>
    match ms.lookup ty with
    | none => ms
    | some _ =>
      if (if ty == "cond" then events else states).contains nm && p.callable x.2 then dset2 ms ty nm x.2 else ms

theorem varsStep_spec (p : Prims δ Du κ α ε χ η) (x : String × α) (o : Obj δ Du κ α ε χ) :
    (buildTablesLoop3 p x o).1 = { o with ctMethods := collectStep p o.ctEvents o.ctStates o.ctMethods x } ∧
    ((buildTablesLoop3 p x o).2 = .next () ∨ (buildTablesLoop3 p x o).2 = .cont) := by
  obtain ⟨name, attr⟩ := x
  unfold buildTablesLoop3 collectStep
  cases hu : unpack2 (p.splitOnce name "_") with
  | error err =>
    have : err = "ValueError" := by
      unfold unpack2 at hu
      split at hu
      · cases hu
      · cases hu; rfl
    subst this
    ftsimp [hu, excIsA]
  | ok tn =>
    obtain ⟨ty, nm⟩ := tn
    cases hl : o.ctMethods.lookup ty with
    | none => ftsimp [hu, hl, dget, excIsA]
    | some inner =>
      by_cases hm : nm ∈ (if ty = "cond" then o.ctEvents else o.ctStates) <;>
        cases hcb : p.callable attr <;>
        ftsimp [hu, hl, dget, excIsA, hm, hcb]

theorem varsLoop_spec (p : Prims δ Du κ α ε χ η) (l : List (String × α)) (o : Obj δ Du κ α ε χ) :
    forEach l (buildTablesLoop3 p) o =
      ({ o with ctMethods := l.foldl (collectStep p o.ctEvents o.ctStates) o.ctMethods }, .next ()) := by
  induction l generalizing o with
  | nil => simp [forEach, Gen.TrFT.pure]
  | cons x rest ih =>
    obtain ⟨h1, h2⟩ := varsStep_spec p x o
    rcases hb : buildTablesLoop3 p x o with ⟨o1, fl⟩
    rw [hb] at h1 h2
    simp only at h1 h2
    subst h1
    simp only [forEach, hb, List.foldl_cons]
    rcases h2 with h | h <;> subst h <;> simp only [] <;> rw [ih]

/-- the loop `for state in cls._ct_states: block.check_name(state, …)` when no name is refused -/
theorem namesLoop_spec (p : Prims δ Du κ α ε χ η) (hcn : ∀ n w, p.checkName n w = .ok ()) (l : List String)
    (o : Obj δ Du κ α ε χ) : forEach l (buildTablesLoop0 p) o = (o, .next ()) := by
  induction l generalizing o with
  | nil => simp [forEach, Gen.TrFT.pure]
  | cons x rest ih =>
    have : buildTablesLoop0 p x o = (o, .next ()) := by unfold buildTablesLoop0; ftsimp [hcn]
    simp only [forEach, this, ih]

/-! `_build_tables` as a whole -/

/-- the class attributes as the model's `Spec`: from-states normalised (`'a | b'` split, names stripped), a
    TIMERS entry as (state, timed event, is the duration zero) -/
def specOf (p : Prims δ Du κ α ε χ η) (zero : δ → Bool) (o : Obj δ Du κ α ε χ) (sts : List String) : Spec :=
  { states := sts, rules := o.EVENTS.map (ruleOf p),
    timers := o.TIMERS.map fun t => (t.1, timEType t.2.2, zero t.2.1) }

theorem ctStates_specOf (p : Prims δ Du κ α ε χ η) (zero : δ → Bool) (o : Obj δ Du κ α ε χ) (sts : List String) :
    Fsm.ctStates (specOf p zero o sts) = sunion (sofList sts) (o.TIMERS.map (·.1)) := by
  unfold Fsm.ctStates specOf sunion sofList
  simp only [List.map_map, List.foldl_append]
  rfl

/-- the block after the seven assignments that create the empty tables -/
def resetObj (o : Obj δ Du κ α ε χ) : Obj δ Du κ α ε χ :=
  { o with
    ctStates := sunion (sofList o.STATES.items) (o.TIMERS.map (·.1))
    ctEvents := []
    ctTransition := []
    ctDefaultDuration := []
    ctTimedEvent := []
    ctMethods := [("enter", []), ("exit", []), ("cond", [])]
    ctPrefixes := [("t_", 2, TableRef.defaultDuration), ("cond_", 5, TableRef.events),
      ("enter_", 6, TableRef.states), ("exit_", 5, TableRef.states), ("on_enter_", 9, TableRef.states),
      ("on_exit_", 8, TableRef.states)] }

/-- `_ct_default_state`: the first of STATES, else the first key of TIMERS -/
def defaultState {β : Type} (sts : List String) (timers : List (String × β)) : String :=
  match sts, timers with
  | x :: _, _ => x
  | [], t :: _ => t.1
  | [], [] => ""

theorem timers_find_iff (zero : δ → Bool) (states evs : List String) (tl : List (String × (δ × TimEv))) :
    ((tl.map fun t => (t.1, timEType t.2.2, zero t.2.1)).find? (fun t => !timerOk states evs t)).isNone =
      tl.all (fun t => timEvOk states evs t.2.2) := by
  induction tl with
  | nil => rfl
  | cons t rest ih =>
    obtain ⟨s, dur, ev⟩ := t
    have : timerOk states evs (s, timEType ev, zero dur) = timEvOk states evs ev := by
      cases ev <;> rfl
    simp only [List.map_cons, List.find?_cons, List.all_cons, this]
    cases timEvOk states evs ev
    · simp
    · simp only [Bool.not_true, Bool.true_and]
      exact ih

theorem sadd_ne_nil (l : List String) (x : String) : sadd l x ≠ [] := by
  unfold sadd; split
  · next h => intro hn; rw [hn] at h; simp at h
  · simp

theorem foldl_sadd_ne_nil (l acc : List String) (h : acc ≠ [] ∨ l ≠ []) : l.foldl sadd acc ≠ [] := by
  induction l generalizing acc with
  | nil => rcases h with h | h; exact h; exact absurd rfl h
  | cons x rest ih => exact ih _ (.inl (sadd_ne_nil acc x))

theorem buildTables_spec (p : Prims δ Du κ α ε χ η) (zero : δ → Bool) (o : Obj δ Du κ α ε χ)
    (sts : List String) (hS : o.STATES = .seq sts) (hcn : ∀ n w, p.checkName n w = .ok ())
    (hh : ∀ r ∈ o.EVENTS, dhas o.ctHandlers r.1 = false)
    (hper : ∀ t ∈ o.TIMERS, ∃ du, p.timePeriod t.2.1 = .ok du) :
    match Fsm.buildTables (specOf p zero o sts) with
    | .error _ => (Gen.TrFT.buildTables p o).2 = .raise "ValueError"
    | .ok t =>
      (Gen.TrFT.buildTables p o).2 = .next () ∧
      (Gen.TrFT.buildTables p o).1.ctStates = t.states ∧
      (Gen.TrFT.buildTables p o).1.ctEvents = t.events ∧
      trOf (Gen.TrFT.buildTables p o).1.ctTransition = t.trans ∧
      (Gen.TrFT.buildTables p o).1.ctChainlimit = t.chainLimit ∧
      (Gen.TrFT.buildTables p o).1.ctTimedEvent = o.TIMERS.foldl (fun d t => dset d t.1 t.2.2) [] ∧
      (Gen.TrFT.buildTables p o).1.ctMethods =
        o.classVars.foldl (collectStep p t.events t.states) [("enter", []), ("exit", []), ("cond", [])] ∧
      (Gen.TrFT.buildTables p o).1.ctPrefixes = (resetObj o).ctPrefixes := by
  have hstates := ctStates_specOf p zero o sts
  unfold Gen.TrFT.buildTables
  rw [seq_next (by rfl), seq_next (by rfl), seq_next (by rfl), seq_next (by rfl), seq_next (by rfl),
    seq_next (by rfl), seq_next (o' := resetObj o) (by rfl)]
  rw [seq_next (o' := resetObj o) (by simp [resetObj, hS, StatesAttr.isStr, Gen.TrFT.skip, Gen.TrFT.pure])]
  have hSt : (resetObj o).ctStates = Fsm.ctStates (specOf p zero o sts) := by
    rw [hstates]; simp [resetObj, hS, StatesAttr.items]
  by_cases hemp : sts = [] ∧ o.TIMERS = []
  · -- no states at all
    have h0 : Fsm.ctStates (specOf p zero o sts) = [] := by
      rw [hstates]; simp [hemp, sofList, sunion]
    unfold Fsm.buildTables
    simp only [h0, List.isEmpty_nil, if_true]
    rw [seq_raise (o' := resetObj o) (x := "ValueError") (by
      simp [resetObj, hS, hemp, StatesAttr.truthy, Gen.TrFT.seq, Gen.TrFT.bind, Gen.TrFT.raise])]
  · -- the default initial state
    generalize hdf : defaultState sts o.TIMERS = dflt
    rw [seq_next (o' := { resetObj o with ctDefaultState := dflt }) (by
      subst hdf
      cases hs : sts with
      | cons x xs =>
        simp [resetObj, hS, hs, defaultState, StatesAttr.truthy, StatesAttr.first, StatesAttr.items, Gen.TrFT.seq,
          Gen.TrFT.bind, Gen.TrFT.liftE, Gen.TrFT.modify, Gen.TrFT.skip, Gen.TrFT.pure]
      | nil =>
        cases ht : o.TIMERS with
        | nil => exact absurd ⟨hs, ht⟩ hemp
        | cons t ts =>
          simp [resetObj, hS, hs, ht, defaultState, StatesAttr.truthy, dfirstKey, Gen.TrFT.seq,
            Gen.TrFT.bind, Gen.TrFT.liftE, Gen.TrFT.modify, Gen.TrFT.skip, Gen.TrFT.pure])]
    rw [seq_loop_next (o' := { resetObj o with ctDefaultState := dflt }) (namesLoop_spec p hcn _ _)]
    rw [seq_next (o' := { resetObj o with
        ctDefaultState := dflt
        ctChainlimit := (3 * (resetObj o).ctStates.length) }) (by rfl)]
    generalize hoC : ({ resetObj o with
        ctDefaultState := dflt
        ctChainlimit := (3 * (resetObj o).ctStates.length) } : Obj δ Du κ α ε χ) = oC
    have hC1 : oC.ctStates = Fsm.ctStates (specOf p zero o sts) := by rw [← hoC]; exact hSt
    have hC2 : oC.ctEvents = [] ∧ oC.ctTransition = [] ∧ oC.EVENTS = o.EVENTS ∧ oC.TIMERS = o.TIMERS ∧
        oC.classVars = o.classVars ∧ oC.ctHandlers = o.ctHandlers ∧ oC.ctTimedEvent = [] ∧
        oC.ctMethods = [("enter", []), ("exit", []), ("cond", [])] ∧
        oC.ctChainlimit = 3 * (Fsm.ctStates (specOf p zero o sts)).length ∧
        oC.ctPrefixes = (resetObj o).ctPrefixes := by
      rw [← hoC, ← hSt]; exact ⟨rfl, rfl, rfl, rfl, rfl, rfl, rfl, rfl, rfl, rfl⟩
    obtain ⟨hCe, hCt, hCE, hCT, hCV, hCH, hCTe, hCM, hCL, hCP⟩ := hC2
    have hne : (Fsm.ctStates (specOf p zero o sts)).isEmpty = false := by
      rw [hstates]
      have : sunion (sofList sts) (o.TIMERS.map (·.1)) ≠ [] := by
        unfold sunion sofList
        rw [← List.foldl_append]
        apply foldl_sadd_ne_nil
        right
        intro h
        simp at h
        exact hemp h
      cases h : sunion (sofList sts) (o.TIMERS.map (·.1)) with
      | nil => exact absurd h this
      | cons _ _ => rfl
    -- the EVENTS loop
    have hev := addRules_spec p (buildTablesLoop1 p) o.EVENTS (buildTablesLoop1_ok p hcn _) oC
      (by rw [hCH]; exact hh)
    rw [hC1, hCe, hCt] at hev
    unfold Fsm.buildTables
    simp only [hne, Bool.false_eq_true, if_false]
    have hrules : (specOf p zero o sts).rules = o.EVENTS.map (ruleOf p) := rfl
    rw [hrules]
    rcases hfe : forEach o.EVENTS (buildTablesLoop1 p) oC with ⟨oD, fl⟩
    rw [hfe] at hev
    have hfe' : forEach ((fun o => o.EVENTS) oC) (buildTablesLoop1 p) oC = (oD, fl) := by
      simp only [hCE]; exact hfe
    cases hr : addRules (Fsm.ctStates (specOf p zero o sts)) ([], trOf []) (o.EVENTS.map (ruleOf p)) with
    | error err =>
      rw [hr] at hev
      simp only [Agree] at hev
      subst hev
      rw [seq_loop_raise hfe']
      have : trOf ([] : List ((String × Option String) × Option String)) = [] := rfl
      rw [this] at hr
      simp only [hr]
    | ok acc =>
      obtain ⟨evs, tr⟩ := acc
      rw [hr] at hev
      simp only [Agree] at hev
      obtain ⟨hfl, hDe, hDt, hDf⟩ := hev
      subst hfl
      rw [seq_loop_next hfe']
      have hnil : trOf ([] : List ((String × Option String) × Option String)) = [] := rfl
      rw [hnil] at hr
      simp only [hr]
      -- what the EVENTS loop left alone
      have hD : oD.ctStates = oC.ctStates ∧ oD.TIMERS = oC.TIMERS ∧ oD.classVars = oC.classVars ∧
          oD.ctTimedEvent = oC.ctTimedEvent ∧ oD.ctMethods = oC.ctMethods ∧ oD.ctChainlimit = oC.ctChainlimit ∧
          oD.ctPrefixes = oC.ctPrefixes := by
        unfold FrameET at hDf; rw [hDf]; exact ⟨rfl, rfl, rfl, rfl, rfl, rfl, rfl⟩
      obtain ⟨hDs, hDT, hDV, hDTe, hDM, hDL, hDP⟩ := hD
      -- the TIMERS loop
      have htm := timersLoop_spec p o.TIMERS oD hper
      rw [hDs, hC1, hDe] at htm
      have hfind := timers_find_iff zero (Fsm.ctStates (specOf p zero o sts)) evs o.TIMERS
      have htimers : (specOf p zero o sts).timers = o.TIMERS.map fun t => (t.1, timEType t.2.2, zero t.2.1) := rfl
      rw [htimers]
      rcases hft : forEach o.TIMERS (buildTablesLoop2 p) oD with ⟨oE, fl2⟩
      rw [hft] at htm
      have hft' : forEach ((fun o => o.TIMERS) oD) (buildTablesLoop2 p) oD = (oE, fl2) := by
        simp only [hDT, hCT]; exact hft
      cases hall : o.TIMERS.all (fun t => timEvOk (Fsm.ctStates (specOf p zero o sts)) evs t.2.2) with
      | false =>
        rw [hall] at htm hfind
        simp only [Bool.false_eq_true, if_false] at htm
        subst htm
        rw [seq_loop_raise hft']
        cases hf : List.find? (fun t => !timerOk (Fsm.ctStates (specOf p zero o sts)) evs t)
            (o.TIMERS.map fun t => (t.1, timEType t.2.2, zero t.2.1)) with
        | none => rw [hf] at hfind; simp at hfind
        | some t =>
          obtain ⟨ta, tb, tc⟩ := t
          cases tb <;> rfl
      | true =>
        rw [hall] at htm hfind
        simp only [if_true] at htm
        obtain ⟨hfl2, hEf, hEt⟩ := htm
        subst hfl2
        rw [seq_loop_next hft']
        have hE : oE.ctStates = oD.ctStates ∧ oE.ctEvents = oD.ctEvents ∧ oE.ctTransition = oD.ctTransition ∧
            oE.classVars = oD.classVars ∧ oE.ctMethods = oD.ctMethods ∧ oE.ctChainlimit = oD.ctChainlimit ∧
            oE.ctPrefixes = oD.ctPrefixes := by
          unfold FrameDT at hEf; rw [hEf]; exact ⟨rfl, rfl, rfl, rfl, rfl, rfl, rfl⟩
        obtain ⟨hEs, hEe, hEtr, hEV, hEM, hEL, hEP⟩ := hE
        have hfv : forEach ((fun o => o.classVars) oE) (buildTablesLoop3 p) oE =
            ({ oE with ctMethods := oE.classVars.foldl (collectStep p oE.ctEvents oE.ctStates) oE.ctMethods },
              .next ()) := varsLoop_spec p _ oE
        rw [seq_loop_next hfv]
        cases hf : List.find? (fun t => !timerOk (Fsm.ctStates (specOf p zero o sts)) evs t)
            (o.TIMERS.map fun t => (t.1, timEType t.2.2, zero t.2.1)) with
        | some t => rw [hf] at hfind; simp at hfind
        | none =>
          simp only [Gen.TrFT.skip, Gen.TrFT.pure]
          refine ⟨trivial, ?_, ?_, ?_, ?_, ?_, ?_, ?_⟩
          · rw [hEs, hDs, hC1]
          · rw [hEe, hDe]
          · rw [hEtr, hDt]
          · rw [hEL, hDL, hCL]
          · rw [hEt, hDTe, hCTe]
          · rw [hEV, hDV, hCV, hEe, hDe, hEs, hDs, hC1, hEM, hDM, hCM]
          · rw [hEP, hDP, hCP]

/-! ### `_run_cb` and the model's order of callbacks -/

/-- the calls `_run_cb` adds: the instance callback (if any), then the class method (if any) -/
theorem runCb_calls (p : Prims δ Du κ α ε χ η) (kind name : String) (o : Obj δ Du κ α ε χ)
    (F : List (String × κ)) (Mt : List (String × α))
    (hF : o.fsmFunctions.lookup kind = some F) (hM : o.ctMethods.lookup kind = some Mt) :
    (runCb p kind name o).1.calls =
      o.calls ++ ((F.lookup name).map Call.func).toList ++ ((Mt.lookup name).map Call.meth).toList := by
  rw [runCb_spec p kind name o F Mt hF hM]
  cases F.lookup name <;> cases Mt.lookup name <;> simp

/-- conditions as the model scripts them: an instance whose `cond` callbacks are the model's `condF` / `condM`
    and whose callbacks return what the script says for the event data in the context variable -/
theorem runCb_cond_model (d : Def) (p : Prims δ Du CondS CondS ε χ η) (e : String)
    (o : Obj δ Du CondS CondS ε χ)
    (hF : o.fsmFunctions.lookup "cond" = some d.condF) (hM : o.ctMethods.lookup "cond" = some d.condM)
    (hfr : ∀ c (o' : Obj δ Du CondS CondS ε χ), p.funcResult c o' = c.eval o'.ctxVar)
    (hmr : ∀ c (o' : Obj δ Du CondS CondS ε χ), p.methResult c o' = c.eval o'.ctxVar) :
    (runCb p "cond" e o).2 = .ret ((condsOf d e).map fun c => c.2.eval o.ctxVar) ∧
    (runCb p "cond" e o).1.calls = o.calls ++ (condsOf d e).map (fun c =>
      match c.1 with
      | .func => Call.func c.2
      | .meth => Call.meth c.2) := by
  rw [runCb_spec p "cond" e o d.condF d.condM hF hM]
  unfold condsOf
  cases hf : d.condF.lookup e <;> cases hm : d.condM.lookup e <;> simp [hfr, hmr]

/-! ### `_event` on the block of the `_ctx_event` tie -/

open F03 in
/-- the block of the `_ctx_event` tie (EdzedProofs/FsmTie03.lean) inside the object of this file -/
def tsOf (o : Obj δ Du κ α ε (Option Req × List Action × Bool)) : TS :=
  { f := { state := o.state, output := o.output, active := o.fsmEventActive, next := o.ext.1 },
    ctx := o.ctxVar, log := o.ext.2.1, enabled := o.ext.2.2 }

open F03 in
def objOf (t : TS) (base : Obj δ Du κ α ε (Option Req × List Action × Bool)) :
    Obj δ Du κ α ε (Option Req × List Action × Bool) :=
  { base with ext := (t.f.next, t.log, t.enabled), state := t.f.state, output := t.f.output,
              fsmEventActive := t.f.active, ctxVar := t.ctx }

open F03 in
theorem tsOf_objOf (t : TS) (base : Obj δ Du κ α ε (Option Req × List Action × Bool)) :
    tsOf (objOf t base) = t := rfl

open F03 in
def excName : Exc → String
  | .unknownEvent => "EdzedUnknownEvent"
  | .circuitError => "EdzedCircuitError"
  | .valueError => "ValueError"
  | .assertion => "AssertionError"
  | .other => "Exception"

open F03 in
/-- `self._ctx_event` = the method translated by tools/py2lean_fsm.py, on the primitives of the C03 model -/
def ctxEventObj (d : Def) (e : EType) (data : Data) (o : Obj δ Du κ α ε (Option Req × List Action × Bool)) :
    Obj δ Du κ α ε (Option Req × List Action × Bool) × Except PyExc Bool :=
  (objOf (Gen.TrM.ctxEvent (F03.prims d) e data (tsOf o)).1 o,
   match (Gen.TrM.ctxEvent (F03.prims d) e data (tsOf o)).2 with
   | .ret b => .ok b
   | .raise x => .error (excName x)
   | _ => .error "?")

/-! ### `__init__`: sorting the keyword arguments by prefix -/

/-- one keyword argument against the rows of `_ct_prefixes`, in order; EVERY row whose prefix matches counts
    (there is no `break`); the rest of the name must be in the container the row refers to -/
def sortArg (p : Prims δ Du κ α ε χ η) (valid : TableRef → String → Bool) (arg : String) :
    List (String × List (String × String)) → List (String × Nat × TableRef) →
      Except PyExc (List (String × List (String × String)))
  | dd, [] => .ok dd
  | dd, (pre, len, ref) :: rest =>
    if p.startsWith arg pre then
      if valid ref (p.dropPrefix arg len) then
        sortArg p valid arg (ddappend dd pre (p.dropPrefix arg len, arg)) rest
      else .error "TypeError"
    else sortArg p valid arg dd rest

/-- all keyword arguments, in the order of `kwargs` -/
def sortArgs (p : Prims δ Du κ α ε χ η) (valid : TableRef → String → Bool)
    (rows : List (String × Nat × TableRef)) :
    List (String × List (String × String)) → List String → Except PyExc (List (String × List (String × String)))
  | dd, [] => .ok dd
  | dd, arg :: rest =>
    match sortArg p valid arg dd rows with
    | .ok dd' => sortArgs p valid rows dd' rest
    | .error x => .error x

/-- the body of the inner loop of `__init__` -/
abbrev kwRow (p : Prims δ Du κ α ε χ η) (arg : String) :
    (String × Nat × TableRef) → M (Obj δ Du κ α ε χ) Unit Unit :=
  fun (v2, v3, v4) =>
    Gen.TrFT.seq (fun o => if p.startsWith arg v2 then (Gen.TrFT.bind (gets fun o => (p.dropPrefix arg v3)) fun v5 =>
      Gen.TrFT.seq (fun o => if !(refContains o v4 v5) then (Gen.TrFT.bind (gets fun o => ("…")) fun v6 =>
      Gen.TrFT.raise "TypeError") o else (Gen.TrFT.skip) o)
      (Gen.TrFT.seq (modify fun o => { o with tmpDD := ddappend o.tmpDD v2 (v5, arg) })
      (Gen.TrFT.skip))) o else (Gen.TrFT.skip) o)
      (Gen.TrFT.skip)

theorem refContains_tmpDD (o : Obj δ Du κ α ε χ) (dd : List (String × List (String × String)))
    (r : TableRef) (n : String) : refContains { o with tmpDD := dd } r n = refContains o r n := by
  cases r <;> rfl

theorem sortArg_spec (p : Prims δ Du κ α ε χ η) (arg : String) (o : Obj δ Du κ α ε χ)
    (rows : List (String × Nat × TableRef)) (dd : List (String × List (String × String))) :
    match sortArg p (refContains o) arg dd rows with
    | .ok dd' => forEach rows (kwRow p arg) { o with tmpDD := dd } = ({ o with tmpDD := dd' }, .next ())
    | .error _ => (forEach rows (kwRow p arg) { o with tmpDD := dd }).2 = .raise "TypeError" := by
  induction rows generalizing dd with
  | nil => simp [sortArg, forEach, Gen.TrFT.pure]
  | cons row rest ih =>
    obtain ⟨pre, len, ref⟩ := row
    simp only [sortArg, forEach]
    by_cases hs : p.startsWith arg pre = true
    · by_cases hv : refContains o ref (p.dropPrefix arg len) = true
      · have hstep : kwRow p arg (pre, len, ref) { o with tmpDD := dd } =
            ({ o with tmpDD := ddappend dd pre (p.dropPrefix arg len, arg) }, .next ()) := by
          ftsimp [kwRow, hs, hv, refContains_tmpDD]
        simp only [hs, hv, if_true, hstep]
        exact ih _
      · have hv' : refContains o ref (p.dropPrefix arg len) = false := by simpa using hv
        have hstep : kwRow p arg (pre, len, ref) { o with tmpDD := dd } =
            ({ o with tmpDD := dd }, .raise "TypeError") := by
          ftsimp [kwRow, hs, hv', refContains_tmpDD]
        simp only [hs, hv', if_true, hstep, Bool.false_eq_true, if_false]
    · have hs' : p.startsWith arg pre = false := by simpa using hs
      have hstep : kwRow p arg (pre, len, ref) { o with tmpDD := dd } = ({ o with tmpDD := dd }, .next ()) := by
        ftsimp [kwRow, hs']
      simp only [hs', Bool.false_eq_true, if_false, hstep]
      exact ih _

theorem initLoop0_eq (p : Prims δ Du κ α ε χ η) (n : Option κ) (arg : String) (o : Obj δ Du κ α ε χ) :
    initLoop0 p n arg o =
      Gen.TrFT.seq (forEach o.ctPrefixes (kwRow p arg)) Gen.TrFT.skip o := by
  unfold initLoop0
  rfl

/-- the first loop of `__init__` sorts the keyword arguments as `sortArgs` says, or raises TypeError at the
    first keyword with a known prefix and an unknown rest -/
theorem sortArgs_spec (p : Prims δ Du κ α ε χ η) (n : Option κ) (o : Obj δ Du κ α ε χ)
    (args : List String) (dd : List (String × List (String × String))) :
    match sortArgs p (refContains o) o.ctPrefixes dd args with
    | .ok dd' => forEach args (initLoop0 p n) { o with tmpDD := dd } = ({ o with tmpDD := dd' }, .next ())
    | .error _ => (forEach args (initLoop0 p n) { o with tmpDD := dd }).2 = .raise "TypeError" := by
  induction args generalizing dd with
  | nil => simp [sortArgs, forEach, Gen.TrFT.pure]
  | cons arg rest ih =>
    simp only [sortArgs, forEach]
    have h1 := sortArg_spec p arg o o.ctPrefixes dd
    rw [initLoop0_eq]
    cases hsa : sortArg p (refContains o) arg dd o.ctPrefixes with
    | error x =>
      rw [hsa] at h1
      simp only at h1 ⊢
      rcases hf : forEach o.ctPrefixes (kwRow p arg) { o with tmpDD := dd } with ⟨o1, fl⟩
      rw [hf] at h1
      simp only at h1
      subst h1
      have : Gen.TrFT.seq (forEach ({ o with tmpDD := dd } : Obj δ Du κ α ε χ).ctPrefixes (kwRow p arg))
          Gen.TrFT.skip { o with tmpDD := dd } = (o1, .raise "TypeError") := seq_raise hf
      rw [this]
    | ok dd' =>
      rw [hsa] at h1
      simp only at h1 ⊢
      have : Gen.TrFT.seq (forEach ({ o with tmpDD := dd } : Obj δ Du κ α ε χ).ctPrefixes (kwRow p arg))
          Gen.TrFT.skip { o with tmpDD := dd } = ({ o with tmpDD := dd' }, .next ()) := by
        rw [seq_next h1]; rfl
      rw [this]
      exact ih dd'

/-- `__init__` of a block created without any `t_ / cond_ / enter_ / exit_ / on_enter_ / on_exit_` keyword: the
    instance shares the class's durations (no copy), has empty callback and event tables, the on_notrans events
    given, no state (UNDEF), no timer, no event in progress, no pending request, empty `sdata`; `initdef`
    defaults to `_ct_default_state`; all keyword arguments go on to `super().__init__` -- in this order -/
theorem init_plain_spec (p : Prims δ Du κ α ε χ η) (n : Option κ) (o : Obj δ Du κ α ε χ)
    (dd : List (String × List (String × String))) (evs : List ε)
    (hT : o.typeIsFSM = false)
    (hdd : sortArgs p (refContains o) o.ctPrefixes [] (o.kwargs.map (·.1)) = .ok dd)
    (hnone : ∀ k, ddget dd k = []) (hev : p.eventTuple n = .ok evs) :
    Gen.TrFT.init p n o =
      ({ o with
          tmpDD := dd
          duration := DurRef.shared
          fsmFunctions := [("cond", []), ("enter", []), ("exit", [])]
          stateEvents := [("on_enter", []), ("on_exit", [])]
          onNotrans := evs
          state := none
          activeTimerNone := true
          timersEnabled := false
          fsmEventActive := false
          nextEventNone := true
          sdata := []
          initdefDefault := (if dhas o.kwargs "initdef" then o.initdefDefault else some o.ctDefaultState)
          calls := (o.calls ++ [Call.superInit o.kwargs
            (if dhas o.kwargs "initdef" then o.initdefDefault else some o.ctDefaultState)]) },
        .next ()) := by
  unfold Gen.TrFT.init
  rw [seq_next (o' := o) (by simp [hT, Gen.TrFT.skip, Gen.TrFT.pure])]
  rw [seq_next (o' := { o with tmpDD := [] }) (by rfl)]
  have hl := sortArgs_spec p n o (o.kwargs.map (·.1)) []
  rw [hdd] at hl
  simp only at hl
  rw [seq_loop_next (o' := { o with tmpDD := dd }) hl]
  by_cases hk : dhas o.kwargs "initdef" = true <;>
    ftsimp [hnone, forMapM, dofPairs, hev, superInit, kwSetdefaultInitdef, hk]

/-- `__init__` with exactly one `t_STATE=value` keyword (and no other FSM-specific one): the instance gets ITS
    OWN copy of the default durations with that entry replaced -- the class's dict is not touched --, the keyword
    is consumed, everything else as in the plain case -/
theorem init_one_duration_spec (p : Prims δ Du κ α ε χ η) (n : Option κ) (o : Obj δ Du κ α ε χ)
    (dd : List (String × List (String × String))) (evs : List ε) (ts arg : String) (v : κ) (du : Du)
    (rest : List (String × κ))
    (hT : o.typeIsFSM = false)
    (hdd : sortArgs p (refContains o) o.ctPrefixes [] (o.kwargs.map (·.1)) = .ok dd)
    (ht : ddget dd "t_" = [(ts, arg)])
    (hnone : ∀ k, k ≠ "t_" → ddget dd k = [])
    (hts : dhas o.ctDefaultDuration ts = true)
    (hpop : dpop o.kwargs arg = .ok (v, rest))
    (hper : p.timePeriodKw v = .ok (some du))
    (hev : p.eventTuple n = .ok evs) :
    (Gen.TrFT.init p n o).2 = .next () ∧
    (Gen.TrFT.init p n o).1.duration = DurRef.own (dset o.ctDefaultDuration ts (some du)) ∧
    (Gen.TrFT.init p n o).1.ctDefaultDuration = o.ctDefaultDuration ∧
    (Gen.TrFT.init p n o).1.kwargs = rest ∧
    (Gen.TrFT.init p n o).1.calls = o.calls ++ [Call.superInit rest
      (if dhas rest "initdef" then o.initdefDefault else some o.ctDefaultState)] := by
  unfold Gen.TrFT.init
  rw [seq_next (o' := o) (by simp [hT, Gen.TrFT.skip, Gen.TrFT.pure])]
  rw [seq_next (o' := { o with tmpDD := [] }) (by rfl)]
  have hl := sortArgs_spec p n o (o.kwargs.map (·.1)) []
  rw [hdd] at hl
  simp only at hl
  rw [seq_loop_next (o' := { o with tmpDD := dd }) hl]
  have h1 := hnone "cond_" (by decide)
  have h2 := hnone "enter_" (by decide)
  have h3 := hnone "exit_" (by decide)
  have h4 := hnone "on_enter_" (by decide)
  have h5 := hnone "on_exit_" (by decide)
  by_cases hk : dhas rest "initdef" = true <;>
    ftsimp [ht, h1, h2, h3, h4, h5, forMapM, dofPairs, hev, superInit, kwSetdefaultInitdef, hk, forEach, kwPop,
      hpop, hper, durDict, durSet, hts]

end Edzed.TrTie.FT
