/-
Tie by translation for C15, part 3: `input_signature`, `check_signature` (with `setdiff_msg`), the
`start()` methods of the library CBlocks, `getblocks`, `InputGetter.__getitem__`.  The primitives of
lean/EdzedModel/Gen/TranslatedCsig.lean interpreted in lean/EdzedModel/Wiring.lean.
-/
import EdzedModel.Wiring
import EdzedModel.Gen.TranslatedCsig
import EdzedModel.Gen.TranslatedWiring
import EdzedProofs.Wiring

namespace Edzed.CsigTie
open Edzed.Wiring

/-- Python value of an expectation: `None` | int | `(cmin, cmax)`; a malformed one has none -/
def encE : Expect → Option Gen.TrCS.E
  | .single => some none
  | .exact n => some (some (.inl n))
  | .range lo hi => some (some (.inr (lo, hi)))
  | .malformed => none

def encSig : List (String × Expect) → Option (List (String × Gen.TrCS.E))
  | [] => some []
  | (k, e) :: rest =>
    match encE e, encSig rest with
    | some x, some r => some ((k, x) :: r)
    | _, _ => none

/-- the primitives in the model; `cm` = what difflib suggests, `out` = the outputs -/
def cprims {V : Type} (c : Circ) (cm : String → List String → List String) (out : Ref → V) :
    Gen.TrCS.CPrims Inp V String (Option Gen.TrW.BType) where
  isGroup i := match i with
    | .group _ => true
    | .single _ => false
  size i := i.refs.length
  setDiff a b := a.filter fun k => !b.contains k
  closeMatches := cm
  outputOf i := match i with
    | .single r => out r
    | .group _ => out (.val .undef)
  outputsOf i := i.refs.map out
  singleName i := match i with
    | .single r => r.confName
    | .group _ => none
  groupNames i := i.refs.mapM Ref.confName
  isBase t := t.isNone
  isInstance b t := match t with
    | none => true
    | some .cblock => (match c.kind b with | some (.c _) => true | _ => false)
    | some .not => c.kind b == some (.c .not)

variable {V : Type}

def excOfErr : Err → Gen.TrCS.SigExc
  | .invalidState => .invalidState
  | .keyError => .keyError
  | _ => .typeError

theorem inputSignature_run (c : Circ) (cm) (out : Ref → V) (b : String) :
    Gen.TrCS.inputSignature (cprims c cm out) (c.inputs b) =
      (match Wiring.inputSignature c b with
        | .ok l => .ok l
        | .error _ => .error .invalidState) := by
  unfold Gen.TrCS.inputSignature Wiring.inputSignature
  simp only [Gen.TrCS.Q.bind, Gen.TrCS.Q.gets, Gen.TrCS.Q.raise, Gen.TrCS.Q.pure, Bool.not_not]
  cases h : (c.inputs b).isEmpty
  · simp only [Bool.false_eq_true, if_false]
    congr 1
    apply List.map_congr_left
    intro p _
    obtain ⟨k, i⟩ := p
    cases i <;> simp [cprims, Inp.sigVal, Inp.refs]
  · simp

/-- the sections of the message for the unexpected names `u` and the missing names `m` -/
def sectsOf (cm : String → List String → List String) (u m : List String) : List Gen.TrCS.Sect :=
  (if u.isEmpty then [] else [.unexpected (u.map fun n => ⟨n, cm n m⟩)]) ++
  (if m.isEmpty then [] else [.missing m])

theorem parts_fold (cm : String → List String → List String) (m : List String) (u : List String) :
    ∀ acc : List Gen.TrCS.Part,
    Gen.TrCS.Q.foldM u acc (fun v5 v6 =>
      Gen.TrCS.Q.bind (Gen.TrCS.Q.pure (cm v6 m)) fun v7 =>
      Gen.TrCS.Q.bind (Gen.TrCS.Q.gets fun _ => !(List.isEmpty v7)) fun (c_ : Bool) =>
      if c_ then
        Gen.TrCS.Q.bind (Gen.TrCS.Q.pure (v5 ++ [Gen.TrCS.Part.mk v6 v7])) fun v5 => Gen.TrCS.Q.pure v5
      else
        Gen.TrCS.Q.bind (Gen.TrCS.Q.pure (v5 ++ [Gen.TrCS.Part.mk v6 []])) fun v5 => Gen.TrCS.Q.pure v5) =
      .ok (acc ++ u.map fun n => ⟨n, cm n m⟩) := by
  induction u with
  | nil => intro acc; simp [Gen.TrCS.Q.foldM, Gen.TrCS.Q.pure]
  | cons n rest ih =>
    intro acc
    simp only [Gen.TrCS.Q.foldM, Gen.TrCS.Q.bind, Gen.TrCS.Q.pure, Gen.TrCS.Q.gets]
    cases h : (cm n m).isEmpty
    · simp only [Bool.not_false, if_true]
      have := ih (acc ++ [⟨n, cm n m⟩])
      simp only [Gen.TrCS.Q.bind, Gen.TrCS.Q.pure, Gen.TrCS.Q.gets] at this
      rw [this]; simp
    · simp only [Bool.not_true, Bool.false_eq_true, if_false]
      have hnil : cm n m = [] := by simpa using h
      have := ih (acc ++ [⟨n, []⟩])
      simp only [Gen.TrCS.Q.bind, Gen.TrCS.Q.pure, Gen.TrCS.Q.gets] at this
      rw [this]; simp [hnil]

theorem setdiffMsg_run (c : Circ) (cm) (out : Ref → V) (a e : List String) :
    Gen.TrCS.setdiffMsg (cprims c cm out) a e =
      .ok (sectsOf cm (a.filter fun k => !e.contains k) (e.filter fun k => !a.contains k)) := by
  unfold Gen.TrCS.setdiffMsg
  have hsd : ∀ x y, (cprims c cm out).setDiff x y = x.filter fun k => !y.contains k := fun _ _ => rfl
  have hcm : (cprims c cm out).closeMatches = cm := rfl
  simp only [Gen.TrCS.Q.bind, Gen.TrCS.Q.pure, Gen.TrCS.Q.gets, hsd, hcm]
  generalize List.filter (fun k => !e.contains k) a = U
  generalize List.filter (fun k => !a.contains k) e = M
  have pf := parts_fold cm M U []
  simp only [Gen.TrCS.Q.bind, Gen.TrCS.Q.pure, Gen.TrCS.Q.gets, List.nil_append] at pf
  cases hu : U.isEmpty <;> cases hm : M.isEmpty <;>
    simp only [sectsOf, hu, hm, Bool.not_true, Bool.not_false, Bool.false_eq_true, if_true, if_false, pf,
      List.nil_append, List.append_nil] <;> rfl

theorem valuediff_enc (e : Expect) (v : Option Nat) (x : Gen.TrCS.E) (h : encE e = some x) :
    Gen.Tr.sigValueDiff v x = valueDiff e v := by
  cases e with
  | single => cases h; cases v <;> rfl
  | exact n =>
    cases h
    cases v with
    | none => rfl
    | some k =>
      simp only [Gen.Tr.sigValueDiff, valueDiff, bne]
      by_cases hkn : k = n <;> simp [hkn]
  | malformed => cases h
  | range lo hi =>
    cases h
    cases v with
    | none => rfl
    | some k => cases lo <;> cases hi <;> simp [Gen.Tr.sigValueDiff, valueDiff]

theorem encSig_cons {k : String} {e : Expect} {rest : List (String × Expect)}
    {ee : List (String × Gen.TrCS.E)} (h : encSig ((k, e) :: rest) = some ee) :
    ∃ x r, encE e = some x ∧ encSig rest = some r ∧ ee = (k, x) :: r := by
  simp only [encSig] at h
  cases h1 : encE e with
  | none => simp [h1] at h
  | some x =>
    cases h2 : encSig rest with
    | none => simp [h1, h2] at h
    | some r => simp [h1, h2] at h; exact ⟨x, r, rfl, rfl, h.symm⟩

theorem all_map_enc (f : String × Gen.TrCS.E → Bool) (g : String × Expect → Bool)
    (esig : List (String × Expect)) : ∀ ee, encSig esig = some ee →
    (∀ k e x, encE e = some x → f (k, x) = g (k, e)) → ee.all f = esig.all g := by
  induction esig with
  | nil => intro ee h _; cases h; rfl
  | cons p rest ih =>
    obtain ⟨k, e⟩ := p
    intro ee h hfg
    obtain ⟨x, r, h1, h2, rfl⟩ := encSig_cons h
    simp only [List.all_cons, hfg k e x h1, ih r h2 hfg]

theorem enc_facts (bsig : List (String × Option Nat)) (esig : List (String × Expect)) :
    ∀ ee, encSig esig = some ee →
    ee.length = esig.length ∧ ee.map (·.1) = esig.map (·.1) ∧ firstMalformed bsig esig = none := by
  induction esig with
  | nil => intro ee h; cases h; simp [firstMalformed]
  | cons p rest ih =>
    obtain ⟨k, e⟩ := p
    intro ee h
    obtain ⟨x, r, h1, h2, rfl⟩ := encSig_cons h
    obtain ⟨i3, i4, i5⟩ := ih r h2
    refine ⟨by simp [i3], by simp [i4], ?_⟩
    cases e with
    | malformed => cases h1
    | single => simpa [firstMalformed] using i5
    | exact n => simpa [firstMalformed] using i5
    | range lo hi => simpa [firstMalformed] using i5

theorem values_fold (bsig : List (String × Option Nat))
    (F : List String → String × Gen.TrCS.E → Gen.TrCS.Q (List String)) (G : String × Expect → Bool)
    (esig : List (String × Expect)) :
    ∀ (ee : List (String × Gen.TrCS.E)) (acc : List String), encSig esig = some ee →
    (∀ k e x acc, encE e = some x → (k, e) ∈ esig →
      F acc (k, x) = .ok (if G (k, e) then acc ++ [k] else acc)) →
    Gen.TrCS.Q.foldM ee acc F = .ok (acc ++ keysOf (esig.filter G)) := by
  induction esig with
  | nil => intro ee acc h _; cases h; simp [Gen.TrCS.Q.foldM, Gen.TrCS.Q.pure, keysOf]
  | cons p rest ih =>
    obtain ⟨k, e⟩ := p
    intro ee acc h hF
    obtain ⟨x, r, h1, h2, rfl⟩ := encSig_cons h
    simp only [Gen.TrCS.Q.foldM, hF k e x acc h1 (by simp), Gen.TrCS.Q.bind, List.filter_cons]
    rw [ih r _ h2 (fun k' e' x' acc' hx hm => hF k' e' x' acc' hx (by simp [hm]))]
    cases G (k, e) <;> simp [keysOf]

/-- the exception of the translated check for a diagnosis of the model -/
def excOfDiag (cm : String → List String → List String) : SigDiag → Gen.TrCS.SigExc
  | .names u m => .names (sectsOf cm u m)
  | .values l => .values l
  | .malformed _ => .typeError

/-- `CBlock.check_signature` for every well-formed expected signature -/
theorem checkSignature_run (c : Circ) (cm) (out : Ref → V) (b : String) (esig : List (String × Expect))
    (ee : List (String × Gen.TrCS.E)) (he : encSig esig = some ee) :
    Gen.TrCS.checkSignature (cprims c cm out) (c.inputs b) ee =
      (match Wiring.checkSignatureD c b esig, Wiring.inputSignature c b with
        | .ok none, .ok bsig => .ok bsig
        | .ok (some d), _ => .error (excOfDiag cm d)
        | _, _ => .error .invalidState) := by
  unfold Gen.TrCS.checkSignature Wiring.checkSignatureD
  rw [inputSignature_run]
  cases hs : Wiring.inputSignature c b with
  | error e => rfl
  | ok bsig =>
    obtain ⟨a3, a4, a5⟩ := enc_facts bsig esig ee he
    have hde : Gen.TrCS.dictEq bsig ee = sigEq bsig esig := by
      unfold Gen.TrCS.dictEq sigEq
      rw [a3]
      congr 1
      apply all_map_enc _ _ esig ee he
      intro k e x hx
      cases e with
      | malformed => cases hx
      | single => cases hx; cases hl : bsig.lookup k with
        | none => simp [hl]
        | some v => cases v <;> simp [hl, Gen.TrCS.sigItemEq]
      | exact n => cases hx; cases hl : bsig.lookup k with
        | none => simp [hl]
        | some v => cases v <;> simp [hl, Gen.TrCS.sigItemEq]
      | range lo hi => cases hx; cases hl : bsig.lookup k with
        | none => simp [hl]
        | some v => cases v <;> simp [hl, Gen.TrCS.sigItemEq]
    have hke : Gen.TrCS.keysEq bsig ee = sameKeys bsig esig := by
      unfold Gen.TrCS.keysEq sameKeys
      rw [a3]
      congr 1
      exact all_map_enc _ _ esig ee he (fun _ _ _ _ => rfl)
    simp only [Gen.TrCS.Q.bind, Gen.TrCS.Q.gets, hde, hke, sigDiagnosis]
    cases h1 : sigEq bsig esig
    · simp only [Bool.not_false, if_true, Bool.false_eq_true, if_false]
      cases h2 : sameKeys bsig esig
      · simp only [Bool.not_false, if_true, setdiffMsg_run, a4]
        rfl
      · simp only [Bool.not_true, Bool.false_eq_true, if_false, a5]
        have hall : ∀ p ∈ esig, (bsig.lookup p.1).isSome := by
          unfold sameKeys at h2
          simp only [Bool.and_eq_true, List.all_eq_true] at h2
          exact h2.2
        rw [values_fold bsig _ (fun p => match bsig.lookup p.1 with
            | some v => valueDiff p.2 v
            | none => true) esig ee [] he (by
          intro k e x acc hx hm
          obtain ⟨v, hv⟩ := Option.isSome_iff_exists.mp (hall (k, e) hm)
          simp only [hv, Gen.TrCS.Q.pure, valuediff_enc e v x hx])]
        simp only [List.nil_append]
        cases hb : (keysOf (esig.filter fun p =>
            match bsig.lookup p.1 with
            | some v => valueDiff p.2 v
            | none => true)).isEmpty
        · simp [Gen.TrCS.Q.raise, excOfDiag, hb] <;> rfl
        · simp [Gen.TrCS.Q.pure, hb] <;> rfl
    · simp [Gen.TrCS.Q.pure]

theorem firstMalformed_bad (bsig : List (String × Option Nat)) (esig : List (String × Expect)) (k : String)
    (h : firstMalformed bsig esig = some k) :
    esig.any (fun p => match bsig.lookup p.1 with
      | some v => valueDiff p.2 v
      | none => true) = true := by
  induction esig with
  | nil => simp [firstMalformed] at h
  | cons p rest ih =>
    obtain ⟨k0, e⟩ := p
    cases e with
    | malformed =>
      simp only [firstMalformed] at h
      cases hl : bsig.lookup k0 with
      | none => simp [hl]
      | some v =>
        cases v with
        | none => simp [hl, valueDiff]
        | some n => simp [hl, valueDiff]
    | single => simp only [firstMalformed] at h; simp [ih h]
    | exact n => simp only [firstMalformed] at h; simp [ih h]
    | range lo hi => simp only [firstMalformed] at h; simp [ih h]

theorem accept_iff_core (bsig : List (String × Option Nat)) (esig : List (String × Expect))
    (f : String × Expect → Bool) (hf : ∀ k, firstMalformed bsig esig = some k → esig.any f = true) :
    ((if sigEq bsig esig then (Except.ok () : Except Err Unit)
      else if !sameKeys bsig esig then .error .valueError
      else if esig.any f then .error .valueError
      else .ok ()) = .ok ()) ↔
    ((if sigEq bsig esig then (none : Option SigDiag)
      else if !sameKeys bsig esig then
        some (.names ((keysOf bsig).filter fun k => !(keysOf esig).contains k)
                     ((keysOf esig).filter fun k => !(keysOf bsig).contains k))
      else
        match firstMalformed bsig esig with
        | some k => some (.malformed k)
        | none =>
          if (keysOf (esig.filter f)).isEmpty then none else some (.values (keysOf (esig.filter f)))) = none) := by
  cases h1 : sigEq bsig esig
  · cases h2 : sameKeys bsig esig
    · simp
    · simp only [Bool.false_eq_true, if_false, Bool.not_true]
      cases hm : firstMalformed bsig esig with
      | some k => simp [hf k hm]
      | none =>
        simp only
        cases ha : esig.any f
        · have : (keysOf (esig.filter f)).isEmpty = true := by
            simp only [keysOf, List.isEmpty_map, List.isEmpty_iff, List.filter_eq_nil_iff]
            intro p hp
            have := List.any_eq_false.mp ha p hp
            simpa using this
          simp [this]
        · have : (keysOf (esig.filter f)).isEmpty = false := by
            obtain ⟨p, hp, hq⟩ := List.any_eq_true.mp ha
            cases hf' : (keysOf (esig.filter f)).isEmpty with
            | false => rfl
            | true =>
              simp only [keysOf, List.isEmpty_map, List.isEmpty_iff, List.filter_eq_nil_iff] at hf'
              exact absurd hq (hf' p hp)
          simp [this]
  · simp

/-- the two forms of the model's check agree: accepted = no diagnosis -/
theorem checkSignature_iff_diag (c : Circ) (b : String) (esig : List (String × Expect)) :
    Wiring.checkSignature c b esig = .ok () ↔ Wiring.checkSignatureD c b esig = .ok none := by
  unfold Wiring.checkSignature Wiring.checkSignatureD
  cases Wiring.inputSignature c b with
  | error e => simp
  | ok bsig =>
    have := accept_iff_core bsig esig (fun p => match bsig.lookup p.1 with
      | some v => valueDiff p.2 v
      | none => true) (firstMalformed_bad bsig esig)
    constructor
    · intro h
      exact congrArg Except.ok (this.mp h)
    · intro h
      exact this.mpr (Except.ok.inj h)

theorem getblocks_run (c : Circ) (cm) (out : Ref → V) :
    Gen.TrCS.getblocks (cprims c cm out) c.order none = .ok c.order ∧
    Gen.TrCS.getblocks (cprims c cm out) c.order (some .cblock) = .ok (cblockNames c) ∧
    Gen.TrCS.getblocks (cprims c cm out) c.order (some .not) = .ok (notNames c) := by
  refine ⟨rfl, rfl, rfl⟩

theorem getitem_run (c : Circ) (cm) (out : Ref → V) (b name : String) :
    Gen.TrCS.inputGetterGetitem (cprims c cm out) (c.inputs b) name =
      (match Wiring.inputGet out c b name with
        | .ok v => .ok v
        | .error _ => .error .keyError) := by
  unfold Gen.TrCS.inputGetterGetitem Wiring.inputGet
  cases (c.inputs b).lookup name with
  | none => rfl
  | some i => cases i <;> rfl

/-! ### `FuncBlock.start`: what `inspect.Signature.bind` demands -/

/-- what `bind` demands, said outright -/
def Callable (f : FSig) (n : Nat) (kw : List String) : Prop :=
  (n ≤ f.pos.length ∨ f.varargs = true) ∧
  (∀ k ∈ kw, (∀ p ∈ f.pos.take n, p.1 ≠ k) ∧
     ((∃ p ∈ f.pos.drop n, p.1 = k) ∨ (∃ p ∈ f.kwonly, p.1 = k) ∨ f.varkw = true)) ∧
  (∀ p ∈ f.pos.drop n, p.2 = true ∨ p.1 ∈ kw) ∧
  (∀ p ∈ f.kwonly, p.2 = true ∨ p.1 ∈ kw)

theorem binds_iff (f : FSig) (n : Nat) (kw : List String) : f.binds n kw = true ↔ Callable f n kw := by
  unfold FSig.binds Callable
  simp only [Bool.and_eq_true, Bool.or_eq_true, decide_eq_true_eq, List.all_eq_true, List.any_eq_true,
    Bool.not_eq_true', beq_iff_eq, List.contains_eq_mem, List.any_eq_false, and_assoc]
  constructor
  · rintro ⟨h1, h2, h3, h4⟩
    refine ⟨h1, fun k hk => ⟨fun p hp => by simpa using (h2 k hk).1 p hp, ?_⟩, h3, h4⟩
    rcases (h2 k hk).2 with (h | h) | h
    · exact Or.inl h
    · exact Or.inr (Or.inl h)
    · exact Or.inr (Or.inr h)
  · rintro ⟨h1, h2, h3, h4⟩
    refine ⟨h1, fun k hk => ⟨fun p hp => by simpa using (h2 k hk).1 p hp, ?_⟩, h3, h4⟩
    rcases (h2 k hk).2 with h | h | h
    · exact Or.inl (Or.inl h)
    · exact Or.inl (Or.inr h)
    · exact Or.inr h

/-! ### `CBlock.get_conf` -/

def confSum : ConfInp → String ⊕ List String
  | .single n => .inl n
  | .group ns => .inr ns

def confStep (c : Circ) (cm : String → List String → List String) (out : Ref → V) :
    List (String × (String ⊕ List String)) → String × Inp →
      Gen.TrCS.Q (List (String × (String ⊕ List String))) :=
  fun acc_ (v2, v3) =>
    if (cprims c cm out).isGroup v3 then
      match (cprims c cm out).groupNames v3 with
      | some l_ => Gen.TrCS.Q.pure (acc_ ++ [(v2, Sum.inr l_)])
      | none => Gen.TrCS.Q.raise Gen.TrCS.SigExc.attributeError
    else
      match (cprims c cm out).singleName v3 with
      | some n_ => Gen.TrCS.Q.pure (acc_ ++ [(v2, Sum.inl n_)])
      | none => Gen.TrCS.Q.raise Gen.TrCS.SigExc.attributeError

def confItem (p : String × Inp) : Option (String × ConfInp) := (p.2.conf).map fun x => (p.1, x)

theorem confStep_eq (c : Circ) (cm) (out : Ref → V) (acc) (k : String) (i : Inp) :
    confStep c cm out acc (k, i) =
      (match confItem (k, i) with
        | some p => .ok (acc ++ [(p.1, confSum p.2)])
        | none => .error .attributeError) := by
  unfold confStep confItem
  simp only
  cases i with
  | single r =>
    have h1 : (cprims c cm out).isGroup (.single r) = false := rfl
    have h2 : (cprims c cm out).singleName (.single r) = r.confName := rfl
    simp only [h1, h2, Bool.false_eq_true, if_false, Inp.conf]
    cases r.confName <;> rfl
  | group rs =>
    have h1 : (cprims c cm out).isGroup (.group rs) = true := rfl
    have h2 : (cprims c cm out).groupNames (.group rs) = rs.mapM Ref.confName := rfl
    simp only [h1, h2, if_true, Inp.conf]
    cases rs.mapM Ref.confName <;> rfl

theorem conf_fold (c : Circ) (cm) (out : Ref → V) (ins : Inputs) :
    ∀ acc : List (String × (String ⊕ List String)),
    Gen.TrCS.Q.foldM ins acc (confStep c cm out) =
    (match ins.mapM confItem with
      | some l => .ok (acc ++ l.map fun p => (p.1, confSum p.2))
      | none => .error .attributeError) := by
  induction ins with
  | nil => intro acc; simp [Gen.TrCS.Q.foldM, Gen.TrCS.Q.pure]
  | cons p rest ih =>
    obtain ⟨k, i⟩ := p
    intro acc
    simp only [Gen.TrCS.Q.foldM, List.mapM_cons, Option.bind_eq_bind, confStep_eq]
    cases confItem (k, i) with
    | none => rfl
    | some q =>
      simp only [Gen.TrCS.Q.bind, Option.bind_some]
      rw [ih]
      cases rest.mapM confItem with
      | none => rfl
      | some l => simp

theorem getConf_run (c : Circ) (cm) (out : Ref → V) (b : String) :
    Gen.TrCS.cblockGetConf (cprims c cm out) c.finalized (c.inputs b) =
      (match Wiring.getConfInputs c b with
        | none => .ok { type := "combinational", inputs := none }
        | some none => .error .attributeError
        | some (some l) => .ok { type := "combinational", inputs := some (l.map fun p => (p.1, confSum p.2)) }) := by
  have hshape : Gen.TrCS.cblockGetConf (cprims c cm out) c.finalized (c.inputs b) =
      (if c.finalized then
        Gen.TrCS.Q.bind (Gen.TrCS.Q.bind (Gen.TrCS.Q.foldM (c.inputs b) [] (confStep c cm out)) fun i_ =>
          Gen.TrCS.Q.pure ({ type := "combinational", inputs := some i_ } : Gen.TrCS.ConfRec)) fun v0 =>
          Gen.TrCS.Q.pure v0
       else .ok { type := "combinational", inputs := none }) := by
    unfold Gen.TrCS.cblockGetConf
    cases c.finalized <;> rfl
  rw [hshape, conf_fold]
  unfold Wiring.getConfInputs
  have hci : (fun p : String × Inp => (p.2.conf).map fun x => (p.1, x)) = confItem := rfl
  rw [hci]
  cases c.finalized
  · rfl
  · simp only [if_true, List.nil_append]
    cases (c.inputs b).mapM confItem <;> rfl

end Edzed.CsigTie
