/-
Helper lemmas for C06 (persistent state): storage algebra, saving, invariants of histories.
-/
import EdzedModel.Persist

namespace Edzed.Persist

/-! ## storage -/

namespace Storage

theorem get?_filterKey (f : String → Bool) (s : Storage) (k : String) :
    get? (s.filter (fun p => f p.1)) k = if f k then get? s k else none := by
  induction s with
  | nil => simp [get?]
  | cons p r ih =>
    obtain ⟨k', e⟩ := p
    by_cases hf : f k' = true
    · simp only [List.filter_cons, hf, if_true, get?]
      by_cases hk : k' = k
      · subst hk; simp [hf]
      · simp [hk, ih]
    · simp only [List.filter_cons, hf, get?]
      by_cases hk : k' = k
      · subst hk; simp [hf, ih]
      · simp [hk, ih]

theorem get?_erase_same (s : Storage) (k : String) : get? (erase s k) k = none := by
  have := get?_filterKey (fun x => !(x == k)) s k
  simpa [erase] using this

theorem get?_erase_ne (s : Storage) {k k' : String} (h : k' ≠ k) : get? (erase s k) k' = get? s k' := by
  have := get?_filterKey (fun x => !(x == k)) s k'
  simpa [erase, h] using this

theorem get?_set_same (s : Storage) (k : String) (e : Entry) : get? (set s k e) k = some e := by
  simp [set, get?]

theorem get?_set_ne (s : Storage) {k k' : String} (e : Entry) (h : k' ≠ k) : get? (set s k e) k' = get? s k' := by
  simp [set, get?, Ne.symm h, get?_erase_ne s h]

end Storage

/-! ## saving -/

theorem saveBlk_same (s : Storage) (b : Blk) (hp : b.persistent = true) :
    (saveBlk s b).get? b.key = getState b.kind b.dyn := by
  unfold saveBlk
  simp only [hp, if_true]
  split
  · next e he => rw [he]; exact Storage.get?_set_same ..
  · next he => rw [he]; exact Storage.get?_erase_same ..

theorem saveBlk_ne (s : Storage) (b : Blk) {k : String} (h : k ≠ b.key) :
    (saveBlk s b).get? k = s.get? k := by
  unfold saveBlk
  split
  · split
    · exact Storage.get?_set_ne _ _ h
    · exact Storage.get?_erase_ne _ h
  · rfl

theorem saveBlk_off (s : Storage) (b : Blk) (hp : b.persistent = false) : saveBlk s b = s := by
  simp [saveBlk, hp]

/-- saving touches only the keys of persistent blocks -/
theorem saveBlk_other (s : Storage) (b : Blk) {k : String} (h : b.persistent = true → k ≠ b.key) :
    (saveBlk s b).get? k = s.get? k := by
  cases hp : b.persistent
  · rw [saveBlk_off s b hp]
  · exact saveBlk_ne s b (h hp)

theorem saveAll_other (bs : List Blk) (s : Storage) {k : String}
    (h : ∀ b ∈ bs, b.persistent = true → k ≠ b.key) : (saveAll s bs).get? k = s.get? k := by
  induction bs generalizing s with
  | nil => rfl
  | cons a r ih =>
    simp only [saveAll, List.foldl_cons]
    have := ih (saveBlk s a) (fun b hb => h b (List.mem_cons_of_mem _ hb))
    simp only [saveAll] at this
    rw [this, saveBlk_other s a (h a (List.mem_cons_self ..))]

def keys (bs : List Blk) : List String := bs.map (·.key)

theorem saveAll_mem (bs : List Blk) (hn : (keys bs).Nodup) (s : Storage) {b : Blk} (hb : b ∈ bs)
    (hp : b.persistent = true) : (saveAll s bs).get? b.key = getState b.kind b.dyn := by
  induction bs generalizing s with
  | nil => cases hb
  | cons a r ih =>
    simp only [keys, List.map_cons, List.nodup_cons] at hn
    simp only [saveAll, List.foldl_cons]
    rcases List.mem_cons.mp hb with rfl | hr
    · have : (saveAll (saveBlk s b) r).get? b.key = (saveBlk s b).get? b.key :=
        saveAll_other r _ (fun x hx _ heq => hn.1 (heq ▸ List.mem_map_of_mem hx))
      simp only [saveAll] at this
      rw [this, saveBlk_same s b hp]
    · exact ih hn.2 _ hr

/-! ## replacing one block -/

theorem mem_set_key {l : List Blk} (hn : (keys l).Nodup) {i : Nat} {b b' : Blk} (hi : l[i]? = some b)
    {x : Blk} (hx : x ∈ l.set i b') : x = b' ∨ (x ∈ l ∧ x.key ≠ b.key) := by
  induction l generalizing i with
  | nil => simp at hi
  | cons a r ih =>
    simp only [keys, List.map_cons, List.nodup_cons] at hn
    cases i with
    | zero =>
      simp only [List.getElem?_cons_zero, Option.some.injEq] at hi
      subst hi
      simp only [List.set_cons_zero, List.mem_cons] at hx
      rcases hx with rfl | hx
      · exact Or.inl rfl
      · exact Or.inr ⟨List.mem_cons_of_mem _ hx, fun h => hn.1 (h ▸ List.mem_map_of_mem hx)⟩
    | succ j =>
      simp only [List.getElem?_cons_succ] at hi
      simp only [List.set_cons_succ, List.mem_cons] at hx
      rcases hx with rfl | hx
      · refine Or.inr ⟨List.mem_cons_self .., fun h => hn.1 ?_⟩
        rw [h]; exact List.mem_map_of_mem (List.mem_of_getElem? hi)
      · rcases ih hn.2 hi hx with h | ⟨h1, h2⟩
        · exact Or.inl h
        · exact Or.inr ⟨List.mem_cons_of_mem _ h1, h2⟩

theorem keys_set {l : List Blk} {i : Nat} {b b' : Blk} (hi : l[i]? = some b) (hk : b'.key = b.key) :
    keys (l.set i b') = keys l := by
  induction l generalizing i with
  | nil => rfl
  | cons a r ih =>
    cases i with
    | zero =>
      simp only [List.getElem?_cons_zero, Option.some.injEq] at hi
      subst hi; simp [keys, hk]
    | succ j =>
      simp only [List.getElem?_cons_succ] at hi
      have := ih hi
      simp only [keys] at this ⊢
      simp [this]

end Edzed.Persist

namespace Edzed.Persist

/-! ## events -/

def Res.quiet (r : Res) : Prop := r = .unknown ∨ r = .paramError

def KindValid : Kind → Prop
  | .fsm c => c.valid = true
  | _ => True

/-- well-formed dynamic state of an initialised block -/
def DynOk (k : Kind) (d : Dyn) : Prop :=
  match k with
  | .input _ => d.out = d.value ∧ d.value ≠ .undef ∧ d.value ≠ boomVal ∧ d.value ≠ rejVal ∧ d.timer = none
  | .counter m _ => (∃ i, d.value = .int (reduce m i)) ∧ d.out = d.value ∧ d.timer = none
  | .cal _ => d.timer = none
  | .fsm c => c.states.contains d.fstate = true ∧ c.calcOut d.fstate d.sdata = some d.out ∧
      ∀ t tev, d.timer = some (t, tev) → c.timedEv d.fstate = some tev

theorem armTimer_timer (c : FsmCls) (now : Time) (st : String) (d : Dyn) (h : d.timer = none) :
    ∀ t tev, (armTimer c now st d).timer = some (t, tev) → c.timedEv st = some tev := by
  intro t tev
  unfold armTimer
  split
  · next dur tev' hh =>
    intro h2
    simp only [Option.some.injEq, Prod.mk.injEq] at h2
    simp [FsmCls.timedEv, hh, h2.2]
  · simp [h]

theorem armTimer_other (c : FsmCls) (now : Time) (st : String) (d : Dyn) :
    (armTimer c now st d).fstate = d.fstate ∧ (armTimer c now st d).sdata = d.sdata
      ∧ (armTimer c now st d).entered = d.entered ∧ (armTimer c now st d).value = d.value := by
  unfold armTimer; split <;> simp

theorem enterEffect_other (en : Enter) (d : Dyn) :
    (enterEffect en d).fstate = d.fstate ∧ (enterEffect en d).timer = d.timer
      ∧ (enterEffect en d).entered = d.entered ∧ (enterEffect en d).value = d.value := by
  unfold enterEffect; split <;> simp

theorem finishEnter_res (c : FsmCls) (st : String) (d : Dyn) :
    (finishEnter c st d).2 = .ret (.bool true) ∨ (finishEnter c st d).2 = .handlerError := by
  unfold finishEnter; split <;> simp

theorem fsmChain_res (c : FsmCls) (now : Time) (fuel : Nat) (d : Dyn) (st : String) :
    (fsmChain c now fuel d st).2.1 = .ret (.bool true) ∨ (fsmChain c now fuel d st).2.1 = .handlerError := by
  induction fuel generalizing d st with
  | zero => exact Or.inr rfl
  | succ n ih =>
    unfold fsmChain
    simp only
    split
    · exact Or.inr rfl
    · split
      · exact ih _ _
      · exact Or.inr rfl
      · exact finishEnter_res ..
      · exact finishEnter_res ..

theorem fsmEnter_res (c : FsmCls) (now : Time) (d : Dyn) (st : String) :
    (fsmEnter c now d st).2 = .ret (.bool true) ∨ (fsmEnter c now d st).2 = .handlerError :=
  fsmChain_res c now _ d st

theorem fsmEnter_not_quiet (c : FsmCls) (now : Time) (d : Dyn) (st : String) :
    ¬ (fsmEnter c now d st).2.quiet := by
  rcases fsmEnter_res c now d st with h | h <;> simp [Res.quiet, h]

theorem finishEnter_ret (c : FsmCls) (st : String) (d : Dyn) {d' : Dyn} {v : Val}
    (h : finishEnter c st d = (d', .ret v)) :
    ∃ o, c.calcOut st d.sdata = some o ∧ d' = { d with out := o, inited := true } := by
  unfold finishEnter at h
  split at h
  · next o ho =>
    simp only [Prod.mk.injEq] at h
    exact ⟨o, ho, h.1.symm⟩
  · simp at h

theorem next_mem (c : FsmCls) (hv : c.valid = true) {e fs st : String} (h : c.next e fs = some st) :
    c.states.contains st = true := by
  have hall : ∀ t ∈ c.trans, c.states.contains t.2.2 = true := by
    simp only [FsmCls.valid, Bool.and_eq_true, List.all_eq_true] at hv
    exact hv.1.2
  unfold FsmCls.next at h
  split at h
  · next t ht =>
    simp only [Option.some.injEq] at h
    rw [← h]; exact hall t (List.mem_of_find?_eq_some ht)
  · simp only [Option.map_eq_some_iff] at h
    obtain ⟨t, ht, rfl⟩ := h
    exact hall t (List.mem_of_find?_eq_some ht)

/-- a request parked by an entry action leads to a state of the FSM -/
theorem nestedEvent_parked (c : FsmCls) (hv : c.valid = true) (d : Dyn) (en : Enter) {st : String}
    (h : nestedEvent c d en = some (.parked st)) : c.states.contains st = true := by
  cases en with
  | chain e =>
    simp only [nestedEvent] at h
    split at h
    · simp at h
    · split at h
      · simp at h
      · next st' hn =>
        have hm := next_mem c hv hn
        split at h
        · simp only [Option.some.injEq, Nested.parked.injEq] at h; rw [← h]; exact hm
        · split at h <;> try simp at h
          · rw [← h]; exact hm
          · split at h
            · simp at h
            · simp only [Option.some.injEq, Nested.parked.injEq] at h; rw [← h]; exact hm
  | goto s =>
    simp only [nestedEvent] at h
    split at h
    · next hs => simp only [Option.some.injEq, Nested.parked.injEq] at h; rw [← h]; exact hs
    · simp at h
  | nop => simp [nestedEvent] at h
  | setS k v => simp [nestedEvent] at h
  | raise => simp [nestedEvent] at h

/-- the last step of a transition: timer and output of the state just entered -/
theorem finishArm_ok (c : FsmCls) (now : Time) (d : Dyn) (st : String) (hs : c.states.contains st = true)
    {d' : Dyn} {v : Val}
    (h : finishEnter c st (armTimer c now st (enterEffect (c.enterOf st)
      { d with fstate := st, timer := none, entered := d.entered ++ [st] })) = (d', .ret v)) :
    DynOk (.fsm c) d' ∧ d'.inited = true := by
  have h1 := armTimer_other c now st (enterEffect (c.enterOf st)
    { d with fstate := st, timer := none, entered := d.entered ++ [st] })
  have h2 := enterEffect_other (c.enterOf st)
    { d with fstate := st, timer := none, entered := d.entered ++ [st] }
  have hf := h1.1.trans h2.1
  have ht := armTimer_timer c now st (enterEffect (c.enterOf st)
    { d with fstate := st, timer := none, entered := d.entered ++ [st] }) (by rw [h2.2.1])
  generalize armTimer c now st (enterEffect (c.enterOf st)
    { d with fstate := st, timer := none, entered := d.entered ++ [st] }) = dA at h hf ht
  simp only at hf
  obtain ⟨o, ho, rfl⟩ := finishEnter_ret c st dA h
  refine ⟨⟨?_, ?_, ?_⟩, rfl⟩
  · show c.states.contains dA.fstate = true
    rw [hf]; exact hs
  · show c.calcOut dA.fstate dA.sdata = some o
    rw [hf]; exact ho
  · intro t tev h3
    show c.timedEv dA.fstate = some tev
    rw [hf]; exact ht t tev h3

theorem fsmChain_ok (c : FsmCls) (hv : c.valid = true) (now : Time) (fuel : Nat) (d : Dyn) (st : String)
    (hs : c.states.contains st = true) {d' : Dyn} {v : Val}
    (h : (fsmChain c now fuel d st).1 = d' ∧ (fsmChain c now fuel d st).2.1 = .ret v) :
    DynOk (.fsm c) d' ∧ d'.inited = true := by
  induction fuel generalizing d st with
  | zero => simp [fsmChain] at h
  | succ n ih =>
    unfold fsmChain at h
    simp only at h
    split at h
    · simp at h
    · split at h
      · next st' hn => exact ih _ _ (nestedEvent_parked c hv _ _ hn) h
      · simp at h
      · exact finishArm_ok c now d st hs (Prod.ext h.1 h.2)
      · exact finishArm_ok c now d st hs (Prod.ext h.1 h.2)

/-- a completed transition yields a well-formed state, whatever the state before was -/
theorem fsmEnter_ok (c : FsmCls) (hv : c.valid = true) (now : Time) (d : Dyn) (st : String)
    (hs : c.states.contains st = true)
    {d' : Dyn} {v : Val} (h : fsmEnter c now d st = (d', .ret v)) : DynOk (.fsm c) d' ∧ d'.inited = true := by
  simp only [fsmEnter, Prod.mk.injEq] at h
  exact fsmChain_ok c hv now _ d st hs h

/-- the outcomes of a named FSM event -/
theorem fsmNamed_cases (c : FsmCls) (now : Time) (d : Dyn) (e : String) (v : Option Val) :
    (fsmNamed c now d e v = (d, .unknown) ∧ c.events.contains e = false) ∨
    fsmNamed c now d e v = (d, .ret (.bool false)) ∨
    fsmNamed c now d e v = (d, .handlerError) ∨
    (∃ d0 st, fsmNamed c now d e v = fsmEnter c now d0 st ∧ c.next e d.fstate = some st) := by
  unfold fsmNamed
  split
  · next h => exact Or.inl ⟨rfl, by simpa using h⟩
  · split
    · exact Or.inr (Or.inl rfl)
    · next st hst =>
      split
      · exact Or.inr (Or.inl rfl)
      · exact Or.inr (Or.inr (Or.inl rfl))
      · split
        · exact Or.inr (Or.inl rfl)
        · exact Or.inr (Or.inr (Or.inr ⟨_, _, rfl, hst⟩))
      · split
        · exact Or.inr (Or.inr (Or.inl rfl))
        · exact Or.inr (Or.inr (Or.inr ⟨_, _, rfl, hst⟩))
      · exact Or.inr (Or.inr (Or.inr ⟨_, _, rfl, hst⟩))

theorem fsmNamed_quiet (c : FsmCls) (now : Time) (d : Dyn) (e : String) (v : Option Val)
    (h : (fsmNamed c now d e v).2.quiet) : (fsmNamed c now d e v).1 = d := by
  rcases fsmNamed_cases c now d e v with ⟨h1, _⟩ | h1 | h1 | ⟨d0, st, h1, _⟩
  · rw [h1]
  · rw [h1]
  · rw [h1]
  · rw [h1] at h; exact absurd h (fsmEnter_not_quiet _ _ _ _)

theorem fsmNamed_ok (c : FsmCls) (hv : c.valid = true) (now : Time) (d : Dyn) (e : String) (v : Option Val)
    (hd : DynOk (.fsm c) d ∧ d.inited = true) {d' : Dyn} {r : Val}
    (h : fsmNamed c now d e v = (d', .ret r)) : DynOk (.fsm c) d' ∧ d'.inited = true := by
  rcases fsmNamed_cases c now d e v with ⟨h1, _⟩ | h1 | h1 | ⟨d0, st, h1, h2⟩
  · rw [h1] at h; simp at h
  · rw [h1] at h; simp only [Prod.mk.injEq] at h; rw [← h.1]; exact hd
  · rw [h1] at h; simp at h
  · rw [h1] at h; exact fsmEnter_ok c hv now d0 st (next_mem c hv h2) h

theorem fsmEvent_quiet (c : FsmCls) (now : Time) (d : Dyn) (ev : Ev)
    (h : (fsmEvent c now d ev).2.quiet) : (fsmEvent c now d ev).1 = d := by
  unfold fsmEvent at h ⊢
  split
  · split
    · next hh => simp only [hh, if_true] at h; exact absurd h (fsmEnter_not_quiet _ _ _ _)
    · rfl
  · split
    · next hh => simp only [hh] at h; exact fsmNamed_quiet _ _ _ _ _ h
    · rfl

theorem fsmEvent_ok (c : FsmCls) (hv : c.valid = true) (now : Time) (d : Dyn) (ev : Ev)
    (hd : DynOk (.fsm c) d ∧ d.inited = true) {d' : Dyn} {r : Val}
    (h : fsmEvent c now d ev = (d', .ret r)) : DynOk (.fsm c) d' ∧ d'.inited = true := by
  unfold fsmEvent at h
  split at h
  · split at h
    · next hs => exact fsmEnter_ok c hv now d _ hs h
    · simp at h
  · split at h
    · exact fsmNamed_ok c hv now d _ _ hd h
    · simp at h

theorem counterSet_not_quiet (m : Option Int) (d : Dyn) (v : Int) : ¬ (counterSet m d v).2.quiet := by
  simp [counterSet, Res.quiet]

theorem inputEvent_quiet (d : Dyn) (ev : Ev) (h : (inputEvent d ev).2.quiet) : (inputEvent d ev).1 = d := by
  unfold inputEvent at h ⊢
  split
  · rfl
  · split
    · rfl
    · split
      · rfl
      · next h1 h2 => simp [h1, h2, Res.quiet] at h
  · rfl

theorem counterEvent_quiet (m : Option Int) (i : Int) (d : Dyn) (ev : Ev)
    (h : (counterEvent m i d ev).2.quiet) : (counterEvent m i d ev).1 = d := by
  cases ev with
  | put v =>
    cases v with
    | none => rfl
    | some x =>
      simp only [counterEvent] at h ⊢
      split
      · next hh => simp only [hh] at h; exact absurd h (counterSet_not_quiet _ _ _)
      · rfl
  | inc a =>
    simp only [counterEvent] at h ⊢
    split
    · next hh => simp only [hh] at h; exact absurd h (counterSet_not_quiet _ _ _)
    · rfl
  | dec a =>
    simp only [counterEvent] at h ⊢
    split
    · next hh => simp only [hh] at h; exact absurd h (counterSet_not_quiet _ _ _)
    · rfl
  | reset => exact absurd h (counterSet_not_quiet _ _ _)
  | reconfig c => rfl
  | named e v => rfl
  | goto s => rfl

theorem calEvent_quiet (cal : Val → Option Bool) (d : Dyn) (ev : Ev)
    (h : (calEvent cal d ev).2.quiet) : (calEvent cal d ev).1 = d := by
  unfold calEvent at h ⊢
  split
  · split
    · next hh => simp [hh, Res.quiet] at h
    · rfl
  · rfl

/-- an exception that does not abort the simulation leaves the block as it was -/
theorem blockEvent_quiet (k : Kind) (cal : Val → Option Bool) (now : Time) (d : Dyn) (ev : Ev)
    (h : (blockEvent k cal now d ev).2.quiet) : (blockEvent k cal now d ev).1 = d := by
  cases k with
  | input i => exact inputEvent_quiet d ev h
  | counter m i => exact counterEvent_quiet m i d ev h
  | cal i => exact calEvent_quiet cal d ev h
  | fsm c => exact fsmEvent_quiet c now d ev h

theorem counterSet_ok (m : Option Int) (i0 : Int) (d : Dyn) (v : Int) (hd : d.timer = none) {d' : Dyn} {r : Val}
    (h : counterSet m d v = (d', .ret r)) : DynOk (.counter m i0) d' ∧ d'.inited = true := by
  simp only [counterSet, Prod.mk.injEq] at h
  rw [← h.1]
  exact ⟨⟨⟨v, rfl⟩, rfl, hd⟩, rfl⟩

/-- a handled event keeps an initialised block well-formed -/
theorem blockEvent_ok (k : Kind) (hv : KindValid k) (cal : Val → Option Bool) (now : Time) (d : Dyn) (ev : Ev)
    (hd : DynOk k d ∧ d.inited = true) {d' : Dyn} {r : Val}
    (h : blockEvent k cal now d ev = (d', .ret r)) : DynOk k d' ∧ d'.inited = true := by
  cases k with
  | fsm c => exact fsmEvent_ok c hv now d ev hd h
  | cal i =>
    simp only [blockEvent, calEvent] at h
    split at h
    · split at h
      · simp only [Prod.mk.injEq] at h; rw [← h.1]; exact ⟨hd.1, rfl⟩
      · simp at h
    · simp at h
  | counter m i =>
    have ht : d.timer = none := hd.1.2.2
    simp only [blockEvent, counterEvent] at h
    split at h
    · simp at h
    · split at h
      · exact counterSet_ok m i d _ ht h
      · simp at h
    · split at h
      · exact counterSet_ok m i d _ ht h
      · simp at h
    · split at h
      · exact counterSet_ok m i d _ ht h
      · simp at h
    · exact counterSet_ok m i d _ ht h
    · simp at h
  | input i =>
    simp only [blockEvent, inputEvent] at h
    split at h
    · simp at h
    · split at h
      · simp at h
      · split at h
        · simp only [Prod.mk.injEq] at h; rw [← h.1]; exact hd
        · next x h1 h2 =>
          simp only [Prod.mk.injEq] at h; rw [← h.1]
          simp only [Bool.or_eq_true, decide_eq_true_eq, not_or] at h1
          exact ⟨⟨rfl, h1.2, h1.1, h2, hd.1.2.2.2.2⟩, rfl⟩
    · simp at h

end Edzed.Persist

namespace Edzed.Persist

/-! ## restoring and initialising -/

theorem intOf_int (r : Int) : intOf? (some (.int r)) = some r := by
  simp [intOf?, Val.int]

theorem restore_ok (k : Kind) (cal : Val → Option Bool) (now : Time) (e : Entry) {d' : Dyn}
    (h : restore k cal now e = some d') : DynOk k d' ∧ d'.inited = true ∧ d'.entered = [] := by
  cases e with
  | ts t => simp [restore] at h
  | val v =>
    cases k with
    | input i =>
      simp only [restore] at h
      split at h
      · simp at h
      · next hh =>
        simp only [Option.some.injEq] at h; rw [← h]
        simp only [Bool.or_eq_true, decide_eq_true_eq, not_or] at hh
        exact ⟨⟨rfl, hh.1.1, hh.1.2, hh.2, rfl⟩, rfl, rfl⟩
    | counter m i =>
      simp only [restore] at h
      split at h
      · next v' _ =>
        simp only [Option.some.injEq] at h; rw [← h]
        exact ⟨⟨⟨v', rfl⟩, rfl, rfl⟩, rfl, rfl⟩
      · simp at h
    | cal i =>
      simp only [restore] at h
      split at h
      · simp only [Option.some.injEq] at h; rw [← h]; exact ⟨rfl, rfl, rfl⟩
      · simp at h
    | fsm c => simp [restore] at h
  | fsm st exp sd =>
    cases k with
    | input i => simp [restore] at h
    | counter m i => simp [restore] at h
    | cal i => simp [restore] at h
    | fsm c =>
      simp only [restore] at h
      split at h
      · simp at h
      · next hs =>
        simp only [Bool.not_eq_true, Bool.not_eq_false'] at hs
        split at h
        · simp at h
        · next o ho =>
          split at h
          · simp only [Option.some.injEq] at h; rw [← h]
            exact ⟨⟨hs, ho, by simp⟩, rfl, rfl⟩
          · split at h
            · simp at h
            · split at h
              · simp at h
              · next tev htev =>
                simp only [Option.some.injEq] at h; rw [← h]
                refine ⟨⟨hs, ho, ?_⟩, rfl, rfl⟩
                intro t' tev' h3
                simp only [Option.some.injEq, Prod.mk.injEq] at h3
                rw [← h3.2]; exact htev

theorem valid_initState {c : FsmCls} (hv : c.valid = true) : c.states.contains c.initState = true := by
  simp only [FsmCls.valid, Bool.and_eq_true] at hv
  exact hv.2

theorem inputEvent_put_fresh (i : Val) {x : Val} {d : Dyn} {r : Res}
    (h : inputEvent {} (.put (some x)) = (d, r)) (hi : d.inited = true) : DynOk (.input i) d := by
  simp only [inputEvent] at h
  split at h
  · simp only [Prod.mk.injEq] at h; rw [← h.1] at hi; simp at hi
  · next h1 =>
    split at h
    · simp only [Prod.mk.injEq] at h; rw [← h.1] at hi; simp at hi
    · next h2 =>
      simp only [Prod.mk.injEq] at h; rw [← h.1]
      simp only [Bool.or_eq_true, decide_eq_true_eq, not_or] at h1
      exact ⟨rfl, h1.2, h1.1, h2, rfl⟩

theorem regularInit_ok (k : Kind) (hv : KindValid k) (cal : Val → Option Bool) (now : Time) {d : Dyn}
    (h : regularInit k cal now = (d, false)) (hi : d.inited = true) : DynOk k d := by
  cases k with
  | input i =>
    simp only [regularInit] at h
    split at h
    · simp only [Prod.mk.injEq] at h; rw [← h.1] at hi; simp at hi
    · split at h
      · simp at h
      · next d0 r0 hne heq =>
        simp only [Prod.mk.injEq] at h
        obtain ⟨rfl, _⟩ := h
        exact inputEvent_put_fresh i heq hi
  | counter m i =>
    simp only [regularInit, Prod.mk.injEq] at h
    rw [← h.1]; exact ⟨⟨i, rfl⟩, rfl, rfl⟩
  | cal i =>
    simp only [regularInit] at h
    split at h
    · simp only [Prod.mk.injEq] at h; rw [← h.1]; rfl
    · simp at h
  | fsm c =>
    simp only [regularInit] at h
    split at h
    · simp at h
    · next d0 r0 hne heq =>
      simp only [Prod.mk.injEq] at h
      obtain ⟨rfl, _⟩ := h
      rcases fsmEnter_res c now { sdata := c.initSdata } c.initState with h1 | h1
      · rw [heq] at h1; simp only at h1; subst h1
        exact (fsmEnter_ok c hv now _ _ (valid_initState hv) heq).1
      · rw [heq] at h1; simp only at h1; subst h1; exact absurd rfl hne

end Edzed.Persist

namespace Edzed.Persist

/-! ## the invariant of histories -/

def Good (c : Circ) : Prop := c.phase = .running ∨ c.phase = .aborted ∨ c.phase = .stopping

structure Inv (c : Circ) : Prop where
  nodup : (keys c.blocks).Nodup
  plain : ∀ k ∈ keys c.blocks, reserved k = false
  valid : Good c → ∀ b ∈ c.blocks, KindValid b.kind
  ok : Good c → ∀ b ∈ c.blocks, (c.phase = .running ∨ b.persistent = true) →
    DynOk b.kind b.dyn ∧ b.dyn.inited = true
  synced : Good c → ∀ b ∈ c.blocks, b.persistent = true → b.sync = true →
    c.store.get? b.key = getState b.kind b.dyn

theorem nodup_set {l : List Blk} (hn : (keys l).Nodup) {i : Nat} {b b' : Blk} (hi : l[i]? = some b)
    (hk : b'.key = b.key) : (keys (l.set i b')).Nodup := by
  rw [keys_set hi hk]; exact hn

theorem plain_set {l : List Blk} (hp : ∀ k ∈ keys l, reserved k = false) {i : Nat} {b b' : Blk}
    (hi : l[i]? = some b) (hk : b'.key = b.key) : ∀ k ∈ keys (l.set i b'), reserved k = false := by
  rw [keys_set hi hk]; exact hp

theorem good_of_phase {c : Circ}
    (h : ¬ ((c.phase != .running && c.phase != .aborted && c.phase != .stopping) = true)) : Good c := by
  cases hp : c.phase <;> simp_all [Good]

theorem event_good {c c' : Circ} {cal : Val → Option Bool} {i : Nat} {ev : Ev} {r : Res}
    (h : c.event cal i ev = some (c', r)) : Good c := by
  unfold Circ.event at h
  split at h
  · simp at h
  · next hp => exact good_of_phase hp

/-- `event` on block `i`, all that is needed about the other blocks and about block `i` itself -/
theorem event_inv {c c' : Circ} {cal : Val → Option Bool} {i : Nat} {ev : Ev} {r : Res} {b : Blk}
    (hb : c.blocks[i]? = some b)
    (hn : (keys c.blocks).Nodup) (hpl : ∀ k ∈ keys c.blocks, reserved k = false)
    (hv : ∀ x ∈ c.blocks, KindValid x.kind)
    (hok : ∀ x ∈ c.blocks, (c.phase = .running ∨ x.persistent = true) → DynOk x.kind x.dyn ∧ x.dyn.inited = true)
    (hs : ∀ x ∈ c.blocks, x.key ≠ b.key → x.persistent = true → x.sync = true →
      c.store.get? x.key = getState x.kind x.dyn)
    (hsb : r.quiet → b.persistent = true → b.sync = true → c.store.get? b.key = getState b.kind b.dyn)
    (h : c.event cal i ev = some (c', r)) : Inv c' := by
  have hg := event_good h
  have hbm : b ∈ c.blocks := List.mem_of_getElem? hb
  unfold Circ.event at h
  split at h
  · simp at h
  · rw [hb] at h
    simp only at h
    generalize hbe : blockEvent b.kind cal c.now b.dyn ev = p at h
    obtain ⟨d, r0⟩ := p
    simp only at h
    cases r0 with
    | ret v =>
      simp only [Option.some.injEq, Prod.mk.injEq] at h
      obtain ⟨rfl, rfl⟩ := h
      refine ⟨?_, ?_, ?_, ?_, ?_⟩
      · exact nodup_set hn hb rfl
      · exact plain_set hpl hb rfl
      · intro _ x hx
        rcases mem_set_key hn hb hx with rfl | ⟨hx1, _⟩
        · exact hv b hbm
        · exact hv x hx1
      · intro _ x hx hc
        rcases mem_set_key hn hb hx with rfl | ⟨hx1, _⟩
        · exact blockEvent_ok b.kind (hv b hbm) cal c.now b.dyn ev (hok b hbm hc) hbe
        · exact hok x hx1 hc
      · intro _ x hx hp hsy
        rcases mem_set_key hn hb hx with rfl | ⟨hx1, hx2⟩
        · simp only at hp hsy
          simp only [hp, hsy, Bool.and_self, if_true]
          exact saveBlk_same c.store _ rfl
        · show Storage.get? (if (b.persistent && b.sync) = true then _ else _) x.key = _
          split
          · rw [saveBlk_ne _ _ (by simpa using hx2)]; exact hs x hx1 hx2 hp hsy
          · exact hs x hx1 hx2 hp hsy
    | handlerError =>
      simp only [Option.some.injEq, Prod.mk.injEq] at h
      obtain ⟨rfl, rfl⟩ := h
      refine ⟨?_, ?_, ?_, ?_, ?_⟩
      · exact nodup_set hn hb rfl
      · exact plain_set hpl hb rfl
      · intro _ x hx
        rcases mem_set_key hn hb hx with rfl | ⟨hx1, _⟩
        · exact hv b hbm
        · exact hv x hx1
      · intro _ x hx hc
        have hnr : (if c.phase == .running then Phase.aborted else c.phase) ≠ .running := by
          by_cases h : c.phase = .running <;> simp [h]
        rcases mem_set_key hn hb hx with rfl | ⟨hx1, _⟩
        · rcases hc with hc | hc
          · exact absurd hc hnr
          · simp at hc
        · rcases hc with hc | hc
          · exact absurd hc hnr
          · exact hok x hx1 (Or.inr hc)
      · intro _ x hx hp hsy
        rcases mem_set_key hn hb hx with rfl | ⟨hx1, hx2⟩
        · simp at hp
        · exact hs x hx1 hx2 hp hsy
    | paramError =>
      have hq : d = b.dyn := by
        have := blockEvent_quiet b.kind cal c.now b.dyn ev (by rw [hbe]; exact Or.inr rfl)
        rw [hbe] at this; exact this
      subst hq
      simp only [Option.some.injEq, Prod.mk.injEq] at h
      obtain ⟨rfl, rfl⟩ := h
      refine ⟨?_, ?_, ?_, ?_, ?_⟩
      · exact nodup_set hn hb rfl
      · exact plain_set hpl hb rfl
      · intro _ x hx
        rcases mem_set_key hn hb hx with rfl | ⟨hx1, _⟩
        · exact hv b hbm
        · exact hv x hx1
      · intro _ x hx hc
        rcases mem_set_key hn hb hx with rfl | ⟨hx1, _⟩
        · refine hok b hbm ?_
          rcases hc with hc | hc
          · exact Or.inl hc
          · simp only [Bool.and_eq_true] at hc; exact Or.inr hc.1
        · exact hok x hx1 hc
      · intro _ x hx hp hsy
        rcases mem_set_key hn hb hx with rfl | ⟨hx1, hx2⟩
        · simp only [Bool.and_eq_true] at hp
          exact hsb (Or.inr rfl) hp.1 hsy
        · exact hs x hx1 hx2 hp hsy
    | unknown =>
      have hq : d = b.dyn := by
        have := blockEvent_quiet b.kind cal c.now b.dyn ev (by rw [hbe]; exact Or.inl rfl)
        rw [hbe] at this; exact this
      subst hq
      simp only [Option.some.injEq, Prod.mk.injEq] at h
      obtain ⟨rfl, rfl⟩ := h
      refine ⟨?_, ?_, ?_, ?_, ?_⟩
      · exact nodup_set hn hb rfl
      · exact plain_set hpl hb rfl
      · intro _ x hx
        rcases mem_set_key hn hb hx with rfl | ⟨hx1, _⟩
        · exact hv b hbm
        · exact hv x hx1
      · intro _ x hx hc
        rcases mem_set_key hn hb hx with rfl | ⟨hx1, _⟩
        · refine hok b hbm ?_
          rcases hc with hc | hc
          · exact Or.inl hc
          · simp only [Bool.and_eq_true] at hc; exact Or.inr hc.1
        · exact hok x hx1 hc
      · intro _ x hx hp hsy
        rcases mem_set_key hn hb hx with rfl | ⟨hx1, hx2⟩
        · simp only [Bool.and_eq_true] at hp
          exact hsb (Or.inl rfl) hp.1 hsy
        · exact hs x hx1 hx2 hp hsy

theorem event_result {c c' : Circ} {cal : Val → Option Bool} {i : Nat} {ev : Ev} {r : Res}
    (h : c.event cal i ev = some (c', r)) :
    ∃ b, c.blocks[i]? = some b ∧ r = (blockEvent b.kind cal c.now b.dyn ev).2 := by
  unfold Circ.event at h
  split at h
  · simp at h
  · split at h
    · simp at h
    · next b hb =>
      refine ⟨b, hb, ?_⟩
      simp only at h
      generalize blockEvent b.kind cal c.now b.dyn ev = p at h ⊢
      obtain ⟨d, r0⟩ := p
      cases r0 <;> simp only [Option.some.injEq, Prod.mk.injEq] at h <;> exact h.2.symm

theorem inv_event {c c' : Circ} {cal : Val → Option Bool} {i : Nat} {ev : Ev} {r : Res}
    (hi : Inv c) (h : c.event cal i ev = some (c', r)) : Inv c' := by
  have hg := event_good h
  have : ∃ b, c.blocks[i]? = some b := by
    unfold Circ.event at h
    split at h
    · simp at h
    · split at h
      · simp at h
      · next b hb => exact ⟨b, hb⟩
  obtain ⟨b, hb⟩ := this
  exact event_inv hb hi.nodup hi.plain (hi.valid hg) (hi.ok hg) (fun x hx _ => hi.synced hg x hx)
    (fun _ => hi.synced hg b (List.mem_of_getElem? hb)) h

end Edzed.Persist

namespace Edzed.Persist

theorem DynOk_clear (k : Kind) (d : Dyn) (h : DynOk k d) : DynOk k { d with timer := none } := by
  cases k with
  | input i => exact ⟨h.1, h.2.1, h.2.2.1, h.2.2.2.1, rfl⟩
  | counter m i => exact ⟨h.1, h.2.1, rfl⟩
  | cal i => rfl
  | fsm c => exact ⟨h.1, h.2.1, by simp⟩

theorem timedEv_ok {c : FsmCls} (hv : c.valid = true) {st : String} {tev : TEv}
    (h : c.timedEv st = some tev) : c.tevOk tev = true := by
  simp only [FsmCls.valid, Bool.and_eq_true, List.all_eq_true] at hv
  simp only [FsmCls.timedEv, FsmCls.timerOf, Option.map_eq_some_iff] at h
  obtain ⟨p, ⟨q, hq, rfl⟩, rfl⟩ := h
  exact hv.1.1.2 q (List.mem_of_find?_eq_some hq)

/-- the timed event of an active timer is never answered with a harmless exception -/
theorem tev_handled (k : Kind) (hv : KindValid k) (d : Dyn) (hd : DynOk k d) {t : Time} {tev : TEv}
    (ht : d.timer = some (t, tev)) (cal : Val → Option Bool) (now : Time) (d2 : Dyn) :
    ¬ (blockEvent k cal now d2 (tevEv tev)).2.quiet := by
  cases k with
  | input i => rw [hd.2.2.2.2] at ht; simp at ht
  | counter m i => rw [hd.2.2] at ht; simp at ht
  | cal i => have : d.timer = none := hd; rw [this] at ht; simp at ht
  | fsm c =>
    have hok := timedEv_ok hv (hd.2.2 t tev ht)
    cases tev with
    | goto s =>
      simp only [FsmCls.tevOk] at hok
      simp only [blockEvent, tevEv, fsmEvent, hok, if_true]
      exact fsmEnter_not_quiet _ _ _ _
    | ev e =>
      simp only [FsmCls.tevOk] at hok
      simp only [blockEvent, tevEv, fsmEvent, Ev.fsmName]
      rcases fsmNamed_cases c now d2 e none with ⟨_, h2⟩ | h1 | h1 | ⟨d0, st, h1, _⟩
      · rw [hok] at h2; simp at h2
      · rw [h1]; simp [Res.quiet]
      · rw [h1]; simp [Res.quiet]
      · rw [h1]; exact fsmEnter_not_quiet _ _ _ _

theorem inv_fire {c c' : Circ} {cal : Val → Option Bool} {i : Nat} {r : Res}
    (hi : Inv c) (h : c.fire cal i = some (c', r)) : Inv c' := by
  unfold Circ.fire at h
  split at h
  · simp at h
  · next hph =>
    have hg : Good c := good_of_phase hph
    split at h
    · simp at h
    · next b hb =>
      have hbm : b ∈ c.blocks := List.mem_of_getElem? hb
      split at h
      · simp at h
      · next t tev htm =>
        split at h
        · simp at h
        · have hlen : i < c.blocks.length := by
            rcases List.getElem?_eq_some_iff.mp hb with ⟨hl, _⟩; exact hl
          have hb0 : ({ c with now := t, blocks := c.blocks.set i { b with dyn := { b.dyn with timer := none } } } : Circ).blocks[i]?
              = some { b with dyn := { b.dyn with timer := none } } := by
            simp [hlen]
          refine event_inv hb0 ?_ ?_ ?_ ?_ ?_ ?_ h
          · exact nodup_set hi.nodup hb rfl
          · exact plain_set hi.plain hb rfl
          · intro x hx
            rcases mem_set_key hi.nodup hb hx with rfl | ⟨hx1, _⟩
            · exact hi.valid hg b hbm
            · exact hi.valid hg x hx1
          · intro x hx hc
            rcases mem_set_key hi.nodup hb hx with rfl | ⟨hx1, _⟩
            · have hbok := hi.ok hg b hbm hc
              exact ⟨DynOk_clear b.kind b.dyn hbok.1, hbok.2⟩
            · exact hi.ok hg x hx1 hc
          · intro x hx hne hp hsy
            rcases mem_set_key hi.nodup hb hx with rfl | ⟨hx1, _⟩
            · exact absurd rfl hne
            · exact hi.synced hg x hx1 hp hsy
          · intro hq hpb
            have hbok := hi.ok hg b hbm (Or.inr hpb)
            obtain ⟨b1, hb1, hr⟩ := event_result h
            rw [hb0] at hb1
            simp only [Option.some.injEq] at hb1
            subst hb1
            rw [hr] at hq
            exact absurd hq (tev_handled b.kind (hi.valid hg b hbm) b.dyn hbok.1 htm cal t _)

theorem inv_advance {c c' : Circ} {t : Time} (hi : Inv c) (h : c.advance t = some c') : Inv c' := by
  have : c' = { c with now := t } := by
    unfold Circ.advance at h
    split at h
    · simp at h
    · split at h
      · split at h
        · simp at h
        · simpa using h.symm
      · simpa using h.symm
  subst this
  exact ⟨hi.nodup, hi.plain, hi.valid, hi.ok, hi.synced⟩

theorem inv_step (env : Time → Val → Option Bool) {c : Circ} (hi : Inv c) (op : Op) : Inv (step env c op) := by
  cases op with
  | ev i e =>
    simp only [step]
    split
    · next c' r h => exact inv_event hi h
    · exact hi
  | fire i =>
    simp only [step]
    split
    · split
      · split
        · next c' r h => exact inv_fire hi h
        · exact hi
      · exact hi
    · exact hi
  | adv t =>
    simp only [step]
    cases h : c.advance t with
    | none => exact hi
    | some c' => exact inv_advance hi h

theorem inv_run (env : Time → Val → Option Bool) (ops : List Op) {c : Circ} (hi : Inv c) : Inv (run env c ops) := by
  induction ops generalizing c with
  | nil => exact hi
  | cons op r ih => exact ih (inv_step env hi op)

end Edzed.Persist

namespace Edzed.Persist

/-! ## start -/

/-- what the initialisation guarantees for a block -/
def BlkOk (x : Blk) : Prop := KindValid x.kind ∧ (x.dyn.inited = true → DynOk x.kind x.dyn)

theorem keys_pass1 (bs : List Blk) (store : Storage) (ts : Option Time) (cal : Val → Option Bool) (now : Time) :
    keys (pass1 bs store ts cal now) = keys bs := by
  simp only [keys, pass1, List.map_map]
  apply List.map_congr_left
  intro b _
  simp only [Function.comp]
  split <;> rfl

theorem load_ok (b : Blk) (store : Storage) (ts : Option Time) (cal : Val → Option Bool) (now : Time) {d : Dyn}
    (h : load b store ts cal now = some d) : DynOk b.kind d ∧ d.inited = true ∧ d.entered = [] := by
  unfold load at h
  split at h
  · simp at h
  · split at h
    · simp at h
    · split at h
      · simp at h
      · exact restore_ok _ _ _ _ h

theorem pass1_ok (bs : List Blk) (store : Storage) (ts : Option Time) (cal : Val → Option Bool) (now : Time)
    (h : ∀ y ∈ bs, KindValid y.kind ∧ y.dyn.inited = false) :
    ∀ x ∈ pass1 bs store ts cal now, BlkOk x := by
  intro x hx
  simp only [pass1, List.mem_map] at hx
  obtain ⟨y, hy, rfl⟩ := hx
  split
  · next d hd => exact ⟨(h y hy).1, fun _ => (load_ok y store ts cal now hd).1⟩
  · exact ⟨(h y hy).1, fun hi => by rw [(h y hy).2] at hi; simp at hi⟩

theorem keys_pass2 (cal : Val → Option Bool) (now : Time) (bs : List Blk) :
    keys (pass2 cal now bs).1 = keys bs := by
  induction bs with
  | nil => rfl
  | cons b r ih =>
    simp only [pass2]
    split
    · simp only [keys, List.map_cons] at ih ⊢; rw [ih]
    · split
      · simp [keys]
      · simp only [keys, List.map_cons] at ih ⊢; rw [ih]

theorem pass2_ok (cal : Val → Option Bool) (now : Time) (bs : List Blk)
    (hf : (pass2 cal now bs).2 = true) (h : ∀ y ∈ bs, BlkOk y) : ∀ x ∈ (pass2 cal now bs).1, BlkOk x := by
  induction bs with
  | nil => intro x hx; simp [pass2] at hx
  | cons b r ih =>
    simp only [pass2] at hf ⊢
    split at hf
    · next hb =>
      simp only [hb, if_true]
      intro x hx
      simp only [List.mem_cons] at hx
      rcases hx with rfl | hx
      · exact h _ (List.mem_cons_self ..)
      · exact ih hf (fun y hy => h y (List.mem_cons_of_mem _ hy)) x hx
    · next hb =>
      rw [if_neg hb]
      split at hf
      · simp at hf
      · next d hd =>
        intro x hx
        simp only [List.mem_cons] at hx
        rcases hx with rfl | hx
        · have hb0 := h b (List.mem_cons_self ..)
          exact ⟨hb0.1, fun hi => regularInit_ok b.kind hb0.1 cal now hd hi⟩
        · exact ih hf (fun y hy => h y (List.mem_cons_of_mem _ hy)) x hx

theorem inv_start (c : Circ) (cal : Val → Option Bool) (now : Time) (mode : StartMode)
    (hidle : c.phase = .idle)
    (hn : (keys c.blocks).Nodup) (hpl : ∀ k ∈ keys c.blocks, reserved k = false)
    (hv : ∀ b ∈ c.blocks, KindValid b.kind)
    (hfresh : ∀ b ∈ c.blocks, b.dyn.inited = false) : Inv (c.start cal now mode) := by
  unfold Circ.start
  simp only [hidle, bne_self_eq_false, Bool.false_eq_true, if_false]
  cases mode with
  | abortedBefore =>
    exact ⟨hn, hpl, fun hg => by rcases hg with h | h | h <;> simp at h, fun hg => by rcases hg with h | h | h <;> simp at h,
      fun hg => by rcases hg with h | h | h <;> simp at h⟩
  | startRaises =>
    exact ⟨hn, hpl, fun hg => by rcases hg with h | h | h <;> simp at h, fun hg => by rcases hg with h | h | h <;> simp at h,
      fun hg => by rcases hg with h | h | h <;> simp at h⟩
  | ok =>
    simp only
    generalize hp : pass2 cal now (pass1 c.blocks (cleanUnused c.store c.blocks) (readTs c.store) cal now) = p
    obtain ⟨bs, ok⟩ := p
    have hk : keys bs = keys c.blocks := by
      have := keys_pass2 cal now (pass1 c.blocks (cleanUnused c.store c.blocks) (readTs c.store) cal now)
      rw [hp, keys_pass1] at this; exact this
    simp only
    split
    · next hc =>
      simp only [Bool.and_eq_true, List.all_eq_true] at hc
      have hbs : ∀ x ∈ bs, BlkOk x := by
        have := pass2_ok cal now (pass1 c.blocks (cleanUnused c.store c.blocks) (readTs c.store) cal now)
          (by rw [hp]; exact hc.1)
          (pass1_ok c.blocks _ _ cal now (fun y hy => ⟨hv y hy, hfresh y hy⟩))
        rw [hp] at this; exact this
      refine ⟨by rw [← hk] at hn; exact hn, by rw [← hk] at hpl; exact hpl, fun _ b hb => (hbs b hb).1, ?_, ?_⟩
      · intro _ b hb _
        exact ⟨(hbs b hb).2 (hc.2 b hb), hc.2 b hb⟩
      · intro _ b hb hpers _
        exact saveAll_mem bs (by rw [hk]; exact hn) _ hb hpers
    · exact ⟨by rw [← hk] at hn; exact hn, by rw [← hk] at hpl; exact hpl, fun hg => by rcases hg with h | h | h <;> simp at h,
        fun hg => by rcases hg with h | h | h <;> simp at h, fun hg => by rcases hg with h | h | h <;> simp at h⟩

end Edzed.Persist

namespace Edzed.Persist

/-! ## a block whose persistence is switched off -/

/-- no persistent block owns key `k`, and the slot holds `e` -/
def Frozen (k : String) (e : Option Entry) (c : Circ) : Prop :=
  (∀ b ∈ c.blocks, b.key = k → b.persistent = false) ∧ c.store.get? k = e

theorem frozen_event {k : String} {e : Option Entry} {c c' : Circ} {cal : Val → Option Bool} {i : Nat}
    {ev : Ev} {r : Res} (hf : Frozen k e c) (h : c.event cal i ev = some (c', r)) : Frozen k e c' := by
  unfold Circ.event at h
  split at h
  · simp at h
  · split at h
    · simp at h
    · next b hb =>
      have hbm : b ∈ c.blocks := List.mem_of_getElem? hb
      simp only at h
      generalize blockEvent b.kind cal c.now b.dyn ev = p at h
      obtain ⟨d, r0⟩ := p
      have key : ∀ (b' : Blk), b'.key = b.key → (b'.persistent = true → b.persistent = true) →
          ∀ x ∈ c.blocks.set i b', x.key = k → x.persistent = false := by
        intro b' hk hp x hx hxk
        rcases List.mem_or_eq_of_mem_set hx with hx | rfl
        · exact hf.1 x hx hxk
        · cases hbp : x.persistent
          · rfl
          · have := hf.1 b hbm (hk ▸ hxk)
            rw [hp hbp] at this; simp at this
      cases r0 with
      | ret v =>
        simp only [Option.some.injEq, Prod.mk.injEq] at h
        obtain ⟨rfl, rfl⟩ := h
        refine ⟨key _ rfl id, ?_⟩
        show Storage.get? (if (b.persistent && b.sync) = true then _ else _) k = e
        split
        · rw [saveBlk_other]
          · exact hf.2
          · intro hp heq
            have := hf.1 b hbm heq.symm
            simp only at hp
            rw [hp] at this; simp at this
        · exact hf.2
      | handlerError =>
        simp only [Option.some.injEq, Prod.mk.injEq] at h
        obtain ⟨rfl, rfl⟩ := h
        exact ⟨key _ rfl (fun h => by simp at h), hf.2⟩
      | paramError =>
        simp only [Option.some.injEq, Prod.mk.injEq] at h
        obtain ⟨rfl, rfl⟩ := h
        exact ⟨key _ rfl (fun h => by simp only [Bool.and_eq_true] at h; exact h.1), hf.2⟩
      | unknown =>
        simp only [Option.some.injEq, Prod.mk.injEq] at h
        obtain ⟨rfl, rfl⟩ := h
        exact ⟨key _ rfl (fun h => by simp only [Bool.and_eq_true] at h; exact h.1), hf.2⟩

theorem frozen_fire {k : String} {e : Option Entry} {c c' : Circ} {cal : Val → Option Bool} {i : Nat}
    {r : Res} (hf : Frozen k e c) (h : c.fire cal i = some (c', r)) : Frozen k e c' := by
  unfold Circ.fire at h
  split at h
  · simp at h
  · split at h
    · simp at h
    · next b hb =>
      split at h
      · simp at h
      · split at h
        · simp at h
        · refine frozen_event ?_ h
          refine ⟨?_, hf.2⟩
          intro x hx hxk
          rcases List.mem_or_eq_of_mem_set hx with hx | rfl
          · exact hf.1 x hx hxk
          · exact hf.1 b (List.mem_of_getElem? hb) hxk

theorem frozen_step (env : Time → Val → Option Bool) {k : String} {e : Option Entry} {c : Circ}
    (hf : Frozen k e c) (op : Op) : Frozen k e (step env c op) := by
  cases op with
  | ev i ev =>
    simp only [step]
    split
    · next c' r h => exact frozen_event hf h
    · exact hf
  | fire i =>
    simp only [step]
    split
    · split
      · split
        · next c' r h => exact frozen_fire hf h
        · exact hf
      · exact hf
    · exact hf
  | adv t =>
    simp only [step]
    cases h : c.advance t with
    | none => exact hf
    | some c' =>
      have : c' = { c with now := t } := by
        unfold Circ.advance at h
        split at h
        · simp at h
        · split at h
          · split at h
            · simp at h
            · simpa using h.symm
          · simpa using h.symm
      subst this; exact hf

theorem frozen_run (env : Time → Val → Option Bool) {k : String} {e : Option Entry} (ops : List Op) {c : Circ}
    (hf : Frozen k e c) : Frozen k e (run env c ops) := by
  induction ops generalizing c with
  | nil => exact hf
  | cons op r ih => exact ih (frozen_step env hf op)

/-- no block with `persistent and sync_state` owns key `k` (nothing is saved there by events), and the slot
    holds `e` -/
def Quiet (k : String) (e : Option Entry) (c : Circ) : Prop :=
  (∀ b ∈ c.blocks, b.key = k → (b.persistent && b.sync) = false) ∧ c.store.get? k = e

theorem quiet_event {k : String} {e : Option Entry} {c c' : Circ} {cal : Val → Option Bool} {i : Nat}
    {ev : Ev} {r : Res} (hf : Quiet k e c) (h : c.event cal i ev = some (c', r)) : Quiet k e c' := by
  unfold Circ.event at h
  split at h
  · simp at h
  · split at h
    · simp at h
    · next b hb =>
      have hbm : b ∈ c.blocks := List.mem_of_getElem? hb
      simp only at h
      generalize blockEvent b.kind cal c.now b.dyn ev = p at h
      obtain ⟨d, r0⟩ := p
      have key : ∀ (b' : Blk), b'.key = b.key → ((b'.persistent && b'.sync) = true → (b.persistent && b.sync) = true) →
          ∀ x ∈ c.blocks.set i b', x.key = k → (x.persistent && x.sync) = false := by
        intro b' hk hp x hx hxk
        rcases List.mem_or_eq_of_mem_set hx with hx | rfl
        · exact hf.1 x hx hxk
        · cases hbp : (x.persistent && x.sync)
          · rfl
          · have := hf.1 b hbm (hk ▸ hxk)
            rw [hp hbp] at this; simp at this
      cases r0 with
      | ret v =>
        simp only [Option.some.injEq, Prod.mk.injEq] at h
        obtain ⟨rfl, rfl⟩ := h
        refine ⟨key _ rfl id, ?_⟩
        show Storage.get? (if (b.persistent && b.sync) = true then _ else _) k = e
        split
        · next hcond =>
          rw [saveBlk_other]
          · exact hf.2
          · intro _ heq
            have := hf.1 b hbm heq.symm
            rw [hcond] at this; simp at this
        · exact hf.2
      | handlerError =>
        simp only [Option.some.injEq, Prod.mk.injEq] at h
        obtain ⟨rfl, rfl⟩ := h
        exact ⟨key _ rfl (fun h => by simp at h), hf.2⟩
      | paramError =>
        simp only [Option.some.injEq, Prod.mk.injEq] at h
        obtain ⟨rfl, rfl⟩ := h
        exact ⟨key _ rfl (fun h => by simp only [Bool.and_eq_true] at h ⊢; exact ⟨h.1.1, h.2⟩), hf.2⟩
      | unknown =>
        simp only [Option.some.injEq, Prod.mk.injEq] at h
        obtain ⟨rfl, rfl⟩ := h
        exact ⟨key _ rfl (fun h => by simp only [Bool.and_eq_true] at h ⊢; exact ⟨h.1.1, h.2⟩), hf.2⟩

theorem quiet_fire {k : String} {e : Option Entry} {c c' : Circ} {cal : Val → Option Bool} {i : Nat}
    {r : Res} (hf : Quiet k e c) (h : c.fire cal i = some (c', r)) : Quiet k e c' := by
  unfold Circ.fire at h
  split at h
  · simp at h
  · split at h
    · simp at h
    · next b hb =>
      split at h
      · simp at h
      · split at h
        · simp at h
        · refine quiet_event ?_ h
          refine ⟨?_, hf.2⟩
          intro x hx hxk
          rcases List.mem_or_eq_of_mem_set hx with hx | rfl
          · exact hf.1 x hx hxk
          · exact hf.1 b (List.mem_of_getElem? hb) hxk

theorem quiet_step (env : Time → Val → Option Bool) {k : String} {e : Option Entry} {c : Circ}
    (hf : Quiet k e c) (op : Op) : Quiet k e (step env c op) := by
  cases op with
  | ev i ev =>
    simp only [step]
    split
    · next c' r h => exact quiet_event hf h
    · exact hf
  | fire i =>
    simp only [step]
    split
    · split
      · split
        · next c' r h => exact quiet_fire hf h
        · exact hf
      · exact hf
    · exact hf
  | adv t =>
    simp only [step]
    cases h : c.advance t with
    | none => exact hf
    | some c' =>
      have : c' = { c with now := t } := by
        unfold Circ.advance at h
        split at h
        · simp at h
        · split at h
          · split at h
            · simp at h
            · simpa using h.symm
          · simpa using h.symm
      subst this; exact hf

theorem quiet_run (env : Time → Val → Option Bool) {k : String} {e : Option Entry} (ops : List Op) {c : Circ}
    (hf : Quiet k e c) : Quiet k e (run env c ops) := by
  induction ops generalizing c with
  | nil => exact hf
  | cons op r ih => exact ih (quiet_step env hf op)

theorem reserved_stopKey : reserved stopKey = true := by decide +kernel

theorem stopEnd_store (c : Circ) (t : Time) (complete : Bool) : (c.stopEnd t complete).store = c.store := by
  unfold Circ.stopEnd; split <;> rfl

theorem frozen_stopBegin {k : String} {e : Option Entry} {c : Circ} (hf : Frozen k e c) (hr : reserved k = false)
    (t : Time) : Frozen k e (c.stopBegin t) := by
  have hne : k ≠ stopKey := fun h => by rw [h, reserved_stopKey] at hr; simp at hr
  unfold Circ.stopBegin
  split
  · exact hf
  · refine ⟨hf.1, ?_⟩
    simp only
    split
    · rw [Storage.get?_set_ne _ _ hne, saveAll_other]
      · exact hf.2
      · intro b hb hp heq
        have := hf.1 b hb heq.symm
        rw [hp] at this; simp at this
    · exact hf.2

theorem frozen_stop {k : String} {e : Option Entry} {c : Circ} (hf : Frozen k e c) (hr : reserved k = false)
    (t : Time) : (c.stop t).store.get? k = e := by
  unfold Circ.stop
  rw [stopEnd_store]
  exact (frozen_stopBegin hf hr t).2

end Edzed.Persist

namespace Edzed.Persist

/-! ## started circuits -/

/-- the start went through (`start_ok`) and the stop has not happened yet -/
def Live (c : Circ) : Prop :=
  c.startOk = true ∧ (c.phase = .running ∨ c.phase = .aborted ∨ c.phase = .failed)

theorem live_event {c c' : Circ} {cal : Val → Option Bool} {i : Nat} {ev : Ev} {r : Res}
    (hl : Live c) (h : c.event cal i ev = some (c', r)) : Live c' := by
  unfold Circ.event at h
  split at h
  · simp at h
  · split at h
    · simp at h
    · simp only at h
      generalize blockEvent _ cal c.now _ ev = p at h
      obtain ⟨d, r0⟩ := p
      cases r0 <;> simp only [Option.some.injEq, Prod.mk.injEq] at h <;> obtain ⟨rfl, _⟩ := h
      · exact hl
      · exact hl
      · exact hl
      · refine ⟨hl.1, ?_⟩
        rcases hl.2 with h | h | h <;> simp [h]

theorem live_step (env : Time → Val → Option Bool) {c : Circ} (hl : Live c) (op : Op) : Live (step env c op) := by
  cases op with
  | ev i ev =>
    simp only [step]
    split
    · next c' r h => exact live_event hl h
    · exact hl
  | fire i =>
    simp only [step]
    split
    · split
      · split
        · next c' r h =>
          unfold Circ.fire at h
          split at h
          · simp at h
          · split at h
            · simp at h
            · split at h
              · simp at h
              · split at h
                · simp at h
                · exact live_event (c := { c with now := _, blocks := c.blocks.set i _ }) hl h
        · exact hl
      · exact hl
    · exact hl
  | adv t =>
    simp only [step]
    cases h : c.advance t with
    | none => exact hl
    | some c' =>
      have : c' = { c with now := t } := by
        unfold Circ.advance at h
        split at h
        · simp at h
        · split at h
          · split at h
            · simp at h
            · simpa using h.symm
          · simpa using h.symm
      subst this; exact hl

theorem live_run (env : Time → Val → Option Bool) (ops : List Op) {c : Circ} (hl : Live c) : Live (run env c ops) := by
  induction ops generalizing c with
  | nil => exact hl
  | cons op r ih => exact ih (live_step env hl op)

theorem live_start (c : Circ) (cal : Val → Option Bool) (now : Time) (hidle : c.phase = .idle) :
    Live (c.start cal now .ok) := by
  unfold Circ.start
  simp only [hidle, bne_self_eq_false, Bool.false_eq_true, if_false]
  split <;> exact ⟨rfl, by simp⟩

/-- what the beginning of the stop leaves in the storage -/
theorem stopBegin_store (c : Circ) (hl : Live c) (t : Time) :
    (c.stopBegin t).store = (saveAll c.store c.blocks).set stopKey (.ts t) := by
  unfold Circ.stopBegin
  rcases hl.2 with h | h | h <;> simp [h, hl.1]

/-- what `stop` leaves in the storage -/
theorem stop_store (c : Circ) (hl : Live c) (t : Time) :
    (c.stop t).store = (saveAll c.store c.blocks).set stopKey (.ts t) := by
  unfold Circ.stop
  rw [stopEnd_store, stopBegin_store c hl t]

/-! ## what the start does to one block -/

theorem pass2_inited (cal : Val → Option Bool) (now : Time) (bs : List Blk) {i : Nat} {b : Blk}
    (hb : bs[i]? = some b) (hi : b.dyn.inited = true) : (pass2 cal now bs).1[i]? = some b := by
  induction bs generalizing i with
  | nil => simp at hb
  | cons a r ih =>
    cases i with
    | zero =>
      simp only [List.getElem?_cons_zero, Option.some.injEq] at hb
      subst hb
      simp [pass2, hi]
    | succ j =>
      simp only [List.getElem?_cons_succ] at hb
      simp only [pass2]
      split
      · simp only [List.getElem?_cons_succ]; exact ih hb
      · split
        · simp only [List.getElem?_cons_succ]; exact hb
        · simp only [List.getElem?_cons_succ]; exact ih hb

theorem pass2_fresh (cal : Val → Option Bool) (now : Time) (bs : List Blk) (hok : (pass2 cal now bs).2 = true)
    {i : Nat} {b : Blk} (hb : bs[i]? = some b) (hi : b.dyn.inited = false) :
    (pass2 cal now bs).1[i]? = some { b with dyn := (regularInit b.kind cal now).1 } := by
  induction bs generalizing i with
  | nil => simp at hb
  | cons a r ih =>
    simp only [pass2] at hok ⊢
    cases i with
    | zero =>
      simp only [List.getElem?_cons_zero, Option.some.injEq] at hb
      subst hb
      simp only [hi, Bool.false_eq_true, if_false] at hok ⊢
      split at hok
      · simp at hok
      · next d hd => simp [hd]
    | succ j =>
      simp only [List.getElem?_cons_succ] at hb
      split at hok
      · next ha => simp only [ha, if_true, List.getElem?_cons_succ]; exact ih hok hb
      · next ha =>
        rw [if_neg ha]
        split at hok
        · simp at hok
        · next d hd => simp only [List.getElem?_cons_succ]; exact ih hok hb

theorem load_cleanUnused (b : Blk) (bs : List Blk) (hb : b ∈ bs) (store : Storage) (ts : Option Time)
    (cal : Val → Option Bool) (now : Time) :
    load b (cleanUnused store bs) ts cal now = load b store ts cal now := by
  unfold load
  split
  · rfl
  · next hp =>
    simp only [Bool.not_eq_true, Bool.not_eq_false'] at hp
    have : (cleanUnused store bs).get? b.key = store.get? b.key := by
      unfold cleanUnused
      rw [Storage.get?_filterKey (fun k => reserved k || (persistentKeys bs).contains k)]
      have : (persistentKeys bs).contains b.key = true := by
        simp only [persistentKeys, List.contains_eq_mem, List.mem_map, List.mem_filter, decide_eq_true_eq]
        exact ⟨b, ⟨hb, hp⟩, rfl⟩
      rw [this, Bool.or_true, if_pos rfl]
    rw [this]

end Edzed.Persist

namespace Edzed.Persist

/-- the start never switches persistence on: a persistent block afterwards was one before -/
theorem pass1_pers (bs : List Blk) (store : Storage) (ts : Option Time) (cal : Val → Option Bool) (now : Time) :
    ∀ x ∈ pass1 bs store ts cal now, x.persistent = true → ∃ y ∈ bs, y.persistent = true ∧ y.key = x.key := by
  intro x hx hp
  simp only [pass1, List.mem_map] at hx
  obtain ⟨y, hy, rfl⟩ := hx
  refine ⟨y, hy, ?_, ?_⟩
  · split at hp <;> exact hp
  · split <;> rfl

theorem pass2_pers (cal : Val → Option Bool) (now : Time) (bs : List Blk) :
    ∀ x ∈ (pass2 cal now bs).1, x.persistent = true → ∃ y ∈ bs, y.persistent = true ∧ y.key = x.key := by
  induction bs with
  | nil => intro x hx; simp [pass2] at hx
  | cons b r ih =>
    intro x hx hp
    simp only [pass2] at hx
    split at hx
    · simp only [List.mem_cons] at hx
      rcases hx with rfl | hx
      · exact ⟨x, List.mem_cons_self .., hp, rfl⟩
      · obtain ⟨y, hy, h1, h2⟩ := ih x hx hp
        exact ⟨y, List.mem_cons_of_mem _ hy, h1, h2⟩
    · split at hx
      · simp only [List.mem_cons] at hx
        rcases hx with rfl | hx
        · simp at hp
        · exact ⟨x, List.mem_cons_of_mem _ hx, hp, rfl⟩
      · simp only [List.mem_cons] at hx
        rcases hx with rfl | hx
        · exact ⟨b, List.mem_cons_self .., hp, rfl⟩
        · obtain ⟨y, hy, h1, h2⟩ := ih x hx hp
          exact ⟨y, List.mem_cons_of_mem _ hy, h1, h2⟩

end Edzed.Persist

namespace Edzed.Persist

/-! ## the stop: what is saved before the clean-up, and what the clean-up can do to it -/

theorem inv_stopBegin {c : Circ} (hi : Inv c) (t : Time) : Inv (c.stopBegin t) := by
  unfold Circ.stopBegin
  split
  · exact hi
  · next hph =>
    by_cases hf : c.phase = .failed
    · -- clean-up after a failed start-up: nothing is claimed
      simp only [hf, beq_self_eq_true, if_true]
      exact ⟨hi.nodup, hi.plain, fun hg => by rcases hg with h | h | h <;> simp at h,
        fun hg => by rcases hg with h | h | h <;> simp at h, fun hg => by rcases hg with h | h | h <;> simp at h⟩
    · have hg : Good c := by
        cases hp : c.phase <;> simp_all [Good]
      have hph' : (c.phase == Phase.failed) = false := by simpa using hf
      simp only [hph', Bool.false_eq_true, if_false]
      refine ⟨hi.nodup, hi.plain, fun _ => hi.valid hg, ?_, ?_⟩
      · intro _ b hb hc
        rcases hc with hc | hc
        · simp at hc
        · exact hi.ok hg b hb (Or.inr hc)
      · intro _ b hb hp hsy
        show Storage.get? (if c.startOk = true then _ else _) b.key = _
        split
        · have hne : b.key ≠ stopKey := fun h => by
            have := hi.plain _ (List.mem_map_of_mem hb)
            rw [h, reserved_stopKey] at this; simp at this
          rw [Storage.get?_set_ne _ _ hne]
          exact saveAll_mem _ hi.nodup _ hb hp
        · exact hi.synced hg b hb hp hsy

theorem event_now {c c' : Circ} {cal : Val → Option Bool} {i : Nat} {ev : Ev} {r : Res}
    (h : c.event cal i ev = some (c', r)) : c'.now = c.now := by
  unfold Circ.event at h
  split at h
  · simp at h
  · split at h
    · simp at h
    · simp only at h
      generalize blockEvent _ cal c.now _ ev = p at h
      obtain ⟨d, r0⟩ := p
      cases r0 <;> simp only [Option.some.injEq, Prod.mk.injEq] at h <;> obtain ⟨rfl, _⟩ := h <;> rfl

theorem event_ts {c c' : Circ} {cal : Val → Option Bool} {i : Nat} {ev : Ev} {r : Res}
    (h : c.event cal i ev = some (c', r)) : c'.ts = c.ts := by
  unfold Circ.event at h
  split at h
  · simp at h
  · split at h
    · simp at h
    · simp only at h
      generalize blockEvent _ cal c.now _ ev = p at h
      obtain ⟨d, r0⟩ := p
      cases r0 <;> simp only [Option.some.injEq, Prod.mk.injEq] at h <;> obtain ⟨rfl, _⟩ := h <;> rfl

/-- the virtual clock of a history never goes back -/
theorem now_step (env : Time → Val → Option Bool) (c : Circ) (op : Op) : c.now ≤ (step env c op).now := by
  cases op with
  | ev i ev =>
    simp only [step]
    split
    · next c' r h => rw [event_now h]; exact Nat.le_refl _
    · exact Nat.le_refl _
  | fire i =>
    simp only [step]
    split
    · split
      · split
        · next c' r h =>
          unfold Circ.fire at h
          split at h
          · simp at h
          · split at h
            · simp at h
            · split at h
              · simp at h
              · split at h
                · simp at h
                · next hlt =>
                  rw [event_now h]
                  exact Nat.le_of_not_lt hlt
        · exact Nat.le_refl _
      · exact Nat.le_refl _
    · exact Nat.le_refl _
  | adv t =>
    simp only [step]
    cases h : c.advance t with
    | none => exact Nat.le_refl _
    | some c' =>
      unfold Circ.advance at h
      split at h
      · simp at h
      · next hlt =>
        have : c'.now = t := by
          split at h
          · split at h
            · simp at h
            · simp only [Option.some.injEq] at h; rw [← h]
          · simp only [Option.some.injEq] at h; rw [← h]
        simp only [Option.getD_some, this]
        exact Nat.le_of_not_lt hlt

theorem now_run (env : Time → Val → Option Bool) (ops : List Op) (c : Circ) : c.now ≤ (run env c ops).now := by
  induction ops generalizing c with
  | nil => exact Nat.le_refl _
  | cons op r ih => exact Nat.le_trans (now_step env c op) (ih _)

theorem start_now (c : Circ) (cal : Val → Option Bool) (now : Time) (mode : StartMode) (hidle : c.phase = .idle) :
    (c.start cal now mode).now = now ∧ (c.start cal now mode).ts = (if mode = .abortedBefore then c.ts else readTs c.store) := by
  unfold Circ.start
  simp only [hidle, bne_self_eq_false, Bool.false_eq_true, if_false]
  cases mode with
  | abortedBefore => exact ⟨rfl, rfl⟩
  | startRaises => exact ⟨rfl, rfl⟩
  | ok => simp only; split <;> exact ⟨rfl, rfl⟩

/-- the slot of the stop time belongs to no block -/
theorem frozen_stamp {c : Circ} (hp : ∀ k ∈ keys c.blocks, reserved k = false) :
    Frozen stopKey (c.store.get? stopKey) c := by
  refine ⟨?_, rfl⟩
  intro b hb hk
  have := hp _ (List.mem_map_of_mem hb)
  rw [hk, reserved_stopKey] at this; simp at this

end Edzed.Persist

namespace Edzed.Persist

theorem mem_key_inj {l : List Blk} (hn : (keys l).Nodup) {x y : Blk} (hx : x ∈ l) (hy : y ∈ l)
    (hk : x.key = y.key) : x = y := by
  induction l with
  | nil => cases hx
  | cons a r ih =>
    simp only [keys, List.map_cons, List.nodup_cons] at hn
    rcases List.mem_cons.mp hx with rfl | hx' <;> rcases List.mem_cons.mp hy with rfl | hy'
    · rfl
    · exact absurd (hk ▸ List.mem_map_of_mem hy') hn.1
    · exact absurd (hk ▸ List.mem_map_of_mem hx') hn.1
    · exact ih hn.2 hx' hy'

end Edzed.Persist

namespace Edzed.Persist

/-! ## start-up with events between the blocks -/

theorem load_congr {b : Blk} {s1 s2 : Storage} (h : s1.get? b.key = s2.get? b.key) (ts : Option Time)
    (cal : Val → Option Bool) (now : Time) : load b s1 ts cal now = load b s2 ts cal now := by
  unfold load; rw [h]

theorem keys_inj {l : List Blk} (hn : (keys l).Nodup) {i j : Nat} {a b : Blk}
    (hi : l[i]? = some a) (hj : l[j]? = some b) (hk : a.key = b.key) : i = j := by
  induction l generalizing i j with
  | nil => simp at hi
  | cons x r ih =>
    simp only [keys, List.map_cons, List.nodup_cons] at hn
    cases i <;> cases j
    · rfl
    · simp only [List.getElem?_cons_zero, Option.some.injEq, List.getElem?_cons_succ] at hi hj
      subst hi
      exact absurd (hk ▸ List.mem_map_of_mem (List.mem_of_getElem? hj)) hn.1
    · simp only [List.getElem?_cons_zero, Option.some.injEq, List.getElem?_cons_succ] at hi hj
      subst hj
      exact absurd (hk ▸ List.mem_map_of_mem (List.mem_of_getElem? hi)) hn.1
    · simp only [List.getElem?_cons_succ] at hi hj
      rw [ih hn.2 hi hj]

theorem syncSave_ne (s : Storage) (b : Blk) {k : String} (h : k ≠ b.key) : (syncSave s b).get? k = s.get? k := by
  unfold syncSave; split
  · exact saveBlk_ne s b h
  · rfl

/-- the repair: an event that leaves the block uninitialised does not touch the storage -/
theorem syncSave_uninit (s : Storage) (b : Blk) (h : b.dyn.inited = false) : syncSave s b = s := by
  simp [syncSave, h]

/-- invariant of the start-up relative to the blocks `bs0` and the storage `st0` it began with: a block that
    has not been touched yet is as it was and so is its storage entry; a block that had its step 1 was
    restored exactly when its ORIGINAL entry was valid -/
structure IInv (ts : Option Time) (cal : Val → Option Bool) (now : Time) (bs0 : List Blk) (st0 : Storage)
    (S : IState) : Prop where
  keys : keys S.blocks = keys bs0
  untouched : ∀ (j : Nat) (b : Blk), S.blocks[j]? = some b → b.steps = 0 →
    bs0[j]? = some b ∧ S.store.get? b.key = st0.get? b.key
  touched : ∀ (j : Nat) (b : Blk), S.blocks[j]? = some b → b.steps ≠ 0 →
    ∃ b0, bs0[j]? = some b0 ∧ b.key = b0.key ∧ (b.restored = true ↔ (load b0 st0 ts cal now).isSome = true)

variable {ts : Option Time} {cal : Val → Option Bool} {now : Time} {bs0 : List Blk} {st0 : Storage}

theorem iinv_update (hn : (keys bs0).Nodup) {S : IState} (hI : IInv ts cal now bs0 st0 S) {j : Nat} {b : Blk}
    (hb : S.blocks[j]? = some b) (b' : Blk) (hk : b'.key = b.key) (hs : b'.steps ≠ 0)
    (hr : ∃ b0, bs0[j]? = some b0 ∧ b.key = b0.key ∧ (b'.restored = true ↔ (load b0 st0 ts cal now).isSome = true))
    (store' : Storage) (hst : ∀ k, k ≠ b.key → store'.get? k = S.store.get? k) (ok' : Bool) :
    IInv ts cal now bs0 st0 { blocks := S.blocks.set j b', store := store', ok := ok' } := by
  have hlen : j < S.blocks.length := (List.getElem?_eq_some_iff.mp hb).1
  have hnS : (keys S.blocks).Nodup := by rw [hI.keys]; exact hn
  refine ⟨by simp only; rw [keys_set hb hk]; exact hI.keys, ?_, ?_⟩
  · intro i b1 hi hs1
    simp only [List.getElem?_set] at hi
    split at hi
    · next hij => simp only [hlen, if_true, Option.some.injEq] at hi; subst hi; exact absurd hs1 hs
    · next hij =>
      obtain ⟨h1, h2⟩ := hI.untouched i b1 hi hs1
      refine ⟨h1, ?_⟩
      have hne : b1.key ≠ b.key := fun h => hij (keys_inj hnS hb hi h.symm)
      simp only
      rw [hst _ hne]; exact h2
  · intro i b1 hi hs1
    simp only [List.getElem?_set] at hi
    split at hi
    · next hij =>
      simp only [hlen, if_true, Option.some.injEq] at hi; subst hi; subst hij
      obtain ⟨b0, h1, h2, h3⟩ := hr
      exact ⟨b0, h1, hk.trans h2, h3⟩
    · exact hI.touched i b1 hi hs1

theorem iinv_ok (S : IState) (hI : IInv ts cal now bs0 st0 S) (ok' : Bool) :
    IInv ts cal now bs0 st0 { S with ok := ok' } := ⟨hI.keys, hI.untouched, hI.touched⟩

theorem iinv_init1 (hn : (keys bs0).Nodup) (hf : ∀ b ∈ bs0, b.restored = false) {S : IState} (hI : IInv ts cal now bs0 st0 S) (j : Nat) :
    IInv ts cal now bs0 st0 (init1 ts cal now S j) := by
  unfold init1
  split
  · exact hI
  · next b hb =>
    split
    · exact hI
    · next hs =>
      simp only [bne_iff_ne, ne_eq, Decidable.not_not] at hs
      obtain ⟨h1, h2⟩ := hI.untouched j b hb hs
      have hl : load b S.store ts cal now = load b st0 ts cal now := load_congr h2 ts cal now
      split
      · next d hd =>
        exact iinv_update hn hI hb { b with dyn := d, restored := true, steps := 1 } rfl (by simp)
          ⟨b, h1, rfl, by simp [← hl, hd]⟩ S.store (fun _ _ => rfl) S.ok
      · next hd =>
        have hr0 : b.restored = false := hf b (List.mem_of_getElem? h1)
        exact iinv_update hn hI hb { b with steps := 1 } rfl (by simp)
          ⟨b, h1, rfl, by simp [← hl, hd, hr0]⟩ S.store (fun _ _ => rfl) S.ok

theorem iinv_init2 (hn : (keys bs0).Nodup) {S : IState} (hI : IInv ts cal now bs0 st0 S) (j : Nat) :
    IInv ts cal now bs0 st0 (init2 cal now S j) := by
  unfold init2
  split
  · exact hI
  · next b hb =>
    split
    · exact hI
    · next hs =>
      simp only [bne_iff_ne, ne_eq, Decidable.not_not] at hs
      have hs' : b.steps ≠ 0 := by omega
      obtain ⟨b0, h1, h2, h3⟩ := hI.touched j b hb hs'
      split
      · exact iinv_update hn hI hb { b with steps := 2 } rfl (by simp) ⟨b0, h1, h2, h3⟩ S.store (fun _ _ => rfl) S.ok
      · split
        · next d _ =>
          exact iinv_update hn hI hb { b with dyn := d, persistent := false, steps := 2 } rfl (by simp)
            ⟨b0, h1, h2, h3⟩ S.store (fun _ _ => rfl) false
        · next d _ =>
          exact iinv_update hn hI hb { b with dyn := d, steps := 2 } rfl (by simp)
            ⟨b0, h1, h2, h3⟩ S.store (fun _ _ => rfl) S.ok

theorem iinv_deliver (hn : (keys bs0).Nodup) (hf : ∀ b ∈ bs0, b.restored = false) {S : IState}
    (hI : IInv ts cal now bs0 st0 S) (j : Nat) (v : Val) :
    IInv ts cal now bs0 st0 (deliver ts cal now S j v) := by
  have hI1 := iinv_init2 (cal := cal) (now := now) hn (iinv_init1 hn hf hI j) j
  unfold deliver
  simp only
  generalize init2 cal now (init1 ts cal now S j) j = S1 at hI1
  split
  · exact iinv_ok S1 hI1 false
  · next b hb =>
    split
    · exact iinv_ok S1 hI1 false
    · next hg =>
      simp only [Bool.or_eq_true, beq_iff_eq, not_or] at hg
      obtain ⟨b0, h1, h2, h3⟩ := hI1.touched j b hb hg.2
      split
      · next d r _ =>
        exact iinv_update hn hI1 hb { b with dyn := d } rfl hg.2 ⟨b0, h1, h2, h3⟩ _
          (fun k hk => syncSave_ne S1.store { b with dyn := d } hk) S1.ok
      · exact iinv_ok S1 hI1 false

theorem iinv_emit (hn : (keys bs0).Nodup) (hf : ∀ b ∈ bs0, b.restored = false) {S : IState}
    (hI : IInv ts cal now bs0 st0 S) (i : Nat) : IInv ts cal now bs0 st0 (emit ts cal now S i) := by
  unfold emit
  split
  · exact hI
  · split
    · exact hI
    · repeat' split
      all_goals first | exact hI | exact iinv_ok S hI false | exact iinv_deliver hn hf hI _ _

theorem iinv_turn1 (hn : (keys bs0).Nodup) (hf : ∀ b ∈ bs0, b.restored = false) {S : IState}
    (hI : IInv ts cal now bs0 st0 S) (i : Nat) : IInv ts cal now bs0 st0 (turn1 ts cal now S i) := by
  unfold turn1
  split
  · exact hI
  · simp only
    split
    · exact iinv_emit hn hf (iinv_init1 hn hf hI i) i
    · exact iinv_init1 hn hf hI i

theorem iinv_turn2 (hn : (keys bs0).Nodup) (hf : ∀ b ∈ bs0, b.restored = false) {S : IState}
    (hI : IInv ts cal now bs0 st0 S) (i : Nat) : IInv ts cal now bs0 st0 (turn2 ts cal now S i) := by
  unfold turn2
  split
  · exact hI
  · split
    · exact iinv_init2 hn hI i
    · simp only
      split
      · exact iinv_emit hn hf (iinv_init2 hn hI i) i
      · exact iinv_init2 hn hI i

theorem iinv_foldl (f : IState → Nat → IState)
    (hfp : ∀ S i, IInv ts cal now bs0 st0 S → IInv ts cal now bs0 st0 (f S i))
    (is : List Nat) {S : IState} (hI : IInv ts cal now bs0 st0 S) :
    IInv ts cal now bs0 st0 (is.foldl f S) := by
  induction is generalizing S with
  | nil => exact hI
  | cons a r ih => exact ih (hfp S a hI)

theorem iinv_initial (hs : ∀ b ∈ bs0, b.steps = 0) (st0 : Storage) :
    IInv ts cal now bs0 st0 { blocks := bs0, store := st0 } :=
  ⟨rfl, fun _ _ hb _ => ⟨hb, rfl⟩, fun _ b hb hne => absurd (hs b (List.mem_of_getElem? hb)) hne⟩

end Edzed.Persist

namespace Edzed.Persist

/-! ## a storage that fails: without faults the functions are the ordinary ones -/

theorem saveBlkF_nofault (s : Storage) (b : Blk) : saveBlkF {} s b = (saveBlk s b, false) := by
  unfold saveBlkF saveBlk
  cases b.persistent <;> cases getState b.kind b.dyn <;> simp

theorem saveAllF_nofault (s : Storage) (bs : List Blk) : saveAllF {} s bs = (saveAll s bs, false) := by
  induction bs generalizing s with
  | nil => rfl
  | cons b r ih => simp only [saveAllF, saveBlkF_nofault, ih, saveAll, List.foldl_cons]

/-! ### nested calls of the event wrapper -/

theorem wrapperSave_nested (s : Storage) (b : Blk) : wrapperSave true s b = (s, false) := by
  simp [wrapperSave]

theorem nestedSaves_eq (b : Blk) (mids : List Dyn) (s : Storage) (log : List Storage) :
    nestedSaves b mids s log = (s, log) := by
  unfold nestedSaves
  induction mids with
  | nil => rfl
  | cons m r ih => simp only [List.foldl_cons, wrapperSave_nested]; exact ih

/-- the wrapper with its nested calls computes the circuit and the result of `Circ.event` -/
theorem eventN_is_event (c : Circ) (cal : Val → Option Bool) (i : Nat) (ev : Ev) :
    (c.eventN cal i ev).map (fun x => (x.1, x.2.1)) = c.event cal i ev := by
  unfold Circ.eventN Circ.event
  split
  · rfl
  · split
    · rfl
    · next b hb =>
      simp only [nestedSaves_eq]
      generalize blockEvent b.kind cal c.now b.dyn ev = p
      obtain ⟨d, r⟩ := p
      cases r <;> simp [wrapperSave] <;> split <;> simp_all

/-- the writes of an event: none, or exactly one - the final storage - and then the event was handled -/
theorem eventN_writes {c c' : Circ} {cal : Val → Option Bool} {i : Nat} {ev : Ev} {r : Res} {ws : List Storage}
    (h : c.eventN cal i ev = some (c', r, ws)) :
    (ws = [] ∧ c'.store = c.store) ∨ (∃ v, r = .ret v ∧ ws = [c'.store]) := by
  unfold Circ.eventN at h
  split at h
  · simp at h
  · split at h
    · simp at h
    · next b hb =>
      simp only [nestedSaves_eq] at h
      generalize blockEvent b.kind cal c.now b.dyn ev = p at h
      obtain ⟨d, r0⟩ := p
      cases r0 with
      | ret v =>
        simp only [Option.some.injEq, Prod.mk.injEq] at h
        obtain ⟨rfl, rfl, rfl⟩ := h
        unfold wrapperSave
        split
        · exact Or.inr ⟨v, rfl, by simp⟩
        · exact Or.inl ⟨by simp, rfl⟩
      | handlerError =>
        simp only [Option.some.injEq, Prod.mk.injEq] at h
        obtain ⟨rfl, rfl, rfl⟩ := h
        exact Or.inl ⟨rfl, rfl⟩
      | paramError =>
        simp only [Option.some.injEq, Prod.mk.injEq] at h
        obtain ⟨rfl, rfl, rfl⟩ := h
        exact Or.inl ⟨rfl, rfl⟩
      | unknown =>
        simp only [Option.some.injEq, Prod.mk.injEq] at h
        obtain ⟨rfl, rfl, rfl⟩ := h
        exact Or.inl ⟨rfl, rfl⟩

theorem eventN_event {c c' : Circ} {cal : Val → Option Bool} {i : Nat} {ev : Ev} {r : Res} {ws : List Storage}
    (h : c.eventN cal i ev = some (c', r, ws)) : c.event cal i ev = some (c', r) := by
  rw [← eventN_is_event, h]; rfl

theorem fireN_is_fire (c : Circ) (cal : Val → Option Bool) (i : Nat) :
    (c.fireN cal i).map (fun x => (x.1, x.2.1)) = c.fire cal i := by
  unfold Circ.fireN Circ.fire
  split
  · rfl
  · split
    · rfl
    · split
      · rfl
      · split
        · rfl
        · exact eventN_is_event ..

end Edzed.Persist
