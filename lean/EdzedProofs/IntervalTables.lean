/-
Finite tables for C13, closed by kernel evaluation of the model's parsers over the WHOLE table:
all 366 days of the dummy leap year × a selection of the documented date notations, and every
abbreviation of every month name.  Core Lean only.
-/
import EdzedModel.Interval

namespace Edzed.Interval

/-- notations of the day `d` of month `mo`: canonical `Mon D` (what `as_string()` prints), full name,
    upper/lower case, day first, periods, no blank, surrounding blanks, `--MMDD`, `--MM-DD` -/
def dateNotations (mo d : Nat) : List (List Char) :=
  let full := Gen.monthNamesC.getD mo []
  let abbr := full.take 3
  let dd := natStr d
  let d2 := pad 2 d
  [abbr ++ ' ' :: dd, full ++ ' ' :: dd, full.map toUpper ++ ' ' :: d2, full.map toLower ++ ' ' :: ' ' :: dd,
   dd ++ ' ' :: abbr, dd ++ '.' :: abbr.map toLower, d2 ++ abbr.map toUpper, abbr ++ dd,
   abbr ++ '.' :: ' ' :: dd ++ ['.'], dd ++ '.' :: ' ' :: full ++ ['.'], ' ' :: '\t' :: abbr ++ ' ' :: dd ++ [' '],
   '-' :: '-' :: pad 2 mo ++ d2, '-' :: '-' :: pad 2 mo ++ '-' :: d2]

def dateTableOk (mo : Nat) : Bool :=
  (List.range 32).all fun d => !validDate [mo, d] ||
    (dateNotations mo d).all (fun s => convertStr .date s == .ok [mo, d])

theorem dateTable_1 : dateTableOk 1 = true := by decide +kernel
theorem dateTable_2 : dateTableOk 2 = true := by decide +kernel
theorem dateTable_3 : dateTableOk 3 = true := by decide +kernel
theorem dateTable_4 : dateTableOk 4 = true := by decide +kernel
theorem dateTable_5 : dateTableOk 5 = true := by decide +kernel
theorem dateTable_6 : dateTableOk 6 = true := by decide +kernel
theorem dateTable_7 : dateTableOk 7 = true := by decide +kernel
theorem dateTable_8 : dateTableOk 8 = true := by decide +kernel
theorem dateTable_9 : dateTableOk 9 = true := by decide +kernel
theorem dateTable_10 : dateTableOk 10 = true := by decide +kernel
theorem dateTable_11 : dateTableOk 11 = true := by decide +kernel
theorem dateTable_12 : dateTableOk 12 = true := by decide +kernel

/-- every abbreviation of a month name to three or more letters, as written, in lower and in upper case -/
def monthAbbrevOk (mo : Nat) : Bool :=
  let full := Gen.monthNamesC.getD mo []
  (List.range (full.length + 1)).all fun n => decide (n < 3) ||
    (nameToMonth ((full.take n).map toLower) == some mo && nameToMonth ((full.take n).map toUpper) == some mo
      && nameToMonth (full.take n) == some mo)

theorem month_abbreviations_table : ∀ mo, mo < 13 → 1 ≤ mo → monthAbbrevOk mo = true := by decide +kernel

theorem dateTable_all {mo d : Nat} (h : validDate [mo, d] = true) :
    (dateNotations mo d).all (fun s => convertStr .date s == .ok [mo, d]) = true := by
  have hmo : mo < 13 ∧ d < 32 := by
    simp only [validDate, validDateIn, Bool.and_eq_true, decide_eq_true_eq] at h
    have : daysInMonth Gen.dummyYear mo ≤ 31 := by unfold daysInMonth; split <;> (try split) <;> omega
    omega
  have key : dateTableOk mo = true := by
    have : mo = 0 ∨ mo = 1 ∨ mo = 2 ∨ mo = 3 ∨ mo = 4 ∨ mo = 5 ∨ mo = 6 ∨ mo = 7 ∨ mo = 8 ∨ mo = 9 ∨
        mo = 10 ∨ mo = 11 ∨ mo = 12 := by omega
    rcases this with e | e | e | e | e | e | e | e | e | e | e | e | e <;> subst e
    · simp [validDate, validDateIn] at h
    · exact dateTable_1
    · exact dateTable_2
    · exact dateTable_3
    · exact dateTable_4
    · exact dateTable_5
    · exact dateTable_6
    · exact dateTable_7
    · exact dateTable_8
    · exact dateTable_9
    · exact dateTable_10
    · exact dateTable_11
    · exact dateTable_12
  have := (List.all_eq_true.1 key) d (List.mem_range.2 hmo.2)
  simpa [h] using this

end Edzed.Interval
