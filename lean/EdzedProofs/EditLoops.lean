/- lemmas about the loops of the DataEdit edit functions (used by the translation tie of C16) -/
import EdzedModel.Filters
import EdzedProofs.DataLemmas
namespace Edzed
open Filters

theorem Data.has_erase_of_ne (d : Data) (k k' : String) (hne : k' ≠ k) (h : d.has k' = true) :
    (d.erase k).has k' = true := by
  unfold Data.has at h ⊢
  unfold Data.erase
  obtain ⟨p, hp, hk⟩ := List.any_eq_true.mp h
  refine List.any_eq_true.mpr ⟨p, List.mem_filter.mpr ⟨hp, ?_⟩, hk⟩
  have : p.1 = k' := by simpa using hk
  simpa [this] using hne

/-- the loop of `DataEdit.permit` over a duplicate-free list of present keys -/
theorem permit_fold (args : List String) (ks : List String) (d : Data)
    (hnd : ks.Nodup) (hin : ∀ k ∈ ks, d.has k = true) :
    List.foldlM (m := Except Stop) (fun (data : Data) (key : String) =>
      if (!(args).contains key) then
        if Data.has data key then
          let data : Data := Data.erase data key
          .ok data
        else .error (.raise .keyError)
      else
        .ok data) d ks
    = .ok (d.filter (fun p => !(ks.contains p.1 && !(args.contains p.1)))) := by
  induction ks generalizing d with
  | nil =>
    simp only [List.foldlM_nil, pure, Except.pure]
    congr 1
    exact (List.filter_eq_self.mpr (by simp)).symm
  | cons k ks ih =>
    have hk : d.has k = true := hin k (List.mem_cons_self ..)
    have hnd' := (List.nodup_cons.mp hnd)
    simp only [List.foldlM_cons]
    by_cases hc : args.contains k = true
    · simp only [hc, Bool.not_true, Bool.false_eq_true, ↓reduceIte]
      show (do let d' ← (Except.ok d : Except Stop Data); _) = _
      simp only [bind, Except.bind]
      rw [ih d hnd'.2 (fun k' hk' => hin k' (List.mem_cons_of_mem _ hk'))]
      congr 1
      apply List.filter_congr
      intro p _
      have hmem : k ∈ args := by simpa using hc
      by_cases hp : p.1 = k
      · simp [hp, hmem]
      · by_cases hks : p.1 ∈ ks <;> by_cases ha : p.1 ∈ args <;> simp [hks, ha, hp]
    · have hc' : args.contains k = false := by simpa using hc
      simp only [hc', Bool.not_false, ↓reduceIte, hk]
      simp only [bind, Except.bind]
      rw [ih (d.erase k) hnd'.2 (fun k' hk' => Data.has_erase_of_ne d k k'
            (fun h => hnd'.1 (h ▸ hk')) (hin k' (List.mem_cons_of_mem _ hk')))]
      congr 1
      unfold Data.erase
      rw [List.filter_filter]
      apply List.filter_congr
      intro p _
      have hmem : ¬ k ∈ args := by simpa using hc'
      by_cases hp : p.1 = k
      · simp [hp, hmem]
      · by_cases hks : p.1 ∈ ks <;> by_cases ha : p.1 ∈ args <;> simp [hks, ha, hp]

/-- the loop of `DataEdit.delete` -/
theorem delete_fold (keys : List String) (d : Data) :
    List.foldlM (m := Except Stop) (fun (data : Data) (key : String) =>
      let data : Data := Data.erase data key
      .ok data) d keys = .ok (eraseAll d keys) := by
  induction keys generalizing d with
  | nil => rfl
  | cons k ks ih =>
    simp only [List.foldlM_cons, bind, Except.bind]
    rw [ih]; rfl

/-- with every key of `d` in `ks`, what the permit loop leaves is `keepOnly` -/
theorem permit_filter (args : List String) (d : Data) :
    d.filter (fun p => !((d.map (·.1)).contains p.1 && !(args.contains p.1))) = keepOnly d args := by
  unfold keepOnly
  apply List.filter_congr
  intro p hp
  have : p.1 ∈ d.map (·.1) := List.mem_map.mpr ⟨p, hp, rfl⟩
  by_cases ha : p.1 ∈ args <;> simp [this, ha]

/-- the keys of a mapping are present in it -/
theorem Data.has_of_mem_keys (d : Data) (k : String) (h : k ∈ d.map (·.1)) : d.has k = true := by
  obtain ⟨p, hp, rfl⟩ := List.mem_map.mp h
  exact List.any_eq_true.mpr ⟨p, hp, by simp⟩

end Edzed
