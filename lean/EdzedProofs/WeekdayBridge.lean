/-
Bridge between the two weekday normal forms of the models:

* `Cron.normWeekdays` (C07, tied by translation to `TimeDate._parse3`: range check 0..7, 0 → 7, a set kept as a
  sorted duplicate-free `Int` list) and
* `Interval.weekdaysOfInts` / `Interval.parseWeekdays` (C13: the filter of 1..7 that `TimeDate.parse` exports).

Until this file the two were compared through the correspondence only (driver op `interval td`).
-/
import EdzedModel.Cron
import EdzedModel.Interval
import EdzedProofs.CronCfgTie

namespace Edzed.WeekdayBridge
open Edzed.Cron Edzed.Interval

/-- two strictly increasing lists with the same members are the same list -/
theorem pairwise_lt_ext : ∀ {l₁ l₂ : List Nat}, l₁.Pairwise (· < ·) → l₂.Pairwise (· < ·) →
    (∀ a, a ∈ l₁ ↔ a ∈ l₂) → l₁ = l₂
  | [], [], _, _, _ => rfl
  | [], b :: _, _, _, h => absurd ((h b).2 (by simp)) (by simp)
  | a :: _, [], _, _, h => absurd ((h a).1 (by simp)) (by simp)
  | a :: l₁, b :: l₂, h₁, h₂, h => by
    rw [List.pairwise_cons] at h₁ h₂
    have hab : a = b := by
      have ha := (h a).1 (by simp)
      have hb := (h b).2 (by simp)
      simp only [List.mem_cons] at ha hb
      rcases ha with ha | ha
      · exact ha
      · rcases hb with hb | hb
        · exact hb.symm
        · have h3 := h₂.1 a ha
          have h4 := h₁.1 b hb
          omega
    subst hab
    congr 1
    apply pairwise_lt_ext h₁.2 h₂.2
    intro x
    constructor
    · intro hx
      have h3 := (h x).1 (by simp [hx])
      simp only [List.mem_cons] at h3
      rcases h3 with h3 | h3
      · subst h3; exact absurd (h₁.1 x hx) (by omega)
      · exact h3
    · intro hx
      have h3 := (h x).2 (by simp [hx])
      simp only [List.mem_cons] at h3
      rcases h3 with h3 | h3
      · subst h3; exact absurd (h₂.1 x hx) (by omega)
      · exact h3

theorem ssorted_head_lt : ∀ {x : Int} {l : List Int}, SSorted (x :: l) → ∀ y ∈ l, x < y
  | _, [], _, _, hy => by cases hy
  | x, z :: r, h, y, hy => by
    have hz : x < z := h.1
    simp only [List.mem_cons] at hy
    rcases hy with rfl | hy
    · exact hz
    · have := ssorted_head_lt (x := z) (l := r) h.2 y hy
      omega

theorem ssorted_pairwise : ∀ {l : List Int}, SSorted l → l.Pairwise (· < ·)
  | [], _ => List.Pairwise.nil
  | x :: l, h => by
    rw [List.pairwise_cons]
    exact ⟨ssorted_head_lt h, ssorted_pairwise (ssorted_tail h)⟩

/-- Sunday given as 0 is stored as 7 – on the `Int` side and on the `Nat` side -/
theorem map_norm_toNat (xs : List Int) :
    (xs.map fun x => if x = 0 then (7 : Int) else x).map Int.toNat
      = xs.map fun x => if x = 0 then 7 else x.toNat := by
  rw [List.map_map]
  apply List.map_congr_left
  intro x _
  by_cases h : x = 0 <;> simp [h]

/-- **the bridge**: for every sequence of integers the set that `_parse3` stores (C07's model) is, number by number,
    the list that `TimeDate.parse` exports (C13's model); both refuse exactly the same sequences -/
theorem normWeekdays_is_weekdaysOfInts (xs : List Int) :
    (match normWeekdays xs with
     | some s => Res.ok (s.map Int.toNat)
     | none => Res.err Err.value) = weekdaysOfInts xs := by
  unfold normWeekdays weekdaysOfInts
  by_cases hall : xs.all (fun x => decide (0 ≤ x) && decide (x ≤ 7)) = true
  · simp only [hall, ↓reduceIte]
    congr 1
    have hr : ∀ x ∈ xs, 0 ≤ x ∧ x ≤ 7 := by
      intro x hx
      have := List.all_eq_true.1 hall x hx
      simpa using this
    apply pairwise_lt_ext
    · -- the stored set, mapped to naturals, is strictly increasing
      rw [List.pairwise_map]
      refine List.Pairwise.imp_of_mem ?_ (ssorted_pairwise (intSet_sorted _))
      intro a b ha hb hab
      rw [mem_intSet, List.mem_map] at ha hb
      obtain ⟨x, hx, rfl⟩ := ha
      obtain ⟨y, hy, rfl⟩ := hb
      have := hr x hx
      have := hr y hy
      by_cases hx0 : x = 0 <;> by_cases hy0 : y = 0 <;> simp only [hx0, hy0, ↓reduceIte] at hab ⊢ <;> omega
    · exact List.Pairwise.sublist List.filter_sublist (by decide)
    · intro d
      rw [List.mem_map]
      simp only [mem_intSet]
      rw [← List.mem_map (f := Int.toNat), map_norm_toNat]
      simp only [List.mem_filter, List.contains_eq_mem, decide_eq_true_eq]
      constructor
      · intro hd
        refine ⟨?_, hd⟩
        rw [List.mem_map] at hd
        obtain ⟨x, hx, rfl⟩ := hd
        have := hr x hx
        by_cases h0 : x = 0
        · simp [h0]
        · simp only [h0, ↓reduceIte]
          have h1 : x.toNat = 1 ∨ x.toNat = 2 ∨ x.toNat = 3 ∨ x.toNat = 4 ∨ x.toNat = 5 ∨ x.toNat = 6 ∨
              x.toNat = 7 := by omega
          rcases h1 with h1 | h1 | h1 | h1 | h1 | h1 | h1 <;> simp [h1]
      · exact fun h => h.2
  · simp only [hall, Bool.false_eq_true, ↓reduceIte]

/-- the same for the ACCEPTED case, read from C07's side -/
theorem normWeekdays_some {xs s : List Int} (h : normWeekdays xs = some s) :
    parseWeekdays (.ints xs) = .ok (s.map Int.toNat) := by
  have := normWeekdays_is_weekdaysOfInts xs
  rw [h] at this
  exact this.symm

/-- … and for the REFUSED case -/
theorem normWeekdays_none {xs : List Int} (h : normWeekdays xs = none) :
    parseWeekdays (.ints xs) = .err .value := by
  have := normWeekdays_is_weekdaysOfInts xs
  rw [h] at this
  exact this.symm

end Edzed.WeekdayBridge
