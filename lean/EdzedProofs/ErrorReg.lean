/- helper lemmas for C09 / C14: the error register is written once -/
import EdzedModel.ErrorReg

namespace Edzed.ErrorReg

/-- `a <|> head?` bookkeeping -/
def firstOf (cur : Option Err) (dels : List Err) : Option Err :=
  match cur with
  | some e => some e
  | none => dels.head?

theorem firstOf_some (e : Err) (l : List Err) : firstOf (some e) l = some e := rfl
theorem firstOf_none (l : List Err) : firstOf none l = l.head? := rfl
theorem firstOf_nil (c : Option Err) : firstOf c [] = c := by cases c <;> rfl

theorem firstOf_append (c : Option Err) (l1 l2 : List Err) :
    firstOf (firstOf c l1) l2 = firstOf c (l1 ++ l2) := by
  cases c with
  | some e => rfl
  | none => cases l1 <;> simp [firstOf]

@[simp] theorem addWake_error (s : St) (w : Wake) : (s.addWake w).error = s.error := by
  unfold St.addWake; split <;> rfl

@[simp] theorem addWake_phase (s : St) (w : Wake) : (s.addWake w).phase = s.phase := by
  unfold St.addWake; split <;> rfl

@[simp] theorem notifyRun_error (s : St) : s.notifyRun.error = s.error := by
  unfold St.notifyRun; split <;> simp

@[simp] theorem notifyRun_phase (s : St) : s.notifyRun.phase = s.phase := by
  unfold St.notifyRun; split <;> simp

@[simp] theorem leaveTry_error (s : St) : s.leaveTry.error = s.error := by
  simp [St.leaveTry]

@[simp] theorem leaveTry_phase (s : St) : s.leaveTry.phase = .sleep0 := by
  simp [St.leaveTry]

/-- `abort` writes the register exactly when it is empty -/
theorem abort_error (s : St) (e : Err) : (s.abort e).error = firstOf s.error [e] := by
  unfold St.abort
  cases h : s.error with
  | some e' => simp [firstOf, h]
  | none => simp only [firstOf]; split <;> simp

@[simp] theorem abort_phase (s : St) (e : Err) : (s.abort e).phase = s.phase := by
  unfold St.abort
  cases s.error with
  | some e' => rfl
  | none => simp only []; split <;> simp

theorem caught_error (s : St) (e : Err) : (s.caught e).error = firstOf s.error [e] := by
  unfold St.caught
  cases h : s.error <;> simp [firstOf, h]

@[simp] theorem caught_phase (s : St) (e : Err) : (s.caught e).phase = s.phase := by
  unfold St.caught; cases s.error <;> rfl

/-- one woken task: the register afterwards is the old content, else the first delivery -/
theorem wakeStep_error (s : St) (w : Wake) :
    (wakeStep s w).1.error = firstOf s.error (wakeStep s w).2 := by
  cases w with
  | sim =>
    simp only [wakeStep]
    cases hp : s.phase <;> simp only [firstOf_nil]
    · -- tryBlock
      split
      · simp [caught_error]
      · split
        · simp [caught_error]
        · split
          · simp only [leaveTry_error, caught_error, abort_error]
            cases s.error <;> simp [firstOf]
          · simp [caught_error]
        · simp [firstOf_nil]
    · -- sleep0
      split <;> simp [firstOf_nil]
  | mon id => simp [wakeStep, abort_error]
  | sup i id => simp [wakeStep, firstOf_nil]
  | supEnd i => simp [wakeStep, firstOf_nil]
  | shut => simp only [wakeStep]; split <;> simp [firstOf_nil, abort_error]
  | sig => simp [wakeStep, abort_error]
  | runWaiter => simp [wakeStep, firstOf_nil]
  | runAbort => simp only [wakeStep]; split <;> simp [firstOf_nil, abort_error]

theorem tickFold_error (ws : List Wake) (acc : St × List Err) (c : Option Err)
    (h : acc.1.error = firstOf c acc.2) :
    (tickFold ws acc).1.error = firstOf c (tickFold ws acc).2 := by
  induction ws generalizing acc with
  | nil => simpa [tickFold] using h
  | cons w ws ih =>
    simp only [tickFold, List.foldl_cons]
    apply ih
    simp only []
    rw [wakeStep_error, h, firstOf_append]

/-- every operation: the register afterwards is the old content, else the first delivery made -/
theorem step_error (s : St) (op : Op) :
    (step s op).1.error = firstOf s.error (step s op).2.dels := by
  cases op with
  | start initErr =>
    simp only [step]
    split
    · simp [firstOf_nil]
    · cases he : s.error with
      | some e => simp [firstOf]
      | none =>
        cases initErr with
        | some id => simp [firstOf, caught_error]
        | none => simp only []; split <;> simp [firstOf, caught_error, he]
  | abortCall e => simp [step, abort_error]
  | handlerErr id f =>
    simp only [step]
    split
    · split <;> simp [abort_error, firstOf_nil]
    · simp [firstOf_nil]
  | earlyInitFail id => simp only [step]; split <;> simp [firstOf_nil]
  | paramErr => simp [step, firstOf_nil]
  | unknownEvt => simp [step, firstOf_nil]
  | nestedUnknown c =>
    simp only [step]
    split
    · split <;> simp [firstOf_nil]
    · simp [firstOf_nil]
  | ctrlAbort id => simp only [step]; split <;> simp [abort_error, firstOf_nil]
  | ctrlAbortText => simp only [step]; split <;> simp [abort_error, firstOf_nil]
  | ctrlShutdown => simp only [step]; split <;> simp [abort_error, firstOf_nil]
  | armCalc a =>
    simp only [step]
    split
    · split <;> simp [firstOf_nil]
    · simp [firstOf_nil]
  | rawCancel => simp only [step]; split <;> simp [firstOf_nil]
  | monTrigger id => simp [step, firstOf_nil]
  | supTrigger i id => cases id <;> simp [step, firstOf_nil]
  | shutdownTask => simp [step, firstOf_nil]
  | sigterm => simp [step, firstOf_nil]
  | tick =>
    simp only [step]
    exact tickFold_error s.wake _ s.error (by simp [firstOf_nil])
  | finish => simp only [step]; split <;> simp [firstOf_nil]

theorem run_foldl_error (ops : List Op) (acc : St × List Err) (c : Option Err)
    (h : acc.1.error = firstOf c acc.2) :
    let r := ops.foldl (fun acc op => let r := step acc.1 op; (r.1, acc.2 ++ r.2.dels)) acc
    r.1.error = firstOf c r.2 := by
  induction ops generalizing acc with
  | nil => simpa using h
  | cons op ops ih =>
    simp only [List.foldl_cons]
    apply ih
    simp only []
    rw [step_error, h, firstOf_append]

/-- a whole history: the register holds the old content, else the first delivery of the history -/
theorem run_error (s : St) (ops : List Op) :
    (final s ops).error = firstOf s.error (deliveries s ops) := by
  unfold final deliveries run
  exact run_foldl_error ops (s, []) s.error (by simp [firstOf_nil])

theorem run_append (s : St) (a b : List Op) :
    final s (a ++ b) = final (final s a) b := by
  unfold final run
  rw [List.foldl_append]
  generalize List.foldl _ (s, []) a = acc
  -- the delivery log does not influence the state component
  have key : ∀ (ops : List Op) (st : St) (l1 l2 : List Err),
      (ops.foldl (fun acc op => let r := step acc.1 op; (r.1, acc.2 ++ r.2.dels)) (st, l1)).1 =
      (ops.foldl (fun acc op => let r := step acc.1 op; (r.1, acc.2 ++ r.2.dels)) (st, l2)).1 := by
    intro ops
    induction ops with
    | nil => intros; rfl
    | cons op ops ih => intro st l1 l2; simp only [List.foldl_cons]; exact ih _ _ _
  exact key b acc.1 acc.2 []

end Edzed.ErrorReg
