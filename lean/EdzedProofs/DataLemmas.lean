/- lemmas about the event-data dictionary model (`Data.get?`, `Data.set`) -/
import EdzedModel.Basic.Val
namespace Edzed

theorem find_map_other (d : Data) (k k' : String) (v : Val) (h : k' ≠ k) :
    (d.map (fun p => if p.1 == k then (k, v) else p)).find? (·.1 == k') = d.find? (·.1 == k') := by
  induction d with
  | nil => rfl
  | cons p d ih =>
    simp only [List.map_cons, List.find?_cons]
    by_cases hp : p.1 = k
    · have h1 : (k == k') = false := by simpa using fun h' => h h'.symm
      have h2 : (p.1 == k') = false := by simpa [hp] using fun h' => h h'.symm
      simp only [hp, BEq.rfl, ↓reduceIte, h1] at ih ⊢
      rw [ih]
    · have h1 : (p.1 == k) = false := by simpa using hp
      simp only [h1, Bool.false_eq_true, ↓reduceIte]
      rw [ih]

theorem find_map_same (d : Data) (k : String) (v : Val) (h : d.any (·.1 == k) = true) :
    (d.map (fun p => if p.1 == k then (k, v) else p)).find? (·.1 == k) = some (k, v) := by
  induction d with
  | nil => simp at h
  | cons p d ih =>
    simp only [List.map_cons, List.find?_cons]
    by_cases hp : p.1 = k
    · simp only [hp, BEq.rfl, ↓reduceIte]
    · have h1 : (p.1 == k) = false := by simpa using hp
      simp only [List.any_cons, h1, Bool.false_or] at h
      simp only [h1, Bool.false_eq_true, ↓reduceIte]
      exact ih h

theorem find_none_of_not_any (d : Data) (k : String) (h : d.any (·.1 == k) = false) :
    d.find? (·.1 == k) = none := by
  induction d with
  | nil => rfl
  | cons p d ih =>
    simp only [List.any_cons, Bool.or_eq_false_iff] at h
    simp [h.1, ih h.2]

theorem Data.get?_set_same (d : Data) (k : String) (v : Val) : (d.set k v).get? k = some v := by
  unfold Data.set Data.get?
  split
  · next h => rw [find_map_same d k v h]; rfl
  · next h =>
    have h' : d.any (·.1 == k) = false := Bool.eq_false_iff.mpr h
    rw [List.find?_append, find_none_of_not_any d k h']
    simp

theorem Data.get?_set_other (d : Data) (k k' : String) (v : Val) (h : k' ≠ k) :
    (d.set k v).get? k' = d.get? k' := by
  unfold Data.set Data.get?
  split
  · rw [find_map_other d k k' v h]
  · have h1 : (k == k') = false := by simpa using fun h' => h h'.symm
    rw [List.find?_append]
    cases d.find? (·.1 == k') <;> simp [h1]
end Edzed

namespace Edzed

theorem Data.has_of_get?_some {d : Data} {k : String} {v : Val} (h : d.get? k = some v) : d.has k = true := by
  unfold Data.get? at h
  unfold Data.has
  cases hf : d.find? (·.1 == k) with
  | none => simp [hf] at h
  | some p =>
    have := List.find?_some hf
    exact List.any_eq_true.mpr ⟨p, List.mem_of_find?_eq_some hf, this⟩

theorem Data.has_set_of_has (d : Data) (k k' : String) (v : Val) (h : d.has k' = true) :
    (d.set k v).has k' = true := by
  unfold Data.has at h ⊢
  unfold Data.set
  obtain ⟨p, hp, hk⟩ := List.any_eq_true.mp h
  split
  · refine List.any_eq_true.mpr ?_
    by_cases hpk : p.1 = k
    · refine ⟨(k, v), List.mem_map.mpr ⟨p, hp, by simp [hpk]⟩, ?_⟩
      simpa [hpk] using hk
    · refine ⟨p, List.mem_map.mpr ⟨p, hp, by simp [hpk]⟩, hk⟩
  · exact List.any_eq_true.mpr ⟨p, List.mem_append_left _ hp, hk⟩

end Edzed
