/-
C07 timing: a CONCRETE environment satisfying every assumption of `TimedEnv` / `TTok` (so that the timing theorems
of EdzedProps/C07.lean are not vacuous): the world is the wall clock itself (a rational number of seconds), a
reading returns it exactly, `time.sleep(d)` advances it by `d`, awaited sleeps may return up to 1 ms late,
recalculations are free, no jumps; the timetable is 00:00, 08:00, 16:00.
-/
import EdzedProofs.CronTiming
import Mathlib.Data.Rat.Floor

namespace Edzed.Cron.Demo
open Gen.TrCron

/-- a time of day: seconds since midnight -/
abbrev Tod := { q : Rat // 0 ≤ q ∧ q < 86400 }

instance : Inhabited Tod := ⟨⟨0, by norm_num⟩⟩

def todOfRat (x : Rat) : Tod :=
  ⟨x - 86400 * ((⌊x / 86400⌋ : Int) : Rat), by
    have h1 := Int.floor_le (x / 86400)
    have h2 := Int.lt_floor_add_one (x / 86400)
    constructor <;> linarith⟩

def t00 : Tod := ⟨0, by norm_num⟩
def t08 : Tod := ⟨28800, by norm_num⟩
def t16 : Tod := ⟨57600, by norm_num⟩
def demoTT : List Tod := [t00, t08, t16]

def demoP : MtPrims Rat Tod Rat Unit where
  dtnow w := (w, w)
  timeOf := todOfRat
  set24 := demoTT
  alarmKeys _ := []
  sortedUnion _ _ := demoTT
  bisectLeft _ q := if q.val ≤ 0 then 0 else if q.val ≤ 28800 then 1 else if q.val ≤ 57600 then 2 else 3
  allClients _ := []
  hasAlarm _ _ := false
  clientsAt _ _ := []
  recalc _ _ w := w
  hour _ := 0
  minute _ := 0
  second t := t.val
  microsecond _ := 0
  blockingSleep d w := w + d

theorem tod_demo (t : Tod) : todS demoP t = t.val := by
  simp [todS, demoP]

theorem recalc_demo (bs : List Unit) (x w : Rat) : recalcAll demoP bs x w = w := by
  unfold recalcAll
  induction bs with
  | nil => rfl
  | cons b bs ih => simpa [List.foldl_cons, demoP] using ih

def demoE : TimedEnv demoP where
  clk w := w
  off _ := 0
  abs x := x
  day x := ⌊x / 86400⌋
  W := 1 / 1000
  L := 0
  C := 0
  J := 0
  hW := by norm_num
  hL := le_refl _
  hC := le_refl _
  hJ := le_refl _
  tod_range t := by rw [tod_demo]; exact ⟨t.property.1, by have := t.property.2; unfold secPerDay; linarith⟩
  abs_split x := by rw [tod_demo]; simp only [demoP, todOfRat, secPerDay]; ring
  read_lo w := le_refl _
  read_hi w := le_refl _
  read_cost w := by simp [demoP]
  read_el w := by simp [demoP]
  read_off w := by simp
  bsleep_lo d w := by simp [demoP]
  bsleep_hi d w := by simp [demoP]
  bsleep_off d w := by simp
  recalc_el bs x w := by rw [recalc_demo]
  recalc_cost bs x w := by rw [recalc_demo]; simp
  recalc_off bs x w := by simp

theorem demo_ttok : TTok demoP demoTT 28800 28800 where
  pos := by decide
  gap_lo i hi := by
    have h3 : i < 3 := hi
    match i, h3 with
    | 0, _ => simp [nextGap, demoTT, tod_demo, t00, t08]
    | 1, _ => simp [nextGap, demoTT, tod_demo, t16, t08]; norm_num
    | 2, _ => simp [nextGap, demoTT, tod_demo, t16, t00, secPerDay]; norm_num
  gap_hi i hi := by
    have h3 : i < 3 := hi
    match i, h3 with
    | 0, _ => simp [nextGap, demoTT, tod_demo, t00, t08]
    | 1, _ => simp [nextGap, demoTT, tod_demo, t16, t08]; norm_num
    | 2, _ => simp [nextGap, demoTT, tod_demo, t16, t00, secPerDay]; norm_num
  bis q := by
    have hq := q.property
    refine ⟨?_, ?_, ?_⟩
    · show (if q.val ≤ 0 then 0 else if q.val ≤ 28800 then 1 else if q.val ≤ 57600 then 2 else 3) ≤ 3
      split_ifs <;> omega
    · intro i x hx hi
      rw [tod_demo, tod_demo]
      change i < (if q.val ≤ 0 then 0 else if q.val ≤ 28800 then 1 else if q.val ≤ 57600 then 2 else 3) at hi
      match i, hx with
      | 0, hx =>
        have : x = t00 := by simpa [demoTT] using hx.symm
        subst this; show (0 : Rat) < q.val
        split_ifs at hi <;> first | omega | linarith
      | 1, hx =>
        have : x = t08 := by simpa [demoTT] using hx.symm
        subst this; show (28800 : Rat) < q.val
        split_ifs at hi <;> first | omega | linarith
      | 2, hx =>
        have : x = t16 := by simpa [demoTT] using hx.symm
        subst this; show (57600 : Rat) < q.val
        split_ifs at hi <;> first | omega | linarith
      | n + 3, hx => simp [demoTT] at hx
    · intro i x hx hi
      rw [tod_demo, tod_demo]
      change (if q.val ≤ 0 then 0 else if q.val ≤ 28800 then 1 else if q.val ≤ 57600 then 2 else 3) ≤ i at hi
      match i, hx with
      | 0, hx =>
        have : x = t00 := by simpa [demoTT] using hx.symm
        subst this; show q.val ≤ (0 : Rat)
        split_ifs at hi <;> first | omega | linarith
      | 1, hx =>
        have : x = t08 := by simpa [demoTT] using hx.symm
        subst this; show q.val ≤ (28800 : Rat)
        split_ifs at hi <;> first | omega | linarith
      | 2, hx =>
        have : x = t16 := by simpa [demoTT] using hx.symm
        subst this; show q.val ≤ (57600 : Rat)
        split_ifs at hi <;> first | omega | linarith
      | n + 3, hx => simp [demoTT] at hx

/-- the loop positioned at 08:00 (entry 1), last reading 05:33:20, the clock half a second later -/
def demoL : MtLocals Tod Rat :=
  { (mtInit : MtLocals Tod Rat) with v2 := false, v4 := demoTT, v5 := 3, v6 := some 1, v7 := 20000 }

theorem demo_known : KnownSt demoE demoTT 3 1 t08 28800 28800 (1 / 1000) demoL (20000 + 1 / 2) where
  h1 := rfl
  h2 := rfl
  h4 := rfl
  h5 := rfl
  h6 := rfl
  hget := rfl
  hov := le_refl _
  hglo := by show (28800 : Rat) - 28800 ≤ 20000; norm_num
  hnow := by show (20000 : Rat) ≤ 20000 + 1 / 2; norm_num
  hlate := by show (20000 : Rat) + 1 / 2 ≤ 28800 + 1 / 1000; norm_num

theorem demo_A : (28800 : Rat) = ((0 : Int) : Rat) * secPerDay + todS demoP t08 := by
  rw [tod_demo]; simp [t08]

/-- the state after the 08:00 alarm was served with the reading 08:00:00.0005 -/
def demoL' : MtLocals Tod Rat :=
  { demoL with v6 := some 2, v7 := 28800 + 5 / 10000, v9 := t08 }

theorem demo_outcome : PassOutcome demoE demoTT 3 1 t08 28800 28800 0 (28800 + 2 / 1000) 7 demoL' (28800 + 6 / 10000) := by
  refine ⟨rfl, rfl, rfl, le_refl _, rfl, ?_, 28800 + 6 / 10000, ?_, le_refl _, ?_, Or.inl ⟨rfl, rfl, ?_, ?_, ?_, rfl⟩⟩
  all_goals simp only [demoL', demoE, ttError]
  all_goals norm_num

/-! a timetable of exactly the 24 full hours, times of day = `Fin 24` -/

def hoursP : MtPrims Unit (Fin 24) Unit Unit where
  dtnow w := ((), w)
  timeOf _ := 0
  set24 := List.finRange 24
  alarmKeys _ := []
  sortedUnion a _ := a
  bisectLeft _ _ := 0
  allClients _ := []
  hasAlarm _ _ := false
  clientsAt _ _ := []
  recalc _ _ w := w
  hour t := (t.val : Rat)
  minute _ := 0
  second _ := 0
  microsecond _ := 0
  blockingSleep _ w := w

theorem tod_hours (t : Fin 24) : todS hoursP t = 3600 * (t.val : Rat) := by
  simp [todS, hoursP, secPerHour, secPerMin]

theorem hours_range (t : Fin 24) : 0 ≤ todS hoursP t ∧ todS hoursP t < secPerDay := by
  rw [tod_hours]
  have h : (t.val : Rat) < 24 := by exact_mod_cast t.isLt
  have h0 : (0 : Rat) ≤ t.val := by positivity
  unfold secPerDay
  constructor <;> linarith

theorem hours_get (i : Nat) (x : Fin 24) (h : (List.finRange 24)[i]? = some x) : x.val = i := by
  obtain ⟨hi, hx⟩ := List.getElem?_eq_some_iff.mp h
  rw [← hx]; simp

theorem hours_sorted : SortedTT hoursP (List.finRange 24) := by
  intro i j x y hx hy hij
  rw [tod_hours, tod_hours, hours_get i x hx, hours_get j y hy]
  have : (i : Rat) < j := by exact_mod_cast hij
  linarith

theorem hours_hourly : Hourly hoursP (List.finRange 24) := by
  intro h h24
  exact ⟨⟨h, h24⟩, List.mem_finRange _, by rw [tod_hours]⟩

end Edzed.Cron.Demo
