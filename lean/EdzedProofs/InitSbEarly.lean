/-
C05 / C11: the early-initialisation call site.  `SBlock.event` is translated for C11
(Gen/TranslatedDispatch.lean); its part
    if 0 <= self.init_steps_completed < 2:
        with self._enable_event:
            self.circuit.init_sblock(self, full=True)
is the reference program `Edzed.TrTie.initPart` (EdzedProofs/DispatchTie.lean, generic in the primitives, and
`translated_event_is_reference` shows that the translated `event` is built from it).  Here the same program is
run with the primitives of the C05 model: it is exactly the early-initialisation step of `eventBody`, with
`init_sblock(self, full=True)` = the model's `.initS d true`.
-/
import EdzedProofs.DispatchTie
import EdzedProofs.InitSbTie

namespace Edzed.Init

open Edzed.Gen.TrD

/-- the primitives `initPart` uses, as operations of the C05 model (block `d`); the other leaves of
    `SBlock.event` do not occur in `initPart` and are filled with inert values -/
def earlyPrims (rec : Call → St → St) (d : Nat) : EventPrims St Err Unit Unit Unit Unit Unit Bool where
  isStr := fun _ => true
  etypeTruthy := fun _ => true
  isEventType := fun _ => false
  isCond := fun _ => false
  etrue := fun _ => Option.none
  efalse := fun _ => Option.none
  dataValue := fun _ => ()
  valTruthy := fun _ => false
  mkExc := fun _ _ => .routine
  excIs := fun _ _ => true
  tbDeep := fun _ => true
  getActive := fun s => s.active d
  setActive := fun v => M.modify fun s => s.setActive d v
  abort := fun _ => M.modify fun s => s.refuse
  initSteps := fun s => s.steps d
  enableEnter := fun s => (s.setActive d false, .next (s.active d))
  enableExit := fun saved => M.modify fun s => s.setActive d saved
  initSblockFull := lift (rec (.initS d true))
  lookup := fun _ => Option.none
  callHandler := fun _ _ => M.pure ()
  callDefault := fun _ _ => M.pure ()
  noneVal := ()

theorem setActive_swallow_raise (t : St) (d : Nat) (x : Bool) (e : Err) (h : t.exc = some e) :
    (t.swallow.setActive d x).raise e = t.setActive d x := by
  cases t; simp_all [St.swallow, St.raise, St.setActive]

/-- the early-initialisation part of the translated `SBlock.event`, run on the C05 state, is the step of the
    model's `eventBody`: `_enable_event` clears the flag, `init_sblock(self, full=True)` is `.initS d true`,
    `__exit__` restores the flag on every outcome -/
theorem initPart_model (rec : Call → St → St) (d : Nat) (s : St) :
    fin (Edzed.TrTie.initPart (earlyPrims rec d) s) =
      if 0 ≤ s.steps d ∧ s.steps d < 2
      then (rec (.initS d true) (s.setActive d false)).setActive d (s.active d)
      else s := by
  by_cases hc : 0 ≤ s.steps d ∧ s.steps d < 2
  · cases hx : (rec (.initS d true) (s.setActive d false)).exc with
    | none =>
      have hl := lift_none (rec (.initS d true)) (s.setActive d false) hx
      simp [Edzed.TrTie.initPart, M.withCtx, M.tryFinally, M.bind, M.get, M.modify, M.pure, earlyPrims, hc,
        hl, fin]
    | some e =>
      have hl := lift_some (rec (.initS d true)) (s.setActive d false) e hx
      simp [Edzed.TrTie.initPart, M.withCtx, M.tryFinally, M.bind, M.get, M.modify, M.pure, earlyPrims, hc,
        hl, fin, setActive_swallow_raise _ d _ e hx]
  · have hcond : ¬ ((decide ((0 : Int) ≤ (earlyPrims rec d).initSteps s) &&
        decide ((earlyPrims rec d).initSteps s < (2 : Int))) = true) := by
      intro h
      simp only [Bool.and_eq_true] at h
      exact hc ⟨of_decide_eq_true h.1, of_decide_eq_true h.2⟩
    unfold Edzed.TrTie.initPart
    simp only [M.bind, M.get]
    rw [if_neg hcond, if_neg hc]
    simp [M.pure, fin]

/-- … and in `eventBody` the flag is set when this part runs, so the restored value is `true` -/
theorem initPart_is_eventBody_step (rec : Call → St → St) (d : Nat) (s : St) (ha : s.active d = true) :
    fin (Edzed.TrTie.initPart (earlyPrims rec d) s) =
      if 0 ≤ s.steps d ∧ s.steps d < 2
      then (rec (.initS d true) (s.setActive d false)).setActive d true
      else s := by
  rw [initPart_model, ha]

end Edzed.Init
