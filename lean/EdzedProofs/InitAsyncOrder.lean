/-
C05: the place of `init_async` among the initialisation calls of a block.

`init_async` entries are written by `_init_sblocks_async` only, once per eligible block; at that moment every
block has left `init_steps_completed == 0` (so the restore comes before), and a block that has already begun
its step 2 (only an event can cause that before the asynchronous phase) never runs a synchronous routine again.
-/
import EdzedModel.Init
import EdzedProofs.Init
import EdzedProofs.InitOrder

namespace Edzed.Init

def isAsync : Entry → Bool
  | .async _ _ _ => true
  | _ => false

/-- what every synchronous piece of the start-up does to the log and to the step counters -/
structure Ax (s t : St) : Prop where
  ext : ∃ e, t.log = s.log ++ e ∧ ∀ x ∈ e, isAsync x = false
  nz : ∀ b, s.steps b ≠ 0 → t.steps b ≠ 0
  cp : ∀ b, s.steps b ≠ 0 → (proj b t.log).count .P = (proj b s.log).count .P

theorem Ax.rfl' (s : St) : Ax s s :=
  ⟨⟨[], by simp, by simp⟩, fun _ h => h, fun _ _ => rfl⟩

theorem Ax.trans {s t u : St} (h1 : Ax s t) (h2 : Ax t u) : Ax s u := by
  obtain ⟨e1, he1, hn1⟩ := h1.ext
  obtain ⟨e2, he2, hn2⟩ := h2.ext
  refine ⟨⟨e1 ++ e2, by rw [he2, he1, List.append_assoc], ?_⟩, fun b hb => h2.nz b (h1.nz b hb), ?_⟩
  · intro x hx
    rcases List.mem_append.mp hx with hx | hx
    · exact hn1 x hx
    · exact hn2 x hx
  · intro b hb
    rw [h2.cp b (h1.nz b hb), h1.cp b hb]

theorem Ax.of_eq {s t : St} (hl : t.log = s.log) (hs : t.steps = s.steps) : Ax s t :=
  ⟨⟨[], by simp [hl], by simp⟩, fun b h => by rw [hs]; exact h, fun b _ => by rw [hl]⟩

theorem Ax.push (s : St) (e : Entry) (ha : isAsync e = false) (hp : ∀ b, syncKind b e ≠ some .P) :
    Ax s (s.push e) := by
  refine ⟨⟨[e], rfl, by simpa using ha⟩, fun b h => h, ?_⟩
  intro b _
  rw [proj_push]
  have := hp b
  cases hk : syncKind b e with
  | none => simp
  | some k =>
    rw [hk] at this
    have hne : k ≠ SK.P := fun h => this (by rw [h])
    cases k <;> simp_all

theorem Ax.setSteps (s : St) (x : Nat) (k : Int) (hk : k ≠ 0) : Ax s (s.setSteps x k) := by
  refine ⟨⟨[], by simp, by simp⟩, ?_, fun b _ => rfl⟩
  intro b hb
  by_cases h : b = x
  · subst h; simpa using hk
  · simpa [upd, h] using hb

/-- the beginning of step 1 with a saved state: -1 and the call of `_restore_state`, for a block at 0 -/
theorem Ax.step1start (s : St) (x : Nat) (h0 : s.steps x = 0) :
    Ax s ((s.setSteps x (-1)).push (.restore x)) := by
  refine ⟨⟨[.restore x], rfl, by simp [isAsync]⟩, ?_, ?_⟩
  · intro b hb
    have h : b ≠ x := fun e => hb (e ▸ h0)
    simpa [upd, h] using hb
  · intro b hb
    have h : x ≠ b := fun e => hb (e ▸ h0)
    rw [proj_push, syncKind_other_restore h]; simp

def AxSpec (rec : Call → St → St) : Prop := ∀ call s, Ax s (rec call s)

theorem syncKind_regular_ne_P (b x : Nat) : syncKind b (.regular x) ≠ some .P := by
  simp only [syncKind]; split <;> simp
theorem syncKind_initdef_ne_P (b x : Nat) (u : Bool) : syncKind b (.initdef x u) ≠ some .P := by
  simp only [syncKind]; split <;> simp

theorem setOutputBody_ax (c : Cfg) (rec : Call → St → St) (hr : AxSpec rec) (x : Nat) (v : Val) (s : St) :
    Ax s (setOutputBody c rec x v s) := by
  unfold setOutputBody
  split
  · exact Ax.of_eq rfl rfl
  · split
    · exact Ax.rfl' s
    · exact (Ax.of_eq (s := s) (t := s.setOut x v) rfl rfl).trans (hr _ _)

theorem sendBody_ax (rec : Call → St → St) (hr : AxSpec rec) (ds : List Nat) (v : Val) (s : St) :
    Ax s (sendBody rec ds v s) := by
  unfold sendBody
  cases ds with
  | nil => exact Ax.rfl' s
  | cons d r => exact (hr _ _).trans (hr _ _)

theorem eventBody_ax (rec : Call → St → St) (hr : AxSpec rec) (d : Nat) (v : Val) (s : St) :
    Ax s (eventBody rec d v s) := by
  unfold eventBody
  dsimp only
  have k1 : Ax s (s.push (.arrive d)) := Ax.push s _ rfl (fun _ => by simp [syncKind])
  split
  · exact k1.trans ((Ax.push _ (.refused d) rfl (fun _ => by simp [syncKind])).trans
      (Ax.of_eq (refuse_log _) (refuse_steps _)))
  · generalize hs2 : (if 0 ≤ ((s.push (.arrive d)).setActive d true).steps d ∧
        ((s.push (.arrive d)).setActive d true).steps d < 2
      then (rec (.initS d true) (((s.push (.arrive d)).setActive d true).setActive d false)).setActive d true
      else (s.push (.arrive d)).setActive d true) = s2
    have k2 : Ax s s2 := by
      rw [← hs2]; split
      · exact (k1.trans (Ax.of_eq (t := ((s.push (.arrive d)).setActive d true).setActive d false)
          rfl rfl)).trans ((hr _ _).trans (Ax.of_eq rfl rfl))
      · exact k1.trans (Ax.of_eq rfl rfl)
    refine k2.trans (Ax.trans (t := if s2.ok then
      (rec (.setOutput d v) (s2.push (.handle d v (s2.steps d)))).handlerFrame else s2) ?_
      (Ax.of_eq rfl rfl))
    split
    · exact (Ax.push s2 _ rfl (fun _ => by simp [syncKind])).trans ((hr _ _).trans
        (Ax.of_eq (handlerFrame_log _) (handlerFrame_steps _)))
    · exact Ax.rfl' s2

theorem step1_ax (c : Cfg) (rec : Call → St → St) (hr : AxSpec rec) (x : Nat) (s : St)
    (h0 : s.steps x = 0) : Ax s (step1 c rec x s) := by
  unfold step1
  dsimp only
  refine Ax.trans (t := match (c.blk x).persist with
    | .none => s.setSteps x (-1)
    | .raises => (s.setSteps x (-1)).push (.restore x)
    | .restores v how => (rec (applyCall how x v) ((s.setSteps x (-1)).push (.restore x))).swallow) ?_
    (Ax.setSteps _ x 1 (by decide))
  split
  · exact Ax.setSteps s x (-1) (by decide)
  · exact Ax.step1start s x h0
  · exact (Ax.step1start s x h0).trans ((hr _ _).trans (Ax.of_eq rfl rfl))

theorem regularBody_ax (c : Cfg) (rec : Call → St → St) (hr : AxSpec rec) (x : Nat) (s : St) :
    Ax s (regularBody c rec x s) := by
  unfold regularBody
  split
  · exact Ax.rfl' s
  · exact hr _ _
  · exact hr _ _
  · exact Ax.of_eq rfl rfl
  · split
    · exact Ax.of_eq rfl rfl
    · exact Ax.rfl' s

theorem initdefBody_ax (c : Cfg) (rec : Call → St → St) (hr : AxSpec rec) (x : Nat) (s : St) :
    Ax s (initdefBody c rec x s) := by
  unfold initdefBody
  split
  · split
    · exact (Ax.push _ _ rfl (fun b => syncKind_initdef_ne_P b x _)).trans (hr _ _)
    · exact Ax.rfl' s
  · exact Ax.rfl' s

theorem step2_ax (c : Cfg) (rec : Call → St → St) (hr : AxSpec rec) (x : Nat) (s : St) :
    Ax s (step2 c rec x s) := by
  unfold step2
  dsimp only
  have k1 : Ax s (regularBody c rec x ((s.setSteps x (-2)).push (.regular x))) :=
    (Ax.setSteps s x (-2) (by decide)).trans ((Ax.push _ _ rfl (fun b => syncKind_regular_ne_P b x)).trans
      (regularBody_ax c rec hr x _))
  split
  · exact k1
  · have k2 := k1.trans (initdefBody_ax c rec hr x _)
    split
    · exact k2
    · exact k2.trans (Ax.setSteps _ x 2 (by decide))

theorem initBody_ax (c : Cfg) (rec : Call → St → St) (hr : AxSpec rec) (x : Nat) (full : Bool) (s : St) :
    Ax s (initBody c rec x full s) := by
  unfold initBody
  dsimp only
  generalize hs1 : (if s.steps x = 0 then step1 c rec x s else s) = s1
  have k1 : Ax s s1 := by
    rw [← hs1]; split
    · next h0 => exact step1_ax c rec hr x s h0
    · exact Ax.rfl' s
  split
  · exact k1.trans (step2_ax c rec hr x s1)
  · exact k1

theorem body_ax (c : Cfg) (rec : Call → St → St) (hr : AxSpec rec) : AxSpec (body c rec) := by
  intro call s
  unfold body
  split
  · exact Ax.rfl' s
  · cases call with
    | setOutput x v => exact setOutputBody_ax c rec hr x v s
    | send ds v => exact sendBody_ax rec hr ds v s
    | event d v => exact eventBody_ax rec hr d v s
    | initS x full => exact initBody_ax c rec hr x full s

theorem exec_ax (c : Cfg) : ∀ fuel, AxSpec (exec c fuel)
  | 0 => by
    intro call s
    simp only [exec]
    split
    · exact (Ax.push s .fuelOut rfl (fun _ => by simp [syncKind])).trans (Ax.of_eq rfl rfl)
    · exact Ax.rfl' s
  | fuel + 1 => body_ax c (exec c fuel) (exec_ax c fuel)

/-! ### the phases -/

theorem foldl_ax {α : Type} (f : St → α → St) (hf : ∀ s a, Ax s (f s a)) (l : List α) :
    ∀ s, Ax s (l.foldl f s) := by
  induction l with
  | nil => intro s; exact Ax.rfl' s
  | cons a r ih => intro s; exact (hf s a).trans (ih _)

theorem foldl_keep {α : Type} (b : Nat) (f : St → α → St) (hf : ∀ s a, Keep b s (f s a)) (l : List α) :
    ∀ s, Keep b s (l.foldl f s) := by
  induction l with
  | nil => intro s; exact Keep.rfl' b s
  | cons a r ih => intro s; exact (hf s a).trans (ih _)

theorem phase0_ax (c : Cfg) (s : St) : Ax s (phase0 c s) := by
  unfold phase0
  apply foldl_ax
  intro s b
  split
  · exact Ax.rfl' s
  · split
    · exact (Ax.push s _ rfl (fun _ => by simp [syncKind])).trans
        ((exec_ax c c.fuel _ _).trans (Ax.of_eq (monitor_log _) (monitor_steps _)))
    · exact Ax.rfl' s

theorem syncPhase_ax (c : Cfg) (s : St) : Ax s (syncPhase c s) := by
  unfold syncPhase
  exact foldl_ax _ (fun s b => exec_ax c c.fuel _ s) _ s

theorem syncPhase_keep (c : Cfg) (b : Nat) (s : St) : Keep b s (syncPhase c s) := by
  unfold syncPhase
  exact foldl_keep b _ (fun s x => exec_frame c c.fuel _ s b) _ s

theorem applyEvent_ax (c : Cfg) (s : St) (e : AEvent) : Ax s (applyEvent c s e) := by
  unfold applyEvent
  split
  · exact Ax.rfl' s
  · split
    · exact Ax.push s _ rfl (fun _ => by simp [syncKind])
    · split
      · next v f hv =>
        have k := (Ax.push s (.asyncDone e.blk) rfl (fun _ => by simp [syncKind])).trans
          (exec_ax c c.fuel (.setOutput e.blk v) _)
        split
        · exact k.trans (Ax.of_eq (monitor_log _) (monitor_steps _))
        · exact k.trans (Ax.of_eq rfl rfl)
      · exact Ax.push s _ rfl (fun _ => by simp [syncKind])
      · exact Ax.rfl' s

theorem applyEvent_keep (c : Cfg) (b : Nat) (s : St) (e : AEvent) : Keep b s (applyEvent c s e) := by
  unfold applyEvent
  split
  · exact Keep.rfl' b s
  · split
    · exact Keep.push s _ rfl
    · split
      · next v f hv =>
        have k := (Keep.push s (.asyncDone e.blk) (b := b) rfl).trans
          (exec_frame c c.fuel (.setOutput e.blk v) _ b)
        split
        · exact k.trans (Keep.of_eq (monitor_log _) (monitor_steps _))
        · exact k.trans (Keep.of_eq rfl rfl)
      · exact Keep.push s _ rfl
      · exact Keep.rfl' b s

theorem check_eq (c : Cfg) (s : St) : (check c s).log = s.log ∧ (check c s).steps = s.steps := by
  unfold check
  split
  · exact ⟨rfl, rfl⟩
  · split <;> exact ⟨rfl, rfl⟩

theorem firstPass_eq (c : Cfg) (s : St) : (firstPass c s).log = s.log ∧ (firstPass c s).steps = s.steps := by
  unfold firstPass
  split
  · exact ⟨rfl, rfl⟩
  · dsimp only; split <;> exact ⟨rfl, rfl⟩

/-- the entries written by `_init_sblocks_async` when it creates the tasks -/
def asyncEntries (c : Cfg) (s : St) : List Entry :=
  (eligible c s).map fun b => .async b (s.out b).isUndef (c.blk b).timeout

theorem pushAsync_log (c : Cfg) (out0 : Nat → Val) (l : List Nat) :
    ∀ s : St, s.out = out0 →
      (l.foldl (fun (s : St) b => s.push (.async b (s.out b).isUndef (c.blk b).timeout)) s).log
        = s.log ++ l.map (fun b => Entry.async b (out0 b).isUndef (c.blk b).timeout) ∧
      (l.foldl (fun (s : St) b => s.push (.async b (s.out b).isUndef (c.blk b).timeout)) s).steps
        = s.steps := by
  induction l with
  | nil => intro s _; simp
  | cons b r ih =>
    intro s ho
    simp only [List.foldl, List.map_cons]
    have := ih (s.push (.async b (s.out b).isUndef (c.blk b).timeout)) (by simpa using ho)
    rw [this.1, this.2, ho]
    simp

/-- the asynchronous phase: first the `init_async` entries of the eligible blocks, then only `Ax`/`Keep` steps -/
theorem asyncPhase_decomp (c : Cfg) (s : St) (hok : s.ok = true) :
    ∃ s2 : St, s2.log = s.log ++ asyncEntries c s ∧ s2.steps = s.steps ∧
      Ax s2 (asyncPhase c s) ∧ ∀ b, Keep b s2 (asyncPhase c s) := by
  have hp := pushAsync_log c s.out (eligible c s) s rfl
  refine ⟨(eligible c s).foldl (fun (s : St) b => s.push (.async b (s.out b).isUndef (c.blk b).timeout)) s,
    hp.1, hp.2, ?_, ?_⟩
  · unfold asyncPhase
    simp only [hok, Bool.not_true, Bool.false_eq_true, if_false]
    have k := foldl_ax (applyEvent c) (applyEvent_ax c) (schedule ((eligible c s).map (mkTask c))).2
      ((eligible c s).foldl (fun (s : St) b => s.push (.async b (s.out b).isUndef (c.blk b).timeout)) s)
    split
    · exact k.trans (Ax.of_eq rfl rfl)
    · exact k
  · intro b
    unfold asyncPhase
    simp only [hok, Bool.not_true, Bool.false_eq_true, if_false]
    have k := foldl_keep b (applyEvent c) (applyEvent_keep c b) (schedule ((eligible c s).map (mkTask c))).2
      ((eligible c s).foldl (fun (s : St) b => s.push (.async b (s.out b).isUndef (c.blk b).timeout)) s)
    split
    · exact k.trans (Keep.of_eq rfl rfl)
    · exact k

theorem asyncPhase_not_ok (c : Cfg) (s : St) (h : s.ok = false) : asyncPhase c s = s := by
  unfold asyncPhase; simp [h]

/-! ### after `_init_sblocks_sync_1` no block is at step 0 -/

theorem exec_not_ok (c : Cfg) (fuel : Nat) (call : Call) (s : St) (h : s.ok = false) :
    exec c fuel call s = s := by
  cases fuel with
  | zero => simp [exec, h]
  | succ f => simp [exec, body, h]

theorem foldl_exec_not_ok (c : Cfg) (l : List Nat) (s : St) (h : s.ok = false) :
    l.foldl (fun s b => exec c c.fuel (.initS b false) s) s = s := by
  induction l with
  | nil => rfl
  | cons a r ih => simp only [List.foldl]; rw [exec_not_ok c _ _ s h]; exact ih

theorem turn_nz (c : Cfg) (fuel : Nat) (a : Nat) (s : St) (hs : s.ok = true)
    (ht : (exec c fuel (.initS a false) s).ok = true) : (exec c fuel (.initS a false) s).steps a ≠ 0 := by
  cases fuel with
  | zero => simp [exec, hs] at ht
  | succ f =>
    by_cases h0 : s.steps a = 0
    · have e : exec c (f + 1) (.initS a false) s = step1 c (exec c f) a s := by
        simp [exec, body, hs, initBody, h0]
      rw [e, step1_steps]; decide
    · exact (exec_ax c (f + 1) (.initS a false) s).nz a h0

theorem syncPhase_nz_aux (c : Cfg) (l : List Nat) :
    ∀ s, (l.foldl (fun s b => exec c c.fuel (.initS b false) s) s).ok = true →
      ∀ b ∈ l, (l.foldl (fun s b => exec c c.fuel (.initS b false) s) s).steps b ≠ 0 := by
  induction l with
  | nil => intro s _ b hb; cases hb
  | cons a r ih =>
    intro s hok b hb
    simp only [List.foldl] at hok ⊢
    have hs : s.ok = true := by
      cases h : s.ok with
      | true => rfl
      | false =>
        rw [exec_not_ok c _ _ s h, foldl_exec_not_ok c r s h, h] at hok; cases hok
    have hs' : (exec c c.fuel (.initS a false) s).ok = true := by
      cases h : (exec c c.fuel (.initS a false) s).ok with
      | true => rfl
      | false => rw [foldl_exec_not_ok c r _ h, h] at hok; cases hok
    rcases List.mem_cons.mp hb with rfl | hb
    · exact (foldl_ax _ (fun s x => exec_ax c c.fuel (.initS x false) s) r _).nz b (turn_nz c c.fuel b s hs hs')
    · exact ih _ hok b hb

theorem syncPhase_nz (c : Cfg) (s : St) (hok : (syncPhase c s).ok = true) (b : Nat) (hb : b < c.n) :
    (syncPhase c s).steps b ≠ 0 :=
  syncPhase_nz_aux c (List.range c.n) s hok b (List.mem_range.mpr hb)

/-! ### projections with `init_async` -/

inductive SK4 where
  | P | A | R | D
  deriving DecidableEq, Repr

def embed : SK → SK4
  | .P => .P
  | .R => .R
  | .D => .D

/-- is the entry a call of an initialisation routine of block `b`? -/
def kind4 (b : Nat) : Entry → Option SK4
  | .async x _ _ => if x = b then some .A else none
  | e => (syncKind b e).map embed

/-- the initialisation routines of block `b` in the order of their calls:
    P `_restore_state`, A `init_async`, R `init_regular`, D `init_from_value(initdef)` -/
def proj4 (b : Nat) (log : List Entry) : List SK4 := log.filterMap (kind4 b)

theorem kind4_of_not_async (b : Nat) (e : Entry) (h : isAsync e = false) :
    kind4 b e = (syncKind b e).map embed := by
  cases e <;> first | rfl | simp [isAsync] at h

theorem proj4_noasync (b : Nat) (l : List Entry) (h : ∀ x ∈ l, isAsync x = false) :
    proj4 b l = (proj b l).map embed := by
  induction l with
  | nil => rfl
  | cons e r ih =>
    have he := kind4_of_not_async b e (h e (List.mem_cons_self ..))
    have hr := ih (fun x hx => h x (List.mem_cons_of_mem _ hx))
    simp only [proj4, proj, List.filterMap_cons] at hr ⊢
    rw [he]
    cases syncKind b e <;> simp [hr]

theorem proj_asyncs (b : Nat) (l : List Nat) (g : Nat → Bool) (t : Nat → Int) :
    proj b (l.map fun x => Entry.async x (g x) (t x)) = [] := by
  induction l with
  | nil => rfl
  | cons x r ih => simpa [proj, List.filterMap_cons, syncKind] using ih

theorem proj4_asyncs (b : Nat) (l : List Nat) (g : Nat → Bool) (t : Nat → Int) :
    proj4 b (l.map fun x => Entry.async x (g x) (t x)) = List.replicate (l.count b) .A := by
  induction l with
  | nil => rfl
  | cons x r ih =>
    simp only [proj4, List.map_cons, List.filterMap_cons, kind4] at ih ⊢
    by_cases h : x = b
    · subst h; simp [ih, List.replicate_succ]
    · have : (x == b) = false := by simpa using h
      simp [h, ih, List.count_cons, this]

theorem eligible_count_le (c : Cfg) (s : St) (b : Nat) : (eligible c s).count b ≤ 1 := by
  have : (eligible c s).Nodup := List.Pairwise.filter _ List.nodup_range
  exact List.nodup_iff_count.mp this b

theorem mem_eligible_lt (c : Cfg) (s : St) (b : Nat) (h : b ∈ eligible c s) : b < c.n := by
  simp only [eligible, List.mem_filter, List.mem_range] at h
  exact h.1

/-! ### finite case analysis -/

theorem sublist_prd_embed (l : List SK) (h : l.Sublist [.P, .R, .D]) :
    (l.map embed).Sublist [.P, .A, .R, .D] := by
  have h1 : (l.map embed).Sublist ([SK.P, .R, .D].map embed) := h.map embed
  exact h1.trans (by decide)

theorem order_before (l1 l2 : List SK) (h1 : l1 = [] ∨ l1 = [.P]) (hc : l2.count .P = 0)
    (hs : (l1 ++ l2).Sublist [.P, .R, .D]) :
    (l1.map embed ++ [SK4.A] ++ l2.map embed).Sublist [.P, .A, .R, .D] := by
  have h2 : l2.Sublist [.P, .R, .D] := (List.sublist_append_right l1 l2).trans hs
  have h2' : l2.Sublist [.R, .D] := by
    rcases List.sublist_cons_iff.mp h2 with h | ⟨r, hr, _⟩
    · exact h
    · rw [hr] at hc; simp at hc
  have a1 : (l1.map embed).Sublist [SK4.P] := by
    rcases h1 with e | e <;> subst e <;> decide
  have a2 : (l2.map embed).Sublist [SK4.R, .D] := by
    have := h2'.map embed
    exact this
  exact (a1.append (List.Sublist.refl [SK4.A])).append a2

theorem order_after (l1 : List SK) (hs : l1.Sublist [.P, .R, .D]) :
    (l1.map embed ++ [SK4.A] ++ ([] : List SK).map embed).Sublist [.P, .R, .D, .A] := by
  have a1 : (l1.map embed).Sublist [SK4.P, .R, .D] := hs.map embed
  simpa using a1.append (List.Sublist.refl [SK4.A])

/-! ### assembly -/

theorem afterSync1_J (c : Cfg) : J (afterSync1 c) := by
  have h0 : J init := by intro b; simp [init, proj, Shape]
  have h1 : J (phase0 c init) := by
    unfold phase0
    apply foldl_J _ _ _ _ h0
    intro s b hs
    split
    · exact hs
    · split
      · exact (exec_J c c.fuel _ _ (hs.push_none _ (fun _ => rfl))).of_eq (monitor_log _) (monitor_steps _)
      · exact hs
  show J (syncPhase c (phase0 c init))
  unfold syncPhase
  exact foldl_J _ (fun s b h => exec_J c c.fuel _ _ h) _ _ h1

theorem tail_ax (c : Cfg) (s : St) : Ax s (firstPass c (check c (syncPhase c s))) :=
  (syncPhase_ax c s).trans ((Ax.of_eq (check_eq c _).1 (check_eq c _).2).trans
    (Ax.of_eq (firstPass_eq c _).1 (firstPass_eq c _).2))

theorem tail_keep (c : Cfg) (b : Nat) (s : St) : Keep b s (firstPass c (check c (syncPhase c s))) :=
  (syncPhase_keep c b s).trans ((Keep.of_eq (check_eq c _).1 (check_eq c _).2).trans
    (Keep.of_eq (firstPass_eq c _).1 (firstPass_eq c _).2))

/-- the calls of one block: a sublist of [P, A, R, D], or -- only when the block had begun its step 2 before the
    asynchronous phase, i.e. an event had made its synchronous steps run first, and was still
    uninitialised -- of [P, R, D, A] -/
theorem run_order4 (c : Cfg) (b : Nat) :
    (proj4 b (run c).log).Sublist [.P, .A, .R, .D] ∨
    ((proj4 b (run c).log).Sublist [.P, .R, .D, .A] ∧
      ((afterSync1 c).steps b = 2 ∨ (afterSync1 c).steps b = -2)) := by
  have hA0 : Ax init (afterSync1 c) := (phase0_ax c init).trans (syncPhase_ax c _)
  obtain ⟨e0, he0, hn0⟩ := hA0.ext
  have hlog1 : (afterSync1 c).log = e0 := by simpa [init] using he0
  have hfin := shape_sublist _ _ (run_J c b)
  cases hok : (afterSync1 c).ok with
  | false =>
    have hrun : Ax (afterSync1 c) (run c) := by
      show Ax _ (firstPass c (check c (syncPhase c (asyncPhase c (afterSync1 c)))))
      rw [asyncPhase_not_ok c _ hok]
      exact tail_ax c _
    obtain ⟨e1, he1, hn1⟩ := hrun.ext
    left
    have : proj4 b (run c).log = (proj b (run c).log).map embed := by
      apply proj4_noasync
      rw [he1, hlog1]
      intro x hx
      rcases List.mem_append.mp hx with hx | hx
      · exact hn0 x hx
      · exact hn1 x hx
    rw [this]
    exact sublist_prd_embed _ hfin
  | true =>
    obtain ⟨s2, hl2, hs2, hax, hkeep⟩ := asyncPhase_decomp c (afterSync1 c) hok
    have hrunA : Ax s2 (run c) := hax.trans (tail_ax c _)
    have hrunK : Keep b s2 (run c) := (hkeep b).trans (tail_keep c b _)
    obtain ⟨e1, he1, hn1⟩ := hrunA.ext
    have hpa : proj b (asyncEntries c (afterSync1 c)) = [] :=
      proj_asyncs b (eligible c (afterSync1 c)) (fun x => ((afterSync1 c).out x).isUndef)
        (fun x => (c.blk x).timeout)
    have hpa4 : proj4 b (asyncEntries c (afterSync1 c))
        = List.replicate ((eligible c (afterSync1 c)).count b) .A :=
      proj4_asyncs b (eligible c (afterSync1 c)) (fun x => ((afterSync1 c).out x).isUndef)
        (fun x => (c.blk x).timeout)
    have hp2 : proj b s2.log = proj b e0 := by
      rw [hl2, hlog1]; simp only [proj, List.filterMap_append] at hpa ⊢; rw [hpa]; simp
    have hp3 : proj b (run c).log = proj b e0 ++ proj b e1 := by
      rw [he1]; simp only [proj, List.filterMap_append] at hp2 ⊢; rw [hp2]
    have hp4 : proj4 b (run c).log = (proj b e0).map embed ++
        List.replicate ((eligible c (afterSync1 c)).count b) .A ++ (proj b e1).map embed := by
      rw [he1, hl2, hlog1]
      simp only [proj4, List.filterMap_append] at hpa4 ⊢
      rw [hpa4]
      have a0 := proj4_noasync b e0 hn0
      have a1 := proj4_noasync b e1 hn1
      simp only [proj4] at a0 a1
      rw [a0, a1]
    rw [hp3] at hfin
    have hcnt := eligible_count_le c (afterSync1 c) b
    rcases Nat.le_one_iff_eq_zero_or_eq_one.mp hcnt with h0 | h1
    · -- no init_async for this block
      left
      rw [hp4, h0]
      have := sublist_prd_embed _ hfin
      simpa using this
    · -- init_async was started
      have hmem : b ∈ eligible c (afterSync1 c) := by
        apply List.count_pos_iff.mp; omega
      have hlt := mem_eligible_lt c _ b hmem
      have hnz : (afterSync1 c).steps b ≠ 0 := syncPhase_nz c (phase0 c init) hok b hlt
      have hJ1 := afterSync1_J c b
      rw [hlog1] at hJ1
      rw [hp4, h1]
      rcases hJ1 with ⟨hk, _⟩ | ⟨hk, hl⟩ | ⟨hk, hl⟩
      · exact absurd hk hnz
      · -- step 1 done, step 2 not yet begun: the restore comes before, the rest after
        left
        have hs2nz : s2.steps b ≠ 0 := by rw [hs2]; exact hnz
        have hcp := hrunA.cp b hs2nz
        rw [hp3, hp2, List.count_append] at hcp
        exact order_before _ _ hl (by omega) hfin
      · -- step 2 had been begun by an event: nothing synchronous happens any more
        right
        have hk2 : s2.steps b ≠ 0 ∧ s2.steps b ≠ 1 := by rw [hs2]; omega
        have hkk := (hrunK hk2).2
        rw [hp3, hp2] at hkk
        have hl2e : proj b e1 = [] := by simpa using hkk
        rw [hl2e]
        have hsub : (proj b e0).Sublist [.P, .R, .D] := by
          have := hfin; rw [hl2e] at this; simpa using this
        exact ⟨order_after _ hsub, by omega⟩

end Edzed.Init
