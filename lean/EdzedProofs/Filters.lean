/- helper lemmas for C16: dictionary laws of `Data`, the filter loop, Delta sequences -/
import EdzedModel.Filters

namespace Edzed.Filters

/-! ### `Data` as a dictionary: everything is observed through `get?` -/

theorem get?_nil (k : String) : Data.get? [] k = none := rfl

theorem get?_cons (p : String × Val) (d : Data) (k : String) :
    Data.get? (p :: d) k = if p.1 = k then some p.2 else Data.get? d k := by
  unfold Data.get?
  by_cases h : p.1 = k <;> simp [h]

theorem has_cons (p : String × Val) (d : Data) (k : String) :
    Data.has (p :: d) k = (p.1 == k || Data.has d k) := by
  unfold Data.has; simp

theorem has_eq_isSome (d : Data) (k : String) : Data.has d k = (Data.get? d k).isSome := by
  induction d with
  | nil => rfl
  | cons p d ih =>
    rw [get?_cons, has_cons, ih]
    by_cases h : p.1 = k <;> simp [h]

theorem get?_append (d e : Data) (k : String) :
    Data.get? (d ++ e) k = match Data.get? d k with | some v => some v | none => Data.get? e k := by
  induction d with
  | nil => simp [get?_nil]
  | cons p d ih =>
    simp only [List.cons_append, get?_cons]
    by_cases h : p.1 = k <;> simp [h, ih]

theorem get?_replace (d : Data) (k : String) (v : Val) (k' : String) :
    Data.get? (d.map (fun p => if p.1 == k then (k, v) else p)) k' =
      if k' = k then (if Data.has d k then some v else none) else Data.get? d k' := by
  induction d with
  | nil => simp [get?_nil, Data.has]
  | cons p d ih =>
    simp only [List.map_cons, get?_cons, ih, has_cons]
    by_cases h1 : p.1 = k <;> by_cases h2 : k' = k <;> grind

/-- `d[k] = v` -/
theorem get?_set (d : Data) (k : String) (v : Val) (k' : String) :
    Data.get? (Data.set d k v) k' = if k' = k then some v else Data.get? d k' := by
  have hh : Data.set d k v = if Data.has d k then d.map (fun p => if p.1 == k then (k, v) else p) else d ++ [(k, v)] := rfl
  rw [hh]
  by_cases h : Data.has d k = true
  · simp only [h, if_true, get?_replace]
  · have hn : Data.get? d k = none := by
      rw [has_eq_isSome] at h; simpa using h
    rw [if_neg h]
    simp only [get?_append, get?_cons, get?_nil]
    by_cases h2 : k' = k
    · subst h2; simp [hn]
    · have : ¬ k = k' := fun e => h2 e.symm
      simp only [h2, this, if_false]
      cases Data.get? d k' <;> rfl

theorem erase_cons (p : String × Val) (d : Data) (k : String) :
    Data.erase (p :: d) k = if p.1 = k then Data.erase d k else p :: Data.erase d k := by
  unfold Data.erase
  by_cases h : p.1 = k <;> simp [h]

/-- `d.pop(k, None)` / `del d[k]` -/
theorem get?_erase (d : Data) (k k' : String) :
    Data.get? (Data.erase d k) k' = if k' = k then none else Data.get? d k' := by
  induction d with
  | nil => simp [Data.erase, get?_nil]
  | cons p d ih =>
    rw [erase_cons]
    by_cases h1 : p.1 = k
    · simp only [h1, if_true, ih, get?_cons]; grind
    · simp only [h1, if_false, ih, get?_cons]; grind

theorem get?_eraseAll (keys : List String) (d : Data) (k : String) :
    Data.get? (eraseAll d keys) k = if k ∈ keys then none else Data.get? d k := by
  unfold eraseAll
  induction keys generalizing d with
  | nil => simp
  | cons a keys ih =>
    simp only [List.foldl_cons, ih, get?_erase, List.mem_cons]
    by_cases h1 : k ∈ keys <;> by_cases h2 : k = a <;> simp [h1, h2]

theorem keepOnly_cons (p : String × Val) (d : Data) (keys : List String) :
    keepOnly (p :: d) keys = if p.1 ∈ keys then p :: keepOnly d keys else keepOnly d keys := by
  unfold keepOnly
  by_cases h : p.1 ∈ keys <;> simp [h]

theorem get?_keepOnly (keys : List String) (d : Data) (k : String) :
    Data.get? (keepOnly d keys) k = if k ∈ keys then Data.get? d k else none := by
  induction d with
  | nil => simp [keepOnly, get?_nil]
  | cons p d ih =>
    rw [keepOnly_cons]
    by_cases hp : p.1 ∈ keys
    · simp only [hp, if_true, get?_cons, ih]; grind
    · simp only [hp, if_false, get?_cons, ih]; grind

/-- `{**d, **kw}` -/
theorem get?_update (d kw : Data) (k : String) :
    Data.get? (update d kw) k = match Data.get? kw k with | some v => some v | none => Data.get? d k := by
  unfold update
  induction kw with
  | nil => simp [get?_nil]
  | cons p kw ih =>
    simp only [List.foldr_cons, get?_set, get?_cons, ih]
    by_cases h : k = p.1
    · simp [h]
    · have : ¬ p.1 = k := fun e => h e.symm
      simp [h, this]

/-! ### DataEdit chains -/

theorem chain_append (env : Env) (a b : List EditOp) (d : Data) :
    chain env (a ++ b) d = (chain env a d >>= chain env b) := by
  induction a generalizing d with
  | nil => rfl
  | cons op a ih =>
    simp only [List.cons_append, chain]
    cases h : op.apply env d with
    | ok d' => simp only [ih]
    | error s => rfl

theorem chain_singleton (env : Env) (op : EditOp) (d : Data) :
    chain env [op] d = op.apply env d := by
  simp only [chain]
  cases op.apply env d <;> rfl

/-! ### the filter loop -/

/-- the documented reading of one filter result: the data handed to the next stage, if any -/
def stageNext (env : Env) (f : Filter) (d : Data) : Option Data :=
  match (f.call env d).ret with
  | .mapping d' => some d'
  | .other v => if v.truthy then some (f.call env d).data else none
  | .badKey => none
  | .raise _ => none

theorem runFrom_cons_pass (env : Env) (f : Filter) (fs : List Filter) (d d' : Data)
    (h : stageNext env f d = some d') :
    runFrom env (f :: fs) d = ((f.call env d).filter :: (runFrom env fs d').1, (runFrom env fs d').2) := by
  unfold stageNext at h
  rw [runFrom]
  cases hr : (f.call env d).ret with
  | mapping m => rw [hr] at h; simp only [Option.some.injEq] at h; simp only [h]
  | other v =>
    rw [hr] at h
    by_cases hv : v.truthy = true
    · simp only [hv, if_true, Option.some.injEq] at h; simp only [hv, if_true, h]
    · simp [hv] at h
  | badKey => rw [hr] at h; cases h
  | raise e => rw [hr] at h; cases h

theorem runFrom_cons_stop (env : Env) (f : Filter) (fs : List Filter) (d : Data)
    (h : stageNext env f d = none) :
    (runFrom env (f :: fs) d).1 = (f.call env d).filter :: fs ∧
    ((runFrom env (f :: fs) d).2 = .rejected ∧ (∃ v, (f.call env d).ret = .other v ∧ v.truthy = false) ∨
     (∃ e, (runFrom env (f :: fs) d).2 = .error e ∧
        ((f.call env d).ret = .raise e ∨ (f.call env d).ret = .badKey ∧ e = .typeError))) := by
  unfold stageNext at h
  rw [runFrom]
  cases hr : (f.call env d).ret with
  | mapping m => rw [hr] at h; cases h
  | other v =>
    rw [hr] at h
    by_cases hv : v.truthy = true
    · simp [hv] at h
    · simp only [hv]; exact ⟨rfl, Or.inl ⟨rfl, v, rfl, by simpa using hv⟩⟩
  | badKey => exact ⟨rfl, Or.inr ⟨_, rfl, Or.inr ⟨rfl, rfl⟩⟩⟩
  | raise e => exact ⟨rfl, Or.inr ⟨_, rfl, Or.inl rfl⟩⟩

/-- the data is the left fold of the stages -/
theorem runFilters_eq_foldlM (env : Env) (fs : List Filter) (d : Data) :
    runFilters env fs d = fs.foldlM (fun d f => stageNext env f d) d := by
  induction fs generalizing d with
  | nil => rfl
  | cons f fs ih =>
    rw [List.foldlM_cons]
    cases h : stageNext env f d with
    | some d' =>
      have := runFrom_cons_pass env f fs d d' h
      simp only [runFilters, this] at *
      exact ih d'
    | none =>
      have := (runFrom_cons_stop env f fs d h).2
      simp only [runFilters]
      rcases this with ⟨h1, _⟩ | ⟨e, h1, _⟩ <;> simp [h1]

/-! ### Delta -/

theorem absQ_ge_iff (δ x : Rat) : δ ≤ absQ x ↔ (δ ≤ x ∨ δ ≤ -x) := by
  unfold absQ
  by_cases h : x < 0
  · simp only [h, if_true]
    constructor
    · intro h1; exact Or.inr h1
    · intro h1; rcases h1 with h1 | h1
      · have : x ≤ -x := by
          have := Rat.le_of_lt h
          grind
        exact Rat.le_trans h1 this
      · exact h1
  · simp only [h, if_false]
    constructor
    · intro h1; exact Or.inl h1
    · intro h1; rcases h1 with h1 | h1
      · exact h1
      · have : -x ≤ x := by
          have := Rat.not_lt.mp h
          grind
        exact Rat.le_trans h1 this


theorem runFrom_append (env : Env) (pre rest : List Filter) (d dk : Data)
    (h : pre.foldlM (fun d f => stageNext env f d) d = some dk) :
    ∃ pre', pre'.length = pre.length ∧
      runFrom env (pre ++ rest) d = (pre' ++ (runFrom env rest dk).1, (runFrom env rest dk).2) := by
  induction pre generalizing d with
  | nil =>
    have : d = dk := by simpa using h
    subst this
    exact ⟨[], rfl, rfl⟩
  | cons f pre ih =>
    rw [List.foldlM_cons] at h
    cases h1 : stageNext env f d with
    | none => rw [h1] at h; cases h
    | some d1 =>
      rw [h1] at h
      obtain ⟨pre', hl, hr⟩ := ih d1 h
      refine ⟨(f.call env d).filter :: pre', by simp [hl], ?_⟩
      rw [List.cons_append, runFrom_cons_pass env f _ d d1 h1, hr]
      rfl

theorem foldlM_some_of_all_pass (env : Env) (fs : List Filter) (d : Data)
    (h : ∀ pre f post dk, fs = pre ++ f :: post →
      pre.foldlM (fun d f => stageNext env f d) d = some dk → (stageNext env f dk).isSome = true) :
    ∃ d', fs.foldlM (fun d f => stageNext env f d) d = some d' := by
  induction fs generalizing d with
  | nil => exact ⟨d, rfl⟩
  | cons f fs ih =>
    have h0 := h [] f fs d rfl rfl
    cases h1 : stageNext env f d with
    | none => rw [h1] at h0; cases h0
    | some d1 =>
      rw [List.foldlM_cons, h1]
      apply ih d1
      intro pre g post dk hsplit hfold
      apply h (f :: pre) g post dk (by rw [hsplit]; rfl)
      rw [List.foldlM_cons, h1]; exact hfold

/-! ### Delta: the pass flags of a sequence of numbers -/

/-- pass flags of a numeric sequence, `last` = the last passed value so far -/
def deltaFlags (δ : XNum) : Option XNum → List XNum → List Bool
  | _, [] => []
  | none, v :: vs => true :: deltaFlags δ (some v) vs
  | some l, v :: vs =>
    if XNum.le δ (XNum.abs (l.sub v)) then true :: deltaFlags δ (some v) vs else false :: deltaFlags δ (some l) vs

theorem deltaFlags_length (δ : XNum) (last : Option XNum) (vs : List XNum) :
    (deltaFlags δ last vs).length = vs.length := by
  induction vs generalizing last with
  | nil => cases last <;> rfl
  | cons v vs ih =>
    cases last with
    | none => simp [deltaFlags, ih]
    | some l =>
      by_cases h : XNum.le δ (XNum.abs (l.sub v)) = true <;> simp [deltaFlags, h, ih]

/-- the model's `_last` corresponds to the abstract last passed number -/
def LastIs (lastV : Val) (last : Option XNum) : Prop :=
  match last with
  | none => lastV = .undef
  | some l => lastV.isUndef = false ∧ xnumOf? lastV = some l

theorem xnumOf?_not_undef (v : Val) (x : XNum) (h : xnumOf? v = some x) : v.isUndef = false := by
  cases v <;> simp_all [xnumOf?, Val.isUndef]

theorem callSeq_delta (env : Env) (δ : XNum) (mk : XNum → Data)
    (hmk : ∀ x, ∃ v, (mk x).get? "value" = some v ∧ xnumOf? v = some x)
    (lastV : Val) (last : Option XNum) (hl : LastIs lastV last) (vs : List XNum) :
    callSeq env (.delta δ lastV) (vs.map mk) =
      (deltaFlags δ last vs).map (fun b => FRes.other (Val.bool b)) := by
  induction vs generalizing lastV last with
  | nil => cases last <;> rfl
  | cons x vs ih =>
    obtain ⟨v, hv, hx⟩ := hmk x
    have hvu := xnumOf?_not_undef v x hx
    simp only [List.map_cons, callSeq, Filter.call, deltaCall, hv]
    cases last with
    | none =>
      have : lastV = .undef := hl
      subst this
      simp only [Val.isUndef, if_true, deltaFlags, List.map_cons]
      rw [ih v (some x) ⟨hvu, hx⟩]
    | some l =>
      obtain ⟨hu, hlx⟩ := hl
      simp only [hu, Bool.false_eq_true, if_false, hlx, hx, deltaFlags]
      by_cases h : XNum.le δ (XNum.abs (l.sub x)) = true
      · simp only [h, if_true, List.map_cons]
        rw [ih v (some x) ⟨hvu, hx⟩]
      · have h' : XNum.le δ (XNum.abs (l.sub x)) = false := by simpa using h
        simp only [h', Bool.false_eq_true, if_false, List.map_cons]
        rw [ih lastV (some l) ⟨hu, hlx⟩]

/-- the last passed value of a flagged prefix -/
def lastPassed (init : Option XNum) (l : List (XNum × Bool)) : Option XNum :=
  l.foldl (fun acc p => if p.2 then some p.1 else acc) init

theorem lastPassed_cons (init : Option XNum) (p : XNum × Bool) (l : List (XNum × Bool)) :
    lastPassed init (p :: l) = lastPassed (if p.2 then some p.1 else init) l := rfl

theorem lastPassed_all_false (init : Option XNum) (l : List (XNum × Bool))
    (h : ∀ p ∈ l, p.2 = false) : lastPassed init l = init := by
  induction l generalizing init with
  | nil => rfl
  | cons p l ih =>
    rw [lastPassed_cons, h p (by simp)]
    exact ih _ (fun q hq => h q (by simp [hq]))

theorem lastPassed_append (init : Option XNum) (a b : List (XNum × Bool)) :
    lastPassed init (a ++ b) = lastPassed (lastPassed init a) b := by
  unfold lastPassed; rw [List.foldl_append]

theorem lastPassed_none_iff' (init : Option XNum) (l : List (XNum × Bool)) :
    lastPassed init l = none ↔ init = none ∧ ∀ p ∈ l, p.2 = false := by
  induction l generalizing init with
  | nil => simp [lastPassed]
  | cons p l ih =>
    rw [lastPassed_cons, ih]
    cases hp : p.2 <;> simp [hp]

theorem lastPassed_none_iff (l : List (XNum × Bool)) :
    lastPassed none l = none ↔ ∀ p ∈ l, p.2 = false := by
  rw [lastPassed_none_iff']; simp

theorem lastPassed_some' (init : Option XNum) (l : List (XNum × Bool)) (w : XNum)
    (h : lastPassed init l = some w) :
    (init = some w ∧ ∀ p ∈ l, p.2 = false) ∨
    ∃ l1 l2, l = l1 ++ (w, true) :: l2 ∧ ∀ p ∈ l2, p.2 = false := by
  induction l generalizing init with
  | nil => exact Or.inl ⟨h, by simp⟩
  | cons p l ih =>
    rw [lastPassed_cons] at h
    rcases ih _ h with ⟨hi, hf⟩ | ⟨l1, l2, he, hf⟩
    · cases hp : p.2 with
      | true =>
        rw [hp] at hi
        have hw : p.1 = w := by simpa using hi
        refine Or.inr ⟨[], l, ?_, hf⟩
        have : p = (w, true) := by rw [← hw, ← hp]
        rw [this]; rfl
      | false =>
        rw [hp] at hi
        refine Or.inl ⟨by simpa using hi, ?_⟩
        intro q hq
        rcases List.mem_cons.mp hq with hq | hq
        · rw [hq]; exact hp
        · exact hf q hq
    · exact Or.inr ⟨p :: l1, l2, by rw [he]; rfl, hf⟩

theorem lastPassed_some (l : List (XNum × Bool)) (w : XNum) (h : lastPassed none l = some w) :
    ∃ l1 l2, l = l1 ++ (w, true) :: l2 ∧ ∀ p ∈ l2, p.2 = false := by
  rcases lastPassed_some' none l w h with ⟨hi, _⟩ | h
  · cases hi
  · exact h

theorem lastPassed_of_split (init : Option XNum) (l1 l2 : List (XNum × Bool)) (w : XNum)
    (h : ∀ p ∈ l2, p.2 = false) : lastPassed init (l1 ++ (w, true) :: l2) = some w := by
  rw [lastPassed_append, lastPassed_cons]
  exact lastPassed_all_false _ l2 h

theorem absQ_sub_ge_iff (δ l v : Rat) : δ ≤ absQ (l - v) ↔ (δ ≤ v - l ∨ δ ≤ l - v) := by
  rw [absQ_ge_iff]
  have : -(l - v) = v - l := by grind
  rw [this]; exact Or.comm

/-- `abs(l - v) >= δ` on the extended numbers: one of the two differences reaches δ (never with a NaN) -/
theorem xabs_sub_ge_iff (δ l v : XNum) :
    XNum.le δ (XNum.abs (l.sub v)) = true ↔ (XNum.le δ (v.sub l) = true ∨ XNum.le δ (l.sub v) = true) := by
  cases δ <;> cases l <;> cases v <;> simp [XNum.le, XNum.abs, XNum.sub]
  next d a b => exact absQ_sub_ge_iff d a b

theorem deltaFlags_head (δ : XNum) (last : Option XNum) (v0 : XNum) (vs : List XNum) :
    ∃ b0, deltaFlags δ last (v0 :: vs) = b0 :: deltaFlags δ (if b0 then some v0 else last) vs ∧
      (b0 = true ↔ match last with | none => True | some w => XNum.le δ (v0.sub w) = true ∨ XNum.le δ (w.sub v0) = true) := by
  cases last with
  | none => exact ⟨true, rfl, by simp⟩
  | some l =>
    have hab := xabs_sub_ge_iff δ l v0
    by_cases hc : XNum.le δ (XNum.abs (l.sub v0)) = true
    · exact ⟨true, by simp [deltaFlags, hc], by simpa using hab.mp hc⟩
    · exact ⟨false, by simp [deltaFlags, hc], by simpa using fun x => hc (hab.mpr x)⟩

/-- every flag is decided by the last passed value before it -/
theorem deltaFlags_spec (δ : XNum) (last : Option XNum) (vs : List XNum)
    (pre : List (XNum × Bool)) (v : XNum) (b : Bool) (post : List (XNum × Bool))
    (h : vs.zip (deltaFlags δ last vs) = pre ++ (v, b) :: post) :
    b = true ↔ match lastPassed last pre with
      | none => True
      | some w => XNum.le δ (v.sub w) = true ∨ XNum.le δ (w.sub v) = true := by
  induction vs generalizing last pre with
  | nil => cases last <;> simp [deltaFlags] at h
  | cons v0 vs ih =>
    obtain ⟨b0, hfl, hb0⟩ := deltaFlags_head δ last v0 vs
    rw [hfl, List.zip_cons_cons] at h
    cases pre with
    | nil =>
      simp only [List.nil_append, List.cons.injEq, Prod.mk.injEq] at h
      obtain ⟨⟨hv, hb⟩, _⟩ := h
      subst hv; subst hb
      exact hb0
    | cons p pre =>
      simp only [List.cons_append, List.cons.injEq] at h
      obtain ⟨hp, hrest⟩ := h
      subst hp
      rw [lastPassed_cons]
      exact ih _ pre hrest

/-- values that passed, in order -/
def passedOf (l : List (XNum × Bool)) : List XNum := l.filterMap (fun p => if p.2 then some p.1 else none)

def ChainFrom (δ : XNum) : Option XNum → List XNum → Prop
  | _, [] => True
  | none, a :: r => ChainFrom δ (some a) r
  | some w, a :: r => (XNum.le δ (a.sub w) = true ∨ XNum.le δ (w.sub a) = true) ∧ ChainFrom δ (some a) r

theorem deltaFlags_chain (δ : XNum) (last : Option XNum) (vs : List XNum) :
    ChainFrom δ last (passedOf (vs.zip (deltaFlags δ last vs))) := by
  induction vs generalizing last with
  | nil => cases last <;> simp [deltaFlags, passedOf, ChainFrom]
  | cons v vs ih =>
    cases last with
    | none =>
      simp only [deltaFlags, List.zip_cons_cons, passedOf, List.filterMap_cons, if_true, ChainFrom]
      exact ih (some v)
    | some l =>
      have hab := xabs_sub_ge_iff δ l v
      by_cases hc : XNum.le δ (XNum.abs (l.sub v)) = true
      · simp only [deltaFlags, hc, if_true, List.zip_cons_cons, passedOf, List.filterMap_cons, ChainFrom]
        exact ⟨hab.mp hc, ih (some v)⟩
      · simp only [deltaFlags, hc, if_false, List.zip_cons_cons, passedOf, List.filterMap_cons,
          Bool.false_eq_true]
        exact ih (some l)

theorem chainFrom_adjacent (δ : XNum) (last : Option XNum) (L l1 l2 : List XNum) (a c : XNum)
    (h : ChainFrom δ last L) (hs : L = l1 ++ a :: c :: l2) : XNum.le δ (c.sub a) = true ∨ XNum.le δ (a.sub c) = true := by
  induction l1 generalizing last L with
  | nil =>
    subst hs
    cases last with
    | none => exact h.1
    | some w => exact h.2.1
  | cons x l1 ih =>
    subst hs
    cases last with
    | none => exact ih (some x) _ h rfl
    | some w => exact ih (some x) _ h.2 rfl

end Edzed.Filters
