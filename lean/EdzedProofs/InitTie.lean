/-
C05: tie of the model's `Regular.quietNone` (= `InitAsync.init_regular`) to the translated source
(EdzedModel/Gen/TranslatedInit.lean, tools/py2lean_init.py), and what step 2 of `init_sblock` does for an
InitAsync block.
-/
import EdzedModel.Init
import EdzedModel.Gen.TranslatedInit
import EdzedProofs.Init

namespace Edzed.Init

open Edzed.Gen.TrInit

/-- the translated action list run on the model state; after `self._output_events = ()` a `set_output` sends
    no events -/
def applyActs (rec : Call → St → St) (b : Nat) : List Act → Bool → St → St
  | [], _, s => s
  | .clearOutputEvents :: r, _, s => applyActs rec b r true s
  | .setOutput v :: r, cl, s => applyActs rec b r cl (if cl then s.setOut b v else rec (.setOutput b v) s)

/-- `self.initdef` as a value: UNDEF when the argument was not given -/
def initdefVal (k : Blk) : Val :=
  match k.initdef with
  | some (v, _) => v
  | Option.none => .undef

theorem regularBody_quietNone (c : Cfg) (rec : Call → St → St) (b : Nat) (a : St)
    (hq : (c.blk b).regular = .quietNone) :
    regularBody c rec b a =
      if (a.out b).isUndef = true ∧ (c.blk b).initdef.isNone = true then a.setOut b Val.none else a := by
  unfold regularBody; rw [hq]

theorem regularBody_tie (c : Cfg) (rec : Call → St → St) (b : Nat) (a : St)
    (hq : (c.blk b).regular = .quietNone)
    (hv : ∀ v h, (c.blk b).initdef = some (v, h) → v.isUndef = false) :
    regularBody c rec b a =
      applyActs rec b (initAsyncRegular (a.out b) (initdefVal (c.blk b))) false a := by
  rw [regularBody_quietNone c rec b a hq]
  unfold initAsyncRegular isInitialized initdefVal
  cases hd : (c.blk b).initdef with
  | none => cases hu : (a.out b).isUndef <;> simp [applyActs, Val.isUndef]
  | some p =>
    obtain ⟨v, h⟩ := p
    have := hv v h hd
    cases hu : (a.out b).isUndef <;> simp [applyActs, this]

/-- step 2 for an InitAsync block WITH an initdef (any value) that is still uninitialised -- the coroutine did
    not deliver: no None, the initdef is applied -/
theorem step2_initasync_uses_initdef (c : Cfg) (rec : Call → St → St) (b : Nat) (s : St) (v : Val) (how : How)
    (hq : (c.blk b).regular = .quietNone) (hd : (c.blk b).initdef = some (v, how))
    (hok : s.ok = true) (hu : (s.out b).isUndef = true) :
    step2 c rec b s =
      (if !(rec (applyCall how b v) (((s.setSteps b (-2)).push (.regular b)).push (.initdef b true))).ok
       then rec (applyCall how b v) (((s.setSteps b (-2)).push (.regular b)).push (.initdef b true))
       else (rec (applyCall how b v)
         (((s.setSteps b (-2)).push (.regular b)).push (.initdef b true))).setSteps b 2) := by
  unfold step2
  rw [regularBody_quietNone c rec b _ hq]
  have hn : (c.blk b).initdef.isNone = false := by rw [hd]; rfl
  simp only [hn, Bool.false_eq_true, and_false, if_false, push_ok, setSteps_ok, hok, Bool.not_true]
  unfold initdefBody
  simp [hd, hu]

/-- step 2 for an InitAsync block that has been initialised (the coroutine delivered): nothing is applied -/
theorem step2_initasync_initialised (c : Cfg) (rec : Call → St → St) (b : Nat) (s : St)
    (hq : (c.blk b).regular = .quietNone) (hok : s.ok = true) (hu : (s.out b).isUndef = false) :
    step2 c rec b s = ((s.setSteps b (-2)).push (.regular b)).setSteps b 2 := by
  unfold step2
  rw [regularBody_quietNone c rec b _ hq]
  simp only [push_out, setSteps_out, hu, Bool.false_eq_true, false_and, if_false, push_ok, setSteps_ok, hok,
    Bool.not_true]
  unfold initdefBody
  cases hd : (c.blk b).initdef with
  | none => simp [hok]
  | some p => obtain ⟨v, h⟩ := p; simp [hu, hok]

/-- step 2 for an InitAsync block WITHOUT initdef that is still uninitialised: the output None, no event -/
theorem step2_initasync_no_initdef (c : Cfg) (rec : Call → St → St) (b : Nat) (s : St)
    (hq : (c.blk b).regular = .quietNone) (hd : (c.blk b).initdef = Option.none)
    (hok : s.ok = true) (hu : (s.out b).isUndef = true) :
    step2 c rec b s = (((s.setSteps b (-2)).push (.regular b)).setOut b Val.none).setSteps b 2 := by
  unfold step2
  rw [regularBody_quietNone c rec b _ hq]
  have hn : (c.blk b).initdef.isNone = true := by rw [hd]; rfl
  simp only [hn, push_out, setSteps_out, hu, and_self, if_true, setOut_ok, push_ok, setSteps_ok, hok,
    Bool.not_true, Bool.false_eq_true, if_false]
  unfold initdefBody
  simp [hd, hok]

end Edzed.Init
