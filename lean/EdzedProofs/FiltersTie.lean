/-
C16, tie by translation: helper definitions and lemmas.

* how the edit functions of a `DataEdit` object read as Python callables (`c16ApplyEdit`);
* the leaves of the translated `Event.send` (`Gen.TrD.SendPrims`, generated for C11) instantiated with
  the filters of THIS model (`c16SendPrims`).
Nothing here mentions a generated definition that can be omitted (only the fixed preludes), so that a broken
translation breaks named theorems of EdzedProps/C16.lean and not this import.
-/
import EdzedModel.Filters
import EdzedModel.Gen.TranslatedDispatch
import EdzedModel.Gen.TranslatedFilterObjs

namespace Edzed.TrTie
open Edzed.Filters

/-- the edit functions of a `DataEdit` object as Python callables: what `func(data)` produces -/
def c16ApplyEdit (env : Env) (op : EditOp) (d : Data) : FRes := Gen.TrFo.editResult (op.apply env d)

theorem c16_dataEditCall_eq (env : Env) (ops : List EditOp) (d : Data) :
    Filters.dataEditCall env ops d = Gen.TrFo.editResult (chain env ops d) := by
  unfold Filters.dataEditCall
  cases chain env ops d with
  | ok d' => rfl
  | error s => cases s <;> rfl

/-! ### Edge: arbitrary constructor arguments -/

/-- `Edge(rise, fall, u_rise, u_fall)` called with arbitrary Python objects, read as the model's arguments:
    the truth values, and `u_rise` absent exactly when the object is `None` (NOT when it is merely false) -/
def c16EdgeArgs (rise fall uRise uFall : Val) : EdgeArgs :=
  { rise := rise.truthy, fall := fall.truthy,
    uRise := if uRise = Val.none then none else some uRise.truthy,
    uFall := uFall.truthy }

/-- the model's arguments as Python objects -/
def c16OptBoolVal : Option Bool → Val
  | none => Val.none
  | some b => Val.bool b

/-! ### Delta: `abs` of a difference is symmetric (also with the non-finite floats) -/

theorem c16_absQ_sub_comm (a b : Rat) : absQ (a - b) = absQ (b - a) := by
  unfold absQ
  by_cases h1 : a - b < 0 <;> by_cases h2 : b - a < 0 <;> simp only [h1, h2, if_true, if_false] <;> grind

theorem c16_xabs_sub_comm (a b : XNum) : XNum.abs (a.sub b) = XNum.abs (b.sub a) := by
  cases a <;> cases b <;> simp [XNum.abs, XNum.sub]
  next x y => exact c16_absQ_sub_comm x y

/-! ### the translated `Event.send` with the filters of this model -/

/-- the leaves of `Event.send` (generated structure of C11) read with the C16 model: the state is the list
    of event data the destination has received; a filter is called through `Filter.call` -/
def c16SendPrims (env : Env) (src : String) : Gen.TrD.SendPrims (List Data) Err Data Filter FRes where
  sameCircuit := true
  mkExc := fun kind _ => if kind = "TypeError" then .typeError else .valueError
  setSource := fun d => d.set "source" (Val.str src)
  applyFilter := fun f d => Gen.TrD.M.pure (f.call env d).ret
  isMapping := fun r => match r with | .mapping _ => true | .badKey => true | _ => false
  anyKeyNotStr := fun r => match r with | .badKey => true | _ => false
  asData := fun r => match r with | .mapping d => d | _ => []
  resTruthy := fun r => match r with | .other v => v.truthy | .mapping d => !d.isEmpty | .badKey => true | .raise _ => false
  resIsNone := fun r => match r with | .other v => v == Val.none | _ => false
  destEvent := fun d s => (s ++ [d], .next ())

/-- a filter call as the translated loop sees it: no exception, and the dict is not modified in place
    (the loop of C11 is translated with `efilter(data)` as a function of the data) -/
def PlainFilter (env : Env) (f : Filter) : Prop :=
  ∀ d, (f.call env d).data = d ∧ ∀ e, (f.call env d).ret ≠ .raise e

/-- how an outcome of the model reads in the monad of the translated program -/
def c16LoopOut : Outcome → Gen.TrD.Out Err Bool Data
  | .delivered d => .next d
  | .rejected => .ret false
  | .error e => .raise e

end Edzed.TrTie
