/-
Tie of the FSM model to the TRANSLATED source of `FSM._ctx_event` (lean/EdzedModel/Gen/TranslatedFsm.lean,
regenerated from the current Python AST by tools/py2lean_fsm.py on every check):

  * `prims c` instantiates the primitives of the translated program (one per call / lookup the method
    makes) with the operations of EdzedModel/FsmTimer.lean;
  * helper lemmas that do not depend on the translated program itself (the theorems about it are in
    EdzedProps/C04.lean, `namespace Edzed.TrTie`).
-/
import EdzedModel.FsmTimer
import EdzedProofs.FsmTimer
import EdzedModel.Gen.TranslatedFsm

namespace Edzed.TrTie
open Edzed.FsmTimer Edzed.Gen.TrM

/-- the block as `_ctx_event` sees it: the model state, `_fsm_event_active`, and whether an
    `_enable_event` context is open -/
structure TSt where
  st : St
  active : Bool
  enabled : Bool

def TSt.map (t : TSt) (f : St → St) : TSt := { t with st := f t.st }

/-- a model operation as an effectful primitive: it has raised iff it left the state failed -/
def lift (f : St → St) : Eff TSt ErrKind Unit := fun t =>
  (t.map f, match (f t.st).failed with | some k => .error k | none => .ok ())

def excOf (name : String) : ErrKind :=
  if name == "EdzedUnknownEvent" then .unknownEvent
  else if name == "EdzedCircuitError" then .circuitError
  else if name == "AssertionError" then .assertion
  else if name == "ValueError" then .valueError
  else if name == "KeyError" then .keyError
  else if name == "EdzedInvalidState" then .invalidState
  else if name == "TypeError" then .typeError
  else .fuel    -- any other class (TypeError, RuntimeError, …): a kind that no path of the model produces

/-- the primitives of `_ctx_event` = the operations of the model -/
def prims (c : Cfg) : FsmPrims TSt TEvent EvData String TEvent Val Dur ErrKind where
  exc := excOf
  asGoto := fun e => match e with | .goto q => some q | .ev _ => none
  isStr := fun e => match e with | .ev _ => true | .goto _ => false
  isEvent := fun _ e => match e with | .ev n => c.tbl.events.contains n | .goto _ => false
  isMutableMapping := fun _ => true
  readOnly := fun d => d
  dataGet := fun d key => if key == "duration" then d.dur else .none
  isUndef := fun v => v.isUndef
  getState := fun t => t.st.state
  setState := fun oq t => match oq with
    | some q => t.map (·.enter q)
    | none => t.map fun s => { s with state := none, epoch := s.epoch + 1 }
  getNext := fun t => t.st.next.map fun x => (x.1, x.2.1, some x.2.2)
  setNext := fun o t => t.map (·.setNextEv (o.bind fun x => x.2.2.map fun q => (x.1, x.2.1, q)))
  getActive := fun t => t.active
  setActive := fun b t => { t with active := b }
  isInitialized := fun t => !t.st.out.isUndef
  chainLimit := fun _ => c.tbl.chainLimit
  transition := fun _ e oq => match e with
    | .ev n => c.tbl.lookupKey n oq
    | .goto _ => none
  timedEvent := fun _ oq => oq.bind fun q => (c.tbl.timedOf q).map (·.1)
  setEventData := fun d => lift (setCtx · d)
  checkState := fun oq t => match oq with
    | some q => if c.tbl.states.contains q then (t, .ok ()) else (t, .error .valueError)
    | none => (t, .error .valueError)
  runCond := fun e t => match e with
    | .ev n => match evalConds t.st t.st.ctx (c.condsOf n) with
      | none => (t, .error .keyError)
      | some (s', ok) => ({ t with st := s' }, .ok ok)
    | .goto _ => (t, .ok true)
  runCbExit := fun oq => lift fun s => match oq with
    | some q => s.emit (.exit q s.ctx)
    | none => s
  runCbEnter := fun oq => lift fun s => match oq with
    | some q => runEnter c s q
    | none => s
  sendEvents := fun kind => lift fun s =>
    if kind == "on_exit" then (match s.state with | some q => s.emit (.onExit q) | none => s)
    else sendOnEnter s
  sendNotrans := fun e oq => lift fun s => match e, oq with
    | .ev n, some q => s.emit (.notrans n q)
    | _, _ => s
  stopTimer := lift stopTimer
  startTimer := fun item tev => lift fun s => match s.state with
    | some q => startTimer c s q tev item
    | none => s
  calcOutput := fun t => match calcOutput c t.st with
    | none => (t, .error .keyError)
    | some v => (t, .ok v)
  setOutput := fun v => lift (setOut · v)
  enableEvent := fun b t => { t with enabled := b }

/-! the primitives one by one (so that `prims c` itself is never unfolded) -/
theorem prims_exc (c : Cfg) : (prims c).exc = (excOf) := rfl
theorem prims_asGoto (c : Cfg) : (prims c).asGoto = (fun e => match e with | .goto q => some q | .ev _ => none) := rfl
theorem prims_isStr (c : Cfg) : (prims c).isStr = (fun e => match e with | .ev _ => true | .goto _ => false) := rfl
theorem prims_isEvent (c : Cfg) : (prims c).isEvent = (fun _ e => match e with | .ev n => c.tbl.events.contains n | .goto _ => false) := rfl
theorem prims_isMutableMapping (c : Cfg) : (prims c).isMutableMapping = (fun _ => true) := rfl
theorem prims_readOnly (c : Cfg) : (prims c).readOnly = (fun d => d) := rfl
theorem prims_dataGet (c : Cfg) : (prims c).dataGet = (fun d key => if key == "duration" then d.dur else .none) := rfl
theorem prims_isUndef (c : Cfg) : (prims c).isUndef = (fun v => v.isUndef) := rfl
theorem prims_getState (c : Cfg) : (prims c).getState = (fun t => t.st.state) := rfl
theorem prims_setState (c : Cfg) : (prims c).setState = (fun oq t => match oq with
    | some q => t.map (·.enter q)
    | none => t.map fun s => { s with state := none, epoch := s.epoch + 1 }) := rfl
theorem prims_getNext (c : Cfg) : (prims c).getNext = (fun t => t.st.next.map fun x => (x.1, x.2.1, some x.2.2)) := rfl
theorem prims_setNext (c : Cfg) : (prims c).setNext = (fun o t => t.map (·.setNextEv (o.bind fun x => x.2.2.map fun q => (x.1, x.2.1, q)))) := rfl
theorem prims_getActive (c : Cfg) : (prims c).getActive = (fun t => t.active) := rfl
theorem prims_setActive (c : Cfg) : (prims c).setActive = (fun b t => { t with active := b }) := rfl
theorem prims_isInitialized (c : Cfg) : (prims c).isInitialized = (fun t => !t.st.out.isUndef) := rfl
theorem prims_chainLimit (c : Cfg) : (prims c).chainLimit = (fun _ => c.tbl.chainLimit) := rfl
theorem prims_transition (c : Cfg) : (prims c).transition = (fun _ e oq => match e with
    | .ev n => c.tbl.lookupKey n oq
    | .goto _ => none) := rfl
theorem prims_timedEvent (c : Cfg) : (prims c).timedEvent = (fun _ oq => oq.bind fun q => (c.tbl.timedOf q).map (·.1)) := rfl
theorem prims_setEventData (c : Cfg) : (prims c).setEventData = (fun d => lift (setCtx · d)) := rfl
theorem prims_checkState (c : Cfg) : (prims c).checkState = (fun oq t => match oq with
    | some q => if c.tbl.states.contains q then (t, .ok ()) else (t, .error .valueError)
    | none => (t, .error .valueError)) := rfl
theorem prims_runCond (c : Cfg) : (prims c).runCond = (fun e t => match e with
    | .ev n => match evalConds t.st t.st.ctx (c.condsOf n) with
      | none => (t, .error .keyError)
      | some (s', ok) => ({ t with st := s' }, .ok ok)
    | .goto _ => (t, .ok true)) := rfl
theorem prims_runCbExit (c : Cfg) : (prims c).runCbExit = (fun oq => lift fun s => match oq with
    | some q => s.emit (.exit q s.ctx)
    | none => s) := rfl
theorem prims_runCbEnter (c : Cfg) : (prims c).runCbEnter = (fun oq => lift fun s => match oq with
    | some q => runEnter c s q
    | none => s) := rfl
theorem prims_sendEvents (c : Cfg) : (prims c).sendEvents = (fun kind => lift fun s =>
    if kind == "on_exit" then (match s.state with | some q => s.emit (.onExit q) | none => s)
    else sendOnEnter s) := rfl
theorem prims_sendNotrans (c : Cfg) : (prims c).sendNotrans = (fun e oq => lift fun s => match e, oq with
    | .ev n, some q => s.emit (.notrans n q)
    | _, _ => s) := rfl
theorem prims_stopTimer (c : Cfg) : (prims c).stopTimer = (lift stopTimer) := rfl
theorem prims_startTimer (c : Cfg) : (prims c).startTimer = (fun item tev => lift fun s => match s.state with
    | some q => startTimer c s q tev item
    | none => s) := rfl
theorem prims_calcOutput (c : Cfg) : (prims c).calcOutput = (fun t => match calcOutput c t.st with
    | none => (t, .error .keyError)
    | some v => (t, .ok v)) := rfl
theorem prims_setOutput (c : Cfg) : (prims c).setOutput = (fun v => lift (setOut · v)) := rfl
theorem prims_enableEvent (c : Cfg) : (prims c).enableEvent = (fun b t => { t with enabled := b }) := rfl

/-- `P` is `prims c` except that the two timer methods may be ANY implementation that does what the model's
    operations do in the states in which `_ctx_event` calls them (inside a transition of a block that has a
    state and has not failed) -- in particular the translated `_start_timer` / `_stop_timer`
    (EdzedProofs/FsmTimerTie.lean) -/
structure Agrees (c : Cfg) (P : FsmPrims TSt TEvent EvData String TEvent Val Dur ErrKind) : Prop where
  same : P.exc = (prims c).exc ∧
    P.asGoto = (prims c).asGoto ∧
    P.isStr = (prims c).isStr ∧
    P.isEvent = (prims c).isEvent ∧
    P.isMutableMapping = (prims c).isMutableMapping ∧
    P.readOnly = (prims c).readOnly ∧
    P.dataGet = (prims c).dataGet ∧
    P.isUndef = (prims c).isUndef ∧
    P.getState = (prims c).getState ∧
    P.setState = (prims c).setState ∧
    P.getNext = (prims c).getNext ∧
    P.setNext = (prims c).setNext ∧
    P.getActive = (prims c).getActive ∧
    P.setActive = (prims c).setActive ∧
    P.isInitialized = (prims c).isInitialized ∧
    P.chainLimit = (prims c).chainLimit ∧
    P.transition = (prims c).transition ∧
    P.timedEvent = (prims c).timedEvent ∧
    P.setEventData = (prims c).setEventData ∧
    P.checkState = (prims c).checkState ∧
    P.runCond = (prims c).runCond ∧
    P.runCbExit = (prims c).runCbExit ∧
    P.runCbEnter = (prims c).runCbEnter ∧
    P.sendEvents = (prims c).sendEvents ∧
    P.sendNotrans = (prims c).sendNotrans ∧
    P.calcOutput = (prims c).calcOutput ∧
    P.setOutput = (prims c).setOutput ∧
    P.enableEvent = (prims c).enableEvent
  startTimer : ∀ (item : Dur) (tev : TEvent) (t : TSt), t.active = true → t.st.failed = none →
    t.st.state.isSome = true → P.startTimer item tev t = (prims c).startTimer item tev t
  stopTimer : ∀ (t : TSt), t.st.failed = none → P.stopTimer t = (prims c).stopTimer t

theorem agrees_self (c : Cfg) : Agrees c (prims c) :=
  ⟨⟨rfl, rfl, rfl, rfl, rfl, rfl, rfl, rfl, rfl, rfl, rfl, rfl, rfl, rfl, rfl, rfl, rfl, rfl, rfl, rfl, rfl, rfl, rfl, rfl, rfl, rfl, rfl, rfl⟩, fun _ _ _ _ _ _ => rfl, fun _ _ => rfl⟩

/-- how the model reports the end of `_ctx_event`: the value returned; EdzedUnknownEvent raised by
    `_ctx_event` itself (the state is not marked) is passed on to the caller; any other exception aborts
    the simulation -/
def outcome (r : TSt × Flow ErrKind Bool) : St × Res :=
  match r.2 with
  | .ret b => (r.1.st, .ret b)
  | .raise k =>
    if k = .unknownEvent ∧ r.1.st.failed = none then (r.1.st, .unknown) else (r.1.st.fail k, .err k)
  | _ => (r.1.st, .aborted)

/-- the recursive call: `_fsm_event_active` is set -/
def outcomePost (r : TSt × Flow ErrKind Bool) : St × Bool :=
  match r.2 with
  | .ret b => (r.1.st, b)
  | .raise k => (r.1.st.fail k, false)
  | _ => (r.1.st, false)

theorem setCtx_proj (s : St) (d : EvData) :
    (setCtx s d).now = s.now ∧ (setCtx s d).state = s.state ∧ (setCtx s d).out = s.out ∧
    (setCtx s d).input = s.input ∧ (setCtx s d).gate = s.gate ∧ (setCtx s d).active = s.active ∧
    (setCtx s d).timers = s.timers ∧ (setCtx s d).nextId = s.nextId ∧ (setCtx s d).epoch = s.epoch ∧
    (setCtx s d).next = s.next ∧ (setCtx s d).stopped = s.stopped ∧ (setCtx s d).failed = s.failed ∧
    (setCtx s d).ctx = d ∧ (setCtx s d).log = s.log :=
  ⟨rfl, rfl, rfl, rfl, rfl, rfl, rfl, rfl, rfl, rfl, rfl, rfl, rfl, rfl⟩

theorem emit_proj (s : St) (x : Entry) :
    (s.emit x).now = s.now ∧ (s.emit x).state = s.state ∧ (s.emit x).out = s.out ∧
    (s.emit x).input = s.input ∧ (s.emit x).gate = s.gate ∧ (s.emit x).active = s.active ∧
    (s.emit x).timers = s.timers ∧ (s.emit x).nextId = s.nextId ∧ (s.emit x).epoch = s.epoch ∧
    (s.emit x).next = s.next ∧ (s.emit x).stopped = s.stopped ∧ (s.emit x).failed = s.failed ∧
    (s.emit x).ctx = s.ctx :=
  ⟨rfl, rfl, rfl, rfl, rfl, rfl, rfl, rfl, rfl, rfl, rfl, rfl, rfl⟩

theorem enter_proj (s : St) (q : String) :
    (s.enter q).now = s.now ∧ (s.enter q).state = some q ∧ (s.enter q).out = s.out ∧
    (s.enter q).input = s.input ∧ (s.enter q).gate = s.gate ∧ (s.enter q).active = s.active ∧
    (s.enter q).timers = s.timers ∧ (s.enter q).nextId = s.nextId ∧ (s.enter q).epoch = s.epoch + 1 ∧
    (s.enter q).next = s.next ∧ (s.enter q).stopped = s.stopped ∧ (s.enter q).failed = s.failed ∧
    (s.enter q).ctx = s.ctx ∧ (s.enter q).log = s.log :=
  ⟨rfl, rfl, rfl, rfl, rfl, rfl, rfl, rfl, rfl, rfl, rfl, rfl, rfl, rfl⟩

theorem setInput_proj (s : St) (v : Option Val) :
    (s.setInput v).now = s.now ∧ (s.setInput v).state = s.state ∧ (s.setInput v).out = s.out ∧
    (s.setInput v).input = v ∧ (s.setInput v).gate = s.gate ∧ (s.setInput v).active = s.active ∧
    (s.setInput v).timers = s.timers ∧ (s.setInput v).nextId = s.nextId ∧ (s.setInput v).epoch = s.epoch ∧
    (s.setInput v).next = s.next ∧ (s.setInput v).stopped = s.stopped ∧ (s.setInput v).failed = s.failed ∧
    (s.setInput v).ctx = s.ctx ∧ (s.setInput v).log = s.log :=
  ⟨rfl, rfl, rfl, rfl, rfl, rfl, rfl, rfl, rfl, rfl, rfl, rfl, rfl, rfl⟩

theorem setNextEv_proj (s : St) (x : Option (TEvent × EvData × String)) :
    (s.setNextEv x).now = s.now ∧ (s.setNextEv x).state = s.state ∧ (s.setNextEv x).out = s.out ∧
    (s.setNextEv x).input = s.input ∧ (s.setNextEv x).gate = s.gate ∧ (s.setNextEv x).active = s.active ∧
    (s.setNextEv x).timers = s.timers ∧ (s.setNextEv x).nextId = s.nextId ∧
    (s.setNextEv x).epoch = s.epoch ∧ (s.setNextEv x).next = x ∧ (s.setNextEv x).stopped = s.stopped ∧
    (s.setNextEv x).failed = s.failed ∧ (s.setNextEv x).ctx = s.ctx ∧ (s.setNextEv x).log = s.log :=
  ⟨rfl, rfl, rfl, rfl, rfl, rfl, rfl, rfl, rfl, rfl, rfl, rfl, rfl, rfl⟩

/-- symbolic execution of the translated program on the model primitives -/
macro "tsimp" "[" ts:Lean.Parser.Tactic.simpLemma,* "]" : tactic =>
  `(tactic| simp [Gen.TrM.seq, Gen.TrM.branch, Gen.TrM.call, Gen.TrM.assign, Gen.TrM.skip, Gen.TrM.matchOpt,
      Gen.TrM.upd, Gen.TrM.ret, Gen.TrM.raise, Gen.TrM.brk, Gen.TrM.cont, lift, TSt.map,
      prims_exc, prims_asGoto, prims_isStr, prims_isEvent, prims_isMutableMapping, prims_readOnly, prims_dataGet, prims_isUndef, prims_getState, prims_setState, prims_getNext, prims_setNext, prims_getActive, prims_setActive, prims_isInitialized, prims_chainLimit, prims_transition, prims_timedEvent, prims_setEventData, prims_checkState, prims_runCond, prims_runCbExit, prims_runCbEnter, prims_sendEvents, prims_sendNotrans, prims_stopTimer, prims_startTimer, prims_calcOutput, prims_setOutput, prims_enableEvent,
      Gen.TrM.tryFinally, Gen.TrM.forN, setCtx_proj, emit_proj, enter_proj, setNextEv_proj, excOf, $ts,*])

/-- the block inside the `try:` of `_ctx_event`: `_fsm_event_active` is set, no `_enable_event`
    context is open -/
@[reducible] def T (s : St) : TSt := ⟨s, true, false⟩

/-- the model's loop without what follows it: the state at the `break` (`true`) or at the failure -/
def loopB (c : Cfg) : Nat → St → EvData → String → St × Bool
  | 0, s, _, _ => (s.fail .circuitError, false)
  | n + 1, s, d, q =>
    let r := popNext s d q
    let s2 := enterState c r.1 r.2.1 r.2.2
    if s2.failed.isSome then (s2, false)
    else if s2.next.isSome then loopB c n s2 r.2.1 r.2.2
    else (s2, true)

theorem enterLoop_eq_loopB (c : Cfg) : ∀ (n : Nat) (s : St) (d : EvData) (q : String),
    enterLoop c n s d q =
      (match loopB c n s d q with
       | (s', true) => finish c s'
       | (s', false) => s') := by
  intro n
  induction n with
  | zero => intro s d q; simp [enterLoop, loopB]
  | succ n ih =>
    intro s d q
    unfold enterLoop loopB
    dsimp only
    split
    · rfl
    · split
      · exact ih _ _ _
      · rfl

/-- the rest of a round, after `self._state = newstate`: entry action, `continue`, timer, `continue`/`break`
    (`re` = the state after the entry action, `q` the state entered, `dur` the 'duration' item) -/
macro "round_tail" hP:ident re:term:max q:term:max dur:term:max : tactic =>
  `(tactic| (
    have hst : ($re).state = some $q := (frame_runEnter _ _ _).state
    generalize $re = s1 at hst ⊢
    cases hf1 : s1.failed with
    | some k => tsimp [($hP).same, hf1]
    | none =>
      cases hn1 : s1.next with
      | some x => tsimp [($hP).same, hf1, hn1]
      | none =>
        cases ht : (Cfg.tbl _).timedOf $q with
        | none => tsimp [($hP).same, hf1, hn1, ht]
        | some te =>
          obtain ⟨tev, dflt⟩ := te
          tsimp [($hP).same, ($hP).startTimer, hf1, hn1, ht, hst]
          generalize startTimer _ s1 $q tev $dur = s2
          cases hf2 : s2.failed with
          | some k => simp [hf2]
          | none => cases hn2 : s2.next <;> simp [hf2, hn2]))

/-- how a round of the loop may end; `continue` and reaching the end of the loop body are the same thing
    for the loop -/
def RoundEnds (s2 : St) (fl : Flow ErrKind Bool) : Prop :=
  match s2.failed with
  | some k => fl = Flow.raise k
  | none => if s2.next.isSome then (fl = Flow.cont ∨ fl = Flow.next) else fl = Flow.brk

theorem fail_of_failed (s : St) (k : ErrKind) (h : s.failed = some k) : s.fail k = s := by
  simp [St.fail, h]

theorem seq_elim {σ L X R : Type} {P : (σ × L) × Flow X R → Prop} {a b : Stmt (σ × L) X R}
    {sl sl1 : σ × L} (h : a sl = (sl1, Flow.next)) (hb : P (b sl1)) : P (seq a b sl) := by
  simp only [seq, h]; exact hb

theorem seq_stop {σ L X R : Type} {a b : Stmt (σ × L) X R} {sl sl1 : σ × L} {f : Flow X R}
    (h : a sl = (sl1, f)) (hf : f ≠ Flow.next) : seq a b sl = (sl1, f) := by
  simp only [seq, h]
  cases f <;> simp_all

theorem setOut_failed (s : St) (v : Val) : (setOut s v).failed = s.failed := by
  unfold setOut; split <;> rfl

theorem sendOnEnter_failed (s : St) : (sendOnEnter s).failed = s.failed := by
  unfold sendOnEnter; split <;> rfl

theorem setOut_undef (s : St) (v : Val) (h : v.isUndef = true) : setOut s v = s := by
  simp [setOut, h]

/-- the result of an executed transition -/
def resOf (s2 : St) : St × Res :=
  match s2.failed with
  | some k => (s2, .err k)
  | none => (s2, .ret true)

theorem ctxEvent_target {c : Cfg} {s s1 : St} {e : TEvent} {d : EvData} {q : String}
    (h : resolve c (setCtx s d) e d = (s1, .target q)) :
    FsmTimer.ctxEvent c s e d = resOf (enterLoop c c.tbl.chainLimit (leave s1) d q) := by
  unfold FsmTimer.ctxEvent
  rw [h]
  rfl

end Edzed.TrTie
