/-
Translation tie of C12: the programs generated from the current source of `OutputAsync` and
`utils.shield_cancel` (EdzedModel/Gen/TranslatedOutputAsync.lean) run on primitives that are
instantiated with the operations of the model EdzedModel/OutputAsync.lean.
-/
import EdzedModel.OutputAsync
import EdzedProofs.OutputAsync
import EdzedModel.Gen.TranslatedOutputAsync

namespace Edzed.TrTie
open Edzed.OutputAsync Edzed.Gen.TrD Edzed.Gen.TrOA

/-! ### `utils.shield_cancel` -/
section shield
open Edzed.OutputAsync.Shield
variable {ε ν : Type}

/-- the awaiting side of `shield_cancel`: what the remaining awaits will yield, and whether the inner task
    was done when the last exception arrived -/
structure ShSt (ε ν : Type) where
  script : List (Step ε ν)
  innerDone : Bool

/-- the primitives of `shield_cancel` driven by a script; an exception carries "is a CancelledError" -/
def shieldP : ShieldPrims (ShSt ε ν) (ε × Bool) Unit Unit ν where
  ensureFuture _ := M.pure ()
  awaitShield _ := fun s =>
    match s.script with
    | [] => (s, .diverged)
    | .done v :: r => (⟨r, true⟩, .next v)
    | .cancelPending e :: r => (⟨r, false⟩, .raise (e, true))
    | .cancelDone e :: r => (⟨r, true⟩, .raise (e, true))
    | .fail e :: r => (⟨r, true⟩, .raise (e, false))
  taskDone _ s := s.innerDone
  excIs x cls := cls == "asyncio.CancelledError" && x.2

/-- how the outcome of the translated program reads as a result of the model -/
def shieldOut : Out (ε × Bool) (Option ν) Unit → Option (Except ε ν)
  | .ret (some v) => some (.ok v)
  | .raise x => some (.error x.1)
  | _ => none

/-- the statements after the loop -/
def shieldTail (rc : Option ν × Option (ε × Bool)) : M (ShSt ε ν) (ε × Bool) (Option ν) Unit :=
  M.bind (
    match rc.2 with
    | none => M.pure ()
    | some cancel_exc =>
      M.bind (M.tryFinally (M.raise (cancel_exc)) (M.pure ())) fun (_ : Unit) => M.pure ()
  ) fun (_ : Unit) => M.ret (rc.1)

theorem shield_loop_model (script : List (Step ε ν)) (ce : Option (ε × Bool)) (rv : Option ν) (d : Bool)
    (fuel : Nat) (h : script.length < fuel) :
    shieldOut ((M.bind (shield_cancel_loop1 shieldP () fuel rv ce) shieldTail ⟨script, d⟩).2)
      = shieldCancel script (ce.map Prod.fst) := by
  induction script generalizing ce rv d fuel with
  | nil =>
    cases fuel with
    | zero => omega
    | succ n =>
      simp [shield_cancel_loop1, shield_cancel_iter1, tryExceptElse, shieldP, M.bind, shieldCancel, shieldOut]
  | cons st rest ih =>
    cases fuel with
    | zero => omega
    | succ n =>
      have hn : rest.length < n := by simp at h; omega
      cases st with
      | done v =>
        cases ce with
        | none =>
          simp [shield_cancel_loop1, shield_cancel_iter1, tryExceptElse, shieldP, M.bind, M.pure, M.ret,
            shieldTail, shieldCancel, shieldOut]
        | some x =>
          simp [shield_cancel_loop1, shield_cancel_iter1, tryExceptElse, shieldP, M.bind, M.pure, M.ret, M.raise,
            M.tryFinally, shieldTail, shieldCancel, shieldOut]
      | cancelPending e =>
        have := ih (some (e, true)) rv false n hn
        simp only [Option.map] at this
        simp only [shieldCancel]
        rw [← this]
        simp [shield_cancel_loop1, shield_cancel_iter1, tryExceptElse, shieldP, M.bind, M.pure, M.get]
      | cancelDone e =>
        simp [shield_cancel_loop1, shield_cancel_iter1, tryExceptElse, shieldP, M.bind, M.pure, M.get, M.raise,
          shieldCancel, shieldOut]
      | fail e =>
        simp [shield_cancel_loop1, shield_cancel_iter1, tryExceptElse, shieldP, M.bind, M.pure, M.get, M.raise,
          shieldCancel, shieldOut]

theorem shield_cancel_unfold (fuel : Nat) :
    shield_cancel (shieldP (ε := ε) (ν := ν)) fuel ()
      = M.bind (shield_cancel_loop1 shieldP () fuel none none) shieldTail := by
  funext s
  simp only [shield_cancel, M.bind, shieldP, M.pure]
  split
  · next s1 rc hh => obtain ⟨rv, ce⟩ := rc; cases ce <;> rfl
  · rfl
  · rfl
  · rfl

end shield

end Edzed.TrTie
