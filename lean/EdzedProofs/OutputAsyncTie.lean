/-
Translation tie of C12: the programs generated from the current source of `OutputAsync` and
`utils.shield_cancel` (EdzedModel/Gen/TranslatedOutputAsync.lean) run on primitives that are
instantiated with the operations of the model EdzedModel/OutputAsync.lean.
-/
import EdzedModel.OutputAsync
import EdzedProofs.OutputAsync
import EdzedModel.Gen.TranslatedOutputAsync

/- helpers live in `Edzed.TrTie.OA` (the theorems of the property file are in `Edzed.TrTie`) -/
namespace Edzed.TrTie.OA
open Edzed.OutputAsync Edzed.Gen.TrD Edzed.Gen.TrOA

/-! ### `utils.shield_cancel` -/
section shield
open Edzed.OutputAsync.Shield
variable {ε ν : Type}

/-- the awaiting side of `shield_cancel`: what the remaining awaits will yield, and whether the inner task
    was done when the last exception arrived -/
structure ShSt (ε ν : Type) where
  script : List (Step ε ν)
  innerDone : Bool

/-- the primitives of `shield_cancel` driven by a script; an exception carries "is a CancelledError" -/
def shieldP : ShieldPrims (ShSt ε ν) (ε × Bool) Unit Unit ν where
  ensureFuture _ := M.pure ()
  awaitShield _ := fun s =>
    match s.script with
    | [] => (s, .diverged)
    | .done v :: r => (⟨r, true⟩, .next v)
    | .cancelPending e :: r => (⟨r, false⟩, .raise (e, true))
    | .cancelDone e :: r => (⟨r, true⟩, .raise (e, true))
    | .fail e :: r => (⟨r, true⟩, .raise (e, false))
  taskDone _ s := s.innerDone
  excIs x cls := cls == "asyncio.CancelledError" && x.2

/-- how the outcome of the translated program reads as a result of the model -/
def shieldOut : Out (ε × Bool) (Option ν) Unit → Option (Except ε ν)
  | .ret (some v) => some (.ok v)
  | .raise x => some (.error x.1)
  | _ => none

/-- the statements after the loop -/
def shieldTail (rc : Option ν × Option (ε × Bool)) : M (ShSt ε ν) (ε × Bool) (Option ν) Unit :=
  M.bind (
    match rc.2 with
    | none => M.pure ()
    | some cancel_exc =>
      M.bind (M.tryFinally (M.raise (cancel_exc)) (M.pure ())) fun (_ : Unit) => M.pure ()
  ) fun (_ : Unit) => M.ret (rc.1)

theorem shield_loop_model (script : List (Step ε ν)) (ce : Option (ε × Bool)) (rv : Option ν) (d : Bool)
    (fuel : Nat) (h : script.length < fuel) :
    shieldOut ((M.bind (shield_cancel_loop1 shieldP () fuel rv ce) shieldTail ⟨script, d⟩).2)
      = shieldCancel script (ce.map Prod.fst) := by
  induction script generalizing ce rv d fuel with
  | nil =>
    cases fuel with
    | zero => omega
    | succ n =>
      simp [shield_cancel_loop1, shield_cancel_iter1, tryExceptElse, shieldP, M.bind, shieldCancel, shieldOut]
  | cons st rest ih =>
    cases fuel with
    | zero => omega
    | succ n =>
      have hn : rest.length < n := by simp at h; omega
      cases st with
      | done v =>
        cases ce with
        | none =>
          simp [shield_cancel_loop1, shield_cancel_iter1, tryExceptElse, shieldP, M.bind, M.pure, M.ret,
            shieldTail, shieldCancel, shieldOut]
        | some x =>
          simp [shield_cancel_loop1, shield_cancel_iter1, tryExceptElse, shieldP, M.bind, M.pure, M.ret, M.raise,
            M.tryFinally, shieldTail, shieldCancel, shieldOut]
      | cancelPending e =>
        have := ih (some (e, true)) rv false n hn
        simp only [Option.map] at this
        simp only [shieldCancel]
        rw [← this]
        simp [shield_cancel_loop1, shield_cancel_iter1, tryExceptElse, shieldP, M.bind, M.pure, M.get]
      | cancelDone e =>
        simp [shield_cancel_loop1, shield_cancel_iter1, tryExceptElse, shieldP, M.bind, M.pure, M.get, M.raise,
          shieldCancel, shieldOut]
      | fail e =>
        simp [shield_cancel_loop1, shield_cancel_iter1, tryExceptElse, shieldP, M.bind, M.pure, M.get, M.raise,
          shieldCancel, shieldOut]

theorem shield_cancel_unfold (fuel : Nat) :
    shield_cancel (shieldP (ε := ε) (ν := ν)) fuel ()
      = M.bind (shield_cancel_loop1 shieldP () fuel none none) shieldTail := by
  funext s
  simp only [shield_cancel, M.bind, shieldP, M.pure]
  split
  · next s1 rc hh => obtain ⟨rv, ce⟩ := rc; cases ce <;> rfl
  · rfl
  · rfl
  · rfl

end shield

/-! ### the primitives of `OutputAsync` as operations of the model -/

/-- the exceptions the methods distinguish -/
inductive Exc where
  | cancelled     -- asyncio.CancelledError (a BaseException)
  | error         -- an exception of the user's coroutine (an Exception)
  | other         -- anything else that the model does not have (e.g. `None` passed where data is expected)
  deriving DecidableEq, Repr

def excIs (e : Exc) (cls : String) : Bool :=
  if cls == "asyncio.CancelledError" then e == .cancelled
  else if cls == "Exception" then e != .cancelled
  else false

/-- the three event lists of the block; each has one destination here, and an event of the wrong kind sent
    to a list is an error of the tie (`Exc.other`) -/
inductive Dest where
  | onCancel | onError | onSuccess
  deriving DecidableEq, Repr

/-- `stop()` has queued the sentinel; the model also arms the stop_timeout clock here (the simulator
    starts it right after the `stop()` calls) -/
def markStopped (c : Cfg) (s : State) : State :=
  { s with stopped := true, deadline := some (s.now + c.stopTimeout), stopAt := some s.now }

/-- `_event_put` / `stop` / `stop_async`; `W` = whatever happens while `stop_async` awaits the control task -/
def stopP (c : Cfg) (W : State → State) : StopPrims State Exc Item where
  putNowait
    | some x => M.modify fun s => if s.stopped then acceptLate s x else accept s x
    | none => M.modify (markStopped c)
  hasStopData := c.stopData.isSome
  ctrlIsStart := c.mode == Mode.start
  eventPutStopData :=
    match c.stopData with
    | some d => M.modify fun s => if s.stopped then acceptLate s d else accept s d
    | none => M.pure ()
  superStop := M.pure ()
  awaitCtrlTask := M.modify W
  excIs := excIs
  runWrapperStopData := M.modify fun s =>
    match s.sdPending with
    | some j => startRun { s with sdPending := none } j
    | none => s
  superStopAsync := M.pure ()

/-- `task.cancel()` on the output task of job `j` -/
def cancelJob (c : Cfg) (j : Job) (s : State) : State :=
  match s.runs with
  | r :: rest => if r.job = j ∧ r.coro = true then cancelCur c s r rest else s
  | [] => s

/-- the control tasks.  Tasks are named by their job; `W` = whatever happens while the controller awaits
    (`await task`, `await self._output_coro_wrapper(data)`): time passes, the run comes to its end, puts
    arrive, the block is stopped ... -- the theorems hold for EVERY such `W`.
    `queue.get()` on an empty queue of a block that is not stopped never returns (`diverge`). -/
def ctrlP (c : Cfg) (W : State → State) : CtrlPrims State Exc Job Job Dest where
  queueGet := fun s =>
    match s.queue with
    | j :: q => ({ s with queue := q }, .next (some j))
    | [] => if s.stopped then (s, .next none) else (s, .diverged)
  queueEmpty s := s.queue.isEmpty && !s.stopped
  queueGetNowait := fun s =>
    match s.queue with
    | j :: q => ({ s with queue := q }, .next (some j))
    | [] => if s.stopped then (s, .next none) else (s, .raise .other)
  taskDone j s := !(s.runs.any fun r => r.job == j)
  taskCancel j := M.modify (cancelJob c j)
  awaitTask _ := M.modify W
  createTask
    | some j => fun s => (startRun s j, .next j)
    | none => M.raise .other
  sendCancel d
    | some j => if d = .onCancel then M.modify fun s => emit s (.canc j) else M.raise .other
    | none => M.raise .other
  runWrapper
    | some j => M.modify fun s => W (startRun s j)
    | none => M.raise .other
  spawn
    | some j => M.modify fun s => startRun s j
    | none => M.raise .other
  tasksNonEmpty s := !s.runs.isEmpty
  dataTruthy j := !j.data.empty
  gatherTasks := M.modify W

/-- the item the controller holds is still "queued first" for the model -/
def requeue (j : Job) (s : State) : State := { s with queue := j :: s.queue }

theorem discards_queue_set (s : State) (j : Job) (q q' : List Job) :
    discards { s with queue := q' } j q = { discards s j q with queue := q' } := by
  induction q generalizing s j with
  | nil => rfl
  | cons k q ih => simp only [discards]; rw [← ih]; rfl

@[simp] theorem ctrlP_queueEmpty (c : Cfg) (W : State → State) (s : State) :
    (ctrlP c W).queueEmpty s = (s.queue.isEmpty && !s.stopped) := rfl

theorem ctrlP_getNowait_cons (c : Cfg) (W : State → State) (s : State) (k : Job) (q : List Job)
    (h : s.queue = k :: q) : (ctrlP c W).queueGetNowait s = ({ s with queue := q }, .next (some k)) := by
  simp [ctrlP, h]

theorem ctrlP_getNowait_sentinel (c : Cfg) (W : State → State) (s : State)
    (h : s.queue = []) (hs : s.stopped = true) : (ctrlP c W).queueGetNowait s = (s, .next none) := by
  simp [ctrlP, h, hs]

theorem ctrlP_get_cons (c : Cfg) (W : State → State) (s : State) (k : Job) (q : List Job)
    (h : s.queue = k :: q) : (ctrlP c W).queueGet s = ({ s with queue := q }, .next (some k)) := by
  simp [ctrlP, h]

theorem ctrlP_get_sentinel (c : Cfg) (W : State → State) (s : State)
    (h : s.queue = []) (hs : s.stopped = true) : (ctrlP c W).queueGet s = (s, .next none) := by
  simp [ctrlP, h, hs]

/-- the on_cancel events of one discarded item (one destination) -/
theorem cancel_for_single (c : Cfg) (W : State → State) (s : State) (j : Job) :
    ctrl_cancel_for3 (ctrlP c W) [.onCancel] (some j) [.onCancel] s = (emit s (.canc j), .next ()) := by
  simp [ctrl_cancel_for3, ctrlP, M.bind, M.modify, M.pure]

/-- the drain loop of `_ctrl_cancel`: everything queued is taken out, each item discards the one before it
    (reported through on_cancel), the sentinel ends the loop with `stop = True` -/
theorem cancel_drain_loop (c : Cfg) (W : State → State) (s : State) (j : Job) (q : List Job) (fuel : Nat)
    (hq : s.queue = q) (hf : q.length < fuel) :
    ctrl_cancel_loop2 (ctrlP c W) [.onCancel] () fuel false (some j) s
      = ({ discards s j q with queue := [] }, .next (s.stopped, some (lastJob j q))) := by
  induction q generalizing s j fuel with
  | nil =>
    cases fuel with
    | zero => omega
    | succ n =>
      cases hst : s.stopped with
      | false =>
        simp [ctrl_cancel_loop2, ctrl_cancel_iter2, M.bind, M.get, M.pure, hq, hst, discards, lastJob]
        cases s; simp_all
      | true =>
        simp [ctrl_cancel_loop2, ctrl_cancel_iter2, M.bind, M.get, M.pure, hq, hst, discards, lastJob,
          ctrlP_getNowait_sentinel c W s hq hst]
        cases s; simp_all
  | cons k q ih =>
    cases fuel with
    | zero => simp at hf
    | succ n =>
      have h2 := ih (emit { s with queue := q } (.canc j)) k n rfl (by simp at hf; omega)
      rw [ctrl_cancel_loop2]
      simp only [ctrl_cancel_iter2, M.bind, M.get, ctrlP_queueEmpty, hq, List.isEmpty_cons, Bool.false_and,
        Bool.not_false, if_true, ctrlP_getNowait_cons c W s k q hq, Option.isNone_some, Bool.false_eq_true,
        if_false, cancel_for_single, M.pure]
      rw [h2]
      simp only [discards, lastJob]
      have := discards_queue_set (emit s (.canc j)) k q q
      have e1 : emit { s with queue := q } (.canc j) = { emit s (.canc j) with queue := q } := rfl
      rw [e1, this]
      rfl

/-- the part of one `_ctrl_cancel` iteration after the task has been dealt with: drain, start the last -/
theorem cancel_tail (c : Cfg) (W : State → State) (hm : c.mode = Mode.cancel) (s2 : State) (j : Job)
    (fuel : Nat) (hr : s2.runs = []) (hf : s2.queue.length < fuel) :
    (M.bind (ctrl_cancel_loop2 (ctrlP c W) [.onCancel] () fuel false (some j)) fun (stop, data) =>
      M.bind ((ctrlP c W).createTask data) fun task_ =>
      M.pure (LoopCtl.next, (data, stop, (some task_)))) s2
    = (settle c (requeue j s2),
       .next (LoopCtl.next, (some (lastJob j s2.queue), s2.stopped, some (lastJob j s2.queue)))) := by
  have e : ({ discards s2 j s2.queue with queue := [] } : State) = discards { s2 with queue := [] } j s2.queue :=
    (discards_queue_set s2 j s2.queue []).symm
  simp only [M.bind, cancel_drain_loop c W s2 j s2.queue fuel rfl hf, e]
  have hset : settle c (requeue j s2) = startRun (discards { s2 with queue := [] } j s2.queue) (lastJob j s2.queue) := by
    unfold settle requeue
    simp only [hm, hr]
    rw [drain_eq]
  rw [hset]
  rfl

/-- `task.cancel()` on the running output task is the cancellation part of the model's controller step -/
theorem cancelJob_is_settle (c : Cfg) (hm : c.mode = Mode.cancel) (s : State) (r : Run) (rest : List Run)
    (j : Job) (q : List Job) (hr : s.runs = r :: rest) (hq : s.queue = j :: q) :
    cancelJob c r.job { s with queue := q } = { settle c s with queue := q } := by
  unfold settle cancelJob
  simp only [hm, hq, hr]
  by_cases hc : r.coro = true
  · simp [hc, cancelCur, emit]
  · simp [hc, hr]

/-- the loop of `_ctrl_start` over everything queued before the sentinel -/
theorem start_loop (c : Cfg) (W : State → State) (s : State) (q : List Job) (data : Option Job) (fuel : Nat)
    (hq : s.queue = q) (hs : s.stopped = true) (hf : q.length < fuel) :
    ctrl_start_loop1 (ctrlP c W) [.onCancel] () fuel data s
      = (startAll { s with queue := [] } q, .next none) := by
  induction q generalizing s data fuel with
  | nil =>
    cases fuel with
    | zero => omega
    | succ n =>
      rw [ctrl_start_loop1]
      simp only [ctrl_start_iter1, M.bind, ctrlP_get_sentinel c W s hq hs, Option.isNone_none, if_true, M.pure,
        startAll]
      cases s; simp_all
  | cons k q ih =>
    cases fuel with
    | zero => simp at hf
    | succ n =>
      have h2 := ih (startRun { s with queue := q } k) (some k) n rfl hs (by simp at hf; omega)
      rw [ctrl_start_loop1]
      simp only [ctrl_start_iter1, M.bind, ctrlP_get_cons c W s k q hq, Option.isNone_some, Bool.false_eq_true,
        if_false, M.pure]
      have hsp : (ctrlP c W).spawn (some k) { s with queue := q } = (startRun { s with queue := q } k, .next ()) := rfl
      simp only [hsp]
      rw [h2]
      rfl

/-! ### one run: `_output_coro_wrapper` / `_output_coro` -/

/-- what the awaited user coroutine does (the script of the model: it sleeps until `t`, then returns or
    raises according to the job's data -- or a cancellation is delivered inside it at `t`) -/
inductive Outcome where
  | ends (t : Nat)
  | cancelledAt (t : Nat)

/-- `self.set_output(self.output + d)` -/
def addOut (d : Int) (s : State) : State :=
  emit { s with output := (s.output + d).toNat } (.out (s.output + d).toNat)

/-- the shielded guard sleep: time passes, cancellations do not shorten it (`shield_cancel` is tied above) -/
def sleepGuard (c : Cfg) (s : State) : State := { s with now := s.now + c.guard }

/-- the leaves of `_output_coro` (which does not await itself) -/
def runP0 (c : Cfg) (oc : Outcome) : RunPrims State Exc Job Unit Dest where
  awaitCoro j := fun s =>
    let s0 := emit s (.start j)
    match oc with
    | .ends t =>
      let s1 := emit { s0 with now := max s0.now t } (.done j)
      if j.data.fail then (s1, .raise .error) else (s1, .next ())
    | .cancelledAt t => (emit { s0 with now := max s0.now t } (.cancelled j), .raise .cancelled)
  excIs := excIs
  guardPositive := decide (0 < c.guard)
  shieldedGuardSleep := M.modify (sleepGuard c)
  sendCancel d j := if d = .onCancel then M.modify fun s => emit s (.canc j) else M.raise .other
  sendError d _ j := if d = .onError then M.modify fun s => emit s (.err j) else M.raise .other
  sendSuccess d _ j := if d = .onSuccess then M.modify fun s => emit s (.succ j) else M.raise .other
  addOutput d := M.modify (addOut d)
  runCoro _ := M.pure ()

/-- for the wrapper, `await self._output_coro(data)` is the translated `_output_coro` itself -/
def runP (c : Cfg) (oc : Outcome) : RunPrims State Exc Job Unit Dest :=
  { runP0 c oc with runCoro := fun j => output_coro (runP0 c oc) [.onCancel] [.onError] [.onSuccess] j }

/-- the guard sleep is taken iff guard_time > 0 -/
def guardPart (c : Cfg) (s : State) : State := if 0 < c.guard then sleepGuard c s else s

/-- the wrapper with an arbitrary `_output_coro` (any program: it may raise, e.g. be cancelled) -/
def runPwith (c : Cfg) (oc : Outcome) (body : Job → M State Exc Unit Unit) : RunPrims State Exc Job Unit Dest :=
  { runP0 c oc with runCoro := body }

end Edzed.TrTie.OA
