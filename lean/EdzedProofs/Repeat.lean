/-
Helper lemmas for the Repeat model (C18): dictionary updates, the closed form of `advance`,
invariants of operation sequences, delivery along a chain.
-/
import EdzedModel.Repeat

namespace Edzed

namespace Data

theorem find_map_aux (d : Data) (k : String) (v : Val) (k' : String) :
    ((d.map (fun p => if p.1 == k then (k, v) else p)).find? (·.1 == k')).map (·.2) =
      if k' = k then (if d.any (·.1 == k) then some v else none)
      else (d.find? (·.1 == k')).map (·.2) := by
  induction d with
  | nil => simp
  | cons p d ih =>
    simp only [List.map_cons, List.find?_cons, List.any_cons]
    by_cases hp : p.1 = k
    · have h1 : (p.1 == k) = true := by simpa using hp
      by_cases h : k' = k
      · subst h; simp [h1]
      · have hk : (k == k') = false := by simpa using fun e => h e.symm
        have hpk : (p.1 == k') = false := by rw [hp]; exact hk
        simp only [h1, if_true, hk, hpk, if_neg h] at ih ⊢
        exact ih
    · have h1 : (p.1 == k) = false := by simpa using hp
      simp only [h1, Bool.false_or]
      cases hq : (p.1 == k')
      · simpa [hq] using ih
      · have : k' ≠ k := by
          intro e; subst e; simp [hq] at h1
        simp only [hq, if_neg this, Bool.false_eq_true, if_false, Option.map_some]

theorem get?_set (d : Data) (k : String) (v : Val) (k' : String) :
    (Data.set d k v).get? k' = if k' = k then some v else d.get? k' := by
  unfold Data.set Data.get?
  by_cases ha : d.any (·.1 == k) = true
  · rw [if_pos ha, find_map_aux]; simp [ha]
  · rw [if_neg ha]
    have hn : ∀ p ∈ d, (p.1 == k) = false := by
      intro p hp
      cases hq : (p.1 == k)
      · rfl
      · exact absurd (List.any_eq_true.mpr ⟨p, hp, hq⟩) ha
    by_cases h : k' = k
    · subst h
      have : d.find? (·.1 == k') = none := by
        apply List.find?_eq_none.mpr
        intro p hp; simp [hn p hp]
      simp [List.find?_append, this]
    · have hk : (k == k') = false := by simpa using fun e => h e.symm
      simp [List.find?_append, h, hk]
end Data

end Edzed

namespace Edzed.Repeat

/-- the `k`-th (0-based) send of a pending event, counting from its next deadline -/
def nthSend (c : Cfg) (p : Pending) (k : Nat) : Sent :=
  ⟨p.deadline + k * c.interval, c.etype, p.rep + (k + 1), outData c p.data (p.rep + (k + 1)), .ok⟩

def sends (c : Cfg) (p : Pending) (n : Nat) : List Sent := (List.range n).map (nthSend c p)

/-- the pending event after `n` timeouts -/
def Pending.shift (c : Cfg) (p : Pending) (n : Nat) : Pending :=
  ⟨p.data, p.rep + n, p.deadline + n * c.interval⟩

/-- the state after `n ≥ 1` timeouts of the pending event `p` -/
def after (c : Cfg) (s : State) (p : Pending) (n : Nat) : State :=
  if n = 0 then s else
  { s with out := p.rep + n,
           cur := if !s.stopped && repeating c (p.rep + n) then some (p.shift c n) else none }

theorem nthSend_succ (c : Cfg) (p : Pending) (k : Nat) :
    nthSend c p (k + 1) = nthSend c (p.shift c 1) k := by
  simp only [nthSend, Pending.shift, Nat.one_mul]
  rw [Nat.succ_mul]
  have h1 : p.deadline + (k * c.interval + c.interval) = p.deadline + c.interval + k * c.interval := by omega
  have h2 : p.rep + (k + 1 + 1) = p.rep + 1 + (k + 1) := by omega
  rw [h1, h2]

theorem sends_succ (c : Cfg) (p : Pending) (n : Nat) :
    sends c p (n + 1) = nthSend c p 0 :: sends c (p.shift c 1) n := by
  simp only [sends, List.range_succ_eq_map, List.map_cons, List.map_map]
  congr 1
  apply List.map_congr_left
  intro k _
  exact nthSend_succ c p k

theorem shift_shift (c : Cfg) (p : Pending) (n : Nat) :
    (p.shift c 1).shift c n = p.shift c (n + 1) := by
  simp only [Pending.shift, Nat.one_mul]
  rw [Nat.succ_mul]
  have h1 : p.deadline + c.interval + n * c.interval = p.deadline + (n * c.interval + c.interval) := by omega
  have h2 : p.rep + 1 + n = p.rep + (n + 1) := by omega
  rw [h1, h2]

/-! ### facts about one timeout, whatever the destination answers -/

theorem fire_snd (c : Cfg) (s : State) (p : Pending) :
    (fire c s p).2 = ⟨p.deadline, c.etype, p.rep + 1, outData c p.data (p.rep + 1), s.answer⟩ := by
  unfold fire; split <;> rfl

theorem fire_out (c : Cfg) (s : State) (p : Pending) : (fire c s p).1.out = p.rep + 1 := by
  unfold fire; split <;> rfl

theorem fire_resp (c : Cfg) (s : State) (p : Pending) : (fire c s p).1.resp = s.resp.tail := by
  unfold fire; split <;> rfl

theorem fire_cur_data (c : Cfg) (s : State) (p q : Pending) (h : (fire c s p).1.cur = some q) :
    q.data = p.data := by
  unfold fire at h
  split at h
  · simp only at h
    split at h
    · cases h; rfl
    · cases h
  · cases h

/-- a refused repetition ends the simulation -/
theorem fire_refused (c : Cfg) (s : State) (p : Pending) (h : s.answer ≠ .ok) :
    (fire c s p).1.stopped = true ∧ (fire c s p).1.cur = none := by
  unfold fire
  split
  · next e => exact absurd e h
  · exact ⟨rfl, rfl⟩

theorem answer_acc (s : State) (h : s.resp = []) : s.answer = .ok := by
  simp [State.answer, h]

/-- with an accepting destination -/
theorem fire_eq (c : Cfg) (s : State) (p : Pending) (h : s.resp = []) :
    fire c s p = (after c s p 1, nthSend c p 0) := by
  have ha := answer_acc s h
  unfold fire
  rw [ha]
  simp [after, nthSend, Pending.shift, h]

theorem after_stopped (c : Cfg) (s : State) (p : Pending) (n : Nat) :
    (after c s p n).stopped = s.stopped := by
  unfold after; split <;> rfl

theorem after_resp (c : Cfg) (s : State) (p : Pending) (n : Nat) : (after c s p n).resp = s.resp := by
  unfold after; split <;> rfl

theorem advanceFuel_spec (c : Cfg) (t : Nat) :
    ∀ (n fuel : Nat) (s : State) (p : Pending), s.resp = [] → s.stopped = false → s.cur = some p → n ≤ fuel →
      (∀ k, k < n → p.deadline + k * c.interval ≤ t) →
      (∀ k, 1 ≤ k → k < n → repeating c (p.rep + k) = true) →
      ((0 < n ∧ repeating c (p.rep + n) = false) ∨ t < p.deadline + n * c.interval) →
      advanceFuel c fuel s t = (after c s p n, sends c p n) := by
  intro n
  induction n with
  | zero =>
    intro fuel s p _ _ hs _ _ _ hstop
    have hlt : t < p.deadline := by
      rcases hstop with h | h
      · exact absurd h.1 (Nat.lt_irrefl 0)
      · simpa using h
    cases fuel with
    | zero => simp [advanceFuel, after, sends]
    | succ f =>
      simp only [advanceFuel, hs]
      rw [if_neg (by omega)]
      simp [after, sends]
  | succ n ih =>
    intro fuel s p hacc hrun hs hfuel htime hrep hstop
    cases fuel with
    | zero => omega
    | succ f =>
      have h0 : p.deadline ≤ t := by simpa using htime 0 (by omega)
      simp only [advanceFuel, hs]
      rw [if_pos h0, fire_eq c s p hacc, sends_succ]
      by_cases hr : repeating c (p.rep + 1) = true
      · -- still repeating: the induction hypothesis applies to the shifted event
        have hcur : (after c s p 1).cur = some (p.shift c 1) := by simp [after, hr, hrun]
        have := ih f (after c s p 1) (p.shift c 1) (by rw [after_resp]; exact hacc)
          (by rw [after_stopped]; exact hrun) hcur (by omega)
          (by
            intro k hk
            have := htime (k + 1) (by omega)
            simp only [Pending.shift, Nat.one_mul]
            rw [Nat.succ_mul] at this; omega)
          (by
            intro k hk1 hk
            have := hrep (k + 1) (by omega) (by omega)
            simp only [Pending.shift]
            rw [show p.rep + 1 + k = p.rep + (k + 1) by omega]; exact this)
          (by
            rcases hstop with h | h
            · by_cases hn : n = 0
              · subst hn; simp [hr] at h
              · left; refine ⟨by omega, ?_⟩
                simp only [Pending.shift]
                rw [show p.rep + 1 + n = p.rep + (n + 1) by omega]; exact h.2
            · right
              simp only [Pending.shift, Nat.one_mul]
              rw [Nat.succ_mul] at h; omega)
        rw [this]
        congr 1
        by_cases hn : n = 0
        · subst hn; simp [after]
        · simp only [after, hn, if_false, Nat.succ_ne_zero, shift_shift]
          simp only [Pending.shift, show p.rep + 1 + n = p.rep + (n + 1) by omega]
      · -- the count is exhausted by this timeout
        have hr' : repeating c (p.rep + 1) = false := by simpa using hr
        have hn : n = 0 := by
          by_cases hn : n = 0
          · exact hn
          · have := hrep 1 (by omega) (by omega); rw [this] at hr'; cases hr'
        subst hn
        have hcur : (after c s p 1).cur = none := by simp [after, hr']
        cases f with
        | zero => simp [advanceFuel, sends]
        | succ f => simp [advanceFuel, hcur, sends]



/-! ### further facts about `advance` -/

theorem advanceFuel_none (c : Cfg) (fuel : Nat) (s : State) (t : Nat) (h : s.cur = none) :
    advanceFuel c fuel s t = (s, []) := by
  cases fuel <;> simp [advanceFuel, h]

theorem advance_none (c : Cfg) (s : State) (t : Nat) (h : s.cur = none) : advance c s t = (s, []) :=
  advanceFuel_none c _ s t h

/-- with an accepting destination time alone never stops the block, and the destination stays accepting -/
theorem advanceFuel_acc (c : Cfg) (t : Nat) : ∀ (fuel : Nat) (s : State), s.resp = [] →
    (advanceFuel c fuel s t).1.stopped = s.stopped ∧ (advanceFuel c fuel s t).1.resp = [] := by
  intro fuel
  induction fuel with
  | zero => intro s h; exact ⟨rfl, h⟩
  | succ f ih =>
    intro s h
    simp only [advanceFuel]
    split
    · exact ⟨rfl, h⟩
    · next p hp =>
      split
      · rw [fire_eq c s p h]
        have := ih (after c s p 1) (by rw [after_resp]; exact h)
        rw [after_stopped] at this
        exact this
      · exact ⟨rfl, h⟩

theorem advance_stopped (c : Cfg) (s : State) (t : Nat) (h : s.resp = []) :
    (advance c s t).1.stopped = s.stopped :=
  (advanceFuel_acc c t _ s h).1

theorem advance_resp (c : Cfg) (s : State) (t : Nat) (h : s.resp = []) : (advance c s t).1.resp = [] :=
  (advanceFuel_acc c t _ s h).2

/-- nothing is sent with a time stamp beyond the horizon -/
theorem advanceFuel_times (c : Cfg) (t : Nat) : ∀ (fuel : Nat) (s : State),
    ∀ x ∈ (advanceFuel c fuel s t).2, x.t ≤ t := by
  intro fuel
  induction fuel with
  | zero => intro s x hx; simp [advanceFuel] at hx
  | succ f ih =>
    intro s x hx
    simp only [advanceFuel] at hx
    split at hx
    · simp at hx
    · next p hp =>
      split at hx
      · next hd =>
        simp only [List.mem_cons] at hx
        rcases hx with h | h
        · subst h; rw [fire_snd]; exact hd
        · exact ih _ x h
      · simp at hx

theorem advanceFuel_etype (c : Cfg) (t : Nat) : ∀ (fuel : Nat) (s : State),
    ∀ x ∈ (advanceFuel c fuel s t).2, x.etype = c.etype := by
  intro fuel
  induction fuel with
  | zero => intro s x hx; simp [advanceFuel] at hx
  | succ f ih =>
    intro s x hx
    simp only [advanceFuel] at hx
    split at hx
    · simp at hx
    · split at hx
      · simp only [List.mem_cons] at hx
        rcases hx with h | h
        · subst h; rw [fire_snd]
        · exact ih _ x h
      · simp at hx

/-- `Repeat.output` after time has passed = the number of the last repetition sent -/
def lastRep (xs : List Sent) (d : Nat) : Nat := xs.foldl (fun _ x => x.rep) d

theorem lastRep_append (xs ys : List Sent) (d : Nat) :
    lastRep (xs ++ ys) d = lastRep ys (lastRep xs d) := by
  simp [lastRep, List.foldl_append]

theorem lastRep_eq_getLast (xs : List Sent) (d : Nat) :
    lastRep xs d = (xs.getLast?.map (·.rep)).getD d := by
  induction xs generalizing d with
  | nil => rfl
  | cons x xs ih =>
    simp only [lastRep, List.foldl_cons] at ih ⊢
    rw [ih, List.getLast?_cons]
    cases xs.getLast? <;> simp

theorem advanceFuel_out (c : Cfg) (t : Nat) : ∀ (fuel : Nat) (s : State),
    (advanceFuel c fuel s t).1.out = lastRep (advanceFuel c fuel s t).2 s.out := by
  intro fuel
  induction fuel with
  | zero => intro s; rfl
  | succ f ih =>
    intro s
    simp only [advanceFuel]
    split
    · rfl
    · split
      · rw [ih, fire_out]; simp [lastRep, fire_snd]
      · rfl

/-- `t + 1` steps are enough: the closed form of `advance` -/
theorem advance_spec (c : Cfg) (hI : 0 < c.interval) (t n : Nat) (s : State) (p : Pending)
    (hacc : s.resp = []) (hrun : s.stopped = false) (hs : s.cur = some p)
    (htime : ∀ k, k < n → p.deadline + k * c.interval ≤ t)
    (hrep : ∀ k, 1 ≤ k → k < n → repeating c (p.rep + k) = true)
    (hstop : (0 < n ∧ repeating c (p.rep + n) = false) ∨ t < p.deadline + n * c.interval) :
    advance c s t = (after c s p n, sends c p n) := by
  apply advanceFuel_spec c t n (t + 1) s p hacc hrun hs _ htime hrep hstop
  cases n with
  | zero => omega
  | succ m =>
    have h1 := htime m (by omega)
    have h2 : m ≤ m * c.interval := Nat.le_mul_of_pos_right m hI
    omega

/-! ### operation sequences -/

theorem run_append (c : Cfg) (s : State) (ops ops' : List Op) :
    run c s (ops ++ ops') =
      ((run c (run c s ops).1 ops').1, (run c s ops).2 ++ (run c (run c s ops).1 ops').2) := by
  induction ops generalizing s with
  | nil => simp [run]
  | cons op ops ih => simp [run, ih, List.append_assoc]

/-- a matching event with an accepting destination -/
theorem arrive_match (c : Cfg) (s : State) (t : Nat) (data : Data) (h : s.resp = []) :
    arrive c s t c.etype data =
      ({ s with out := 0,
                cur := if !s.stopped && repeating c 0 then some ⟨withOrig data, 0, t + c.interval⟩ else none },
       [⟨t, c.etype, 0, outData c (withOrig data) 0, .ok⟩]) := by
  simp [arrive, answer_acc s h, h]

/-- a matching event whose forwarding the destination refuses with EdzedUnknownEvent: the output
    is 0, one answer is consumed, NOTHING ELSE changes – in particular nothing is queued -/
theorem arrive_unknown (c : Cfg) (s : State) (t : Nat) (data : Data) (h : s.answer = .unknown) :
    arrive c s t c.etype data =
      ({ s with out := 0, resp := s.resp.tail },
       [⟨t, c.etype, 0, outData c (withOrig data) 0, .unknown⟩]) := by
  simp [arrive, h]

/-- a matching event is offered to the destination, stamped `t`, `repeat=0` – and that is all the
    handler sends -/
theorem arrive_head (c : Cfg) (s : State) (t : Nat) (data : Data) :
    (arrive c s t c.etype data).2 = [⟨t, c.etype, 0, outData c (withOrig data) 0, s.answer⟩] := by
  unfold arrive
  simp only [bne_self_eq_false, Bool.false_eq_true, if_false]
  split <;> rfl

theorem arrive_out (c : Cfg) (s : State) (t : Nat) (etype : String) (data : Data) :
    (arrive c s t etype data).1.out = lastRep (arrive c s t etype data).2 s.out := by
  unfold arrive
  split
  · rfl
  · split <;> simp [lastRep]

theorem arrive_other (c : Cfg) (s : State) (t : Nat) (etype : String) (data : Data) (h : etype ≠ c.etype) :
    arrive c s t etype data = (s, []) := by
  have : (etype != c.etype) = true := by simpa using h
  simp [arrive, this]

theorem step_out (c : Cfg) (s : State) (op : Op) :
    (step c s op).1.out = lastRep (step c s op).2 s.out := by
  cases op with
  | advance t => exact advanceFuel_out c t _ s
  | stop => rfl
  | event t pl e d =>
    simp only [step, event]
    rw [lastRep_append, arrive_out]
    congr 1
    exact advanceFuel_out c _ _ s

theorem run_out (c : Cfg) (s : State) (ops : List Op) :
    (run c s ops).1.out = lastRep (run c s ops).2 s.out := by
  induction ops generalizing s with
  | nil => rfl
  | cons op ops ih =>
    simp only [run]
    rw [ih, lastRep_append, step_out]

/-- what a stopped block still does with an operation: forward a matching event -/
def forwardOf (c : Cfg) : Op → List Sent
  | .event t _ e d => if e = c.etype then [⟨t, c.etype, 0, outData c (withOrig d) 0, .ok⟩] else []
  | _ => []

theorem step_stopped (c : Cfg) (s : State) (op : Op) (h1 : s.stopped = true) (h2 : s.cur = none)
    (h3 : s.resp = []) :
    (step c s op).1.stopped = true ∧ (step c s op).1.cur = none ∧ (step c s op).1.resp = [] ∧
      (step c s op).2 = forwardOf c op := by
  cases op with
  | advance t => simp [step, advance_none c s t h2, h1, h2, h3, forwardOf]
  | stop => simp [step, stop, forwardOf, h3]
  | event t pl e d =>
    simp only [step, event, advance_none c s _ h2, forwardOf]
    by_cases h : e = c.etype
    · subst h; rw [arrive_match _ _ _ _ h3]; simp [h1, h3]
    · rw [arrive_other _ _ _ _ _ h]; simp [h1, h2, h3, h]

theorem run_stopped (c : Cfg) (s : State) (ops : List Op) (h1 : s.stopped = true) (h2 : s.cur = none)
    (h3 : s.resp = []) :
    (run c s ops).2 = ops.flatMap (forwardOf c) := by
  induction ops generalizing s with
  | nil => rfl
  | cons op ops ih =>
    obtain ⟨a, b, r, e⟩ := step_stopped c s op h1 h2 h3
    simp only [run, List.flatMap_cons, ih _ a b r, e]

/-! ### chains -/

/-- a matching event is offered to the destination in the same step (which answers `a`) -/
theorem event_forward_mem (c : Cfg) (s : State) (t : Nat) (pl : Placement) (data : Data) :
    ∃ a, (⟨t, c.etype, 0, outData c (withOrig data) 0, a⟩ : Sent) ∈ (event c s t pl c.etype data).2 := by
  have h := arrive_head c (advance c s (pl.horizon t)).1 t data
  refine ⟨(advance c s (pl.horizon t)).1.answer, ?_⟩
  simp only [event, h]
  exact List.mem_append_right _ (List.mem_cons_self ..)

theorem feed_forwards (c2 : Cfg) : ∀ (xs : List Sent) (s : State) (pl : Placement) (fl : List Bool)
    (r : State × List Sent × List Bool), feed c2 s xs pl fl = some r →
    ∀ x ∈ xs, x.etype = c2.etype →
      ∃ a, (⟨x.t, c2.etype, 0, outData c2 (withOrig x.data) 0, a⟩ : Sent) ∈ r.2.1 := by
  intro xs
  induction xs with
  | nil => intro s pl fl r _ x hx; cases hx
  | cons y ys ih =>
    intro s pl fl r hr x hx hety
    simp only [feed] at hr
    split at hr
    · -- the immediate forward of an arrival
      simp only [Option.map_eq_some_iff] at hr
      obtain ⟨q, hq, rfl⟩ := hr
      rcases List.mem_cons.mp hx with h | h
      · subst h
        rw [hety]
        obtain ⟨a, ha⟩ := event_forward_mem c2 s x.t pl x.data
        exact ⟨a, List.mem_append_left _ ha⟩
      · obtain ⟨a, ha⟩ := ih _ _ _ _ hq x h hety
        exact ⟨a, List.mem_append_right _ ha⟩
    · split at hr
      · cases hr
      · simp only [Option.map_eq_some_iff] at hr
        obtain ⟨q, hq, rfl⟩ := hr
        rcases List.mem_cons.mp hx with h | h
        · subst h
          rw [hety]
          obtain ⟨a, ha⟩ := event_forward_mem c2 s x.t _ x.data
          exact ⟨a, List.mem_append_left _ ha⟩
        · obtain ⟨a, ha⟩ := ih _ _ _ _ hq x h hety
          exact ⟨a, List.mem_append_right _ ha⟩

end Edzed.Repeat

namespace Edzed.Repeat

/-! ### the state right after an arrival; shape of everything that is sent -/

theorem event_state (c : Cfg) (s : State) (t : Nat) (pl : Placement) (data : Data) (h : s.resp = []) :
    (event c s t pl c.etype data).1 =
      { out := 0,
        cur := if !s.stopped && repeating c 0 then some ⟨withOrig data, 0, t + c.interval⟩ else none,
        stopped := s.stopped, resp := [] } := by
  simp only [event, arrive_match _ _ _ _ (advance_resp c s _ h), advance_stopped c s _ h,
    advance_resp c s _ h]

theorem event_sends (c : Cfg) (s : State) (t : Nat) (pl : Placement) (data : Data) (h : s.resp = []) :
    (event c s t pl c.etype data).2 =
      (advance c s (pl.horizon t)).2 ++ [⟨t, c.etype, 0, outData c (withOrig data) 0, .ok⟩] := by
  simp only [event, arrive_match _ _ _ _ (advance_resp c s _ h)]

/-- all data the operations deliver -/
def eventData : List Op → List Data
  | [] => []
  | .event _ _ _ d :: ops => d :: eventData ops
  | _ :: ops => eventData ops

/-- the queued data stems from one of the received events -/
def Inv (D : List Data) (s : State) : Prop := ∀ p, s.cur = some p → ∃ d ∈ D, p.data = withOrig d

/-- a sent event is a received one with `orig_source`, `repeat`, `source` set -/
def Shape (c : Cfg) (D : List Data) (x : Sent) : Prop :=
  x.etype = c.etype ∧ ∃ d ∈ D, x.data = outData c (withOrig d) x.rep

theorem advanceFuel_shape (c : Cfg) (D : List Data) (t : Nat) : ∀ (fuel : Nat) (s : State), Inv D s →
    Inv D (advanceFuel c fuel s t).1 ∧ ∀ x ∈ (advanceFuel c fuel s t).2, Shape c D x := by
  intro fuel
  induction fuel with
  | zero => intro s h; exact ⟨h, by simp [advanceFuel]⟩
  | succ f ih =>
    intro s h
    simp only [advanceFuel]
    split
    · exact ⟨h, by simp⟩
    · next p hp =>
      split
      · obtain ⟨d, hd, hpd⟩ := h p hp
        have hinv : Inv D (fire c s p).1 := by
          intro q hq
          exact ⟨d, hd, by rw [fire_cur_data c s p q hq, hpd]⟩
        obtain ⟨a, b⟩ := ih _ hinv
        refine ⟨a, ?_⟩
        intro x hx
        rcases List.mem_cons.mp hx with e | e
        · subst e; rw [fire_snd]; exact ⟨rfl, d, hd, by simp [hpd]⟩
        · exact b x e
      · exact ⟨h, by simp⟩

theorem arrive_shape (c : Cfg) (D : List Data) (s : State) (t : Nat) (e : String) (d : Data)
    (h : Inv D s) (hd : d ∈ D) :
    Inv D (arrive c s t e d).1 ∧ ∀ x ∈ (arrive c s t e d).2, Shape c D x := by
  have hx : Shape c D ⟨t, c.etype, 0, outData c (withOrig d) 0, s.answer⟩ := ⟨rfl, d, hd, rfl⟩
  have hnone : ∀ st : State, st.cur = none → Inv D st := fun st e q hq => by rw [e] at hq; cases hq
  unfold arrive
  split
  · exact ⟨h, by simp⟩
  · split
    · refine ⟨?_, by simpa using hx⟩
      intro q hq
      simp only at hq
      split at hq
      · cases hq; exact ⟨d, hd, rfl⟩
      · cases hq
    · exact ⟨fun q hq => h q hq, by simpa using hx⟩
    · refine ⟨?_, by simpa using hx⟩
      intro q hq
      simp only at hq
      split at hq
      · next p hp =>
        split at hq
        · cases hq; exact h q hp
        · cases hq
      · cases hq

theorem step_shape (c : Cfg) (D : List Data) (s : State) (op : Op) (h : Inv D s)
    (hD : ∀ d ∈ eventData [op], d ∈ D) :
    Inv D (step c s op).1 ∧ ∀ x ∈ (step c s op).2, Shape c D x := by
  cases op with
  | advance t => exact advanceFuel_shape c D t _ s h
  | stop => exact ⟨by intro p hp; simp [step, stop] at hp, by simp [step]⟩
  | event t pl e d =>
    have hd : d ∈ D := hD d (by simp [eventData])
    obtain ⟨a, b⟩ := advanceFuel_shape c D (pl.horizon t) (pl.horizon t + 1) s h
    obtain ⟨a', b'⟩ := arrive_shape c D (advance c s (pl.horizon t)).1 t e d a hd
    refine ⟨a', ?_⟩
    intro x hx
    simp only [step, event, List.mem_append] at hx
    rcases hx with hx | hx
    · exact b x hx
    · exact b' x hx

theorem run_shape (c : Cfg) (D : List Data) : ∀ (ops : List Op) (s : State), Inv D s →
    (∀ d ∈ eventData ops, d ∈ D) → ∀ x ∈ (run c s ops).2, Shape c D x := by
  intro ops
  induction ops with
  | nil => intro s _ _ x hx; simp [run] at hx
  | cons op ops ih =>
    intro s h hD x hx
    have hsub : ∀ d ∈ eventData [op], d ∈ D := by
      intro d hd; apply hD
      cases op <;> simp_all [eventData]
    have hsub' : ∀ d ∈ eventData ops, d ∈ D := by
      intro d hd; apply hD
      cases op <;> simp_all [eventData]
    obtain ⟨a, b⟩ := step_shape c D s op h hsub
    simp only [run, List.mem_append] at hx
    rcases hx with hx | hx
    · exact b x hx
    · exact ih _ a hsub' x hx

end Edzed.Repeat
