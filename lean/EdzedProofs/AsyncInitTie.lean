/-
C05: the translated small methods around asynchronous initialisation (Gen/TranslatedAsyncInit.lean), run by
the interpreter of EdzedModel/AsyncInit.lean, ARE the model's functions.
-/
import EdzedModel.AsyncInit

namespace Edzed.AsyncInit

open Edzed.Gen.TrAI

theorem addon_init_model (env : Env) (o : Obj) (cur : Val) :
    interp env 8 asyncInit_init o cur = .done (aiInit o) none := by
  simp [asyncInit_init, interp, doAct, aiInit]

theorem addon_start_model (env : Env) (o : Obj) (cur : Val) :
    interp env 8 asyncInit_start o cur = .done (aiStart o) none := by
  simp [asyncInit_start, interp, doAct, aiStart]

theorem addon_set_output_model (env : Env) (o : Obj) (v : Val) :
    interp env 8 asyncInit_set_output o v = aiSetOutput o v := by
  unfold aiSetOutput
  cases hv : v.isUndef with
  | true => simp [asyncInit_set_output, interp, doAct, plainSetOutput, sblockSetOutput, argVal, hv]
  | false =>
    cases hq : o.out.pyEq v <;> cases he : o.ev with
    | none => simp [asyncInit_set_output, interp, doAct, plainSetOutput, sblockSetOutput, argVal, hv, hq, evalCond, Except.map, he]
    | some b =>
      cases b <;>
        simp [asyncInit_set_output, interp, doAct, plainSetOutput, sblockSetOutput, argVal, hv, hq, evalCond, Except.map, he]

theorem addon_init_async_model (env : Env) (o : Obj) (cur : Val) :
    interp env 8 asyncInit_init_async o cur = aiInitAsync o := by
  unfold aiInitAsync
  cases he : o.ev with
  | none => simp [asyncInit_init_async, interp, doAct, aiInitAsync, he]
  | some b => cases b <;> simp [asyncInit_init_async, interp, doAct, aiInitAsync, he]

theorem initasync_init_model (env : Env) (o : Obj) (cur : Val) :
    interp env 8 initAsync_init o cur = iaInit env o := by
  unfold iaInit
  cases h1 : env.coroIsSequence <;> cases h2 : env.coroNonEmpty <;>
    simp [initAsync_init, interp, doAct, evalCond, Except.map, h1, h2]

theorem initasync_init_async_model (env : Env) (o : Obj) (cur : Val) (hc : env.asyncInitClass = false) :
    interp env 8 initAsync_init_async o cur = iaInitAsync env o := by
  unfold iaInitAsync plainSetOutput
  cases hv : env.coroResult.isUndef <;> cases hq : o.out.pyEq env.coroResult <;>
    simp [initAsync_init_async, interp, doAct, plainSetOutput, sblockSetOutput, argVal, hc, hv, hq]

theorem initasync_init_from_value_model (env : Env) (o : Obj) (v : Val) (hc : env.asyncInitClass = false) :
    interp env 8 initAsync_init_from_value o v = plainSetOutput o v := by
  unfold plainSetOutput
  cases hv : v.isUndef <;> cases hq : o.out.pyEq v <;>
    simp [initAsync_init_from_value, interp, doAct, plainSetOutput, sblockSetOutput, argVal, hc, hv, hq]

theorem valuepoll_init_from_value_model (env : Env) (o : Obj) (v : Val) (hc : env.asyncInitClass = true) :
    interp env 8 valuePoll_init_from_value o v = aiSetOutput o v := by
  unfold aiSetOutput
  cases hv : v.isUndef with
  | true => simp [valuePoll_init_from_value, interp, doAct, aiSetOutput, sblockSetOutput, argVal, hc, hv]
  | false =>
    cases hq : o.out.pyEq v <;> cases he : o.ev with
    | none => simp [valuePoll_init_from_value, interp, doAct, aiSetOutput, sblockSetOutput, argVal, hc, hv, hq, he]
    | some b =>
      cases b <;>
        simp [valuePoll_init_from_value, interp, doAct, aiSetOutput, sblockSetOutput, argVal, hc, hv, hq, he]

theorem valuepoll_init_model (env : Env) (o : Obj) (cur : Val) :
    interp env 8 valuePoll_init o cur = vpInit env o := by
  unfold vpInit
  cases hp : env.periodOfInterval with
  | none => simp [valuePoll_init, interp, doAct, evalCond, Except.map, hp]
  | some p =>
    by_cases hle : p ≤ 0
    · simp [valuePoll_init, interp, doAct, evalCond, Except.map, hp, hle]
    · simp [valuePoll_init, interp, doAct, evalCond, Except.map, hp, hle]

theorem valuepoll_maintask_model (env : Env) (o : Obj) (cur : Val) (hc : env.asyncInitClass = true) :
    interp env 12 valuePoll_maintask o cur = vpPass env o := by
  unfold vpPass aiSetOutput
  cases hco : env.polledIsCoro <;> cases hv : env.polled.isUndef <;> cases hq : o.out.pyEq env.polled
  all_goals
    first
    | (cases he : o.ev with
       | none => simp [valuePoll_maintask, interp, doAct, evalCond, Except.map, aiSetOutput, sblockSetOutput, argVal, hc, hco, hv, hq, he]
       | some b =>
         cases b <;>
           simp [valuePoll_maintask, interp, doAct, evalCond, Except.map, aiSetOutput, sblockSetOutput, argVal, hc, hco, hv, hq, he])

theorem const_init_regular_model (env : Env) (o : Obj) (cur : Val) (hc : env.asyncInitClass = false) :
    interp env 8 controlBlock_init_regular o cur = plainSetOutput o Val.none ∧
    interp env 8 repeat_init_regular o cur = plainSetOutput o (Val.int 0) ∧
    interp env 8 outputAsync_init_regular o cur = plainSetOutput o (Val.int 0) ∧
    interp env 8 outputFunc_init_regular o cur = plainSetOutput o (Val.bool false) := by
  have h1 : (Val.none).isUndef = false := rfl
  have h2 : (Val.int 0).isUndef = false := rfl
  have h3 : (Val.bool false).isUndef = false := rfl
  refine ⟨?_, ?_, ?_, ?_⟩
  · cases hq : o.out.pyEq Val.none <;>
      simp [controlBlock_init_regular, interp, doAct, plainSetOutput, sblockSetOutput, argVal, hc, hq, h1]
  · cases hq : o.out.pyEq (Val.int 0) <;>
      simp [repeat_init_regular, interp, doAct, plainSetOutput, sblockSetOutput, argVal, hc, hq, h2]
  · cases hq : o.out.pyEq (Val.int 0) <;>
      simp [outputAsync_init_regular, interp, doAct, plainSetOutput, sblockSetOutput, argVal, hc, hq, h2]
  · cases hq : o.out.pyEq (Val.bool false) <;>
      simp [outputFunc_init_regular, interp, doAct, plainSetOutput, sblockSetOutput, argVal, hc, hq, h3]

theorem get_state_model (env : Env) (o : Obj) (cur : Val) :
    interp env 8 sblock_get_state o cur = getState o := by
  unfold getState
  cases hu : o.out.isUndef <;> simp [sblock_get_state, interp, evalCond, Except.map, hu]

theorem enable_event_model (env : Env) (o : Obj) (cur : Val) :
    interp env 8 enableEvent_init o cur = .done { o with blockStored := true } none ∧
    interp env 8 enableEvent_enter o cur = .done (eeEnter o) none ∧
    interp env 8 enableEvent_exit o cur = eeExit o := by
  refine ⟨by simp [enableEvent_init, interp, doAct], by simp [enableEvent_enter, interp, doAct, eeEnter], ?_⟩
  unfold eeExit
  cases hs : o.saved <;> simp [enableEvent_exit, interp, doAct, eeExit, hs]

theorem pyEq_not_undef (a v : Val) (h : a.pyEq v = true) (hv : v.isUndef = false) : a.isUndef = false := by
  cases a <;> cases v <;> simp_all [Val.pyEq, Val.isUndef]

theorem atom_pyEq_self (a : Atom) : a.pyEq a = true := by
  cases a <;> simp [Atom.pyEq]

theorem listEq_self (l : List Atom) : Atom.listEq l l = true := by
  induction l with
  | nil => rfl
  | cons a r ih => simp [Atom.listEq, atom_pyEq_self, ih]

theorem pyEq_self_of_not_undef (v : Val) (_h : v.isUndef = false) : v.pyEq v = true := by
  cases v with
  | undef => rfl
  | atom a => simp [Val.pyEq, atom_pyEq_self]
  | tup l => simp [Val.pyEq, listEq_self]
  | lst l => simp [Val.pyEq, listEq_self]

end Edzed.AsyncInit
