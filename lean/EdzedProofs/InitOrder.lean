/-
C05: every synchronous routine of a block runs at most once and in the order
_restore_state, init_regular, init_from_value -- the `init_steps_completed` protocol.
-/
import EdzedModel.Init
import EdzedProofs.Init

namespace Edzed.Init

inductive SK where
  | P | R | D
  deriving DecidableEq, Repr

/-- is the entry a call of a synchronous routine of block `b`? -/
def syncKind (b : Nat) : Entry → Option SK
  | .restore x => if x = b then some .P else none
  | .regular x => if x = b then some .R else none
  | .initdef x _ => if x = b then some .D else none
  | _ => none

/-- the synchronous routines of block `b` in the order of their calls -/
def proj (b : Nat) (log : List Entry) : List SK := log.filterMap (syncKind b)

theorem proj_push (b : Nat) (s : St) (e : Entry) :
    proj b (s.push e).log = proj b s.log ++ (syncKind b e).toList := by
  simp only [proj, push_log, List.filterMap_append, List.filterMap_cons, List.filterMap_nil]
  cases syncKind b e <;> simp

/-! ### frame: a block whose step is in progress (-1, -2), or whose steps are completed (2), is not touched
by anybody else: `init_sblock` acts on `init_steps_completed` 0 and 1 only -/

def Keep (b : Nat) (s t : St) : Prop :=
  (s.steps b ≠ 0 ∧ s.steps b ≠ 1) → t.steps b = s.steps b ∧ proj b t.log = proj b s.log

theorem Keep.rfl' (b : Nat) (s : St) : Keep b s s := fun _ => ⟨rfl, rfl⟩

theorem Keep.trans {b : Nat} {s t u : St} (h1 : Keep b s t) (h2 : Keep b t u) : Keep b s u := by
  intro hs
  obtain ⟨a1, a2⟩ := h1 hs
  obtain ⟨b1, b2⟩ := h2 (by omega)
  exact ⟨by omega, by rw [b2, a2]⟩

theorem Keep.of_eq {b : Nat} {s t : St} (hl : t.log = s.log) (hs : t.steps = s.steps) : Keep b s t :=
  fun _ => ⟨by rw [hs], by rw [hl]⟩

theorem Keep.push {b : Nat} (s : St) (e : Entry) (h : syncKind b e = none) : Keep b s (s.push e) :=
  fun _ => ⟨rfl, by rw [proj_push, h]; simp⟩

theorem Keep.setSteps {b : Nat} (s : St) (x : Nat) (k : Int) (h : x ≠ b) : Keep b s (s.setSteps x k) :=
  fun _ => ⟨by simp [upd, Ne.symm h], rfl⟩

theorem refuse_log (s : St) : s.refuse.log = s.log := by unfold St.refuse; split <;> rfl
theorem refuse_steps (s : St) : s.refuse.steps = s.steps := by unfold St.refuse; split <;> rfl

def FrameSpec (rec : Call → St → St) : Prop := ∀ call s b, Keep b s (rec call s)

theorem handlerFrame_steps (s : St) : s.handlerFrame.steps = s.steps := by
  unfold St.handlerFrame; split <;> rfl

theorem setOutputBody_frame (c : Cfg) (rec : Call → St → St) (hr : FrameSpec rec) (x : Nat) (v : Val)
    (s : St) (b : Nat) : Keep b s (setOutputBody c rec x v s) := by
  unfold setOutputBody
  split
  · exact Keep.of_eq rfl rfl
  · split
    · exact Keep.rfl' b s
    · exact (Keep.of_eq (t := s.setOut x v) rfl rfl).trans (hr _ _ b)

theorem sendBody_frame (rec : Call → St → St) (hr : FrameSpec rec) (ds : List Nat) (v : Val)
    (s : St) (b : Nat) : Keep b s (sendBody rec ds v s) := by
  unfold sendBody
  cases ds with
  | nil => exact Keep.rfl' b s
  | cons d r => exact (hr _ _ b).trans (hr _ _ b)

theorem eventBody_frame (rec : Call → St → St) (hr : FrameSpec rec) (d : Nat) (v : Val)
    (s : St) (b : Nat) : Keep b s (eventBody rec d v s) := by
  unfold eventBody
  dsimp only
  have k1 : Keep b s (s.push (.arrive d)) := Keep.push s _ rfl
  split
  · exact k1.trans ((Keep.push _ (.refused d) rfl).trans (Keep.of_eq (refuse_log _) (refuse_steps _)))
  · generalize hs2 : (if 0 ≤ ((s.push (.arrive d)).setActive d true).steps d ∧
        ((s.push (.arrive d)).setActive d true).steps d < 2
      then (rec (.initS d true) (((s.push (.arrive d)).setActive d true).setActive d false)).setActive d true
      else (s.push (.arrive d)).setActive d true) = s2
    have k2 : Keep b s s2 := by
      rw [← hs2]; split
      · exact (k1.trans (Keep.of_eq (t := ((s.push (.arrive d)).setActive d true).setActive d false)
          rfl rfl)).trans ((hr _ _ b).trans (Keep.of_eq rfl rfl))
      · exact k1.trans (Keep.of_eq rfl rfl)
    refine k2.trans (Keep.trans (t := if s2.ok then
      (rec (.setOutput d v) (s2.push (.handle d v (s2.steps d)))).handlerFrame else s2) ?_
      (Keep.of_eq rfl rfl))
    split
    · exact (Keep.push s2 _ rfl).trans ((hr _ _ b).trans
        (Keep.of_eq (handlerFrame_log _) (handlerFrame_steps _)))
    · exact Keep.rfl' b s2

theorem syncKind_other_restore {b x : Nat} (h : x ≠ b) : syncKind b (.restore x) = none := by
  simp [syncKind, h]
theorem syncKind_other_regular {b x : Nat} (h : x ≠ b) : syncKind b (.regular x) = none := by
  simp [syncKind, h]
theorem syncKind_other_initdef {b x : Nat} (u : Bool) (h : x ≠ b) : syncKind b (.initdef x u) = none := by
  simp [syncKind, h]

theorem step1_frame (c : Cfg) (rec : Call → St → St) (hr : FrameSpec rec) (x : Nat) (s : St) (b : Nat)
    (h : x ≠ b) : Keep b s (step1 c rec x s) := by
  unfold step1
  dsimp only
  have k0 : Keep b s (s.setSteps x (-1)) := Keep.setSteps s x _ h
  refine Keep.trans (t := match (c.blk x).persist with
    | .none => s.setSteps x (-1)
    | .raises => (s.setSteps x (-1)).push (.restore x)
    | .restores v how => (rec (applyCall how x v) ((s.setSteps x (-1)).push (.restore x))).swallow) ?_
    (Keep.setSteps _ x _ h)
  split
  · exact k0
  · exact k0.trans (Keep.push _ _ (syncKind_other_restore h))
  · exact k0.trans ((Keep.push _ _ (syncKind_other_restore h)).trans ((hr _ _ b).trans (Keep.of_eq rfl rfl)))

theorem regularBody_frame (c : Cfg) (rec : Call → St → St) (hr : FrameSpec rec) (x : Nat) (s : St) (b : Nat) :
    Keep b s (regularBody c rec x s) := by
  unfold regularBody
  split
  · exact Keep.rfl' b s
  · exact hr _ _ b
  · exact hr _ _ b
  · exact Keep.of_eq rfl rfl
  · split
    · exact Keep.of_eq rfl rfl
    · exact Keep.rfl' b s

theorem initdefBody_frame (c : Cfg) (rec : Call → St → St) (hr : FrameSpec rec) (x : Nat) (s : St) (b : Nat)
    (h : x ≠ b) : Keep b s (initdefBody c rec x s) := by
  unfold initdefBody
  split
  · split
    · exact (Keep.push _ _ (syncKind_other_initdef _ h)).trans (hr _ _ b)
    · exact Keep.rfl' b s
  · exact Keep.rfl' b s

theorem step2_frame (c : Cfg) (rec : Call → St → St) (hr : FrameSpec rec) (x : Nat) (s : St) (b : Nat)
    (h : x ≠ b) : Keep b s (step2 c rec x s) := by
  unfold step2
  dsimp only
  have k1 : Keep b s (regularBody c rec x ((s.setSteps x (-2)).push (.regular x))) :=
    (Keep.setSteps s x _ h).trans ((Keep.push _ _ (syncKind_other_regular h)).trans
      (regularBody_frame c rec hr x _ b))
  split
  · exact k1
  · have k2 := k1.trans (initdefBody_frame c rec hr x _ b h)
    split
    · exact k2
    · exact k2.trans (Keep.setSteps _ x _ h)

theorem initBody_frame (c : Cfg) (rec : Call → St → St) (hr : FrameSpec rec) (x : Nat) (full : Bool)
    (s : St) (b : Nat) : Keep b s (initBody c rec x full s) := by
  by_cases h : x = b
  · subst h
    intro hneg
    have e : initBody c rec x full s = s := by
      unfold initBody
      have h0 : ¬ s.steps x = 0 := hneg.1
      have h1 : ¬ s.steps x = 1 := hneg.2
      simp [h0, h1]
    rw [e]; exact ⟨rfl, rfl⟩
  · unfold initBody
    dsimp only
    generalize hs1 : (if s.steps x = 0 then step1 c rec x s else s) = s1
    have k1 : Keep b s s1 := by
      rw [← hs1]; split
      · exact step1_frame c rec hr x s b h
      · exact Keep.rfl' b s
    split
    · exact k1.trans (step2_frame c rec hr x s1 b h)
    · exact k1

theorem body_frame (c : Cfg) (rec : Call → St → St) (hr : FrameSpec rec) : FrameSpec (body c rec) := by
  intro call s b
  unfold body
  split
  · exact Keep.rfl' b s
  · cases call with
    | setOutput x v => exact setOutputBody_frame c rec hr x v s b
    | send ds v => exact sendBody_frame rec hr ds v s b
    | event d v => exact eventBody_frame rec hr d v s b
    | initS x full => exact initBody_frame c rec hr x full s b

theorem exec_frame (c : Cfg) : ∀ fuel, FrameSpec (exec c fuel)
  | 0 => by
    intro call s b
    simp only [exec]
    split
    · exact (Keep.push s .fuelOut rfl).trans (Keep.of_eq rfl rfl)
    · exact Keep.rfl' b s
  | fuel + 1 => body_frame c (exec c fuel) (exec_frame c fuel)

/-! ### the shape of a block's synchronous calls follows `init_steps_completed` -/

def Shape (k : Int) (l : List SK) : Prop :=
  (k = 0 ∧ l = []) ∨ ((k = -1 ∨ k = 1) ∧ (l = [] ∨ l = [.P])) ∨
  ((k = -2 ∨ k = 2) ∧ (l = [.R] ∨ l = [.P, .R] ∨ l = [.R, .D] ∨ l = [.P, .R, .D]))

theorem shape0 (l : List SK) : Shape 0 l ↔ l = [] := by simp [Shape]
theorem shapeN1 (l : List SK) : Shape (-1) l ↔ (l = [] ∨ l = [.P]) := by simp [Shape]
theorem shape1 (l : List SK) : Shape 1 l ↔ (l = [] ∨ l = [.P]) := by simp [Shape]
theorem shapeN2 (l : List SK) :
    Shape (-2) l ↔ (l = [.R] ∨ l = [.P, .R] ∨ l = [.R, .D] ∨ l = [.P, .R, .D]) := by simp [Shape]
theorem shape2 (l : List SK) :
    Shape 2 l ↔ (l = [.R] ∨ l = [.P, .R] ∨ l = [.R, .D] ∨ l = [.P, .R, .D]) := by simp [Shape]

def J (s : St) : Prop := ∀ b, Shape (s.steps b) (proj b s.log)

def ShapeSpec (rec : Call → St → St) : Prop := ∀ call s, J s → J (rec call s)

theorem J.of_eq {s t : St} (h : J s) (hl : t.log = s.log) (hs : t.steps = s.steps) : J t := by
  intro b; rw [hl, hs]; exact h b

theorem J.push_none {s : St} (h : J s) (e : Entry) (he : ∀ b, syncKind b e = none) : J (s.push e) := by
  intro b; rw [proj_push, he b]; simpa using h b

theorem J.setSteps_push {s : St} (h : J s) (x : Nat) (k : Int) (e : Entry) (sk : SK)
    (hk : syncKind x e = some sk) (ho : ∀ b, b ≠ x → syncKind b e = none)
    (hx : Shape k (proj x s.log ++ [sk])) : J ((s.setSteps x k).push e) := by
  intro b
  by_cases hb : b = x
  · subst hb; rw [proj_push, hk]; simpa using hx
  · rw [proj_push, ho b hb]; simpa [upd, hb] using h b

theorem J.push_sync {s : St} (h : J s) (x : Nat) (e : Entry) (sk : SK)
    (hk : syncKind x e = some sk) (ho : ∀ b, b ≠ x → syncKind b e = none)
    (hx : Shape (s.steps x) (proj x s.log ++ [sk])) : J (s.push e) := by
  intro b
  by_cases hb : b = x
  · subst hb; rw [proj_push, hk]; simpa using hx
  · rw [proj_push, ho b hb]; simpa using h b

theorem J.setSteps {s : St} (h : J s) (x : Nat) (k : Int) (hx : Shape k (proj x s.log)) :
    J (s.setSteps x k) := by
  intro b
  by_cases hb : b = x
  · subst hb; simpa using hx
  · simpa [upd, hb] using h b

theorem syncKind_restore (x : Nat) : syncKind x (.restore x) = some .P := by simp [syncKind]
theorem syncKind_regular (x : Nat) : syncKind x (.regular x) = some .R := by simp [syncKind]
theorem syncKind_initdef (x : Nat) (u : Bool) : syncKind x (.initdef x u) = some .D := by simp [syncKind]

theorem setOutputBody_J (c : Cfg) (rec : Call → St → St) (hr : ShapeSpec rec) (x : Nat) (v : Val) (s : St)
    (h : J s) : J (setOutputBody c rec x v s) := by
  unfold setOutputBody
  split
  · exact h.of_eq rfl rfl
  · split
    · exact h
    · exact hr _ _ (h.of_eq (t := s.setOut x v) rfl rfl)

theorem sendBody_J (rec : Call → St → St) (hr : ShapeSpec rec) (ds : List Nat) (v : Val) (s : St)
    (h : J s) : J (sendBody rec ds v s) := by
  unfold sendBody
  cases ds with
  | nil => exact h
  | cons d r => exact hr _ _ (hr _ _ h)

theorem eventBody_J (rec : Call → St → St) (hr : ShapeSpec rec) (d : Nat) (v : Val) (s : St)
    (h : J s) : J (eventBody rec d v s) := by
  unfold eventBody
  dsimp only
  have h1 : J (s.push (.arrive d)) := h.push_none _ (fun _ => rfl)
  split
  · exact (h1.push_none (.refused d) (fun _ => rfl)).of_eq (refuse_log _) (refuse_steps _)
  · generalize hs2 : (if 0 ≤ ((s.push (.arrive d)).setActive d true).steps d ∧
        ((s.push (.arrive d)).setActive d true).steps d < 2
      then (rec (.initS d true) (((s.push (.arrive d)).setActive d true).setActive d false)).setActive d true
      else (s.push (.arrive d)).setActive d true) = s2
    have h2 : J s2 := by
      rw [← hs2]; split
      · exact (hr _ _ (h1.of_eq (t := ((s.push (.arrive d)).setActive d true).setActive d false)
          rfl rfl)).of_eq rfl rfl
      · exact h1.of_eq rfl rfl
    refine J.of_eq (s := if s2.ok then
      (rec (.setOutput d v) (s2.push (.handle d v (s2.steps d)))).handlerFrame else s2) ?_ rfl rfl
    split
    · exact (hr _ _ (h2.push_none _ (fun _ => rfl))).of_eq (handlerFrame_log _) (handlerFrame_steps _)
    · exact h2

theorem step1_J (c : Cfg) (rec : Call → St → St) (hr : ShapeSpec rec) (hf : FrameSpec rec) (x : Nat) (s : St)
    (h0 : s.steps x = 0) (h : J s) : J (step1 c rec x s) := by
  have hl : proj x s.log = [] := by have := h x; rw [h0, shape0] at this; exact this
  unfold step1
  dsimp only
  have ha1 : J (s.setSteps x (-1)) := h.setSteps x _ (by rw [hl, shapeN1]; exact Or.inl rfl)
  have ha2 : J ((s.setSteps x (-1)).push (.restore x)) :=
    h.setSteps_push x _ _ .P (syncKind_restore x) (fun b hb => syncKind_other_restore (Ne.symm hb))
      (by rw [hl, shapeN1]; exact Or.inr rfl)
  have key : ∀ m : St, (J m ∧ m.steps x = -1) → J (m.setSteps x 1) := by
    intro m hmJ
    apply hmJ.1.setSteps
    have := hmJ.1 x
    rw [hmJ.2, shapeN1] at this
    rw [shape1]; exact this
  apply key
  split
  · exact ⟨ha1, by simp⟩
  · exact ⟨ha2, by simp⟩
  · next v how _ =>
    have k := hf (applyCall how x v) ((s.setSteps x (-1)).push (.restore x)) x (by simp)
    exact ⟨(hr _ _ ha2).of_eq rfl rfl, by rw [swallow_steps, k.1]; simp⟩

theorem step1_steps (c : Cfg) (rec : Call → St → St) (x : Nat) (s : St) : (step1 c rec x s).steps x = 1 := by
  unfold step1; simp

theorem regularBody_J (c : Cfg) (rec : Call → St → St) (hr : ShapeSpec rec) (x : Nat) (s : St) (h : J s) :
    J (regularBody c rec x s) := by
  unfold regularBody
  split
  · exact h
  · exact hr _ _ h
  · exact hr _ _ h
  · exact h.of_eq rfl rfl
  · split
    · exact h.of_eq rfl rfl
    · exact h

theorem step2_J (c : Cfg) (rec : Call → St → St) (hr : ShapeSpec rec) (hf : FrameSpec rec) (x : Nat) (s : St)
    (h1 : s.steps x = 1) (h : J s) : J (step2 c rec x s) := by
  have hl : proj x s.log = [] ∨ proj x s.log = [.P] := by have := h x; rw [h1, shape1] at this; exact this
  unfold step2
  dsimp only
  have ha0 : J ((s.setSteps x (-2)).push (.regular x)) :=
    h.setSteps_push x _ _ .R (syncKind_regular x) (fun b hb => syncKind_other_regular (Ne.symm hb))
      (by rw [shapeN2]; rcases hl with e | e <;> rw [e] <;> simp)
  have hp0 : proj x ((s.setSteps x (-2)).push (.regular x)).log = proj x s.log ++ [.R] := by
    rw [proj_push, syncKind_regular]; rfl
  generalize ha : regularBody c rec x ((s.setSteps x (-2)).push (.regular x)) = a
  have haJ : J a := by rw [← ha]; exact regularBody_J c rec hr x _ ha0
  have hak : a.steps x = -2 ∧ proj x a.log = proj x s.log ++ [.R] := by
    have k := regularBody_frame c rec hf x ((s.setSteps x (-2)).push (.regular x)) x (by simp)
    rw [ha] at k
    exact ⟨by rw [k.1]; simp, by rw [k.2, hp0]⟩
  split
  · exact haJ
  · generalize hr2 : initdefBody c rec x a = r
    have hrJ : J r ∧ r.steps x = -2 := by
      rw [← hr2]; unfold initdefBody
      split
      · next v how _ =>
        split
        · have hpush : J (a.push (.initdef x (a.out x).isUndef)) :=
            haJ.push_sync x _ .D (syncKind_initdef x _)
              (fun b hb => syncKind_other_initdef _ (Ne.symm hb))
              (by rw [hak.1, hak.2, shapeN2]; rcases hl with e | e <;> rw [e] <;> simp)
          have k := hf (applyCall how x v) (a.push (.initdef x (a.out x).isUndef)) x
            (by rw [push_steps, hak.1]; decide)
          exact ⟨hr _ _ hpush, by rw [k.1, push_steps, hak.1]⟩
        · exact ⟨haJ, hak.1⟩
      · exact ⟨haJ, hak.1⟩
    split
    · exact hrJ.1
    · apply hrJ.1.setSteps
      have := hrJ.1 x
      rw [hrJ.2, shapeN2] at this
      rw [shape2]; exact this

theorem initBody_J (c : Cfg) (rec : Call → St → St) (hr : ShapeSpec rec) (hf : FrameSpec rec) (x : Nat)
    (full : Bool) (s : St) (h : J s) : J (initBody c rec x full s) := by
  unfold initBody
  dsimp only
  by_cases h0 : s.steps x = 0
  · simp only [h0, if_true]
    have hJ1 := step1_J c rec hr hf x s h0 h
    split
    · exact step2_J c rec hr hf x _ (step1_steps c rec x s) hJ1
    · exact hJ1
  · simp only [h0, if_false]
    split
    · next hc =>
      have h1 : s.steps x = 1 := by
        rcases hc.1 with e | e
        · exact e
        · exact e.1.elim
      exact step2_J c rec hr hf x s h1 h
    · exact h

theorem body_J (c : Cfg) (rec : Call → St → St) (hr : ShapeSpec rec) (hf : FrameSpec rec) :
    ShapeSpec (body c rec) := by
  intro call s h
  unfold body
  split
  · exact h
  · cases call with
    | setOutput x v => exact setOutputBody_J c rec hr x v s h
    | send ds v => exact sendBody_J rec hr ds v s h
    | event d v => exact eventBody_J rec hr d v s h
    | initS x full => exact initBody_J c rec hr hf x full s h

theorem exec_J (c : Cfg) : ∀ fuel, ShapeSpec (exec c fuel)
  | 0 => by
    intro call s h
    simp only [exec]
    split
    · exact (h.push_none .fuelOut (fun _ => rfl)).of_eq rfl rfl
    · exact h
  | fuel + 1 => body_J c (exec c fuel) (exec_J c fuel) (exec_frame c fuel)

theorem foldl_J {α : Type} (f : St → α → St) (hf : ∀ s a, J s → J (f s a)) (l : List α) :
    ∀ s, J s → J (l.foldl f s) := by
  induction l with
  | nil => intro s h; exact h
  | cons a r ih => intro s h; exact ih _ (hf s a h)

theorem monitor_steps (s : St) : s.monitor.steps = s.steps := by
  unfold St.monitor; split <;> rfl

theorem run_J (c : Cfg) : J (run c) := by
  have h0 : J init := by intro b; simp [init, proj, Shape]
  have h1 : J (phase0 c init) := by
    unfold phase0
    apply foldl_J _ _ _ _ h0
    intro s b hs
    split
    · exact hs
    · split
      · exact (exec_J c c.fuel _ _ (hs.push_none _ (fun _ => rfl))).of_eq (monitor_log _) (monitor_steps _)
      · exact hs
  have hsync : ∀ s, J s → J (syncPhase c s) := by
    intro s hs
    unfold syncPhase
    exact foldl_J _ (fun s b h => exec_J c c.fuel _ _ h) _ _ hs
  have h2 := hsync _ h1
  have h3 : J (asyncPhase c (syncPhase c (phase0 c init))) := by
    unfold asyncPhase
    split
    · exact h2
    · dsimp only
      have hp := foldl_J (fun s b => s.push (.async b (s.out b).isUndef (c.blk b).timeout))
        (fun s b h => h.push_none _ (fun _ => rfl)) (eligible c (syncPhase c (phase0 c init))) _ h2
      have hq := foldl_J (applyEvent c) (by
        intro s e hs
        unfold applyEvent
        split
        · exact hs
        · split
          · exact hs.push_none _ (fun _ => rfl)
          · split
            · next v f hv =>
              have := exec_J c c.fuel (.setOutput e.blk v) _ (hs.push_none (.asyncDone e.blk) (fun _ => rfl))
              split
              · exact this.of_eq (monitor_log _) (monitor_steps _)
              · exact this.of_eq rfl rfl
            · exact hs.push_none _ (fun _ => rfl)
            · exact hs)
        (schedule ((eligible c (syncPhase c (phase0 c init))).map (mkTask c))).2 _ hp
      split
      · exact hq.of_eq rfl rfl
      · exact hq
  have h4 := hsync _ h3
  have h5 : J (check c (syncPhase c (asyncPhase c (syncPhase c (phase0 c init))))) := by
    unfold check
    split
    · exact h4
    · split
      · exact h4
      · exact h4.of_eq rfl rfl
  show J (firstPass c _)
  unfold firstPass
  split
  · exact h5
  · dsimp only; split <;> exact J.of_eq h5 rfl rfl

theorem shape_sublist (k : Int) (l : List SK) (h : Shape k l) : l.Sublist [.P, .R, .D] := by
  rcases h with ⟨_, e⟩ | ⟨_, e | e⟩ | ⟨_, e | e | e | e⟩ <;> subst e <;> decide

/-! ### a refused recursive event sets the error register, and the register is never cleared -/

def Rf (s : St) : Prop := (∃ d, Entry.refused d ∈ s.log) → s.aborted = true

def RfSpec (rec : Call → St → St) : Prop := ∀ call s, Rf s → Rf (rec call s)

theorem Rf.mono {s t : St} (h : Rf s) (hl : t.log = s.log) (ha : s.aborted = true → t.aborted = true) :
    Rf t := by
  intro hx; rw [hl] at hx; exact ha (h hx)

theorem Rf.push {s : St} (h : Rf s) (e : Entry) (he : ∀ d, e ≠ .refused d) : Rf (s.push e) := by
  intro ⟨d, hd⟩
  simp only [push_log, List.mem_append, List.mem_singleton] at hd
  rcases hd with hd | hd
  · exact h ⟨d, hd⟩
  · exact absurd hd.symm (he d)

theorem handlerFrame_aborted (s : St) (h : s.aborted = true) : s.handlerFrame.aborted = true := by
  unfold St.handlerFrame; split <;> simp_all

theorem monitor_aborted (s : St) (h : s.aborted = true) : s.monitor.aborted = true := by
  unfold St.monitor; split <;> simp_all

theorem refuse_aborted (s : St) : s.refuse.aborted = true := by
  unfold St.refuse; split <;> simp_all

theorem setOutputBody_Rf (c : Cfg) (rec : Call → St → St) (hr : RfSpec rec) (x : Nat) (v : Val) (s : St)
    (h : Rf s) : Rf (setOutputBody c rec x v s) := by
  unfold setOutputBody
  split
  · exact h.mono rfl id
  · split
    · exact h
    · exact hr _ _ (h.mono (t := s.setOut x v) rfl id)

theorem sendBody_Rf (rec : Call → St → St) (hr : RfSpec rec) (ds : List Nat) (v : Val) (s : St)
    (h : Rf s) : Rf (sendBody rec ds v s) := by
  unfold sendBody
  cases ds with
  | nil => exact h
  | cons d r => exact hr _ _ (hr _ _ h)

theorem eventBody_Rf (rec : Call → St → St) (hr : RfSpec rec) (d : Nat) (v : Val) (s : St)
    (h : Rf s) : Rf (eventBody rec d v s) := by
  unfold eventBody
  dsimp only
  have h1 : Rf (s.push (.arrive d)) := h.push _ (fun _ => by simp)
  split
  · exact fun _ => refuse_aborted _
  · generalize hs2 : (if 0 ≤ ((s.push (.arrive d)).setActive d true).steps d ∧
        ((s.push (.arrive d)).setActive d true).steps d < 2
      then (rec (.initS d true) (((s.push (.arrive d)).setActive d true).setActive d false)).setActive d true
      else (s.push (.arrive d)).setActive d true) = s2
    have h2 : Rf s2 := by
      rw [← hs2]; split
      · exact (hr _ _ (h1.mono (t := ((s.push (.arrive d)).setActive d true).setActive d false)
          rfl id)).mono rfl id
      · exact h1.mono rfl id
    refine Rf.mono (s := if s2.ok then
      (rec (.setOutput d v) (s2.push (.handle d v (s2.steps d)))).handlerFrame else s2) ?_ rfl id
    split
    · exact (hr _ _ (h2.push _ (fun _ => by simp))).mono (handlerFrame_log _) (handlerFrame_aborted _)
    · exact h2

theorem step1_Rf (c : Cfg) (rec : Call → St → St) (hr : RfSpec rec) (x : Nat) (s : St)
    (h : Rf s) : Rf (step1 c rec x s) := by
  unfold step1
  dsimp only
  have key : ∀ m : St, Rf m → Rf (m.setSteps x 1) := fun m hm => hm.mono rfl id
  apply key
  have ha1 : Rf (s.setSteps x (-1)) := h.mono rfl id
  split
  · exact ha1
  · exact ha1.push _ (fun _ => by simp)
  · exact (hr _ _ (ha1.push _ (fun _ => by simp))).mono rfl id

theorem regularBody_Rf (c : Cfg) (rec : Call → St → St) (hr : RfSpec rec) (x : Nat) (s : St) (h : Rf s) :
    Rf (regularBody c rec x s) := by
  unfold regularBody
  split
  · exact h
  · exact hr _ _ h
  · exact hr _ _ h
  · exact h.mono rfl id
  · split
    · exact h.mono rfl id
    · exact h

theorem initdefBody_Rf (c : Cfg) (rec : Call → St → St) (hr : RfSpec rec) (x : Nat) (s : St) (h : Rf s) :
    Rf (initdefBody c rec x s) := by
  unfold initdefBody
  split
  · split
    · exact hr _ _ (h.push _ (fun _ => by simp))
    · exact h
  · exact h

theorem step2_Rf (c : Cfg) (rec : Call → St → St) (hr : RfSpec rec) (x : Nat) (s : St)
    (h : Rf s) : Rf (step2 c rec x s) := by
  unfold step2
  dsimp only
  have h1 : Rf (regularBody c rec x ((s.setSteps x (-2)).push (.regular x))) :=
    regularBody_Rf c rec hr x _ ((h.mono (t := s.setSteps x (-2)) rfl id).push _ (fun _ => by simp))
  split
  · exact h1
  · have h2 := initdefBody_Rf c rec hr x _ h1
    split
    · exact h2
    · exact h2.mono rfl id

theorem initBody_Rf (c : Cfg) (rec : Call → St → St) (hr : RfSpec rec) (x : Nat) (full : Bool) (s : St)
    (h : Rf s) : Rf (initBody c rec x full s) := by
  unfold initBody
  dsimp only
  generalize hs1 : (if s.steps x = 0 then step1 c rec x s else s) = s1
  have h1 : Rf s1 := by
    rw [← hs1]; split
    · exact step1_Rf c rec hr x s h
    · exact h
  split
  · exact step2_Rf c rec hr x _ h1
  · exact h1

theorem body_Rf (c : Cfg) (rec : Call → St → St) (hr : RfSpec rec) : RfSpec (body c rec) := by
  intro call s h
  unfold body
  split
  · exact h
  · cases call with
    | setOutput x v => exact setOutputBody_Rf c rec hr x v s h
    | send ds v => exact sendBody_Rf rec hr ds v s h
    | event d v => exact eventBody_Rf rec hr d v s h
    | initS x full => exact initBody_Rf c rec hr x full s h

theorem exec_Rf (c : Cfg) : ∀ fuel, RfSpec (exec c fuel)
  | 0 => by
    intro call s h
    simp only [exec]
    split
    · exact (h.push .fuelOut (fun _ => by simp)).mono rfl id
    · exact h
  | fuel + 1 => body_Rf c (exec c fuel) (exec_Rf c fuel)

theorem foldl_Rf {α : Type} (f : St → α → St) (hf : ∀ s a, Rf s → Rf (f s a)) (l : List α) :
    ∀ s, Rf s → Rf (l.foldl f s) := by
  induction l with
  | nil => intro s h; exact h
  | cons a r ih => intro s h; exact ih _ (hf s a h)

theorem run_Rf (c : Cfg) : Rf (run c) := by
  have h0 : Rf init := by intro ⟨d, hd⟩; simp [init] at hd
  have h1 : Rf (phase0 c init) := by
    unfold phase0
    apply foldl_Rf _ _ _ _ h0
    intro s b hs
    split
    · exact hs
    · split
      · exact (exec_Rf c c.fuel _ _ (hs.push _ (fun _ => by simp))).mono (monitor_log _) (monitor_aborted _)
      · exact hs
  have hsync : ∀ s, Rf s → Rf (syncPhase c s) := by
    intro s hs
    unfold syncPhase
    exact foldl_Rf _ (fun s b h => exec_Rf c c.fuel _ _ h) _ _ hs
  have h2 := hsync _ h1
  have h3 : Rf (asyncPhase c (syncPhase c (phase0 c init))) := by
    unfold asyncPhase
    split
    · exact h2
    · dsimp only
      have hp := foldl_Rf (fun s b => s.push (.async b (s.out b).isUndef (c.blk b).timeout))
        (fun s b h => h.push _ (fun _ => by simp)) (eligible c (syncPhase c (phase0 c init))) _ h2
      have hq := foldl_Rf (applyEvent c) (by
        intro s e hs
        unfold applyEvent
        split
        · exact hs
        · split
          · exact hs.push _ (fun _ => by simp)
          · split
            · next v f hv =>
              have := exec_Rf c c.fuel (.setOutput e.blk v) _ (hs.push (.asyncDone e.blk) (fun _ => by simp))
              split
              · exact this.mono (monitor_log _) (monitor_aborted _)
              · exact this.mono rfl id
            · exact hs.push _ (fun _ => by simp)
            · exact hs)
        (schedule ((eligible c (syncPhase c (phase0 c init))).map (mkTask c))).2 _ hp
      split
      · exact hq.mono rfl id
      · exact hq
  have h4 := hsync _ h3
  have h5 : Rf (check c (syncPhase c (asyncPhase c (syncPhase c (phase0 c init))))) := by
    unfold check
    split
    · exact h4
    · split
      · exact h4
      · exact h4.mono rfl id
  show Rf (firstPass c _)
  unfold firstPass
  split
  · exact h5
  · dsimp only; split <;> exact Rf.mono h5 rfl id

end Edzed.Init
