/-
Tie by translation for C17: the programs generated from the CURRENT source of
`_Validation`, `Input`, `InputExp` (EdzedModel/Gen/TranslatedValidate.lean) are instantiated with the
meaning of their primitives (`prims`) and proved equal to the hand-written model
(EdzedModel/Validate.lean).  The theorems of EdzedProps/C17.lean (`TrTie.translated_validate_…`) are
these statements.
-/
import EdzedModel.Validate
import EdzedModel.Gen.TranslatedValidate
import EdzedProofs.Validate

namespace Edzed.ValidateTie
open Edzed.Validate
open Edzed.Gen
open Edzed.Gen.TrV hiding validate calcOutput

/-- the Python class of the model's exception classes (`custom`: any other subclass of Exception) -/
def excName : Exc → PyExc
  | .valueError => "ValueError"
  | .typeError => "TypeError"
  | .keyError => "KeyError"
  | .zeroDivisionError => "ZeroDivisionError"
  | .attributeError => "AttributeError"
  | .custom => "SchemaRefusal"

theorem excName_isException (k : Exc) : excIsA (excName k) "Exception" = true := by
  cases k <;> decide

/-- the entry of the call log for a call through the attribute `tag` -/
def callOf (p : String × Val) : Call :=
  if p.1 == "_check" then .check p.2 else .schema p.2

/-- the name of the model's FSM state -/
def stName : St → Val
  | .valid => Val.str "valid"
  | .expired => Val.str "expired"

/-- … and back (`_check_state` refuses anything else) -/
def stOf (v : Val) : Option St :=
  if v = Val.str "valid" then some .valid else if v = Val.str "expired" then some .expired else none

/-- the saved state of the model as the triple the method receives -/
def savedOf (sv : SavedExp) : Saved := ⟨stName sv.st, sv.remaining, sv.input⟩

/-- what a restore leaves in the object -/
def restoredObj (o : Obj) : RestoreRes → Obj
  | .restored s => { o with state := stName s.st, sdataInput := s.input, output := s.out }
  | _ => o

/-- the meaning of the primitives (everything but `event`) -/
def prims0 : VPrims where
  contains S v :=
    match S with
    | none => M.raise "TypeError"                 -- argument of type 'NoneType' is not iterable
    | some l => if v.hashable then M.pure (l.any fun a => v.pyEq a) else M.raise "TypeError"
  frozenset c :=
    match c with
    | none => M.raise "TypeError"
    | some c => if c.items.all Val.hashable then M.pure c.items else M.raise "TypeError"
  callUser tag f v :=
    match f with
    | none => M.raise "TypeError"                 -- 'NoneType' object is not callable
    | some g =>
      M.bind (M.modify fun o => { o with calls := o.calls ++ [(tag, v)] }) fun _ =>
      match g v with
      | .ok r => M.pure r
      | .error k => M.raise k
  setOutput w :=                                  -- SBlock.set_output (tied in C02)
    if w.isUndef then M.raise "ValueError"
    else M.modify fun o => { o with output := store o.output w }
  event _ _ := M.pure ()
  eventData := M.gets (·.eventValue)
  baseInit kw := M.modify fun o => { o with initdef := kw }
  fsmRestore sv := fun o =>                       -- FSM._restore_state: the model's `fsmRestore`
    match stOf sv.state with
    | none => (o, .raise "EdzedCircuitError")
    | some st =>
      match Validate.fsmRestore ⟨⟨none, none, none⟩, none, o.expired⟩ ⟨st, sv.ts, sv.sdataInput⟩ with
      | .failed => (o, .raise "EdzedCircuitError")
      | r => (restoredObj o r, .next ())

/-- `self.event('put', value=v)` reaches the handler `_event_put` (SBlock.event is tied in C11) -/
def prims : VPrims :=
  { prims0 with
    event := fun name v =>
      if name == "put" then M.bind (M.call (eventPut prims0 v)) fun _ => M.pure ()
      else M.raise "EdzedUnknownEvent" }

/-- a total check function / a schema of the model as user callables -/
def liftCheck (f : Val → Val) : Fn := fun v => .ok (f v)
def liftSchema (s : Val → Except Exc Val) : Fn := fun v => (s v).mapError excName

/-- the exception-level reference: `_validate` with user callables that may raise anything -/
def validateX (allowed : Option (List Val)) (check schema : Option Fn) (v : Val) :
    Except PyExc Val × List (String × Val) :=
  let schemaStage : Except PyExc Val × List (String × Val) :=
    match schema with
    | none => (.ok v, [])
    | some s =>
      match s v with
      | .ok w => (.ok w, [("_schema", v)])
      | .error k => (if excIsA k "Exception" then .error "ValueError" else .error k, [("_schema", v)])
  let checkStage : Except PyExc Val × List (String × Val) :=
    match check with
    | none => schemaStage
    | some f =>
      match f v with
      | .error k => (.error k, [("_check", v)])           -- an exception of the check function propagates
      | .ok r => if r.truthy then (schemaStage.1, ("_check", v) :: schemaStage.2)
                 else (.error "ValueError", [("_check", v)])
  match allowed with
  | none => checkStage
  | some l => if inAllowed l v then checkStage else (.error "ValueError", [])

/-- the outcome of a method that returns a value or raises -/
def outcome : Except PyExc Val → Out Unit
  | .ok w => .ret w
  | .error k => .raise k

set_option linter.unusedSimpArgs false

attribute [local simp] M.bind M.gets M.pure M.tryExcept M.andThen M.orElse M.raise M.ret M.modify M.call
  M.subscript

/-- the translated `_validate` is the exception-level reference, for user callables that may raise
    any exception, on every object state -/
theorem validate_eq (P : VPrims) (hc : P.contains = prims0.contains) (hu : P.callUser = prims0.callUser)
    (v : Val) (o : Obj) :
    TrV.validate P v o =
      ({ o with calls := o.calls ++ (validateX o.allowed o.check o.schema v).2 },
       outcome (validateX o.allowed o.check o.schema v).1) := by
  rcases o with ⟨sc, ch, al, i, out, ex, st, sd, ev, cl⟩
  unfold TrV.validate validateX
  rw [hc, hu]
  have hT : excIsA "TypeError" "TypeError" = true := by decide
  cases al with
  | none =>
    cases ch with
    | none => cases sc with
      | none => simp [prims0, outcome]
      | some s =>
        cases hs : s v with
        | ok w => simp [prims0, outcome, hs]
        | error k => cases hE : excIsA k "Exception" <;> simp [prims0, outcome, hs, hE]
    | some f =>
      cases hf : f v with
      | error k => simp [prims0, outcome, hf]
      | ok r =>
        cases hr : r.truthy
        · simp [prims0, outcome, hf, hr]
        · cases sc with
          | none => simp [prims0, outcome, hf, hr]
          | some s =>
            cases hs : s v with
            | ok w => simp [prims0, outcome, hf, hr, hs]
            | error k => cases hE : excIsA k "Exception" <;> simp [prims0, outcome, hf, hr, hs, hE]
  | some l =>
    cases hh : v.hashable
    · simp [prims0, outcome, inAllowed, hh, hT]
    · cases ha : l.any (fun a => v.pyEq a)
      · simp [prims0, outcome, inAllowed, hh, ha]
      · cases ch with
        | none => cases sc with
          | none => simp [prims0, outcome, inAllowed, hh, ha]
          | some s =>
            cases hs : s v with
            | ok w => simp [prims0, outcome, inAllowed, hh, ha, hs]
            | error k => cases hE : excIsA k "Exception" <;> simp [prims0, outcome, inAllowed, hh, ha, hs, hE]
        | some f =>
          cases hf : f v with
          | error k => simp [prims0, outcome, inAllowed, hh, ha, hf]
          | ok r =>
            cases hr : r.truthy
            · simp [prims0, outcome, inAllowed, hh, ha, hf, hr]
            · cases sc with
              | none => simp [prims0, outcome, inAllowed, hh, ha, hf, hr]
              | some s =>
                cases hs : s v with
                | ok w => simp [prims0, outcome, inAllowed, hh, ha, hf, hr, hs]
                | error k => cases hE : excIsA k "Exception" <;> simp [prims0, outcome, inAllowed, hh, ha, hf, hr, hs, hE]

/-- the tag under which a call of the model's log is recorded -/
def tagOf : Call → String × Val
  | .check v => ("_check", v)
  | .schema v => ("_schema", v)

/-- the result of the model's `validateT` as an outcome of the method -/
def resultX : Option Val → Except PyExc Val
  | some w => .ok w
  | none => .error "ValueError"

/-- the reference restricted to the model's validators (total check, schema raising model classes)
    is the model's `validateT` -/
theorem validateX_model (c : Cfg) (v : Val) :
    validateX c.allowed (c.check.map liftCheck) (c.schema.map liftSchema) v =
      (resultX (validateT c v).1, (validateT c v).2.map tagOf) := by
  rcases c with ⟨al, ch, sc⟩
  unfold validateX validateT checkStage schemaStage
  cases al with
  | none =>
    cases ch with
    | none => cases sc with
      | none => simp [resultX]
      | some s => cases hs : s v <;>
          simp [liftSchema, hs, Except.mapError, Except.toOption, resultX, tagOf, excName_isException]
    | some f =>
      cases hr : (f v).truthy
      · simp [liftCheck, hr, resultX, tagOf]
      · cases sc with
        | none => simp [liftCheck, hr, resultX, tagOf]
        | some s => cases hs : s v <;>
            simp [liftCheck, liftSchema, hr, hs, Except.mapError, Except.toOption, resultX, tagOf,
              excName_isException]
  | some l =>
    cases hl : inAllowed l v
    · simp [hl, resultX]
    · cases ch with
      | none => cases sc with
        | none => simp [hl, resultX]
        | some s => cases hs : s v <;>
            simp [hl, liftSchema, hs, Except.mapError, Except.toOption, resultX, tagOf, excName_isException]
      | some f =>
        cases hr : (f v).truthy
        · simp [hl, liftCheck, hr, resultX, tagOf]
        · cases sc with
          | none => simp [hl, liftCheck, hr, resultX, tagOf]
          | some s => cases hs : s v <;>
              simp [hl, liftCheck, liftSchema, hr, hs, Except.mapError, Except.toOption, resultX, tagOf,
                excName_isException]

/-- the object carries the validators of the model configuration `c` -/
structure Agrees (c : Cfg) (o : Obj) : Prop where
  allowed : o.allowed = c.allowed
  check : o.check = c.check.map liftCheck
  schema : o.schema = c.schema.map liftSchema

theorem prims_contains : prims.contains = prims0.contains := rfl
theorem prims_callUser : prims.callUser = prims0.callUser := rfl

/-- the translated `_validate` IS the model's `validateT`: result and call log -/
theorem validate_is_model' (P : VPrims) (hc : P.contains = prims0.contains)
    (hu : P.callUser = prims0.callUser) (c : Cfg) (o : Obj) (h : Agrees c o) (v : Val) :
    TrV.validate P v o =
      ({ o with calls := o.calls ++ (validateT c v).2.map tagOf }, outcome (resultX (validateT c v).1)) := by
  have hx := validateX_model c v
  rw [← h.allowed, ← h.check, ← h.schema] at hx
  rw [validate_eq P hc hu, hx]

theorem validate_is_model (c : Cfg) (o : Obj) (h : Agrees c o) (v : Val) :
    TrV.validate prims v o =
      ({ o with calls := o.calls ++ (validateT c v).2.map tagOf }, outcome (resultX (validateT c v).1)) :=
  validate_is_model' prims prims_contains prims_callUser c o h v

theorem prims_setOutput : prims.setOutput = prims0.setOutput := rfl

/-- `validate_is_model` in a form whose side conditions `simp` can discharge -/
theorem validate_run (c : Cfg) (v : Val) (o : Obj) (h1 : o.allowed = c.allowed)
    (h2 : o.check = c.check.map liftCheck) (h3 : o.schema = c.schema.map liftSchema) :
    TrV.validate prims v o =
      ({ o with calls := o.calls ++ (validateT c v).2.map tagOf }, outcome (resultX (validateT c v).1)) :=
  validate_is_model c o ⟨h1, h2, h3⟩ v

/-! ### `Input._event_put` -/

/-- the value of the put event / its failure -/
def putOutcome : Res → Out Unit
  | .ret b => .ret (Val.bool b)
  | .abort => .raise "ValueError"

/-- the translated put handler IS the model's `put`: output, return value / failure, calls of user code.
    (`set_output` is outside the `try`: its ValueError for UNDEF is not taken for a refusal) -/
theorem eventPut_eq (P : VPrims) (hc : P.contains = prims0.contains) (hu : P.callUser = prims0.callUser)
    (hs : P.setOutput = prims0.setOutput) (c : Cfg) (o : Obj) (h : Agrees c o) (v : Val) :
    TrV.eventPut P v o =
      ({ o with calls := o.calls ++ (put c o.output v).calls.map tagOf, output := (put c o.output v).out },
       putOutcome (put c o.output v).res) := by
  have hv := validate_is_model' P hc hu c o h v
  have hV : excIsA "ValueError" "ValueError" = true := by decide
  unfold TrV.eventPut
  simp only [M.bind, M.call, M.tryExcept, hv, hs]
  unfold put Validate.validate Validate.calls
  cases hr : (validateT c v).1 with
  | none => simp [outcome, resultX, hV, putOutcome]
  | some w =>
    cases hw : w.isUndef <;> simp [outcome, resultX, prims0, hw, putOutcome]

/-- with user callables that may raise anything: an exception of `check` that is not a ValueError
    leaves the handler (and `SBlock.event` aborts the simulation), a ValueError is a refusal -/
theorem eventPut_eqX (o : Obj) (v : Val) :
    TrV.eventPut prims v o =
      match validateX o.allowed o.check o.schema v with
      | (.ok w, cl) =>
        if w.isUndef then ({ o with calls := o.calls ++ cl }, .raise "ValueError")
        else ({ o with calls := o.calls ++ cl, output := store o.output w }, .ret (Val.bool true))
      | (.error k, cl) =>
        ({ o with calls := o.calls ++ cl }, if excIsA k "ValueError" then .ret (Val.bool false) else .raise k) := by
  have hv := validate_eq prims prims_contains prims_callUser v o
  unfold TrV.eventPut
  simp only [M.bind, M.call, M.tryExcept, hv, prims_setOutput]
  rcases hx : validateX o.allowed o.check o.schema v with ⟨r, cl⟩
  cases r with
  | error k => cases hk : excIsA k "ValueError" <;> simp [outcome, hk]
  | ok w => cases hw : w.isUndef <;> simp [outcome, prims0, hw]

/-! ### constructors -/

def collOf (c : Cfg) : Option Coll := c.allowed.map fun l => ⟨l, !l.isEmpty⟩

/-- `_Validation.__init__`: schema and check are stored as given, `_allowed` is a frozenset COPY of
    the contents of the caller's collection (TypeError for an unhashable member), then the base -/
theorem validationInit_eq (P : VPrims) (hf : P.frozenset = prims0.frozenset) (hb : P.baseInit = prims0.baseInit)
    (sc ch : Option Fn) (al : Option Coll) (kw : Val) (o : Obj) :
    TrV.validationInit P sc ch al kw o =
      match al with
      | none => ({ o with schema := sc, check := ch, allowed := none, initdef := kw }, .next ())
      | some coll =>
        if coll.items.all Val.hashable then
          ({ o with schema := sc, check := ch, allowed := some coll.items, initdef := kw }, .next ())
        else ({ o with schema := sc, check := ch }, .raise "TypeError") := by
  unfold TrV.validationInit
  rw [hf, hb]
  cases al with
  | none => simp [prims0]
  | some coll => cases hh : coll.items.all Val.hashable <;> simp [prims0, hh, -List.all_eq_true]

/-- the object right after `_Validation.__init__` -/
def objInit (c : Cfg) (kw : Val) (o : Obj) : Obj :=
  { o with schema := c.schema.map liftSchema, check := c.check.map liftCheck, allowed := c.allowed, initdef := kw }

theorem objInit_agrees (c : Cfg) (kw : Val) (o : Obj) : Agrees c (objInit c kw o) := ⟨rfl, rfl, rfl⟩

theorem validationInit_cfg (c : Cfg) (kw : Val) (o : Obj) :
    TrV.validationInit prims (c.schema.map liftSchema) (c.check.map liftCheck) (collOf c) kw o =
      if c.allowedHashable then (objInit c kw o, .next ())
      else ({ o with schema := c.schema.map liftSchema, check := c.check.map liftCheck }, .raise "TypeError") := by
  rw [validationInit_eq prims rfl rfl]
  unfold collOf Cfg.allowedHashable objInit
  cases c.allowed with
  | none => simp
  | some l => cases hh : l.all Val.hashable <;> simp [hh, -List.all_eq_true]

/-- the constructor's outcome -/
def ctorOutcome : Except CtorErr Unit → Out Unit
  | .ok () => .next ()
  | .error .typeError => .raise "TypeError"
  | .error .valueError => .raise "ValueError"

/-- `Input.__init__` IS the model's `construct`: same outcome, same calls of user code; on success the
    object carries the validators of `c` (`_allowed` = the contents at construction time) -/
theorem inputInit_eq (c : Cfg) (initdef : Val) (o : Obj) :
    TrV.inputInit prims (c.schema.map liftSchema) (c.check.map liftCheck) (collOf c) initdef o =
      if c.allowedHashable then
        ({ objInit c initdef o with calls := o.calls ++ (construct c initdef).2.map tagOf },
         ctorOutcome (construct c initdef).1)
      else
        ({ o with schema := c.schema.map liftSchema, check := c.check.map liftCheck },
         ctorOutcome (construct c initdef).1) := by
  unfold TrV.inputInit
  simp only [M.bind, M.call, validationInit_cfg]
  cases hh : c.allowedHashable
  · simp [construct, hh, ctorOutcome]
  · cases hu : initdef.isUndef
    · cases hi : (validateT c initdef).1 <;>
        simp [hu, hh, objInit, validate_run c, construct, Validate.validate, Validate.calls, hi, outcome,
          resultX, ctorOutcome]
    · simp [hu, hh, objInit, construct, ctorOutcome]

/-! ### `init_from_value`, `_restore_state` -/

theorem prims_event (v : Val) :
    prims.event "put" v = M.bind (M.call (TrV.eventPut prims0 v)) fun _ => M.pure () := rfl

/-- what `init_from_value` / `_restore_state` leave behind: the put went through the handler -/
def initOutcome : Res → Out Unit
  | .ret _ => .next ()
  | .abort => .raise "ValueError"

theorem inputInitFromValue_eq (c : Cfg) (o : Obj) (h : Agrees c o) (v : Val) :
    TrV.inputInitFromValue prims v o =
      ({ o with calls := o.calls ++ (put c o.output v).calls.map tagOf, output := (put c o.output v).out },
       initOutcome (put c o.output v).res) := by
  unfold TrV.inputInitFromValue
  rw [prims_event]
  simp only [M.bind, M.call, eventPut_eq prims0 rfl rfl rfl c o h v]
  cases (put c o.output v).res <;> simp [putOutcome, initOutcome]

/-- `_restore_state = init_from_value` -/
theorem inputRestoreState_alias : TrV.inputRestoreState = TrV.inputInitFromValue := rfl

/-! ### InputExp -/

/-- the outcome of `InputExp.__init__` -/
def expCtorOutcome : Except CtorErr (Option Val × Val) → Out Unit
  | .ok _ => .next ()
  | .error .typeError => .raise "TypeError"
  | .error .valueError => .raise "ValueError"

/-- the FSM state the block is initialised to (keyword `initdef=` of the base `__init__`) -/
def initState (initdef : Val) : Val := if initdef.isUndef then Val.str "expired" else Val.str "valid"

/-- `InputExp.__init__` IS the model's `constructExp`: outcome, calls of user code (initdef before
    expired), and on success the converted values kept in `sdata['input']` / `_expired` and the
    initial FSM state 'valid' iff an initial value was given -/
theorem expInit_eq (c : Cfg) (initdef expired : Val) (o : Obj) (r : Obj × Out Unit)
    (hr : r = TrV.expInit prims (c.schema.map liftSchema) (c.check.map liftCheck) (collOf c) initdef expired o) :
    r.2 = expCtorOutcome (constructExp c initdef expired).1 ∧
    (c.allowedHashable = true → r.1.calls = o.calls ++ (constructExp c initdef expired).2.map tagOf) ∧
    (∀ inp e, (constructExp c initdef expired).1 = .ok (inp, e) →
      r.1 = { objInit c (initState initdef) o with
              calls := o.calls ++ (constructExp c initdef expired).2.map tagOf,
              sdataInput := if initdef.isUndef then o.sdataInput else inp,
              expired := e }) := by
  unfold TrV.expInit at hr
  simp only [M.bind, M.call, validationInit_cfg] at hr
  cases hh : c.allowedHashable
  · simp [hh] at hr
    rw [hr]
    simp [constructExp, hh, expCtorOutcome]
  · cases hu : initdef.isUndef
    · cases hi : (validateT c initdef).1 with
      | none =>
        simp [hh, hu, objInit, validate_run c, outcome, resultX, hi] at hr
        rw [hr]
        simp [constructExp, hh, hu, Validate.validate, Validate.calls, hi, expCtorOutcome]
      | some w =>
        cases hx : (validateT c expired).1 with
        | none =>
          simp [hh, hu, objInit, validate_run c, outcome, resultX, hi, hx] at hr
          rw [hr]
          simp [constructExp, hh, hu, Validate.validate, Validate.calls, hi, hx, expCtorOutcome]
        | some e =>
          simp [hh, hu, objInit, validate_run c, outcome, resultX, hi, hx] at hr
          rw [hr]
          simp [constructExp, hh, hu, Validate.validate, Validate.calls, hi, hx, expCtorOutcome, objInit,
            initState]
    · cases hx : (validateT c expired).1 with
      | none =>
        simp [hh, hu, objInit, validate_run c, outcome, resultX, hx] at hr
        rw [hr]
        simp [constructExp, hh, hu, Validate.validate, Validate.calls, hx, expCtorOutcome]
      | some e =>
        simp [hh, hu, objInit, validate_run c, outcome, resultX, hx] at hr
        rw [hr]
        simp [constructExp, hh, hu, Validate.validate, Validate.calls, hx, expCtorOutcome, objInit,
          initState]

/-- `fsmRestore` looks at the configuration only through the expired value -/
theorem fsmRestore_congr (e e' : ExpCfg) (h : e.expired = e'.expired) (sv : SavedExp) :
    Validate.fsmRestore e sv = Validate.fsmRestore e' sv := by
  unfold Validate.fsmRestore Validate.calcOutput
  simp only [h]

/-- how a method ends, the class of the exception put aside -/
inductive OutKind where
  | falls | returns | raises
  deriving DecidableEq, Repr

def outKind : Out Unit → OutKind
  | .next _ => .falls
  | .ret _ => .returns
  | .raise _ => .raises

theorem prims_fsmRestore : prims.fsmRestore = prims0.fsmRestore := rfl

/-- `InputExp._restore_state` (the repaired method) IS the model's `restoreExp`: the saved value of a
    'valid' state is validated FIRST – a missing or refused one raises before the FSM restores anything –
    and what the FSM then takes over is the converted value; the calls of user code agree -/
theorem expRestoreState_eq (e : ExpCfg) (o : Obj) (h : Agrees e.v o) (he : o.expired = e.expired)
    (sv : SavedExp) :
    (TrV.expRestoreState prims (savedOf sv) o).1 =
        restoredObj { o with calls := o.calls ++ (restoreExp e sv).2.map tagOf } (restoreExp e sv).1 ∧
    outKind (TrV.expRestoreState prims (savedOf sv) o).2 =
        (match (restoreExp e sv).1 with | .failed => OutKind.raises | _ => OutKind.falls) := by
  have h1 : Val.pyEq (Val.str "valid") (Val.str "valid") = true := by decide
  have h2 : Val.pyEq (Val.str "expired") (Val.str "valid") = false := by decide
  have s1 : stOf (Val.str "valid") = some .valid := by decide
  have s2 : stOf (Val.str "expired") = some .expired := by decide
  have hfs : ∀ (o' : Obj) (sv' : SavedExp), o'.expired = e.expired →
      prims0.fsmRestore (savedOf sv') o' =
        (match Validate.fsmRestore e sv' with
         | .failed => (o', Out.raise "EdzedCircuitError")
         | r => (restoredObj o' r, Out.next ())) := by
    intro o' sv' ho'
    have hc := fsmRestore_congr ⟨⟨none, none, none⟩, none, o'.expired⟩ e ho' sv'
    rcases sv' with ⟨st', rem', inp'⟩
    cases st' <;> simp only [prims0, savedOf, stName, s1, s2, hc]
  rcases sv with ⟨st, rem, input⟩
  unfold TrV.expRestoreState
  rw [prims_fsmRestore]
  cases st with
  | expired =>
    have := hfs o ⟨.expired, rem, input⟩ he
    simp only [savedOf, stName] at this
    cases hr : Validate.fsmRestore e ⟨.expired, rem, input⟩ <;>
      simp [savedOf, stName, h2, restoreExp, this, hr, restoredObj, outKind]
  | valid =>
    cases input with
    | none => simp [savedOf, stName, h1, restoreExp, restoredObj, outKind]
    | some v =>
      have hval := validate_is_model e.v o h v
      cases hv : (validateT e.v v).1 with
      | none =>
        simp [savedOf, stName, h1, hval, hv, outcome, resultX, restoreExp, Validate.validate, Validate.calls,
          restoredObj, outKind]
      | some w =>
        have := hfs { o with calls := o.calls ++ (validateT e.v v).2.map tagOf } ⟨.valid, rem, some w⟩ he
        simp only [savedOf, stName] at this
        cases hr : Validate.fsmRestore e ⟨.valid, rem, some w⟩ <;>
          simp [savedOf, stName, h1, hval, hv, outcome, resultX, restoreExp, Validate.validate, Validate.calls,
            this, hr, restoredObj, outKind]

/-- `cond_put` IS the validating part of the model's `putExp`: the answer of the condition and the
    value kept in `sdata['input']` (nothing is stored for a refused value) -/
theorem condPut_eq (e : ExpCfg) (s : ExpState) (o : Obj) (h : Agrees e.v o) (v : Val)
    (hv : o.eventValue = some v) (hi : o.sdataInput = s.input) :
    TrV.condPut prims o =
      ({ o with calls := o.calls ++ (putExp e s v).2.2.map tagOf, sdataInput := (putExp e s v).1.input },
       .ret (Val.bool (putExp e s v).2.1)) := by
  have hval := validate_is_model e.v o h
  have hV : excIsA "ValueError" "ValueError" = true := by decide
  have hd : prims.eventData = M.gets (·.eventValue) := rfl
  unfold TrV.condPut
  simp only [M.bind, M.call, M.tryExcept, hd, M.gets, hv, M.subscript, M.pure, hval]
  unfold putExp Validate.validate Validate.calls
  cases hr : (validateT e.v v).1 with
  | none => simp [outcome, resultX, hV, hi]
  | some w => simp [outcome, resultX]

/-- an event without the item 'value': `data['value']` raises KeyError -/
theorem condPut_no_value (o : Obj) (hv : o.eventValue = none) :
    TrV.condPut prims o = (o, .raise "KeyError") := by
  have hd : prims.eventData = M.gets (·.eventValue) := rfl
  unfold TrV.condPut
  simp [hd, hv]

/-- `calc_output` IS the model's `calcOutput` -/
theorem calcOutput_eq (e : ExpCfg) (st : St) (input : Option Val) (o : Obj) (hs : o.state = stName st)
    (hi : o.sdataInput = input) (he : o.expired = e.expired) (hv : st = .valid → input.isSome = true) :
    TrV.calcOutput prims o = (o, .ret (Validate.calcOutput e st input)) := by
  have h1 : Val.pyEq (Val.str "valid") (Val.str "valid") = true := by decide
  have h2 : Val.pyEq (Val.str "expired") (Val.str "valid") = false := by decide
  unfold TrV.calcOutput Validate.calcOutput
  cases st with
  | valid =>
    cases input with
    | none => simp at hv
    | some w => simp [hs, hi, stName, h1]
  | expired => simp [hs, he, stName, h2]

end Edzed.ValidateTie
