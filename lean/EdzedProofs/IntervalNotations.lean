/-
C13: further notations of a time of day parse to the endpoint they denote (for every endpoint):
H:M, HH:MM, H:M:S, ISO basic/extended with and without `T`, fractions of 1..6 digits after `.` or `,`.
Core Lean only.
-/
import EdzedModel.Interval
import EdzedProofs.Interval
import EdzedProofs.IntervalText
import EdzedProofs.IntervalString

namespace Edzed.Interval

/-! ### digit strings -/

theorem isDigit_bound {c : Char} (h : isDigit c = true) : 48 ≤ c.toNat ∧ c.toNat ≤ 57 := by
  simpa [isDigit] using h

theorem dval_le {c : Char} (h : isDigit c = true) : dval c ≤ 9 := by
  have := isDigit_bound h; unfold dval; omega

theorem isDigit_props {c : Char} (h : isDigit c = true) :
    isSpace c = false ∧ asciiC c = true ∧ (c == 'T') = false ∧ (c == 'Z') = false ∧ (c == '+') = false ∧
    (c == '-') = false ∧ (c == ':') = false ∧ (c == '.') = false ∧ (c == ',') = false := by
  have hb := isDigit_bound h
  have ne : ∀ d : Char, (d.toNat < 48 ∨ 57 < d.toNat) → (c == d) = false := by
    intro d hd
    simp only [beq_eq_false_iff_ne, ne_eq]
    intro e; rw [e] at hb; omega
  refine ⟨?_, ?_, ne 'T' (by decide), ne 'Z' (by decide), ne '+' (by decide), ne '-' (by decide),
    ne ':' (by decide), ne '.' (by decide), ne ',' (by decide)⟩
  · simp only [isSpace, Bool.or_eq_false_iff, Bool.and_eq_false_iff, decide_eq_false_iff_not]
    constructor <;> omega
  · simp only [asciiC, Bool.and_eq_true, decide_eq_true_eq]; omega

theorem foldl_digits_bound (l : List Char) (hd : ∀ c ∈ l, isDigit c = true) (a : Nat) :
    l.foldl (fun a c => 10 * a + dval c) a + 1 ≤ (a + 1) * 10 ^ l.length := by
  induction l generalizing a with
  | nil => simp
  | cons c t ih =>
    have hc := dval_le (hd c (by simp))
    have := ih (fun x hx => hd x (by simp [hx])) (10 * a + dval c)
    simp only [List.foldl_cons, List.length_cons]
    calc _ ≤ (10 * a + dval c + 1) * 10 ^ t.length := this
      _ ≤ ((a + 1) * 10) * 10 ^ t.length := Nat.mul_le_mul_right _ (by omega)
      _ = (a + 1) * 10 ^ (t.length + 1) := by rw [Nat.mul_assoc, Nat.pow_succ, Nat.mul_comm 10]

theorem numOf_lt (l : List Char) (hd : ∀ c ∈ l, isDigit c = true) : numOf l < 10 ^ l.length := by
  have := foldl_digits_bound l hd 0
  simp only [Nat.zero_add, Nat.one_mul] at this
  exact this

/-- a fraction of 1..6 digits is less than a second -/
theorem fracUs_lt (q : List Char) (hd : ∀ c ∈ q, isDigit c = true) (hl : q.length ≤ 6) :
    fracUs q < 1000000 := by
  have ht : q.take 6 = q := List.take_of_length_le hl
  simp only [fracUs, ht]
  have h1 := numOf_lt q hd
  have h2 : 10 ^ q.length * 10 ^ (6 - q.length) = 1000000 := by
    rw [← Nat.pow_add, show q.length + (6 - q.length) = 6 by omega]
  calc numOf q * 10 ^ (6 - q.length) < 10 ^ q.length * 10 ^ (6 - q.length) :=
        Nat.mul_lt_mul_of_pos_right h1 (Nat.pow_pos (by decide))
    _ = 1000000 := h2

theorem numOf_append_single (l : List Char) (c : Char) : numOf (l ++ [c]) = 10 * numOf l + dval c := by
  simp [numOf, List.foldl_append]

theorem pad_length (k n : Nat) : (pad k n).length = k := by
  induction k generalizing n with
  | zero => rfl
  | succ k ih => simp [pad, ih]

theorem pad_digits (k n : Nat) : ∀ c ∈ pad k n, isDigit c = true := by
  induction k generalizing n with
  | zero => simp [pad]
  | succ k ih =>
    intro c hc
    simp only [pad, List.mem_append, List.mem_singleton] at hc
    rcases hc with hc | hc
    · exact ih _ c hc
    · rw [hc]; exact isDigit_digitChar n

theorem numOf_pad (k n : Nat) : numOf (pad k n) = n % 10 ^ k := by
  induction k generalizing n with
  | zero => simp [pad, numOf, Nat.mod_one]
  | succ k ih =>
    simp only [pad, numOf_append_single, ih, dval_digitChar]
    rw [Nat.pow_succ, Nat.mul_comm (10 ^ k) 10, Nat.mod_mul]
    omega

/-- `k` digits (1..6) denoting `v` are `v · 10^(6−k)` microseconds -/
theorem fracUs_pad (k v : Nat) (hk : k ≤ 6) (hv : v < 10 ^ k) : fracUs (pad k v) = v * 10 ^ (6 - k) := by
  have ht : (pad k v).take 6 = pad k v := List.take_of_length_le (by rw [pad_length]; exact hk)
  simp only [fracUs, ht, numOf_pad, pad_length, Nat.mod_eq_of_lt hv]

theorem natStr_lt10 {n : Nat} (h : n < 10) : natStr n = [digitChar n] := by
  simp [natStr, h, pad]

theorem natStr_ge10 {n : Nat} (h : 10 ≤ n) (h' : n < 100) : natStr n = [digitChar (n / 10), digitChar n] := by
  have : ¬ n < 10 := by omega
  simp [natStr, this, h', pad]

/-! ### from the stripped converter to `convertStr` -/

theorem convertStr_time_of_stripped {s : List Char} {e : Ep} (ha : asciiOk s = true)
    (ht : trimmedB s = true) (h : convertTimeStripped s = .ok e) : convertStr .time s = .ok e := by
  have := strip_padded [] s [] (by simp) (by simp) ht
  simp only [List.nil_append, List.append_nil] at this
  simp [convertStr, ha, convertTimeStr, this, h]

/-- a string `base ++ c :: q` whose last part is a non-empty digit string, `base` starting with a non-blank -/
theorem trimmed_with_digits (x : Char) (base : List Char) (c : Char) (q : List Char) (hx : isSpace x = false)
    (hq : q ≠ []) (hd : ∀ z ∈ q, isDigit z = true) : trimmedB (x :: base ++ c :: q) = true := by
  unfold trimmedB
  have hl : (x :: base ++ c :: q).getLast? = q.getLast? := by
    rw [List.getLast?_append]
    cases q with
    | nil => exact absurd rfl hq
    | cons y ys =>
      rw [List.getLast?_cons_cons]
      cases h : (y :: ys).getLast? with
      | none => simp at h
      | some z => simp
  rw [hl]
  cases hq' : q.getLast? with
  | none => simp [List.getLast?_eq_none_iff] at hq'; exact absurd hq' hq
  | some z =>
    have hz : z ∈ q := List.mem_of_getLast? hq'
    simp [hx, (isDigit_props (hd z hz)).1]

/-! ### notations of a time of day -/

def optT (t : Bool) (s : List Char) : List Char := if t then 'T' :: s else s
/-- `H:M`, one or two digits each -/
def tHM (h m : Nat) : List Char := natStr h ++ ':' :: natStr m
/-- `HH:MM` -/
def tHMp (h m : Nat) : List Char := pad 2 h ++ ':' :: pad 2 m
/-- `HHMM` (ISO basic) -/
def tHMb (h m : Nat) : List Char := pad 2 h ++ pad 2 m
/-- `H:M:S`, one or two digits each -/
def tHMS (h m s : Nat) : List Char := natStr h ++ ':' :: natStr m ++ ':' :: natStr s
/-- `HH:MM:SS` -/
def tHMSp (h m s : Nat) : List Char := pad 2 h ++ ':' :: pad 2 m ++ ':' :: pad 2 s
/-- `HHMMSS` (ISO basic) -/
def tHMSb (h m s : Nat) : List Char := pad 2 h ++ pad 2 m ++ pad 2 s

theorem two_digits (n : Nat) (h : n < 100) : 10 * (n / 10 % 10) + n % 10 = n := by omega

theorem hasTz_cons (c : Char) (l : List Char) :
    hasTz (c :: l) = ((c == 'Z' || c == '+' || c == '-') || hasTz l) := by simp [hasTz]

theorem hasTz_digits (l : List Char) (hd : ∀ z ∈ l, isDigit z = true) : hasTz l = false := by
  simp only [hasTz, List.any_eq_false]
  intro z hz
  have := isDigit_props (hd z hz)
  simp [this.2.2.2.1, this.2.2.2.2.1, this.2.2.2.2.2.1]

theorem asciiOk_cons (c : Char) (l : List Char) : asciiOk (c :: l) = (asciiC c && asciiOk l) := by
  simp [asciiOk]

theorem asciiOk_digits (l : List Char) (hd : ∀ z ∈ l, isDigit z = true) : asciiOk l = true := by
  simp only [asciiOk, List.all_eq_true]
  intro z hz; exact (isDigit_props (hd z hz)).2.1

@[simp] theorem asciiC_comma : asciiC ',' = true := by decide
@[simp] theorem asciiC_T : asciiC 'T' = true := by decide
@[simp] theorem isSpace_T : isSpace 'T' = false := by decide
@[simp] theorem isDigit_T : isDigit 'T' = false := by decide
@[simp] theorem isDigit_comma : isDigit ',' = false := by decide

open Lean.Parser.Tactic in
local macro "tsimp" "[" ts:simpLemma,* "]" : tactic =>
  `(tactic| simp [optT, tHM, tHMp, tHMb, tHMS, tHMSp, tHMSb, pad2, convertStr, asciiOk, convertTimeStr, strip,
      convertTimeStripped, dropT, hasTz, isoHMSF, take2, isoNext, isoFrac, strpTime, field12, Res.ofOption,
      checkEp, validEp, $ts,*])

theorem time_HM_unpadded {h m : Nat} (hh : h < 24) (hm : m < 60) :
    convertStr .time (tHM h m) = .ok [h, m, 0, 0] := by
  have e1 := two_digits h (by omega)
  have e2 := two_digits m (by omega)
  have n1 : ¬ 23 < h := by omega
  have n2 : ¬ 59 < m := by omega
  have v : validTime [h, m, 0, 0] = true := by simp [validTime, hh, hm]
  by_cases c1 : h < 10 <;> by_cases c2 : m < 10
  · have a1 : h % 10 = h := by omega
    have a2 : m % 10 = m := by omega
    tsimp [natStr_lt10 c1, natStr_lt10 c2, a1, a2, n1, n2, v]
  · have a1 : h % 10 = h := by omega
    tsimp [natStr_lt10 c1, natStr_ge10 (Nat.le_of_not_lt c2) (by omega), a1, e2, n1, n2, v]
  · have a2 : m % 10 = m := by omega
    tsimp [natStr_ge10 (Nat.le_of_not_lt c1) (by omega), natStr_lt10 c2, a2, e1, n1, n2, v]
  · tsimp [natStr_ge10 (Nat.le_of_not_lt c1) (by omega), natStr_ge10 (Nat.le_of_not_lt c2) (by omega), e1, e2, v]

theorem time_HM_padded {h m : Nat} (hh : h < 24) (hm : m < 60) (t : Bool) :
    convertStr .time (optT t (tHMp h m)) = .ok [h, m, 0, 0] ∧
    convertStr .time (optT t (tHMb h m)) = .ok [h, m, 0, 0] := by
  have e1 := two_digits h (by omega)
  have e2 := two_digits m (by omega)
  have v : validTime [h, m, 0, 0] = true := by simp [validTime, hh, hm]
  cases t <;> constructor <;> tsimp [e1, e2, v]

theorem time_HMS_padded {h m s : Nat} (hh : h < 24) (hm : m < 60) (hs : s < 60) (t : Bool) :
    convertStr .time (optT t (tHMSp h m s)) = .ok [h, m, s, 0] ∧
    convertStr .time (optT t (tHMSb h m s)) = .ok [h, m, s, 0] := by
  have e1 := two_digits h (by omega)
  have e2 := two_digits m (by omega)
  have e3 := two_digits s (by omega)
  have v : validTime [h, m, s, 0] = true := by simp [validTime, hh, hm, hs]
  cases t <;> constructor <;> tsimp [e1, e2, e3, v]

theorem time_HMS_unpadded {h m s : Nat} (hh : h < 24) (hm : m < 60) (hs : s < 60) :
    convertStr .time (tHMS h m s) = .ok [h, m, s, 0] := by
  have e1 := two_digits h (by omega)
  have e2 := two_digits m (by omega)
  have e3 := two_digits s (by omega)
  have n1 : ¬ 23 < h := by omega
  have n2 : ¬ 59 < m := by omega
  have n3 : ¬ 59 < s := by omega
  have v : validTime [h, m, s, 0] = true := by simp [validTime, hh, hm, hs]
  have l1 : h < 10 → natStr h = [digitChar h] ∧ h % 10 = h := fun c => ⟨natStr_lt10 c, by omega⟩
  have l2 : m < 10 → natStr m = [digitChar m] ∧ m % 10 = m := fun c => ⟨natStr_lt10 c, by omega⟩
  have l3 : s < 10 → natStr s = [digitChar s] ∧ s % 10 = s := fun c => ⟨natStr_lt10 c, by omega⟩
  have g1 : ¬ h < 10 → natStr h = [digitChar (h / 10), digitChar h] := fun c => natStr_ge10 (by omega) (by omega)
  have g2 : ¬ m < 10 → natStr m = [digitChar (m / 10), digitChar m] := fun c => natStr_ge10 (by omega) (by omega)
  have g3 : ¬ s < 10 → natStr s = [digitChar (s / 10), digitChar s] := fun c => natStr_ge10 (by omega) (by omega)
  by_cases c1 : h < 10 <;> by_cases c2 : m < 10 <;> by_cases c3 : s < 10
  · tsimp [(l1 c1).1, (l1 c1).2, (l2 c2).1, (l2 c2).2, (l3 c3).1, (l3 c3).2, n1, n2, n3, v]
  · tsimp [(l1 c1).1, (l1 c1).2, (l2 c2).1, (l2 c2).2, g3 c3, e3, n1, n2, n3, v]
  · tsimp [(l1 c1).1, (l1 c1).2, g2 c2, e2, (l3 c3).1, (l3 c3).2, n1, n2, n3, v]
  · tsimp [(l1 c1).1, (l1 c1).2, g2 c2, e2, g3 c3, e3, n1, n2, n3, v]
  · tsimp [g1 c1, e1, (l2 c2).1, (l2 c2).2, (l3 c3).1, (l3 c3).2, n1, n2, n3, v]
  · tsimp [g1 c1, e1, (l2 c2).1, (l2 c2).2, g3 c3, e3, n1, n2, n3, v]
  · tsimp [g1 c1, e1, g2 c2, e2, (l3 c3).1, (l3 c3).2, n1, n2, n3, v]
  · tsimp [g1 c1, e1, g2 c2, e2, g3 c3, e3, n1, n2, n3, v]

/-! ### fractions of a second: 1..6 digits after `.` or `,` -/

theorem strpFrac_digits (q : List Char) (hq : q ≠ []) (hd : ∀ z ∈ q, isDigit z = true) (hl : q.length ≤ 6) :
    strpFrac q = some (fracUs q) := by
  have h1 : 1 ≤ q.length := by
    cases q with
    | nil => exact absurd rfl hq
    | cons _ _ => simp
  have : q.all isDigit = true := List.all_eq_true.2 hd
  simp [strpFrac, h1, hl, this]

theorem trimmed_append_digits (B : List Char) (c : Char) (q : List Char)
    (hB : (B.head?.map isSpace) = some false) (hq : q ≠ []) (hd : ∀ z ∈ q, isDigit z = true) :
    trimmedB (B ++ c :: q) = true := by
  cases B with
  | nil => simp at hB
  | cons x t =>
    simp only [List.head?_cons, Option.map_some, Option.some.injEq] at hB
    exact trimmed_with_digits x t c q hB hq hd

open Lean.Parser.Tactic in
local macro "fsimp" "[" ts:simpLemma,* "]" : tactic =>
  `(tactic| simp [optT, tHMS, tHMSp, tHMSb, pad2, convertTimeStripped, dropT, hasTz_cons, isoHMSF, take2, isoNext,
      isoFrac, strpTime, field12, Res.ofOption, checkEp, validEp, $ts,*])

/-- everything the proofs below need about a digit string `x :: xs` -/
theorem digit_string_facts (x : Char) (xs : List Char) (hd : ∀ z ∈ x :: xs, isDigit z = true) :
    isDigit x = true ∧ xs.all isDigit = true ∧ (∀ z ∈ xs, isDigit z = true) ∧ hasTz xs = false ∧
    (x == 'Z') = false ∧ (x == '+') = false ∧ (x == '-') = false :=
  have hx := hd x (by simp)
  have hxs : ∀ z ∈ xs, isDigit z = true := fun z hz => hd z (by simp [hz])
  have p := isDigit_props hx
  ⟨hx, List.all_eq_true.2 hxs, hxs, hasTz_digits xs hxs, p.2.2.2.1, p.2.2.2.2.1, p.2.2.2.2.2.1⟩

theorem time_fraction_padded_core {h m s : Nat} (hh : h < 24) (hm : m < 60) (hs : s < 60) (t : Bool)
    (c : Char) (hc : c = '.' ∨ c = ',') (q : List Char) (hq : q ≠ [])
    (hd : ∀ z ∈ q, isDigit z = true) (hl : q.length ≤ 6) :
    convertTimeStripped (optT t (tHMSp h m s) ++ c :: q) = .ok [h, m, s, fracUs q] ∧
    convertTimeStripped (optT t (tHMSb h m s) ++ c :: q) = .ok [h, m, s, fracUs q] := by
  have e1 := two_digits h (by omega)
  have e2 := two_digits m (by omega)
  have e3 := two_digits s (by omega)
  have hf := fracUs_lt q hd hl
  have v : validTime [h, m, s, fracUs q] = true := by simp [validTime, hh, hm, hs, hf]
  cases q with
  | nil => exact absurd rfl hq
  | cons x xs =>
    obtain ⟨f1, f2, f3, f4, f5, f6, f7⟩ := digit_string_facts x xs hd
    rcases hc with rfl | rfl <;> cases t <;> constructor <;>
      fsimp [e1, e2, e3, v, f1, f2, f3, f4, f5, f6, f7]

theorem time_fraction_unpadded_core {h m s : Nat} (hh : h < 24) (hm : m < 60) (hs : s < 60)
    (c : Char) (hc : c = '.' ∨ c = ',') (q : List Char) (hq : q ≠ [])
    (hd : ∀ z ∈ q, isDigit z = true) (hl : q.length ≤ 6) :
    convertTimeStripped (tHMS h m s ++ c :: q) = .ok [h, m, s, fracUs q] := by
  have e1 := two_digits h (by omega)
  have e2 := two_digits m (by omega)
  have e3 := two_digits s (by omega)
  have n1 : ¬ 23 < h := by omega
  have n2 : ¬ 59 < m := by omega
  have n3 : ¬ 59 < s := by omega
  have hf := fracUs_lt q hd hl
  have v : validTime [h, m, s, fracUs q] = true := by simp [validTime, hh, hm, hs, hf]
  have sf := strpFrac_digits q hq hd hl
  have l1 : h < 10 → natStr h = [digitChar h] ∧ h % 10 = h := fun c => ⟨natStr_lt10 c, by omega⟩
  have l2 : m < 10 → natStr m = [digitChar m] ∧ m % 10 = m := fun c => ⟨natStr_lt10 c, by omega⟩
  have l3 : s < 10 → natStr s = [digitChar s] ∧ s % 10 = s := fun c => ⟨natStr_lt10 c, by omega⟩
  have g1 : ¬ h < 10 → natStr h = [digitChar (h / 10), digitChar h] := fun c => natStr_ge10 (by omega) (by omega)
  have g2 : ¬ m < 10 → natStr m = [digitChar (m / 10), digitChar m] := fun c => natStr_ge10 (by omega) (by omega)
  have g3 : ¬ s < 10 → natStr s = [digitChar (s / 10), digitChar s] := fun c => natStr_ge10 (by omega) (by omega)
  cases q with
  | nil => exact absurd rfl hq
  | cons x xs =>
    obtain ⟨f1, f2, f3, f4, f5, f6, f7⟩ := digit_string_facts x xs hd
    rcases hc with rfl | rfl <;> by_cases c1 : h < 10 <;> by_cases c2 : m < 10 <;> by_cases c3 : s < 10
    all_goals first
      | fsimp [(l1 c1).1, (l1 c1).2, (l2 c2).1, (l2 c2).2, (l3 c3).1, (l3 c3).2, n1, n2, n3, v, sf, f1, f2, f3, f4, f5, f6, f7]
      | fsimp [(l1 c1).1, (l1 c1).2, (l2 c2).1, (l2 c2).2, g3 c3, e3, n1, n2, n3, v, sf, f1, f2, f3, f4, f5, f6, f7]
      | fsimp [(l1 c1).1, (l1 c1).2, g2 c2, e2, (l3 c3).1, (l3 c3).2, n1, n2, n3, v, sf, f1, f2, f3, f4, f5, f6, f7]
      | fsimp [(l1 c1).1, (l1 c1).2, g2 c2, e2, g3 c3, e3, n1, n2, n3, v, sf, f1, f2, f3, f4, f5, f6, f7]
      | fsimp [g1 c1, e1, (l2 c2).1, (l2 c2).2, (l3 c3).1, (l3 c3).2, n1, n2, n3, v, sf, f1, f2, f3, f4, f5, f6, f7]
      | fsimp [g1 c1, e1, (l2 c2).1, (l2 c2).2, g3 c3, e3, n1, n2, n3, v, sf, f1, f2, f3, f4, f5, f6, f7]
      | fsimp [g1 c1, e1, g2 c2, e2, (l3 c3).1, (l3 c3).2, n1, n2, n3, v, sf, f1, f2, f3, f4, f5, f6, f7]
      | fsimp [g1 c1, e1, g2 c2, e2, g3 c3, e3, n1, n2, n3, v, sf, f1, f2, f3, f4, f5, f6, f7]

theorem natStr_digits {n : Nat} (h : n < 100) : ∀ z ∈ natStr n, isDigit z = true := by
  by_cases c : n < 10
  · simp [natStr_lt10 c]
  · simp [natStr_ge10 (Nat.le_of_not_lt c) h]

theorem natStr_head {n : Nat} (h : n < 100) (rest : List Char) :
    ((natStr n ++ rest).head?.map isSpace) = some false := by
  by_cases c : n < 10
  · simp [natStr_lt10 c]
  · simp [natStr_ge10 (Nat.le_of_not_lt c) h]

/-- the five base notations of `h:m:s` to which a fraction may be appended -/
def timeBases (h m s : Nat) : List (List Char) :=
  [tHMS h m s, tHMSp h m s, 'T' :: tHMSp h m s, tHMSb h m s, 'T' :: tHMSb h m s]

theorem timeBases_clean {h m s : Nat} (hh : h < 24) (hm : m < 60) (hs : s < 60) :
    ∀ b ∈ timeBases h m s, asciiOk b = true ∧ (b.head?.map isSpace) = some false := by
  intro b hb
  simp only [timeBases, List.mem_cons, List.not_mem_nil, or_false] at hb
  rcases hb with rfl | rfl | rfl | rfl | rfl
  · refine ⟨?_, by simp only [tHMS, List.append_assoc]; exact natStr_head (show h < 100 by omega) _⟩
    simp only [tHMS, asciiOk_append, asciiOk_cons, asciiOk_digits _ (natStr_digits (show h < 100 by omega)),
      asciiOk_digits _ (natStr_digits (show m < 100 by omega)),
      asciiOk_digits _ (natStr_digits (show s < 100 by omega)), asciiC_colon, Bool.and_self]
  · simp [tHMSp, pad2, asciiOk]
  · simp [tHMSp, pad2, asciiOk]
  · simp [tHMSb, pad2, asciiOk]
  · simp [tHMSb, pad2, asciiOk]

/-- `H:M:S`, `HH:MM:SS`, `THH:MM:SS`, `HHMMSS`, `THHMMSS`, each followed by `.` or `,` and 1..6 digits:
    the digits, right-padded with zeros, are the microseconds -/
theorem time_fraction_notations {h m s : Nat} (hh : h < 24) (hm : m < 60) (hs : s < 60)
    (c : Char) (hc : c = '.' ∨ c = ',') (q : List Char) (hq : q ≠ [])
    (hd : ∀ z ∈ q, isDigit z = true) (hl : q.length ≤ 6) :
    ∀ b ∈ timeBases h m s, convertStr .time (b ++ c :: q) = .ok [h, m, s, fracUs q] := by
  intro b hb
  obtain ⟨ha, hh'⟩ := timeBases_clean hh hm hs b hb
  have hca : asciiC c = true := by rcases hc with rfl | rfl <;> decide
  apply convertStr_time_of_stripped
  · simp [asciiOk_append, asciiOk_cons, ha, hca, asciiOk_digits q hd]
  · exact trimmed_append_digits b c q hh' hq hd
  · have p := time_fraction_padded_core hh hm hs false c hc q hq hd hl
    have pT := time_fraction_padded_core hh hm hs true c hc q hq hd hl
    simp only [timeBases, List.mem_cons, List.not_mem_nil, or_false] at hb
    rcases hb with rfl | rfl | rfl | rfl | rfl
    · exact time_fraction_unpadded_core hh hm hs c hc q hq hd hl
    · simpa [optT] using p.1
    · simpa [optT] using pT.1
    · simpa [optT] using p.2
    · simpa [optT] using pT.2

/-! ### date-time notations -/

theorem convertStr_datetime_of_stripped {s : List Char} {e : Ep} (ha : asciiOk s = true)
    (ht : trimmedB s = true) (h : convertDateTimeStripped s = .ok e) : convertStr .datetime s = .ok e := by
  have := strip_padded [] s [] (by simp) (by simp) ht
  simp only [List.nil_append, List.append_nil] at this
  simp [convertStr, ha, convertDateTimeStr, this, h]

@[simp] theorem digitChar_ne_W (n : Nat) : (digitChar n == 'W') = false := by
  have hb := isDigit_bound (isDigit_digitChar n)
  simp only [beq_eq_false_iff_ne, ne_eq]
  intro e; rw [e] at hb; revert hb; decide

/-- ISO 8601 extended: `YYYY-MM-DDTHH:MM:SS[.ffffff]` -/
def isoExt : Ep → List Char
  | [y, mo, d, h, mi, s, us] => pad 4 y ++ '-' :: pad 2 mo ++ '-' :: pad 2 d ++ 'T' :: renderTime [h, mi, s, us]
  | _ => []

theorem iso_ext_core {e : Ep} (h : validDateTime e = true) :
    convertDateTimeStripped (isoExt e) = .ok e := by
  obtain ⟨y, mo, d, hh, mi, s, us, rfl, h1, h2, h3, h4, h5, h6, ht⟩ := validDateTime_shape h
  obtain ⟨_, _, _, _, hte, t1, t2, t3, t4⟩ := validTime_shape ht
  cases hte
  have ey : 10 * (10 * (10 * (y / 1000 % 10) + y / 100 % 10) + y / 10 % 10) + y % 10 = y := by omega
  have emo : 10 * (mo / 10 % 10) + mo % 10 = mo := by omega
  have ed : 10 * (d / 10 % 10) + d % 10 = d := by omega
  have e1 := two_digits hh (by omega)
  have e2 := two_digits mi (by omega)
  have e3 := two_digits s (by omega)
  have e4 : 10 * (10 * (10 * (10 * (10 * (us / 100000 % 10) + us / 10000 % 10) + us / 1000 % 10)
      + us / 100 % 10) + us / 10 % 10) + us % 10 = us := by omega
  by_cases hus : us = 0
  · subst hus
    simp [isoExt, renderTime, pad2, pad4, convertDateTimeStripped, isoDateTime, isoDateTimeRaw, take4digits, take2digits,
      hasTz, isoHMSF, take2, isoNext, numOf, ey, emo, ed, e1, e2, e3, h]
  · simp [isoExt, renderTime, pad2, pad4, pad6, hus, convertDateTimeStripped, isoDateTime, isoDateTimeRaw, take4digits,
      take2digits, hasTz, isoHMSF, take2, isoNext, isoFrac, fracUs, numOf, ey, emo, ed, e1, e2, e3, e4, h]


theorem iso_ext_clean {e : Ep} (h : validDateTime e = true) :
    asciiOk (isoExt e) = true ∧ trimmedB (isoExt e) = true := by
  obtain ⟨y, mo, d, hh, mi, s, us, rfl, -⟩ := validDateTime_shape h
  by_cases hus : us = 0
  · simp [isoExt, renderTime, pad2, pad4, asciiOk, trimmedB, hus]
  · simp [isoExt, renderTime, pad2, pad4, pad6, asciiOk, trimmedB, hus]

/-- traditional notation `D. Mon YYYY HH:MM:SS[.ffffff]` with a three-letter month name `a b c` -/
def tradDMY (a b c : Char) : Ep → List Char
  | [y, _, d, h, mi, s, us] =>
    natStr d ++ '.' :: ' ' :: a :: b :: c :: ' ' :: pad 4 y ++ ' ' :: renderTime [h, mi, s, us]
  | _ => []

theorem isAlpha_props {c : Char} (h : isAlpha c = true) :
    isDigit c = false ∧ isSpace c = false ∧ asciiC c = true ∧ (c == ':') = false ∧ (c == '-') = false ∧
    (c == '.') = false := by
  have hb : (65 ≤ c.toNat ∧ c.toNat ≤ 90) ∨ (97 ≤ c.toNat ∧ c.toNat ≤ 122) := by
    simpa [isAlpha, isUpper, isLower] using h
  have ne : ∀ d : Char, (d.toNat < 65 ∨ (90 < d.toNat ∧ d.toNat < 97) ∨ 122 < d.toNat) → (c == d) = false := by
    intro d hd
    simp only [beq_eq_false_iff_ne, ne_eq]
    intro e; rw [e] at hb; omega
  refine ⟨?_, ?_, ?_, ne ':' (by decide), ne '-' (by decide), ne '.' (by decide)⟩
  · simp only [isDigit, Bool.and_eq_false_iff, decide_eq_false_iff_not]; omega
  · simp only [isSpace, Bool.or_eq_false_iff, Bool.and_eq_false_iff, decide_eq_false_iff_not]
    constructor <;> omega
  · simp only [asciiC, Bool.and_eq_true, decide_eq_true_eq]; omega

@[simp] theorem isAlpha_space : isAlpha ' ' = false := by decide
@[simp] theorem isAlpha_dot : isAlpha '.' = false := by decide
@[simp] theorem isAlpha_colon : isAlpha ':' = false := by decide

theorem trad_core (a b c : Char) (ha : isAlpha a = true) (hb : isAlpha b = true) (hc : isAlpha c = true)
    (hT : a ≠ 'T' ∧ b ≠ 'T' ∧ c ≠ 'T') {e : Ep} (h : validDateTime e = true)
    (hm : nameToMonth [a, b, c] = some (e.getD 1 0)) :
    convertDateTimeStripped (tradDMY a b c e) = .ok e := by
  obtain ⟨y, mo, d, hh, mi, s, us, rfl, h1, h2, h3, h4, h5, h6, ht⟩ := validDateTime_shape h
  have hcore := parse_render_time_core ht
  obtain ⟨_, _, _, _, hte, t1, t2, t3, t4⟩ := validTime_shape ht
  cases hte
  obtain ⟨a1, a2, a3, a4, a5, a6⟩ := isAlpha_props ha
  obtain ⟨b1, b2, b3, b4, b5, b6⟩ := isAlpha_props hb
  obtain ⟨c1, c2, c3, c4, c5, c6⟩ := isAlpha_props hc
  have ey : 10 * (10 * (10 * (y / 1000 % 10) + y / 100 % 10) + y / 10 % 10) + y % 10 = y := by omega
  have ed := two_digits d (by omega)
  simp only [List.getD_cons_succ, List.getD_cons_zero] at hm
  by_cases hus : us = 0 <;> by_cases hd : d < 10
  · subst hus
    have dd : d % 10 = d := by omega
    simp [renderTime, pad2] at hcore
    simp [tradDMY, natStr_lt10 hd, renderTime, pad2, pad4, convertDateTimeStripped, convertDateTimeCore, dateTimeRaw,
      search, searchGo, reTime, hourColon, digits12, optSeconds, optFraction, removeMatch, reYMD, reYear, take4digits,
      monthDay, reIsoDM, reMonth, reDay, periodNext, convertTimeStr, hcore, numOf, strip, ey, dd, checkEp, validEp, h,
      a1, a4, a5, b1, b4, b5, c1, c4, c5, ha, hb, hc, hm, hT.1.symm, hT.2.1.symm, hT.2.2.symm]
  · subst hus
    simp [renderTime, pad2] at hcore
    simp [tradDMY, natStr_ge10 (Nat.le_of_not_lt hd) (by omega), renderTime, pad2, pad4, convertDateTimeStripped, convertDateTimeCore, dateTimeRaw,
      search, searchGo, reTime, hourColon, digits12, optSeconds, optFraction, removeMatch, reYMD, reYear, take4digits,
      monthDay, reIsoDM, reMonth, reDay, periodNext, convertTimeStr, hcore, numOf, strip, ey, ed, checkEp, validEp, h,
      a1, a4, a5, b1, b4, b5, c1, c4, c5, ha, hb, hc, hm, hT.1.symm, hT.2.1.symm, hT.2.2.symm]
  · have dd : d % 10 = d := by omega
    simp [renderTime, pad2, pad6, hus] at hcore
    simp [tradDMY, natStr_lt10 hd, renderTime, pad2, pad4, pad6, hus, convertDateTimeStripped, convertDateTimeCore, dateTimeRaw,
      search, searchGo, reTime, hourColon, digits12, optSeconds, optFraction, removeMatch, reYMD, reYear, take4digits,
      monthDay, reIsoDM, reMonth, reDay, periodNext, convertTimeStr, hcore, numOf, strip, ey, dd, checkEp, validEp, h,
      a1, a4, a5, b1, b4, b5, c1, c4, c5, ha, hb, hc, hm, hT.1.symm, hT.2.1.symm, hT.2.2.symm]
  · simp [renderTime, pad2, pad6, hus] at hcore
    simp [tradDMY, natStr_ge10 (Nat.le_of_not_lt hd) (by omega), renderTime, pad2, pad4, pad6, hus, convertDateTimeStripped, convertDateTimeCore, dateTimeRaw,
      search, searchGo, reTime, hourColon, digits12, optSeconds, optFraction, removeMatch, reYMD, reYear, take4digits,
      monthDay, reIsoDM, reMonth, reDay, periodNext, convertTimeStr, hcore, numOf, strip, ey, ed, checkEp, validEp, h,
      a1, a4, a5, b1, b4, b5, c1, c4, c5, ha, hb, hc, hm, hT.1.symm, hT.2.1.symm, hT.2.2.symm]

theorem trad_clean (a b c : Char) (ha : isAlpha a = true) (hb : isAlpha b = true) (hc : isAlpha c = true)
    {e : Ep} (h : validDateTime e = true) :
    asciiOk (tradDMY a b c e) = true ∧ trimmedB (tradDMY a b c e) = true := by
  obtain ⟨y, mo, d, hh, mi, s, us, rfl, h1, h2, h3, h4, h5, h6, -⟩ := validDateTime_shape h
  have a3 := (isAlpha_props ha).2.2.1
  have b3 := (isAlpha_props hb).2.2.1
  have c3 := (isAlpha_props hc).2.2.1
  by_cases hus : us = 0 <;> by_cases hd : d < 10
  · simp [tradDMY, natStr_lt10 hd, renderTime, pad2, pad4, asciiOk, trimmedB, hus, a3, b3, c3]
  · simp [tradDMY, natStr_ge10 (Nat.le_of_not_lt hd) (by omega), renderTime, pad2, pad4, asciiOk, trimmedB, hus, a3, b3, c3]
  · simp [tradDMY, natStr_lt10 hd, renderTime, pad2, pad4, pad6, asciiOk, trimmedB, hus, a3, b3, c3]
  · simp [tradDMY, natStr_ge10 (Nat.le_of_not_lt hd) (by omega), renderTime, pad2, pad4, pad6, asciiOk, trimmedB, hus, a3, b3, c3]

/-- the three-letter abbreviation `date_to_string` uses -/
def monthAbbr (mo : Nat) : List Char := (Gen.monthNamesC.getD mo []).take 3

def abbrOk (mo : Nat) : Bool :=
  match monthAbbr mo with
  | [a, b, c] => isAlpha a && isAlpha b && isAlpha c && a != 'T' && b != 'T' && c != 'T' &&
      nameToMonth [a, b, c] == some mo && nameToMonth [toLower a, toLower b, toLower c] == some mo &&
      isAlpha (toLower a) && isAlpha (toLower b) && isAlpha (toLower c) &&
      toLower a != 'T' && toLower b != 'T' && toLower c != 'T'
  | _ => false

theorem abbr_table : ∀ mo, mo < 13 → 1 ≤ mo → abbrOk mo = true := by decide +kernel

/-- `D. Mon YYYY HH:MM:SS[.ffffff]` with the month abbreviated as `as_string()` does, optionally in lower case -/
def tradCanon (lower : Bool) (e : Ep) : List Char :=
  match monthAbbr (e.getD 1 0) with
  | [a, b, c] => if lower then tradDMY (toLower a) (toLower b) (toLower c) e else tradDMY a b c e
  | _ => []

theorem trad_canon {e : Ep} (h : validDateTime e = true) (lower : Bool) :
    convertStr .datetime (tradCanon lower e) = .ok e := by
  obtain ⟨y, mo, d, hh, mi, s, us, rfl, h1, h2, h3, h4, h5, h6, ht⟩ := validDateTime_shape h
  have ht := abbr_table mo (by omega) h3
  unfold abbrOk at ht
  unfold tradCanon
  simp only [List.getD_cons_succ, List.getD_cons_zero]
  split at ht
  · next a b c hab =>
    simp only [Bool.and_eq_true, bne_iff_ne, ne_eq, beq_iff_eq] at ht
    obtain ⟨⟨⟨⟨⟨⟨⟨⟨⟨⟨⟨⟨⟨ha, hb⟩, hc⟩, ta⟩, tb⟩, tc⟩, hm⟩, hml⟩, la⟩, lb⟩, lc⟩, tla⟩, tlb⟩, tlc⟩ := ht
    cases lower
    · simp only [Bool.false_eq_true, ↓reduceIte]
      obtain ⟨c1, c2⟩ := trad_clean a b c ha hb hc h
      exact convertStr_datetime_of_stripped c1 c2 (trad_core a b c ha hb hc ⟨ta, tb, tc⟩ h (by simpa using hm))
    · simp only [↓reduceIte]
      obtain ⟨c1, c2⟩ := trad_clean _ _ _ la lb lc h
      exact convertStr_datetime_of_stripped c1 c2 (trad_core _ _ _ la lb lc ⟨tla, tlb, tlc⟩ h (by simpa using hml))
  · cases ht

theorem iso_ext {e : Ep} (h : validDateTime e = true) : convertStr .datetime (isoExt e) = .ok e :=
  convertStr_datetime_of_stripped (iso_ext_clean h).1 (iso_ext_clean h).2 (iso_ext_core h)

/-! ### the spaced hyphen between texts that contain hyphens (date-times) -/

/-- no blank is immediately followed by a hyphen -/
def noSpHy : List Char → Bool
  | a :: b :: t => !(a == ' ' && b == '-') && noSpHy (b :: t)
  | _ => true

theorem splitGo_spaced' (a b cur : List Char) (h : noSpHy a = true) :
    splitGo [' ', '-', ' '] (a ++ ' ' :: '-' :: ' ' :: b) 0 cur =
      (cur.reverse ++ a) :: splitGo [' ', '-', ' '] b 0 [] := by
  induction a generalizing cur with
  | nil => simp [splitGo, List.isPrefixOf]
  | cons x a' ih =>
    have hp : [' ', '-', ' '].isPrefixOf (x :: (a' ++ ' ' :: '-' :: ' ' :: b)) = false := by
      cases a' with
      | nil => simp [List.isPrefixOf]
      | cons y a'' =>
        simp only [noSpHy, Bool.and_eq_true, Bool.not_eq_true', Bool.and_eq_false_iff] at h
        rcases h.1 with e | e
        · have : (' ' == x) = false := by rw [beq_eq_false_iff_ne] at e ⊢; exact fun c => e c.symm
          simp [List.isPrefixOf, this]
        · have : ('-' == y) = false := by rw [beq_eq_false_iff_ne] at e ⊢; exact fun c => e c.symm
          simp [List.isPrefixOf, this]
    have ha' : noSpHy a' = true := by
      cases a' with
      | nil => rfl
      | cons y a'' => simp only [noSpHy, Bool.and_eq_true] at h; exact h.2
    simp only [List.cons_append, splitGo, hp, Bool.false_eq_true, ↓reduceIte]
    rw [ih _ ha']
    simp

theorem splitGo_noSpHy (s cur : List Char) (h : noSpHy s = true) :
    splitGo [' ', '-', ' '] s 0 cur = [cur.reverse ++ s] := by
  induction s generalizing cur with
  | nil => simp [splitGo]
  | cons x t ih =>
    have hp : [' ', '-', ' '].isPrefixOf (x :: t) = false := by
      cases t with
      | nil => simp [List.isPrefixOf]
      | cons y t' =>
        simp only [noSpHy, Bool.and_eq_true, Bool.not_eq_true', Bool.and_eq_false_iff] at h
        rcases h.1 with e | e
        · have : (' ' == x) = false := by rw [beq_eq_false_iff_ne] at e ⊢; exact fun c => e c.symm
          simp [List.isPrefixOf, this]
        · have : ('-' == y) = false := by rw [beq_eq_false_iff_ne] at e ⊢; exact fun c => e c.symm
          simp [List.isPrefixOf, this]
    have ht : noSpHy t = true := by
      cases t with
      | nil => rfl
      | cons y t' => simp only [noSpHy, Bool.and_eq_true] at h; exact h.2
    simp only [splitGo, hp, Bool.false_eq_true, ↓reduceIte]
    rw [ih _ ht]; simp

/-- blanks in front do not matter when the text does not start with a hyphen -/
theorem noSpHy_pre (p s : List Char) (hp : ∀ c ∈ p, c = ' ') (hs : noSpHy s = true)
    (hh : s.head? ≠ some '-') : noSpHy (p ++ s) = true := by
  induction p with
  | nil => exact hs
  | cons x p' ih =>
    have ih' := ih (fun c hc => hp c (by simp [hc]))
    cases hps : p' ++ s with
    | nil => rw [List.cons_append, hps]; rfl
    | cons y t =>
      rw [List.cons_append, hps, noSpHy, ← hps, ih']
      have hy : y ≠ '-' := by
        cases p' with
        | nil => simp at hps; rw [hps] at hh; simpa using hh
        | cons z p'' =>
          have : y = z := by simp at hps; exact hps.1.symm
          rw [this, hp z (by simp)]; decide
      simp [hy]

theorem noSpHy_post (s q : List Char) (hq : ∀ c ∈ q, c = ' ') (hs : noSpHy s = true) :
    noSpHy (s ++ q) = true := by
  induction s with
  | nil =>
    simp only [List.nil_append]
    induction q with
    | nil => rfl
    | cons x q' ih =>
      cases q' with
      | nil => rfl
      | cons y q'' =>
        have := ih (fun c hc => hq c (by simp [hc]))
        simp only [noSpHy, this, Bool.and_true]
        rw [hq y (by simp)]; simp
  | cons x t ih =>
    cases t with
    | nil =>
      cases q with
      | nil => rfl
      | cons y q' =>
        have := ih rfl
        simp only [List.nil_append] at this
        simp only [List.cons_append, List.nil_append, noSpHy, this, Bool.and_true]
        rw [hq y (by simp)]; simp
    | cons y t' =>
      simp only [noSpHy, Bool.and_eq_true] at hs
      have := ih hs.2
      simp only [List.cons_append] at this ⊢
      simp only [noSpHy, hs.1, this, Bool.and_self]

@[simp] theorem digitChar_ne_blank (n : Nat) : digitChar n ≠ ' ' :=
  (digit_facts2 (n % 10) (Nat.mod_lt _ (by decide))).2.2.2

theorem noSpHy_renderDateTime {e : Ep} (h : validDateTime e = true) :
    noSpHy (renderDateTime e) = true ∧ (renderDateTime e).head? ≠ some '-' := by
  obtain ⟨y, mo, d, hh, mi, s, us, rfl, -⟩ := validDateTime_shape h
  by_cases hus : us = 0
  · simp [renderDateTime, renderTime, pad2, pad4, noSpHy, hus]
  · simp [renderDateTime, renderTime, pad2, pad4, pad6, noSpHy, hus]

/-- separator ` - ` between two date-times in canonical notation (their hyphens are never preceded by a blank) -/
theorem parseRangeStr_spaced_datetime {a b : Ep} (ha : validDateTime a = true) (hb : validDateTime b = true)
    (p1 q1 p2 q2 : List Char) (h1 : ∀ c ∈ p1, c = ' ') (h2 : ∀ c ∈ q1, c = ' ')
    (h3 : ∀ c ∈ p2, c = ' ') (h4 : ∀ c ∈ q2, c = ' ') :
    parseRangeStr .datetime ((p1 ++ renderDateTime a ++ q1) ++ ' ' :: '-' :: ' ' :: (p2 ++ renderDateTime b ++ q2))
      = .ok (a, b) := by
  obtain ⟨-, -, sa, -⟩ := renderClean_facts (renderClean_render (k := .datetime) ha)
  obtain ⟨-, -, sb, -⟩ := renderClean_facts (renderClean_render (k := .datetime) hb)
  simp only [render] at sa sb
  have hL := not_mem_padded (x := '/') (by decide) h1 h2 sa
  have hR := not_mem_padded (x := '/') (by decide) h3 h4 sb
  have nL : noSpHy (p1 ++ renderDateTime a ++ q1) = true :=
    noSpHy_post _ _ h2 (noSpHy_pre _ _ h1 (noSpHy_renderDateTime ha).1 (noSpHy_renderDateTime ha).2)
  have nR : noSpHy (p2 ++ renderDateTime b ++ q2) = true :=
    noSpHy_post _ _ h4 (noSpHy_pre _ _ h3 (noSpHy_renderDateTime hb).1 (noSpHy_renderDateTime hb).2)
  have hno : splitOn ['/'] ((p1 ++ renderDateTime a ++ q1) ++ ' ' :: '-' :: ' ' :: (p2 ++ renderDateTime b ++ q2)) =
      [(p1 ++ renderDateTime a ++ q1) ++ ' ' :: '-' :: ' ' :: (p2 ++ renderDateTime b ++ q2)] := by
    apply splitOn_none; refine ⟨'/', by simp, ?_⟩
    simp only [List.mem_append, List.mem_cons, not_or] at hL hR ⊢
    exact ⟨hL, by decide, by decide, by decide, hR⟩
  have hsplit : splitOn [' ', '-', ' ']
      ((p1 ++ renderDateTime a ++ q1) ++ ' ' :: '-' :: ' ' :: (p2 ++ renderDateTime b ++ q2)) =
      [p1 ++ renderDateTime a ++ q1, p2 ++ renderDateTime b ++ q2] := by
    unfold splitOn
    rw [splitGo_spaced' _ _ [] nL, splitGo_noSpHy _ [] nR]; simp
  have e1 := convertStr_render_padded (k := .datetime) ha p1 q1 h1 h2
  have e2 := convertStr_render_padded (k := .datetime) hb p2 q2 h3 h4
  simp only [render] at e1 e2
  simp only [parseRangeStr, seps_eq, firstSplit2, hno, hsplit, e1, e2, Res.bind_ok]

end Edzed.Interval
