/- helper lemmas for C03: what `nested`, `runSends`, `runCbs` and `loop` preserve -/
import EdzedModel.Fsm
import EdzedModel.Gen.Constants

namespace Edzed.Fsm

/-- everything but `_next_event` is the same -/
def Same (f g : Fsm) : Prop := g.state = f.state ∧ g.output = f.output ∧ g.active = f.active

theorem Same.refl (f : Fsm) : Same f f := ⟨rfl, rfl, rfl⟩
theorem Same.trans {f g h : Fsm} (a : Same f g) (b : Same g h) : Same f h :=
  ⟨b.1.trans a.1, b.2.1.trans a.2.1, b.2.2.trans a.2.2⟩

theorem nested_cases (d : Def) (f : Fsm) (e : EType) (data : Data) :
    (∃ l r, check d f e data = (l, .error r) ∧ nested d f e data = (f, r, l)) ∨
    (∃ l tgt, check d f e data = (l, .ok tgt) ∧
      ((∃ x, f.next = some x ∧ nested d f e data = (f, .errMultiple, l)) ∨
       (f.next = none ∧ nested d f e data = ({ f with next := some ⟨e, data, tgt⟩ }, .accepted, l)))) := by
  unfold nested
  rcases hc : check d f e data with ⟨l, r | tgt⟩
  · left; exact ⟨l, r, rfl, rfl⟩
  · right
    refine ⟨l, tgt, rfl, ?_⟩
    cases hn : f.next with
    | none => right; simp
    | some x => left; exact ⟨x, rfl, by simp⟩

theorem nested_same (d : Def) (f : Fsm) (e : EType) (data : Data) :
    Same f (nested d f e data).1 := by
  rcases nested_cases d f e data with ⟨l, r, _, h⟩ | ⟨l, tgt, _, ⟨x, _, h⟩ | ⟨_, h⟩⟩ <;>
    rw [h] <;> exact ⟨rfl, rfl, rfl⟩

theorem runSends_same (d : Def) (f : Fsm) (sends : List Send) :
    Same f (runSends d f sends).1 := by
  induction sends generalizing f with
  | nil => exact Same.refl f
  | cons s rest ih =>
    unfold runSends
    have h1 := nested_same d f s.etype s.data
    rcases hn : nested d f s.etype s.data with ⟨f1, r, l⟩
    rw [hn] at h1
    simp only
    split
    · exact h1
    · have h2 := ih f1
      rcases hr : runSends d f1 rest with ⟨f2, e2, l2⟩
      rw [hr] at h2
      exact h1.trans h2

theorem runCbs_same (d : Def) (s : State) (seen : Data) (f : Fsm) (cbs : List (Who × List Send)) :
    Same f (runCbs d s seen f cbs).1 := by
  induction cbs generalizing f with
  | nil => exact Same.refl f
  | cons c rest ih =>
    obtain ⟨w, sends⟩ := c
    unfold runCbs
    have h1 := runSends_same d f sends
    rcases hr : runSends d f sends with ⟨f1, _ | r, l1⟩
    · rw [hr] at h1
      have h2 := ih f1
      rcases hc : runCbs d s seen f1 rest with ⟨f2, e2, l2⟩
      rw [hc] at h2
      simp only [hc]
      exact h1.trans h2
    · rw [hr] at h1; exact h1


theorem runSends_err (d : Def) (f : Fsm) (sends : List Send) (r : Res)
    (h : (runSends d f sends).2.1 = some r) : r.isError = true := by
  induction sends generalizing f with
  | nil => simp [runSends] at h
  | cons s rest ih =>
    unfold runSends at h
    rcases hn : nested d f s.etype s.data with ⟨f1, r1, l⟩
    simp only [hn] at h
    split at h
    · next he => simp at h; rw [← h]; exact he
    · rcases hr : runSends d f1 rest with ⟨f2, e2, l2⟩
      simp only [hr] at h
      exact ih f1 (by rw [hr]; exact h)

theorem runCbs_err (d : Def) (s : State) (seen : Data) (f : Fsm) (cbs : List (Who × List Send)) (r : Res)
    (h : (runCbs d s seen f cbs).2.1 = some r) : r.isError = true := by
  induction cbs generalizing f with
  | nil => simp [runCbs] at h
  | cons c rest ih =>
    obtain ⟨w, sends⟩ := c
    unfold runCbs at h
    have h1 := runSends_err d f sends
    rcases hr : runSends d f sends with ⟨f1, _ | r1, l1⟩
    · simp only [hr] at h
      rcases hc : runCbs d s seen f1 rest with ⟨f2, e2, l2⟩
      simp only [hc] at h
      exact ih f1 (by rw [hc]; exact h)
    · simp only [hr] at h h1
      simp at h; rw [← h]; exact h1 r1 rfl

/-- what entering a state guarantees -/
theorem enterState_props (d : Def) (f : Fsm) (cur : Req) (l0 : List Action) :
    (enterState d f cur l0).1.output = f.output ∧ (enterState d f cur l0).1.active = f.active ∧
    (enterState d f cur l0).1.state = some cur.target ∧
    ((enterState d f cur l0).2.1 = .done → (enterState d f cur l0).1.next = none) ∧
    ((enterState d f cur l0).2.1 = .again → (enterState d f cur l0).1.next.isSome = true) ∧
    (∀ r, (enterState d f cur l0).2.1 = .fail r → r.isError = true) := by
  unfold enterState
  generalize hf0 : ({ f with next := none, state := some cur.target } : Fsm) = f0
  have hs := runCbs_same d cur.target cur.data f0 (entersOf d cur.target)
  have he := runCbs_err d cur.target cur.data f0 (entersOf d cur.target)
  rcases hr : runCbs d cur.target cur.data f0 (entersOf d cur.target) with ⟨f1, _ | r, l1⟩
  · rw [hr] at hs he
    obtain ⟨hs1, hs2, hs3⟩ := hs
    subst hf0
    simp only at hs1 hs2 hs3
    simp only
    cases hn : f1.next with
    | some x => simp [hs1, hs2, hs3, hn]
    | none =>
      simp only
      cases ht : timedOf d cur.target with
      | none => simp [hs1, hs2, hs3, hn]
      | some tz =>
        obtain ⟨tev, zero⟩ := tz
        simp only
        cases zero with
        | false => simp [hs1, hs2, hs3, hn]
        | true =>
          simp only [if_true]
          have hs' := nested_same d f1 tev []
          rcases hnn : nested d f1 tev [] with ⟨f2, r, l3⟩
          rw [hnn] at hs'
          obtain ⟨ht1, ht2, ht3⟩ := hs'
          simp only at ht1 ht2 ht3
          simp only
          cases hre : r.isError with
          | true => simp [ht1, ht2, ht3, hs1, hs2, hs3, hre]
          | false =>
            simp only [Bool.false_eq_true, if_false]
            cases hn2 : f2.next with
            | some x => simp [ht1, ht2, ht3, hs1, hs2, hs3, hn2]
            | none => simp [ht1, ht2, ht3, hs1, hs2, hs3, hn2]
  · rw [hr] at hs he
    obtain ⟨hs1, hs2, hs3⟩ := hs
    subst hf0
    simp only at hs1 hs2 hs3
    simp [hs1, hs2, hs3]
    exact he r rfl


theorem iter_eq (d : Def) (f : Fsm) (cur : Req) :
    iter d f cur =
      ((enterState d f (unpack f cur) (unpackLog d f ++ [Action.setState (unpack f cur).target])).1,
        unpack f cur,
       (enterState d f (unpack f cur) (unpackLog d f ++ [Action.setState (unpack f cur).target])).2.1,
       (enterState d f (unpack f cur) (unpackLog d f ++ [Action.setState (unpack f cur).target])).2.2) := by
  unfold iter
  rfl

/-- unfolding of one pass of `loop` in terms of `enterState` -/
theorem loop_succ (d : Def) (n : Nat) (f : Fsm) (cur : Req) :
    loop d (n + 1) f cur =
      match enterState d f (unpack f cur) (unpackLog d f ++ [Action.setState (unpack f cur).target]) with
      | (f1, .fail r, l) => (f1, some r, l)
      | (f1, .done, l) => (f1, none, l)
      | (f1, .again, l) => ((loop d n f1 (unpack f cur)).1, (loop d n f1 (unpack f cur)).2.1,
          l ++ (loop d n f1 (unpack f cur)).2.2) := by
  rw [loop, iter_eq]
  rcases enterState d f (unpack f cur) (unpackLog d f ++ [Action.setState (unpack f cur).target]) with ⟨f1, st, l⟩
  cases st <;> rfl

theorem loop_props (d : Def) (n : Nat) (f : Fsm) (cur : Req) :
    (loop d n f cur).1.output = f.output ∧ (loop d n f cur).1.active = f.active ∧
    ((loop d n f cur).2.1 = none → (loop d n f cur).1.next = none ∧ (loop d n f cur).1.state.isSome = true) ∧
    (∀ r, (loop d n f cur).2.1 = some r → r.isError = true) := by
  induction n generalizing f cur with
  | zero => simp [loop, Res.isError]
  | succ n ih =>
    rw [loop_succ]
    have hp := enterState_props d f (unpack f cur) (unpackLog d f ++ [Action.setState (unpack f cur).target])
    rcases he : enterState d f (unpack f cur) (unpackLog d f ++ [Action.setState (unpack f cur).target]) with ⟨f1, st, l⟩
    rw [he] at hp
    obtain ⟨h1, h2, h3, h4, h5, h6⟩ := hp
    simp only at h1 h2 h3 h4 h5 h6
    cases st with
    | fail r => simp [h1, h2]; exact h6 r rfl
    | done => simp [h1, h2, h3, h4]
    | again =>
      simp only
      have := ih f1 (unpack f cur)
      obtain ⟨i1, i2, i3, i4⟩ := this
      exact ⟨i1.trans h1, i2.trans h2, i3, i4⟩


/-! ### the two halves of `_ctx_event` -/

theorem ctxEvent_check_error (d : Def) (f : Fsm) (e : EType) (data : Data) (l : List Action) (r : Res)
    (h : check d f e data = (l, .error r)) : ctxEvent d f e data = (f, r, l) := by
  unfold ctxEvent nested
  simp [h]

theorem ctxEvent_check_ok (d : Def) (f : Fsm) (e : EType) (data : Data) (l : List Action) (tgt : State)
    (h : check d f e data = (l, .ok tgt)) (ha : f.active = false) (hn : f.next = none) :
    ctxEvent d f e data =
      ((transition d f e data tgt).1, (transition d f e data tgt).2.1,
        l ++ leaveLog d f data ++ (transition d f e data tgt).2.2) := by
  unfold ctxEvent
  simp only [ha, h, hn, Bool.false_eq_true, if_false]

theorem ctxEvent_stale_next (d : Def) (f : Fsm) (e : EType) (data : Data) (l : List Action) (tgt : State)
    (x : Req) (h : check d f e data = (l, .ok tgt)) (ha : f.active = false) (hn : f.next = some x) :
    ctxEvent d f e data = (f, .errAssert, l ++ leaveLog d f data) := by
  unfold ctxEvent
  simp [ha, h, hn]

theorem transition_res (d : Def) (f : Fsm) (e : EType) (data : Data) (tgt : State) :
    (transition d f e data tgt).2.1 = .accepted ∨ (transition d f e data tgt).2.1.isError = true := by
  unfold transition
  have hp := loop_props d d.chainLimit { f with active := true } ⟨e, data, tgt⟩
  rcases hl : loop d d.chainLimit { f with active := true } ⟨e, data, tgt⟩ with ⟨f1, _ | r, l1⟩
  · simp only
    cases f1.state with
    | none => right; rfl
    | some s => left; rfl
  · right; rw [hl] at hp; exact hp.2.2.2 r rfl

theorem nested_res (d : Def) (f : Fsm) (e : EType) (data : Data) (l : List Action) (tgt : State)
    (h : check d f e data = (l, .ok tgt)) :
    (nested d f e data).2.1 = .accepted ∨ (nested d f e data).2.1.isError = true := by
  rcases nested_cases d f e data with ⟨l', r, h', _⟩ | ⟨l', tgt', _, ⟨x, _, hh⟩ | ⟨_, hh⟩⟩
  · rw [h] at h'; simp at h'
  · right; rw [hh]; rfl
  · left; rw [hh]

/-- once the first half has passed the event is never reported as rejected -/
theorem ctxEvent_passed (d : Def) (f : Fsm) (e : EType) (data : Data) (l : List Action) (tgt : State)
    (h : check d f e data = (l, .ok tgt)) :
    (ctxEvent d f e data).2.1 = .accepted ∨ (ctxEvent d f e data).2.1.isError = true := by
  cases ha : f.active with
  | true =>
    have : ctxEvent d f e data = nested d f e data := by simp [ctxEvent, ha]
    rw [this]; exact nested_res d f e data l tgt h
  | false =>
    cases hn : f.next with
    | none => rw [ctxEvent_check_ok d f e data l tgt h ha hn]; exact transition_res d f e data tgt
    | some x => rw [ctxEvent_stale_next d f e data l tgt x h ha hn]; right; rfl


/-! ### the first half: table lookup and conditions -/

/-- the documented acceptance condition of a table event: a target exists (specific rule, else
    any-state rule) and, on an initialised FSM, every condition returns a true value -/
def Passes (d : Def) (f : Fsm) (name : EvName) (data : Data) : Prop :=
  ∃ s t, f.state = some s ∧ lookup d.toTables name s = some t ∧
    (f.output.isUndef = false → ∀ c ∈ condsOf d name, (c.2.eval data).truthy = true)

theorem check_ev_cases (d : Def) (f : Fsm) (name : EvName) (data : Data) (s : State)
    (hev : d.events.contains name = true) (hs : f.state = some s) :
    (lookup d.toTables name s = none ∧ check d f (.ev name) data = ([.notrans name s], .error .rejected)) ∨
    (∃ t, lookup d.toTables name s = some t ∧ f.output.isUndef = true ∧
      check d f (.ev name) data = ([], .ok t)) ∨
    (∃ t, lookup d.toTables name s = some t ∧ f.output.isUndef = false ∧
      (∀ c ∈ condsOf d name, (c.2.eval data).truthy = true) ∧
      check d f (.ev name) data = (condLog d name data, .ok t)) ∨
    (∃ t, lookup d.toTables name s = some t ∧ f.output.isUndef = false ∧
      (¬ ∀ c ∈ condsOf d name, (c.2.eval data).truthy = true) ∧
      check d f (.ev name) data = (condLog d name data, .error .rejected)) := by
  unfold check
  simp only [hev, hs, Bool.not_true, Bool.false_eq_true, if_false]
  cases hl : lookup d.toTables name s with
  | none => left; simp
  | some t =>
    right
    cases hu : f.output.isUndef with
    | true => left; exact ⟨t, rfl, rfl, by simp⟩
    | false =>
      right
      by_cases hall : (condsOf d name).all (fun c => (c.2.eval data).truthy) = true
      · left
        refine ⟨t, rfl, rfl, ?_, by simp [hall]⟩
        simpa [List.all_eq_true] using hall
      · right
        refine ⟨t, rfl, rfl, ?_, by simp [hall]⟩
        intro h
        apply hall
        simpa [List.all_eq_true] using h

theorem check_unknown (d : Def) (f : Fsm) (name : EvName) (data : Data)
    (hev : d.events.contains name = false) :
    check d f (.ev name) data = ([], .error .unknownEvent) := by
  unfold check; simp only [hev, Bool.not_false, ↓reduceIte]

theorem check_goto (d : Def) (f : Fsm) (s : State) (data : Data) :
    check d f (.goto s) data =
      if d.states.contains s then ([], .ok s) else ([], .error .errBadState) := rfl


/-! ### output and flags after a transition -/

theorem setOutput_same (f : Fsm) (v : Val) :
    (setOutput f v).1.state = f.state ∧ (setOutput f v).1.next = f.next ∧
    (setOutput f v).1.active = f.active := by
  unfold setOutput
  split
  · exact ⟨rfl, rfl, rfl⟩
  · split <;> exact ⟨rfl, rfl, rfl⟩

theorem setOutput_log_congr (f g : Fsm) (v : Val) (h : g.output = f.output) :
    (setOutput g v).2 = (setOutput f v).2 ∧ (setOutput g v).1.output = (setOutput f v).1.output := by
  unfold setOutput
  rw [h]
  split
  · exact ⟨rfl, h⟩
  · split
    · exact ⟨rfl, h⟩
    · exact ⟨rfl, rfl⟩

/-- shape of the result of `transition` -/
theorem transition_cases (d : Def) (f : Fsm) (e : EType) (data : Data) (tgt : State) :
    (∃ f1 r l1, loop d d.chainLimit { f with active := true } ⟨e, data, tgt⟩ = (f1, some r, l1) ∧
      r.isError = true ∧ f1.output = f.output ∧
      transition d f e data tgt = ({ f1 with active := false }, r, l1)) ∨
    (∃ f1 s l1, loop d d.chainLimit { f with active := true } ⟨e, data, tgt⟩ = (f1, none, l1) ∧
      f1.state = some s ∧ f1.next = none ∧ f1.output = f.output ∧
      transition d f e data tgt =
        ({ (setOutput f1 (calcOutput d s)).1 with active := false }, .accepted,
          l1 ++ (setOutput f1 (calcOutput d s)).2
            ++ [Action.onEnter s (setOutput f1 (calcOutput d s)).1.output])) := by
  unfold transition
  have hp := loop_props d d.chainLimit { f with active := true } ⟨e, data, tgt⟩
  rcases hl : loop d d.chainLimit { f with active := true } ⟨e, data, tgt⟩ with ⟨f1, _ | r, l1⟩
  · right
    rw [hl] at hp
    obtain ⟨h1, _, h3, _⟩ := hp
    obtain ⟨hn, hs⟩ := h3 rfl
    simp only at hn hs h1
    cases hst : f1.state with
    | none => rw [hst] at hs; cases hs
    | some s => exact ⟨f1, s, l1, rfl, hst, hn, h1, by simp only [hst]⟩
  · left
    rw [hl] at hp
    exact ⟨f1, r, l1, rfl, hp.2.2.2 r rfl, hp.1, rfl⟩


theorem run_cons (d : Def) (f : Fsm) (e : EType) (data : Data) (rest : List (EType × Data)) :
    run d f ((e, data) :: rest) =
      ((run d (ctxEvent d f e data).1 rest).1,
        ((ctxEvent d f e data).2.1, (ctxEvent d f e data).2.2) :: (run d (ctxEvent d f e data).1 rest).2) := by
  rw [run]


/-! ### the transition table -/

/-- at most one entry per (event, from-state) key, like the dict `_ct_transition` -/
def KeysUnique (tr : TransTable) : Prop :=
  tr.Pairwise (fun a b => ¬ (a.1 = b.1 ∧ a.2.1 = b.2.1))

theorem tget_some_mem (tr : TransTable) (e : EvName) (k : Option State) (t : Option State)
    (h : tget tr e k = some t) : (e, k, t) ∈ tr := by
  unfold tget at h
  cases hf : tr.find? (fun r => r.1 == e && r.2.1 == k) with
  | none => rw [hf] at h; simp at h
  | some r =>
    rw [hf] at h
    have hm := List.mem_of_find?_eq_some hf
    have hp := List.find?_some hf
    simp at hp h
    obtain ⟨a, b, c⟩ := r
    simp at hp h
    rw [← hp.1, ← hp.2, ← h]; exact hm

theorem tget_none_of_not_mem (tr : TransTable) (e : EvName) (k : Option State)
    (h : ∀ t, (e, k, t) ∉ tr) : tget tr e k = none := by
  cases hg : tget tr e k with
  | none => rfl
  | some t => exact absurd (tget_some_mem tr e k t hg) (h t)

theorem tget_of_mem (tr : TransTable) (e : EvName) (k : Option State) (t : Option State)
    (hu : KeysUnique tr) (h : (e, k, t) ∈ tr) : tget tr e k = some t := by
  induction tr with
  | nil => simp at h
  | cons r rest ih =>
    unfold tget
    rw [List.find?_cons]
    unfold KeysUnique at hu
    rw [List.pairwise_cons] at hu
    cases hm : (r.1 == e && r.2.1 == k) with
    | true =>
      simp only [Option.map_some]
      simp at hm
      rcases List.mem_cons.mp h with h | h
      · rw [← h]
      · have := hu.1 (e, k, t) h
        simp only at this
        exact absurd ⟨hm.1, hm.2⟩ this
    | false =>
      simp only
      rcases List.mem_cons.mp h with h | h
      · rw [← h] at hm; simp at hm
      · exact ih hu.2 h

theorem lookup_specific' (t : Tables) (e : EvName) (s : State) (tgt : Option State)
    (hu : KeysUnique t.trans) (h : (e, some s, tgt) ∈ t.trans) : lookup t e s = tgt := by
  unfold lookup; rw [tget_of_mem _ _ _ _ hu h]

theorem lookup_any' (t : Tables) (e : EvName) (s : State) (tgt : Option State)
    (hu : KeysUnique t.trans) (hno : ∀ x, (e, some s, x) ∉ t.trans) (h : (e, none, tgt) ∈ t.trans) :
    lookup t e s = tgt := by
  unfold lookup
  rw [tget_none_of_not_mem _ _ _ hno, tget_of_mem _ _ _ _ hu h]

theorem lookup_missing' (t : Tables) (e : EvName) (s : State)
    (hno : ∀ x, (e, some s, x) ∉ t.trans) (hno' : ∀ x, (e, none, x) ∉ t.trans) :
    lookup t e s = none := by
  unfold lookup
  rw [tget_none_of_not_mem _ _ _ hno, tget_none_of_not_mem _ _ _ hno']

/-- a target found by the lookup is the target of some table entry -/
theorem lookup_some_mem (t : Tables) (e : EvName) (s tgt : State) (h : lookup t e s = some tgt) :
    ∃ k, (e, k, some tgt) ∈ t.trans := by
  unfold lookup at h
  cases h1 : tget t.trans e (some s) with
  | some x => rw [h1] at h; simp at h; exact ⟨some s, by rw [← h]; exact tget_some_mem _ _ _ _ h1⟩
  | none =>
    rw [h1] at h
    cases h2 : tget t.trans e none with
    | some x => rw [h2] at h; simp at h; exact ⟨none, by rw [← h]; exact tget_some_mem _ _ _ _ h2⟩
    | none => rw [h2] at h; simp at h


/-! ### `_build_tables` -/

/-- the tables are a function (event, state) -> target, every target is a state, there is at
    least one state and the chain limit is three times their number -/
def Tables.WF (t : Tables) : Prop :=
  KeysUnique t.trans ∧ (∀ a ∈ t.trans, ∀ x, a.2.2 = some x → x ∈ t.states) ∧
  t.states ≠ [] ∧ t.chainLimit = 3 * t.states.length

def TInv (states : List State) (tr : TransTable) : Prop :=
  KeysUnique tr ∧ ∀ a ∈ tr, ∀ x, a.2.2 = some x → x ∈ states

theorem tget_none_keys (tr : TransTable) (e : EvName) (k : Option State)
    (h : (tget tr e k).isSome = false) : ∀ a ∈ tr, ¬ (a.1 = e ∧ a.2.1 = k) := by
  intro a ha hk
  unfold tget at h
  cases hf : tr.find? (fun r => r.1 == e && r.2.1 == k) with
  | some r => rw [hf] at h; simp at h
  | none =>
    have := List.find?_eq_none.mp hf a ha
    simp [hk.1, hk.2] at this

theorem addTransition_ok (states : List State) (tr tr' : TransTable) (e : EvName) (fr to : Option State)
    (h : addTransition states tr e fr to = .ok tr') :
    tr' = tr ++ [(e, fr, to)] ∧ (tget tr e fr).isSome = false := by
  unfold addTransition at h
  cases fr with
  | none =>
    simp only at h
    split at h
    · cases h
    · next hg => simp at h hg; exact ⟨h.symm, by simp [hg]⟩
  | some s =>
    simp only at h
    split at h
    · cases h
    · split at h
      · cases h
      · next hg => simp at h hg; exact ⟨h.symm, by simp [hg]⟩

theorem TInv_add (states : List State) (tr tr' : TransTable) (e : EvName) (fr to : Option State)
    (hi : TInv states tr) (hto : ∀ x, to = some x → x ∈ states)
    (h : addTransition states tr e fr to = .ok tr') : TInv states tr' := by
  obtain ⟨h1, h2⟩ := addTransition_ok states tr tr' e fr to h
  subst h1
  refine ⟨?_, ?_⟩
  · unfold KeysUnique
    rw [List.pairwise_append]
    refine ⟨hi.1, List.pairwise_singleton _ _, ?_⟩
    intro a ha b hb
    simp at hb
    subst hb
    exact tget_none_keys tr e fr h2 a ha
  · intro a ha x hx
    rcases List.mem_append.mp ha with ha | ha
    · exact hi.2 a ha x hx
    · simp at ha; subst ha; exact hto x hx

theorem TInv_addFroms (states : List State) (e : EvName) (to : Option State)
    (hto : ∀ x, to = some x → x ∈ states) (tr tr' : TransTable) (l : List State)
    (hi : TInv states tr) (h : addFroms states e to tr l = .ok tr') : TInv states tr' := by
  induction l generalizing tr with
  | nil => simp [addFroms] at h; subst h; exact hi
  | cons s rest ih =>
    unfold addFroms at h
    cases ha : addTransition states tr e (some s) to with
    | error x => rw [ha] at h; cases h
    | ok tr1 =>
      rw [ha] at h
      exact ih tr1 (TInv_add states tr tr1 e (some s) to hi hto ha) h

theorem TInv_addRule (states : List State) (acc acc' : List EvName × TransTable) (r : RawRule)
    (hi : TInv states acc.2) (h : addRule states acc r = .ok acc') : TInv states acc'.2 := by
  unfold addRule at h
  cases hok : targetOk states r.to with
  | false => simp [hok] at h
  | true =>
    simp only [hok, if_true] at h
    have hto : ∀ x, r.to = some x → x ∈ states := by
      intro x hx
      rw [hx] at hok
      simpa [targetOk] using hok
    cases hf : r.froms with
    | none =>
      simp only [hf] at h
      cases ha : addTransition states acc.2 r.ev none r.to with
      | error x => rw [ha] at h; cases h
      | ok tr1 =>
        rw [ha] at h; cases h
        exact TInv_add states acc.2 tr1 r.ev none r.to hi hto ha
    | some l =>
      simp only [hf] at h
      cases ha : addFroms states r.ev r.to acc.2 l with
      | error x => rw [ha] at h; cases h
      | ok tr1 =>
        rw [ha] at h; cases h
        exact TInv_addFroms states r.ev r.to hto acc.2 tr1 l hi ha

theorem TInv_addRules (states : List State) (acc acc' : List EvName × TransTable) (rs : List RawRule)
    (hi : TInv states acc.2) (h : addRules states acc rs = .ok acc') : TInv states acc'.2 := by
  induction rs generalizing acc with
  | nil => simp [addRules] at h; subst h; exact hi
  | cons r rest ih =>
    unfold addRules at h
    cases ha : addRule states acc r with
    | error x => rw [ha] at h; cases h
    | ok acc1 =>
      rw [ha] at h
      exact ih acc1 (TInv_addRule states acc acc1 r hi ha) h

theorem buildTables_wf' (sp : Spec) (t : Tables) (h : buildTables sp = .ok t) : t.WF := by
  unfold buildTables at h
  simp only at h
  split at h
  · cases h
  · next hne =>
    cases ha : addRules (ctStates sp) ([], []) sp.rules with
    | error x => rw [ha] at h; cases h
    | ok acc =>
      obtain ⟨evs, tr⟩ := acc
      rw [ha] at h
      simp only at h
      have hinv := TInv_addRules (ctStates sp) ([], []) (evs, tr) sp.rules
        ⟨List.Pairwise.nil, by simp⟩ ha
      split at h
      · split at h <;> cases h
      · cases h
        refine ⟨hinv.1, hinv.2, ?_, rfl⟩
        intro hc
        simp at hc
        simp [hc] at hne


/-! ### the state stays within the declared states -/

def StateOk (d : Def) (f : Fsm) : Prop := ∀ s, f.state = some s → s ∈ d.states
def NextOk (d : Def) (f : Fsm) : Prop := ∀ r, f.next = some r → r.target ∈ d.states

theorem check_ok_target (d : Def) (hwf : d.toTables.WF) (f : Fsm) (e : EType) (data : Data)
    (l : List Action) (t : State) (h : check d f e data = (l, .ok t)) : t ∈ d.states := by
  cases e with
  | goto s =>
    rw [check_goto] at h
    split at h
    · next hc => simp at h; rw [← h.2]; simpa using hc
    · simp at h
  | ev name =>
    cases hev : d.events.contains name with
    | false => rw [check_unknown d f name data hev] at h; simp at h
    | true =>
      cases hs : f.state with
      | none =>
        have hc : check d f (.ev name) data = ([], .error .errAssert) := by
          unfold check; simp only [hev, hs, Bool.not_true, Bool.false_eq_true, ↓reduceIte]
        rw [hc] at h; simp at h
      | some s =>
        have key : ∀ t', lookup d.toTables name s = some t' → t' ∈ d.states := by
          intro t' hl
          obtain ⟨k, hm⟩ := lookup_some_mem _ _ _ _ hl
          exact hwf.2.1 _ hm t' rfl
        rcases check_ev_cases d f name data s hev hs with ⟨_, hc⟩ | ⟨t', hl, _, hc⟩ | ⟨t', hl, _, _, hc⟩ |
          ⟨t', _, _, _, hc⟩
        · rw [hc] at h; simp at h
        · rw [hc] at h; simp at h; rw [← h.2]; exact key t' hl
        · rw [hc] at h; simp at h; rw [← h.2]; exact key t' hl
        · rw [hc] at h; simp at h

theorem nested_nextOk (d : Def) (hwf : d.toTables.WF) (f : Fsm) (e : EType) (data : Data)
    (hn : NextOk d f) : NextOk d (nested d f e data).1 := by
  rcases nested_cases d f e data with ⟨l, r, _, h⟩ | ⟨l, tgt, hc, ⟨x, _, h⟩ | ⟨_, h⟩⟩
  · rw [h]; exact hn
  · rw [h]; exact hn
  · rw [h]; intro r hr; simp at hr; rw [← hr]; exact check_ok_target d hwf f e data l tgt hc

theorem runSends_nextOk (d : Def) (hwf : d.toTables.WF) (f : Fsm) (sends : List Send)
    (hn : NextOk d f) : NextOk d (runSends d f sends).1 := by
  induction sends generalizing f with
  | nil => exact hn
  | cons s rest ih =>
    unfold runSends
    have h1 := nested_nextOk d hwf f s.etype s.data hn
    rcases hnn : nested d f s.etype s.data with ⟨f1, r, l⟩
    rw [hnn] at h1
    simp only
    split
    · exact h1
    · have h2 := ih f1 h1
      rcases hr : runSends d f1 rest with ⟨f2, e2, l2⟩
      rw [hr] at h2
      exact h2

theorem runCbs_nextOk (d : Def) (hwf : d.toTables.WF) (s : State) (seen : Data) (f : Fsm)
    (cbs : List (Who × List Send)) (hn : NextOk d f) : NextOk d (runCbs d s seen f cbs).1 := by
  induction cbs generalizing f with
  | nil => exact hn
  | cons c rest ih =>
    obtain ⟨w, sends⟩ := c
    unfold runCbs
    have h1 := runSends_nextOk d hwf f sends hn
    rcases hr : runSends d f sends with ⟨f1, _ | r, l1⟩
    · rw [hr] at h1
      have h2 := ih f1 h1
      rcases hc : runCbs d s seen f1 rest with ⟨f2, e2, l2⟩
      rw [hc] at h2
      simp only [hc]
      exact h2
    · rw [hr] at h1; exact h1

theorem enterState_nextOk (d : Def) (hwf : d.toTables.WF) (f : Fsm) (cur : Req) (l0 : List Action) :
    NextOk d (enterState d f cur l0).1 := by
  unfold enterState
  have h0 : NextOk d { f with next := none, state := some cur.target } := by intro r hr; simp at hr
  have h1 := runCbs_nextOk d hwf cur.target cur.data _ (entersOf d cur.target) h0
  rcases hr : runCbs d cur.target cur.data { f with next := none, state := some cur.target }
    (entersOf d cur.target) with ⟨f1, _ | r, l1⟩
  · rw [hr] at h1
    simp only
    split
    · exact h1
    · split
      · exact h1
      · next tev zero _ =>
        split
        · have h2 := nested_nextOk d hwf f1 tev [] h1
          rcases hnn : nested d f1 tev [] with ⟨f2, r, l3⟩
          rw [hnn] at h2
          simp only
          split
          · exact h2
          · split <;> exact h2
        · exact h1
  · rw [hr] at h1; exact h1

theorem unpack_target (d : Def) (f : Fsm) (cur : Req) (hn : NextOk d f) (hc : cur.target ∈ d.states) :
    (unpack f cur).target ∈ d.states := by
  unfold unpack
  cases h : f.next with
  | none => exact hc
  | some nx => exact hn nx h

theorem loop_stateOk (d : Def) (hwf : d.toTables.WF) (n : Nat) (f : Fsm) (cur : Req)
    (hs : StateOk d f) (hn : NextOk d f) (hc : cur.target ∈ d.states) :
    StateOk d (loop d n f cur).1 ∧ NextOk d (loop d n f cur).1 := by
  induction n generalizing f cur with
  | zero => exact ⟨hs, hn⟩
  | succ n ih =>
    rw [loop_succ]
    have ht := unpack_target d f cur hn hc
    have hp := enterState_props d f (unpack f cur) (unpackLog d f ++ [Action.setState (unpack f cur).target])
    have hno := enterState_nextOk d hwf f (unpack f cur) (unpackLog d f ++ [Action.setState (unpack f cur).target])
    rcases he : enterState d f (unpack f cur) (unpackLog d f ++ [Action.setState (unpack f cur).target]) with ⟨f1, st, l⟩
    rw [he] at hp hno
    have hso : StateOk d f1 := by
      intro s hs1
      rw [hp.2.2.1] at hs1
      cases hs1; exact ht
    cases st with
    | fail r => exact ⟨hso, hno⟩
    | done => exact ⟨hso, hno⟩
    | again => exact ih f1 (unpack f cur) hso hno ht

theorem ctxEvent_stateOk (d : Def) (hwf : d.toTables.WF) (f : Fsm) (e : EType) (data : Data)
    (hs : StateOk d f) (hn : NextOk d f) :
    StateOk d (ctxEvent d f e data).1 ∧ NextOk d (ctxEvent d f e data).1 := by
  cases ha : f.active with
  | true =>
    have : ctxEvent d f e data = nested d f e data := by simp [ctxEvent, ha]
    rw [this]
    refine ⟨?_, nested_nextOk d hwf f e data hn⟩
    intro s hs1
    rw [(nested_same d f e data).1] at hs1
    exact hs s hs1
  | false =>
    rcases hc : check d f e data with ⟨l, r | tgt⟩
    · rw [ctxEvent_check_error d f e data l r hc]; exact ⟨hs, hn⟩
    · cases hnx : f.next with
      | some x => rw [ctxEvent_stale_next d f e data l tgt x hc ha hnx]; exact ⟨hs, hn⟩
      | none =>
        rw [ctxEvent_check_ok d f e data l tgt hc ha hnx]
        have ht := check_ok_target d hwf f e data l tgt hc
        have hl := loop_stateOk d hwf d.chainLimit { f with active := true } ⟨e, data, tgt⟩ hs hn ht
        rcases transition_cases d f e data tgt with ⟨f1, r, l1, hlo, _, _, htr⟩ | ⟨f1, s, l1, hlo, _, _, _, htr⟩
        · rw [htr]; rw [hlo] at hl; exact hl
        · rw [htr]; rw [hlo] at hl
          have hso := setOutput_same f1 (calcOutput d s)
          constructor
          · intro s' hs'; simp only at hs'; rw [hso.1] at hs'; exact hl.1 s' hs'
          · intro r hr; simp only at hr; rw [hso.2.1] at hr; exact hl.2 r hr


/-! ### what the log of a transition consists of -/

/-- callbacks, self-sent events and timer starts: nothing another block can see -/
def Action.quiet : Action → Bool
  | .cond .. | .notrans .. | .exit .. | .enter .. | .send .. | .sendRet .. | .startTimer .. => true
  | _ => false

def Action.isSet : Action → Bool
  | .setState _ => true
  | _ => false

/-- an entry that is neither an on_enter/on_exit/on_output event nor a timer stop -/
def Action.internal (a : Action) : Bool := a.quiet || a.isSet

def AllQuiet (l : List Action) : Prop := ∀ a ∈ l, a.quiet = true

theorem AllQuiet.append {a b : List Action} (ha : AllQuiet a) (hb : AllQuiet b) : AllQuiet (a ++ b) := by
  intro x hx
  rcases List.mem_append.mp hx with h | h
  · exact ha x h
  · exact hb x h

theorem AllQuiet.cons {a : Action} {b : List Action} (ha : a.quiet = true) (hb : AllQuiet b) :
    AllQuiet (a :: b) := by
  intro x hx
  rcases List.mem_cons.mp hx with h | h
  · rw [h]; exact ha
  · exact hb x h

theorem AllQuiet.nil : AllQuiet [] := by intro x hx; cases hx

theorem exitLog_quiet (d : Def) (s : State) (seen : Data) : AllQuiet (exitLog d s seen) := by
  intro a ha
  unfold exitLog at ha
  simp at ha
  obtain ⟨w, _, rfl⟩ := ha
  rfl

theorem condLog_quiet (d : Def) (e : EvName) (seen : Data) : AllQuiet (condLog d e seen) := by
  intro a ha
  unfold condLog at ha
  simp at ha
  obtain ⟨w, c, _, rfl⟩ := ha
  rfl

theorem check_quiet (d : Def) (f : Fsm) (e : EType) (data : Data) : AllQuiet (check d f e data).1 := by
  cases e with
  | goto s => rw [check_goto]; split <;> exact AllQuiet.nil
  | ev name =>
    cases hev : d.events.contains name with
    | false => rw [check_unknown d f name data hev]; exact AllQuiet.nil
    | true =>
      cases hs : f.state with
      | none =>
        have hc : check d f (.ev name) data = ([], .error .errAssert) := by
          unfold check; simp only [hev, hs, Bool.not_true, Bool.false_eq_true, ↓reduceIte]
        rw [hc]; exact AllQuiet.nil
      | some s =>
        rcases check_ev_cases d f name data s hev hs with ⟨_, hc⟩ | ⟨t', _, _, hc⟩ | ⟨t', _, _, _, hc⟩ |
          ⟨t', _, _, _, hc⟩ <;> rw [hc]
        · exact AllQuiet.cons rfl AllQuiet.nil
        · exact AllQuiet.nil
        · exact condLog_quiet d name data
        · exact condLog_quiet d name data

theorem nested_log (d : Def) (f : Fsm) (e : EType) (data : Data) :
    (nested d f e data).2.2 = (check d f e data).1 := by
  rcases nested_cases d f e data with ⟨l, r, hc, h⟩ | ⟨l, tgt, hc, ⟨x, _, h⟩ | ⟨_, h⟩⟩ <;> rw [h, hc]

theorem nested_quiet (d : Def) (f : Fsm) (e : EType) (data : Data) : AllQuiet (nested d f e data).2.2 := by
  rw [nested_log]; exact check_quiet d f e data

theorem nested_ne_errChain (d : Def) (f : Fsm) (e : EType) (data : Data) :
    (nested d f e data).2.1 ≠ .errChain := by
  rcases nested_cases d f e data with ⟨l, r, hc, h⟩ | ⟨l, tgt, hc, ⟨x, _, h⟩ | ⟨_, h⟩⟩
  · rw [h]
    simp only
    intro hr
    subst hr
    cases e with
    | goto s => rw [check_goto] at hc; split at hc <;> simp at hc
    | ev name =>
      cases hev : d.events.contains name with
      | false => rw [check_unknown d f name data hev] at hc; simp at hc
      | true =>
        cases hs : f.state with
        | none =>
          have hc' : check d f (.ev name) data = ([], .error .errAssert) := by
            unfold check; simp only [hev, hs, Bool.not_true, Bool.false_eq_true, ↓reduceIte]
          rw [hc'] at hc; simp at hc
        | some s =>
          rcases check_ev_cases d f name data s hev hs with ⟨_, hc'⟩ | ⟨t', _, _, hc'⟩ | ⟨t', _, _, _, hc'⟩ |
            ⟨t', _, _, _, hc'⟩ <;> rw [hc'] at hc <;> simp at hc
  · rw [h]; simp
  · rw [h]; simp

theorem runSends_log (d : Def) (f : Fsm) (sends : List Send) :
    AllQuiet (runSends d f sends).2.2 ∧ (runSends d f sends).2.1 ≠ some .errChain := by
  induction sends generalizing f with
  | nil => exact ⟨AllQuiet.nil, by simp [runSends]⟩
  | cons s rest ih =>
    unfold runSends
    have h1 := nested_quiet d f s.etype s.data
    have h1' := nested_ne_errChain d f s.etype s.data
    rcases hn : nested d f s.etype s.data with ⟨f1, r, l⟩
    rw [hn] at h1 h1'
    simp only at h1 h1' ⊢
    split
    · exact ⟨AllQuiet.cons rfl h1, by simpa using h1'⟩
    · have h2 := ih f1
      rcases hr : runSends d f1 rest with ⟨f2, e2, l2⟩
      rw [hr] at h2
      exact ⟨AllQuiet.cons rfl (h1.append (AllQuiet.cons rfl h2.1)), h2.2⟩

theorem runCbs_log (d : Def) (s : State) (seen : Data) (f : Fsm) (cbs : List (Who × List Send)) :
    AllQuiet (runCbs d s seen f cbs).2.2 ∧ (runCbs d s seen f cbs).2.1 ≠ some .errChain := by
  induction cbs generalizing f with
  | nil => exact ⟨AllQuiet.nil, by simp [runCbs]⟩
  | cons c rest ih =>
    obtain ⟨w, sends⟩ := c
    unfold runCbs
    have h1 := runSends_log d f sends
    rcases hr : runSends d f sends with ⟨f1, _ | r, l1⟩
    · rw [hr] at h1
      have h2 := ih f1
      rcases hc : runCbs d s seen f1 rest with ⟨f2, e2, l2⟩
      rw [hc] at h2
      simp only [hc]
      exact ⟨AllQuiet.cons rfl (h1.1.append h2.1), h2.2⟩
    · rw [hr] at h1
      exact ⟨AllQuiet.cons rfl h1.1, h1.2⟩

/-- the log of entering a state: what was logged before plus quiet entries only; the chain
    limit error does not come from here -/
theorem enterState_log (d : Def) (f : Fsm) (cur : Req) (l0 : List Action) :
    (∃ rest, (enterState d f cur l0).2.2 = l0 ++ rest ∧ AllQuiet rest) ∧
    (enterState d f cur l0).2.1 ≠ .fail .errChain := by
  unfold enterState
  have h1 := runCbs_log d cur.target cur.data { f with next := none, state := some cur.target }
    (entersOf d cur.target)
  rcases hr : runCbs d cur.target cur.data { f with next := none, state := some cur.target }
    (entersOf d cur.target) with ⟨f1, _ | r, l1⟩
  · rw [hr] at h1
    simp only
    split
    · exact ⟨⟨l1, rfl, h1.1⟩, by simp⟩
    · split
      · exact ⟨⟨l1, rfl, h1.1⟩, by simp⟩
      · next tev zero _ =>
        split
        · have h2 := nested_quiet d f1 tev []
          have h2' := nested_ne_errChain d f1 tev []
          rcases hnn : nested d f1 tev [] with ⟨f2, r, l3⟩
          rw [hnn] at h2 h2'
          simp only at h2 h2' ⊢
          have hq : AllQuiet (l1 ++ Action.startTimer cur.target :: l3) := h1.1.append (AllQuiet.cons rfl h2)
          split
          · exact ⟨⟨_, by rw [List.append_assoc], hq⟩, by simpa using h2'⟩
          · split
            · exact ⟨⟨_, by rw [List.append_assoc], hq⟩, by simp⟩
            · exact ⟨⟨_, by rw [List.append_assoc], hq⟩, by simp⟩
        · exact ⟨⟨l1 ++ [Action.startTimer cur.target], by rw [List.append_assoc],
            h1.1.append (AllQuiet.cons rfl AllQuiet.nil)⟩, by simp⟩
  · rw [hr] at h1
    exact ⟨⟨l1, rfl, h1.1⟩, by simpa using h1.2⟩

theorem countP_quiet (l : List Action) (h : AllQuiet l) : l.countP Action.isSet = 0 := by
  rw [List.countP_eq_zero]
  intro a ha
  have := h a ha
  cases a <;> simp_all [Action.quiet, Action.isSet]

theorem unpackLog_quiet (d : Def) (f : Fsm) : AllQuiet (unpackLog d f) := by
  unfold unpackLog
  split
  · exact exitLog_quiet _ _ _
  · exact AllQuiet.nil

/-- `loop`: every entry is internal, each pass assigns the state exactly once, so at most
    `n` states are entered; the chain limit error arises exactly when all `n` passes were used -/
theorem loop_log (d : Def) (n : Nat) (f : Fsm) (cur : Req) :
    (∀ a ∈ (loop d n f cur).2.2, a.internal = true) ∧
    (loop d n f cur).2.2.countP Action.isSet ≤ n ∧
    ((loop d n f cur).2.1 = some .errChain → (loop d n f cur).2.2.countP Action.isSet = n) := by
  induction n generalizing f cur with
  | zero => simp [loop]
  | succ n ih =>
    rw [loop_succ]
    have hl := enterState_log d f (unpack f cur) (unpackLog d f ++ [Action.setState (unpack f cur).target])
    rcases he : enterState d f (unpack f cur) (unpackLog d f ++ [Action.setState (unpack f cur).target]) with ⟨f1, st, l⟩
    rw [he] at hl
    obtain ⟨⟨rest, hlog, hq⟩, hne⟩ := hl
    simp only at hlog hne
    have hint : ∀ a ∈ l, a.internal = true := by
      intro a ha
      rw [hlog] at ha
      simp only [List.mem_append, List.mem_singleton] at ha
      rcases ha with (ha | ha) | ha
      · simp [Action.internal, unpackLog_quiet d f a ha]
      · rw [ha]; rfl
      · simp [Action.internal, hq a ha]
    have hcnt : l.countP Action.isSet = 1 := by
      rw [hlog, List.countP_append, List.countP_append, countP_quiet _ (unpackLog_quiet d f), countP_quiet _ hq]
      simp [Action.isSet]
    cases st with
    | fail r =>
      simp only
      refine ⟨hint, by omega, ?_⟩
      intro h; simp at h; rw [h] at hne; exact absurd rfl hne
    | done => simp only; exact ⟨hint, by omega, by simp⟩
    | again =>
      simp only
      obtain ⟨i1, i2, i3⟩ := ih f1 (unpack f cur)
      refine ⟨?_, ?_, ?_⟩
      · intro a ha
        rcases List.mem_append.mp ha with h | h
        · exact hint a h
        · exact i1 a h
      · rw [List.countP_append]; omega
      · intro h; rw [List.countP_append, i3 h]; omega


theorem check_error_kinds (d : Def) (f : Fsm) (e : EType) (data : Data) (l : List Action) (r : Res)
    (hc : check d f e data = (l, .error r)) :
    r = .errBadState ∨ r = .unknownEvent ∨ r = .errAssert ∨ r = .rejected := by
  cases e with
  | goto s => rw [check_goto] at hc; split at hc <;> simp at hc; simp [← hc.2]
  | ev name =>
    cases hev : d.events.contains name with
    | false => rw [check_unknown d f name data hev] at hc; simp at hc; simp [← hc.2]
    | true =>
      cases hs : f.state with
      | none =>
        have hc' : check d f (.ev name) data = ([], .error .errAssert) := by
          unfold check; simp only [hev, hs, Bool.not_true, Bool.false_eq_true, ↓reduceIte]
        rw [hc'] at hc; simp at hc; simp [← hc.2]
      | some s =>
        rcases check_ev_cases d f name data s hev hs with ⟨_, hc'⟩ | ⟨t', _, _, hc'⟩ | ⟨t', _, _, _, hc'⟩ |
          ⟨t', _, _, _, hc'⟩ <;> rw [hc'] at hc <;> simp at hc <;> simp [← hc.2]

theorem leaveLog_count (d : Def) (f : Fsm) (data : Data) : (leaveLog d f data).countP Action.isSet = 0 := by
  unfold leaveLog
  split
  · split
    · rfl
    · rw [List.countP_append, countP_quiet _ (exitLog_quiet _ _ _)]; rfl
  · rfl

theorem setOutput_log_count (f : Fsm) (v : Val) : (setOutput f v).2.countP Action.isSet = 0 := by
  unfold setOutput
  split
  · rfl
  · split <;> rfl

/-- everything a top-level event can do, in one statement -/
theorem ctxEvent_top (d : Def) (f : Fsm) (e : EType) (data : Data)
    (ha : f.active = false) (hn : f.next = none) :
    (∃ l r, check d f e data = (l, .error r) ∧ ctxEvent d f e data = (f, r, l) ∧ r ≠ .accepted ∧ r ≠ .errChain) ∨
    (∃ l tgt f1 r l1, check d f e data = (l, .ok tgt) ∧
      loop d d.chainLimit { f with active := true } ⟨e, data, tgt⟩ = (f1, some r, l1) ∧ r.isError = true ∧
      ctxEvent d f e data = ({ f1 with active := false }, r, l ++ leaveLog d f data ++ l1)) ∨
    (∃ l tgt f1 s l1, check d f e data = (l, .ok tgt) ∧
      loop d d.chainLimit { f with active := true } ⟨e, data, tgt⟩ = (f1, none, l1) ∧
      f1.state = some s ∧ f1.next = none ∧
      ctxEvent d f e data =
        ({ (setOutput f (calcOutput d s)).1 with state := some s, next := none, active := false }, .accepted,
          l ++ leaveLog d f data ++ l1 ++ (setOutput f (calcOutput d s)).2
            ++ [Action.onEnter s (setOutput f (calcOutput d s)).1.output])) := by
  rcases hc : check d f e data with ⟨l, r | tgt⟩
  · left
    refine ⟨l, r, rfl, ctxEvent_check_error d f e data l r hc, ?_, ?_⟩ <;>
      rcases check_error_kinds d f e data l r hc with h | h | h | h <;> rw [h] <;> simp
  · right
    rw [ctxEvent_check_ok d f e data l tgt hc ha hn]
    rcases transition_cases d f e data tgt with ⟨f1, r, l1, hlo, hr, _, htr⟩ | ⟨f1, s, l1, hlo, hs, hn1, ho, htr⟩
    · left; exact ⟨l, tgt, f1, r, l1, rfl, hlo, hr, by rw [htr]⟩
    · right
      refine ⟨l, tgt, f1, s, l1, rfl, hlo, hs, hn1, ?_⟩
      rw [htr]
      have hcg := setOutput_log_congr f f1 (calcOutput d s) ho
      have hsm := setOutput_same f1 (calcOutput d s)
      simp only [hcg.1, hcg.2, List.append_assoc]
      congr 1
      · rw [Fsm.mk.injEq]
        exact ⟨hsm.1.trans hs, rfl, rfl, hsm.2.1.trans hn1⟩


/-! ### event multiplication; exceptions propagate -/

theorem check_next_irrelevant (d : Def) (f : Fsm) (x : Option Req) (e : EType) (data : Data) :
    check d { f with next := x } e data = check d f e data := rfl

theorem nested_second_request (d : Def) (f : Fsm) (e : EType) (data : Data) (l : List Action) (tgt : State)
    (x : Req) (hn : f.next = some x) (hc : check d f e data = (l, .ok tgt)) :
    nested d f e data = (f, .errMultiple, l) := by
  unfold nested; simp [hc, hn]

theorem nested_first_request (d : Def) (f : Fsm) (e : EType) (data : Data) (l : List Action) (tgt : State)
    (hn : f.next = none) (hc : check d f e data = (l, .ok tgt)) :
    nested d f e data = ({ f with next := some ⟨e, data, tgt⟩ }, .accepted, l) := by
  unfold nested; simp [hc, hn]

theorem runSends_two (d : Def) (f : Fsm) (s1 s2 : Send) (rest : List Send) (l1 l2 : List Action)
    (t1 t2 : State) (hn : f.next = none)
    (h1 : check d f s1.etype s1.data = (l1, .ok t1)) (h2 : check d f s2.etype s2.data = (l2, .ok t2)) :
    (runSends d f (s1 :: s2 :: rest)).2.1 = some .errMultiple := by
  rw [runSends, nested_first_request d f _ _ l1 t1 hn h1]
  simp only [Res.isError, Bool.false_eq_true, if_false]
  rw [runSends, nested_second_request d _ s2.etype s2.data l2 t2 ⟨s1.etype, s1.data, t1⟩ rfl
    (by rw [check_next_irrelevant]; exact h2)]
  simp [Res.isError]

theorem runCbs_first_error (d : Def) (s : State) (seen : Data) (f : Fsm) (w : Who) (sends : List Send)
    (more : List (Who × List Send)) (r : Res) (h : (runSends d f sends).2.1 = some r) :
    (runCbs d s seen f ((w, sends) :: more)).2.1 = some r := by
  rw [runCbs]
  rcases hr : runSends d f sends with ⟨f1, _ | r', l1⟩
  · rw [hr] at h; simp at h
  · rw [hr] at h; simp at h; simp [h]

theorem enterState_error (d : Def) (f : Fsm) (cur : Req) (l0 : List Action) (r : Res)
    (h : (runCbs d cur.target cur.data { f with next := none, state := some cur.target }
      (entersOf d cur.target)).2.1 = some r) : (enterState d f cur l0).2.1 = .fail r := by
  unfold enterState
  rcases hr : runCbs d cur.target cur.data { f with next := none, state := some cur.target }
    (entersOf d cur.target) with ⟨f1, _ | r', l1⟩
  · rw [hr] at h; simp at h
  · rw [hr] at h; simp at h; simp [h]

theorem loop_fail (d : Def) (n : Nat) (f : Fsm) (cur : Req) (r : Res)
    (h : (enterState d f (unpack f cur) (unpackLog d f ++ [Action.setState (unpack f cur).target])).2.1 = .fail r) :
    (loop d (n + 1) f cur).2.1 = some r := by
  rw [loop_succ]
  rcases he : enterState d f (unpack f cur) (unpackLog d f ++ [Action.setState (unpack f cur).target]) with ⟨f1, st, l⟩
  rw [he] at h
  simp only at h
  subst h
  rfl

theorem ctxEvent_loop_error (d : Def) (f : Fsm) (e : EType) (data : Data) (l : List Action) (tgt : State)
    (r : Res) (ha : f.active = false) (hn : f.next = none) (hc : check d f e data = (l, .ok tgt))
    (h : (loop d d.chainLimit { f with active := true } ⟨e, data, tgt⟩).2.1 = some r) :
    (ctxEvent d f e data).2.1 = r := by
  rw [ctxEvent_check_ok d f e data l tgt hc ha hn]
  simp only
  unfold transition
  rcases hl : loop d d.chainLimit { f with active := true } ⟨e, data, tgt⟩ with ⟨f1, _ | r', l1⟩
  · rw [hl] at h; simp at h
  · rw [hl] at h; simp at h; simp [h]


/-! ### which event data an action reads

`attrRun` is a checker of logs that knows nothing about the FSM definition.  It walks the log
of ONE top-level event and tracks
* `cur`  – the data of the event that caused the state entered last (initially: the data of the
           top-level event),
* `pend` – the data of an accepted chained request that has not been executed yet
           (set when `self.event()` of an entry action returned True, or by a timer of zero duration,
           whose timed event carries no data),
* `chk`  – the data of the event whose acceptance is being decided inside an entry action.
A condition must read the data of the event being decided, an exit action the data of the event
that makes the FSM leave the state (the pending request for an intermediate state), an entry action
the data of the event that caused the entry. -/

structure ASt where
  cur : Data
  pend : Option Data
  chk : Option Data
  deriving DecidableEq, Repr

def attrStep (st : ASt) : Action → Option ASt
  | .cond _ _ seen => if seen = st.chk.getD st.cur then some st else none
  | .exit _ _ seen => if seen = st.pend.getD st.cur then some st else none
  | .enter _ _ seen => if seen = st.cur then some st else none
  | .setState _ => some ⟨st.pend.getD st.cur, none, none⟩
  | .send _ data => some { st with chk := some data }
  | .sendRet r => some { st with pend := if r then st.chk else st.pend, chk := none }
  | .startTimer _ => some { st with pend := some [], chk := some [] }
  | _ => some st

def attrRun : ASt → List Action → Option ASt
  | st, [] => some st
  | st, a :: l => (attrStep st a).bind (fun s => attrRun s l)

theorem attrRun_append (st : ASt) (a b : List Action) :
    attrRun st (a ++ b) = (attrRun st a).bind (fun s => attrRun s b) := by
  induction a generalizing st with
  | nil => rfl
  | cons x xs ih =>
    simp only [List.cons_append, attrRun]
    cases attrStep st x with
    | none => rfl
    | some s => simp [ih]

theorem attrRun_append_some (st st1 : ASt) (a b : List Action) (h : attrRun st a = some st1) :
    attrRun st (a ++ b) = attrRun st1 b := by
  rw [attrRun_append, h]; rfl

/-- entries the checker ignores -/
def Action.neutral : Action → Bool
  | .notrans .. | .onExit .. | .stopTimer | .output .. | .onEnter .. => true
  | _ => false

theorem attrRun_neutral (st : ASt) (l : List Action) (h : ∀ a ∈ l, a.neutral = true) :
    attrRun st l = some st := by
  induction l with
  | nil => rfl
  | cons x xs ih =>
    have hx := h x (List.mem_cons_self ..)
    have : attrStep st x = some st := by cases x <;> simp_all [Action.neutral, attrStep]
    simp only [attrRun, this, Option.bind_some]
    exact ih (fun a ha => h a (List.mem_cons_of_mem _ ha))

theorem attrRun_condLog (st : ASt) (d : Def) (e : EvName) (seen : Data) (h : st.chk.getD st.cur = seen) :
    attrRun st (condLog d e seen) = some st := by
  unfold condLog
  induction condsOf d e with
  | nil => rfl
  | cons c cs ih => simp only [List.map_cons, attrRun, attrStep, h, if_true, Option.bind_some]; exact ih

theorem attrRun_exitLog (st : ASt) (d : Def) (s : State) (seen : Data) (h : st.pend.getD st.cur = seen) :
    attrRun st (exitLog d s seen) = some st := by
  unfold exitLog
  induction exitsOf d s with
  | nil => rfl
  | cons c cs ih => simp only [List.map_cons, attrRun, attrStep, h, if_true, Option.bind_some]; exact ih

theorem attrRun_check (st : ASt) (d : Def) (f : Fsm) (e : EType) (data : Data)
    (h : st.chk.getD st.cur = data) : attrRun st (check d f e data).1 = some st := by
  cases e with
  | goto s => rw [check_goto]; split <;> rfl
  | ev name =>
    cases hev : d.events.contains name with
    | false => rw [check_unknown d f name data hev]; rfl
    | true =>
      cases hs : f.state with
      | none =>
        have hc : check d f (.ev name) data = ([], .error .errAssert) := by
          unfold check; simp only [hev, hs, Bool.not_true, Bool.false_eq_true, ↓reduceIte]
        rw [hc]; rfl
      | some s =>
        rcases check_ev_cases d f name data s hev hs with ⟨_, hc⟩ | ⟨t', _, _, hc⟩ | ⟨t', _, _, _, hc⟩ |
          ⟨t', _, _, _, hc⟩ <;> rw [hc]
        · rfl
        · rfl
        · exact attrRun_condLog st d name data h
        · exact attrRun_condLog st d name data h

/-- the checker's pending request is the FSM's `_next_event` -/
def AInv (st : ASt) (f : Fsm) : Prop := st.pend = f.next.map (·.data)

theorem attrRun_cons (st : ASt) (a : Action) (l : List Action) :
    attrRun st (a :: l) = (attrStep st a).bind (fun s => attrRun s l) := rfl

theorem attr_runSends (d : Def) (f : Fsm) (sends : List Send) (st : ASt) (hi : AInv st f) :
    ∃ st', attrRun st (runSends d f sends).2.2 = some st' ∧ st'.cur = st.cur ∧
      ((runSends d f sends).2.1 = none → AInv st' (runSends d f sends).1) := by
  induction sends generalizing f st with
  | nil => exact ⟨st, rfl, rfl, fun _ => hi⟩
  | cons s rest ih =>
    unfold runSends
    have hlog := nested_log d f s.etype s.data
    have hcases := nested_cases d f s.etype s.data
    rcases hn : nested d f s.etype s.data with ⟨f1, r, l⟩
    rw [hn] at hlog hcases
    simp only at hlog
    have hl : attrRun { st with chk := some s.data } l = some { st with chk := some s.data } := by
      rw [hlog]; exact attrRun_check _ d f s.etype s.data rfl
    simp only
    split
    · refine ⟨{ st with chk := some s.data }, ?_, rfl, by simp⟩
      rw [attrRun_cons]
      exact hl
    · next hne =>
      have hi2 : AInv ⟨st.cur, (if (r == .accepted) then some s.data else st.pend), none⟩ f1 := by
        rcases hcases with ⟨l', r', hc, h⟩ | ⟨l', tgt, hc, ⟨x, _, h⟩ | ⟨hnone, h⟩⟩
        · simp only [Prod.mk.injEq] at h
          have hr : (r == Res.accepted) = false := by
            rw [h.2.1]
            rcases check_error_kinds d f s.etype s.data l' r' hc with h | h | h | h <;> rw [h] <;> rfl
          rw [hr, h.1]
          exact hi
        · simp only [Prod.mk.injEq] at h
          rw [h.2.1] at hne
          simp [Res.isError] at hne
        · simp only [Prod.mk.injEq] at h
          rw [h.2.1, h.1]
          simp [AInv]
      obtain ⟨st', h1, h2, h3⟩ := ih f1 _ hi2
      rcases hr : runSends d f1 rest with ⟨f2, e2, l2⟩
      rw [hr] at h1 h3
      refine ⟨st', ?_, h2, h3⟩
      rw [List.cons_append, attrRun_cons]
      show attrRun { st with chk := some s.data } (l ++ Action.sendRet (r == Res.accepted) :: l2) = some st'
      rw [attrRun_append_some _ _ l _ hl, attrRun_cons]
      exact h1

theorem attr_runCbs (d : Def) (s : State) (seen : Data) (f : Fsm) (cbs : List (Who × List Send))
    (st : ASt) (hi : AInv st f) (hc : st.cur = seen) :
    ∃ st', attrRun st (runCbs d s seen f cbs).2.2 = some st' ∧ st'.cur = st.cur ∧
      ((runCbs d s seen f cbs).2.1 = none → AInv st' (runCbs d s seen f cbs).1) := by
  induction cbs generalizing f st with
  | nil => exact ⟨st, rfl, rfl, fun _ => hi⟩
  | cons c rest ih =>
    obtain ⟨w, sends⟩ := c
    unfold runCbs
    obtain ⟨st1, h1, h2, h3⟩ := attr_runSends d f sends st hi
    have henter : attrStep st (Action.enter w s seen) = some st := by simp [attrStep, hc]
    rcases hr : runSends d f sends with ⟨f1, _ | r, l1⟩
    · rw [hr] at h1 h3
      obtain ⟨st2, g1, g2, g3⟩ := ih f1 st1 (h3 rfl) (h2.trans hc)
      rcases hcb : runCbs d s seen f1 rest with ⟨f2, e2, l2⟩
      rw [hcb] at g1 g3
      simp only [hcb]
      refine ⟨st2, ?_, g2.trans h2, g3⟩
      rw [List.cons_append, attrRun_cons, henter]
      show attrRun st (l1 ++ l2) = some st2
      rw [attrRun_append_some st st1 l1 _ h1]
      exact g1
    · rw [hr] at h1
      refine ⟨st1, ?_, h2, by simp⟩
      simp only
      rw [attrRun_cons, henter]
      exact h1

theorem attr_enterState (d : Def) (f : Fsm) (cur : Req) (l0 : List Action) (st0 st : ASt)
    (h0 : attrRun st0 l0 = some st) (hc : st.cur = cur.data) (hp : st.pend = none) :
    ∃ st', attrRun st0 (enterState d f cur l0).2.2 = some st' ∧
      ((enterState d f cur l0).2.1 = .again → AInv st' (enterState d f cur l0).1) := by
  unfold enterState
  have hi0 : AInv st { f with next := none, state := some cur.target } := by simp [AInv, hp]
  obtain ⟨st1, h1, h2, h3⟩ := attr_runCbs d cur.target cur.data _ (entersOf d cur.target) st hi0 hc
  rcases hr : runCbs d cur.target cur.data { f with next := none, state := some cur.target }
    (entersOf d cur.target) with ⟨f1, _ | r, l1⟩
  · rw [hr] at h1 h3
    have hi1 := h3 rfl
    simp only at hi1 ⊢
    have hbase : attrRun st0 (l0 ++ l1) = some st1 := by rw [attrRun_append_some st0 st l0 _ h0]; exact h1
    cases hn : f1.next with
    | some x => exact ⟨st1, hbase, fun _ => hi1⟩
    | none =>
      simp only
      cases ht : timedOf d cur.target with
      | none => exact ⟨st1, hbase, by simp⟩
      | some tz =>
        obtain ⟨tev, zero⟩ := tz
        simp only
        cases zero with
        | false =>
          refine ⟨{ st1 with pend := some [], chk := some [] }, ?_, by simp⟩
          simp only [Bool.false_eq_true, if_false]
          rw [attrRun_append_some st0 st1 _ _ hbase]; rfl
        | true =>
          simp only [if_true]
          have hlog := nested_log d f1 tev []
          have hcases := nested_cases d f1 tev []
          rcases hnn : nested d f1 tev [] with ⟨f2, r, l3⟩
          rw [hnn] at hlog hcases
          simp only at hlog
          let st2 : ASt := { st1 with pend := some [], chk := some [] }
          have hl3 : attrRun st2 l3 = some st2 := by rw [hlog]; exact attrRun_check st2 d f1 tev [] rfl
          have hfull : attrRun st0 (l0 ++ l1 ++ Action.startTimer cur.target :: l3) = some st2 := by
            rw [attrRun_append_some st0 st1 _ _ hbase]
            simp only [attrRun, attrStep, Option.bind_some]
            exact hl3
          simp only
          cases hre : r.isError with
          | true => exact ⟨st2, hfull, by simp⟩
          | false =>
            simp only [Bool.false_eq_true, if_false]
            cases hn2 : f2.next with
            | none => exact ⟨st2, hfull, by simp⟩
            | some x =>
              refine ⟨st2, hfull, fun _ => ?_⟩
              rcases hcases with ⟨l', r', _, h⟩ | ⟨l', tgt, _, ⟨y, _, h⟩ | ⟨_, h⟩⟩
              · simp at h; obtain ⟨rfl, _, _⟩ := h; rw [hn] at hn2; cases hn2
              · simp at h; obtain ⟨rfl, _, _⟩ := h; rw [hn] at hn2; cases hn2
              · simp at h; obtain ⟨rfl, _, _⟩ := h; simp [AInv, st2]
  · rw [hr] at h1
    refine ⟨st1, ?_, by simp⟩
    simp only
    rw [attrRun_append_some st0 st l0 _ h0]; exact h1

theorem attr_loop (d : Def) (n : Nat) (f : Fsm) (cur : Req) (st : ASt)
    (hi : AInv st f) (hc : f.next = none → st.cur = cur.data) :
    (attrRun st (loop d n f cur).2.2).isSome = true := by
  induction n generalizing f cur st with
  | zero => simp [loop, attrRun]
  | succ n ih =>
    rw [loop_succ]
    -- the exit action of the intermediate state and the state assignment
    let st1 : ASt := ⟨st.pend.getD st.cur, none, none⟩
    have hcur : st1.cur = (unpack f cur).data := by
      unfold unpack
      cases hn : f.next with
      | none => simp only [st1]; rw [hi, hn]; exact hc hn
      | some nx => simp only [st1]; rw [hi, hn]; rfl
    have hl0 : attrRun st (unpackLog d f ++ [Action.setState (unpack f cur).target]) = some st1 := by
      have hx : attrRun st (unpackLog d f) = some st := by
        unfold unpackLog
        split
        · next nx s hn _ => exact attrRun_exitLog st d s nx.data (by rw [hi, hn]; rfl)
        · rfl
      rw [attrRun_append_some st st _ _ hx]; rfl
    obtain ⟨st', h1, h2⟩ := attr_enterState d f (unpack f cur) _ st st1 hl0 hcur rfl
    have hp := enterState_props d f (unpack f cur) (unpackLog d f ++ [Action.setState (unpack f cur).target])
    rcases he : enterState d f (unpack f cur) (unpackLog d f ++ [Action.setState (unpack f cur).target]) with ⟨f1, sp, l⟩
    rw [he] at h1 h2 hp
    cases sp with
    | fail r => simp only; rw [h1]; rfl
    | done => simp only; rw [h1]; rfl
    | again =>
      simp only
      rw [attrRun_append_some st st' l _ h1]
      apply ih f1 (unpack f cur) st' (h2 rfl)
      intro hnone
      have := hp.2.2.2.2.1 rfl
      simp only at this
      rw [hnone] at this; cases this

theorem leaveLog_attr (d : Def) (f : Fsm) (data : Data) (st : ASt) (h : st.pend.getD st.cur = data) :
    attrRun st (leaveLog d f data) = some st := by
  unfold leaveLog
  split
  · split
    · rfl
    · rw [attrRun_append_some st st _ _ (attrRun_exitLog st d _ data h)]; rfl
  · rfl

theorem setOutput_log_neutral (f : Fsm) (v : Val) : ∀ a ∈ (setOutput f v).2, a.neutral = true := by
  unfold setOutput
  split
  · simp
  · split
    · simp
    · simp [Action.neutral]

theorem attr_ctxEvent (d : Def) (f : Fsm) (e : EType) (data : Data)
    (ha : f.active = false) (hn : f.next = none) :
    (attrRun ⟨data, none, none⟩ (ctxEvent d f e data).2.2).isSome = true := by
  let st : ASt := ⟨data, none, none⟩
  have hchk := attrRun_check st d f e data rfl
  have hlv := leaveLog_attr d f data st rfl
  have hloop : ∀ tgt, (attrRun st (loop d d.chainLimit { f with active := true } ⟨e, data, tgt⟩).2.2).isSome = true :=
    fun tgt => attr_loop d d.chainLimit _ _ st (by simp [AInv, st, hn]) (fun _ => rfl)
  rcases ctxEvent_top d f e data ha hn with ⟨l, r, hc, h, _, _⟩ | ⟨l, tgt, f1, r, l1, hc, hlo, _, h⟩ |
      ⟨l, tgt, f1, s, l1, hc, hlo, _, _, h⟩
  · rw [h]; rw [hc] at hchk; simp only; rw [hchk]; rfl
  · rw [h]; rw [hc] at hchk; simp only
    rw [attrRun_append_some st st _ _ (by rw [attrRun_append_some st st _ _ hchk]; exact hlv)]
    have := hloop tgt
    rw [hlo] at this
    exact this
  · rw [h]; rw [hc] at hchk; simp only
    have := hloop tgt
    rw [hlo] at this
    simp only at this
    obtain ⟨st2, hst2⟩ := Option.isSome_iff_exists.mp this
    have h12 : attrRun st (l ++ leaveLog d f data ++ l1) = some st2 := by
      rw [attrRun_append_some st st _ _ (by rw [attrRun_append_some st st _ _ hchk]; exact hlv)]
      exact hst2
    rw [List.append_assoc (l ++ leaveLog d f data ++ l1), attrRun_append_some st st2 _ _ h12]
    rw [attrRun_neutral]
    · rfl
    · intro a ha'
      rcases List.mem_append.mp ha' with h' | h'
      · exact setOutput_log_neutral f _ a h'
      · simp at h'; rw [h']; rfl


/-! ### what other blocks see of the states -/

/-- the events tied to a state: on_exit_STATE, on_enter_STATE, on_output -/
def Action.stateEvent : Action → Bool
  | .onExit .. | .onEnter .. | .output .. => true
  | _ => false

theorem filter_stateEvent_internal (l : List Action) (h : ∀ a ∈ l, a.internal = true) :
    l.filter Action.stateEvent = [] := by
  rw [List.filter_eq_nil_iff]
  intro a ha
  have := h a ha
  cases a <;> simp_all [Action.internal, Action.quiet, Action.isSet, Action.stateEvent]

theorem filter_stateEvent_quiet (l : List Action) (h : AllQuiet l) :
    l.filter Action.stateEvent = [] :=
  filter_stateEvent_internal l (fun a ha => by simp [Action.internal, h a ha])

theorem leaveLog_stateEvents (d : Def) (f : Fsm) (data : Data) :
    (leaveLog d f data).filter Action.stateEvent =
      match f.state with
      | some s => if f.output.isUndef then [] else [Action.onExit s f.output]
      | none => [] := by
  unfold leaveLog
  cases hs : f.state with
  | none => rfl
  | some s =>
    simp only
    cases hu : f.output.isUndef with
    | true => rfl
    | false =>
      simp only [Bool.false_eq_true, if_false]
      rw [List.filter_append, filter_stateEvent_quiet _ (exitLog_quiet _ _ _)]; rfl

theorem setOutput_stateEvents (f : Fsm) (v : Val) :
    (setOutput f v).2.filter Action.stateEvent = (setOutput f v).2 := by
  unfold setOutput
  split
  · rfl
  · split <;> rfl

/-! ### generated tables -> `Spec` -/

def genEType : Gen.TEvent → EType
  | .ev n => .ev n
  | .goto s => .goto s

/-- the class attributes that produce the extracted control tables -/
def genSpec (states : List String) (trans : List (String × Option String × Option String))
    (timed : List (String × Gen.TEvent × Gen.Dur)) : Spec :=
  { states := states,
    rules := trans.map fun r => ⟨r.1, r.2.1.map fun s => [s], r.2.2⟩,
    timers := timed.map fun t => (t.1, genEType t.2.1, t.2.2 == Gen.Dur.us 0) }

end Edzed.Fsm
