/-
Helper lemmas for C13 (and C07): the tuple order, numeric membership on a cyclic scale and its
piecewise constancy, the calendar index of the dummy leap year, sorting.
Core Lean only.
-/
import EdzedModel.Interval

namespace Edzed.Interval

/-! ### `Res` -/

@[simp] theorem Res.bind_ok (a : α) (f : α → Res β) : (Res.ok a).bind f = f a := rfl
@[simp] theorem Res.bind_err (e : Err) (f : α → Res β) : (Res.err e : Res α).bind f = .err e := rfl
@[simp] theorem Res.bind_unsupported (f : α → Res β) : (Res.unsupported : Res α).bind f = .unsupported := rfl
@[simp] theorem Res.map_ok (a : α) (f : α → β) : (Res.ok a).map f = .ok (f a) := rfl

theorem Res.bind_eq_ok {x : Res α} {f : α → Res β} {b : β} (h : x.bind f = .ok b) :
    ∃ a, x = .ok a ∧ f a = .ok b := by
  cases x with
  | ok a => exact ⟨a, rfl, h⟩
  | err e => simp at h
  | unsupported => simp at h

theorem Res.map_eq_ok {x : Res α} {f : α → β} {b : β} (h : x.map f = .ok b) :
    ∃ a, x = .ok a ∧ f a = b := by
  cases x with
  | ok a => exact ⟨a, rfl, by simpa [Res.map] using h⟩
  | err e => simp [Res.map] at h
  | unsupported => simp [Res.map] at h

/-! ### the lexicographic order is a strict total order -/

theorem lt_irrefl (a : List Nat) : lt a a = false := by
  induction a with
  | nil => rfl
  | cons x xs ih => simp [lt, ih]

theorem lt_asymm : ∀ (a b : List Nat), lt a b = true → lt b a = false
  | [], [], h => by simp [lt] at h
  | [], _ :: _, _ => by simp [lt]
  | _ :: _, [], h => by simp [lt] at h
  | x :: xs, y :: ys, h => by
    simp only [lt, Bool.or_eq_true, Bool.and_eq_true, decide_eq_true_eq] at h
    simp only [lt, Bool.or_eq_false_iff, Bool.and_eq_false_iff, decide_eq_false_iff_not]
    rcases h with h | ⟨h1, h2⟩
    · exact ⟨by omega, Or.inl (by omega)⟩
    · exact ⟨by omega, Or.inr (lt_asymm xs ys h2)⟩

theorem lt_trans : ∀ (a b c : List Nat), lt a b = true → lt b c = true → lt a c = true
  | [], [], _, h, _ => by simp [lt] at h
  | [], _ :: _, [], _, h => by simp [lt] at h
  | [], _ :: _, _ :: _, _, _ => by simp [lt]
  | _ :: _, [], _, h, _ => by simp [lt] at h
  | _ :: _, _ :: _, [], _, h => by simp [lt] at h
  | x :: xs, y :: ys, z :: zs, h1, h2 => by
    simp only [lt, Bool.or_eq_true, Bool.and_eq_true, decide_eq_true_eq] at h1 h2 ⊢
    rcases h1 with h1 | ⟨e1, t1⟩ <;> rcases h2 with h2 | ⟨e2, t2⟩
    · left; omega
    · left; omega
    · left; omega
    · right; exact ⟨by omega, lt_trans xs ys zs t1 t2⟩

theorem lt_trichotomy : ∀ (a b : List Nat), lt a b = true ∨ a = b ∨ lt b a = true
  | [], [] => Or.inr (Or.inl rfl)
  | [], _ :: _ => Or.inl (by simp [lt])
  | _ :: _, [] => Or.inr (Or.inr (by simp [lt]))
  | x :: xs, y :: ys => by
    simp only [lt, Bool.or_eq_true, Bool.and_eq_true, decide_eq_true_eq, List.cons.injEq]
    rcases Nat.lt_trichotomy x y with h | h | h
    · left; left; exact h
    · rcases lt_trichotomy xs ys with t | t | t
      · left; right; exact ⟨h, t⟩
      · right; left; exact ⟨h, t⟩
      · right; right; right; exact ⟨h.symm, t⟩
    · right; right; left; exact h

theorem le_refl (a : List Nat) : le a a = true := by simp [le, lt_irrefl]

theorem le_of_lt {a b : List Nat} (h : lt a b = true) : le a b = true := by
  simp [le, lt_asymm a b h]

theorem le_total (a b : List Nat) : le a b = true ∨ le b a = true := by
  rcases lt_trichotomy a b with h | h | h
  · exact Or.inl (le_of_lt h)
  · subst h; exact Or.inl (le_refl a)
  · exact Or.inr (le_of_lt h)

theorem le_iff_lt_or_eq (a b : List Nat) : le a b = true ↔ (lt a b = true ∨ a = b) := by
  constructor
  · intro h
    rcases lt_trichotomy a b with t | t | t
    · exact Or.inl t
    · exact Or.inr t
    · simp [le, t] at h
  · rintro (h | h)
    · exact le_of_lt h
    · subst h; exact le_refl a

theorem le_trans {a b c : List Nat} (h1 : le a b = true) (h2 : le b c = true) : le a c = true := by
  rcases (le_iff_lt_or_eq a b).1 h1 with h1 | h1 <;> rcases (le_iff_lt_or_eq b c).1 h2 with h2 | h2
  · exact le_of_lt (lt_trans a b c h1 h2)
  · subst h2; exact le_of_lt h1
  · subst h1; exact le_of_lt h2
  · subst h1; subst h2; exact le_refl a

theorem lt_of_le_of_lt {a b c : List Nat} (h1 : le a b = true) (h2 : lt b c = true) : lt a c = true := by
  rcases (le_iff_lt_or_eq a b).1 h1 with h1 | h1
  · exact lt_trans a b c h1 h2
  · subst h1; exact h2

theorem le_antisymm {a b : List Nat} (h1 : le a b = true) (h2 : le b a = true) : a = b := by
  rcases lt_trichotomy a b with t | t | t
  · simp [le, t] at h2
  · exact t
  · simp [le, t] at h1

/-! ### the order of ranges (pairs) -/

theorem rangeLt_irrefl (r : Range) : rangeLt r r = false := by simp [rangeLt, lt_irrefl]

theorem rangeLt_asymm (r s : Range) (h : rangeLt r s = true) : rangeLt s r = false := by
  simp only [rangeLt, Bool.or_eq_true, Bool.and_eq_true, decide_eq_true_eq] at h
  simp only [rangeLt, Bool.or_eq_false_iff, Bool.and_eq_false_iff, decide_eq_false_iff_not]
  rcases h with h | ⟨e, h⟩
  · refine ⟨lt_asymm _ _ h, Or.inl ?_⟩
    intro e; rw [e, lt_irrefl] at h; exact Bool.noConfusion h
  · exact ⟨by rw [e]; exact lt_irrefl _, Or.inr (lt_asymm _ _ h)⟩

theorem rangeLt_trans (r s t : Range) (h1 : rangeLt r s = true) (h2 : rangeLt s t = true) :
    rangeLt r t = true := by
  simp only [rangeLt, Bool.or_eq_true, Bool.and_eq_true, decide_eq_true_eq] at h1 h2 ⊢
  rcases h1 with h1 | ⟨e1, t1⟩ <;> rcases h2 with h2 | ⟨e2, t2⟩
  · exact Or.inl (lt_trans _ _ _ h1 h2)
  · exact Or.inl (by rw [← e2]; exact h1)
  · exact Or.inl (by rw [e1]; exact h2)
  · exact Or.inr ⟨e1.trans e2, lt_trans _ _ _ t1 t2⟩

theorem rangeLt_trichotomy (r s : Range) : rangeLt r s = true ∨ r = s ∨ rangeLt s r = true := by
  simp only [rangeLt, Bool.or_eq_true, Bool.and_eq_true, decide_eq_true_eq]
  rcases lt_trichotomy r.1 s.1 with h | h | h
  · exact Or.inl (Or.inl h)
  · rcases lt_trichotomy r.2 s.2 with t | t | t
    · exact Or.inl (Or.inr ⟨h, t⟩)
    · exact Or.inr (Or.inl (Prod.ext h t))
    · exact Or.inr (Or.inr (Or.inr ⟨h.symm, t⟩))
  · exact Or.inr (Or.inr (Or.inl h))

theorem rangeLe_refl (r : Range) : rangeLe r r = true := by simp [rangeLe, rangeLt_irrefl]

theorem rangeLe_of_not (r s : Range) (h : rangeLe r s = false) : rangeLe s r = true := by
  simp only [rangeLe, Bool.not_eq_false'] at h
  simp [rangeLe, rangeLt_asymm s r h]

theorem rangeLe_iff (r s : Range) : rangeLe r s = true ↔ (rangeLt r s = true ∨ r = s) := by
  constructor
  · intro h
    rcases rangeLt_trichotomy r s with t | t | t
    · exact Or.inl t
    · exact Or.inr t
    · simp [rangeLe, t] at h
  · rintro (h | h)
    · simp [rangeLe, rangeLt_asymm r s h]
    · subst h; exact rangeLe_refl r

theorem rangeLe_trans {r s t : Range} (h1 : rangeLe r s = true) (h2 : rangeLe s t = true) :
    rangeLe r t = true := by
  rcases (rangeLe_iff r s).1 h1 with h1 | h1 <;> rcases (rangeLe_iff s t).1 h2 with h2 | h2
  · exact (rangeLe_iff r t).2 (Or.inl (rangeLt_trans r s t h1 h2))
  · subst h2; exact (rangeLe_iff r s).2 (Or.inl h1)
  · subst h1; exact (rangeLe_iff r t).2 (Or.inl h2)
  · subst h1; subst h2; exact rangeLe_refl r

theorem rangeLe_antisymm {r s : Range} (h1 : rangeLe r s = true) (h2 : rangeLe s r = true) : r = s := by
  rcases rangeLt_trichotomy r s with t | t | t
  · simp [rangeLe, t] at h2
  · exact t
  · simp [rangeLe, t] at h1

/-! ### sorting -/

/-- sorted as Python's `sorted` leaves a list: every element is `<=` every later one -/
def Sorted (l : List Range) : Prop := l.Pairwise fun a b => rangeLe a b = true

theorem mem_insertR {r x : Range} {l : List Range} : x ∈ insertR r l ↔ x = r ∨ x ∈ l := by
  induction l with
  | nil => simp [insertR]
  | cons y ys ih =>
    unfold insertR
    split
    · simp
    · simp only [List.mem_cons, ih]
      constructor
      · rintro (h | h | h)
        · exact Or.inr (Or.inl h)
        · exact Or.inl h
        · exact Or.inr (Or.inr h)
      · rintro (h | h | h)
        · exact Or.inr (Or.inl h)
        · exact Or.inl h
        · exact Or.inr (Or.inr h)

theorem insertR_sorted (r : Range) (l : List Range) (h : Sorted l) : Sorted (insertR r l) := by
  induction l with
  | nil => simp [insertR, Sorted]
  | cons y ys ih =>
    unfold insertR
    have hy := List.pairwise_cons.1 h
    split
    · next hle =>
      refine List.pairwise_cons.2 ⟨?_, h⟩
      intro z hz
      rcases List.mem_cons.1 hz with e | e
      · subst e; exact hle
      · exact rangeLe_trans hle (hy.1 z e)
    · next hle =>
      have hle' : rangeLe y r = true := rangeLe_of_not r y (by simpa using hle)
      refine List.pairwise_cons.2 ⟨?_, ih hy.2⟩
      intro z hz
      rcases mem_insertR.1 hz with e | e
      · subst e; exact hle'
      · exact hy.1 z e

theorem sortR_sorted (l : List Range) : Sorted (sortR l) := by
  induction l with
  | nil => simp [sortR, Sorted]
  | cons r rs ih => exact insertR_sorted r _ ih

theorem insertR_perm (r : Range) (l : List Range) : (insertR r l).Perm (r :: l) := by
  induction l with
  | nil => simp [insertR]
  | cons y ys ih =>
    unfold insertR
    split
    · exact List.Perm.refl _
    · exact ((List.Perm.cons y ih).trans (List.Perm.swap r y ys))

theorem sortR_perm (l : List Range) : (sortR l).Perm l := by
  induction l with
  | nil => simp [sortR]
  | cons r rs ih => exact (insertR_perm r _).trans (List.Perm.cons r ih)

theorem mem_sortR {x : Range} {l : List Range} : x ∈ sortR l ↔ x ∈ l := (sortR_perm l).mem_iff

theorem insertR_of_le_all (r : Range) (l : List Range) (h : ∀ x ∈ l, rangeLe r x = true) :
    insertR r l = r :: l := by
  cases l with
  | nil => rfl
  | cons y ys => simp [insertR, h y (by simp)]

/-- sorting a sorted list changes nothing -/
theorem sortR_of_sorted (l : List Range) (h : Sorted l) : sortR l = l := by
  induction l with
  | nil => rfl
  | cons r rs ih =>
    have hr := List.pairwise_cons.1 h
    simp only [sortR, ih hr.2]
    exact insertR_of_le_all r rs hr.1

/-- the sorted form is unique: two sorted permutations of each other are equal -/
theorem sorted_perm_unique : ∀ (l m : List Range), Sorted l → Sorted m → l.Perm m → l = m
  | [], m, _, _, p => by simpa using p.symm.eq_nil
  | a :: l, [], _, _, p => by simpa using p.eq_nil
  | a :: l, b :: m, hl, hm, p => by
    have hl' := List.pairwise_cons.1 hl
    have hm' := List.pairwise_cons.1 hm
    have hab : a = b := by
      have ha : a ∈ b :: m := p.mem_iff.1 (by simp)
      have hb : b ∈ a :: l := p.mem_iff.2 (by simp)
      rcases List.mem_cons.1 ha with e | e
      · exact e
      · rcases List.mem_cons.1 hb with e' | e'
        · exact e'.symm
        · exact rangeLe_antisymm (hl'.1 b e') (hm'.1 a e)
    subst hab
    rw [sorted_perm_unique l m hl'.2 hm'.2 (List.Perm.cons_inv p)]

/-! ### membership on a numeric cyclic scale (general; C07 builds on these) -/

/-- cyclic characterisation of the left-closed/right-open rule on a scale of period `D` -/
theorem inOpen_cyclic (D lo x hi : Nat) (hlo : lo < D) (hx : x < D) (hhi : hi < D) :
    inOpen lo x hi = true ↔ (lo = hi ∨ (x + D - lo) % D < (hi + D - lo) % D) := by
  unfold inOpen
  by_cases h : lo < hi
  · simp only [h, ↓reduceIte, Bool.and_eq_true, decide_eq_true_eq]
    have e2 : (hi + D - lo) % D = hi - lo := by
      have : hi + D - lo = (hi - lo) + D := by omega
      rw [this, Nat.add_mod_right, Nat.mod_eq_of_lt (by omega)]
    by_cases hxl : lo ≤ x
    · have e1 : (x + D - lo) % D = x - lo := by
        have : x + D - lo = (x - lo) + D := by omega
        rw [this, Nat.add_mod_right, Nat.mod_eq_of_lt (by omega)]
      rw [e1, e2]; constructor
      · intro ⟨_, h2⟩; right; omega
      · intro h'; rcases h' with h' | h'
        · omega
        · exact ⟨hxl, by omega⟩
    · have e1 : (x + D - lo) % D = x + D - lo := Nat.mod_eq_of_lt (by omega)
      rw [e1, e2]; constructor
      · intro ⟨h1, _⟩; omega
      · intro h'; rcases h' with h' | h' <;> omega
  · simp only [h, ↓reduceIte, Bool.or_eq_true, decide_eq_true_eq]
    by_cases heq : lo = hi
    · subst heq; constructor
      · intro _; left; rfl
      · intro _; omega
    · have e2 : (hi + D - lo) % D = hi + D - lo := Nat.mod_eq_of_lt (by omega)
      by_cases hxl : lo ≤ x
      · have e1 : (x + D - lo) % D = x - lo := by
          have : x + D - lo = (x - lo) + D := by omega
          rw [this, Nat.add_mod_right, Nat.mod_eq_of_lt (by omega)]
        rw [e1, e2]; constructor
        · intro _; right; omega
        · intro _; left; exact hxl
      · have e1 : (x + D - lo) % D = x + D - lo := Nat.mod_eq_of_lt (by omega)
        rw [e1, e2]; constructor
        · intro h'; rcases h' with h' | h'
          · omega
          · right; omega
        · intro h'; rcases h' with h' | h'
          · omega
          · right; omega

/-- cyclic characterisation of the closed rule on a scale of period `D` -/
theorem inClosed_cyclic (D lo x hi : Nat) (hlo : lo < D) (hx : x < D) (hhi : hi < D) :
    inClosed lo x hi = true ↔ (x + D - lo) % D ≤ (hi + D - lo) % D := by
  have red : ∀ y, y < D → (y + D - lo) % D = if lo ≤ y then y - lo else y + D - lo := by
    intro y hy
    split
    · have : y + D - lo = (y - lo) + D := by omega
      rw [this, Nat.add_mod_right, Nat.mod_eq_of_lt (by omega)]
    · exact Nat.mod_eq_of_lt (by omega)
  rw [red x hx, red hi hhi]
  unfold inClosed
  by_cases h : lo ≤ hi
  · simp only [h, ↓reduceIte, Bool.and_eq_true, decide_eq_true_eq]
    split <;> omega
  · simp only [h, ↓reduceIte, Bool.or_eq_true, decide_eq_true_eq]
    split <;> omega

/-- membership cannot change between two instants unless an endpoint lies in `(t1, t2]` -/
theorem inOpen_const (lo hi t1 t2 : Nat) (h12 : t1 ≤ t2)
    (hlo : ¬ (t1 < lo ∧ lo ≤ t2)) (hhi : ¬ (t1 < hi ∧ hi ≤ t2)) :
    inOpen lo t1 hi = inOpen lo t2 hi := by
  unfold inOpen
  by_cases h : lo < hi <;> simp only [h, ↓reduceIte]
  · by_cases a : lo ≤ t1 <;> by_cases b : t1 < hi <;> by_cases c : lo ≤ t2 <;> by_cases d : t2 < hi <;>
      simp [a, b, c, d] <;> omega
  · by_cases a : lo ≤ t1 <;> by_cases b : t1 < hi <;> by_cases c : lo ≤ t2 <;> by_cases d : t2 < hi <;>
      simp [a, b, c, d] <;> omega

/-- the closed rule changes only when a start lies in `(t1, t2]` or a stop in `[t1, t2)` -/
theorem inClosed_const (lo hi t1 t2 : Nat) (h12 : t1 ≤ t2)
    (hlo : ¬ (t1 < lo ∧ lo ≤ t2)) (hhi : ¬ (t1 ≤ hi ∧ hi < t2)) :
    inClosed lo t1 hi = inClosed lo t2 hi := by
  unfold inClosed
  by_cases h : lo ≤ hi <;> simp only [h, ↓reduceIte]
  · by_cases a : lo ≤ t1 <;> by_cases b : t1 ≤ hi <;> by_cases c : lo ≤ t2 <;> by_cases d : t2 ≤ hi <;>
      simp [a, b, c, d] <;> omega
  · by_cases a : lo ≤ t1 <;> by_cases b : t1 ≤ hi <;> by_cases c : lo ≤ t2 <;> by_cases d : t2 ≤ hi <;>
      simp [a, b, c, d] <;> omega

/-- an interval on the numeric scale: a list of `(start, stop)` -/
def containsNum (iv : List (Nat × Nat)) (x : Nat) : Bool := iv.any fun r => inOpen r.1 x r.2

theorem containsNum_const (iv : List (Nat × Nat)) (t1 t2 : Nat) (h12 : t1 ≤ t2)
    (hb : ∀ r ∈ iv, ¬ (t1 < r.1 ∧ r.1 ≤ t2) ∧ ¬ (t1 < r.2 ∧ r.2 ≤ t2)) :
    containsNum iv t1 = containsNum iv t2 := by
  induction iv with
  | nil => rfl
  | cons r rs ih =>
    have h1 := hb r (by simp)
    have := ih (fun r' hr' => hb r' (by simp [hr']))
    simp only [containsNum, List.any_cons] at this ⊢
    rw [inOpen_const r.1 r.2 t1 t2 h12 h1.1 h1.2, this]

/-! ### time of day on the microsecond scale -/

theorem validTime_shape {a : Ep} (h : validTime a = true) :
    ∃ hh m s us, a = [hh, m, s, us] ∧ hh < 24 ∧ m < 60 ∧ s < 60 ∧ us < 1000000 := by
  match a, h with
  | [hh, m, s, us], h =>
    simp only [validTime, Bool.and_eq_true, decide_eq_true_eq] at h
    exact ⟨hh, m, s, us, rfl, h.1.1.1, h.1.1.2, h.1.2, h.2⟩

theorem usPerDay_eq : usPerDay = 86400000000 := by decide

theorem timeUs_lt_day {a : Ep} (h : validTime a = true) : timeUs a < usPerDay := by
  obtain ⟨hh, m, s, us, rfl, h1, h2, h3, h4⟩ := validTime_shape h
  rw [usPerDay_eq]; simp only [timeUs]; omega

theorem time_lt_iff {a b : Ep} (ha : validTime a = true) (hb : validTime b = true) :
    lt a b = true ↔ timeUs a < timeUs b := by
  obtain ⟨h, m, s, us, rfl, h1, h2, h3, h4⟩ := validTime_shape ha
  obtain ⟨h', m', s', us', rfl, h1', h2', h3', h4'⟩ := validTime_shape hb
  simp only [lt, timeUs, Bool.or_eq_true, Bool.and_eq_true, decide_eq_true_eq,
    Bool.false_eq_true, and_false, or_false]
  omega

theorem timeUs_inj {a b : Ep} (ha : validTime a = true) (hb : validTime b = true)
    (h : timeUs a = timeUs b) : a = b := by
  rcases lt_trichotomy a b with t | t | t
  · have := (time_lt_iff ha hb).1 t; omega
  · exact t
  · have := (time_lt_iff hb ha).1 t; omega

theorem time_le_iff {a b : Ep} (ha : validTime a = true) (hb : validTime b = true) :
    le a b = true ↔ timeUs a ≤ timeUs b := by
  have := time_lt_iff hb ha
  unfold le
  cases h : lt b a
  · simp; rw [h] at this; simp at this; exact this
  · simp; rw [h] at this; simp at this; omega

theorem cmpOpen_eq_inOpen {a x b : Ep} (ha : validTime a = true) (hx : validTime x = true)
    (hb : validTime b = true) : cmpOpen a x b = inOpen (timeUs a) (timeUs x) (timeUs b) := by
  have e1 : lt a b = decide (timeUs a < timeUs b) := by
    rw [Bool.eq_iff_iff]; simp [time_lt_iff ha hb]
  have e2 : lt x b = decide (timeUs x < timeUs b) := by
    rw [Bool.eq_iff_iff]; simp [time_lt_iff hx hb]
  have e3 : le a x = decide (timeUs a ≤ timeUs x) := by
    rw [Bool.eq_iff_iff]; simp [time_le_iff ha hx]
  unfold cmpOpen inOpen
  rw [e1, e2, e3]
  by_cases h : timeUs a < timeUs b <;> simp [h]

/-! ### dates on the day-of-year scale -/

theorem daysInMonth_pos (y mo : Nat) : 1 ≤ daysInMonth y mo := by
  unfold daysInMonth; split <;> (try split) <;> omega

theorem daysBefore_succ (y mo : Nat) (h : 1 ≤ mo) :
    daysBefore y (mo + 1) = daysBefore y mo + daysInMonth y mo := by
  have : mo ≠ 0 := by omega
  simp [daysBefore, this]

theorem daysBefore_mono (y : Nat) {mo mo' : Nat} (h1 : 1 ≤ mo) (h : mo < mo') :
    daysBefore y mo + daysInMonth y mo ≤ daysBefore y mo' := by
  induction mo' with
  | zero => omega
  | succ n ih =>
    by_cases e : mo = n
    · subst e; rw [daysBefore_succ y mo h1]; exact Nat.le_refl _
    · have := ih (by omega)
      rw [daysBefore_succ y n (by omega)]; omega

theorem validDate_shape {a : Ep} (h : validDate a = true) :
    ∃ mo d, a = [mo, d] ∧ 1 ≤ mo ∧ mo ≤ 12 ∧ 1 ≤ d ∧ d ≤ daysInMonth Gen.dummyYear mo := by
  match a, h with
  | [mo, d], h =>
    simp only [validDate, validDateIn, Bool.and_eq_true, decide_eq_true_eq] at h
    exact ⟨mo, d, rfl, h.1.1.1, h.1.1.2, h.1.2, h.2⟩

theorem daysBefore_13 : daysBefore Gen.dummyYear 13 = 366 := by decide

theorem dayIndex_lt {a : Ep} (h : validDate a = true) : dayIndex a < 366 := by
  obtain ⟨mo, d, rfl, h1, h2, h3, h4⟩ := validDate_shape h
  have := daysBefore_mono Gen.dummyYear h1 (show mo < 13 by omega)
  rw [daysBefore_13] at this
  simp only [dayIndex]; omega

theorem date_lt_iff {a b : Ep} (ha : validDate a = true) (hb : validDate b = true) :
    lt a b = true ↔ dayIndex a < dayIndex b := by
  obtain ⟨mo, d, rfl, h1, h2, h3, h4⟩ := validDate_shape ha
  obtain ⟨mo', d', rfl, h1', h2', h3', h4'⟩ := validDate_shape hb
  simp only [lt, dayIndex, Bool.or_eq_true, Bool.and_eq_true, decide_eq_true_eq,
    Bool.false_eq_true, and_false, or_false]
  rcases Nat.lt_trichotomy mo mo' with h | h | h
  · have := daysBefore_mono Gen.dummyYear h1 h
    constructor
    · intro _; omega
    · intro _; left; exact h
  · subst h; constructor
    · rintro (h | ⟨_, h⟩) <;> omega
    · intro h; right; exact ⟨rfl, by omega⟩
  · have := daysBefore_mono Gen.dummyYear h1' h
    constructor
    · rintro (h' | ⟨h', _⟩) <;> omega
    · intro _; omega

theorem dayIndex_inj {a b : Ep} (ha : validDate a = true) (hb : validDate b = true)
    (h : dayIndex a = dayIndex b) : a = b := by
  rcases lt_trichotomy a b with t | t | t
  · have := (date_lt_iff ha hb).1 t; omega
  · exact t
  · have := (date_lt_iff hb ha).1 t; omega

theorem date_le_iff {a b : Ep} (ha : validDate a = true) (hb : validDate b = true) :
    le a b = true ↔ dayIndex a ≤ dayIndex b := by
  have := date_lt_iff hb ha
  unfold le
  cases h : lt b a
  · simp; rw [h] at this; simp at this; exact this
  · simp; rw [h] at this; simp at this; omega

theorem cmpClosed_eq_inClosed {a x b : Ep} (ha : validDate a = true) (hx : validDate x = true)
    (hb : validDate b = true) : cmpClosed a x b = inClosed (dayIndex a) (dayIndex x) (dayIndex b) := by
  have e1 : le a b = decide (dayIndex a ≤ dayIndex b) := by
    rw [Bool.eq_iff_iff]; simp [date_le_iff ha hb]
  have e2 : le x b = decide (dayIndex x ≤ dayIndex b) := by
    rw [Bool.eq_iff_iff]; simp [date_le_iff hx hb]
  have e3 : le a x = decide (dayIndex a ≤ dayIndex x) := by
    rw [Bool.eq_iff_iff]; simp [date_le_iff ha hx]
  unfold cmpClosed inClosed
  rw [e1, e2, e3]
  by_cases h : dayIndex a ≤ dayIndex b <;> simp [h]

/-! ### every accepted endpoint is a valid one (constructor checks) -/

def epLen : Kind → Nat
  | .time => 4
  | .date => 2
  | .datetime => 7

theorem validEp_length {k : Kind} {e : Ep} (h : validEp k e = true) : e.length = epLen k := by
  cases k with
  | time => obtain ⟨_, _, _, _, rfl, _⟩ := validTime_shape h; rfl
  | date => obtain ⟨_, _, rfl, _⟩ := validDate_shape h; rfl
  | datetime =>
    match e, h with
    | [_, _, _, _, _, _, _], _ => rfl

theorem checkEp_eq_ok {k : Kind} {e e' : Ep} (h : checkEp k e = .ok e') : e' = e ∧ validEp k e = true := by
  unfold checkEp at h
  split at h
  · next hv => cases h; exact ⟨rfl, hv⟩
  · cases h

theorem bind_checkEp_valid {k : Kind} {x : Res Ep} {e : Ep} (h : x.bind (checkEp k) = .ok e) :
    validEp k e = true := by
  obtain ⟨a, _, h2⟩ := Res.bind_eq_ok h
  obtain ⟨rfl, hv⟩ := checkEp_eq_ok h2
  exact hv

theorem convertTimeStr_valid {s : List Char} {e : Ep} (h : convertTimeStr s = .ok e) :
    validTime e = true := by
  unfold convertTimeStr convertTimeStripped at h
  split at h
  · cases h
  · split at h
    · split at h
      · next hv => cases h; exact hv
      · exact bind_checkEp_valid (k := .time) h
    · exact bind_checkEp_valid (k := .time) h

theorem isoDateTime_valid {s : List Char} {e : Ep} (h : isoDateTime s = .ok e) :
    validDateTime e = true := by
  unfold isoDateTime at h
  split at h
  · split at h
    · next hv => cases h; exact hv
    · cases h
  · next hne => exact absurd h (hne e)

theorem convertDateTimeStr_valid {s : List Char} {e : Ep} (h : convertDateTimeStr s = .ok e) :
    validDateTime e = true := by
  unfold convertDateTimeStr convertDateTimeStripped at h
  split at h
  · split at h
    · next hi => cases h; exact isoDateTime_valid hi
    · exact bind_checkEp_valid (k := .datetime) h
    · split at h <;> cases h
    · cases h
  · exact bind_checkEp_valid (k := .datetime) h

theorem convertStr_valid {k : Kind} {s : List Char} {e : Ep} (h : convertStr k s = .ok e) :
    validEp k e = true := by
  unfold convertStr at h
  split at h
  · cases h
  · cases k with
    | time => exact convertTimeStr_valid h
    | date => exact bind_checkEp_valid (k := .date) h
    | datetime => exact convertDateTimeStr_valid h

theorem convertSeq_valid {k : Kind} {l : List Int} {e : Ep} (h : convertSeq k l = .ok e) :
    validEp k e = true := by
  unfold convertSeq at h
  cases k <;> simp only at h <;> split at h <;> first
    | cases h
    | (obtain ⟨a, _, h2⟩ := Res.bind_eq_ok h; obtain ⟨rfl, hv⟩ := checkEp_eq_ok h2; exact hv)

theorem convert_valid {k : Kind} {x : EpIn} {e : Ep} (h : convert k x = .ok e) : validEp k e = true := by
  cases x with
  | str s => exact convertStr_valid h
  | ints l => exact convertSeq_valid h
  | bad => cases h

theorem pair_valid {k : Kind} {x y : Res Ep} {r : Range}
    (hx : ∀ e, x = .ok e → validEp k e = true) (hy : ∀ e, y = .ok e → validEp k e = true)
    (h : (x.bind fun a => y.bind fun b => .ok (a, b)) = .ok r) :
    validEp k r.1 = true ∧ validEp k r.2 = true := by
  obtain ⟨a, ha, h2⟩ := Res.bind_eq_ok h
  obtain ⟨b, hb, h3⟩ := Res.bind_eq_ok h2
  cases h3
  exact ⟨hx a ha, hy b hb⟩

theorem single_valid {k : Kind} {x : Res Ep} {r : Range}
    (hx : ∀ e, x = .ok e → validEp k e = true)
    (h : (x.bind fun a => .ok (a, a)) = .ok r) :
    validEp k r.1 = true ∧ validEp k r.2 = true := by
  obtain ⟨a, ha, h2⟩ := Res.bind_eq_ok h
  cases h2
  exact ⟨hx a ha, hx a ha⟩

theorem parseRangeStr_valid {k : Kind} {s : List Char} {r : Range} (h : parseRangeStr k s = .ok r) :
    validEp k r.1 = true ∧ validEp k r.2 = true := by
  unfold parseRangeStr at h
  split at h
  · exact pair_valid (fun _ => convertStr_valid) (fun _ => convertStr_valid) h
  · split at h
    · exact single_valid (fun _ => convertStr_valid) h
    · cases h

theorem parseRange_valid {k : Kind} {x : RangeIn} {r : Range} (h : parseRange k x = .ok r) :
    validEp k r.1 = true ∧ validEp k r.2 = true := by
  unfold parseRange at h
  split at h
  · exact parseRangeStr_valid h
  · exact pair_valid (fun _ => convert_valid) (fun _ => convert_valid) h
  · split at h
    · exact single_valid (fun _ => convert_valid) h
    · cases h
  · cases h
  · cases h

theorem parseRanges_valid {k : Kind} : ∀ {l : List RangeIn} {iv : List Range},
    parseRanges k l = .ok iv → ∀ r ∈ iv, validEp k r.1 = true ∧ validEp k r.2 = true
  | [], iv, h => by cases h; simp
  | x :: xs, iv, h => by
    obtain ⟨a, ha, h2⟩ := Res.bind_eq_ok h
    obtain ⟨as, has, h3⟩ := Res.bind_eq_ok h2
    cases h3
    intro r hr
    rcases List.mem_cons.1 hr with e | e
    · subst e; exact parseRange_valid ha
    · exact parseRanges_valid has r e

theorem parseRanges_length {k : Kind} : ∀ {l : List RangeIn} {iv : List Range},
    parseRanges k l = .ok iv → iv.length = l.length
  | [], iv, h => by cases h; rfl
  | x :: xs, iv, h => by
    obtain ⟨a, _, h2⟩ := Res.bind_eq_ok h
    obtain ⟨as, has, h3⟩ := Res.bind_eq_ok h2
    cases h3
    simp [parseRanges_length has]

/-- what `parseInterval` returns is `sortR` of the ranges parsed in order -/
theorem parseInterval_eq_ok {k : Kind} {spec : IvIn} {iv : List Range} (h : parseInterval k spec = .ok iv) :
    ∃ l raw, parseRanges k l = .ok raw ∧ iv = sortR raw := by
  unfold parseInterval at h
  split at h
  · split at h
    · cases h
    · obtain ⟨raw, h1, h2⟩ := Res.map_eq_ok h
      exact ⟨_, raw, h1, h2.symm⟩
  · obtain ⟨raw, h1, h2⟩ := Res.map_eq_ok h
    exact ⟨_, raw, h1, h2.symm⟩
  · cases h

/-! ### integer sequences -/

theorem intsToNats_ofNat (e : List Nat) (h : ∀ v ∈ e, v < 2147483648) :
    intsToNats (e.map Int.ofNat) = .ok e := by
  unfold intsToNats
  have h1 : (e.map Int.ofNat).any (fun v => decide (v ≥ cIntLimit) || decide (v < -cIntLimit)) = false := by
    rw [List.any_eq_false]
    intro v hv
    obtain ⟨n, hn, rfl⟩ := List.mem_map.1 hv
    have := h n hn
    intro hc
    rcases Bool.or_eq_true_iff.1 hc with h' | h' <;>
      (have h'' := of_decide_eq_true h'; simp only [cIntLimit, Int.ofNat_eq_natCast] at h''; omega)
  have h2 : (e.map Int.ofNat).any (fun v => decide (v < 0)) = false := by
    rw [List.any_eq_false]
    intro v hv
    obtain ⟨n, _, rfl⟩ := List.mem_map.1 hv
    simp
  simp only [h1, h2, Bool.false_eq_true, ↓reduceIte, List.map_map]
  congr 1
  have hm : ∀ (l : List Nat), l.map (Int.toNat ∘ Int.ofNat) = l := by
    intro l; induction l with
    | nil => rfl
    | cons x xs ih => simp [ih]
  exact hm e

theorem validEp_small {k : Kind} {e : Ep} (h : validEp k e = true) : ∀ v ∈ e, v < 2147483648 := by
  cases k with
  | time =>
    obtain ⟨_, _, _, _, rfl, _, _, _, _⟩ := validTime_shape h
    intro v hv; simp at hv; omega
  | date =>
    obtain ⟨mo, d, rfl, _, _, _, h4⟩ := validDate_shape h
    have : daysInMonth Gen.dummyYear mo ≤ 31 := by unfold daysInMonth; split <;> (try split) <;> omega
    intro v hv; simp at hv; omega
  | datetime =>
    match e, h with
    | [y, mo, d, hh, mi, s, us], h =>
      simp only [validEp, validDateTime, validDateIn, validTime, Bool.and_eq_true, decide_eq_true_eq] at h
      have : daysInMonth y mo ≤ 31 := by unfold daysInMonth; split <;> (try split) <;> omega
      intro v hv; simp at hv; omega

/-- a full-length valid endpoint given as integers converts to itself -/
theorem convertSeq_valid_id {k : Kind} {e : Ep} (h : validEp k e = true) :
    convertSeq k (e.map Int.ofNat) = .ok e := by
  have hl := validEp_length h
  have hi := intsToNats_ofNat e (validEp_small h)
  unfold convertSeq
  cases k <;> simp only [epLen] at hl <;>
    simp [hl, hi, checkEp, h, padZeros]

end Edzed.Interval
