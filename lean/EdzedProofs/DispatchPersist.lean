/-
C11 and the translations made for other properties (C06: persistence, C18: Repeat), given their meaning on
the DISPATCH state.  Kept out of the model file so that the compiled driver does not depend on them.

Persistence: `AddonPersistence.event` (edzed/addons.py) wraps `SBlock.event` of every Input, Counter
and FSM.  The wrapper is translated from the source for C06 (`Gen.TrP2.eventActs`, tools/py2lean_persist.py:
the primitive actions in program order).  Here the actions are given their meaning on the DISPATCH state:
`super().event(...)` is the model's `deliver`, a save (`save_persistent_state` -> `get_state()`) is logged
(ghost) with the value `_event_active` of the block has at that moment.
-/
import EdzedModel.Dispatch
import EdzedModel.Gen.TranslatedPersist2
import EdzedModel.Gen.TranslatedRepeat
import EdzedProofs.Dispatch

namespace Edzed.Dispatch
open Edzed.Gen.TrP2

/-- dispatch state + `self.persistent` + ghost: `_event_active` of the block at each of its saves -/
structure PSt where
  st : St
  persistent : Bool
  saves : List Bool := []
  /-- `_persist_event_active` at entry: this call is nested in another event() of the same block (since the
      repair 2ca67fc only the outermost call saves) -/
  nested : Bool := false

/-- the meaning of the wrapper's actions; `sup` = outcome of `super().event(etype, **data)`.
    `some r`: the method was left with result / exception `r` -/
def runPersistPrims (d : Nat) (sup : St × Res) : PSt → List Prim → PSt × Option Res
  | p, [] => (p, Option.none)
  | p, .superEvent :: r => runPersistPrims d sup { p with st := sup.1 } r
  | p, .fails .superEvent :: r => runPersistPrims d sup { p with st := sup.1 } r
  | p, .disable :: r => runPersistPrims d sup { p with persistent := false } r
  | p, .reraise :: _ => (p, some sup.2)
  | p, .save :: r => runPersistPrims d sup { p with saves := p.st.active d :: p.saves } r
  | p, .fails .save :: r => runPersistPrims d sup { p with saves := p.st.active d :: p.saves } r
  | p, .ret :: _ => (p, some sup.2)
  | p, .propagate :: _ => (p, some (.exc .other))
  | p, _ :: r => runPersistPrims d sup p r

def isExc : Res → Bool
  | .exc _ => true
  | .ret _ => false

/-- `AddonPersistence.event` as translated, around the model's `SBlock.event` (`sync` = `self.sync_state`,
    `saveRaises`: `save_persistent_state` suppresses its errors, an escaping one is kept as a possibility) -/
def persistEvent (c : Circ) (fuel : Nat) (sync saveRaises : Bool) (p : PSt) (d : Nat) (et : EType) (data : Data) :
    PSt × Option Res :=
  let sup := deliver c fuel p.st d et data
  runPersistPrims d sup p
    (eventActs (isExc sup.2) p.persistent sup.1.error.isNone sync (!(sup.1.out d).isUndef) saveRaises p.nested)

/-! ### `Repeat._event` as translated for C18 (`Gen.TrR.repeatEventActs`) -/

/-- the meaning of the actions of `Repeat._event` as translated from the source
    (`Gen.TrR.repeatEventActs`, tools/py2lean_repeat.py), in terms of this model; an exception ends
    the list, `ret` returns None -/
def runRepActs (dlv : Dlv) (b : Blk) (d : Nat) : St → Data → List Gen.TrR.Act → St × Res
  | s, _, [] => (s, .ret .none)
  | s, data, a :: as =>
    match a with
    | .warnOnce => runRepActs dlv b d s data as
    | .setItemFromItem dst src => runRepActs dlv b d s (data.set dst ((data.get? src).getD .none)) as
    | .setOutput n => andThen (setOutput dlv b d s (.int n)) fun s1 => runRepActs dlv b d s1 data as
    | .send rep =>
      andThen (sendEdges dlv d s [repeatEdge b] (withRepeat data rep)) fun s1 => runRepActs dlv b d s1 data as
    | .enqueue => runRepActs dlv b d { s with rcur := upd s.rcur d (some (data, 0)) } data as
    | .ret => (s, .ret .none)

end Edzed.Dispatch
