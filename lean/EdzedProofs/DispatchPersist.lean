/-
C11 and persistence: `AddonPersistence.event` (edzed/addons.py) wraps `SBlock.event` of every Input, Counter
and FSM.  The wrapper is translated from the source for C06 (`Gen.TrP2.eventActs`, tools/py2lean_persist.py:
the primitive actions in program order).  Here the actions are given their meaning on the DISPATCH state:
`super().event(...)` is the model's `deliver`, a save (`save_persistent_state` -> `get_state()`) is logged
(ghost) with the value `_event_active` of the block has at that moment.
-/
import EdzedModel.Dispatch
import EdzedModel.Gen.TranslatedPersist2
import EdzedProofs.Dispatch

namespace Edzed.Dispatch
open Edzed.Gen.TrP2

/-- dispatch state + `self.persistent` + ghost: `_event_active` of the block at each of its saves -/
structure PSt where
  st : St
  persistent : Bool
  saves : List Bool := []

/-- the meaning of the wrapper's actions; `sup` = outcome of `super().event(etype, **data)`.
    `some r`: the method was left with result / exception `r` -/
def runPersistPrims (d : Nat) (sup : St × Res) : PSt → List Prim → PSt × Option Res
  | p, [] => (p, Option.none)
  | p, .superEvent :: r => runPersistPrims d sup { p with st := sup.1 } r
  | p, .fails .superEvent :: r => runPersistPrims d sup { p with st := sup.1 } r
  | p, .disable :: r => runPersistPrims d sup { p with persistent := false } r
  | p, .reraise :: _ => (p, some sup.2)
  | p, .save :: r => runPersistPrims d sup { p with saves := p.st.active d :: p.saves } r
  | p, .fails .save :: r => runPersistPrims d sup { p with saves := p.st.active d :: p.saves } r
  | p, .ret :: _ => (p, some sup.2)
  | p, .propagate :: _ => (p, some (.exc .other))
  | p, _ :: r => runPersistPrims d sup p r

def isExc : Res → Bool
  | .exc _ => true
  | .ret _ => false

/-- `AddonPersistence.event` as translated, around the model's `SBlock.event` (`sync` = `self.sync_state`,
    `saveRaises`: `save_persistent_state` suppresses its errors, an escaping one is kept as a possibility) -/
def persistEvent (c : Circ) (fuel : Nat) (sync saveRaises : Bool) (p : PSt) (d : Nat) (et : EType) (data : Data) :
    PSt × Option Res :=
  let sup := deliver c fuel p.st d et data
  runPersistPrims d sup p
    (eventActs (isExc sup.2) p.persistent sup.1.error.isNone sync (!(sup.1.out d).isUndef) saveRaises)

end Edzed.Dispatch
